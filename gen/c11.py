"""C11 — every built-in and custom unit name resolves, coherently with its family.
Proof: coq/Properties/C11.v over coq/Units/Generated/UnitTable.v, which is
regenerated here from the tree being checked (tools/gen_tables.py through the
read-only hooks).  Tie: the generated table itself (finite obligations in the
kernel), the extracted lookup/algebra model against the tree's resolver on
every name, every prefix x name, case variants, random identifiers, custom-unit
contexts, and fend_core::evaluate on `1 <name>`, `(1 a) == (1 b)`,
`(1 <prefix><name>) == (<factor> <name>)`."""
import json
from fractions import Fraction
import vlib
from vlib import sx, Sym, parse_sx, try_parse
import units_common as U
from units_common import e_str

TRUSTED_BASE = [
    'Coq 8.16.1 kernel + vm_compute (finite obligations over the regenerated table; the exhaustive sweeps are complete over that table)',
    'tools/gen_tables.py (translator) and ' + vlib.REPO + '/core/src/verif_hooks/units.rs: the table module compiled a second time from the same source file (#[path]) for ALL_UNIT_DEFS, include_str! of the same file for the string literals; short prefixes and currency identifiers are found by probing the lookup function with every literal',
    'hook resolve/eval_expr: units::query_unit / eval::evaluate_to_value on a fresh Context, decoded from Value::serialize and reduced by the tree\'s own create_unit_value_from_value',
    'evaluator is an oracle: the model takes the value of each definition BODY from the tree\'s evaluator (gen_bodies); lookup, prefix rules, alias handling, unit construction and prefix composition are computed by the model',
    'extraction ExtrOcamlBasic -> OCaml, modelrun/driver.ml; cross-checked against vm_compute on a sample; the same model is also run in the kernel on all names (C11_model_matches_implementation)',
    'harness/src/bin/h_units.rs; deterministic fake exchange rates (multiples of 1/4)',
]
ASSUMPTIONS = [
    'magnitudes and exponents in the unit table are real (the translator refuses complex ones)',
    'str::to_uppercase is observed only through comparison with ASCII currency identifiers (upper-survey op checks the model\'s expansion table against every scalar value)',
    'inexact scales (pi^2, tan, ln) are compared with relative tolerance 1e-12..1e-15, exact ones exactly',
]

KNOWN_FAMILY = ['sqdm', 'cbdm', 'dm2', 'dm3']
KNOWN_SINGPLUR = ['gal']
KNOWN_UNREACHABLE = ['T', 'link']
KEYWORDS = ['to', 'as', 'in', 'per', 'of', 'mod', 'xor', 'and', 'or', 'XOR', 'AND', 'OR']


def impl_resolve(c, ctx, idents, timeout=None):
    return [U.i_lres(o) for o in c.impl('units', [sx([Sym('resolve'), ctx, i]) for i in idents], timeout=timeout)]

def model_resolve(c, mctx, extra, idents, cross=True):
    lines = [sx([Sym('resolve'), mctx, extra, e_str(i)]) for i in idents]
    return [U.m_lres(o) for o in c.model('units', lines, cross=cross)]

def l2(c, ctx, exprs):
    """fend_core::evaluate on a fresh context per expression -> [('o'|'e'|'crash', text)]"""
    outs = U.impl_patient(c, [sx([Sym('eval'), ctx, e]) for e in exprs])
    res = []
    for o in outs:
        p = try_parse(o)
        if isinstance(p, list) and p and isinstance(p[0], list) and len(p[0]) == 2:
            res.append((p[0][0].decode(), p[0][1].decode('utf-8', 'replace')))
        else:
            res.append(('crash', o[:200]))
    return res

def outside(c, m):
    """the model declines (irrational root: outside the modelled fragment)"""
    if m[0] == 'err' and m[1] == 11:
        c.dist['model-outside-fragment'] = c.dist.get('model-outside-fragment', 0) + 1
        return True
    return False

def frac_lit(q):
    return '(%d/%d)' % (q.numerator, q.denominator)


def check(c):
    try:
        _check(c)
        U.regression_witnesses(c)
    finally:
        c.repr_drift += U.DRIFT['pi_approximation_flagged_exact']
        if U.DRIFT['pi_approximation_flagged_exact']:
            c.notes.append('values flagged exact by fend although they hold its approximation of pi (flag dropped in to_hashmap_and_scale): %d' % U.DRIFT['pi_approximation_flagged_exact'])


def _check(c):
    r = c.rng
    c.rule = ('exhaustive: every table name and currency identifier (resolve status, model = implementation value, `1 <name>`, singular == plural), '
              'every prefix-side name x every name (status, model vs implementation); sampled: values of prefixed names, `(1 <p><u>) == (<factor> <u>)`, '
              'ASCII-case variants, random identifiers, custom-unit contexts (all five attribute kinds, precedence, C/F mode, absent/failing exchange rates); '
              'non-trivial = a name with a plural, a duplicate, a family member, a prefixed name, a case variant that differs, a custom context; distinct by input text')
    t = U.table(c)
    if t is None:
        return
    ok = c.proof(['C11'], extra_targets=['Extract/XUnits.vo'])
    if c.tier == 'thorough' and ok:
        c.thorough_proof(['C11'])
    c.exhaustive = True
    c.extra['exhaustive_scope'] = 'the unit table of the tree being checked: all names, all prefix-side names x all names'
    if not ok and c.proof_failed and c.proof_failed.get('stage') == 'make':
        # a finite obligation no longer checks: name the offending table entries
        for thm, ents in U.diagnose().items():
            for e in ents[:5]:
                c.violation('table-' + thm, {'kind': 'finite-obligation', 'theorem': thm, 'table_entry': e,
                                             'how_to_see': 'fend: 1 %s' % e, 'all_failing': ents[:30]})

    names = t['all_names']
    defs = t['defs']
    name_val = dict(t['name_vals'])
    ctx = U.CTX_DEFAULT
    mctx = U.m_ctx()

    # ---- model assumption: to_uppercase table
    sv = try_parse(c.impl('units', [sx([Sym('upper-survey')])], timeout=120)[0])
    want = {223: 'SS', 305: 'I', 383: 'S', 64256: 'FF', 64257: 'FI', 64258: 'FL', 64259: 'FFI', 64260: 'FFL', 64261: 'ST', 64262: 'ST'}
    got = {cp: ''.join(chr(x) for x in up) for cp, up in sv} if isinstance(sv, list) else None
    if got != want:
        c.violation('uppercase-table-drift', {'kind': 'tie', 'layer': 'model assumption upper_cp (Units/Defs.v)', 'rust': repr(got)}, no_input=True)

    # ---- 1. every name: implementation value vs extracted model; `1 <name>` at L2
    mres = model_resolve(c, mctx, [], names)
    l2n = l2(c, ctx, ['1 ' + n for n in names])
    dup = {}
    for g, s, p, d in defs:
        for n in {s, p or s}:
            dup[n] = dup.get(n, 0) + 1
    for n, m, e in zip(names, mres, l2n):
        iv = name_val[n]
        nontrivial = dup.get(n, 0) > 1 or any(n == p for _, _, p, _ in defs if p) or bool(gen_family(n))
        c.note_case('name:' + n, nontrivial, 'name-duplicate' if dup.get(n, 0) > 1 else ('name-currency' if n in t['currencies'] else 'name-plain'))
        if iv[0] != 'ok' or e[0] != 'o':
            c.violation('name-does-not-resolve', {'kind': 'impl-vs-spec', 'input': '1 ' + n, 'resolver': iv[0], 'evaluate': e})
            continue
        if outside(c, m):
            continue
        if not U.lres_same(m, iv):
            c.violation('name-model-differs', {'kind': 'impl-vs-model', 'layer': 'L1 units::query_unit', 'name': n,
                                               'impl': repr(iv)[:600], 'model': repr(m)[:600]}, no_input=True)
    c.sample({'op': 'resolve', 'name': 'km', 'impl': repr(impl_resolve(c, ctx, ['km'])[0])[:300]})

    # ---- 1b. configurations: decimal separator style x C/F mode.  The resolver's records must not depend
    #      on the separator style, and `1 <name>`, singular == plural, the families mean the same everywhere
    cfg_names = names if c.tier == 'thorough' else r.sample(names, 400) + [n for n in ('inch', 'lb', 'pound', 'EUR', 'USD', 'gallon', 'calorie', 'mile', 'C', 'F', 'mC', 'sqdm') if n in names]
    rec = {}
    for nm, cx in (('dot', U.CTX_DEFAULT), ('comma', U.CTX_COMMA), ('dot-coulomb', [1, 1, []]), ('comma-coulomb', [1, 1, [], 1])):
        rec[nm] = c.impl('units', [sx([Sym('resolve'), cx, n]) for n in cfg_names])
    for n, a, b, d, e in zip(cfg_names, rec['dot'], rec['comma'], rec['dot-coulomb'], rec['comma-coulomb']):
        c.note_case('cfg-resolve:' + n, True, 'config-resolver-record')
        if a != b or d != e or (a != d and n not in ('C', 'F')):
            c.violation('resolver-depends-on-configuration', {'kind': 'impl-vs-spec', 'ident': n, 'input': '1 ' + n, 'dot': a[:300], 'comma': b[:300],
                                                              'dot_coulomb': d[:300], 'comma_coulomb': e[:300]})
    U.config_sweep(c, ['1 ' + n for n in cfg_names] + ['(1 %s) == (1 %s)' % (s_, p_) for g_, s_, p_, d_ in defs if p_ and p_ != s_][:150]
                   + ['1.5 ' + n for n in cfg_names[:150]], 'name-resolution')

    # ---- 2. singular == plural (L2) and the reduced records
    pairs = [(s, p) for g, s, p, d in defs if p and p != s]
    eq = l2(c, ctx, ['(1 %s) == (1 %s)' % (s, p) for s, p in pairs])
    for (s, p), e in zip(pairs, eq):
        c.note_case('sp:' + s, True, 'singular-plural')
        same_q = (name_val[s][0] == 'ok' and name_val[p][0] == 'ok' and name_val[s][2] is not None and name_val[p][2] is not None
                  and U.quantity(name_val[s][2])[0] == U.quantity(name_val[p][2])[0]
                  and U.real_same(U.quantity(name_val[s][2])[1], U.quantity(name_val[p][2])[1], U.quantity(name_val[s][2])[2]))
        if e == ('o', 'true') and same_q:
            continue
        if s in KNOWN_SINGPLUR and c.known_finding('gal_plural'):
            continue
        c.violation('singular-plural-differ', {'kind': 'impl-vs-spec', 'input': '(1 %s) == (1 %s)' % (s, p), 'impl': e, 'records_equal': same_q})

    # ---- 3. families sqX = X2 = X^2, cbX = X3 = X^3 (L2)
    stems = dict(t['stems'])
    fam = []
    for n in names:
        for st, k in gen_family(n):
            v = stems.get(st) or name_val.get(st)
            if v and v[0] == 'ok' and v[2] is not None and v[2][0]['base']:
                fam.append((n, st, k))
    eq = l2(c, ctx, ['(1 %s) == (1 %s^%d)' % (n, st, k) for n, st, k in fam])
    for (n, st, k), e in zip(fam, eq):
        c.note_case('fam:' + n, True, 'family')
        if e == ('o', 'true'):
            continue
        if n in KNOWN_FAMILY and c.known_finding('sq_family_dm'):
            continue
        c.violation('family-incoherent', {'kind': 'impl-vs-spec', 'input': '(1 %s) == (1 %s^%d)' % (n, st, k), 'impl': e})

    # ---- 4. prefixes: status of every prefix ++ name, model vs implementation (exhaustive)
    prefixes = t['prefixes']
    status_lines = []
    for p, codes in t['pstatus']:
        for i in range(0, len(names), 120):
            status_lines.append(sx([Sym('status'), mctx, []] + [e_str(p + u) for u in names[i:i + 120]]))
    mo = c.model('units', status_lines, cross=False)
    k = 0
    nbad = 0
    legal_ok = []
    for p, codes in t['pstatus']:
        mcodes = []
        for i in range(0, len(names), 120):
            pr = try_parse(mo[k]); k += 1
            mcodes += pr if isinstance(pr, list) else [None] * len(names[i:i + 120])
        for u, ci, cm in zip(names, codes, mcodes):
            c.evaluations += 1
            if ci == 0:
                legal_ok.append((p, u))
                c.note_case('pre:' + p + '+' + u, True, 'prefixed-resolves')
            else:
                c.dist['prefixed-rejected'] = c.dist.get('prefixed-rejected', 0) + 1
            if cm == 4:
                c.dist['model-outside-fragment'] = c.dist.get('model-outside-fragment', 0) + 1
            elif ci != cm and nbad < 20:
                nbad += 1
                c.violation('prefixed-status-model-differs', {'kind': 'impl-vs-model', 'layer': 'L1 units::query_unit', 'ident': p + u,
                                                              'impl_status': ci, 'model_status': cm}, no_input=True)
    # values of prefixed names (sample in quick, all in thorough)
    samp = legal_ok if c.tier == 'thorough' else r.sample(legal_ok, min(3000, len(legal_ok)))
    iv = impl_resolve(c, ctx, [p + u for p, u in samp])
    mv = model_resolve(c, mctx, [], [p + u for p, u in samp])
    for (p, u), a, b in zip(samp, iv, mv):
        if not outside(c, b) and not U.lres_same(b, a):
            c.violation('prefixed-value-model-differs', {'kind': 'impl-vs-model', 'layer': 'L1 units::query_unit', 'ident': p + u,
                                                         'impl': repr(a)[:500], 'model': repr(b)[:500]}, no_input=True)
    # `(1 <p><u>) == (<factor> <u>)` at L2, spec: factor = value of the prefix's own definition
    first = {}
    for g, s, p, d in defs:
        for n in (s, p or s):
            first.setdefault(n, d)
    short = dict(t['short'])
    body_val = dict(t['bodies'])
    def prefix_factor(p):
        """the rational factor a prefix stands for, from the value of its own definition body"""
        d = short.get(p) or first.get(p)      # prefix side: short prefixes are looked up first
        v = body_val.get(gen_tables_body(d))
        if not v or v[0] != 'ok' or v[1]['val'][0] != 's':
            return None
        q = v[1]['val'][1]
        for u, e in v[1]['units']:
            if u['base'] or e.denominator != 1 or u['scale'][0] != 's':
                return None
            q *= u['scale'][1] ** int(e)
        return q
    def rule_of(d):
        if d is None:
            return None
        d = d.strip()
        if d == '$CURRENCY':
            return 'l'
        rl = 'n'
        for pre, code in (('l@', 'l'), ('lp@', 'lp'), ('s@', 's'), ('sp@', 'sp')):
            if d.startswith(pre):
                d = d[len(pre):]; rl = code
        return rl
    def legal(p, u):
        rp = rule_of(short.get(p) or first.get(p))
        ru = 'l' if u in t['currencies'] else rule_of(first.get(u))
        return (rp, ru) in (('lp', 'l'), ('sp', 's'))
    # C and F mean coulomb / farad after a prefix but celsius / fahrenheit alone (C/F mode)
    plain = [(p, u) for p, u in legal_ok if legal(p, u) and u not in ('C', 'F') and (p + u) not in name_val
             and prefix_factor(p) is not None and is_plain_split(p, u, prefixes, name_val)]
    samp2 = plain if c.tier == 'thorough' else r.sample(plain, min(1500, len(plain))) + [(p, u) for p, u in plain if (p + u) in KEYWORDS]
    eq = l2(c, ctx, ['(1 %s%s) == (%s %s)' % (p, u, frac_lit(prefix_factor(p)), u) for p, u in samp2])
    for (p, u), e in zip(samp2, eq):
        if e != ('o', 'true'):
            if (p + u) in KEYWORDS and e[0] == 'e' and c.known_finding('prefixed_name_is_keyword'):
                continue
            c.violation('prefixed-name-wrong-factor', {'kind': 'impl-vs-spec', 'input': '(1 %s%s) == (%s %s)' % (p, u, frac_lit(prefix_factor(p)), u), 'impl': e})
    if samp2:
        c.sample({'op': 'L2', 'input': '(1 %s%s) == (%s %s)' % (samp2[0][0], samp2[0][1], frac_lit(prefix_factor(samp2[0][0])), samp2[0][1]), 'impl': eq[0]})

    # permitted prefixes exist: T (tesla) and link are shadowed by earlier definitions
    shadow = l2(c, ctx, ['1 mT', '1 kilolink'])
    for inp, e in zip(['1 mT', '1 kilolink'], shadow):
        if e[0] != 'o':
            if not c.known_finding('shadowed_prefixable'):
                c.violation('permitted-prefix-missing', {'kind': 'impl-vs-spec', 'input': inp, 'impl': e})

    # ---- 5. case variants and random identifiers: implementation vs model
    base = r.sample(names, min(len(names), 250 if c.tier == 'quick' else 960)) + [p + u for p, u in r.sample(legal_ok, 150 if c.tier == 'quick' else 1500)]
    variants = []
    for n in base:
        for v in {n.upper(), n.lower(), n.swapcase(), n.title(), ''.join(ch.upper() if r.random() < 0.5 else ch.lower() for ch in n)}:
            if v != n and v:
                variants.append(v)
    alpha = 'abcdefghijklmnopqrstuvwxyzABCDEFGHIJKLMNOPQRSTUVWXYZ'
    odd = ['µ', 'μ', '°', 'ſ', 'ﬆ', 'ß', 'ı', '_', '2', '3', '$', '%', "'", '"', '€', 'ł']
    rnd = ["'ab'", "'a'", "''", "'", "'''", "'kg", "kg'", 'uſd', 'ﬆn', 'uSd', 'Usd', 'KM', 'Km', 'kM', 'nT', 'pT', 'MM', 'mM', 'Mm', 'kilokilometer', 'kkm',
           'millimilli', 'kilo', 'k', 'da', 'dam', 'dada', 'hectoare', 'KiB', 'kib', 'KIB', 'kB', 'Kb', 'meters2', 'sqkm', 'SQKM', 'c', 'C', 'F', 'mC', 'mF', 'oC', '°C', '°c']
    n_rnd = 600 if c.tier == 'quick' else 8000
    for _ in range(n_rnd):
        kind = r.random()
        if kind < 0.3:
            s = ''.join(r.choice(alpha) for _ in range(r.randint(1, 6)))
        elif kind < 0.55:
            s = r.choice(prefixes) + r.choice(names)[: r.randint(1, 8)]
        elif kind < 0.7:
            s = r.choice(prefixes) + r.choice(prefixes) + r.choice(names)
        elif kind < 0.85:
            s = r.choice(names) + r.choice(names)
        else:
            s = ''.join(r.choice(alpha + ''.join(odd)) for _ in range(r.randint(1, 5)))
        rnd.append(s)
    idents = variants + rnd
    ia = impl_resolve(c, ctx, idents)
    ma = model_resolve(c, mctx, [], idents)
    for s, a, b in zip(idents, ia, ma):
        c.note_case('id:' + s, a[0] == 'ok', 'variant-resolves' if a[0] == 'ok' else 'variant-rejected')
        if a[0] in ('panic', 'crash', 'bad'):
            c.violation('resolver-crash', {'kind': 'impl-crash', 'ident': s, 'impl': repr(a)[:300]})
        elif not outside(c, b) and not U.lres_same(b, a):
            c.violation('ident-model-differs', {'kind': 'impl-vs-model', 'layer': 'L1 units::query_unit', 'ident': s,
                                                'impl': repr(a)[:500], 'model': repr(b)[:500]}, no_input=True)

    # ---- 6. contexts: coulomb/farad mode, absent / failing exchange rates
    for cf, rates, label in [(1, 1, 'coulomb-farad'), (0, 0, 'no-rates'), (0, 2, 'failing-rates')]:
        ids = ['C', 'F', 'mC', 'kF', '°C', 'oF', 'USD', 'EUR', 'dollar', 'cents', '$', 'kiloEUR', 'usd', 'meter', 'BASE_CURRENCY', 'JPY', 'zl']
        ictx = [cf, rates, []]
        a = impl_resolve(c, ictx, ids)
        b = model_resolve(c, U.m_ctx(cf_mode=(cf == 0), rates=(rates == 1)), [], ids)
        for s, x, y in zip(ids, a, b):
            c.note_case('ctx:%s:%s' % (label, s), True, 'context-' + label)
            # definitions that depend on a currency were dumped with the fake rates: only names
            # whose own definition is the currency path are comparable without rates
            if rates != 1 and s in ('dollar', 'cents', '$', 'zl'):
                if x[0] == 'ok':
                    c.violation('currency-without-rates', {'kind': 'impl-vs-spec', 'ident': s, 'context': label, 'impl': repr(x)[:300]})
                continue
            if not outside(c, y) and not U.lres_same(y, x):
                c.violation('context-model-differs', {'kind': 'impl-vs-model', 'layer': 'L1 units::query_unit', 'ident': s, 'context': label,
                                                      'impl': repr(x)[:400], 'model': repr(y)[:400]}, no_input=True)
        if rates != 1:
            e = l2(c, ictx, ['1 USD', '1 dollar', '1 kiloEUR', '1 meter', '1 USD to EUR'])
            if not (e[0][0] == 'e' and e[1][0] == 'e' and e[2][0] == 'e' and e[3][0] == 'o' and e[4][0] == 'e'):
                c.violation('exchange-rate-handler-missing-not-an-error', {'kind': 'impl-vs-spec', 'context': label, 'impl': e})
    e = l2(c, [1, 1, []], ['(1 C) == (1 coulomb)', '(1 F) == (1 farad)'])
    e2 = l2(c, [0, 1, []], ['(1 C) == (1 °C)', '(1 F) == (1 °F)', '(1 mC) == (0.001 coulomb)'])
    if [x for x in e + e2 if x != ('o', 'true')]:
        c.violation('cf-mode', {'kind': 'impl-vs-spec', 'impl': e + e2})

    # ---- 7. custom units: every attribute kind, precedence, first match
    scen = custom_scenarios(c)
    for label, customs, ids, expect in scen:
        ictx = [0, 1, [[s, p, d, a] for s, p, d, a in customs]]
        bodies = sorted({d for _, _, d, _ in customs if d != '!'})
        bv = [U.i_lres(o) for o in c.impl('units', [sx([Sym('eval-expr'), ictx, b]) for b in bodies])]
        extra = [[e_str(b), U.e_lres(v)] for b, v in zip(bodies, bv)]
        reps = 4 if label in ('case-collision', 'shared-plural') else 1
        a = impl_resolve(c, ictx, ids * reps)
        b = model_resolve(c, U.m_ctx(customs=U.customs_for_model(customs)), extra, ids) * reps
        for s, x, y in zip(ids * reps, a, b):
            c.note_case('custom:%s:%s' % (label, s), True, 'custom-units')
            if x[0] in ('panic', 'crash', 'bad'):
                c.violation('resolver-crash', {'kind': 'impl-crash', 'ident': s, 'customs': customs, 'impl': repr(x)[:300]})
            elif not outside(c, y) and not U.lres_same(y, x):
                c.violation('custom-model-differs', {'kind': 'impl-vs-model', 'layer': 'L1 units::query_unit', 'ident': s, 'customs': customs,
                                                     'impl': repr(x)[:400], 'model': repr(y)[:400]}, no_input=True)
        if expect:
            expect = expect * reps
            res = l2(c, ictx, [i for i, _ in expect])
            for (inp, want), got in zip(expect, res):
                if want == 'ERR':
                    good = got[0] == 'e'
                elif want == 'OK':
                    good = got[0] == 'o'
                else:
                    good = got == ('o', want)
                if not good:
                    if label == 'long-prefix-attribute' and c.known_finding('custom_long_prefix_ignored'):
                        continue
                    c.violation('custom-unit-rule', {'kind': 'impl-vs-spec', 'input': inp, 'customs': customs, 'want': want, 'impl': got})
    # custom units defined AFTER the context has been used: every later statement must see them
    # (spec: the answer of a fresh context that was given the same custom units first)
    defs_pool = [('pound', 'pounds', '2 kg', 'none'), ('foot', 'feet', '0.3 m', 'l'), ('mile', 'miles', '2 km', 'l'), ('hour', 'hours', '1000 s', 'l'),
                 ('inch', 'inches', '3 cm', 'none'), ('gallon', 'gallons', '4 liters', 'none'), ('gram', 'grams', '2/1000 kilogram', 'l'),
                 ('byte', 'bytes', '10 bits', 'l'), ('dozen', '', '13', 'alias'), ('kilo', '', '1024', 'lp'), ('percent', '', '0.02', 'alias')]
    probes = ['1 lb to kg', '1 lbs to kg', '1 sqft to m^2', '1 kilofoot to m', '1 ft to m', '1 yard to m', '1 mph to m/s', '1 mi to m', '1 hr to s', '1 h to s',
              '1 kph to m/s', '1 mil to m', '1 gal to m^3', '1 pint to m^3', '1 mpg to m^-2', '1 g to kg', '1 mg to kg', '1 kg to kilogram', '1 kB to bits',
              '1 MiB to bits', '2 dozen', '1 kilometer to m', '5 % to unitless', '1 ounce to kg', '1 psi to Pa', '1 acre to m^2', '1 knot to m/s', '1 day to s']
    hist = []
    for j in range(12 if c.tier == 'quick' else 120):
        steps = []
        ds = r.sample(defs_pool, r.randint(1, 4))
        first = r.sample(probes, r.randint(3, 8))
        steps += [('e', x) for x in first]
        for d in ds:
            steps.append(('d',) + d)
            again = r.sample(first, min(len(first), r.randint(2, 5))) + r.sample(probes, 2)
            steps += [('e', x) for x in again]
        hist.append(steps)
    hist.append([('e', '1 lb to kg'), ('d', 'pound', 'pounds', '2 kg', 'none'), ('e', '1 lb to kg'), ('e', '1 sqft to m^2'), ('e', '1 kilofoot to m'),
                 ('d', 'foot', 'feet', '0.3 m', 'l'), ('e', '1 sqft to m^2'), ('e', '1 kilofoot to m'), ('e', '1 lb to kg'), ('e', '1 yard to m')])
    U.history_check(c, hist, 'custom-unit-history')
    # a custom unit whose definition mentions itself
    cyc = l2(c, [0, 1, [['selfref', '', '2 selfref', 'none']]], ['1 selfref'])
    c.note_case('custom:cycle', True, 'custom-units')
    if cyc[0][0] == 'crash':
        if not c.known_finding('custom_cycle_abort'):
            c.violation('custom-unit-cycle-aborts', {'kind': 'impl-crash', 'input': '1 selfref', 'customs': [['selfref', '', '2 selfref', 'none']], 'impl': cyc[0]})


def gen_family(n):
    import gen_tables
    return gen_tables.family_of(n)

def gen_tables_body(d):
    import gen_tables
    return gen_tables.strip_rule(d) if d is not None else None

def is_plain_split(p, u, prefixes, name_val):
    """no earlier split of p+u has a prefix-side name followed by a name (python copy of the
    kernel's pair_is_plain, used only to choose which L2 equalities to ask for)"""
    s = p + u
    for k in range(1, len(p)):
        if s[:k] in prefixes and s[k:] in name_val:
            return False
    return True


def custom_scenarios(c):
    r = c.rng
    sc = []
    sc.append(('attributes',
               [('bar', 'bars', '3 meters', 'l'), ('baz', '', '2 kg', 's'), ('qux', '', 'bar', 'alias'), ('zap', 'zaps', '!', 'l'), ('plain', 'plains', '5 seconds', 'none')],
               ['bar', 'bars', 'kilobar', 'kilobars', 'kbar', 'mbaz', 'kbaz', 'baz', 'millibaz', 'qux', 'quxs', 'zap', 'kilozap', 'zaps', 'Bars', 'BAR', 'KILOBAR',
                'megabars', 'plain', 'plains', 'kiloplain', 'kplain', 'meter', 'km', 'barbaz', 'bazbar'],
               [('1 kilobars to m', '3000 m'), ('1 mbaz to g', '2 g'), ('1 qux', '1 bar'), ('1 kiloplain', 'ERR'), ('1 kplain', 'ERR'), ('1 kbar', 'ERR'),
                ('1 millibaz', 'ERR'), ('1 zaps to zap', '1 zap'), ('1 kilozap to zap', '1000 zaps'), ('2 plains to s', '10 s')]))
    sc.append(('precedence',
               [('mile', 'miles', '2 km', 'none'), ('k', '', '7', 'none'), ('USD', '', '3 kg', 'none'), ('C', '', '5 m', 'none'), ('mile', '', '9 km', 'none')],
               ['mile', 'miles', 'k', 'kg', 'USD', 'usd', 'C', 'F', 'mC', 'Mile', 'kmile'],
               [('1 mile to km', '2 km'), ('1 miles to km', '2 km'), ('1 league to km', '6 km'), ('(1 k) == 7', 'true'), ('1 kg to g', '1000 g'), ('1 USD to kg', '3 kg'),
                ('1 C to m', '5 m'), ('1 kmile', 'ERR')]))
    sc.append(('long-prefix-attribute',
               [('foo', '', '1000', 'lp'), ('bar', 'bars', '3 meters', 'l')],
               ['foo', 'foometer', 'foobar', 'foobars', 'kilofoo'],
               [('1 foo', '1000'), ('1 foometer to m', '1000 m'), ('1 foobars to m', '3000 m')]))
    # several custom units that collide only through ASCII case or through a shared plural: the first
    # DEFINED matching entry wins (exact pass first, then the case-insensitive pass), whatever the hash order
    sc.append(('case-collision',
               [('Foo', '', '2 m', 'none'), ('foo', '', '3 m', 'none'), ('FOO', '', '5 m', 'none'), ('fOo', '', '7 m', 'none'),
                ('Zed', 'Zeds', '11 m', 'none'), ('zed', 'zeds', '13 m', 'none'), ('ZED', '', '17 m', 'none')],
               ['foo', 'Foo', 'FOO', 'fOo', 'fOO', 'FOo', 'foO', 'zed', 'Zed', 'ZED', 'zeD', 'zeds', 'Zeds', 'ZEDS', 'zEds'],
               [('1 foo to m', '3 m'), ('1 Foo to m', '2 m'), ('1 FOO to m', '5 m'), ('1 fOo to m', '7 m'), ('1 fOO to m', '2 m'), ('1 foO to m', '2 m'),
                ('1 zeD to m', '11 m'), ('1 ZEDS to m', '11 m'), ('1 zeds to m', '13 m'), ('1 ZED to m', '17 m'), ('1 zEds to m', '11 m')]))
    sc.append(('shared-plural',
               [('ox', 'oxen', '2 m', 'none'), ('oxen', '', '7 m', 'none'), ('goose', 'geese', '3 m', 'none'), ('geese', 'geeses', '5 m', 'none'),
                ('Ox', 'oxes', '11 m', 'none'), ('moose', '', '13 m', 'none'), ('MOOSE', 'moose', '17 m', 'none')],
               ['ox', 'oxen', 'Oxen', 'goose', 'geese', 'geeses', 'Geese', 'Ox', 'oxes', 'OX', 'moose', 'MOOSE', 'Moose'],
               [('1 oxen to m', '2 m'), ('1 geese to m', '3 m'), ('1 geeses to m', '5 m'), ('1 Ox to m', '11 m'), ('1 OX to m', '2 m'),
                ('1 moose to m', '13 m'), ('1 MOOSE to m', '17 m'), ('1 Moose to m', '13 m')]))
    # random fresh names, every attribute, bodies over built-in units and earlier customs
    for j in range(2 if c.tier == 'quick' else 12):
        customs = []
        pool = []
        for i in range(r.randint(2, 5)):
            nm = 'zz' + ''.join(r.choice('abcdefgh') for _ in range(r.randint(2, 4)))
            if nm in pool:
                continue
            attr = r.choice(['none', 'l', 's', 'lp', 'alias'])
            body = r.choice(['3 meters', '2 kg', '1000', '1/4', '!', 'meter/second', '5 bar', '12 inches', 'kg m^2'] + ['2 ' + x for x in pool])
            if attr in ('lp',) and body == '!':
                body = '10'
            customs.append((nm, r.choice(['', nm + 's']), body, attr))
            pool.append(nm)
        ids = []
        for nm, pl, body, attr in customs:
            ids += [nm, pl or nm, 'kilo' + nm, 'k' + nm, 'm' + (pl or nm), nm.upper(), nm + 'meter']
        sc.append(('random%d' % j, customs, ids, []))
    return sc


def replay(c, obj):
    print(json.dumps(obj, indent=1, ensure_ascii=False))
    customs = obj.get('customs') or []
    ictx = [0, 1, [list(x) for x in customs]]
    if 'input' in obj:
        print('evaluate:', l2(c, ictx, [obj['input']])[0])
    ident = obj.get('ident') or obj.get('name') or obj.get('table_entry')
    if ident:
        print('impl resolver :', repr(impl_resolve(c, ictx, [ident])[0])[:800])
        if not customs:
            print('model         :', repr(model_resolve(c, U.m_ctx(), [], [ident], cross=False)[0])[:800])
    return 0
