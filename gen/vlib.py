"""Shared machinery of bin/vcheck: proof step (make + axiom audit), building
the implementation from /repo's working tree, crash-isolated batch runners for
the implementation harness and the extracted model, vm_compute cross-sample,
known-findings handling, evidence writing.  Python stdlib only."""
import json, os, random, re, select, subprocess, sys, threading, time, hashlib, fcntl, shutil
from concurrent.futures import ThreadPoolExecutor

ROOT = os.path.abspath(os.path.join(os.path.dirname(__file__), '..'))
COQ = os.path.join(ROOT, 'coq')
CACHE = os.path.join(ROOT, '.cache')
TARGET = os.path.join(CACHE, 'target')
# The repository under test.  Registered checks always use /repo; VERIF_REPO
# is only for trying the checks against a scratch worktree (seeded mutants)
# without disturbing /repo: the harness crates are then copied to
# .cache/alt/<tag>/ with their path dependency rewritten.
REPO = os.environ.get('VERIF_REPO', '/repo').rstrip('/')
NPROC = min(16, os.cpu_count() or 4)

ENV = dict(os.environ, CARGO_NET_OFFLINE='true', CARGO_TARGET_DIR=TARGET, RUST_BACKTRACE='0')

AXIOM_ALLOW = {
    # standard-library axioms, allowed only for the properties named
    'FunctionalExtensionality.functional_extensionality_dep': {'C15'},
    'ClassicalDedekindReals.sig_not_dec': {'C15'},
    'ClassicalDedekindReals.sig_forall_dec': {'C15'},
    'Classical_Prop.classic': {'C15'},
}

# C15 only: Coq's primitive 63-bit integers and the standard library's axioms
# specifying them (Coq.Numbers.Cyclic.Int63), pulled in by the `interval`
# tactic's big-number arithmetic (Bignums over Uint63).  Standard library /
# kernel primitives, listed by name as Print Assumptions shows them.
for _n in ('add addc addcarryc addmuldiv compare div diveucl diveucl_21 eqb head0 int land leb lor lsl lsr ltb lxor '
           'mod mul mulc sub subc subcarryc tail0').split():
    AXIOM_ALLOW['PrimInt63.' + _n] = {'C15'}
for _n in ('add_spec addc_def_spec addcarryc_def_spec addmuldiv_def_spec compare_def_spec div_spec diveucl_21_spec '
           'diveucl_def_spec eqb_correct eqb_refl head0_spec land_spec leb_spec lor_spec lsl_spec lsr_spec ltb_spec '
           'lxor_spec mod_spec mul_spec mulc_spec of_to_Z sub_spec subc_def_spec subcarryc_def_spec tail0_spec').split():
    AXIOM_ALLOW['Uint63.' + _n] = {'C15'}

FORBIDDEN = re.compile(r'\b(Admitted|admit|Axiom|Axioms|Parameter|Parameters|Conjecture|Conjectures|Hypothesis|Hypotheses|Variable|Variables)\b|Unset\s+Guard|bypass_check|type-in-type|impredicative-set|Admit\s+Obligations|Unset\s+Universe\s+Checking|Unset\s+Positivity')

# ----------------------------------------------------------------------------
# s-expressions (same wire format as coq/Base/Prelude.v and harness/src/sx.rs)

def sx_str(b):
    if isinstance(b, str):
        b = b.encode('utf-8')
    out = ['"']
    for c in b:
        if c in (34, 92):
            out.append('\\' + chr(c))
        elif 32 <= c <= 126:
            out.append(chr(c))
        else:
            out.append('\\x%02x' % c)
    out.append('"')
    return ''.join(out)

def sx(x):
    """python -> wire: int -> atom, str/bytes -> string atom, list/tuple -> list,
    Sym(name) -> bare symbol"""
    if isinstance(x, bool):
        return '1' if x else '0'
    if isinstance(x, int):
        return str(x)
    if isinstance(x, Sym):
        return x.name
    if isinstance(x, (str, bytes)):
        return sx_str(x)
    return '(' + ' '.join(sx(e) for e in x) + ')'

class Sym:
    def __init__(self, name): self.name = name

def cps(s):
    return [ord(c) for c in s]

def parse_sx(text):
    """wire -> python: atoms -> int, strings -> bytes, lists -> list"""
    i = 0
    n = len(text)
    stack = []
    while True:
        if i >= n:
            raise ValueError('truncated sx: %r' % text[:80])
        c = text[i]
        if c == ' ':
            i += 1; continue
        if c == '(':
            stack.append([]); i += 1; continue
        if c == ')':
            i += 1
            atom = stack.pop()
        elif c == '"':
            i += 1
            v = bytearray()
            while True:
                ch = text[i]
                if ch == '"':
                    i += 1; break
                if ch == '\\':
                    if text[i + 1] == 'x':
                        v.append(int(text[i + 2:i + 4], 16)); i += 4
                    else:
                        v.append(ord(text[i + 1])); i += 2
                else:
                    v.append(ord(ch)); i += 1
            atom = bytes(v)
        elif c == '-' or c.isdigit():
            j = i + 1
            while j < n and text[j].isdigit():
                j += 1
            atom = int(text[i:j]); i = j
        else:
            j = i
            while j < n and (text[j].isalnum() or text[j] in '-_'):
                j += 1
            if j == i:
                raise ValueError('bad sx at %d: %r' % (i, text[:80]))
            atom = text[i:j].encode(); i = j
        if not stack:
            return atom
        stack[-1].append(atom)

def try_parse(text):
    try:
        return parse_sx(text)
    except Exception:
        return None

# ----------------------------------------------------------------------------
# batch runner with crash / hang isolation

_SETPRIV = shutil.which('setpriv')

def _run_chunk(cmd, lines, timeout, env=None, limit_as=None, stack_unlimited=False):
    """Feed lines to a line-oriented worker; returns one output string per
    line.  A worker that dies yields ("abort" <status>) for the line it was
    working on, one that does not answer within `timeout` seconds yields
    ("hang"); the worker is restarted on the next line."""
    outs = []
    pos = 0
    pre = ''
    if limit_as:
        pre += 'ulimit -v %d; ' % (limit_as // 1024)
    if stack_unlimited:
        pre += 'ulimit -s unlimited 2>/dev/null || ulimit -s 1000000; '
    if _SETPRIV:
        # a worker stuck in a computation must not outlive a check that is killed from outside
        cmd = [_SETPRIV, '--pdeathsig', 'KILL', '--'] + list(cmd)
    while pos < len(lines):
        import tempfile
        errf = tempfile.TemporaryFile()
        if pre:
            p = subprocess.Popen(['/bin/sh', '-c', pre + 'exec "$@"', 'sh'] + cmd, stdin=subprocess.PIPE,
                                 stdout=subprocess.PIPE, stderr=errf, env=env)
        else:
            p = subprocess.Popen(cmd, stdin=subprocess.PIPE, stdout=subprocess.PIPE,
                                 stderr=errf, env=env)
        todo = lines[pos:]
        def feed(p=p, todo=todo):
            try:
                for ln in todo:
                    p.stdin.write((ln + '\n').encode('utf-8', 'surrogatepass'))
                p.stdin.close()
            except Exception:
                pass
        th = threading.Thread(target=feed, daemon=True)
        th.start()
        fd = p.stdout.fileno()
        buf = b''
        got = 0
        deadline = time.time() + timeout
        dead = False
        while got < len(todo):
            nl = buf.find(b'\n')
            if nl >= 0:
                outs.append(buf[:nl].decode('utf-8', 'replace'))
                buf = buf[nl + 1:]
                got += 1
                deadline = time.time() + timeout
                continue
            left = deadline - time.time()
            if left <= 0:
                p.kill(); p.wait()
                outs.append('("hang")')
                got += 1
                dead = True
                break
            r, _, _ = select.select([fd], [], [], min(left, 1.0))
            if r:
                chunk = os.read(fd, 1 << 16)
                if not chunk:
                    p.wait()
                    why = 'unknown'
                    try:
                        errf.seek(0, 2); n = errf.tell(); errf.seek(max(0, n - 8000)); tail = errf.read().decode('utf-8', 'replace')
                        m = re.search(r'memory allocation of (\d+) bytes failed', tail)
                        if 'overflowed its stack' in tail:
                            why = 'stack-overflow'
                        elif m:
                            why = 'alloc-%s' % m.group(1)
                        elif 'capacity overflow' in tail:
                            why = 'capacity-overflow'
                        elif tail.strip():
                            why = re.sub(r'[^A-Za-z0-9 _.:-]', ' ', tail.strip().splitlines()[-1])[:80]
                    except Exception:
                        pass
                    outs.append('("abort" %d "%s")' % (p.returncode if p.returncode is not None else -999, why))
                    got += 1
                    dead = True
                    break
                buf += chunk
        if not dead:
            try:
                p.wait(timeout=10)
            except Exception:
                p.kill()
        errf.close()
        pos += got
    return outs

def run_batch(cmd, lines, timeout=10, workers=NPROC, env=ENV, limit_as=None, stack_unlimited=False, min_chunk=50):
    if not lines:
        return []
    # several chunks per worker: expensive lines tend to be neighbours, and one slow chunk would otherwise
    # keep a single process busy long after the others are done
    nchunks = max(1, min(workers * 6, len(lines) // min_chunk or 1))
    size = (len(lines) + nchunks - 1) // nchunks
    chunks = [lines[i:i + size] for i in range(0, len(lines), size)]
    with ThreadPoolExecutor(max_workers=min(workers, len(chunks))) as ex:
        res = list(ex.map(lambda ch: _run_chunk(cmd, ch, timeout, env, limit_as, stack_unlimited), chunks))
    out = []
    for r in res:
        out.extend(r)
    assert len(out) == len(lines), (len(out), len(lines))
    return out

# ----------------------------------------------------------------------------

class Lock:
    def __init__(self, name):
        os.makedirs(CACHE, exist_ok=True)
        self.path = os.path.join(CACHE, name)
    def __enter__(self):
        self.f = open(self.path, 'w')
        fcntl.flock(self.f, fcntl.LOCK_EX)
    def __exit__(self, *a):
        fcntl.flock(self.f, fcntl.LOCK_UN)
        self.f.close()

def sh(cmd, timeout=1800, cwd=None, env=None):
    p = subprocess.run(cmd, shell=isinstance(cmd, str), cwd=cwd, env=env or ENV, timeout=timeout,
                       stdout=subprocess.PIPE, stderr=subprocess.STDOUT)
    return p.returncode, p.stdout.decode('utf-8', 'replace')

COQ_WARN = '-notation-overridden,-deprecated-hint-without-locality,-deprecated-instance-without-locality'

def _coq_files():
    files = []
    for line in open(os.path.join(COQ, '_CoqProject')):
        line = line.strip()
        if line.endswith('.v') and not line.startswith('-'):
            if os.path.exists(os.path.join(COQ, line)) and line not in files:
                files.append(line)
    return files

def _coq_deps(files):
    """coqdep over the project: {file.v: [dep.v, ...]} (project-internal deps only)"""
    rc, out = sh(['coqdep', '-Q', '.', 'FendV'] + files, cwd=COQ, timeout=300)
    deps = {}
    for line in out.splitlines():
        if ':' not in line or line.startswith('***') or line.startswith('Warning'):
            continue
        lhs, rhs = line.split(':', 1)
        tg = [t for t in lhs.split() if t.endswith('.vo')]
        if not tg:
            continue
        v = tg[0][:-1]
        if v.startswith('./'):
            v = v[2:]
        ds = []
        for d in rhs.split():
            if d.endswith('.vo'):
                d = d[:-1]
                if d.startswith('./'):
                    d = d[2:]
                if d != v and not os.path.isabs(d):
                    ds.append(d)
        deps[v] = ds
    return deps

def _stale(v, deps):
    vo = os.path.join(COQ, v + 'o')
    if not os.path.exists(vo):
        return True
    t = os.path.getmtime(vo)
    if os.path.getmtime(os.path.join(COQ, v)) > t:
        return True
    for d in deps.get(v, []):
        dvo = os.path.join(COQ, d + 'o')
        if not os.path.exists(dvo) or os.path.getmtime(dvo) > t:
            return True
    return False

def coq_make(targets, timeout=3000):
    """Full .vo build of the given targets (relative to coq/, 'X.vo'; none =
    every file of _CoqProject).  A small make replacement: dependencies from
    coqdep, one coqc per out-of-date file, a per-file lock (so that several
    checks / developers can build different files of the same tree at the
    same time), independent files in parallel.  Returns (rc, output)."""
    files = _coq_files()
    deps = _coq_deps(files)
    want = [t[:-1] if t.endswith('.vo') else t for t in targets] or files
    for w in want:
        if w not in deps and not os.path.exists(os.path.join(COQ, w)):
            return 2, 'no such Coq file: %s\n' % w
    # cone, topologically ordered
    order = []
    seen = set()
    def visit(v):
        if v in seen:
            return
        seen.add(v)
        for d in deps.get(v, []):
            visit(d)
        order.append(v)
    for w in want:
        visit(w)
    log = []
    failed = {}
    done = {}
    lock = threading.Lock()
    sem = threading.Semaphore(NPROC)
    t_end = time.time() + timeout
    def build(v):
        # wait for deps
        for d in deps.get(v, []):
            done[d].wait()
            if d in failed:
                failed[v] = 'dependency %s failed' % d
                done[v].set()
                return
        try:
            lk = os.path.join(CACHE, 'coqlocks', v.replace('/', '__') + '.lock')
            os.makedirs(os.path.dirname(lk), exist_ok=True)
            with open(lk, 'w') as lf:
                fcntl.flock(lf, fcntl.LOCK_EX)
                try:
                    if _stale(v, deps):
                        left = max(60, t_end - time.time())
                        with sem:
                            rc, out = sh(['coqc', '-q', '-Q', '.', 'FendV', '-w', COQ_WARN, v], cwd=COQ, timeout=left)
                        with lock:
                            log.append('COQC %s\n%s' % (v, out))
                        if rc != 0:
                            failed[v] = out
                            try:
                                os.remove(os.path.join(COQ, v + 'o'))
                            except OSError:
                                pass
                finally:
                    fcntl.flock(lf, fcntl.LOCK_UN)
        except Exception as e:
            failed[v] = repr(e)
            with lock:
                log.append('COQC %s\nbuild tool error: %r' % (v, e))
        done[v].set()
    for v in order:
        done[v] = threading.Event()
    with ThreadPoolExecutor(max_workers=max(NPROC, len(order))) as ex:
        list(ex.map(build, order))
    out = '\n'.join(log)
    if failed:
        first = [v for v in order if v in failed][0]
        out += '\nFAILED: %s\n' % ', '.join(v for v in order if v in failed)
        return 1, out
    return 0, out

AREAS = {
    # area -> (extraction target, Run module, run function)
}

def area_info(area):
    cap = area[0].upper() + area[1:]
    return ('Extract/X%s.vo' % cap, 'FendV.%s.Run' % cap, 'run_%s_line' % area)

def build_model(area):
    tgt, _, _ = area_info(area)
    rc, out = coq_make([tgt])
    if rc != 0:
        raise RuntimeError('model build failed for area %s:\n%s' % (area, out[-3000:]))
    with Lock('ocaml_%s.lock' % area):
        rc, out = sh([os.path.join(ROOT, 'tools', 'build_model.sh'), area], timeout=900)
    if rc != 0:
        raise RuntimeError('ocaml build failed for area %s:\n%s' % (area, out[-3000:]))
    return os.path.join(CACHE, 'modelrun', area, 'modelrun')

_impl_built = {}
def build_impl(area, profile='debug', plain=False):
    """cargo build of the harness binary h_<area> (or, plain=True, p_<area> from
    harness_plain/: fend-core WITHOUT the verif-hooks feature) against /repo's
    current working tree"""
    key = (area, profile, plain)
    if key in _impl_built:
        return _impl_built[key]
    crate = 'harness_plain' if plain else 'harness'
    binname = ('p_' if plain else 'h_') + area
    tdir = os.path.join(CACHE, 'target-plain') if plain else TARGET
    crate_dir = os.path.join(ROOT, crate)
    if REPO != '/repo':
        tag = hashlib.sha1(REPO.encode()).hexdigest()[:8]
        alt = os.path.join(CACHE, 'alt', tag)
        with Lock('alt_%s.lock' % tag):
            for cr in ('harness', 'harness_plain'):
                dst = os.path.join(alt, cr)
                shutil.rmtree(dst, ignore_errors=True)
                shutil.copytree(os.path.join(ROOT, cr), dst, ignore=shutil.ignore_patterns('target'))
                mf = os.path.join(dst, 'Cargo.toml')
                txt = open(mf).read().replace('"/repo/core"', '"%s/core"' % REPO)
                open(mf, 'w').write(txt)
        crate_dir = os.path.join(alt, crate)
        tdir = os.path.join(alt, 'target-plain' if plain else 'target')
    cmd = ['cargo', 'build', '--offline', '--manifest-path', os.path.join(crate_dir, 'Cargo.toml'), '--bin', binname]
    if profile == 'release':
        cmd.append('--release')
    rc, out = sh(cmd, timeout=1800, env=dict(ENV, CARGO_TARGET_DIR=tdir))
    if rc != 0:
        raise RuntimeError('cargo build of harness failed:\n' + out[-4000:])
    path = os.path.join(tdir, profile, binname)
    _impl_built[key] = path
    return path

_cli_built = {}
def build_cli():
    """cargo build of /repo/cli (the fend binary) into the private target dir"""
    if 'cli' in _cli_built:
        return _cli_built['cli']
    cmd = ['cargo', 'build', '--offline', '--manifest-path', os.path.join(REPO, 'Cargo.toml'), '-p', 'fend',
           '--features', 'verif-hooks']
    tcli = os.path.join(CACHE, 'target-cli') if REPO == '/repo' else os.path.join(CACHE, 'alt', hashlib.sha1(REPO.encode()).hexdigest()[:8], 'target-cli')
    env = dict(ENV, CARGO_TARGET_DIR=tcli)
    rc, out = sh(cmd, timeout=1800, env=env)
    if rc != 0:
        raise RuntimeError('cargo build of fend cli failed:\n' + out[-4000:])
    _cli_built['cli'] = os.path.join(tcli, 'debug', 'fend')
    return _cli_built['cli']

# ----------------------------------------------------------------------------

class Check:
    def __init__(self, prop, tier, seed):
        self.prop = prop
        self.tier = tier
        self.seed = seed
        self.rng = random.Random(seed * 1000003 + int(prop[1:]))
        self.t0 = time.time()
        self.violations = []        # (name, replay path, no_input)
        self.known_hits = {}        # class -> count
        self.evaluations = 0
        self.nontrivial = set()
        self.samples = []
        self.dist = {}
        self.obligations = 0
        self.discharged = 0
        self.theorems = []
        self.axioms = {}
        self.checker_cmd = ''
        self.notes = []
        self.repr_drift = 0
        self.vm_cross = 0
        self.exhaustive = None
        self.rule = ''
        self.proof_failed = None
        self.extra = {}
        self.known = load_known(prop)
        os.makedirs(os.path.join(ROOT, 'corpus', prop), exist_ok=True)
        # replay files of earlier runs are stale (they are not committed)
        for fn in os.listdir(os.path.join(ROOT, 'corpus', prop)):
            if fn.startswith('viol_'):
                try:
                    os.remove(os.path.join(ROOT, 'corpus', prop, fn))
                except OSError:
                    pass

    # ---- proof step -------------------------------------------------------
    def proof(self, prop_files, extra_targets=()):
        """builds Properties/<f>.vo (full .vo), audits axioms of every Theorem
        in those files, greps the development for forbidden vernacular"""
        targets = ['Properties/%s.vo' % f for f in prop_files] + list(extra_targets)
        self.checker_cmd = 'make -C coq -j%d %s && coqc audit (Print Assumptions per theorem) && forbidden-vernacular grep' % (NPROC, ' '.join(targets))
        names = []
        for f in prop_files:
            src = open(os.path.join(COQ, 'Properties', f + '.v')).read()
            src_nc = strip_comments(src)
            names += [(f, m.group(2)) for m in re.finditer(r'^\s*(Theorem|Corollary)\s+([A-Za-z0-9_\']+)', src_nc, re.M)]
        self.obligations = len(names)
        self.theorems = [n for _, n in names]
        rc, out = coq_make(targets)
        if rc != 0:
            m = re.search(r'File "([^"]+)", line (\d+)', out)
            where = '%s:%s' % (m.group(1), m.group(2)) if m else '?'
            self.proof_failed = {'stage': 'make', 'where': where, 'log': out[-3000:]}
            self.discharged = 0
            return False
        # forbidden vernacular anywhere in the development
        bad = []
        for dp, _, fs in os.walk(COQ):
            for fn in fs:
                if fn.endswith('.v'):
                    txt = strip_comments(open(os.path.join(dp, fn)).read())
                    for m in FORBIDDEN.finditer(txt):
                        # Section variables are allowed: only inside Section ... End
                        if m.group(1) in ('Variable', 'Variables', 'Hypothesis', 'Hypotheses') and in_section(txt, m.start()):
                            continue
                        bad.append('%s: %s' % (os.path.relpath(os.path.join(dp, fn), COQ), m.group(0)))
        if bad:
            self.proof_failed = {'stage': 'forbidden-vernacular', 'where': '; '.join(bad[:10])}
            return False
        # axiom audit
        ad = os.path.join(CACHE, 'audit')
        os.makedirs(ad, exist_ok=True)
        vf = os.path.join(ad, 'Audit_%s.v' % self.prop)
        with open(vf, 'w') as fh:
            for f in prop_files:
                fh.write('From FendV Require Import Properties.%s.\n' % f)
            for f, n in names:
                fh.write('Print Assumptions FendV.Properties.%s.%s.\n' % (f, n))
        rc, out = sh(['coqc', '-Q', COQ, 'FendV', '-w', '-all', vf], cwd=ad, timeout=900)
        if rc != 0:
            self.proof_failed = {'stage': 'audit', 'where': vf, 'log': out[-2000:]}
            return False
        blocks = split_assumptions(out)
        if len(blocks) != len(names):
            self.proof_failed = {'stage': 'audit-parse', 'where': vf, 'log': out[-2000:]}
            return False
        ok = 0
        for (f, n), axs in zip(names, blocks):
            self.axioms[n] = axs
            illegal = [a for a in axs if self.prop not in AXIOM_ALLOW.get(a, set())]
            if illegal:
                self.proof_failed = {'stage': 'axioms', 'where': n, 'log': 'not allow-listed: ' + ', '.join(illegal)}
            else:
                ok += 1
        self.discharged = ok
        return self.proof_failed is None

    def thorough_proof(self, prop_files):
        """thorough tier: copy exactly the dependency cone of the property files
        (working-tree sources, generated tables included) to a fresh directory,
        rebuild it from scratch with coq_makefile + make (full .vo) and re-check
        the property files with coqchk, collecting the axioms it reports"""
        fresh = os.path.join(CACHE, 'fresh_%s' % self.prop)
        shutil.rmtree(fresh, ignore_errors=True)
        os.makedirs(fresh)
        files = _coq_files()
        deps = _coq_deps(files)
        cone = []
        def visit(v):
            if v in cone:
                return
            for d in deps.get(v, []):
                visit(d)
            cone.append(v)
        for f in prop_files:
            visit('Properties/%s.v' % f)
        for v in cone:
            dst = os.path.join(fresh, v)
            os.makedirs(os.path.dirname(dst), exist_ok=True)
            shutil.copy(os.path.join(COQ, v), dst)
        with open(os.path.join(fresh, '_CoqProject'), 'w') as fh:
            fh.write('-Q . FendV\n-arg -w -arg %s\n' % COQ_WARN)
            fh.write('\n'.join(cone) + '\n')
        targets = ['Properties/%s.vo' % f for f in prop_files]
        rc, out = sh('coq_makefile -f _CoqProject -o Makefile && make -j%d %s' % (NPROC, ' '.join(targets)), cwd=fresh, timeout=7200)
        res = {'fresh_rebuild': rc == 0, 'cone_files': len(cone)}
        if rc != 0:
            self.proof_failed = {'stage': 'fresh-rebuild', 'where': fresh, 'log': out[-3000:]}
            self.extra['thorough_proof'] = res
            return res
        rc, out = sh(['coqchk', '-silent', '-o', '-Q', fresh, 'FendV'] + ['FendV.Properties.%s' % f for f in prop_files],
                     cwd=fresh, timeout=7200)
        res['coqchk'] = rc == 0
        m = re.search(r'\* Axioms:(.*?)(\n\s*\n|\* |$)', out, re.S)
        res['coqchk_axioms'] = (m.group(1).strip() if m else out[-600:].strip())[:1500]
        if rc != 0:
            self.proof_failed = {'stage': 'coqchk', 'where': fresh, 'log': out[-3000:]}
        shutil.rmtree(fresh, ignore_errors=True)
        self.extra['thorough_proof'] = res
        return res

    # ---- runners ---------------------------------------------------------
    def impl(self, area, lines, timeout=None, profile='debug', workers=NPROC, limit_as=4 << 30, plain=False):
        exe = build_impl(area, profile, plain)
        if timeout is None:
            timeout = 10 if self.tier == 'quick' else 60
        outs = run_batch([exe], lines, timeout=timeout, workers=workers, limit_as=limit_as)
        self.evaluations += len(lines)
        return outs

    def model(self, area, lines, cross=True, workers=NPROC, timeout=120):
        exe = build_model(area)
        outs = run_batch([exe], lines, timeout=timeout, workers=workers, stack_unlimited=True)
        for o in outs:
            if o.startswith('("hang")') or o.startswith('("abort"') or o.startswith('(model-stack'):
                self.notes.append('model runner failure: ' + o)
        if cross and lines:
            self.vm_cross_sample(area, lines, outs)
        return outs

    def vm_cross_sample(self, area, lines, outs, k=None):
        """re-evaluate a sample of model cases inside Coq (vm_compute) and
        compare with the extracted program's answers"""
        if k is None:
            k = min(25, max(3, len(lines) // 50))
        idx = list(range(len(lines)))
        self.rng.shuffle(idx)
        idx = [i for i in idx if len(lines[i]) < 4000][:k]
        if not idx:
            return
        _, mod, fn = area_info(area)
        d = os.path.join(CACHE, 'vmc', self.prop)
        os.makedirs(d, exist_ok=True)
        vf = os.path.join(d, 'cases_%s_%d.v' % (area, threading.get_ident() % 100000))
        with open(vf, 'w') as fh:
            fh.write('From FendV Require Import Base.Prelude.\nRequire Import %s.\nOpen Scope N_scope.\n' % mod)
            fh.write('Definition ins : list (list N) := [\n')
            fh.write(';\n'.join('[' + ';'.join(str(b) for b in lines[i].encode('utf-8')) + ']' for i in idx))
            fh.write('].\nEval vm_compute in (map %s ins).\n' % fn)
        rc, out = sh(['coqc', '-Q', COQ, 'FendV', '-w', '-all', vf], cwd=d, timeout=1200)
        if rc != 0:
            self.notes.append('vm_compute cross-sample failed to run: ' + out[-500:])
            self.violation('extraction-cross-check-broken', {'kind': 'tie', 'layer': 'vm_compute cross-sample', 'log': out[-1500:]}, no_input=True)
            return
        body = out[out.index('='):] if '=' in out else out
        body = body.split(': list (list N)')[0]
        lists = re.findall(r'\[([0-9;\s%N]*)\]', body.replace('[[', '[').replace(']]', ']'))
        got = []
        for l in lists:
            nums = [int(x.replace('%N', '')) for x in l.replace('\n', ' ').split(';') if x.strip()]
            got.append(bytes(nums).decode('utf-8', 'replace'))
        if len(got) != len(idx):
            self.notes.append('vm_compute cross-sample: could not parse output (%d vs %d)' % (len(got), len(idx)))
            return
        for j, i in enumerate(idx):
            self.vm_cross += 1
            if got[j] != outs[i]:
                self.violation('extraction-disagrees-with-vm_compute',
                               {'kind': 'tie', 'layer': 'extraction vs vm_compute', 'case': lines[i],
                                'extracted': outs[i], 'vm_compute': got[j]}, no_input=True)

    # ---- verdicts --------------------------------------------------------
    def violation(self, name, replay, no_input=False):
        h = hashlib.sha1(json.dumps(replay, sort_keys=True, default=str).encode()).hexdigest()[:10]
        path = os.path.join(ROOT, 'corpus', self.prop, 'viol_%s_%s.json' % (re.sub(r'[^A-Za-z0-9_-]', '_', name)[:40], h))
        replay = dict(replay, property=self.prop, name=name)
        with open(path, 'w') as fh:
            json.dump(replay, fh, indent=1, default=str)
        self.violations.append((name, path, no_input))

    def known_finding(self, cls):
        """returns True (and counts it) if `cls` is a listed open finding"""
        for k in self.known:
            if k.get('class') == cls and k.get('status', 'open') == 'open':
                self.known_hits[cls] = self.known_hits.get(cls, 0) + 1
                return True
        return False

    def note_case(self, key, nontrivial=True, kind=None):
        if nontrivial:
            self.nontrivial.add(key if len(key) < 200 else hashlib.sha1(key.encode('utf-8', 'replace')).hexdigest())
        if kind:
            self.dist[kind] = self.dist.get(kind, 0) + 1

    def sample(self, obj):
        if len(self.samples) < 8:
            self.samples.append(obj)

    # ---- finish ----------------------------------------------------------
    def finish(self, level='proof', trusted_base=(), assumptions=()):
        if self.proof_failed is not None and not any(v[0].startswith('proof') for v in self.violations):
            # a broken obligation with no concrete failing input found
            found = [v for v in self.violations if not v[2]]
            if not found:
                self.violation('proof-obligation-broken', {'kind': 'proof', 'theorem_or_stage': self.proof_failed}, no_input=True)
        wall = time.time() - self.t0
        for cls, n in sorted(self.known_hits.items()):
            k = [x for x in self.known if x.get('class') == cls][0]
            print('KNOWN-FINDING: property=%s %s [class %s, reproduced on %d case(s)]' % (self.prop, k.get('what', ''), cls, n))
        # list open findings that did not reproduce (informational)
        for k in self.known:
            if k.get('status', 'open') == 'open' and k.get('class') not in self.known_hits:
                self.notes.append('listed finding %s did not reproduce in this run' % k.get('class'))
        cov = {
            'obligations': self.obligations,
            'discharged': self.discharged,
            'checker_cmd': self.checker_cmd or 'n/a',
            'trusted_base': list(trusted_base),
            'theorems': self.theorems,
            'axioms_per_theorem': {k: (v or ['Closed under the global context']) for k, v in self.axioms.items()},
            'evaluations': self.evaluations,
            'distinct_nontrivial': len(self.nontrivial),
            'rule': self.rule,
            'samples': self.samples or ['(no samples recorded)'],
            'distribution': self.dist,
            'vm_compute_cross_checked': self.vm_cross,
            'repr_drift': self.repr_drift,
            'known_findings_reproduced': self.known_hits,
            'notes': self.notes[:40],
        }
        if self.exhaustive is not None:
            cov['exhaustive'] = self.exhaustive
        cov.update(self.extra)
        ev = {
            'property_id': self.prop, 'tier': self.tier, 'seed': self.seed, 'level': level,
            'coverage': cov, 'assumptions': list(assumptions), 'wall_s': round(wall, 2),
            'violations': len(self.violations),
        }
        os.makedirs(os.path.join(ROOT, 'evidence'), exist_ok=True)
        with open(os.path.join(ROOT, 'evidence', self.prop + '.json'), 'w') as fh:
            json.dump(ev, fh, indent=1, default=str)
        seen = set()
        concrete = [v for v in self.violations if not v[2]]
        for name, path, no_input in (concrete or self.violations):
            if path in seen:
                continue
            seen.add(path)
            if len(seen) > 12:
                continue   # the evidence and corpus/ hold all of them; keep the console readable
            print('VIOLATION property=%s replay=%s%s' % (self.prop, path, ' no-failing-input-found' if no_input else ''))
        print('%s %s tier=%s seed=%d evaluations=%d nontrivial=%d obligations=%d/%d violations=%d known=%d wall=%.1fs' % (
            'FAIL' if self.violations else 'PASS', self.prop, self.tier, self.seed, self.evaluations,
            len(self.nontrivial), self.discharged, self.obligations, len(seen), len(self.known_hits), wall))
        return 1 if self.violations else 0


def strip_comments(src):
    out = []
    depth = 0
    i = 0
    n = len(src)
    while i < n:
        if src.startswith('(*', i):
            depth += 1; i += 2; continue
        if src.startswith('*)', i) and depth > 0:
            depth -= 1; i += 2; continue
        if depth == 0:
            out.append(src[i])
        elif src[i] == '\n':
            out.append('\n')
        i += 1
    return ''.join(out)

def in_section(txt, pos):
    opened = len(re.findall(r'^\s*Section\s+\w+', txt[:pos], re.M))
    closed = 0
    for m in re.finditer(r'^\s*End\s+(\w+)\s*\.', txt[:pos], re.M):
        closed += 1
    # modules also use End; count Module openings to compensate
    mods = len(re.findall(r'^\s*Module\s+(Type\s+)?\w+', txt[:pos], re.M))
    return opened - max(0, closed - mods) > 0

def split_assumptions(out):
    """coqc output of a sequence of Print Assumptions -> list of axiom-name lists"""
    blocks = []
    cur = None
    for line in out.splitlines():
        if line.startswith('Closed under the global context'):
            if cur is not None:
                blocks.append(cur)
                cur = None
            blocks.append([])
        elif line.startswith('Axioms:'):
            if cur is not None:
                blocks.append(cur)
            cur = []
        elif cur is not None:
            # an axiom is listed as `name : type` or, when the type is long, as
            # `name` alone on a line followed by an indented `: type`
            m = re.match(r'^([A-Za-z_][A-Za-z0-9_.\']*)\s*(:.*)?$', line)
            if m:
                cur.append(m.group(1))
    if cur is not None:
        blocks.append(cur)
    return blocks

def load_known(prop):
    """known findings: fragments known_findings.d/*.json (lists) merged with
    known_findings.json (generated from them by tools/mkmanifest.py)"""
    out = []
    seen = set()
    d = os.path.join(ROOT, 'known_findings.d')
    files = [os.path.join(d, f) for f in sorted(os.listdir(d))] if os.path.isdir(d) else []
    for p in files:
        if p.endswith('.json'):
            try:
                for k in json.load(open(p)):
                    if k.get('property') == prop and k.get('class') not in seen:
                        out.append(k); seen.add(k.get('class'))
            except Exception as e:
                sys.stderr.write('bad known-findings fragment %s: %r\n' % (p, e))
    p = os.path.join(ROOT, 'known_findings.json')
    if os.path.exists(p):
        for k in json.load(open(p)).get('findings', []):
            if k.get('property') == prop and k.get('class') not in seen:
                out.append(k); seen.add(k.get('class'))
    return out
