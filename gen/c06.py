"""C06 — no input can crash fend.
Proof part: coq/Properties/C06.v (panic-freedom of modelled functions; the
other areas contribute their own no-panic theorems).  Tie / crash probes:
evaluate, preview (and every prefix), completion, inline substitution on the
DEFAULT build of fend-core (harness_plain: feature verif-hooks OFF), debug
profile (overflow checks on) and release profile (off), over context
configurations.  A panic, an abort or a stack overflow is a violation unless
it falls in an open known class."""
import json, re
from vlib import sx, Sym, parse_sx, try_parse, cps
import corpus
import lexcheck

TRUSTED_BASE = [
    'Coq 8.16.1 kernel + vm_compute (witnesses only)',
    'extraction ExtrOcamlBasic + modelrun/driver.ml (classifier deep_input, superscript model), cross-checked by vm_compute sample',
    'harness_plain/src/bin/p_crash.rs over fend-core built from /repo with default features, dev (overflow-checks) and release profiles, 8 MiB main-thread stack, 4 GiB address space',
    'native stack exhaustion, allocator aborts and everything outside the modelled functions are observed by the probes, not proved (C06 is partial)',
]
TRUSTED_BASE = TRUSTED_BASE + list(getattr(lexcheck, 'TRUSTED_BASE_LEX', []))
ASSUMPTIONS = ['panic-freedom theorems cover only the modelled functions (json escaper, inline JSON, superscript exponents, i^y selector here; parser, codec, calendar, bignum, … in their own property files)']

CFGS = [[a, b, c_, d, e] for a in (0, 1) for b in (0, 1) for c_ in (0, 1, 2, 3) for d in (0, 1, 2) for e in (0, 1)]

SUP = '⁰¹²³⁴⁵⁶⁷⁸⁹'

WITNESS_FIXED = [
    'i^-1', '(2i)^-2', '(-3i)^-5', 'i^-(2^70)', '(2i)^(2^70)', '5¹²³⁴⁵⁶⁷⁸⁹⁰¹²³⁴⁵⁶⁷⁸⁹⁰¹', '10⁰⁰⁰⁰⁰⁰⁰⁰⁰⁰⁰⁰⁰⁰⁰⁰⁰⁰⁰⁰⁰⁰', '2⁰⁰⁰⁰⁰⁰⁰⁰⁰⁰⁰⁰⁰⁰⁰⁰⁰⁰⁰⁰⁰⁰⁰¹⁰',
    '@1000-01-01 - 1000 years', '@1000-01-01 - 364878 days', '(@1000-01-01 - 2000 years) - 1 day', '@2147483647-12-31 + 1 day',
    '@2147483647-12-31 + 400 days', '@2020-01-01 - 1537228672809129302 years',
]

def mutate(r, s):
    if not s:
        return r.choice(corpus.TOKENS)
    k = r.random()
    i = r.randrange(len(s))
    if k < 0.2:
        return s[:i] + s[i + 1:]
    if k < 0.45:
        return s[:i] + r.choice(corpus.TOKENS) + s[i:]
    if k < 0.6:
        return s[:i] + r.choice(corpus.TOKENS) + s[i + 1:]
    if k < 0.7:
        j = r.randrange(len(s))
        a, b = min(i, j), max(i, j)
        return s[:a] + s[a:b] * 2 + s[b:]
    if k < 0.8:
        return s[:i] + chr(r.choice([0, 9, 10, 13, 0x7f, 0x80, 0xa0, 0x2028, 0xfeff, 0x10ffff, 0x1d54a, 0xb2, 0x2070, 0x2212, 0x3bb])) + s[i:]
    if k < 0.9:
        j = r.randrange(len(s))
        a, b = min(i, j), max(i, j)
        return s[:a] + s[b:] + s[a:b]
    return s[:i] + r.choice('()[]{}"\'\\#@!^-') + s[i:]

def soup(r, n):
    return ''.join(r.choice(corpus.TOKENS) + r.choice(['', ' ', ' ', '']) for _ in range(n))

CUSTOM_TOKENS = ['fortnight', 'fortnights', 'zorg', 'zorgs', 'kilozorg', 'kilozorgs', 'qq', 'kqq', 'mqq', 'mega', 'megameter', 'megazorg', 'myalias', 'myaliases',
                 'bad', 'bads', 'dozen', 'dozens', 'dozenmeter', 'dozenmeters', 'dozensgram', 'dozenbyte', 'dozenzorg', 'blip', 'kblips', 'nuv', 'millinuvs', 'al', 'als',
                 'é', 'kiloé', 'kiloés', 'selfref', '2 selfrefs', 'megadozen', 'dozenmega', 'dozendozen']

def extremes(r):
    """every syntactic position that holds a number, filled with digit strings of
    extreme length / value (overflow of fixed-width accumulators is the classic
    crash that only checked builds catch)"""
    out = []
    digs = []
    for n in (1, 2, 3, 5, 8, 9, 10, 11, 16, 17, 19, 20, 21, 22, 32, 40):
        for d in ('1', '9', 'f', '0', '7'):
            digs.append(d * n)
            digs.append('1' + '0' * (n - 1))
    # lexer-level / immediately rejected positions: any length is cheap
    cheap = ['"\\u{%s}"', "'\\u{%s}'", '"\\x%s"', '%s#1', '%s#z', '0x%s', '0b%s', '0o%s', '@%s-01-01', '@2000-%s-01', '@2000-01-%s',
             '10 to base %s', '%s to char', 'codepoint "a" + %s', '1.%s', '%s to words', '%s to roman',
             '%s kg to g', '%s mod 7', '7 mod %s', '%s°', "%s'", '0.%s(%s)', '1.(%s)']
    # positions that start a computation proportional to the VALUE: only tiny or
    # beyond-machine-range values (mid-range ones simply run for ever: C07)
    heavy = ['%s nCr 2', '1 to %s dp', '1/3 to %s sf', '1e%s', '1e-%s', 'd%s', '%sd6', '2d%s', '1 << %s', '2^%s', '2^-%s', '%s!', '5 nPr %s', 'fib %s', '@2000-01-01 + %s days',
             '@2000-01-01 - %s months', '@2000-01-01 - %s years', '1 m^%s', '1 m^-%s', 'roll(d%s)', '1e%s%%', 'sqrt %s', '%s^(1/%s)']
    for p_ in cheap:
        for d in r.sample(digs, 10):
            hexok = ('u{' in p_ or '\\x' in p_ or '0x' in p_ or '#' in p_)
            d2 = d if hexok else d.replace('f', '8')
            out.append(('extreme', p_ % ((d2,) * p_.count('%s'))))
    for p_ in heavy:
        for d in r.sample([x for x in digs if len(x) <= 2 or len(x) >= 21], 6):
            d2 = d.replace('f', '8')
            out.append(('extreme-heavy', p_ % ((d2,) * p_.count('%s'))))
    return out

def ramps():
    """nesting ramps, bounded below the listed stack-exhaustion class"""
    out = []
    for d in (5, 30, 120, 300):
        out += ['(' * d + '1' + ')' * d, '(' * d + '1', '-' * d + '1', '1' + '!' * min(d, 3), '2' + '^1' * d, '1' + '+1' * d, '1' + '*2' * d,
                '\\x.' * d + '1', 'sin ' * min(d, 60) + '1', '1;' * d + '1', '[' * d, '{' * d, '"' * d, "'" * d, '#' * d, '@' * d, '`' * d,
                'x:' * min(d, 100) + '1', '1 to ' * min(d, 50) + 'm', 'a=' * min(d, 200) + '1', '2' + '²' * min(d, 3), '1' + ' m' * d, '0x' + 'f' * d,
                '1.' + '0' * d + '1', '1e' + '9' * min(d, 4), '(' * d + ')' * d, '1 ' + '/2' * d, '3 mod ' * min(d, 100) + '2']
    return out

def looks_self_recursive(seq):
    """classifier of the open class stack-exhaustion-recursive-global: some
    assigned name occurs in the right-hand side of a lambda-bearing assignment"""
    names = set()
    rhs = []
    for t in seq:
        for stmt in t.split(';'):
            m = re.match(r'\s*([A-Za-z_][A-Za-z0-9_]*)\s*=(?!=)(.*)$', stmt, re.S)
            if m:
                names.add(m.group(1))
                rhs.append(m.group(2))
    for b in rhs:
        if (':' in b or '=>' in b or '\\' in b or 'λ' in b):
            for n in names:
                if re.search(r'(?<![A-Za-z0-9_])' + re.escape(n) + r'(?![A-Za-z0-9_])', b):
                    return True
    return False

def mem_exhaustion(o):
    """the worker died because an allocation of >= 128 MiB failed under the
    4 GiB address-space limit: the input demanded a huge computation (e.g. a
    die with 3e9 faces).  Like a hang this is resource exhaustion by the
    requested computation, not a crash of fend's logic; it is counted in the
    evidence (mem_exhaustion) and is C07/C14's subject."""
    m = re.search(r'"alloc-(\d+)"', o)
    return o.startswith('("abort"') and m is not None and int(m.group(1)) >= (1 << 27)

def is_crash(o):
    if mem_exhaustion(o):
        return False
    return o.startswith('("panic"') or o.startswith('("abort"') or o.startswith('("panic-at"')

def check(c):
    r = c.rng
    c.rule = ('inputs: suite + manual corpus (read from /repo on this run), 1-3 token/char mutations of them, token soup, bounded nesting ramps, '
              'witnesses of repaired and listed findings; ops eval / preview / every-prefix preview+completion / completion / inline; '
              'x 96 context configurations sampled (random source absent / mid-range / 0 / u32::MAX); debug and release profiles. non-trivial = not a verbatim suite input; distinct by (op, cfg, text)')
    ok = c.proof(['C06', 'C06Lex'], extra_targets=['Extract/XCrash.vo', 'Extract/XLex.vo'])
    if c.tier == 'thorough' and ok:
        c.thorough_proof(['C06', 'C06Lex'])

    suite = corpus.suite_inputs()
    manual = corpus.manual_examples()
    c.extra['suite_inputs'] = len(suite)
    c.extra['manual_examples'] = len(manual)
    base = suite + manual
    quick = c.tier == 'quick'
    n_mut = 2500 if quick else 40000
    n_soup = 1200 if quick else 20000
    texts = []   # (kind, text)
    texts += [('suite', t) for t in base]
    texts += [('witness', t) for t in WITNESS_FIXED]
    texts += [('ramp', t) for t in ramps()]
    texts += extremes(r)
    texts += [('custom', t) for t in CUSTOM_TOKENS]
    for d_ in ['d2', 'd3', 'd6', 'd10', 'd20', '2d6', 'd6 + 1', 'd4 * d4', 'd6 - d6', 'd6 kg', '(d6 + d6) / 2', '7 - d6',
               'd6 i', 'd20 + (d2 - 1) i', '(d3 - 2) i + d12 + d12']:   # non-real outcomes (sort order of the listing)
        for f_ in ['roll %s', 'roll(%s)', 'sample %s', 'mean(%s)', '%s', 'roll(%s) + roll(%s)']:
            texts.append(('dice', f_.replace('%s', d_)))
    for _ in range(300 if quick else 5000):
        texts.append(('custom', ' '.join(r.choice(CUSTOM_TOKENS + corpus.TOKENS[:60]) for _ in range(r.choice([1, 2, 3, 4])))))
    for _ in range(n_mut):
        t = r.choice(base)
        for _ in range(r.choice([1, 1, 2, 3])):
            t = mutate(r, t)
        texts.append(('mutant', t[:800]))
    for _ in range(n_soup):
        texts.append(('soup', soup(r, r.choice([1, 2, 3, 4, 6, 9, 14]))))
    # avoid the generator-known non-terminating families (C07's subject, not C06's)
    def hangy(t):
        return ('!!' in t) or re.search(r'\d{4,}\s*!', t) is not None or re.search(r'(\(\s*\d+\s+){8,}', t) is not None
    texts = [(k, t) for k, t in texts if not hangy(t)]

    lines = []
    meta = []
    for k, t in texts:
        cfg = r.choice(CFGS) if k != 'suite' else [0, 0, 0, 1, 0]
        if k == 'custom':
            cfg = cfg[:4] + [1]
        if k == 'dice':
            cfg = cfg[:2] + [r.choice([1, 2, 3, 3])] + cfg[3:]
        lines.append(sx([Sym('eval'), cfg, cps(t)])); meta.append(('eval', cfg, k, t))
    # previews / prefixes / completion / inline on a sample
    suite_part = [x for x in texts if x[0] == 'suite']
    if quick:
        suite_part = r.sample(suite_part, min(350, len(suite_part)))
    sample = suite_part + [x for x in texts if x[0] == 'witness'] + [x for x in texts if x[0] in ('dice', 'mutant', 'soup', 'ramp', 'extreme', 'extreme-heavy', 'custom')][: (900 if quick else 12000)]
    for k, t in sample:
        cfg = r.choice(CFGS)
        if len(t) <= 120 and k != 'extreme-heavy' and sum(t.count(ch) for ch in SUP) <= 3:
            lines.append(sx([Sym('prefixes'), cfg, cps(t)])); meta.append(('prefixes', cfg, k, t))
        else:
            lines.append(sx([Sym('preview'), cfg, cps(t)])); meta.append(('preview', cfg, k, t))
    for k, t in sample[:: 3]:
        lines.append(sx([Sym('complete'), cps(t[:60])])); meta.append(('complete', None, k, t[:60]))
        doc = 'a [[' + t + ']] b `[[' + t + ']]` [[' + t
        icfg = r.choice(CFGS)
        if k == 'custom':
            icfg = icfg[:4] + [1]
        lines.append(sx([Sym('inline'), icfg, cps(doc)])); meta.append(('inline', icfg, k, doc))
    for bs in ['\\', 'x\\alpha', 'x\\Alpha', '\\alph', '\\alphaaaaaaaa', 'é\\pi', ' ', 'a ', 'kilo', 'é', '\\é', 'x \\', '\\\\', 'm\\pi k']:
        lines.append(sx([Sym('complete'), cps(bs)])); meta.append(('complete', None, 'witness', bs))

    profiles = ['debug', 'release'] if True else ['debug']
    import time as _t
    for prof in profiles:
        _t0 = _t.time()
        use = range(len(lines)) if (prof == 'debug' or not quick) else [i for i in range(len(lines)) if meta[i][2] in ('witness', 'ramp', 'suite', 'extreme', 'extreme-heavy', 'custom', 'dice') or i % 6 == 0]
        use = list(use)
        outs = c.impl('crash', [lines[i] for i in use], timeout=(8 if quick else 60), profile=prof, plain=True)
        crashed = [(i, o) for i, o in zip(use, outs) if is_crash(o)]
        hangs = sum(1 for o in outs if o.startswith('("hang")'))
        c.extra.setdefault('hang_inputs', []).extend([meta[i][3][:60] for i, o in zip(use, outs) if o.startswith('("hang")')][:40])
        c.dist['hang-' + prof] = hangs
        c.dist['mem_exhaustion-' + prof] = sum(1 for o in outs if mem_exhaustion(o))
        c.extra['wall_probe_' + prof] = round(_t.time() - _t0, 1)
        for i, o in zip(use, outs):
            op, cfg, k, t = meta[i]
            if prof == 'debug':
                c.note_case('%s|%s|%s' % (op, cfg, t), k != 'suite', '%s/%s' % (op, k))
        # classify crashes
        if crashed:
            dl = [sx([Sym('deep-input'), cps(meta[i][3])]) for i, _ in crashed]
            deep = c.model('crash', dl, cross=False)
            for (i, o), dv in zip(crashed, deep):
                op, cfg, k, t = meta[i]
                d = try_parse(dv)
                is_deep = isinstance(d, list) and d and d[0] == 1
                if o.startswith('("abort"') and 'stack-overflow' in o and is_deep and c.known_finding('stack-exhaustion-deep-input'):
                    continue
                if o.startswith('("abort"') and 'stack-overflow' in o and cfg and cfg[4] == 1 and 'selfref' in t and c.known_finding('stack-exhaustion-cyclic-custom-unit'):
                    continue
                if o.startswith('("abort"') and 'stack-overflow' in o and looks_self_recursive([t]) and c.known_finding('stack-exhaustion-recursive-global'):
                    continue
                c.violation('crash-' + op, {'kind': 'impl-crash', 'op': op, 'cfg': cfg, 'profile': prof, 'input': t,
                                            'input_codepoints': cps(t), 'outcome': o, 'generator': k})
    # ---- listed open findings: reproduce the witnesses (KNOWN-FINDING lines) ----
    wl = [sx([Sym('eval'), [0, 0, 0, 0, 0], cps('(' * 1500 + '1' + ')' * 1500)]),
          sx([Sym('eval-seq'), [0, 0, 0, 0, 0], cps('f = (x: x+1)'), cps('f = (x: f x * 2)'), cps('f 1')])]
    wo = c.impl('crash', wl, timeout=30, plain=True)
    if wo[0].startswith('("abort"'):
        c.known_finding('stack-exhaustion-deep-input')
    elif is_crash(wo[0]):
        c.violation('crash-deep-witness', {'kind': 'impl-crash', 'input': '1500 nested parentheses', 'outcome': wo[0]})
    if wo[1].startswith('("abort"'):
        c.known_finding('stack-exhaustion-recursive-global')
    elif is_crash(wo[1]):
        c.violation('crash-recursive-witness', {'kind': 'impl-crash', 'input': 'f = (x: x+1); f = (x: f x * 2); f 1', 'outcome': wo[1]})

    # ---- correspondence of the modelled pieces ----
    # superscript exponents: 1^<digits> and 2^<digits> through evaluate vs the model
    sup_cases = [[0], [1], [9], [1, 0], [0, 1], [6, 4], [0] * 25 + [1, 0], [1] + [0] * 19, [2] + [0] * 19, [1] + [0] * 20, [9] * 19, [9] * 20, [0] * 30, [1, 8, 4, 4, 6, 7, 4, 4, 0, 7, 3, 7, 0, 9, 5, 5, 1, 6, 1, 5], [1, 8, 4, 4, 6, 7, 4, 4, 0, 7, 3, 7, 0, 9, 5, 5, 1, 6, 1, 6]]
    for _ in range(150 if quick else 3000):
        n = r.choice([1, 2, 3, 5, 19, 20, 21, 22, 30])
        sup_cases.append([r.choice([0, 0, 1, 2, 9, r.randint(0, 9)]) for _ in range(n)])
    ml = [sx([Sym('sup-exp'), list(reversed(ds))]) for ds in sup_cases]
    mo = c.model('crash', ml)
    def big(ds):
        return int(''.join(map(str, ds))) > 4096 and not any(d != 0 and d * 10 ** i >= 2 ** 64 for i, d in enumerate(reversed(ds)))
    # 2^n is only evaluated for small n or when the lexer must reject the exponent (huge powers just run for ever)
    il2 = [sx([Sym('eval-seq'), cps(('1' if (b == '2' and big(ds)) else b) + ''.join(SUP[d] for d in ds))]) for ds in sup_cases for b in ('1', '2')]
    io2 = c.impl('text', il2, timeout=20)
    for j, ds in enumerate(sup_cases):
        m = try_parse(mo[j])
        val = int(''.join(map(str, ds)))
        c.note_case('sup|' + ''.join(map(str, ds)), len(ds) > 1, 'superscript')
        # spec: value = decimal value; Err only if a non-zero digit * 10^i >= 2^64
        overflow = any(d != 0 and d * 10 ** i >= 2 ** 64 for i, d in enumerate(reversed(ds)))
        if overflow:
            if not (isinstance(m, list) and m[0] == b'err'):
                c.violation('superscript-model-vs-spec', {'kind': 'model-vs-spec', 'digits': ds, 'model': mo[j]}, no_input=True)
        else:
            if m != [b'ok', val]:
                c.violation('superscript-model-vs-spec', {'kind': 'model-vs-spec', 'digits': ds, 'model': mo[j]}, no_input=True)
        for bi, b in enumerate(('1', '2')):
            o = try_parse(io2[2 * j + bi])
            if b == '2' and big(ds):
                b = '1'
            txt = b + ''.join(SUP[d] for d in ds)
            if not (isinstance(o, list) and len(o) == 1 and isinstance(o[0], list)):
                c.violation('superscript-crash', {'kind': 'impl-crash', 'input': txt, 'outcome': io2[2 * j + bi]})
                continue
            kind, content = o[0][0], bytes(o[0][1]).decode('latin1') if all(x < 256 for x in o[0][1]) else ''
            if overflow:
                good = kind == b'e'
            elif b == '1':
                good = (kind == b'o' and content == '1') or (kind == b'e' and val >= 2 ** 64)
            else:
                good = (kind == b'o' and val <= 4096 and content.replace(',', '') == str(2 ** val)) or (kind == b'e' and val >= 2 ** 32) or (val > 4096)
            if not good:
                c.violation('superscript-value', {'kind': 'impl-vs-spec', 'input': txt, 'input_codepoints': cps(txt), 'impl': io2[2 * j + bi], 'expected_exponent': val, 'overflow': overflow})
    # ---- completions: every (display, insert) the implementation returns must be what the
    # model of the `add` closure computes for (name, last word of the prefix) ----
    comp_prefixes = ['k', 'kilo', 'me', 'met', 'µ', 'micro', 'deg', '°', 'x k', 'é', 'a b mi', 'M', 'light', 'lightyea', 'US', 'percen', 'sq', 'cub']
    co = c.impl('crash', [sx([Sym('complete'), cps(t)]) for t in comp_prefixes], plain=True)
    ml2 = []
    exp2 = []
    for t, o in zip(comp_prefixes, co):
        po = try_parse(o)
        if not (isinstance(po, list) and po and po[0] == b'ok'):
            c.violation('crash-complete', {'kind': 'impl-crash', 'op': 'complete', 'input': t, 'outcome': o}); continue
        last = t.rsplit(' ', 1)[-1]
        prepend = t.rsplit(' ', 1)[0] if ' ' in t else ''
        for disp, ins in po[2][:40]:
            d = ''.join(map(chr, disp)); i_ = ''.join(map(chr, ins))
            name = d[len(prepend):] if d.startswith(prepend) else d
            ml2.append(sx([Sym('completion-of'), name.encode(), last.encode()]))
            exp2.append((t, name, i_))
    if ml2:
        mo2 = c.model('crash', ml2)
        for (t, name, ins), o in zip(exp2, mo2):
            c.note_case('complete|%s|%s' % (t, name), True, 'completion')
            want = sx([b'ok', [name.encode(), ins.encode()]])
            if o != want:
                c.violation('completion-differs-from-model', {'kind': 'impl-vs-model', 'prefix': t, 'name': name, 'impl_insert': ins, 'model': o}, no_input=True)
    # ---- panic-site census (informational: what is proved site by site) ----
    try:
        import sys as _sys, vlib as _vlib
        _sys.path.insert(0, _vlib.ROOT + '/tools')
        import panic_census
        panic_census.attach(c)
    except Exception as _e:
        c.notes.append('panic census unavailable: %r' % (_e,))
    # ---- lexer model vs the real lexer (tokens, positions, error variants; oracle contract) ----
    lexcheck.run(c, ('tables', 'tie'))
    c.sample({'op': 'eval', 'cfg': meta[len(base) + 40][1], 'input': meta[len(base) + 40][3]})
    c.sample({'op': 'prefixes', 'input': sample[10][1]})
    c.sample({'op': 'superscript', 'digits': sup_cases[6], 'model': mo[6], 'impl(2^..)': io2[13]})


def replay(c, obj):
    try:
        if lexcheck.replay(c, obj):
            return 0
    except Exception:
        pass
    print(json.dumps(obj, indent=1)[:3000])
    if 'input_codepoints' in obj and obj.get('op') in ('eval', 'preview', 'prefixes', 'inline'):
        line = sx([Sym(obj['op']), obj.get('cfg') or [0, 0, 0, 0, 0], obj['input_codepoints']])
        print('impl(debug)  :', c.impl('crash', [line], plain=True, timeout=60)[0])
        print('impl(release):', c.impl('crash', [line], plain=True, timeout=60, profile='release')[0])
    return 0
