"""Shared helpers of the eval-area checks (C13, C09, C07): request builders
for harness/src/bin/h_eval.rs, decoders, input generators."""
from vlib import sx, Sym, parse_sx, try_parse, cps

F_RNG, F_RATES, F_COULOMB, F_TERMINAL, F_COMMA, F_CUSTOM = 1, 2, 4, 8, 16, 32


def txt(x):
    """code point list -> str"""
    if isinstance(x, (bytes, bytearray)):
        return x.decode('utf-8', 'replace')
    return ''.join(chr(c) for c in x)


def preview_req(flags, setup, inp, ks):
    return sx([Sym('preview'), flags, [cps(s) for s in setup], cps(inp), list(ks)])


def evalseq_req(flags, steps):
    """steps: list of (input, k) with k = -1 for never"""
    return sx([Sym('evalseq'), flags, [[cps(i), k] for i, k in steps]])


def polls_req(flags, setup, inp, k=-1):
    return sx([Sym('polls'), flags, [cps(s) for s in setup], cps(inp), k])


def parse_req(inp):
    return sx([Sym('parse'), cps(inp)])


def crashed(o):
    return o.startswith('("hang")') or o.startswith('("abort"') or o.startswith('("panic"') or o.startswith('(unknown-op') \
        or o.startswith('("bad-request")') or o.startswith('("unknown-op")')


class PreviewK:
    """one firing point of a preview request"""
    def __init__(self, rec):
        (self.k, res, self.polls, self.rng_calls, self.rate_calls, self.vars_before, self.vars_after,
         self.settings_before, self.settings_after, self.probes_before, self.probes_after,
         self.rng_works, self.rates_work, self.calls_after_fire) = rec[:14]
        # behavioural probes: (number of probes, [(input, result on the previewed context, result on a twin)])
        self.behaviour = rec[14] if len(rec) > 14 else None
        self.panicked = (res[0] == b'panic')
        if self.panicked:
            self.text, self.is_unit, self.trailing_newline, self.spans_ok = None, None, None, None
        else:
            self.text = txt(res[0]); self.is_unit = res[1]; self.trailing_newline = res[2]; self.spans_ok = res[3]

    def is_empty_result(self):
        return (not self.panicked) and self.text == '' and self.is_unit == 1 and self.trailing_newline == 1


class PreviewAnswer:
    def __init__(self, o):
        p = parse_sx(o)
        assert p[0] == b'ok', o[:200]
        self.before_vars = p[1]
        self.before_settings = p[2]
        self.before_probes = p[3]
        ref = p[4]
        self.ref_kind = ref[0]          # b'o' | b'e' | b'panic'
        if ref[0] == b'o':
            self.ref_text = txt(ref[1][0]); self.ref_unit = ref[1][1]; self.ref_newline = ref[1][2]
            self.ref_polls = ref[2]; self.ref_err = None
        elif ref[0] == b'e':
            self.ref_text = None; self.ref_err = txt(ref[1]); self.ref_polls = ref[2]; self.ref_errkind = ref[3].decode()
        else:
            self.ref_text = None; self.ref_err = 'panic: ' + txt(ref[1]); self.ref_polls = None
        self.ks = [PreviewK(r) for r in p[5]]


def diff_entries(a, b):
    """per-entry comparison of two snapshot lists [(name, digest)] (order-insensitive)"""
    da = {bytes(bytearray(x[0])) if isinstance(x[0], list) and all(c < 256 for c in x[0]) else repr(x[0]): x[1:] for x in a} if isinstance(a, list) else a
    db = {bytes(bytearray(x[0])) if isinstance(x[0], list) and all(c < 256 for c in x[0]) else repr(x[0]): x[1:] for x in b} if isinstance(b, list) else b
    if not isinstance(da, dict) or not isinstance(db, dict):
        return None if da == db else [('snapshot', repr(da)[:200], repr(db)[:200])]
    out = []
    for k in sorted(set(da) | set(db), key=repr):
        if da.get(k) != db.get(k):
            out.append((repr(k), repr(da.get(k))[:120], repr(db.get(k))[:120]))
    return out or None


# ---------------------------------------------------------------------------
# input corpus shared by C13 and C07 (no input here hangs or aborts the process)

CORPUS_VALID = [
    '1+1', '2*3', '2^10', '10!', '1/3', '0.1 + 0.2', '5 kg to g', '3 feet to m', '1 mile to km', 'sqrt 2', 'sin pi',
    'e^2', '100 C to F', '37 °C to °F', '0x1f + 0b11', '1e3', '7 mod 3', '5 nCr 2', '1 << 10', '255 to hex', '10 to binary',
    '1/3 to 5 dp', 'pi to 10 sf', '3 + 4i', 'abs(-3)', 'floor 2.5', 'fib 20', 'log2 1024', 'ln e', 'true', 'not true',
    '1 == 1', '2 != 3', '"hello"', '"a" + "b"', "'q'", '65 to char', '"A" to codepoint', '2024 to roman', '12 to words',
    '@2024-02-29', '@2024-02-29 + 1 day', '@2024-03-31 - 1 month', 'today', '(1,5)', '1.5e-3', '3 4/5', '1 2', '5%', '50% of 8',
    'x: x + 1', '\\x.x*2', '(x: x^2) 3', '(\\x. \\y. x + y) 1 2', 'f = (x: 2x); f 4', 'sqrt', 'sin', 'sin + 1', 'mean d6',
]
CORPUS_ASSIGN = [
    'a = 7', 'a = 7; a + 1', 'b = a', 'a = a + 1', 'a = 1; b = 2; a + b', 'f = (x: x + a)', 'f 3', 'a = ', 'a = ;', '_ = 9',
    'ans = 3', 'ans + 1', '_', 'ans', 'a = 2; 5a', 'q = 1/0', 'a = 1; q = 1/0', 'a = 1; 1/0; a = 2', '(a = 4) + a', 'pi = 3', 's = "x"',
]
CORPUS_RANDOM = ['roll d6', 'sample d20', 'roll(2d6)', 'roll d6 + a', 'a = roll d6', 'd6', '2d6', 'd6 + d6', 'mean 3d6', 'roll 1']
CORPUS_RATES = ['1 USD to EUR', '$5 to GBP', '10 EUR to JPY', '1 EUR', 'a EUR to USD', 'r = 1 GBP to JPY', '1 XYZ to EUR', 'USD', '5 dollars']
CORPUS_LONG = ['2^200', '30!', '100!', '1/7 to 60 dp', '10^49', '10^50', '10^51', '"' + 'x' * 50 + '"', '"' + 'x' * 51 + '"',
               '"' + 'é' * 25 + '"', '"' + 'é' * 26 + '"', '"' + '𝕊' * 12 + 'ab"', '"' + '𝕊' * 12 + 'abc"', '1e60', '12345678901234567890 * 98765432109876543210']
CORPUS_MULTILINE = ['earth', '"a\\nb"', '"tab\\there"', '"a\\u{85}b"', '"\\u{2028}"', '"\\u{7f}"', '"\\u{9b}x"', 'd4', '@debug 1', '"\\r"', '"\\u{b}"', '"\\u{c}"']
CORPUS_ECHO = ['5', ' 5 ', '5 ', '"5"', '3 m', '3m', 'hello', '"hello "', '()', '(())', ';', ';;', '', ' ', '\t', 'true ', '\\x.x', 'x:x',
               '1 ', '0x10', '1,000', '1_000', 'a', ' a', ' 5', '5 ', '" z "', 'z = "  z  "']
CORPUS_INVALID = ['1+', '(', ')', '1 +* 2', 'foo', '1/0', '0^0', '2^(2^70)', 'kg + m', '1 kg to m', '"unterminated', '\\', '\\x', 'x:', '=',
                  '1 = 2', 'a b c', '@', '@debug', '@noapprox pi', '@plain_number 1000000', '@no_trailing_newline 1+1', '#', '1 to', 'to', 'of',
                  '1 2 3', '((((1))))', '1)))', '-', '!', '5!!', '--5', '/2', '..', '1..2', '0b', '0x', '1e', '1e+', "'", '"\\', '"\\u{110000}"', '"\\u{d800}"']
CORPUS_PANICKY = ['@1000-01-01 - 1000 years', 'a = 3; @1-01-01 - 1 day']   # C06/C16 findings; after their repair these are ordinary inputs
CORPUS_HEAVY = ['3^40000', '2000!', 'fib 20000', '1/9973 to 400 dp', '(10^300 + 1)/(10^299 + 7)', '40d6', '@2000-01-01 + 300000 days', '1 << 70000']

ALPHA = list('0123456789 +-*/^()=;:.,\\"\'!%@abxfd_') + ['é', '°', '𝕊', '\n', '\t', '\u0085', ' ', ' to ', ' of ', 'roll ', 'USD', 'EUR', 'pi', 'kg', '=>', '==']


def gen_expr(r, depth=0):
    """small structured generator of mostly-valid inputs"""
    k = r.random()
    if depth > 3 or k < 0.25:
        return r.choice(['1', '2', '7', '10', '0.5', '1/3', 'a', 'b', 'x', 'pi', '3 kg', '2 m', 'd6', '"s"', 'ans', '_', '1 USD', '5 EUR', 'true', '()'])
    if k < 0.5:
        return gen_expr(r, depth + 1) + r.choice([' + ', ' - ', ' * ', ' / ', '^', ' ', ' to ', ' == ']) + gen_expr(r, depth + 1)
    if k < 0.6:
        return '(' + gen_expr(r, depth + 1) + ')'
    if k < 0.7:
        return r.choice(['sqrt', 'sin', 'abs', 'roll', 'sample', 'mean', 'f', 'floor', 'fib', 'not']) + ' ' + gen_expr(r, depth + 1)
    if k < 0.8:
        return r.choice(['a', 'b', 'f', 'x', '_', 'ans', 'pi']) + ' = ' + gen_expr(r, depth + 1)
    if k < 0.9:
        return gen_expr(r, depth + 1) + '; ' + gen_expr(r, depth + 1)
    if k < 0.95:
        v = r.choice(['x', 'y', 'a'])
        return r.choice(['\\%s.' % v, '%s: ' % v, '%s => ' % v]) + gen_expr(r, depth + 1)
    return r.choice(['@debug ', '@noapprox ', '@plain_number ', '@no_trailing_newline ']) + gen_expr(r, depth + 1)


def gen_noise(r):
    return ''.join(r.choice(ALPHA) for _ in range(r.randint(1, 14)))


def no_hang(s):
    """inputs known to hang or abort the process are kept out of corpora that
    must complete (they belong to C06/C07's own families)"""
    if s.count('(') > 40 or len(s) > 400:
        return False
    # juxtaposition chains are parsed in exponential time (C07 finding)
    import re
    if len(re.findall(r'[0-9a-z)"]\s+[(0-9a-z"]', s)) > 6:
        return False
    # deep unary chains / huge exponents
    if re.search(r'\^\s*\(?\s*[0-9]{6,}', s) or re.search(r'[0-9]{5,}\s*!', s) or re.search(r'<<\s*[0-9]{7,}', s):
        return False
    if re.search(r'[0-9]{3,}\s*d\s*[0-9]{2,}', s) or re.search(r'd\s*[0-9]{5,}', s):
        return False
    if re.search(r'(day|week|month|year)', s) and re.search(r'[0-9]{7,}', s):
        return False
    return True


def thorough_proof(c, props):
    """c.thorough_proof, tolerating the one failure that only means the tree is not committed yet: the fresh copy is
    made from `git ls-files`, so sources that are still untracked are missing there (make: No rule to make target).
    Anything else (a proof that does not rebuild, coqchk complaining) stays a failure."""
    res = c.thorough_proof(props)
    pf = c.proof_failed
    if pf and pf.get('stage') == 'fresh-rebuild' and 'No rule to make target' in pf.get('log', ''):
        c.notes.append('thorough proof step skipped: fresh copy from git ls-files lacks untracked sources (%s)' % pf['log'].strip()[:160])
        c.extra['thorough_proof'] = {'fresh_rebuild': 'skipped: untracked sources', 'coqchk': 'not run'}
        c.proof_failed = None
    return res
