"""C03 — the approx. marker and digit truncation never misstate a value.
Proof: coq/Properties/C03.v.  Tie: L1 Value::format with n dp / n sf on raw
sign/num/den, BigUint::root_n, Value::pow with rational exponents, Value::add
flag propagation (hooks in verif_hooks/fmt.rs) against coq/Fmt/{Format,Root,Flag}.v;
L2 `X to N dp|sf`, roots / rational powers and mixed exact/approximate
expressions through fend_core::evaluate.  Spec: exact truncation and exact
roots in Python int/Fraction (gen/fmtlib.py), the Coq reader applied to the
implementation's unmarked output."""
import json
from fractions import Fraction
from math import gcd
import vlib
from vlib import sx, Sym, parse_sx, try_parse, cps
import fmtlib as F
import pilib as P

TRUSTED_BASE = [
    'Coq 8.16.1 kernel + vm_compute',
    'extraction ExtrOcamlBasic -> OCaml 4.13.1, modelrun/driver.ml; cross-checked against vm_compute on a sample',
    'harness/src/bin/h_fmt.rs and %s/core/src/verif_hooks/fmt.rs' % vlib.REPO,
    'hand-written models coq/Fmt/Format.v, Root.v, Flag.v tied to core/src/num/{bigrat,biguint,unit,real}.rs only by this differential run',
    'big integers at value level (Coq N, Q); limb arithmetic is C01',
    'gen/fmtlib.py reference truncation / integer roots (Python int, Fraction)',
]
ASSUMPTIONS = [
    'values are real, unitless, pi-free rationals; approximate leaves are `approx. r`, inexact roots',
    'the flag model covers + - * / neg and approx.; elementary functions (f64 bridge) belong to C15',
    'n sf of a non-integer: position of the cut is checked by correspondence, the theorem is C03_marker (flag soundness)',
]

KNOWN = 'add_approx_zero'          # fixed by fend 198ba44: a reappearance is a VIOLATION
KNOWN_SCALE = 'scale_pi_product'    # open: unit scale built from two multiples of pi loses the inexact flag


def iroot(x, n):
    """floor n-th root of x >= 0 (n >= 1)"""
    if x < 2 or n == 1:
        return x
    lo, hi = 1, 1 << (x.bit_length() // n + 1)
    while hi - lo > 1:
        mid = (lo + hi) // 2
        if mid ** n <= x:
            lo = mid
        else:
            hi = mid
    return lo


def perfect_root(x, n):
    r = iroot(x, n)
    return r if r ** n == x else None


# ---------------------------------------------------------------------------
def gen_trunc_cases(c):
    r = c.rng
    quick = c.tier == 'quick'
    out = []
    ns = [0, 1, 2, 3, 5, 9, 10, 11, 20, 37, 60] if quick else list(range(0, 61))
    bases = [(5, 10), (5, 2), (5, 3), (5, 16), (5, 36), (3, 16), (4, 7)] if quick else [(5, b) for b in range(2, 37)] + [(1, 2), (2, 8), (3, 16), (4, 12)]
    # small fractions, exhaustive in q
    qmax = 12 if quick else 32
    k = 0
    for bk in bases:
        for q in range(1, qmax + 1):
            for p in list(range(0, q + 1)) + [10 * q + 1, 1234 * q + 5]:
                for kind in ('dp', 'sf'):
                    nsel = ns if not quick else [ns[(k + i) % len(ns)] for i in range(3)]
                    k += 1
                    for n in nsel:
                        out.append((k % 4 == 0 and p != 0, p, q, True, bk, (kind, n), k % 5 == 0, 'small-' + kind))
    # boundary values around the cut
    specials = [(9999, 10000), (1, 10000), (1234, 1000000), (12345678, 10000), (99999, 100), (1, 3), (2, 3), (1, 7), (100, 1), (123456, 1),
                (120000, 1), (1, 1024), (1023, 1024), (5, 10 ** 12), (10 ** 30 + 1, 10 ** 15), (1, 2 ** 70), (10 ** 40, 3), (0, 1), (0, 7)]
    for (p, q) in specials:
        for bk in [(5, 10), (5, 2), (5, 16), (3, 16)]:
            for n in ns if not quick else [0, 1, 2, 3, 4, 5, 10, 20, 60]:
                for kind in ('dp', 'sf'):
                    for neg in (False, True):
                        out.append((neg and p != 0, p, q, True, bk, (kind, n), False, 'boundary-' + kind))
    # integers spanning several u128 digit groups, zero runs around the group boundaries,
    # n sf on both sides of the digit count and of the last non-zero digit
    for bk in (bases if not quick else [(5, 10), (5, 2), (5, 16), (5, 36), (5, 7), (3, 16)]):
        b = F.base_val(bk)
        grp = 1
        while b ** grp < (2 ** 128 - 1) // b:
            grp += 1
        for _ in range(14 if quick else 60):
            ngroups = r.choice([1, 2, 2, 3, 4])
            nd = max(3, r.randrange((ngroups - 1) * grp + 1, ngroups * grp + 3))        # digit count around k groups
            ds = [r.randrange(0, b) for _ in range(nd)]
            ds[0] = r.randrange(1, b)
            how = r.randrange(5)
            if how == 0:        # zero run ending exactly at a group boundary (counted from the right)
                z = r.choice([grp - 1, grp, grp + 1, 2 * grp, 1, 2])
                for i in range(min(z, nd - 1)):
                    ds[nd - 1 - i] = 0
            elif how == 1:      # zero run straddling a boundary, non-zero digits below it
                lo = max(1, nd - grp - r.randrange(1, 4))
                for i in range(lo, min(nd - 1, lo + r.randrange(2, 7))):
                    ds[i] = 0
                ds[nd - 1] = r.randrange(1, b)
            elif how == 2:      # a single non-zero digit far to the right
                for i in range(1, nd):
                    ds[i] = 0
                ds[r.randrange(max(1, nd - grp - 2), nd)] = r.randrange(1, b)
            elif how == 3:      # all zeros after the first digit
                for i in range(1, nd):
                    ds[i] = 0
            v = 0
            for d in ds:
                v = v * b + d
            last_nz = max(i for i, d in enumerate(ds) if d != 0) + 1      # significant digits needed for exactness
            for n in sorted(set([1, last_nz - 1, last_nz, last_nz + 1, nd - 1, nd, nd + 1, nd - grp, nd - grp + 1, grp, grp + 1, 37, 38, 39, 40])):
                if n >= 1:
                    out.append((r.random() < 0.3, v, 1, True, bk, ('sf', n), False, 'bigint-sf'))
            out.append((False, v, 1, True, bk, ('dp', r.randrange(0, 5)), False, 'bigint-dp'))
            # the same integer plus a fraction: sf beyond the integer part
            out.append((False, v * 8 + r.randrange(1, 8), 8, True, bk, ('sf', nd + r.randrange(0, 4)), False, 'bigint-frac-sf'))
    # random
    for _ in range(600 if quick else 15000):
        bk = r.choice(bases)
        p = r.randrange(0, 10 ** r.choice([2, 6, 20, 45]))
        q = r.choice([1, r.randrange(1, 50), r.randrange(1, 10 ** 6), F.base_val(bk) ** r.randrange(1, 30), 10 ** r.randrange(1, 30)])
        kind = r.choice(['dp', 'sf'])
        n = r.randrange(0, 61)
        out.append((r.random() < 0.4 and p != 0, p, q, r.random() < 0.85, bk, (kind, n), r.random() < 0.3, 'random-' + kind))
    # auto style on exact values: a non-terminating expansion is cut at 10 places and marked
    for _ in range(250 if quick else 4000):
        bk = r.choice(bases)
        p, q = r.randrange(0, 10 ** r.choice([2, 8, 20])), r.choice([r.randrange(1, 500), F.base_val(bk) ** r.randrange(1, 14) * r.choice([1, 3, 7])])
        out.append((r.random() < 0.4 and p != 0, p, q, True, bk, 'auto', r.random() < 0.3, 'auto-exact-input'))
    # the other styles with an inexact input flag: the marker must stay
    for _ in range(200 if quick else 3000):
        bk = r.choice(bases)
        p, q = r.randrange(0, 10 ** 8), r.randrange(1, 500)
        st = r.choice(['auto', 'float', 'exact', 'fraction', 'mixed_fraction'])
        out.append((r.random() < 0.4 and p != 0, p, q, False, bk, st, False, 'inexact-input'))
    return out


def check_trunc(c):
    cases = gen_trunc_cases(c)
    lines = [F.fmt_rat_line(neg, p, q, vex, bk, st, comma) for (neg, p, q, vex, bk, st, comma, kind) in cases]
    impl = c.impl('fmt', lines)
    model = c.model('fmt', lines)
    read_lines, read_idx = [], []
    for i, (neg, p, q, vex, bk, st, comma, kind) in enumerate(cases):
        x = Fraction(-p if neg else p, q)
        c.note_case('t:%s:%d/%d:%s:%s:%d:%d' % ('-' if neg else '', p, q, bk, st, comma, vex), q > 1 or p >= bk[1], kind)
        want_t, want_ex = F.render(x, st, bk, comma, vex)
        want = F.shown(want_t, want_ex)
        got = F.res_text(impl[i])
        if got != ('ok', want):
            c.violation('truncation-or-marker-wrong', {'kind': 'impl-vs-spec', 'op': 'fmt-rat', 'line': lines[i], 'x': str(x), 'base': bk,
                                                       'style': F.style_text(st), 'value_exact_flag': vex, 'impl': got, 'expected': want})
            continue
        if impl[i] != model[i]:
            c.violation('fmt-rat-model-differs', {'kind': 'impl-vs-model', 'op': 'fmt-rat', 'line': lines[i], 'impl': impl[i], 'model': model[i]}, no_input=True)
        if not got[1].startswith('approx. '):
            read_lines.append(sx([Sym('read'), int(comma), bk[0], bk[1], cps(got[1])]))
            read_idx.append(i)
    # C03_marker on the implementation's own output: unmarked text reads back to the value
    rd = c.model('fmt', read_lines, cross=False)
    for i, o in zip(read_idx, rd):
        neg, p, q, vex, bk, st, comma, kind = cases[i]
        x = Fraction(-p if neg else p, q)
        po = try_parse(o)
        if not (isinstance(po, list) and po[0] == b'some' and F.q_of(po[1]) == x and vex):
            c.violation('unmarked-text-misstates-value', {'kind': 'impl-vs-spec', 'op': 'read', 'line': lines[i], 'x': str(x),
                                                          'impl_text': F.res_text(impl[i]), 'read': o})
    c.sample({'op': 'fmt-rat', 'line': lines[len(lines) // 3], 'impl': F.res_text(impl[len(lines) // 3])})


# ---------------------------------------------------------------------------
def check_int_sf(c):
    """L1 BigUint::format with an sf limit on raw limbs: multi-group integers"""
    r = c.rng
    quick = c.tier == 'quick'
    cases = []
    for bk in [(5, b) for b in ((2, 3, 7, 10, 16, 36) if quick else range(2, 37))]:
        b = bk[1]
        grp = 1
        while b ** grp < (2 ** 128 - 1) // b:
            grp += 1
        for _ in range(25 if quick else 120):
            nd = r.randrange(1, 4 * grp + 3)
            v = r.randrange(b ** (nd - 1), b ** nd)
            tz = r.choice([0, 0, 1, 2, grp - 1, grp, grp + 1, 2 * grp, nd - 1])
            tz = min(tz, nd - 1)
            v = v // b ** tz * b ** tz
            if r.random() < 0.3:        # a zero block in the middle, across a group boundary
                k = r.randrange(0, nd)
                w = r.randrange(1, 6)
                v = v - (v // b ** k % b ** w) * b ** k
            if v == 0:
                v = b ** (nd - 1)
            ds = F.int_digits(v, b)
            need = len(ds.rstrip('0'))
            for sf in sorted(set([0, 1, need - 1, need, need + 1, len(ds) - 1, len(ds), len(ds) + 1, grp, grp + 1, len(ds) - grp])):
                if sf >= 0:
                    cases.append((v, bk, sf))
    lines = [sx([Sym('fmt-int'), F.limbs(v), int(len(F.limbs(v)) > 1), bk[0], bk[1], 0, 1, sf]) for (v, bk, sf) in cases]
    impl = c.impl('fmt', lines)
    model = c.model('fmt', lines, cross=False)      # same op is cross-sampled by C02
    for i, (v, bk, sf) in enumerate(cases):
        b = bk[1]
        ds = F.int_digits(v, b)
        c.note_case('isf:%d:%d:%d' % (v, b, sf), len(ds) > 38 or b != 10, 'int-sf' + (':multi-group' if v >= 2 ** 128 // b else ''))
        sh = ds[:sf] + '0' * max(0, len(ds) - sf)
        want = sx([b'ok', cps(sh), int(sh == ds), len(ds)])
        if impl[i] != want:
            c.violation('integer-sf-wrong', {'kind': 'impl-vs-spec', 'op': 'fmt-int', 'line': lines[i], 'value': str(v), 'base': b, 'sf': sf,
                                             'impl': impl[i], 'expected': want})
        elif impl[i] != model[i]:
            c.violation('fmt-int-model-differs', {'kind': 'impl-vs-model', 'op': 'fmt-int', 'line': lines[i], 'impl': impl[i], 'model': model[i]}, no_input=True)


# ---------------------------------------------------------------------------
def check_iroot(c):
    r = c.rng
    quick = c.tier == 'quick'
    cases = []
    for k in range(1, 13):
        for base in [2, 3, 7, 10, 12, 255, 2 ** 32 - 1, 2 ** 32, 2 ** 64 - 1, 10 ** 20 + 7]:
            for d in (-1, 0, 1):
                x = base ** k + d
                if x >= 0:
                    cases.append((x, k))
        for _ in range(20 if quick else 400):
            b0 = r.randrange(2, 10 ** r.choice([1, 5, 12, 25]))
            cases.append((b0 ** k + r.choice([-1, 0, 0, 1, r.randrange(0, 1000)]), k))
    for x in [0, 1, 2, 3, 4, 2 ** 64, 2 ** 128 + 1, 10 ** 100]:
        for k in [1, 2, 3, 64, 1000]:     # (a huge n makes BigUint::pow(guess, n) run for ever: fend and model alike)
            cases.append((x, k))
    cases += [(5, 0), (1, 0), (0, 0), (2, 0), (7, 2 ** 64), (1, 2 ** 64), (2 ** 70, 2 ** 64 + 5)]
    lines = [sx([Sym('iroot'), F.limbs(x), F.limbs(k)]) for (x, k) in cases]
    impl = c.impl('fmt', lines)
    model = c.model('fmt', lines)
    for i, (x, k) in enumerate(cases):
        c.note_case('r:%d:%d' % (x, k), x > 1 and k > 1, 'iroot' + (':perfect' if k and iroot(x, k) ** k == x else ''))
        pi, pm = try_parse(impl[i]), try_parse(model[i])
        if k == 0 or k >= 2 ** 64:
            # outside the property (n-th root for n = 0 or beyond u64): correspondence of the outcome kind only
            ki = pi[0] if isinstance(pi, list) else b'crash'
            km = pm[0] if isinstance(pm, list) else b'crash'
            same = (ki == km) and (ki != b'err' or pi[1] == pm[1])
            if not same:
                c.violation('iroot-outcome-differs', {'kind': 'impl-vs-model', 'op': 'iroot', 'line': lines[i], 'impl': impl[i], 'model': model[i]}, no_input=True)
            continue
        rt = iroot(x, k)
        want = sx([b'ok', F.limbs(rt), int(rt ** k == x)])
        if not (isinstance(pi, list) and pi[0] == b'ok' and F.unlimbs(pi[1]) == rt and pi[2] == int(rt ** k == x)):
            c.violation('integer-root-wrong', {'kind': 'impl-vs-spec', 'op': 'iroot', 'x': str(x), 'n': str(k), 'line': lines[i],
                                               'impl': impl[i], 'expected': want})
            continue
        if not (isinstance(pm, list) and pm[0] == b'ok' and pm[1] == rt and pm[2] == int(rt ** k == x)):
            c.violation('iroot-model-differs', {'kind': 'impl-vs-model', 'op': 'iroot', 'line': lines[i], 'impl': impl[i], 'model': model[i]}, no_input=True)
        elif len(pi[1]) != len(F.limbs(rt)):
            c.repr_drift += 1      # the root comes back with a leading zero limb: same value


def rawrat(x, exact=1):
    return [int(x < 0), F.limbs(abs(x.numerator)), F.limbs(x.denominator), exact, 5, 10]


def check_pow(c):
    r = c.rng
    quick = c.tier == 'quick'
    cases = []
    for k in range(2, 13):
        for _ in range(12 if quick else 150):
            a, b = r.randrange(1, 60), r.randrange(1, 60)
            p = r.choice([1, 1, 2, 3, k - 1, k + 1])
            base = Fraction(a, b)
            kind = r.choice(['perfect', 'perfect', 'near-num', 'near-den', 'random', 'unreduced'])
            if kind == 'perfect':
                x = base ** k
            elif kind == 'near-num':
                x = Fraction(a ** k + r.choice([-1, 1]), b ** k)
            elif kind == 'near-den':
                x = Fraction(a ** k, b ** k + 1)
            elif kind == 'unreduced':
                x = base ** k
            else:
                x = Fraction(r.randrange(1, 10 ** 6), r.randrange(1, 10 ** 6))
            e = Fraction(p, k) * r.choice([1, 1, 1, -1])
            if x > 0:
                cases.append((x, e, kind))
    cases += [(Fraction(0), Fraction(1, 2), 'zero'), (Fraction(0), Fraction(0), 'zero-zero'), (Fraction(-8), Fraction(1, 3), 'negative-base'),
              (Fraction(-8), Fraction(2), 'negative-int'), (Fraction(-8), Fraction(3), 'negative-int'), (Fraction(2), Fraction(-3), 'neg-exp'),
              (Fraction(0), Fraction(-1, 2), 'zero-neg'), (Fraction(4), Fraction(1, 2), 'perfect'), (Fraction(2), Fraction(1, 2), 'sqrt2'),
              (Fraction(1), Fraction(7, 3), 'one'), (Fraction(5, 3), Fraction(1), 'pow-one'), (Fraction(10 ** 40), Fraction(1, 4), 'perfect'),
              (Fraction(10 ** 40 + 1), Fraction(1, 4), 'near-num')]
    # raw, UNREDUCED numerator/denominator pairs for base and exponent (common factors that are not
    # themselves perfect powers): the value is what counts
    raws = {}
    for idx, (x, e, kind) in enumerate(cases):
        if idx % 2 == 0 and x > 0:
            f = r.choice([2, 3, 5, 6, 7, 10, 12, 2 ** 64 + 1])
            g = r.choice([1, 1, 2, 3])
            raws[idx] = ([0, F.limbs(x.numerator * f), F.limbs(x.denominator * f), 1, 5, 10],
                         [int(e < 0), F.limbs(abs(e.numerator) * g), F.limbs(e.denominator * g), 1, 5, 10])
    lines = [sx([Sym('pow-rat'), raws[i][0] if i in raws else rawrat(x), raws[i][1] if i in raws else rawrat(e)])
             for i, (x, e, kind) in enumerate(cases)]
    impl = c.impl('fmt', lines)
    model = c.model('fmt', lines)
    eps = Fraction(1, 10 ** 12)
    for i, (x, e, kind) in enumerate(cases):
        if i in raws:
            kind = kind + ':unreduced-raw'
        c.note_case('p:%s^%s' % (x, e), e.denominator > 1, 'pow:' + kind)
        pi, pm = try_parse(impl[i]), try_parse(model[i])
        if not isinstance(pi, list):
            c.violation('pow-crash', {'kind': 'impl-crash', 'op': 'pow-rat', 'x': str(x), 'e': str(e), 'line': lines[i], 'impl': impl[i]})
            continue
        # spec
        p, q = abs(e.numerator), e.denominator
        expect_err = (x < 0 and q != 1) or (x == 0 and e == 0) or (x == 0 and e < 0)
        if expect_err or pi[0] != b'ok':
            if not (expect_err and pi[0] == b'err'):
                c.violation('pow-outcome-wrong', {'kind': 'impl-vs-spec', 'op': 'pow-rat', 'x': str(x), 'e': str(e), 'line': lines[i], 'impl': impl[i]})
            elif x < 0 and q != 1:
                pass        # Value::pow takes the complex branch (a complex result is not a plain rational): outside BigRat::pow
            elif not (isinstance(pm, list) and pm[0] == b'err' and pm[1] == pi[1]):
                c.violation('pow-error-kind-differs', {'kind': 'impl-vs-model', 'op': 'pow-rat', 'line': lines[i], 'impl': impl[i], 'model': model[i]}, no_input=True)
            continue
        raw = pi[1]
        got = Fraction(-F.unlimbs(raw[1]) if raw[0] else F.unlimbs(raw[1]), F.unlimbs(raw[2]))
        got_exact = raw[3] == 1
        xp = x ** p if e >= 0 else (1 / x) ** p
        ax = abs(xp)
        rn, rd = perfect_root(ax.numerator, q), perfect_root(ax.denominator, q)
        rational = rn is not None and rd is not None
        if rational:
            true_root = Fraction(rn, rd) * (-1 if xp < 0 else 1)
            ok = got_exact and got == true_root
        else:
            ok = (not got_exact) and got > 0 and (got * (1 - eps)) ** q <= ax <= (got * (1 + eps)) ** q
        if not ok:
            c.violation('root-exactness-or-accuracy', {'kind': 'impl-vs-spec', 'op': 'pow-rat', 'x': str(x), 'e': str(e), 'line': lines[i],
                                                       'impl': impl[i], 'rational_root_exists': rational})
            continue
        if not (isinstance(pm, list) and pm[0] == b'ok' and F.q_of(pm[1]) == got and pm[2] == int(got_exact)):
            c.violation('pow-model-differs', {'kind': 'impl-vs-model', 'op': 'pow-rat', 'line': lines[i], 'impl': impl[i], 'model': model[i]}, no_input=True)
    c.sample({'op': 'pow-rat', 'x': str(cases[5][0]), 'e': str(cases[5][1]), 'impl': impl[5]})


# ---------------------------------------------------------------------------
# flag propagation

def gen_fexpr(r, depth):
    if depth == 0 or r.random() < 0.25:
        v = r.choice([Fraction(0), Fraction(0), Fraction(1), Fraction(r.randrange(-9, 10), r.randrange(1, 7))])
        lit = ['lit', int(v < 0), abs(v.numerator), v.denominator]
        return ['approx', lit] if r.random() < 0.35 else lit
    k = r.choice(['add', 'add', 'sub', 'sub', 'mul', 'div', 'neg', 'approx'])
    if k in ('neg', 'approx'):
        return [k, gen_fexpr(r, depth - 1)]
    a = gen_fexpr(r, depth - 1)
    b = gen_fexpr(r, depth - 1)
    if r.random() < 0.3 and k in ('add', 'sub'):
        b = ['sub', a2 := gen_fexpr(r, depth - 1), a2] if r.random() < 0.5 else b     # x - x: an exact or approximate zero
    return [k, a, b]


def fexpr_text(e):
    k = e[0]
    if k == 'lit':
        s = '%d/%d' % (e[2], e[3]) if e[3] != 1 else '%d' % e[2]
        return '(-%s)' % s if e[1] else '(%s)' % s
    if k == 'approx':
        return '(approx. %s)' % fexpr_text(e[1])
    if k == 'neg':
        return '(-%s)' % fexpr_text(e[1])
    op = {'add': '+', 'sub': '-', 'mul': '*', 'div': '/'}[k]
    return '(%s %s %s)' % (fexpr_text(e[1]), op, fexpr_text(e[2]))


def fexpr_sx(e):
    k = e[0]
    if k == 'lit':
        return [Sym('lit'), e[1], e[2], e[3]]
    return [Sym(k)] + [fexpr_sx(x) for x in e[1:]]


def fexpr_uses_approx(e):
    if e[0] == 'lit':
        return False
    if e[0] == 'approx':
        return True
    return any(fexpr_uses_approx(x) for x in e[1:])


def fexpr_value(e):
    k = e[0]
    if k == 'lit':
        return Fraction(-e[2] if e[1] else e[2], e[3])
    if k == 'approx':
        return fexpr_value(e[1])
    if k == 'neg':
        v = fexpr_value(e[1])
        return None if v is None else -v
    a, b = fexpr_value(e[1]), fexpr_value(e[2])
    if a is None or b is None:
        return None
    if k == 'add':
        return a + b
    if k == 'sub':
        return a - b
    if k == 'mul':
        return a * b
    return None if b == 0 else a / b


def check_flags(c):
    r = c.rng
    n = 700 if c.tier == 'quick' else 12000
    exprs = [['add', ['lit', 0, 1, 1], ['approx', ['lit', 0, 0, 1]]],
             ['sub', ['lit', 0, 1, 1], ['approx', ['lit', 0, 0, 1]]],
             ['add', ['approx', ['lit', 0, 0, 1]], ['lit', 0, 1, 1]],
             ['add', ['lit', 0, 0, 1], ['approx', ['lit', 0, 0, 1]]],
             ['mul', ['lit', 0, 1, 1], ['approx', ['lit', 0, 0, 1]]],
             ['mul', ['lit', 0, 0, 1], ['approx', ['lit', 0, 5, 1]]],
             ['div', ['lit', 0, 0, 1], ['approx', ['lit', 0, 5, 1]]],
             ['div', ['lit', 0, 1, 1], ['approx', ['lit', 0, 0, 1]]],
             ['add', ['lit', 0, 1, 1], ['sub', ['approx', ['lit', 0, 2, 1]], ['approx', ['lit', 0, 2, 1]]]]]
    exprs += [gen_fexpr(r, r.choice([1, 2, 3, 4])) for _ in range(n)]
    lines = [sx([Sym('eval'), 0, cps(fexpr_text(e) + ' to fraction')]) for e in exprs]
    mlines = [sx([Sym('flag'), fexpr_sx(e)]) for e in exprs]
    impl = c.impl('fmt', lines)
    model = c.model('fmt', mlines)
    for i, e in enumerate(exprs):
        t = fexpr_text(e)
        ua = fexpr_uses_approx(e)
        c.note_case('g:' + t, ua, 'flag:' + ('approx-leaf' if ua else 'exact-only'))
        v = fexpr_value(e)
        got = F.res_text(impl[i])
        pm = try_parse(model[i])
        if v is None:
            if got[0] != 'err':
                c.violation('flag-div-by-zero-missed', {'kind': 'impl-vs-spec', 'op': 'eval', 'expr': t, 'impl': got})
            elif not (isinstance(pm, list) and pm[0] == b'err'):
                c.violation('flag-model-differs', {'kind': 'impl-vs-model', 'op': 'flag', 'expr': t, 'impl': got, 'model': model[i]}, no_input=True)
            continue
        if got[0] != 'ok':
            c.violation('flag-eval-failed', {'kind': 'impl-vs-spec', 'op': 'eval', 'expr': t, 'impl': got})
            continue
        marked = got[1].startswith('approx. ')
        body = got[1][8:] if marked else got[1]
        want_body = ('-' if v < 0 else '') + (str(abs(v.numerator)) if v.denominator == 1 else '%d/%d' % (abs(v.numerator), v.denominator))
        model_ok = isinstance(pm, list) and pm[0] == b'ok'
        in_known_class = model_ok and pm[3] == 1
        if body != want_body:
            c.violation('flag-value-wrong', {'kind': 'impl-vs-spec', 'op': 'eval', 'expr': t, 'impl': got, 'expected_value': want_body})
            continue
        if marked != ua:
            # the property: computed from an approximate value <=> marked
            if ua and not marked and in_known_class and c.known_finding(KNOWN):
                pass
            else:
                c.violation('marker-wrong', {'kind': 'impl-vs-spec', 'op': 'eval', 'expr': t + ' to fraction', 'impl': got,
                                             'uses_approximate_operand': ua, 'in_known_class': in_known_class})
                continue
        if not (model_ok and F.q_of(pm[1]) == v and (pm[2] == 1) == (not marked)):
            c.violation('flag-model-differs', {'kind': 'impl-vs-model', 'op': 'flag', 'expr': t, 'impl': got, 'model': model[i]}, no_input=True)
    # L1: Value::add directly
    l1 = []
    for _ in range(100 if c.tier == 'quick' else 1500):
        a = Fraction(r.randrange(-5, 6), r.randrange(1, 5))
        b = r.choice([Fraction(0), Fraction(0), Fraction(r.randrange(-5, 6), r.randrange(1, 5))])
        l1.append((a, r.random() < 0.5, b, r.random() < 0.5))
    ll = [sx([Sym('add-rat'), rawrat(a, int(ea)), rawrat(b, int(eb))]) for (a, ea, b, eb) in l1]
    io = c.impl('fmt', ll)
    for (a, ea, b, eb), o, line in zip(l1, io, ll):
        p = try_parse(o)
        c.note_case('a:%s:%s:%s:%s' % (a, ea, b, eb), not (ea and eb), 'add-rat')
        ok = isinstance(p, list) and p[0] == b'ok'
        if ok:
            raw = p[1]
            v = Fraction(-F.unlimbs(raw[1]) if raw[0] else F.unlimbs(raw[1]), F.unlimbs(raw[2]))
            want_flag = ea and eb
            if v != a + b:
                c.violation('add-value-wrong', {'kind': 'impl-vs-spec', 'op': 'add-rat', 'line': line, 'impl': o})
            elif (raw[3] == 1) != want_flag:
                if b == 0 and not eb and ea and c.known_finding(KNOWN):
                    pass
                else:
                    c.violation('add-flag-wrong', {'kind': 'impl-vs-spec', 'op': 'add-rat', 'line': line, 'impl': o, 'expected_flag': want_flag})
        else:
            c.violation('add-rat-failed', {'kind': 'impl-crash', 'op': 'add-rat', 'line': line, 'impl': o})
    c.sample({'op': 'eval', 'expr': fexpr_text(exprs[0]) + ' to fraction', 'impl': F.res_text(impl[0])})
    # regression corpus of the repaired defect (fend 198ba44): these must stay marked
    wit = ['1 + (sqrt 2 - sqrt 2)', '1 + approx. 0', '0 + approx. 0', '1 - (approx. 2 - approx. 2)', '1 - approx. 0',
           '(1 + (sqrt 2 - sqrt 2)) to fraction', '5 + (sqrt 3 - sqrt 3) + 1', '1 km + (sqrt 2 - sqrt 2) s', '1 km + (approx. 0) m',
           '2 (1 + approx. 0)', '(1 + approx. 0)^2 to fraction', '(1 + approx. 0) / 3 to fraction']
    wo = c.impl('fmt', [sx([Sym('eval'), 0, cps(t)]) for t in wit])
    for t, o in zip(wit, wo):
        c.note_case('w:' + t, True, 'flag:regression-witness')
        got = F.res_text(o)
        if not (got[0] == 'ok' and got[1].startswith('approx. ')):
            c.violation('marker-dropped-by-approximate-zero', {'kind': 'impl-vs-spec', 'op': 'eval', 'expr': t, 'impl': got,
                                                              'note': 'regression of the defect fixed by fend 198ba44'})
    # unit scales that are products of two multiples of pi: the converted value is an
    # irrational multiple of pi computed with an approximated pi, so it must be marked
    sc = []
    for _ in range(12 if c.tier == 'quick' else 200):
        a, b2 = r.randrange(1, 400), r.randrange(1, 400)
        sc.append('(%d degree * %d degree) to (sextant radian) to fraction' % (a, b2))
    sc += ['(4 degree * 157 degree) to (sextant radian) to fraction', '(1 degree * 1 arcminute) to (sextant radian) to exact']
    so = c.impl('fmt', [sx([Sym('eval'), 0, cps(t)]) for t in sc])
    for t, o in zip(sc, so):
        c.note_case('s:' + t, True, 'flag:pi-product-scale')
        got = F.res_text(o)
        if got[0] != 'ok':
            c.violation('scale-conversion-failed', {'kind': 'impl-vs-spec', 'op': 'eval', 'expr': t, 'impl': got})
        elif not got[1].startswith('approx. '):
            if not c.known_finding(KNOWN_SCALE):
                c.violation('marker-dropped-by-pi-product-scale', {'kind': 'impl-vs-spec', 'op': 'eval', 'expr': t, 'impl': got})


# ---------------------------------------------------------------------------
# the Real layer: rationals and symbolic multiples of pi

def gen_rexpr(r, depth):
    if depth == 0 or r.random() < 0.2:
        k = r.random()
        if k < 0.45:
            q = Fraction(r.randrange(-6, 13), r.randrange(1, 6))
            if r.random() < 0.15:
                q = Fraction(r.choice([0, 10 ** r.randrange(5, 34)]))
            return ['lit', int(q < 0), abs(q.numerator), q.denominator]
        if k < 0.9:
            m = Fraction(r.randrange(1, 9), r.randrange(1, 7))
            if r.random() < 0.5:
                return ['pi']
            return ['mul', ['lit', 0, m.numerator, m.denominator], ['pi']]
        return ['approx', ['lit', 0, r.randrange(0, 4), 1]]
    k = r.choice(['add', 'sub', 'sub', 'mul', 'mul', 'div', 'div', 'div', 'neg', 'pow', 'int'])
    if k == 'neg':
        return ['neg', gen_rexpr(r, depth - 1)]
    if k == 'pow':
        return ['pow', gen_rexpr(r, depth - 1), r.choice([0, 1, 2, 2, 3])]
    if k == 'int':
        return [r.choice(['floor', 'ceil', 'round']), gen_rexpr(r, depth - 1)]
    a = gen_rexpr(r, depth - 1)
    if k == 'sub' and r.random() < 0.35:
        return ['sub', a, a]                 # a difference that cancels
    if k == 'div' and r.random() < 0.25:
        return ['div', a, a]
    return [k, a, gen_rexpr(r, depth - 1)]


def rexpr_text(e):
    k = e[0]
    if k == 'lit':
        t = '%d/%d' % (e[2], e[3]) if e[3] != 1 else '%d' % e[2]
        return '(-%s)' % t if e[1] else '(%s)' % t
    if k == 'pi':
        return 'pi'
    if k == 'approx':
        return '(approx. %s)' % rexpr_text(e[1])
    if k == 'neg':
        return '(-%s)' % rexpr_text(e[1])
    if k == 'pow':
        return '((%s)^%d)' % (rexpr_text(e[1]), e[2])      # `f(x)^2` parses as f(x^2) in fend
    if k == 'powe':
        return '((%s)^(%s))' % (rexpr_text(e[1]), rexpr_text(e[2]))
    if k in ('floor', 'ceil', 'round'):
        return '%s(%s)' % (k, rexpr_text(e[1]))
    op = {'add': '+', 'sub': '-', 'mul': '*', 'div': '/'}[k]
    return '(%s %s %s)' % (rexpr_text(e[1]), op, rexpr_text(e[2]))


def rexpr_sx(e):
    k = e[0]
    if k == 'lit':
        return [Sym('lit'), e[1], e[2], e[3]]
    if k == 'pi':
        return [Sym('pi')]
    if k == 'pow':
        return [Sym('pow'), rexpr_sx(e[1]), e[2]]
    if k == 'powe':
        return [Sym('powe'), rexpr_sx(e[1]), rexpr_sx(e[2])]
    return [Sym(k)] + [rexpr_sx(x) for x in e[1:]]


class Undecided(Exception):
    pass


def rexpr_true(e):
    """(value in Q(pi), uses an `approx.` operand); ZeroDivisionError / Undecided"""
    k = e[0]
    if k == 'lit':
        return P.QPi.rat(Fraction(-e[2] if e[1] else e[2], e[3])), False
    if k == 'pi':
        return P.QPi.pi(), False
    if k == 'approx':
        return rexpr_true(e[1])[0], True
    if k == 'neg':
        v, u = rexpr_true(e[1])
        return -v, u
    if k == 'pow':
        v, u = rexpr_true(e[1])
        if e[2] == 0 and v.is_zero():
            raise ZeroDivisionError
        return v ** e[2], u
    if k == 'powe':
        v, u = rexpr_true(e[1])
        w, u2 = rexpr_true(e[2])
        n = w.rational()
        if n is None or n.denominator != 1 or n < 0 or n > 6:
            raise Undecided
        if n == 0 and v.is_zero():
            raise ZeroDivisionError
        return v ** int(n), u or u2
    if k in ('floor', 'ceil', 'round'):
        v, u = rexpr_true(e[1])
        from math import floor, ceil
        fn = {'floor': floor, 'ceil': ceil, 'round': P.round_half_away}[k]
        z = P.certified(v, fn)
        if z is None:
            raise Undecided
        return P.QPi.rat(z), u
    a, ua = rexpr_true(e[1])
    b, ub = rexpr_true(e[2])
    if k == 'add':
        return a + b, ua or ub
    if k == 'sub':
        return a - b, ua or ub
    if k == 'mul':
        return a * b, ua or ub
    return a / b, ua or ub


def frac_text(v):
    return ('-' if v < 0 else '') + (str(abs(v.numerator)) if v.denominator == 1 else '%d/%d' % (abs(v.numerator), v.denominator))


KNOWN_INTFN = 'intfn_of_pi'     # fixed by fend 05b3863: a reappearance is a VIOLATION


def check_real(c):
    r = c.rng
    n = 600 if c.tier == 'quick' else 5000
    big = lambda: 10 ** r.randrange(3, 34)
    L = lambda v: ['lit', int(v < 0), abs(Fraction(v).numerator), Fraction(v).denominator]
    PI = ['pi']
    kpi = lambda: ['mul', L(Fraction(r.randrange(1, 9), r.randrange(1, 5))), PI]
    fam = []
    for _ in range(25 if c.tier == 'quick' else 200):
        fam += [
            ['div', L(r.randrange(1, 50)), kpi()],                                   # rational / pi-multiple
            ['sub', ['div', L(1), kpi()], ['div', L(1), PI]],                          # differences of such
            (lambda t: ['sub', t, t])(['div', L(r.randrange(1, 9)), kpi()]),           # ... that cancel
            ['div', ['div', L(r.randrange(1, 9)), PI], ['div', L(r.randrange(1, 9)), kpi()]],
            ['mul', ['div', L(r.randrange(1, 9)), kpi()], kpi()],                      # (q/pi) * pi
            ['mul', kpi(), kpi()],                                                     # pi * pi
            ['div', ['mul', kpi(), kpi()], kpi()],
            ['div', kpi(), kpi()],                                                     # exact: ratio of multiples
            ['add', kpi(), kpi()], ['sub', kpi(), PI],                                 # exact: sums of multiples
            ['mul', L(Fraction(r.randrange(1, 9), r.randrange(1, 9))), kpi()],
            ['add', L(r.randrange(0, 5)), kpi()],                                      # rational + multiple: approximate
            ['add', ['sub', PI, PI], L(r.randrange(0, 5))],                            # zero multiple + rational: exact
            [r.choice(['floor', 'ceil', 'round']), ['div', L(big()), kpi()]],          # integer functions of q/pi
            [r.choice(['floor', 'ceil', 'round']), ['mul', L(big()), kpi()]],          # ... and of multiples of pi
            [r.choice(['floor', 'ceil', 'round']), ['div', kpi(), kpi()]],
            ['pow', kpi(), r.choice([0, 1, 2, 3])], ['pow', ['div', L(2), PI], 2],
            ['sub', ['pow', PI, 2], ['mul', PI, PI]],
            # an approximate EXPONENT whose value is a small natural number, exact base
            ['powe', L(r.randrange(2, 5)), ['floor', kpi()]],
            ['powe', L(r.randrange(2, 5)), ['approx', L(r.randrange(0, 4))]],
            ['powe', L(r.randrange(2, 5)), ['floor', ['add', L(r.randrange(1, 4)), ['div', L(1), PI]]]],
            ['powe', kpi(), ['floor', ['div', L(r.randrange(2, 9)), L(2)]]],
            ['powe', L(Fraction(r.randrange(1, 5), 2)), ['sub', ['add', ['div', L(1), PI], L(2)], ['div', L(1), PI]]],
        ]
    exprs = fam + [gen_rexpr(r, r.choice([2, 2, 3, 3])) for _ in range(n)]
    exprs = [e for e in exprs if rexpr_text(e).count('pi') <= 4]      # keeps the unreduced 64-digit stand-ins for pi from piling up
    # the rational fend uses for pi
    pio = F.res_text(c.impl('fmt', [sx([Sym('eval'), 0, cps('pi to fraction')])])[0])
    try:
        piq = Fraction(pio[1].replace('approx. ', ''))
    except Exception:
        c.violation('pi-approximation-unreadable', {'kind': 'impl-crash', 'op': 'eval', 'expr': 'pi to fraction', 'impl': pio})
        return
    if not (P.PI_LO - Fraction(1, 10 ** 20) < piq < P.PI_HI + Fraction(1, 10 ** 20)):
        c.violation('pi-approximation-off', {'kind': 'impl-vs-spec', 'op': 'eval', 'expr': 'pi to fraction', 'impl': pio})
    lines = [sx([Sym('eval'), 0, cps(rexpr_text(e) + ' to fraction')]) for e in exprs]
    mlines = [sx([Sym('rflag'), piq.numerator, piq.denominator, rexpr_sx(e)]) for e in exprs]
    slines = [sx([Sym('sval'), rexpr_sx(e)]) for e in exprs]
    impl = c.impl('fmt', lines)
    model = c.model('fmt', mlines)
    svals = c.model('fmt', slines, cross=False)
    for i, e in enumerate(exprs):
        t = rexpr_text(e)
        try:
            tv, uses_apx = rexpr_true(e)
            err = None
        except ZeroDivisionError:
            tv, uses_apx, err = None, False, 'div0'
        except Undecided:
            tv, uses_apx, err = None, False, 'undecided'
        has_pi = 'pi' in t
        c.note_case('R:' + t, has_pi, 'real:' + ('approx-leaf' if uses_apx else 'pi' if has_pi else 'rational'))
        got = F.res_text(impl[i])
        pm = try_parse(model[i])
        if err == 'div0':
            if got[0] != 'err':
                c.violation('real-div-by-zero-missed', {'kind': 'impl-vs-spec', 'op': 'eval', 'expr': t, 'impl': got})
            elif not (isinstance(pm, list) and pm[0] == b'err'):
                c.violation('real-model-differs', {'kind': 'impl-vs-model', 'op': 'rflag', 'expr': t, 'impl': got, 'model': model[i]}, no_input=True)
            continue
        if isinstance(pm, list) and pm[0] == b'err' and pm[1] == b'ModelUnmodelled':
            pm = None           # exponent that is not a natural number: outside the Real-layer model
        if got[0] == 'crash' and 'hang' in str(got[1]):
            c.notes.append('slow (>10 s) evaluation skipped: ' + t[:120])
            continue
        if got[0] != 'ok':
            # fend can also divide by an approximated zero etc.; the model must agree
            if not (isinstance(pm, list) and pm[0] == b'err'):
                c.violation('real-eval-failed', {'kind': 'impl-vs-model', 'op': 'eval', 'expr': t, 'impl': got, 'model': model[i]}, no_input=True)
            continue
        marked = got[1].startswith('approx. ')
        body = got[1][8:] if marked else got[1]
        model_ok = isinstance(pm, list) and pm[0] == b'ok'
        in_known = model_ok and pm[5] == 1
        # ---- property verdict: an unmarked text must be the true value, and nothing approximate may be in it
        if not marked and err is None:
            rv = tv.rational()
            bad = uses_apx or rv is None or frac_text(rv) != body
            if bad:
                if in_known and c.known_finding(KNOWN_INTFN):
                    pass
                else:
                    c.violation('unmarked-result-misstates-value', {'kind': 'impl-vs-spec', 'op': 'eval', 'expr': t + ' to fraction', 'impl': got,
                                                                    'true_value_rational': None if rv is None else str(rv),
                                                                    'uses_approx_operand': uses_apx, 'in_known_class': in_known})
                    continue
        # ---- the Coq symbolic reference against the independent Q(pi) arithmetic (spec vs spec)
        ps = try_parse(svals[i])
        if err is None and isinstance(ps, list) and ps[0] == b'some':
            a, b2 = F.q_of(ps[1][0]), F.q_of(ps[1][1])
            if not (tv - (P.QPi.rat(a) + P.QPi.rat(b2) * P.QPi.pi())).is_zero():
                c.violation('sval-disagrees-with-Qpi', {'kind': 'spec-vs-spec', 'expr': t, 'sval': svals[i]}, no_input=True)
        # ---- correspondence: pattern value and flag
        if in_known and any(k.get('class') == KNOWN_INTFN and k.get('status', 'open') == 'open' for k in c.known):
            continue        # the mirror is deliberately bug-compatible there
        if pm is None:
            continue
        if not model_ok:
            c.violation('real-model-differs', {'kind': 'impl-vs-model', 'op': 'rflag', 'expr': t, 'impl': got, 'model': model[i]}, no_input=True)
            continue
        mval = F.q_of(pm[3])
        mflag = (pm[4] == 1) and pm[1] == b's'
        if body != frac_text(mval) or marked == mflag:
            c.violation('real-model-differs', {'kind': 'impl-vs-model', 'op': 'rflag', 'expr': t, 'impl': got, 'model': model[i]}, no_input=True)
    c.sample({'op': 'eval', 'expr': rexpr_text(exprs[3]) + ' to fraction', 'impl': F.res_text(impl[3])})
    # regression corpus of the repaired defect (fend 05b3863): integer functions of a multiple of pi stay marked
    wit = ['floor(pi * 10^25)', 'floor(pi * 10^30)', 'round(pi * 10^30)', 'ceil(pi 10^40)', 'floor(pi)', 'ceil(2 pi)', 'round(pi/3)',
           'floor(pi * 10^25) to fraction', 'floor(pi 10^25) + 1', '2 floor(pi 10^30)', 'floor((-1) * pi * 10^28)']
    wo = c.impl('fmt', [sx([Sym('eval'), 0, cps(t)]) for t in wit])
    for t, o in zip(wit, wo):
        c.note_case('w:' + t, True, 'real:regression-witness')
        got = F.res_text(o)
        if not (got[0] == 'ok' and got[1].startswith('approx. ')):
            c.violation('integer-function-of-pi-unmarked', {'kind': 'impl-vs-spec', 'op': 'eval', 'expr': t, 'impl': got,
                                                            'note': 'regression of the defect fixed by fend 05b3863'})
    for t in ['floor(pi - pi)', 'floor(7/2)', 'round(5/2)', 'ceil((2 pi)/(3 pi))']:      # exact arguments stay unmarked
        got = F.res_text(c.impl('fmt', [sx([Sym('eval'), 0, cps(t)])])[0])
        c.note_case('w:' + t, True, 'real:exact-argument')
        if not (got[0] == 'ok' and not got[1].startswith('approx. ')):
            c.violation('integer-function-marked-without-cause', {'kind': 'impl-vs-model', 'op': 'eval', 'expr': t, 'impl': got}, no_input=True)
    # plain (auto) display of integer-valued functions: no truncation there either
    il = [e for e in exprs if e[0] in ('floor', 'ceil', 'round')][:200]
    io = c.impl('fmt', [sx([Sym('eval'), 0, cps(rexpr_text(e))]) for e in il])
    for e, o in zip(il, io):
        got = F.res_text(o)
        try:
            tv, uses_apx = rexpr_true(e)
        except Exception:
            continue
        if got[0] == 'ok' and not got[1].startswith('approx. '):
            rv = tv.rational()
            if uses_apx or rv is None or frac_text(rv) != got[1]:
                if not c.known_finding(KNOWN_INTFN):
                    c.violation('unmarked-integer-function-misstates-value', {'kind': 'impl-vs-spec', 'op': 'eval', 'expr': rexpr_text(e), 'impl': got,
                                                                              'true_value': None if rv is None else str(rv)})


# ---------------------------------------------------------------------------
# complex values: both parts shown

def fend_pi_rational(c):
    pio = F.res_text(c.impl('fmt', [sx([Sym('eval'), 0, cps('pi to fraction')])])[0])
    try:
        return Fraction(pio[1].replace('approx. ', ''))
    except Exception:
        c.violation('pi-approximation-unreadable', {'kind': 'impl-crash', 'op': 'eval', 'expr': 'pi to fraction', 'impl': pio})
        return None


def check_complex(c):
    r = c.rng
    quick = c.tier == 'quick'
    piq = fend_pi_rational(c)
    if piq is None:
        return
    bases = [(5, 10), (5, 10), (5, 2), (5, 16), (5, 36), (5, 7), (3, 16), (4, 12)]

    def term_den(b):        # a denominator whose expansion terminates in base b
        d = 1
        for f in F.prime_factors(b):
            d *= f ** r.randrange(0, 4)
        return max(d, 1)

    def nonterm_den(b):
        while True:
            d = r.choice([3, 7, 9, 11, 13, 17, 6, 14, 15, 21, 22, 26, 35, 37, 97])
            if not F.terminates(d // gcd(d, 1), b):
                return d

    cases = []     # (re, re_pi, im, im_pi, vexact, bk, style, comma, kind)
    for _ in range(700 if quick else 12000):
        bk = r.choice(bases)
        b = F.base_val(bk)
        shape = r.choice(['re-term/im-cut', 're-cut/im-term', 'both-term', 'both-cut', 'pi-im', 'pi-re', 'im-only', 'int-parts'])
        num = lambda: r.randrange(1, 10 ** r.choice([1, 2, 4, 9]))
        tq = lambda: Fraction(num(), term_den(b))
        nq = lambda: Fraction(r.randrange(1, 60), nonterm_den(b))
        re_pi = im_pi = False
        if shape == 're-term/im-cut':
            re, im = tq(), nq()
        elif shape == 're-cut/im-term':
            re, im = nq(), tq()
        elif shape == 'both-term':
            re, im = tq(), tq()
        elif shape == 'both-cut':
            re, im = nq(), nq()
        elif shape == 'pi-im':
            re, im, im_pi = tq(), Fraction(r.randrange(1, 9), r.randrange(1, 5)), True
        elif shape == 'pi-re':
            re, im, re_pi = Fraction(r.randrange(1, 9), r.randrange(1, 5)), tq(), True
        elif shape == 'im-only':
            re, im = Fraction(0), r.choice([tq(), nq(), Fraction(1)])
        else:
            re, im = Fraction(num()), Fraction(r.choice([1, 1, num()]))
        if r.random() < 0.4:
            re = -re
        if r.random() < 0.4:
            im = -im
        if re_pi or im_pi or r.random() < 0.75:
            st = (r.choice(['dp', 'sf']), r.choice([0, 1, 2, 3, 5, 10, 20]) if r.random() < 0.8 else r.randrange(0, 40))
            if st == ('sf', 0):
                st = ('sf', 1)
        else:
            st = r.choice(['auto', 'float', 'exact', 'fraction', 'mixed_fraction'])
        cases.append((re, re_pi, im, im_pi, r.random() < 0.9, bk, st, r.random() < 0.2, shape))
    il, ml = [], []
    for (re, re_pi, im, im_pi, vex, bk, st, comma, shape) in cases:
        t, n = F.style_tag(st)
        raw = lambda v: [int(v < 0), F.limbs(abs(v.numerator)), F.limbs(v.denominator), int(vex), bk[0], bk[1]]
        il.append(sx([Sym('fmt-cx'), raw(re), int(re_pi), raw(im), int(im_pi), t, n, int(comma)]))
        ml.append(sx([Sym('fmt-cx'), raw(re * piq if re_pi else re), int(re_pi), raw(im * piq if im_pi else im), int(im_pi), t, n, int(comma)]))
    impl = c.impl('fmt', il)
    model = c.model('fmt', ml)
    for i, (re, re_pi, im, im_pi, vex, bk, st, comma, shape) in enumerate(cases):
        c.note_case('cx:%s:%s:%s:%s:%s:%s:%d:%d' % (re, re_pi, im, im_pi, bk, st, comma, vex), True, 'complex:' + shape)
        rv = re * piq if re_pi else re
        iv = im * piq if im_pi else im
        t, ex = F.render_complex(rv, iv, st, bk, comma, vex, re_pi, im_pi)
        want = F.shown(t, ex)
        got = F.res_text(impl[i])
        if got != ('ok', want):
            c.violation('complex-rendering-or-marker-wrong', {'kind': 'impl-vs-spec', 'op': 'fmt-cx', 'line': il[i], 're': str(re), 're_is_pi_multiple': re_pi,
                                                              'im': str(im), 'im_is_pi_multiple': im_pi, 'style': F.style_text(st), 'base': bk,
                                                              'value_exact_flag': vex, 'impl': got, 'expected': want})
        elif impl[i] != model[i]:
            c.violation('fmt-cx-model-differs', {'kind': 'impl-vs-model', 'op': 'fmt-cx', 'line': ml[i], 'impl': impl[i], 'model': model[i]}, no_input=True)
    c.sample({'op': 'fmt-cx', 'line': il[3], 'impl': F.res_text(impl[3])})
    # L2: through evaluate
    l2 = []
    for (re, re_pi, im, im_pi, vex, bk, st, comma, shape) in cases[:(150 if quick else 2500)]:
        if not vex or bk[0] != 5 or not isinstance(st, tuple) or re == 0:
            continue
        part = lambda v, is_pi: ('(%d/%d)' % (abs(v.numerator), v.denominator)) + (' pi' if is_pi else '')
        e = '%s%s %s %s i' % ('-' if re < 0 else '', part(re, re_pi), '-' if im < 0 else '+', part(im, im_pi))
        l2.append(('(%s) to base %d to %d %s' % (e, bk[1], st[1], st[0]), re, re_pi, im, im_pi, bk, st, comma))
    lo = c.impl('fmt', [sx([Sym('eval'), int(x[7]), cps(x[0])]) for x in l2])
    for (e, re, re_pi, im, im_pi, bk, st, comma), o in zip(l2, lo):
        c.note_case('cxL2:' + e, True, 'complex:L2')
        t, ex = F.render_complex(re * piq if re_pi else re, im * piq if im_pi else im, st, bk, comma, True, re_pi, im_pi)
        got = F.res_text(o)
        if got != ('ok', F.shown(t, ex)):
            c.violation('L2-complex-rendering-or-marker-wrong', {'kind': 'impl-vs-spec', 'op': 'eval', 'expr': e, 'comma': comma, 'impl': got,
                                                                 'expected': F.shown(t, ex)})


# ---------------------------------------------------------------------------
# an approximate operand in every operator position

def approx_forms(k, r):
    """expressions whose VALUE is exactly the integer k but which are computed from an approximate value"""
    return ['(sqrt 2 - sqrt 2 + %d)' % k, '(approx. %d)' % k, '(floor(%d + 1/pi))' % k,      # f(x)^n parses as f(x^n): keep the parentheses
            '(sqrt 3 / sqrt 3 * 0 + %d)' % k, '(approx. %d/2 * 2)' % k]


def check_approx_subst(c):
    r = c.rng
    quick = c.tier == 'quick'
    from math import comb, factorial
    # (template with slots {0} {1} {2}, python value, unit suffix, slot value ranges)
    T = [
        ('{0} + {1}', lambda a, b: a + b, '', [(1, 9), (1, 9)]),
        ('{0} - {1}', lambda a, b: a - b, '', [(5, 9), (1, 4)]),
        ('{0} * {1}', lambda a, b: a * b, '', [(2, 9), (2, 9)]),
        ('{0} / {1}', lambda a, b: Fraction(a, b), '', [(1, 9), (1, 8)]),
        ('{0} ^ {1}', lambda a, b: a ** b, '', [(2, 5), (0, 5)]),
        ('{0} ^ (-{1})', lambda a, b: Fraction(1, a ** b), '', [(2, 2), (1, 3)]),
        ('{0} mod {1}', lambda a, b: a % b, '', [(5, 29), (2, 5)]),
        ('({0} + {1}) * {2}', lambda a, b, c2: (a + b) * c2, '', [(1, 5), (1, 5), (2, 4)]),
        ('{0} - {1} / {2}', lambda a, b, c2: a - Fraction(b, c2), '', [(3, 9), (1, 5), (1, 4)]),
        ('{0} nCr {1}', lambda a, b: comb(a, b), '', [(4, 8), (1, 3)]),
        ('{0} nPr {1}', lambda a, b: factorial(a) // factorial(a - b), '', [(4, 6), (1, 3)]),
        ('{0}!', lambda a: factorial(a), '', [(2, 6)]),
        ('abs(-{0})', lambda a: a, '', [(1, 9)]),
        ('floor({0} / {1})', lambda a, b: a // b, '', [(5, 29), (2, 5)]),
        ('round({0} / {1})', lambda a, b: int(Fraction(a, b) + Fraction(1, 2)), '', [(5, 29), (2, 5)]),
        ('({0})^2 - {1}', lambda a, b: a * a - b, '', [(2, 9), (1, 3)]),
        ('sqrt({0} * {0})', lambda a: a, '', [(2, 12)]),
        ('({0} * {0} * {0})^(1/3)', lambda a: a, '', [(2, 6)]),
        ('4^({1}/{0})', lambda a, b: 2 ** b, '', [(2, 2), (1, 5)]),
        ('{0} << {1}', lambda a, b: a << b, '', [(1, 5), (1, 4)]),
        ('{0} m * {1}', lambda a, b: a * b, ' m', [(2, 9), (2, 9)]),
        ('{0} m to cm', lambda a: a * 100, ' cm', [(1, 9)]),
        ('{0} kg / {1}', lambda a, b: Fraction(a, b), ' kg', [(2, 9), (1, 4)]),
        ('{0} m + {1} cm', lambda a, b: a + Fraction(b, 100), ' m', [(1, 9), (1, 9)]),
        ('{0} dozen + {1}', lambda a, b: 12 * a + b, '', [(1, 5), (1, 9)]),
        ('({0} km)^2 to m^2', lambda a: a * a * 10 ** 6, ' m^2', [(1, 5)]),
        ('real({0} + {1} i)', lambda a, b: a, '', [(1, 9), (1, 9)]),
    ]
    cases = []
    per = 3 if quick else 40
    for (tpl, fn, unit, ranges) in T:
        for _ in range(per):
            vals = [r.randrange(lo, hi + 1) for (lo, hi) in ranges]
            try:
                want = Fraction(fn(*vals))
            except Exception:
                continue
            exact_expr = tpl.format(*['%d' % v for v in vals])
            cases.append((exact_expr, want, unit, False, tpl))
            for slot in range(len(vals)):
                forms = approx_forms(vals[slot], r)
                for form in ([r.choice(forms)] if quick else forms):
                    args = ['%d' % v for v in vals]
                    args[slot] = form
                    cases.append((tpl.format(*args), want, unit, True, tpl))
                # through a variable
                args = ['%d' % v for v in vals]
                args[slot] = 'x'
                cases.append(('x = sqrt 2 - sqrt 2 + %d; %s' % (vals[slot], tpl.format(*args)), want, unit, True, tpl))
    out = c.impl('fmt', [sx([Sym('eval'), 0, cps(e)]) for (e, w, u, a, t) in cases])
    for (e, want, unit, approx, tpl), o in zip(cases, out):
        c.note_case('sub:' + e, approx, 'approx-operand:' + tpl if approx else 'approx-operand:exact-baseline')
        t, ex = F.render(want, 'auto', (5, 10), False, not approx)
        expect = F.shown(t, ex) + unit
        got = F.res_text(o)
        if got != ('ok', expect):
            c.violation('approximate-operand-marker-or-value-wrong', {'kind': 'impl-vs-spec', 'op': 'eval', 'expr': e, 'impl': got, 'expected': expect,
                                                                      'approximate_operand': approx})


# ---------------------------------------------------------------------------
# roots and fractional powers of quantities with units

KNOWN_UROOT = 'unit_root_overmarked'     # open: rational root marked approx. when coefficient and unit scale are rooted separately

SCALE_UNITS = [('dozen', 12), ('score', 20), ('hundred', 100), ('thousand', 1000), ('million', 10 ** 6), ('billion', 10 ** 9), ('gross', 144)]


def check_unit_roots(c):
    r = c.rng
    quick = c.tier == 'quick'
    cases = []       # (expr, true radicand V, k, p, unit suffix expected when exact, scale note)
    for _ in range(120 if quick else 2500):
        k = r.choice([2, 2, 2, 3, 3, 4, 5])
        uname, scale = r.choice(SCALE_UNITS)
        kind = r.choice(['coef-perfect', 'total-perfect', 'both-perfect', 'neither'])
        a = r.randrange(1, 12)
        if kind == 'coef-perfect':
            coef = Fraction(a ** k)
        elif kind == 'both-perfect':
            coef = Fraction(a ** k)
            uname, scale = r.choice([u for u in SCALE_UNITS if perfect_root(u[1], k) is not None] or [('million', 10 ** 6)])
            if perfect_root(scale, k) is None:
                k = 2
        elif kind == 'total-perfect':
            # coefficient * scale is a perfect k-th power although neither factor is
            need = 1
            for f in F.prime_factors(scale):
                e = 0
                s2 = scale
                while s2 % f == 0:
                    s2 //= f
                    e += 1
                need *= f ** ((-e) % k)
            coef = Fraction(need * a ** k)
        else:
            coef = Fraction(r.randrange(2, 200))
        cs = '%d' % coef.numerator if coef.denominator == 1 else '(%d/%d)' % (coef.numerator, coef.denominator)
        form = r.randrange(3)
        if k == 2 and form == 0:
            e = 'sqrt(%s %s)' % (cs, uname)
        elif k == 3 and form == 0:
            e = 'cbrt(%s %s)' % (cs, uname)
        elif form == 1:
            e = '(%s %s)^(1/%d)' % (cs, uname, k)
        else:
            e = '(%s %s)^(%d/%d)' % (cs, uname, 1, k)
        cases.append((e, coef * scale, k, '', kind + ':' + uname, coef))
    # physical units: the exponent of the unit is divided, only the coefficient is rooted
    for _ in range(40 if quick else 600):
        k = r.choice([2, 2, 3])
        a = r.randrange(1, 15)
        coef = r.choice([a ** k, a ** k, r.randrange(2, 99)])
        unit = r.choice(['m', 'km', 'kg', 's', 'cm'])
        e = ('sqrt(%d %s^2)' if k == 2 else 'cbrt(%d %s^3)') % (coef, unit)
        cases.append((e, Fraction(coef), k, ' ' + unit, 'physical:' + unit, Fraction(coef)))
        if k == 2:
            cases.append(('sqrt(%d km^2) to m' % coef, Fraction(coef) * 10 ** 6, 2, ' m', 'physical:converted', Fraction(coef)))
    out = c.impl('fmt', [sx([Sym('eval'), 0, cps(x[0])]) for x in cases])
    for (e, V, k, unit, kind, coef), o in zip(cases, out):
        c.note_case('uroot:' + e, True, 'unit-root:' + kind.split(':')[0])
        got = F.res_text(o)
        rn, rd = perfect_root(V.numerator, k), perfect_root(V.denominator, k)
        rational = rn is not None and rd is not None
        if got[0] != 'ok':
            c.violation('unit-root-failed', {'kind': 'impl-vs-spec', 'op': 'eval', 'expr': e, 'impl': got})
            continue
        text = got[1]
        marked = text.startswith('approx. ')
        body = text[8:] if marked else text
        if unit and not body.endswith(unit):
            c.violation('unit-root-unit-wrong', {'kind': 'impl-vs-spec', 'op': 'eval', 'expr': e, 'impl': got, 'expected_unit': unit})
            continue
        num_txt = body[:len(body) - len(unit)] if unit else body
        try:
            val = Fraction(num_txt)
        except Exception:
            c.violation('unit-root-unreadable', {'kind': 'impl-vs-spec', 'op': 'eval', 'expr': e, 'impl': got})
            continue
        if rational:
            root = Fraction(rn, rd)
            t, ex = F.render(root, 'auto', (5, 10), False, True)
            if not marked and text == F.shown(t, ex) + unit:
                continue
            # marked although the true result is rational: fend roots coefficient and unit scale separately
            close = val > 0 and abs(val - root) <= Fraction(2, 10 ** 10) + root / 10 ** 12
            sep_irrational = perfect_root(coef.numerator, k) is None or perfect_root(coef.denominator, k) is None
            if marked and close and sep_irrational and c.known_finding(KNOWN_UROOT):
                continue
            c.violation('rational-unit-root-wrong', {'kind': 'impl-vs-spec', 'op': 'eval', 'expr': e, 'impl': got, 'true_root': str(root)})
        else:
            tol = Fraction(2, 10 ** 10)
            lo, hi = max(val - tol, 0) * (1 - Fraction(1, 10 ** 12)), (val + tol) * (1 + Fraction(1, 10 ** 12))
            ok = marked and val > 0 and lo ** k <= V <= hi ** k
            if not ok:
                c.violation('irrational-unit-root-unmarked-or-inaccurate', {'kind': 'impl-vs-spec', 'op': 'eval', 'expr': e, 'impl': got,
                                                                            'radicand': str(V), 'root_index': k})


# ---------------------------------------------------------------------------
def check_l2(c):
    r = c.rng
    n = 300 if c.tier == 'quick' else 5000
    cases = []
    for k in range(n):
        q = r.choice([r.randrange(1, 50), 10 ** r.randrange(1, 8), r.randrange(1, 5000)])
        p = r.randrange(0, 10 ** r.choice([1, 4, 9, 18]))
        neg = r.random() < 0.3 and p != 0
        kind = r.choice(['dp', 'sf'])
        nn = r.randrange(0 if kind == 'dp' else 1, 61)
        b = r.choice([10, 10, 2, 16, 36, 7])
        cases.append((neg, p, q, kind, nn, b, k % 6 == 0))
    lines = [sx([Sym('eval'), int(comma), cps('%s(%d/%d) to base %d to %d %s' % ('-' if neg else '', p, q, b, nn, kind))])
             for (neg, p, q, kind, nn, b, comma) in cases]
    lines.append(sx([Sym('eval'), 0, cps('(1/3) to 0 sf')]))
    impl = c.impl('fmt', lines)
    for i, (neg, p, q, kind, nn, b, comma) in enumerate(cases):
        x = Fraction(-p if neg else p, q)
        c.note_case('L2:%s:%s:%d:%d:%d' % (x, kind, nn, b, comma), True, 'L2:' + kind)
        t, ex = F.render(x, (kind, nn), (5, b), comma, True)
        got = F.res_text(impl[i])
        if got != ('ok', F.shown(t, ex)):
            c.violation('L2-truncation-wrong', {'kind': 'impl-vs-spec', 'op': 'eval', 'expr': F.txt(parse_sx(lines[i])[2]), 'comma': comma,
                                                'impl': got, 'expected': F.shown(t, ex)})
    if F.res_text(impl[-1])[0] != 'err':
        c.violation('zero-sf-accepted', {'kind': 'impl-vs-spec', 'op': 'eval', 'expr': '(1/3) to 0 sf', 'impl': impl[-1]})
    # roots and rational powers: marker against `to fraction`
    rc = []
    for _ in range(200 if c.tier == 'quick' else 3000):
        k = r.randrange(2, 13)
        a, b2 = r.randrange(1, 40), r.randrange(1, 40)
        kind = r.choice(['perfect', 'near'])
        x = Fraction(a, b2) ** k if kind == 'perfect' else Fraction(a ** k + 1, b2 ** k)
        fn = r.choice(['pow', 'pow', 'sqrt' if k == 2 else 'pow', 'cbrt' if k == 3 else 'pow'])
        rc.append((x, k, fn))
    rl = []
    for (x, k, fn) in rc:
        # the base is written as arithmetic that leaves it unreduced inside fend: a common factor,
        # a product of two fractions, or a decimal times an integer
        f = r.choice([1, 2, 3, 6, 10, 14])
        form = r.randrange(4)
        if form == 0:
            xs = '(%d/%d)' % (x.numerator * f, x.denominator * f)
        elif form == 1:
            xs = '((%d/%d) * (%d/%d))' % (x.numerator, f, f, x.denominator)
        elif form == 2:
            xs = '(%d * 0.5 / (%d/2))' % (x.numerator * f, x.denominator * f)
        else:
            xs = '(%d/%d)' % (x.numerator, x.denominator)
        e = '%s%s' % (fn, xs) if fn in ('sqrt', 'cbrt') else '%s^(1/%d)' % (xs, k)
        rl.append(sx([Sym('eval'), 0, cps(e + ' to fraction')]))
    ro = c.impl('fmt', rl)
    eps = Fraction(1, 10 ** 12)
    for (x, k, fn), o, line in zip(rc, ro, rl):
        c.note_case('L2root:%s:%d' % (x, k), True, 'L2:root')
        got = F.res_text(o)
        rn, rd = perfect_root(x.numerator, k), perfect_root(x.denominator, k)
        ok = False
        if got[0] == 'ok':
            marked = got[1].startswith('approx. ')
            body = got[1][8:] if marked else got[1]
            try:
                val = Fraction(body)
            except Exception:
                val = None
            if rn is not None and rd is not None:
                ok = (not marked) and val == Fraction(rn, rd)
            else:
                ok = marked and val is not None and val > 0 and (val * (1 - eps)) ** k <= x <= (val * (1 + eps)) ** k
        if not ok:
            c.violation('L2-root-marker-or-accuracy', {'kind': 'impl-vs-spec', 'op': 'eval', 'expr': F.txt(parse_sx(line)[2]), 'impl': got})


def check(c):
    c.rule = ('L1 fmt-rat with n dp / n sf, n in 0..60 (quick: 11 values, thorough: all), small p/q exhaustive in q, cut-boundary values, random to 10^45, both flags; '
              'L1 iroot/pow-rat on perfect and near-perfect k-th powers, k <= 12, plus error cases; flag expressions over exact / approx. leaves with + - * / neg '
              '(L2 `E to fraction` and L1 Value::add); L2 dp/sf and roots. non-trivial: non-integer or multi-digit value / fractional exponent / approximate operand')
    c.proof(['C03'], extra_targets=['Extract/XFmt.vo'])
    if c.tier == 'thorough':
        c.thorough_proof(['C03'])
    check_trunc(c)
    check_int_sf(c)
    check_iroot(c)
    check_pow(c)
    check_flags(c)
    check_real(c)
    check_complex(c)
    check_approx_subst(c)
    check_unit_roots(c)
    check_l2(c)


def replay(c, obj):
    print(json.dumps(obj, indent=1, default=str))
    if 'line' in obj:
        print('impl :', c.impl('fmt', [obj['line']])[0])
        print('model:', c.model('fmt', [obj['line']], cross=False)[0])
    elif 'expr' in obj:
        line = sx([Sym('eval'), int(obj.get('comma', 0)), cps(obj['expr'])])
        print('impl :', c.impl('fmt', [line])[0])
    return 0
