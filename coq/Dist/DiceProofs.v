(* Proofs about the model of Dist (coq/Dist/Dice.v), part 1: the weighted-sum
   functional [mass], insert_merge, bop, invariants (distinct outcomes,
   positive probabilities), support. *)
From Coq Require Import QArith Qround Lia Lqa SetoidList Morphisms.
From FendV Require Import Base.Prelude Dist.Dice.
Open Scope Q_scope.

Definition respects (g : Q -> Q) : Prop := forall x y, x == y -> g x == g y.
Definition respects2 (fv : Q -> Q -> Q) : Prop :=
  forall x x' y y', x == x' -> y == y' -> fv x y == fv x' y'.

(* two distributions are the same measure: equal weighted sums for every
   function of the outcome (that does not distinguish equal rationals) *)
Definition meq (d1 d2 : dist) : Prop := forall g, respects g -> mass g d1 == mass g d2.

Definition distinct (d : dist) : Prop := NoDupA Qeq (keys d).
Definition positive_probs (d : dist) : Prop := Forall (fun kp => 0 < snd kp) d.

Lemma respects_const c : respects (fun _ => c).
Proof. intros x y _. reflexivity. Qed.
Lemma respects_id : respects (fun x => x).
Proof. intros x y H. exact H. Qed.
Lemma respects_ind k : respects (fun x => if Qeq_bool x k then 1 else 0).
Proof.
  intros x y H. destruct (Qeq_bool x k) eqn:E1, (Qeq_bool y k) eqn:E2; try reflexivity.
  - apply Qeq_bool_iff in E1. assert (Qeq_bool y k = true) by (apply Qeq_bool_iff; rewrite <- H; exact E1). congruence.
  - apply Qeq_bool_iff in E2. assert (Qeq_bool x k = true) by (apply Qeq_bool_iff; rewrite H; exact E2). congruence.
Qed.

Lemma respects2_plus : respects2 Qplus.
Proof. intros x x' y y' H1 H2. rewrite H1, H2. reflexivity. Qed.
Lemma respects2_minus : respects2 Qminus.
Proof. intros x x' y y' H1 H2. rewrite H1, H2. reflexivity. Qed.
Lemma respects2_mult : respects2 Qmult.
Proof. intros x x' y y' H1 H2. rewrite H1, H2. reflexivity. Qed.
Lemma respects2_div : respects2 Qdiv.
Proof. intros x x' y y' H1 H2. rewrite H1, H2. reflexivity. Qed.

(* ---------------- rational helpers ---------------- *)

Lemma qadd_correct a b : qadd a b == a + b.
Proof.
  unfold qadd. destruct (Pos.eqb_spec (Qden a) (Qden b)) as [e|e].
  - unfold Qeq, Qplus. cbn [Qnum Qden]. rewrite <- e. rewrite Pos2Z.inj_mul. ring.
  - apply Qred_correct.
Qed.

Lemma qmul_correct a b : qmul a b == a * b.
Proof. reflexivity. Qed.

Lemma keq_iff a b : keq a b = true <-> a == b.
Proof. apply Qeq_bool_iff. Qed.

Lemma qis_zero_iff b : qis_zero b = true <-> b == 0.
Proof.
  unfold qis_zero, Qeq. cbn [Qnum Qden]. rewrite Z.eqb_eq. split; intro H.
  - rewrite H. reflexivity.
  - rewrite Z.mul_1_r in H. rewrite Z.mul_0_l in H. exact H.
Qed.

(* ---------------- mass ---------------- *)

Lemma mass_nil g : mass g [] = 0.
Proof. reflexivity. Qed.
Lemma mass_cons g k p d : mass g ((k, p) :: d) = g k * p + mass g d.
Proof. reflexivity. Qed.
Lemma mass_cons' g x d : mass g (x :: d) = g (fst x) * snd x + mass g d.
Proof. reflexivity. Qed.

Lemma mass_app g d1 d2 : mass g (d1 ++ d2) == mass g d1 + mass g d2.
Proof.
  induction d1 as [|x r IH]; cbn [app].
  - rewrite mass_nil. ring.
  - rewrite !mass_cons', IH. ring.
Qed.

Lemma mass_ext g h d : (forall x, g x == h x) -> mass g d == mass h d.
Proof.
  intro H. induction d as [|x r IH].
  - reflexivity.
  - rewrite !mass_cons', IH, H. reflexivity.
Qed.

Lemma mass_scale c g d : mass (fun x => c * g x) d == c * mass g d.
Proof.
  induction d as [|x r IH].
  - rewrite !mass_nil. ring.
  - rewrite !mass_cons', IH. ring.
Qed.

Lemma mass_plus g h d : mass (fun x => g x + h x) d == mass g d + mass h d.
Proof.
  induction d as [|x r IH].
  - rewrite !mass_nil. ring.
  - rewrite !mass_cons', IH. ring.
Qed.

Lemma mass_const c d : mass (fun _ => c) d == c * total d.
Proof.
  unfold total. induction d as [|x r IH].
  - rewrite !mass_nil. ring.
  - rewrite !mass_cons', IH. ring.
Qed.

Lemma mass_nonneg g d : (forall x, 0 <= g x) -> positive_probs d -> 0 <= mass g d.
Proof.
  intros Hg Hp. induction Hp as [|x r Hx Hr IH].
  - rewrite mass_nil. apply Qle_refl.
  - rewrite mass_cons'. cbn beta in Hx.
    assert (0 <= g (fst x) * snd x) by (apply Qmult_le_0_compat; [apply Hg | apply Qlt_le_weak; exact Hx]).
    lra.
Qed.

Lemma meq_refl d : meq d d.
Proof. intros g _. reflexivity. Qed.
Lemma meq_sym a b : meq a b -> meq b a.
Proof. intros H g Hg. symmetry. apply H, Hg. Qed.
Lemma meq_trans a b c : meq a b -> meq b c -> meq a c.
Proof. intros H1 H2 g Hg. rewrite (H1 g Hg). apply H2, Hg. Qed.

(* ---------------- insert_merge ---------------- *)

Lemma mass_insert g k p d : respects g ->
  mass g (insert_merge k p d) == mass g d + g k * p.
Proof.
  intro Hg. induction d as [|[k' p'] r IH]; cbn [insert_merge].
  - rewrite mass_cons, !mass_nil. ring.
  - destruct (keq k' k) eqn:E.
    + apply keq_iff in E. rewrite !mass_cons, qadd_correct, (Hg _ _ E). ring.
    + rewrite !mass_cons, IH. ring.
Qed.

Lemma existsb_InA k l : existsb (fun k' => keq k' k) l = true <-> InA Qeq k l.
Proof.
  induction l as [|x r IH]; cbn [existsb].
  - split; [discriminate | intro H; inversion H].
  - rewrite orb_true_iff, IH, keq_iff. split.
    + intros [H|H]; [left; symmetry; exact H | right; exact H].
    + intro H. inversion H; subst; [left; symmetry; assumption | right; assumption].
Qed.

Lemma keys_insert k p d :
  keys (insert_merge k p d) =
  if existsb (fun k' => keq k' k) (keys d) then keys d else keys d ++ [k].
Proof.
  induction d as [|[k' p'] r IH]; cbn [insert_merge keys map existsb fst].
  - reflexivity.
  - destruct (keq k' k) eqn:E; cbn [orb map fst].
    + reflexivity.
    + fold (keys r). fold (keys (insert_merge k p r)). rewrite IH.
      destruct (existsb (fun k'0 => keq k'0 k) (keys r)); reflexivity.
Qed.

Lemma InA_keys_insert k0 k p d :
  InA Qeq k0 (keys (insert_merge k p d)) <-> InA Qeq k0 (keys d) \/ k0 == k.
Proof.
  rewrite keys_insert. destruct (existsb (fun k' => keq k' k) (keys d)) eqn:E.
  - apply existsb_InA in E. split; [tauto|]. intros [H|H]; [exact H|].
    rewrite H. exact E.
  - rewrite InA_app_iff. split.
    + intros [H|H]; [left; exact H|].
      inversion H as [? ? Heq|? ? Hin]; subst; [right; exact Heq | inversion Hin].
    + intros [H|H]; [left; exact H | right; constructor; exact H].
Qed.

Lemma distinct_insert k p d : distinct d -> distinct (insert_merge k p d).
Proof.
  unfold distinct. intro H. rewrite keys_insert.
  destruct (existsb (fun k' => keq k' k) (keys d)) eqn:E; [exact H|].
  apply NoDupA_app; try exact Q_Setoid; try exact H.
  - constructor; [intro X; inversion X | constructor].
  - intros x H1 H2. inversion H2; subst; [|inversion H3].
    assert (existsb (fun k' => keq k' k) (keys d) = true) by (apply existsb_InA; rewrite <- H3; exact H1).
    congruence.
Qed.

Lemma positive_insert k p d : 0 < p -> positive_probs d -> positive_probs (insert_merge k p d).
Proof.
  intros Hp H. induction H as [|[k' p'] r Hx Hr IH]; cbn [insert_merge].
  - constructor; [exact Hp | constructor].
  - destruct (keq k' k).
    + constructor; [|exact Hr]. cbn [snd] in *. rewrite qadd_correct. lra.
    + constructor; assumption.
Qed.

(* ---------------- bop ---------------- *)

Section Bop.
Variable f : Q -> Q -> res Q.
Variable fv : Q -> Q -> Q.
Hypothesis f_fv : forall a b v, f a b = Ok v -> v == fv a b.

Lemma mass_bop_inner g n1 p1 db : respects g -> forall acc r,
  bop_inner f n1 p1 db acc = Ok r ->
  mass g r == mass g acc + p1 * mass (fun b => g (fv n1 b)) db.
Proof.
  intro Hg. induction db as [|[n2 p2] t IH]; intros acc r H; cbn [bop_inner] in H.
  - inversion H; subst. rewrite mass_nil. ring.
  - destruct (f n1 n2) as [n| |] eqn:Ef; cbn [bind] in H; try discriminate.
    apply IH in H. rewrite H, mass_insert, mass_cons by exact Hg.
    rewrite (Hg _ _ (f_fv _ _ _ Ef)). unfold qmul. ring.
Qed.

Lemma mass_bop_outer g da db : respects g -> forall acc r,
  bop_outer f da db acc = Ok r ->
  mass g r == mass g acc + mass (fun a => mass (fun b => g (fv a b)) db) da.
Proof.
  intro Hg. induction da as [|[n1 p1] t IH]; intros acc r H; cbn [bop_outer] in H.
  - inversion H; subst. rewrite mass_nil. ring.
  - destruct (bop_inner f n1 p1 db acc) as [acc'| |] eqn:Ei; cbn [bind] in H; try discriminate.
    apply IH in H. rewrite H, (mass_bop_inner g n1 p1 db Hg _ _ Ei), mass_cons. ring.
Qed.

Lemma mass_conv_inner g a pa db :
  mass g (map (fun b => (fv a (fst b), pa * snd b)) db) == pa * mass (fun b => g (fv a b)) db.
Proof.
  induction db as [|x t IH]; cbn [map].
  - rewrite !mass_nil. ring.
  - rewrite mass_cons, mass_cons', IH. ring.
Qed.

Lemma mass_conv g da db :
  mass g (conv fv da db) == mass (fun a => mass (fun b => g (fv a b)) db) da.
Proof.
  unfold conv. induction da as [|x t IH]; cbn [flat_map].
  - reflexivity.
  - rewrite mass_app, IH, mass_cons', mass_conv_inner. ring.
Qed.

(* bop computes the merged form of the product list *)
Lemma bop_meq da db r : bop f da db = Ok r -> meq r (conv fv da db).
Proof.
  intros H g Hg. unfold bop in H.
  rewrite (mass_bop_outer g da db Hg _ _ H), mass_nil, mass_conv. ring.
Qed.

(* invariants carried through the two loops *)
Lemma bop_inner_inv (P : dist -> Prop) n1 p1 db :
  (forall n b acc, In b db -> P acc -> P (insert_merge n (qmul p1 (snd b)) acc)) ->
  forall acc r, bop_inner f n1 p1 db acc = Ok r -> P acc -> P r.
Proof.
  induction db as [|[n2 p2] t IH]; intros Hstep acc r H Hacc; cbn [bop_inner] in H.
  - inversion H; subst; exact Hacc.
  - destruct (f n1 n2) as [n| |] eqn:Ef; cbn [bind] in H; try discriminate.
    eapply IH; [| exact H |].
    + intros n' b acc' Hb. apply Hstep. right. exact Hb.
    + apply (Hstep n (n2, p2)); [left; reflexivity | exact Hacc].
Qed.

Lemma bop_outer_inv (P : dist -> Prop) da db :
  (forall n a b acc, In a da -> In b db -> P acc -> P (insert_merge n (qmul (snd a) (snd b)) acc)) ->
  forall acc r, bop_outer f da db acc = Ok r -> P acc -> P r.
Proof.
  induction da as [|[n1 p1] t IH]; intros Hstep acc r H Hacc; cbn [bop_outer] in H.
  - inversion H; subst; exact Hacc.
  - destruct (bop_inner f n1 p1 db acc) as [acc'| |] eqn:Ei; cbn [bind] in H; try discriminate.
    eapply IH; [| exact H |].
    + intros n a b acc0 Ha. apply Hstep. right. exact Ha.
    + eapply bop_inner_inv; [| exact Ei | exact Hacc].
      intros n b acc0 Hb. apply (Hstep n (n1, p1) b); [left; reflexivity | exact Hb].
Qed.

Lemma bop_distinct da db r : bop f da db = Ok r -> distinct r.
Proof.
  intro H. eapply (bop_outer_inv distinct); [| exact H | constructor].
  intros. apply distinct_insert. assumption.
Qed.

Lemma bop_positive da db r :
  positive_probs da -> positive_probs db -> bop f da db = Ok r -> positive_probs r.
Proof.
  intros Ha Hb H. eapply (bop_outer_inv positive_probs); [| exact H | constructor].
  intros n a b acc Hia Hib Hacc. apply positive_insert; [|exact Hacc].
  unfold positive_probs in Ha, Hb. rewrite Forall_forall in Ha, Hb.
  specialize (Ha _ Hia). specialize (Hb _ Hib). unfold qmul. nra.
Qed.

End Bop.

(* a total closure never fails *)
Lemma bop_inner_total f n1 p1 db : (forall a b, exists v, f a b = Ok v) ->
  forall acc, exists r, bop_inner f n1 p1 db acc = Ok r.
Proof.
  intro Hf. induction db as [|[n2 p2] t IH]; intro acc; cbn [bop_inner].
  - eexists; reflexivity.
  - destruct (Hf n1 n2) as [v Hv]. rewrite Hv. cbn [bind]. apply IH.
Qed.
Lemma bop_total f da db : (forall a b, exists v, f a b = Ok v) -> exists r, bop f da db = Ok r.
Proof.
  intro Hf. unfold bop. generalize (@nil part). induction da as [|[n1 p1] t IH]; intro acc; cbn [bop_outer].
  - eexists; reflexivity.
  - destruct (bop_inner_total f n1 p1 db Hf acc) as [r Hr]. rewrite Hr. cbn [bind]. apply IH.
Qed.

(* the three closures *)
Lemma kadd_fv a b v : kadd a b = Ok v -> v == a + b.
Proof. unfold kadd. intro H. assert (E : v = Qred (a + b)) by congruence. rewrite E. apply Qred_correct. Qed.
Lemma kmul_fv a b v : kmul a b = Ok v -> v == a * b.
Proof. unfold kmul. intro H. assert (E : v = Qred (a * b)) by congruence. rewrite E. apply Qred_correct. Qed.
Lemma kdiv_fv a b v : kdiv a b = Ok v -> v == a / b.
Proof.
  unfold kdiv. destruct (qis_zero b); intro H; [discriminate|].
  assert (E : v = Qred (a / b)) by congruence. rewrite E. apply Qred_correct.
Qed.
Lemma kdiv_ok_iff a b : (exists v, kdiv a b = Ok v) <-> ~ b == 0.
Proof.
  unfold kdiv. destruct (qis_zero b) eqn:E.
  - apply qis_zero_iff in E. split; [intros [v H]; discriminate | tauto].
  - split; [|eexists; reflexivity]. intros _ H. apply qis_zero_iff in H. congruence.
Qed.

(* ---------------- conv respects meq ---------------- *)

Lemma conv_meq fv a a' b b' : respects2 fv -> meq a a' -> meq b b' ->
  meq (conv fv a b) (conv fv a' b').
Proof.
  intros Hfv Ha Hb g Hg. rewrite !mass_conv.
  transitivity (mass (fun x => mass (fun y => g (fv x y)) b') a).
  - apply mass_ext. intro x. apply Hb. intros y y' Hy. apply Hg, Hfv; [reflexivity | exact Hy].
  - apply Ha. intros x x' Hx. apply mass_ext. intro y. apply Hg, Hfv; [exact Hx | reflexivity].
Qed.

Lemma total_conv fv a b : total (conv fv a b) == total a * total b.
Proof.
  unfold total. rewrite mass_conv.
  transitivity (mass (fun _ => mass (fun _ => 1) b) a); [apply mass_ext; intro; reflexivity|].
  rewrite mass_const. unfold total. ring.
Qed.

Lemma expect_conv_plus a b : expect (conv Qplus a b) == expect a * total b + total a * expect b.
Proof.
  unfold expect, total. rewrite mass_conv.
  transitivity (mass (fun x => mass (fun _ => 1) b * x + mass (fun y => y) b) a).
  - apply mass_ext. intro x. cbv beta.
    rewrite (mass_plus (fun _ => x) (fun y => y) b), (mass_const x b). unfold total. ring.
  - rewrite (mass_plus (fun x => mass (fun _ => 1) b * x) (fun _ => mass (fun y => y) b) a).
    rewrite (mass_scale (mass (fun _ => 1) b) (fun x => x) a), (mass_const (mass (fun y => y) b) a).
    unfold total. ring.
Qed.

Lemma positive_conv fv a b : positive_probs a -> positive_probs b -> positive_probs (conv fv a b).
Proof.
  unfold positive_probs, conv. rewrite !Forall_forall. intros Ha Hb x Hx.
  apply in_flat_map in Hx. destruct Hx as [ea [Hea Hx]]. apply in_map_iff in Hx.
  destruct Hx as [eb [Hx Heb]]. subst x. cbn [snd]. specialize (Ha _ Hea). specialize (Hb _ Heb). nra.
Qed.

(* ---------------- probability of an outcome, support ---------------- *)

Lemma prob_notin d k : ~ InA Qeq k (keys d) -> prob d k == 0.
Proof.
  unfold prob. induction d as [|[k' p'] r IH]; intro H.
  - reflexivity.
  - rewrite mass_cons. cbn [keys map fst] in H. destruct (Qeq_bool k' k) eqn:E.
    + exfalso. apply H. left. symmetry. apply Qeq_bool_iff. exact E.
    + rewrite IH; [ring|]. intro X. apply H. right. exact X.
Qed.

Lemma prob_in_distinct d k p : distinct d -> In (k, p) d -> prob d k == p.
Proof.
  unfold prob, distinct. induction d as [|[k' p'] r IH]; intros Hd Hin; [inversion Hin|].
  cbn [keys map fst] in Hd. inversion Hd as [|x l Hnot Hrest]; subst.
  rewrite mass_cons. destruct Hin as [Hin|Hin].
  - inversion Hin; subst. rewrite (proj2 (Qeq_bool_iff k k)) by reflexivity.
    rewrite (prob_notin r k Hnot). ring.
  - assert (Hk : InA Qeq k (keys r)).
    { apply InA_alt. exists k. split; [reflexivity|]. apply (in_map fst) in Hin. exact Hin. }
    destruct (Qeq_bool k' k) eqn:E.
    + exfalso. apply Hnot. apply Qeq_bool_iff in E. rewrite E. exact Hk.
    + rewrite (IH Hrest Hin). ring.
Qed.

Lemma prob_nonneg d k : positive_probs d -> 0 <= prob d k.
Proof.
  intro H. apply mass_nonneg; [|exact H]. intro x. destruct (Qeq_bool x k); lra.
Qed.

Lemma prob_pos_iff d k : positive_probs d -> (0 < prob d k <-> InA Qeq k (keys d)).
Proof.
  intro Hp. split.
  - intro H. destruct (InA_dec Qeq_dec k (keys d)) as [Hin|Hnot]; [exact Hin|].
    rewrite (prob_notin d k Hnot) in H. lra.
  - unfold prob. induction Hp as [|[k' p'] r Hx Hr IH]; intro H; [inversion H|].
    rewrite mass_cons. cbn [keys map fst snd] in *.
    assert (Hnn : 0 <= prob r k) by (apply prob_nonneg; exact Hr). unfold prob in Hnn.
    inversion H; subst.
    + rewrite (proj2 (Qeq_bool_iff k' k)) by (symmetry; assumption). lra.
    + specialize (IH H1). destruct (Qeq_bool k' k); lra.
Qed.

(* the listed outcomes of two equal measures with positive weights coincide *)
Lemma support_meq d s k : positive_probs d -> positive_probs s -> meq d s ->
  (InA Qeq k (keys d) <-> InA Qeq k (keys s)).
Proof.
  intros Hd Hs H. rewrite <- (prob_pos_iff d k Hd), <- (prob_pos_iff s k Hs).
  unfold prob. rewrite (H _ (respects_ind k)). reflexivity.
Qed.
