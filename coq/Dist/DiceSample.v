(* Proofs about the model of Dist, part 4: Dist::sample (membership and
   coverage), the ordering of Dist::format, the two-decimal percentage. *)
From Coq Require Import QArith Qround Qabs Lia Lqa SetoidList Permutation Sorted SetoidPermutation.
From FendV Require Import Base.Prelude Dist.Dice Dist.DiceProofs.
Open Scope Q_scope.

(* ---------------- sample: membership ---------------- *)

Lemma sample_loop_member parts : forall ws r last k,
  sample_loop parts ws r last = Some k -> In k (keys parts) \/ last = Some k.
Proof.
  induction parts as [|[k0 p0] t IH]; intros ws r last k H; cbn [sample_loop] in H.
  - right. exact H.
  - destruct ws as [|w ws']; [right; exact H|].
    destruct ((r - w =? 0)%N).
    + inversion H; subst. left. left. reflexivity.
    + apply IH in H. destruct H as [H|H].
      * left. right. exact H.
      * inversion H; subst. left. left. reflexivity.
Qed.

Lemma sample_loop_some parts : forall ws r k0,
  exists k, sample_loop parts ws r (Some k0) = Some k.
Proof.
  induction parts as [|[k1 p1] t IH]; intros ws r k0; cbn [sample_loop].
  - eexists; reflexivity.
  - destruct ws as [|w ws']; [eexists; reflexivity|].
    destruct ((r - w =? 0)%N); [eexists; reflexivity | apply IH].
Qed.

Lemma sample_member D ws r : D <> [] -> List.length ws = List.length D ->
  exists k p, sample D ws r = Ok [(k, p)] /\ In k (keys D).
Proof.
  intros Hne Hlen. destruct D as [|[k0 p0] [|y t]]; [congruence | |].
  - exists k0, p0. cbn [sample]. split; [reflexivity | left; reflexivity].
  - destruct ws as [|w ws']; [discriminate|].
    assert (E : forall rest, exists k, sample_loop (@cons part (k0, p0) rest) (w :: ws') r None = Some k).
    { intro rest. cbn [sample_loop]. destruct ((r - w =? 0)%N); [eexists; reflexivity | apply sample_loop_some]. }
    destruct (E (y :: t)) as [k Ek]. clear E. rename Ek into E. exists k, 1. unfold sample. rewrite E. split; [reflexivity|].
    apply sample_loop_member in E. destruct E as [E|E]; [exact E | discriminate].
Qed.

(* ---------------- sample: coverage ---------------- *)

Definition sumN (l : list N) : N := fold_right N.add 0%N l.
Definition rand_max : N := 4294967295.

Lemma sample_loop_hits parts : forall ws i r last,
  (i < List.length parts)%nat -> List.length ws = List.length parts ->
  r = (sumN (firstn i ws) + 1)%N -> (1 <= nth i ws 0)%N ->
  sample_loop parts ws r last = Some (fst (nth i parts (0, 0))).
Proof.
  induction parts as [|[k0 p0] t IH]; intros ws i r last Hi Hlen Hr Hw; cbn [List.length] in Hi; [lia|].
  destruct ws as [|w ws']; [discriminate|]. cbn [sample_loop].
  destruct i as [|i'].
  - cbn [firstn sumN fold_right nth] in *. subst r.
    replace ((0 + 1 - w =? 0)%N) with true by (symmetry; apply N.eqb_eq; lia). reflexivity.
  - cbn [firstn nth] in *. unfold sumN in Hr. cbn [fold_right] in Hr. fold (sumN (firstn i' ws')) in Hr.
    replace ((r - w =? 0)%N) with false by (symmetry; apply N.eqb_neq; lia).
    apply IH; [lia | cbn [List.length] in Hlen; lia | lia | exact Hw].
Qed.

Lemma sample_covers D ws i :
  (2 <= List.length D)%nat -> List.length ws = List.length D -> (i < List.length D)%nat ->
  (1 <= nth i ws 0)%N -> (sumN (firstn i ws) < rand_max)%N ->
  exists r, (r <= rand_max)%N /\ sample D ws r = Ok (one_point (fst (nth i D (0, 0)))).
Proof.
  intros H2 Hlen Hi Hw Hs. exists (sumN (firstn i ws) + 1)%N. split; [lia|].
  destruct D as [|x [|y t]]; cbn [List.length] in H2; try lia.
  unfold sample. rewrite (sample_loop_hits _ ws i _ None Hi Hlen eq_refl Hw). reflexivity.
Qed.

(* the first stored outcome is always reachable (random = 0) *)
Lemma sample_zero_first D ws :
  (2 <= List.length D)%nat -> ws <> [] ->
  sample D ws 0%N = Ok (one_point (fst (nth 0 D (0, 0)))).
Proof.
  intros H2 Hw. destruct D as [|[k0 p0] [|y t]]; cbn [List.length] in H2; try lia.
  destruct ws as [|w ws']; [congruence|]. reflexivity.
Qed.

(* under the weight oracle (every weight within 1 of p * (2^32 - 1)) an
   outcome at stored position i whose probability exceeds (i+1)/(2^32-1) is
   produced by some value of the random source *)
Definition weights_close (D : dist) (ws : list N) : Prop :=
  Forall2 (fun kp w => Qabs (inject_Z (Z.of_N w) - snd kp * inject_Z (Z.of_N rand_max)) <= 1) D ws.

Lemma forall2_length {S T} (R : S -> T -> Prop) l1 l2 : Forall2 R l1 l2 -> List.length l1 = List.length l2.
Proof. induction 1; cbn [List.length]; congruence. Qed.

Lemma weights_prefix_bound D ws : weights_close D ws -> forall i,
  inject_Z (Z.of_N (sumN (firstn i ws))) <=
  inject_Z (Z.of_N rand_max) * total (firstn i D) + inject_Z (Z.of_nat i).
Proof.
  unfold weights_close. induction 1 as [|x w D' ws' Hx Hrest IH]; intro i.
  - rewrite !firstn_nil. unfold total. rewrite mass_nil. cbn [sumN fold_right].
    change (inject_Z (Z.of_N 0)) with 0.
    assert (0 <= inject_Z (Z.of_nat i)) by (replace 0 with (inject_Z 0) by reflexivity; rewrite <- Zle_Qle; lia).
    lra.
  - destruct i as [|i']; cbn [firstn].
    + unfold total. rewrite mass_nil. cbn [sumN fold_right]. change (inject_Z (Z.of_N 0)) with 0.
      change (inject_Z (Z.of_nat 0)) with 0. lra.
    + specialize (IH i'). unfold total in *. rewrite mass_cons'.
      unfold sumN. cbn [fold_right]. fold (sumN (firstn i' ws')).
      rewrite N2Z.inj_add, inject_Z_plus, Nat2Z.inj_succ. unfold Z.succ. rewrite inject_Z_plus.
      apply Qabs_Qle_condition in Hx. destruct Hx as [_ Hx].
      change (inject_Z 1) with 1. lra.
Qed.

Lemma total_prefix_bound D : positive_probs D -> forall i, (i < List.length D)%nat ->
  total (firstn i D) + snd (nth i D (0, 0)) <= total D.
Proof.
  unfold total. induction 1 as [|x t Hx Ht IH]; intros i Hi; cbn [List.length] in Hi; [lia|].
  assert (Hnn : 0 <= mass (fun _ => 1) t) by (apply mass_nonneg; [intro; lra | exact Ht]).
  destruct i as [|i']; cbn [firstn nth].
  - rewrite mass_nil, mass_cons'. lra.
  - rewrite !mass_cons'. specialize (IH i' ltac:(lia)). lra.
Qed.

Lemma sample_covers_nonnegligible D ws i :
  (2 <= List.length D)%nat -> positive_probs D -> total D == 1 -> weights_close D ws ->
  (i < List.length D)%nat ->
  inject_Z (Z.of_nat i) + 1 < snd (nth i D (0, 0)) * inject_Z (Z.of_N rand_max) ->
  exists r, (r <= rand_max)%N /\ sample D ws r = Ok (one_point (fst (nth i D (0, 0)))).
Proof.
  intros H2 Hp Ht Hw Hi Hbig.
  assert (Hlen : List.length ws = List.length D) by (symmetry; apply (forall2_length _ _ _ Hw)).
  apply sample_covers; try assumption.
  - (* w_i >= 1 *)
    assert (Hwi : Qabs (inject_Z (Z.of_N (nth i ws 0%N)) - snd (nth i D (0, 0)) * inject_Z (Z.of_N rand_max)) <= 1).
    { clear - Hw Hi. unfold weights_close in Hw. revert i Hi.
      induction Hw as [|x w D' ws' Hx Hrest IH]; intros i Hi; cbn [List.length] in Hi; [lia|].
      destruct i as [|i']; cbn [nth]; [exact Hx | apply IH; lia]. }
    apply Qabs_Qle_condition in Hwi. destruct Hwi as [Hlo _].
    assert (Hi0 : 0 <= inject_Z (Z.of_nat i)) by (replace 0 with (inject_Z 0) by reflexivity; rewrite <- Zle_Qle; lia).
    assert (Hpos : inject_Z 0 < inject_Z (Z.of_N (nth i ws 0%N))) by (change (inject_Z 0) with 0; lra).
    rewrite <- Zlt_Qlt in Hpos. lia.
  - (* the cumulative weight before i is below 2^32 - 1 *)
    pose proof (weights_prefix_bound D ws Hw i) as Hb.
    pose proof (total_prefix_bound D Hp i Hi) as Hq.
    assert (HM : 0 < inject_Z (Z.of_N rand_max)) by reflexivity.
    set (M := inject_Z (Z.of_N rand_max)) in *.
    set (P := total (firstn i D)) in *. set (pi := snd (nth i D (0, 0))) in *.
    assert (Hlt : inject_Z (Z.of_N (sumN (firstn i ws))) < M).
    { rewrite Ht in Hq. assert (M * P <= M * (1 - pi)) by (apply Qmult_le_l; [exact HM | lra]). lra. }
    unfold M in Hlt. rewrite <- Zlt_Qlt in Hlt. lia.
Qed.

(* the hypothesis is satisfiable: exact floors are within 1 *)
Lemma floor_weights_close D : positive_probs D ->
  weights_close D (map (fun kp => Z.to_N (Qfloor (snd kp * inject_Z (Z.of_N rand_max)))) D).
Proof.
  unfold weights_close. induction 1 as [|x t Hx Ht IH]; cbn [map]; constructor; [|exact IH].
  set (v := snd x * inject_Z (Z.of_N rand_max)).
  assert (Hv : 0 <= v).
  { unfold v. apply Qmult_le_0_compat; [apply Qlt_le_weak; exact Hx | discriminate]. }
  assert (H0 : (0 <= Qfloor v)%Z).
  { change 0%Z with (Qfloor 0). apply Qfloor_resp_le. exact Hv. }
  rewrite Z2N.id by exact H0. apply Qabs_Qle_condition.
  pose proof (Qfloor_le v) as H1. pose proof (Qlt_floor v) as H2.
  rewrite inject_Z_plus in H2. change (inject_Z 1) with 1 in H2. split; lra.
Qed.

(* ---------------- format: ordering ---------------- *)

Definition le_part (x y : part) : Prop := fst x <= fst y.
Definition lt_part (x y : part) : Prop := fst x < fst y.

Lemma insert_sorted_perm x l : Permutation (insert_sorted x l) (x :: l).
Proof.
  induction l as [|y r IH]; cbn [insert_sorted]; [reflexivity|].
  destruct (Qle_bool (fst x) (fst y)); [reflexivity|].
  rewrite IH. apply perm_swap.
Qed.

Lemma listing_perm d : Permutation (listing d) d.
Proof.
  unfold listing. induction d as [|x r IH]; cbn [fold_right]; [reflexivity|].
  rewrite insert_sorted_perm. constructor. exact IH.
Qed.

Lemma hdrel_insert y x r : HdRel le_part y r -> le_part y x -> HdRel le_part y (insert_sorted x r).
Proof.
  intros H Hyx. destruct r as [|z r']; cbn [insert_sorted]; [constructor; exact Hyx|].
  destruct (Qle_bool (fst x) (fst z)); constructor; [exact Hyx | inversion H; assumption].
Qed.

Lemma insert_sorted_sorted x l : Sorted le_part l -> Sorted le_part (insert_sorted x l).
Proof.
  induction l as [|y r IH]; intro H; cbn [insert_sorted].
  - constructor; constructor.
  - destruct (Qle_bool (fst x) (fst y)) eqn:E.
    + constructor; [exact H | constructor; apply Qle_bool_iff; exact E].
    + inversion H; subst. constructor; [apply IH; assumption|].
      apply hdrel_insert; [assumption|]. unfold le_part.
      destruct (Qlt_le_dec (fst y) (fst x)) as [Hlt|Hle]; [apply Qlt_le_weak; exact Hlt|].
      apply Qle_bool_iff in Hle. congruence.
Qed.

Lemma listing_sorted_le d : StronglySorted le_part (listing d).
Proof.
  apply Sorted_StronglySorted.
  - intros a b c. unfold le_part. apply Qle_trans.
  - unfold listing. induction d as [|x r IH]; cbn [fold_right]; [constructor|].
    apply insert_sorted_sorted, IH.
Qed.

Lemma listing_distinct d : distinct d -> distinct (listing d).
Proof.
  unfold distinct, keys. intro H.
  apply (PermutationA_preserves_NoDupA Q_Setoid) with (l₁ := map fst d); [|exact H].
  apply Permutation_PermutationA; [exact Q_Setoid|]. apply Permutation_map. symmetry. apply listing_perm.
Qed.

Lemma sorted_strict l : StronglySorted le_part l -> distinct l -> StronglySorted lt_part l.
Proof.
  unfold distinct, keys. induction 1 as [|x r Hr IH Hall]; intro Hd; [constructor|].
  cbn [map] in Hd. inversion Hd as [|? ? Hnot Hrest]; subst. constructor; [apply IH, Hrest|].
  rewrite Forall_forall in *. intros y Hy. specialize (Hall y Hy). unfold le_part, lt_part in *.
  destruct (Qle_lt_or_eq _ _ Hall) as [Hlt|Heq]; [exact Hlt|].
  exfalso. apply Hnot. apply InA_alt. exists (fst y). split; [exact Heq | apply in_map, Hy].
Qed.

Lemma listing_sorted d : distinct d -> StronglySorted lt_part (listing d).
Proof. intro H. apply sorted_strict; [apply listing_sorted_le | apply listing_distinct, H]. Qed.

(* ---------------- format: percentage with two decimals ---------------- *)

Lemma pct_close p :
  inject_Z (pct_hundredths p) - (1 # 2) <= p * (10000 # 1) /\
  p * (10000 # 1) < inject_Z (pct_hundredths p) + (1 # 2).
Proof.
  unfold pct_hundredths. set (x := p * (10000 # 1) + (1 # 2)).
  pose proof (Qfloor_le x) as H1. pose proof (Qlt_floor x) as H2.
  rewrite inject_Z_plus in H2. change (inject_Z 1) with 1 in H2. unfold x in *. split; lra.
Qed.
