(* Proofs about the model of Dist, part 3: negation, the unit.rs level
   add/sub/mul/div, evaluation of dice expressions against the naive
   (unmerged) product-list denotation, mean. *)
From Coq Require Import QArith Qround Lia Lqa SetoidList.
From FendV Require Import Base.Prelude Dist.Dice Dist.DiceProofs Dist.DiceDie.
Open Scope Q_scope.

(* ---------------- negation ---------------- *)

Lemma mass_dneg g d : mass g (dneg d) == mass (fun k => g (- k)) d.
Proof.
  unfold dneg. induction d as [|x r IH]; cbn [map]; [reflexivity|].
  rewrite mass_cons, mass_cons', IH. reflexivity.
Qed.

Lemma respects_neg g : respects g -> respects (fun k => g (- k)).
Proof. intros Hg x y H. apply Hg. rewrite H. reflexivity. Qed.

Lemma dneg_meq d s : meq d s -> meq (dneg d) (dneg s).
Proof. intros H g Hg. rewrite !mass_dneg. apply H, respects_neg, Hg. Qed.

Lemma dneg_positive d : positive_probs d -> positive_probs (dneg d).
Proof.
  unfold positive_probs, dneg. rewrite !Forall_forall. intros H x Hx.
  apply in_map_iff in Hx. destruct Hx as [y [Hy Hin]]. subst x. cbn [snd]. apply H, Hin.
Qed.

Lemma dneg_distinct d : distinct d -> distinct (dneg d).
Proof.
  unfold distinct, keys, dneg. rewrite map_map. cbn [fst].
  induction d as [|x r IH]; cbn [map]; intro H; [constructor|].
  inversion H as [|? ? Hnot Hr]; subst. constructor; [|apply IH, Hr].
  intro X. apply Hnot. apply InA_alt in X. destruct X as [y [Hy Hin]].
  apply in_map_iff in Hin. destruct Hin as [z [Hz Hin]]. subst y.
  apply InA_alt. exists (fst z). split; [|apply in_map, Hin].
  rewrite <- (Qopp_involutive (fst x)), Hy. apply Qopp_involutive.
Qed.

Lemma total_dneg d : total (dneg d) == total d.
Proof. unfold total. rewrite mass_dneg. reflexivity. Qed.

(* ---------------- a one-point right operand ---------------- *)

Lemma conv_point_r fv d k p : respects2 fv -> p == 1 -> (forall a, fv a k == a) ->
  meq (conv fv d [(k, p)]) d.
Proof.
  intros Hfv Hp Hk g Hg. rewrite mass_conv. rewrite <- (Qplus_0_r (mass g d)).
  rewrite <- (Qplus_0_r (mass _ d)). apply Qplus_comp; [|reflexivity].
  apply mass_ext. intro a. rewrite mass_cons, mass_nil, Hp, (Hg _ _ (Hk a)). ring.
Qed.

Lemma one_point_positive q : positive_probs (one_point q).
Proof. constructor; [reflexivity | constructor]. Qed.
Lemma one_point_distinct q : distinct (one_point q).
Proof. constructor; [intro X; inversion X | constructor]. Qed.

Lemma equals_int_true d v : equals_int d v = true -> exists k p, d = [(k, p)] /\ k == v.
Proof.
  destruct d as [|[k p] [|y r]]; cbn [equals_int]; try discriminate.
  intro H. exists k, p. split; [reflexivity | apply keq_iff, H].
Qed.

(* ---------------- unit.rs add / sub / mul / div ---------------- *)

Lemma bop_sound f fv x y sx sy D :
  (forall a b v, f a b = Ok v -> v == fv a b) -> respects2 fv ->
  bop f x y = Ok D -> positive_probs x -> positive_probs y -> meq x sx -> meq y sy ->
  distinct D /\ positive_probs D /\ meq D (conv fv sx sy).
Proof.
  intros Hf Hfv H Hx Hy Mx My. split; [|split].
  - apply (bop_distinct f _ _ _ H).
  - apply (bop_positive f _ _ _ Hx Hy H).
  - eapply meq_trans; [apply (bop_meq f fv Hf _ _ _ H)|]. apply conv_meq; assumption.
Qed.

Lemma vadd_sound x y sx sy D :
  vadd x y = Ok D -> distinct x -> positive_probs x -> positive_probs y ->
  meq x sx -> meq y sy -> total y == 1 ->
  distinct D /\ positive_probs D /\ meq D (conv Qplus sx sy).
Proof.
  unfold vadd. intros H Dx Px Py Mx My Ty. destruct (equals_int y 0) eqn:E.
  - inversion H; subst D. split; [exact Dx | split; [exact Px|]].
    apply equals_int_true in E. destruct E as [k [p [Ey Hk]]]. subst y.
    assert (Hp : p == 1).
    { unfold total in Ty. rewrite mass_cons, mass_nil in Ty. rewrite <- Ty. ring. }
    eapply meq_trans; [|apply conv_meq; [exact respects2_plus | exact Mx | exact My]].
    apply meq_sym. apply conv_point_r; [exact respects2_plus | exact Hp |].
    intro a. rewrite Hk. ring.
  - destruct (bop kmul y (one_point 1)) as [s1| |] eqn:E1; cbn [bind] in H; try discriminate.
    destruct (bop kdiv s1 (one_point 1)) as [s2| |] eqn:E2; cbn [bind] in H; try discriminate.
    destruct (bop_sound kmul Qmult y (one_point 1) y (one_point 1) s1 kmul_fv respects2_mult E1 Py
                (one_point_positive 1) (meq_refl _) (meq_refl _)) as [_ [P1 M1]].
    assert (M1' : meq s1 y).
    { eapply meq_trans; [exact M1|]. apply conv_point_r; [exact respects2_mult | reflexivity |].
      intro a. ring. }
    destruct (bop_sound kdiv Qdiv s1 (one_point 1) s1 (one_point 1) s2 kdiv_fv respects2_div E2 P1
                (one_point_positive 1) (meq_refl _) (meq_refl _)) as [_ [P2 M2]].
    assert (M2' : meq s2 sy).
    { eapply meq_trans; [exact M2|]. eapply meq_trans; [|eapply meq_trans; [exact M1' | exact My]].
      apply conv_point_r; [exact respects2_div | reflexivity |]. intro a. field. }
    apply (bop_sound kadd Qplus x s2 sx sy D kadd_fv respects2_plus H Px P2 Mx M2').
Qed.

Lemma conv_minus_dneg a b : meq (conv Qplus a (dneg b)) (conv Qminus a b).
Proof.
  intros g Hg. rewrite !mass_conv. apply mass_ext. intro x. rewrite mass_dneg. reflexivity.
Qed.

(* ---------------- the denotation is a probability distribution ------------- *)

Lemma lex_ok_die c f : lex_ok (EDie c f) = true -> exists c' f', c = Npos c' /\ f = Npos f'.
Proof.
  cbn [lex_ok]. destruct c as [|c'], f as [|f']; cbn; try discriminate.
  intros _. exists c', f'. split; reflexivity.
Qed.

Lemma total_denote e : lex_ok e = true -> total (denote e) == 1.
Proof.
  induction e as [c f|n|a IHa|a IHa b IHb|a IHa b IHb|a IHa b IHb|a IHa b IHb]; intro L.
  - destruct (lex_ok_die c f L) as [c' [f' [-> ->]]]. cbn [denote]. apply total_die_den.
  - cbn [denote]. unfold total. rewrite mass_cons, mass_nil. ring.
  - cbn [denote]. cbn [lex_ok] in L. fold (dneg (denote a)). rewrite total_dneg. apply IHa, L.
  - cbn [denote]. cbn [lex_ok] in L. apply andb_true_iff in L. destruct L as [La Lb].
    rewrite total_conv, IHa, IHb by assumption. ring.
  - cbn [denote]. cbn [lex_ok] in L. apply andb_true_iff in L. destruct L as [La Lb].
    rewrite total_conv, IHa, IHb by assumption. ring.
  - cbn [denote]. cbn [lex_ok] in L. apply andb_true_iff in L. destruct L as [La Lb].
    rewrite total_conv, IHa, IHb by assumption. ring.
  - cbn [denote]. cbn [lex_ok] in L. apply andb_true_iff in L. destruct L as [La Lb].
    rewrite total_conv, IHa, IHb by assumption. ring.
Qed.

Lemma positive_denote e : lex_ok e = true -> positive_probs (denote e).
Proof.
  induction e as [c f|n|a IHa|a IHa b IHb|a IHa b IHb|a IHa b IHb|a IHa b IHb]; intro L.
  - destruct (lex_ok_die c f L) as [c' [f' [-> ->]]]. cbn [denote]. apply positive_die_den.
  - cbn [denote]. constructor; [reflexivity | constructor].
  - cbn [denote]. cbn [lex_ok] in L. fold (dneg (denote a)). apply dneg_positive, IHa, L.
  - cbn [denote]. cbn [lex_ok] in L. apply andb_true_iff in L. destruct L as [La Lb]. apply positive_conv; auto.
  - cbn [denote]. cbn [lex_ok] in L. apply andb_true_iff in L. destruct L as [La Lb]. apply positive_conv; auto.
  - cbn [denote]. cbn [lex_ok] in L. apply andb_true_iff in L. destruct L as [La Lb]. apply positive_conv; auto.
  - cbn [denote]. cbn [lex_ok] in L. apply andb_true_iff in L. destruct L as [La Lb]. apply positive_conv; auto.
Qed.

(* ---------------- evaluation ---------------- *)

Lemma total_meq d s : meq d s -> total d == total s.
Proof. intro H. apply H, respects_const. Qed.

Lemma eval_go_sound e : forall D, lex_ok e = true -> eval_go e = Ok D ->
  distinct D /\ positive_probs D /\ meq D (denote e).
Proof.
  induction e as [c f|n|a IHa|a IHa b IHb|a IHa b IHb|a IHa b IHb|a IHa b IHb]; intros D L H; cbn [eval_go] in H.
  - destruct (lex_ok_die c f L) as [c' [f' [-> ->]]]. cbn [denote]. split; [|split].
    + apply (new_die_distinct _ _ _ H).
    + apply (new_die_positive _ _ _ H).
    + apply (new_die_meq _ _ _ H).
  - inversion H; subst D. cbn [denote]. split; [apply one_point_distinct | split; [apply one_point_positive | apply meq_refl]].
  - cbn [lex_ok] in L. destruct (eval_go a) as [x| |] eqn:Ea; cbn [bind] in H; try discriminate.
    inversion H; subst D. destruct (IHa x L eq_refl) as [Dx [Px Mx]]. cbn [denote]. fold (dneg (denote a)).
    split; [apply dneg_distinct, Dx | split; [apply dneg_positive, Px | apply dneg_meq, Mx]].
  - cbn [lex_ok] in L. apply andb_true_iff in L. destruct L as [La Lb].
    destruct (eval_go a) as [x| |] eqn:Ea; cbn [bind] in H; try discriminate.
    destruct (eval_go b) as [y| |] eqn:Eb; cbn [bind] in H; try discriminate.
    destruct (IHa x La eq_refl) as [Dx [Px Mx]]. destruct (IHb y Lb eq_refl) as [Dy [Py My]].
    cbn [denote]. apply (vadd_sound x y _ _ D H Dx Px Py Mx My).
    rewrite (total_meq _ _ My). apply total_denote, Lb.
  - cbn [lex_ok] in L. apply andb_true_iff in L. destruct L as [La Lb].
    destruct (eval_go a) as [x| |] eqn:Ea; cbn [bind] in H; try discriminate.
    destruct (eval_go b) as [y| |] eqn:Eb; cbn [bind] in H; try discriminate.
    destruct (IHa x La eq_refl) as [Dx [Px Mx]]. destruct (IHb y Lb eq_refl) as [Dy [Py My]].
    cbn [denote]. unfold vsub in H.
    destruct (vadd_sound x (dneg y) (denote a) (dneg (denote b)) D H Dx Px (dneg_positive _ Py) Mx (dneg_meq _ _ My)) as [D1 [P1 M1]].
    { rewrite total_dneg, (total_meq _ _ My). apply total_denote, Lb. }
    split; [exact D1 | split; [exact P1|]]. eapply meq_trans; [exact M1 | apply conv_minus_dneg].
  - cbn [lex_ok] in L. apply andb_true_iff in L. destruct L as [La Lb].
    destruct (eval_go a) as [x| |] eqn:Ea; cbn [bind] in H; try discriminate.
    destruct (eval_go b) as [y| |] eqn:Eb; cbn [bind] in H; try discriminate.
    destruct (IHa x La eq_refl) as [Dx [Px Mx]]. destruct (IHb y Lb eq_refl) as [Dy [Py My]].
    cbn [denote]. unfold vmul in H.
    apply (bop_sound kmul Qmult x y _ _ D kmul_fv respects2_mult H Px Py Mx My).
  - cbn [lex_ok] in L. apply andb_true_iff in L. destruct L as [La Lb].
    destruct (eval_go a) as [x| |] eqn:Ea; cbn [bind] in H; try discriminate.
    destruct (eval_go b) as [y| |] eqn:Eb; cbn [bind] in H; try discriminate.
    destruct (IHa x La eq_refl) as [Dx [Px Mx]]. destruct (IHb y Lb eq_refl) as [Dy [Py My]].
    cbn [denote]. unfold vdiv in H.
    apply (bop_sound kdiv Qdiv x y _ _ D kdiv_fv respects2_div H Px Py Mx My).
Qed.

Lemma eval_sound e D : eval e = Ok D ->
  lex_ok e = true /\ distinct D /\ positive_probs D /\ meq D (denote e).
Proof.
  unfold eval. destruct (lex_ok e) eqn:L; [|discriminate]. intro H.
  split; [reflexivity | apply (eval_go_sound e D L H)].
Qed.

(* the model never panics on a lexically valid expression, and the only
   error is a division by a distribution containing zero *)
Lemma eval_no_panic e : forall s, eval e <> Panic s.
Proof.
  unfold eval. destruct (lex_ok e) eqn:L; [|discriminate]. revert L.
  assert (Hb : forall f da db, (forall a b s', f a b <> Panic s') -> forall s, bop f da db <> Panic s).
  { intros f da db Hf. unfold bop. generalize (@nil part).
    assert (Hi : forall n1 p1 db acc s, bop_inner f n1 p1 db acc <> Panic s).
    { intros n1 p1. induction db0 as [|[n2 p2] t IH]; intros acc s; cbn [bop_inner]; [discriminate|].
      destruct (f n1 n2) eqn:E; cbn [bind]; [apply IH | discriminate | exfalso; apply (Hf _ _ _ E)]. }
    induction da as [|[n1 p1] t IH]; intros acc s; cbn [bop_outer]; [discriminate|].
    destruct (bop_inner f n1 p1 db acc) eqn:E; cbn [bind]; [apply IH | discriminate | exfalso; apply (Hi _ _ _ _ _ E)]. }
  assert (Ka : forall a b s', kadd a b <> Panic s') by (intros; discriminate).
  assert (Km : forall a b s', kmul a b <> Panic s') by (intros; discriminate).
  assert (Kd : forall a b s', kdiv a b <> Panic s') by (intros a b s'; unfold kdiv; destruct (qis_zero b); discriminate).
  assert (Va : forall x y s, vadd x y <> Panic s).
  { intros x y s. unfold vadd. destruct (equals_int y 0); [discriminate|].
    destruct (bop kmul y (one_point 1)) eqn:E1; cbn [bind]; [|discriminate | exfalso; apply (Hb _ _ _ Km _ E1)].
    destruct (bop kdiv a (one_point 1)) eqn:E2; cbn [bind]; [|discriminate | exfalso; apply (Hb _ _ _ Kd _ E2)].
    apply Hb; exact Ka. }
  induction e as [c f|n|a IHa|a IHa b IHb|a IHa b IHb|a IHa b IHb|a IHa b IHb]; intros L s; cbn [eval_go].
  - destruct (lex_ok_die c f L) as [c' [f' [-> ->]]]. destruct (new_die_ok c' f') as [r Hr]. rewrite Hr. discriminate.
  - discriminate.
  - cbn [lex_ok] in L. destruct (eval_go a) eqn:E; cbn [bind]; [discriminate | discriminate | exfalso; apply (IHa L _ eq_refl)].
  - cbn [lex_ok] in L. apply andb_true_iff in L. destruct L as [La Lb].
    destruct (eval_go a) eqn:Ea; cbn [bind]; [|discriminate | exfalso; apply (IHa La _ eq_refl)].
    destruct (eval_go b) eqn:Eb; cbn [bind]; [|discriminate | exfalso; apply (IHb Lb _ eq_refl)]. apply Va.
  - cbn [lex_ok] in L. apply andb_true_iff in L. destruct L as [La Lb].
    destruct (eval_go a) eqn:Ea; cbn [bind]; [|discriminate | exfalso; apply (IHa La _ eq_refl)].
    destruct (eval_go b) eqn:Eb; cbn [bind]; [|discriminate | exfalso; apply (IHb Lb _ eq_refl)]. apply Va.
  - cbn [lex_ok] in L. apply andb_true_iff in L. destruct L as [La Lb].
    destruct (eval_go a) eqn:Ea; cbn [bind]; [|discriminate | exfalso; apply (IHa La _ eq_refl)].
    destruct (eval_go b) eqn:Eb; cbn [bind]; [|discriminate | exfalso; apply (IHb Lb _ eq_refl)]. apply Hb; exact Km.
  - cbn [lex_ok] in L. apply andb_true_iff in L. destruct L as [La Lb].
    destruct (eval_go a) eqn:Ea; cbn [bind]; [|discriminate | exfalso; apply (IHa La _ eq_refl)].
    destruct (eval_go b) eqn:Eb; cbn [bind]; [|discriminate | exfalso; apply (IHb Lb _ eq_refl)]. apply Hb; exact Kd.
Qed.

(* ---------------- mean ---------------- *)

Lemma mean_fold d : forall a0,
  fold_left (fun acc kp => Qred (fst kp * snd kp + acc)) d a0 == a0 + expect d.
Proof.
  unfold expect. induction d as [|x r IH]; intro a0; cbn [fold_left].
  - rewrite mass_nil. ring.
  - rewrite IH, Qred_correct, mass_cons'. ring.
Qed.

Lemma mean_spec d r : total d == 1 -> mean d = Ok r ->
  exists v p, r = [(v, p)] /\ v == expect d.
Proof.
  intros T H. destruct d as [|[k p] [|y t]]; cbn [mean] in H.
  - discriminate.
  - inversion H; subst r. exists k, p. split; [reflexivity|].
    unfold expect, total in *. rewrite mass_cons, mass_nil in *.
    assert (Hp : p == 1) by (rewrite <- T; ring). rewrite Hp. ring.
  - exists (fold_left (fun acc kp => Qred (fst kp * snd kp + acc)) ((k, p) :: y :: t) 0), 1.
    split; [unfold one_point in H; injection H as H; symmetry; exact H|]. rewrite mean_fold. apply Qplus_0_l.
Qed.

Lemma mean_ok d : d <> [] -> exists r, mean d = Ok r.
Proof.
  destruct d as [|x [|y t]]; intro H; [congruence | |]; cbn [mean]; eexists; reflexivity.
Qed.
