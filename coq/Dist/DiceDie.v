(* Proofs about the model of Dist, part 2: Dist::new_die against the
   enumeration of all n-tuples of faces. *)
From Coq Require Import QArith Qround Lia Lqa SetoidList FinFun.
From FendV Require Import Base.Prelude Dist.Dice Dist.DiceProofs.
Open Scope Q_scope.

(* ---------------- list helpers ---------------- *)

Lemma map_flat_map {T U V} (F : U -> V) (h : T -> list U) l :
  map F (flat_map h l) = flat_map (fun t => map F (h t)) l.
Proof.
  induction l as [|x r IH]; cbn [flat_map]; [reflexivity|]. rewrite map_app, IH. reflexivity.
Qed.

Lemma flat_map_map {T U V} (k : U -> list V) (F : T -> U) l :
  flat_map k (map F l) = flat_map (fun t => k (F t)) l.
Proof.
  induction l as [|x r IH]; cbn [flat_map map]; [reflexivity|]. rewrite IH. reflexivity.
Qed.

Lemma mass_flat_map_ext {T} g (h1 h2 : T -> dist) l :
  (forall t, In t l -> mass g (h1 t) == mass g (h2 t)) ->
  mass g (flat_map h1 l) == mass g (flat_map h2 l).
Proof.
  induction l as [|x r IH]; intro H; cbn [flat_map]; [reflexivity|].
  rewrite !mass_app, IH, (H x) by (try (left; reflexivity); intros; apply H; right; assumption).
  reflexivity.
Qed.

Lemma mass_map_ext {T} g (F1 F2 : T -> part) l : respects g ->
  (forall j, In j l -> fst (F1 j) == fst (F2 j) /\ snd (F1 j) == snd (F2 j)) ->
  mass g (map F1 l) == mass g (map F2 l).
Proof.
  intros Hg. induction l as [|x r IH]; intro H; cbn [map]; [reflexivity|].
  rewrite !mass_cons', IH by (intros; apply H; right; assumption).
  destruct (H x (or_introl eq_refl)) as [H1 H2]. rewrite H2, (Hg _ _ H1). reflexivity.
Qed.

Lemma nodup_app {T} (l1 l2 : list T) :
  NoDup l1 -> NoDup l2 -> (forall x, In x l1 -> ~ In x l2) -> NoDup (l1 ++ l2).
Proof.
  induction l1 as [|x r IH]; intros H1 H2 H; cbn [app]; [exact H2|].
  inversion H1; subst. constructor.
  - rewrite in_app_iff. intros [X|X]; [contradiction|]. apply (H x); [left; reflexivity | exact X].
  - apply IH; try assumption. intros y Hy. apply H. right. exact Hy.
Qed.

Lemma nodup_flat_map {T U} (h : T -> list U) l :
  NoDup l -> (forall t, NoDup (h t)) ->
  (forall t1 t2 x, In x (h t1) -> In x (h t2) -> t1 = t2) ->
  NoDup (flat_map h l).
Proof.
  intros Hl Hh Hinj. induction Hl as [|t r Hnot Hr IH]; cbn [flat_map]; [constructor|].
  apply nodup_app; [apply Hh | exact IH |].
  intros x Hx Hx'. apply in_flat_map in Hx'. destruct Hx' as [t' [Ht' Hx']].
  assert (t = t') by (eapply Hinj; eassumption). subst. contradiction.
Qed.

Lemma length_flat_map_const {T U} (h : T -> list U) c l :
  (forall t, List.length (h t) = c) -> List.length (flat_map h l) = (List.length l * c)%nat.
Proof.
  intro H. induction l as [|x r IH]; cbn [flat_map List.length]; [reflexivity|].
  rewrite app_length, IH, H. lia.
Qed.

(* ---------------- tuples enumerate every n-tuple over 1..m exactly once ---- *)

Lemma tuples_in n m t :
  In t (tuples n m) <->
  List.length t = n /\ Forall (fun j => (1 <= j <= Z.of_nat m)%Z) t.
Proof.
  revert t. induction n as [|n IH]; intro t; cbn [tuples].
  - split.
    + intros [H|[]]. subst. split; [reflexivity | constructor].
    + intros [H _]. destruct t; [left; reflexivity | discriminate].
  - rewrite in_flat_map. split.
    + intros [t' [Ht' H]]. apply in_map_iff in H. destruct H as [j [Hj Hin]]. subst t.
      apply IH in Ht'. destruct Ht' as [Hl Hf]. apply in_seq in Hin. split.
      * cbn [List.length]. rewrite Hl. reflexivity.
      * constructor; [lia | exact Hf].
    + intros [Hl Hf]. destruct t as [|j t']; [discriminate|].
      inversion Hf; subst. exists t'. split.
      * apply IH. split; [cbn [List.length] in Hl; lia | assumption].
      * apply in_map_iff. exists (Z.to_nat j). split; [f_equal; lia | apply in_seq; lia].
Qed.

Lemma tuples_nodup n m : NoDup (tuples n m).
Proof.
  induction n as [|n IH]; cbn [tuples].
  - constructor; [intros [] | constructor].
  - apply nodup_flat_map; [exact IH | |].
    + intro t. apply FinFun.Injective_map_NoDup; [|apply seq_NoDup].
      intros a b H. inversion H. lia.
    + intros t1 t2 x H1 H2. apply in_map_iff in H1. apply in_map_iff in H2.
      destruct H1 as [j1 [E1 _]]. destruct H2 as [j2 [E2 _]]. subst x. inversion E2. reflexivity.
Qed.

Lemma tuples_length n m : List.length (tuples n m) = (m ^ n)%nat.
Proof.
  induction n as [|n IH]; cbn [tuples]; [reflexivity|].
  rewrite (length_flat_map_const _ m).
  - rewrite IH. cbn [Nat.pow]. lia.
  - intro t. rewrite map_length, seq_length. reflexivity.
Qed.

(* a tuple with the given sum exists iff it is counted *)
Lemma count_tuples_pos n m k :
  (0 < count_tuples n m k)%nat <-> exists t, In t (tuples n m) /\ zsum t = k.
Proof.
  unfold count_tuples. split.
  - intro H. destruct (filter (fun t => (zsum t =? k)%Z) (tuples n m)) as [|t r] eqn:E; [cbn in H; lia|].
    assert (Hin : In t (filter (fun t => (zsum t =? k)%Z) (tuples n m))) by (rewrite E; left; reflexivity).
    apply filter_In in Hin. destruct Hin as [Hin Hk]. exists t. split; [exact Hin | apply Z.eqb_eq; exact Hk].
  - intros [t [Hin Hk]].
    assert (Hf : In t (filter (fun t => (zsum t =? k)%Z) (tuples n m))) by (apply filter_In; split; [exact Hin | apply Z.eqb_eq; exact Hk]).
    destruct (filter (fun t => (zsum t =? k)%Z) (tuples n m)); [inversion Hf | cbn [List.length]; lia].
Qed.

(* ---------------- die_den ---------------- *)

Definition cden (n : nat) (f : positive) : Q := / inject_Z (Z.pos f ^ Z.of_nat n).

Lemma cden_succ n f : cden (S n) f == cden n f * (1 # f).
Proof.
  unfold cden. rewrite Nat2Z.inj_succ, Z.pow_succ_r by lia.
  rewrite inject_Z_mult, Qinv_mult_distr.
  assert (E : / inject_Z (Z.pos f) == 1 # f) by reflexivity. rewrite E. ring.
Qed.

Lemma cden_pos n f : 0 < cden n f.
Proof.
  unfold cden. apply Qinv_lt_0_compat. replace 0 with (inject_Z 0) by reflexivity.
  rewrite <- Zlt_Qlt. apply Z.pow_pos_nonneg; lia.
Qed.

Lemma Qeq_bool_inject a b : Qeq_bool (inject_Z a) (inject_Z b) = (a =? b)%Z.
Proof.
  destruct (Z.eqb_spec a b) as [e|e].
  - subst. apply Qeq_bool_iff. reflexivity.
  - destruct (Qeq_bool (inject_Z a) (inject_Z b)) eqn:E; [|reflexivity].
    apply Qeq_bool_iff in E. exfalso. apply e. apply (proj1 (inject_Z_injective a b) E).
Qed.

Lemma inject_Z_succ_nat n : inject_Z (Z.of_nat (S n)) == inject_Z (Z.of_nat n) + 1.
Proof. rewrite Nat2Z.inj_succ. unfold Z.succ. rewrite inject_Z_plus. reflexivity. Qed.

Lemma mass_const_list (F : list Z -> Q) c g l :
  mass g (map (fun t => (F t, c)) l) ==
  fold_right (fun t acc => g (F t) + acc) 0 l * c.
Proof.
  induction l as [|x r IH]; cbn [map fold_right].
  - rewrite mass_nil. ring.
  - rewrite mass_cons, IH. ring.
Qed.

Lemma prob_const_list c k l :
  prob (map (fun t => (inject_Z (zsum t), c)) l) (inject_Z k) ==
  inject_Z (Z.of_nat (List.length (filter (fun t => (zsum t =? k)%Z) l))) * c.
Proof.
  unfold prob. induction l as [|x r IH]; cbn [map filter].
  - rewrite mass_nil. cbn [List.length]. change (inject_Z (Z.of_nat 0)) with 0. ring.
  - rewrite mass_cons, IH, Qeq_bool_inject. destruct (zsum x =? k)%Z.
    + cbn [List.length]. rewrite inject_Z_succ_nat. ring.
    + ring.
Qed.

Lemma total_const_list (F : list Z -> Q) c l :
  total (map (fun t => (F t, c)) l) == inject_Z (Z.of_nat (List.length l)) * c.
Proof.
  unfold total. induction l as [|x r IH]; cbn [map].
  - rewrite mass_nil. cbn [List.length]. change (inject_Z (Z.of_nat 0)) with 0. ring.
  - rewrite mass_cons, IH. cbn [List.length]. rewrite inject_Z_succ_nat. ring.
Qed.

Lemma prob_die_den n f k :
  prob (die_den n f) (inject_Z k) ==
  inject_Z (Z.of_nat (count_tuples n (Pos.to_nat f) k)) / inject_Z (Z.pos f ^ Z.of_nat n).
Proof. unfold die_den, count_tuples. rewrite prob_const_list. reflexivity. Qed.

Lemma total_die_den n f : total (die_den n f) == 1.
Proof.
  unfold die_den. rewrite total_const_list, tuples_length.
  rewrite Nat2Z.inj_pow, positive_nat_Z. apply Qmult_inv_r.
  intro H. unfold Qeq in H. cbn [inject_Z Qnum Qden] in H.
  assert (0 < Z.pos f ^ Z.of_nat n)%Z by (apply Z.pow_pos_nonneg; lia). lia.
Qed.

Lemma positive_die_den n f : positive_probs (die_den n f).
Proof.
  unfold positive_probs, die_den. rewrite Forall_forall. intros x Hx.
  apply in_map_iff in Hx. destruct Hx as [t [Hx _]]. subst x. cbn [snd]. apply (cden_pos n f).
Qed.

Lemma keys_die_den n f k :
  InA Qeq k (keys (die_den n f)) <->
  exists t, In t (tuples n (Pos.to_nat f)) /\ inject_Z (zsum t) == k.
Proof.
  unfold keys, die_den. rewrite map_map. cbn [fst]. rewrite InA_alt. split.
  - intros [y [Hy Hin]]. apply in_map_iff in Hin. destruct Hin as [t [Ht Hin]]. subst y.
    exists t. split; [exact Hin | symmetry; exact Hy].
  - intros [t [Hin Hk]]. exists (inject_Z (zsum t)). split; [symmetry; exact Hk|].
    apply in_map_iff. exists t. split; [reflexivity | exact Hin].
Qed.

(* one more die: the enumeration adds a coordinate, the model convolves *)
Lemma die_den_succ n f : meq (die_den (S n) f) (conv Qplus (die_den n f) (one_die f)).
Proof.
  intros g Hg. unfold die_den, conv, one_die. cbn [tuples].
  rewrite map_flat_map, flat_map_map. apply mass_flat_map_ext. intros t _.
  rewrite !map_map. apply mass_map_ext; [exact Hg|]. intros j _. cbn [fst snd]. split.
  - cbn [zsum fold_right]. fold (zsum t). rewrite inject_Z_plus. ring.
  - apply (cden_succ n f).
Qed.

Lemma one_die_meq f : meq (one_die f) (die_den 1 f).
Proof.
  intros g Hg. unfold die_den, one_die. cbn [tuples flat_map]. rewrite app_nil_r, map_map.
  apply mass_map_ext; [exact Hg|]. intros j _. cbn [fst snd]. split.
  - cbn [zsum fold_right]. rewrite Z.add_0_r. reflexivity.
  - change (Z.of_nat 1) with 1%Z. rewrite Z.pow_1_r. reflexivity.
Qed.

(* ---------------- new_die ---------------- *)

Lemma die_loop_meq f i : forall acc r n,
  die_loop i (one_die f) acc = Ok r -> meq acc (die_den n f) -> meq r (die_den (n + i) f).
Proof.
  induction i as [|i IH]; intros acc r n H Hacc; cbn [die_loop] in H.
  - inversion H; subst. rewrite Nat.add_0_r. exact Hacc.
  - destruct (bop kadd acc (one_die f)) as [acc'| |] eqn:E; cbn [bind] in H; try discriminate.
    rewrite Nat.add_succ_r. change (S (n + i)) with (S n + i)%nat. apply (IH _ _ _ H).
    eapply meq_trans; [apply (bop_meq kadd Qplus kadd_fv _ _ _ E)|].
    eapply meq_trans; [|apply meq_sym, die_den_succ].
    apply conv_meq; [exact respects2_plus | exact Hacc | apply meq_refl].
Qed.

Lemma kadd_total a b : exists v, kadd a b = Ok v.
Proof. eexists; reflexivity. Qed.
Lemma kmul_total a b : exists v, kmul a b = Ok v.
Proof. eexists; reflexivity. Qed.

Lemma die_loop_total d1 i : forall acc, exists r, die_loop i d1 acc = Ok r.
Proof.
  induction i as [|i IH]; intro acc; cbn [die_loop]; [eexists; reflexivity|].
  destruct (bop_total kadd acc d1 kadd_total) as [r Hr]. rewrite Hr. cbn [bind]. apply IH.
Qed.

Lemma new_die_ok c f : exists r, new_die (Npos c) (Npos f) = Ok r.
Proof. cbn [new_die]. apply die_loop_total. Qed.

Lemma new_die_meq c f r : new_die (Npos c) (Npos f) = Ok r -> meq r (die_den (Pos.to_nat c) f).
Proof.
  cbn [new_die]. intro H. apply (die_loop_meq f _ _ _ 1%nat) in H; [|apply one_die_meq].
  replace (1 + Nat.pred (Pos.to_nat c))%nat with (Pos.to_nat c) in H by (pose proof (Pos2Nat.is_pos c); lia).
  exact H.
Qed.

Lemma one_die_positive f : positive_probs (one_die f).
Proof.
  unfold positive_probs, one_die. rewrite Forall_forall. intros x Hx.
  apply in_map_iff in Hx. destruct Hx as [j [Hx _]]. subst x. cbn [snd]. reflexivity.
Qed.

Lemma one_die_distinct f : distinct (one_die f).
Proof.
  unfold distinct, keys, one_die. rewrite map_map. cbn [fst].
  generalize (seq_NoDup (Pos.to_nat f) 1). generalize (seq 1 (Pos.to_nat f)).
  intros l H. induction H as [|x r Hnot Hr IH]; cbn [map]; constructor; [|exact IH].
  intro X. apply InA_alt in X. destruct X as [y [Hy Hin]]. apply in_map_iff in Hin.
  destruct Hin as [j [Hj Hin]]. subst y. apply (proj1 (inject_Z_injective _ _)) in Hy.
  apply Nat2Z.inj in Hy. subst. contradiction.
Qed.

Lemma die_loop_inv (P : dist -> Prop) d1 i :
  (forall acc r, P acc -> bop kadd acc d1 = Ok r -> P r) ->
  forall acc r, die_loop i d1 acc = Ok r -> P acc -> P r.
Proof.
  intro Hstep. induction i as [|i IH]; intros acc r H Hacc; cbn [die_loop] in H.
  - inversion H; subst; exact Hacc.
  - destruct (bop kadd acc d1) as [acc'| |] eqn:E; cbn [bind] in H; try discriminate.
    apply (IH _ _ H). apply (Hstep _ _ Hacc E).
Qed.

Lemma new_die_distinct c f r : new_die (Npos c) (Npos f) = Ok r -> distinct r.
Proof.
  cbn [new_die]. intro H. eapply (die_loop_inv distinct); [| exact H | apply one_die_distinct].
  intros acc r' _ E. apply (bop_distinct kadd _ _ _ E).
Qed.

Lemma new_die_positive c f r : new_die (Npos c) (Npos f) = Ok r -> positive_probs r.
Proof.
  cbn [new_die]. intro H. eapply (die_loop_inv positive_probs); [| exact H | apply one_die_positive].
  intros acc r' Hacc E. apply (bop_positive kadd _ _ _ Hacc (one_die_positive f) E).
Qed.

(* ---------------- expectation of NdM ---------------- *)

Lemma list_sum_seq m : (2 * list_sum (seq 1 m) = m * (m + 1))%nat.
Proof.
  induction m as [|m IH]; [reflexivity|].
  rewrite seq_S, list_sum_app. cbn [list_sum fold_right]. nia.
Qed.

Lemma expect_one_die f : expect (one_die f) == (inject_Z (Z.pos f) + 1) / 2.
Proof.
  unfold expect, one_die.
  assert (H : forall l, mass (fun x => x) (map (fun j => (inject_Z (Z.of_nat j), 1 # f)) l)
                        == inject_Z (Z.of_nat (list_sum l)) * (1 # f)).
  { induction l as [|x r IH]; cbn [map].
    - rewrite mass_nil. change (inject_Z (Z.of_nat (list_sum []))) with 0. ring.
    - change (list_sum (x :: r)) with (x + list_sum r)%nat.
      rewrite mass_cons, IH, Nat2Z.inj_add, inject_Z_plus. ring. }
  rewrite H. pose proof (list_sum_seq (Pos.to_nat f)) as S.
  apply (f_equal Z.of_nat) in S. rewrite !Nat2Z.inj_mul, Nat2Z.inj_add, positive_nat_Z in S.
  apply (f_equal inject_Z) in S. rewrite !inject_Z_mult, inject_Z_plus in S.
  change (inject_Z (Z.of_nat 2)) with 2 in S. change (inject_Z (Z.of_nat 1)) with 1 in S.
  set (s := inject_Z (Z.of_nat (list_sum (seq 1 (Pos.to_nat f))))) in *.
  set (F := inject_Z (Z.pos f)) in *.
  assert (HF : 0 < F) by (unfold F; replace 0 with (inject_Z 0) by reflexivity; rewrite <- Zlt_Qlt; lia).
  assert (E : 1 # f == / F) by reflexivity. rewrite E.
  assert (S' : 2 * s == F * (F + 1)) by (rewrite S; reflexivity).
  field_simplify_eq; [|lra]. lra.
Qed.

Lemma expect_die_den n f : expect (die_den n f) == inject_Z (Z.of_nat n) * (inject_Z (Z.pos f) + 1) / 2.
Proof.
  induction n as [|n IH].
  - unfold expect, die_den. cbn [tuples map]. rewrite mass_cons, mass_nil. cbn [zsum fold_right Z.of_nat].
    rewrite Z.pow_0_r. change (inject_Z 0) with 0. change (inject_Z 1) with 1. field.
  - unfold expect. rewrite (die_den_succ n f _ respects_id). fold (expect (conv Qplus (die_den n f) (one_die f))).
    rewrite expect_conv_plus, IH, total_die_den, expect_one_die.
    assert (T : total (one_die f) == 1).
    { unfold total. rewrite (one_die_meq f _ (respects_const 1)). apply (total_die_den 1 f). }
    rewrite T, inject_Z_succ_nat. field.
Qed.
