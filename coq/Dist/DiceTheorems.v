(* Proofs about the model of Dist, part 5: the statements of
   coq/Properties/C17.v, assembled from the previous parts. *)
From Coq Require Import QArith Qround Qabs Lia Lqa SetoidList Permutation Sorted.
From FendV Require Import Base.Prelude Dist.Dice Dist.DiceProofs Dist.DiceDie Dist.DiceEval Dist.DiceSample.
Open Scope Q_scope.

Lemma eval_total_lemma e D : eval e = Ok D -> total D == 1.
Proof.
  intro H. destruct (eval_sound e D H) as [L [_ [_ M]]].
  rewrite (total_meq _ _ M). apply total_denote, L.
Qed.

Lemma eval_distinct_lemma e D : eval e = Ok D -> NoDupA Qeq (keys D).
Proof. intro H. destruct (eval_sound e D H) as [_ [Hd _]]. exact Hd. Qed.

Lemma eval_positive_lemma e D : eval e = Ok D -> Forall (fun kp => 0 < snd kp) D.
Proof. intro H. destruct (eval_sound e D H) as [_ [_ [Hp _]]]. exact Hp. Qed.

Lemma eval_denotes_lemma e D : eval e = Ok D -> forall k, prob D k == prob (denote e) k.
Proof.
  intros H k. destruct (eval_sound e D H) as [_ [_ [_ M]]]. apply (M _ (respects_ind k)).
Qed.

Lemma eval_mass_lemma e D : eval e = Ok D ->
  forall g, (forall x y, x == y -> g x == g y) -> mass g D == mass g (denote e).
Proof. intros H g Hg. destruct (eval_sound e D H) as [_ [_ [_ M]]]. apply (M g Hg). Qed.

Lemma eval_support_lemma e D : eval e = Ok D ->
  forall k, (InA Qeq k (keys D) <-> InA Qeq k (keys (denote e))) /\
            (InA Qeq k (keys D) <-> 0 < prob (denote e) k).
Proof.
  intros H k. destruct (eval_sound e D H) as [L [_ [Hp M]]].
  pose proof (support_meq D (denote e) k Hp (positive_denote e L) M) as S.
  split; [exact S|]. rewrite S. symmetry. apply prob_pos_iff, positive_denote, L.
Qed.

Lemma eval_expect_lemma e D : eval e = Ok D -> expect D == expect (denote e).
Proof. intro H. destruct (eval_sound e D H) as [_ [_ [_ M]]]. apply (M _ respects_id). Qed.

Lemma eval_prob_listed_lemma e D : eval e = Ok D ->
  forall k p, In (k, p) D -> p == prob (denote e) k.
Proof.
  intros H k p Hin. rewrite <- (eval_denotes_lemma e D H k). symmetry.
  apply prob_in_distinct; [apply (eval_distinct_lemma e D H) | exact Hin].
Qed.

Lemma die_spec_lemma c f : exists D, new_die (Npos c) (Npos f) = Ok D /\
  forall k, prob D (inject_Z k) ==
            inject_Z (Z.of_nat (count_tuples (Pos.to_nat c) (Pos.to_nat f) k)) / inject_Z (Z.pos f ^ Z.pos c).
Proof.
  destruct (new_die_ok c f) as [D HD]. exists D. split; [exact HD|]. intro k.
  pose proof (new_die_meq c f D HD _ (respects_ind (inject_Z k))) as M. fold (prob D (inject_Z k)) in M.
  rewrite M. fold (prob (die_den (Pos.to_nat c) f) (inject_Z k)). rewrite prob_die_den, positive_nat_Z. reflexivity.
Qed.

Lemma die_support_lemma c f D : new_die (Npos c) (Npos f) = Ok D ->
  forall k, InA Qeq k (keys D) <->
            exists t, In t (tuples (Pos.to_nat c) (Pos.to_nat f)) /\ inject_Z (zsum t) == k.
Proof.
  intros H k. rewrite <- keys_die_den.
  apply support_meq; [apply (new_die_positive _ _ _ H) | apply positive_die_den | apply (new_die_meq _ _ _ H)].
Qed.

Lemma die_invariants_lemma c f D : new_die (Npos c) (Npos f) = Ok D ->
  total D == 1 /\ NoDupA Qeq (keys D) /\ Forall (fun kp => 0 < snd kp) D.
Proof.
  intro H. split; [|split].
  - rewrite (total_meq _ _ (new_die_meq _ _ _ H)). apply total_die_den.
  - apply (new_die_distinct _ _ _ H).
  - apply (new_die_positive _ _ _ H).
Qed.

Lemma die_mean_lemma c f D : new_die (Npos c) (Npos f) = Ok D ->
  expect D == inject_Z (Z.pos c) * (inject_Z (Z.pos f) + 1) / 2.
Proof.
  intro H. unfold expect. rewrite (new_die_meq _ _ _ H _ respects_id).
  fold (expect (die_den (Pos.to_nat c) f)). rewrite expect_die_den, positive_nat_Z. reflexivity.
Qed.

Lemma bop_spec_lemma f fv da db r :
  (forall a b v, f a b = Ok v -> v == fv a b) -> bop f da db = Ok r ->
  NoDupA Qeq (keys r) /\
  (forall k, prob r k == prob (conv fv da db) k) /\
  total r == total da * total db /\
  (forall a b, In a da -> In b db -> exists v, f (fst a) (fst b) = Ok v).
Proof.
  intros Hf H. split; [apply (bop_distinct f _ _ _ H) | split; [|split]].
  - intro k. apply (bop_meq f fv Hf _ _ _ H _ (respects_ind k)).
  - unfold total at 1. rewrite (bop_meq f fv Hf _ _ _ H _ (respects_const 1)). apply total_conv.
  - (* a failing pair makes the whole bop fail *)
    clear Hf. unfold bop in H. revert H. generalize (@nil part) as acc.
    assert (Hi : forall n1 p1 db acc r, bop_inner f n1 p1 db acc = Ok r ->
                 forall b, In b db -> exists v, f n1 (fst b) = Ok v).
    { intros n1 p1. induction db0 as [|[n2 p2] t IH]; intros acc r0 H b Hb; [inversion Hb|].
      cbn [bop_inner] in H. destruct (f n1 n2) as [n| |] eqn:E; cbn [bind] in H; try discriminate.
      destruct Hb as [Hb|Hb]; [subst b; exists n; exact E | apply (IH _ _ H b Hb)]. }
    induction da as [|[n1 p1] t IH]; intros acc H a b Ha Hb; [inversion Ha|].
    cbn [bop_outer] in H. destruct (bop_inner f n1 p1 db acc) as [acc'| |] eqn:E; cbn [bind] in H; try discriminate.
    destruct Ha as [Ha|Ha]; [subst a; apply (Hi _ _ _ _ _ E b Hb) | apply (IH _ H a b Ha Hb)].
Qed.

Lemma mean_lemma e D : eval e = Ok D ->
  exists v p, mean D = Ok [(v, p)] /\ v == expect (denote e).
Proof.
  intro H. pose proof (eval_total_lemma e D H) as T.
  assert (Hne : D <> []).
  { intro X. subst D. unfold total in T. rewrite mass_nil in T. discriminate T. }
  destruct (mean_ok D Hne) as [r Hr]. destruct (mean_spec D r T Hr) as [v [p [Er Hv]]].
  exists v, p. split; [rewrite Hr, Er; reflexivity|]. rewrite Hv. apply (eval_expect_lemma e D H).
Qed.

Lemma listing_lemma e D : eval e = Ok D ->
  StronglySorted (fun x y => fst x < fst y) (listing D) /\ Permutation (listing D) D.
Proof.
  intro H. split; [apply listing_sorted, (eval_distinct_lemma e D H) | apply listing_perm].
Qed.

Lemma listing_any_lemma D : NoDupA Qeq (keys D) ->
  StronglySorted (fun x y => fst x < fst y) (listing D) /\ Permutation (listing D) D.
Proof. intro H. split; [apply listing_sorted, H | apply listing_perm]. Qed.
