(* Model of core/src/num/dist.rs (Dist::new_die, bop, Exact<Dist> add/mul/div,
   Neg, mean, sample, the ordering and percentage rounding of format) and of
   the path by which dice arithmetic reaches it (core/src/num/unit.rs
   Value::add/sub/mul/div/neg, core/src/lexer.rs dice literals).
   Executable Gallina only; no proofs here.

   Numbers: outcomes and probabilities are exact rationals (Coq Q).  fend's
   BigRat keeps unreduced numerator/denominator pairs; the representation is
   not part of this model (values are compared with Qeq everywhere), only the
   shape of the addition of probabilities is kept (equal denominators: add
   the numerators) because every distribution built from dice keeps a common
   denominator and this is what makes large dice cheap.                    *)
From Coq Require Import QArith Qround.
From FendV Require Import Base.Prelude.
Open Scope N_scope.

Definition part := (Q * Q)%type.          (* (outcome, probability) *)
Definition dist := list part.             (* Dist.parts, in stored order *)

(* ---------------- rational arithmetic used by the model ---------------- *)

(* BigRat::add on probabilities *)
Definition qadd (a b : Q) : Q :=
  if Pos.eqb (Qden a) (Qden b) then Qmake (Qnum a + Qnum b)%Z (Qden a)
  else Qred (Qplus a b).
(* BigRat::mul on probabilities (no reduction, as in fend) *)
Definition qmul (a b : Q) : Q := Qmult a b.

Definition qis_zero (a : Q) : bool := Z.eqb (Qnum a) 0%Z.

(* Complex::compare(..) == Some(Equal) on real rational outcomes *)
Definition keq (a b : Q) : bool := Qeq_bool a b.

(* the closures passed to bop by Exact<Dist>::add / mul / div *)
Definition kadd (a b : Q) : res Q := Ok (Qred (Qplus a b)).
Definition kmul (a b : Q) : res Q := Ok (Qred (Qmult a b)).
Definition kdiv (a b : Q) : res Q :=
  if qis_zero b then Err EDivByZero else Ok (Qred (Qdiv a b)).

(* ---------------- Dist::bop ---------------- *)

(* the inner `for (k, prob) in &mut parts { if k == n { *prob += p; found } }
   if !found { parts.push((n, p)) }` *)
Fixpoint insert_merge (k p : Q) (parts : dist) : dist :=
  match parts with
  | [] => [(k, p)]
  | (k', p') :: r =>
    if keq k' k then (k', qadd p' p) :: r
    else (k', p') :: insert_merge k p r
  end.

Fixpoint bop_inner (f : Q -> Q -> res Q) (n1 p1 : Q) (db : dist) (acc : dist) : res dist :=
  match db with
  | [] => Ok acc
  | (n2, p2) :: r =>
    do n <- f n1 n2;
    bop_inner f n1 p1 r (insert_merge n (qmul p1 p2) acc)
  end.

Fixpoint bop_outer (f : Q -> Q -> res Q) (da db : dist) (acc : dist) : res dist :=
  match da with
  | [] => Ok acc
  | (n1, p1) :: r =>
    do acc' <- bop_inner f n1 p1 db acc;
    bop_outer f r db acc'
  end.

Definition bop (f : Q -> Q -> res Q) (da db : dist) : res dist := bop_outer f da db [].

(* ---------------- Dist::new_die ---------------- *)

(* faces 1..=faces, each with probability 1/faces *)
Definition one_die (faces : positive) : dist :=
  map (fun j => (inject_Z (Z.of_nat j), Qmake 1%Z faces)) (seq 1 (Pos.to_nat faces)).

(* `for _ in 1..count { result = result + new_die(1, faces) }` *)
Fixpoint die_loop (i : nat) (d1 : dist) (acc : dist) : res dist :=
  match i with
  | O => Ok acc
  | S i' => do acc' <- bop kadd acc d1; die_loop i' d1 acc'
  end.

Definition new_die (count faces : N) : res dist :=
  match count, faces with
  | N0, _ => Panic 1                       (* assert!(count != 0) *)
  | _, N0 => Panic 2                       (* assert!(faces != 0) *)
  | Npos c, Npos f => die_loop (Nat.pred (Pos.to_nat c)) (one_die f) (one_die f)
  end.

(* ---------------- From<Complex>, equals_int, Neg ---------------- *)

Definition one_point (q : Q) : dist := [(q, 1%Q)].

Definition equals_int (d : dist) (v : Q) : bool :=
  match d with
  | [(k, _)] => keq k v
  | _ => false
  end.

Definition dneg (d : dist) : dist := map (fun kp => (Qopp (fst kp), snd kp)) d.

(* ---------------- unit.rs Value::add / sub / mul / div (unitless) -------- *)

(* Value::add: `if rhs.is_zero() { return self }`, then the right operand is
   multiplied by scale_1 = 1 and divided by scale_2 = 1 (two more bop passes)
   before the addition proper *)
Definition vadd (a b : dist) : res dist :=
  if equals_int b 0%Q then Ok a
  else
    do s1 <- bop kmul b (one_point 1%Q);
    do s2 <- bop kdiv s1 (one_point 1%Q);
    bop kadd a s2.
Definition vsub (a b : dist) : res dist := vadd a (dneg b).
Definition vmul (a b : dist) : res dist := bop kmul a b.
Definition vdiv (a b : dist) : res dist := bop kdiv a b.

(* ---------------- expressions ---------------- *)

Inductive expr :=
| EDie (count faces : N)
| EConst (n : N)
| ENeg (a : expr)
| EAdd (a b : expr)
| ESub (a b : expr)
| EMul (a b : expr)
| EDiv (a b : expr).

Definition u32_limit : N := 4294967296.

(* lexer.rs: the whole input is lexed before anything is evaluated; a dice
   literal with count or faces 0 or not fitting u32 is InvalidDiceSyntax *)
Fixpoint lex_ok (e : expr) : bool :=
  match e with
  | EDie c f => negb ((c =? 0) || (f =? 0) || (u32_limit <=? c) || (u32_limit <=? f))
  | EConst _ => true
  | ENeg a => lex_ok a
  | EAdd a b | ESub a b | EMul a b | EDiv a b => lex_ok a && lex_ok b
  end.

Fixpoint eval_go (e : expr) : res dist :=
  match e with
  | EDie c f => new_die c f
  | EConst n => Ok (one_point (inject_Z (Z.of_N n)))
  | ENeg a => do x <- eval_go a; Ok (dneg x)
  | EAdd a b => do x <- eval_go a; do y <- eval_go b; vadd x y
  | ESub a b => do x <- eval_go a; do y <- eval_go b; vsub x y
  | EMul a b => do x <- eval_go a; do y <- eval_go b; vmul x y
  | EDiv a b => do x <- eval_go a; do y <- eval_go b; vdiv x y
  end.

Definition eval (e : expr) : res dist :=
  if lex_ok e then eval_go e else Err EParse.

(* ---------------- Dist::mean ---------------- *)

Definition mean (d : dist) : res dist :=
  match d with
  | [] => Err EOther                       (* EmptyDistribution *)
  | [_] => Ok d
  | _ => Ok (one_point (fold_left (fun acc kp => Qred (Qplus (Qmult (fst kp) (snd kp)) acc)) d 0%Q))
  end.

(* ---------------- Dist::sample ---------------- *)

(* weights w_i = (f64(p_i) * 4294967295.0) as u32 are supplied from outside
   (floating point is an oracle); N subtraction is truncated at 0 like
   u32::saturating_sub *)
Fixpoint sample_loop (parts : dist) (ws : list N) (random : N) (last : option Q) : option Q :=
  match parts, ws with
  | (k, _) :: r, w :: ws' =>
    let random' := random - w in
    if random' =? 0 then Some k else sample_loop r ws' random' (Some k)
  | _, _ => last
  end.

Definition sample (d : dist) (ws : list N) (random : N) : res dist :=
  match d with
  | [_] => Ok d
  | _ => match sample_loop d ws random None with
         | Some k => Ok (one_point k)
         | None => Err EOther               (* EmptyDistribution *)
         end
  end.

(* ---------------- Dist::format: order and percentages ---------------- *)

Fixpoint insert_sorted (x : part) (l : dist) : dist :=
  match l with
  | [] => [x]
  | y :: r => if Qle_bool (fst x) (fst y) then x :: l else y :: insert_sorted x r
  end.

(* sort_unstable_by(compare) *)
Definition listing (d : dist) : dist := fold_right insert_sorted [] d.

(* the percentage with two decimals, in hundredths of a percent: the exact
   p * 100 rounded to the nearest 0.01 (ties upwards; fend goes through f64
   and Rust float formatting, an oracle: the check accepts either neighbour
   near a tie) *)
Definition pct_hundredths (p : Q) : Z := Qfloor (Qplus (Qmult p (Qmake 10000%Z 1%positive)) (Qmake 1%Z 2%positive)).

(* ---------------- specification-side definitions ---------------- *)

(* unmerged product list: every pair of parts, outcome fv a b, probability
   pa * pb (independence) *)
Definition conv (fv : Q -> Q -> Q) (da db : dist) : dist :=
  flat_map (fun a => map (fun b => (fv (fst a) (fst b), Qmult (snd a) (snd b))) db) da.

(* all n-tuples over 1..m; count_tuples n m k = how many sum to k *)
Fixpoint tuples (n : nat) (m : nat) : list (list Z) :=
  match n with
  | O => [[]]
  | S n' => flat_map (fun t => map (fun j => Z.of_nat j :: t) (seq 1 m)) (tuples n' m)
  end.
Definition zsum (t : list Z) : Z := fold_right Z.add 0%Z t.
Definition count_tuples (n m : nat) (k : Z) : nat :=
  List.length (filter (fun t => Z.eqb (zsum t) k) (tuples n m)).

(* the distribution of the sum of n independent fair m-sided dice, one entry
   per tuple *)
Definition die_den (n : nat) (m : positive) : dist :=
  map (fun t => (inject_Z (zsum t), Qinv (inject_Z (Z.pos m ^ Z.of_nat n)))) (tuples n (Pos.to_nat m)).

Fixpoint denote (e : expr) : dist :=
  match e with
  | EDie c f => match c, f with
                | Npos c, Npos f => die_den (Pos.to_nat c) f
                | _, _ => []
                end
  | EConst n => [(inject_Z (Z.of_N n), 1%Q)]
  | ENeg a => map (fun kp => (Qopp (fst kp), snd kp)) (denote a)
  | EAdd a b => conv Qplus (denote a) (denote b)
  | ESub a b => conv Qminus (denote a) (denote b)
  | EMul a b => conv Qmult (denote a) (denote b)
  | EDiv a b => conv Qdiv (denote a) (denote b)
  end.

(* weighted sum of g over a distribution: total mass (g = 1), probability of
   an outcome (g = indicator), expectation (g = identity) *)
Definition mass (g : Q -> Q) (d : dist) : Q :=
  fold_right (fun kp acc => Qplus (Qmult (g (fst kp)) (snd kp)) acc) 0%Q d.
Definition total (d : dist) : Q := mass (fun _ => 1%Q) d.
Definition prob (d : dist) (k : Q) : Q := mass (fun x => if Qeq_bool x k then 1%Q else 0%Q) d.
Definition expect (d : dist) : Q := mass (fun x => x) d.
Definition keys (d : dist) : list Q := map fst d.
