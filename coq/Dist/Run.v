(* Dispatcher for the Dist area (C17): executable entry points used by the
   correspondence check (extracted to OCaml and also run by vm_compute). *)
From Coq Require Import QArith.
From FendV Require Import Base.Prelude Dist.Dice.
Open Scope N_scope.

(* expression wire format: (d n m) (c n) (neg e) (add a b) (sub a b)
   (mul a b) (div a b) *)
Fixpoint as_expr (fuel : nat) (s : sx) : option expr :=
  match fuel with
  | O => None
  | S f =>
    match s with
    | XL [XS t; XA a; XA b] =>
      if opeq t "d" then
        match as_N (XA a), as_N (XA b) with
        | Some n, Some m => Some (EDie n m)
        | _, _ => None
        end
      else None
    | XL [XS t; XA a] =>
      if opeq t "c" then
        match as_N (XA a) with Some n => Some (EConst n) | None => None end
      else None
    | XL [XS t; a] =>
      if opeq t "neg" then
        match as_expr f a with Some x => Some (ENeg x) | None => None end
      else None
    | XL [XS t; a; b] =>
      match as_expr f a, as_expr f b with
      | Some x, Some y =>
        if opeq t "add" then Some (EAdd x y)
        else if opeq t "sub" then Some (ESub x y)
        else if opeq t "mul" then Some (EMul x y)
        else if opeq t "div" then Some (EDiv x y)
        else None
      | _, _ => None
      end
    | _ => None
    end
  end.

Definition sx_Q (q : Q) : list sx :=
  let r := Qred q in [XA (Qnum r); XA (Zpos (Qden r))].
Definition sx_part (kp : part) : sx := XL (sx_Q (fst kp) ++ sx_Q (snd kp)).
Definition sx_dist (d : dist) : sx := XL (map sx_part d).
Definition sx_listed (kp : part) : sx :=
  XL (sx_Q (fst kp) ++ sx_Q (snd kp) ++ [XA (pct_hundredths (snd kp))]).

Definition run_dist : dispatcher := fun op args =>
  if opeq op "dist" then
    match args with
    | [e] => match as_expr 200 e with
             | Some e => Some (sx_res sx_dist (eval e))
             | None => Some sx_bad end
    | _ => Some sx_bad
    end
  else if opeq op "mean" then
    match args with
    | [e] => match as_expr 200 e with
             | Some e => Some (sx_res sx_dist (do d <- eval e; mean d))
             | None => Some sx_bad end
    | _ => Some sx_bad
    end
  else if opeq op "listing" then
    match args with
    | [e] => match as_expr 200 e with
             | Some e => Some (sx_res (fun d => XL (map sx_listed (listing d))) (eval e))
             | None => Some sx_bad end
    | _ => Some sx_bad
    end
  else if opeq op "sample" then
    (* (sample e (w...) (r...)): one Dist::sample per r under weights w *)
    match args with
    | [e; ws; rs] =>
      match as_expr 200 e, as_NL ws, as_NL rs with
      | Some e, Some ws, Some rs =>
        Some (sx_res (fun d => XL (map (fun r => sx_res sx_dist (sample d ws r)) rs)) (eval e))
      | _, _, _ => Some sx_bad
      end
    | _ => Some sx_bad
    end
  else if opeq op "count-tuples" then
    (* (count-tuples n m k): independent combinatorial spec *)
    match args with
    | [XA n; XA m; XA k] =>
      Some (sx_N (N.of_nat (count_tuples (Z.to_nat n) (Z.to_nat m) k)))
    | _ => Some sx_bad
    end
  else None.

Definition run_dist_line : list N -> list N := run_with run_dist.
