From FendV Require Import Base.Prelude Units.Run.
Require Extraction ExtrOcamlBasic.
Extraction Language OCaml.
Definition run_line := run_units_line.
Extraction "model_units.ml" run_line.
