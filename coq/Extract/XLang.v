From FendV Require Import Base.Prelude Lang.Run.
Require Extraction ExtrOcamlBasic.
Extraction Language OCaml.
Definition run_line := run_lang_line.
Extraction "model_lang.ml" run_line.
