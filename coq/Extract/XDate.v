From FendV Require Import Base.Prelude Date.Run.
Require Extraction ExtrOcamlBasic.
Extraction Language OCaml.
Definition run_line := run_date_line.
Extraction "model_date.ml" run_line.
