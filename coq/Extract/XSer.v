From FendV Require Import Base.Prelude Ser.Run.
Require Extraction ExtrOcamlBasic.
Extraction Language OCaml.
Definition run_line := run_ser_line.
Extraction "model_ser.ml" run_line.
