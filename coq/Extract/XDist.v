From FendV Require Import Base.Prelude Dist.Run.
Require Extraction ExtrOcamlBasic.
Extraction Language OCaml.
Definition run_line := run_dist_line.
Extraction "model_dist.ml" run_line.
