From FendV Require Import Base.Prelude Fmt.Run.
Require Extraction ExtrOcamlBasic.
Extraction Language OCaml.
Definition run_line := run_fmt_line.
Extraction "model_fmt.ml" run_line.
