(* extraction of the computational (rational / soft-float) part of the Elem
   area only; nothing here or in its imports mentions R *)
From FendV Require Import Base.Prelude Elem.Run.
Require Extraction ExtrOcamlBasic.
Extraction Language OCaml.
Definition run_line := run_elem_line.
Extraction "model_elem.ml" run_line.
