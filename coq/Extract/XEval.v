From FendV Require Import Base.Prelude Eval.Run.
Require Extraction ExtrOcamlBasic.
Extraction Language OCaml.
Definition run_line := run_eval_line.
Extraction "model_eval.ml" run_line.
