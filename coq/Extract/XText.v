From FendV Require Import Base.Prelude Text.Run.
Require Extraction ExtrOcamlBasic.
Extraction Language OCaml.
Definition run_line := run_text_line.
Extraction "model_text.ml" run_line.
