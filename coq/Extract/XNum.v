From FendV Require Import Base.Prelude Num.Run.
Require Extraction ExtrOcamlBasic.
Extraction Language OCaml.
Definition run_line := run_num_line.
Extraction "model_num.ml" run_line.
