From FendV Require Import Base.Prelude Intfns.Run.
Require Extraction ExtrOcamlBasic.
Extraction Language OCaml.
Definition run_line := run_intfns_line.
Extraction "model_intfns.ml" run_line.
