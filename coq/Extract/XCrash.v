From FendV Require Import Base.Prelude Crash.Run.
Require Extraction ExtrOcamlBasic.
Extraction Language OCaml.
Definition run_line := run_crash_line.
Extraction "model_crash.ml" run_line.
