From FendV Require Import Base.Prelude Cli.Run.
Require Extraction ExtrOcamlBasic.
Extraction Language OCaml.
Definition run_line := run_cli_line.
Extraction "model_cli.ml" run_line.
