From FendV Require Import Base.Prelude Lex.Run.
Require Extraction ExtrOcamlBasic.
Extraction Language OCaml.
Definition run_line := run_lex_line.
Extraction "model_lex.ml" run_line.
