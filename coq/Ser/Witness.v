(* Ser/Witness.v -- concrete values and images used by the refutation
   theorems about the pinned code, by the regression corpus of the checks
   (coq/Ser/Run.v op `witnesses') and by the non-vacuity examples.
   Definitions only. *)
From FendV Require Import Base.Prelude Ser.Codec.
Open Scope N_scope.

Definition q_int (n : N) : bigrat := mkRat SPos (Small n) (Small 1).
Definition c_int (n : N) : complex := mkC (RSimple (q_int n)) (RSimple (q_int 0)).
Definition num_int (n : N) : number :=
  mkNum [(c_int n, q_int 1)] [] true (BPlain 10) FAuto true.

(* g in `f = \x.\y.x+y; g = f 3` *)
Definition w_closure : value :=
  VFn (B"y") (EBop 0 (EIdent (B"x")) (EIdent (B"y")))
      (OSome (Scope (B"x") (ELit (VNum (num_int 3))) ONone ONone)).
Definition w_floor : value := VBuiltin (B"floor").

(* the image fend wrote for the history  f = \x.\y.x+y ; g = f 3  (hash-map
   order of one particular run) *)
Definition img_closure : bytes := [0;0;0;0;0;0;0;4;0;0;0;0;0;0;0;1;95;6;0;0;0;0;0;0;0;1;121;7;0;1;0;0;0;0;0;0;0;1;120;1;0;0;0;0;0;0;0;1;121;1;0;0;0;0;0;0;0;1;120;0;0;0;0;0;0;0;0;0;1;1;2;1;0;0;0;0;0;0;0;3;1;0;0;0;0;0;0;0;1;1;2;1;0;0;0;0;0;0;0;0;1;0;0;0;0;0;0;0;1;2;1;0;0;0;0;0;0;0;1;1;0;0;0;0;0;0;0;1;0;0;0;0;0;0;0;0;1;5;10;7;1;0;0;0;0;0;0;0;0;0;1;103;6;0;0;0;0;0;0;0;1;121;7;0;1;0;0;0;0;0;0;0;1;120;1;0;0;0;0;0;0;0;1;121;1;0;0;0;0;0;0;0;1;120;0;0;0;0;0;0;0;0;0;1;1;2;1;0;0;0;0;0;0;0;3;1;0;0;0;0;0;0;0;1;1;2;1;0;0;0;0;0;0;0;0;1;0;0;0;0;0;0;0;1;2;1;0;0;0;0;0;0;0;1;1;0;0;0;0;0;0;0;1;0;0;0;0;0;0;0;0;1;5;10;7;1;0;0;0;0;0;0;0;0;0;1;102;6;0;0;0;0;0;0;0;1;120;12;0;0;0;0;0;0;0;1;121;7;0;1;0;0;0;0;0;0;0;1;120;1;0;0;0;0;0;0;0;1;121;0;0;0;0;0;0;0;0;3;97;110;115;6;0;0;0;0;0;0;0;1;121;7;0;1;0;0;0;0;0;0;0;1;120;1;0;0;0;0;0;0;0;1;121;1;0;0;0;0;0;0;0;1;120;0;0;0;0;0;0;0;0;0;1;1;2;1;0;0;0;0;0;0;0;3;1;0;0;0;0;0;0;0;1;1;2;1;0;0;0;0;0;0;0;0;1;0;0;0;0;0;0;0;1;2;1;0;0;0;0;0;0;0;1;1;0;0;0;0;0;0;0;1;0;0;0;0;0;0;0;0;1;5;10;7;1;0;0].

(* one variable whose name has length field 2^63: Vec::<u8>::with_capacity
   panicked with `capacity overflow' *)
Definition img_panic : bytes := [0;0;0;0;0;0;0;1; 128;0;0;0;0;0;0;0].
(* ... 2^40: a 16-byte input made the reader ask for a terabyte *)
Definition img_alloc : bytes := [0;0;0;0;0;0;0;1; 0;0;1;0;0;0;0;0].

Definition num_with (re_num re_den : biguint) (b : base) : number :=
  mkNum [(mkC (RSimple (mkRat SPos re_num re_den)) (RSimple (q_int 0)), q_int 1)] [] true b FAuto true.
Definition bad_vars : list vars :=
  [ [(B"a", VNum (num_with (Small 5) (Small 1) (BPlain 0)))];      (* base 0: `base appears to be 0' panic *)
    [(B"a", VNum (num_with (Small 5) (Small 1) (BPlain 1)))];      (* base 1: un-polled infinite loop *)
    [(B"a", VNum (num_with (Small 5) (Small 1) (BPlain 200)))];    (* base 200: unwrap on None *)
    [(B"a", VNum (num_with (Large []) (Small 1) (BPlain 10)))];    (* empty limb vector: index out of bounds *)
    [(B"a", VNum (num_with (Small 5) (Small 0) (BPlain 10)))];     (* zero denominator *)
    [(B"f", VFn (B"x") (EIdent []) ONone)] ].                      (* empty identifier: unwrap on None *)

(* values inside every range the loader checks that fend itself never
   produces: calendar dates that do not exist, a distribution without outcomes,
   a number in non-canonical limb-vector form with leading zero limbs.  They
   are accepted (and evaluation tolerates them today: observed by the C14
   battery on every run, not proved) *)
Definition odd_vars : list vars :=
  [ [(B"a", VDate 2023 4 31)]; [(B"a", VDate 2023 2 30)]; [(B"a", VDate 2023 2 29)];
    [(B"a", VNum (mkNum [] [] true (BPlain 10) FAuto true))];
    [(B"a", VNum (num_with (Large [5; 0]) (Large [1; 0; 0]) (BPlain 10)))];
    (* {1+i, 2, 3, 4, 5}: legitimate, but printing a / a trips the sort in Dist::format
       (finding C14 dist_sort_not_total_order) *)
    [(B"a", VNum (mkNum ((mkC (RSimple (q_int 1)) (RSimple (q_int 1)), mkRat SPos (Small 1) (Small 5)) ::
                         map (fun k => (c_int k, mkRat SPos (Small 1) (Small 5))) [2; 3; 4; 5])
                        [] true (BPlain 10) FAuto true))] ].

(* byte strings the checks replay on every run: the images above, the
   non-well-formed maps as the writer would emit them, the two values that
   did not survive a reload *)
Definition witness_images : list bytes :=
  [img_closure; img_panic; img_alloc] ++ map ser_vars bad_vars ++
  [ser_vars [(B"g", w_closure)]; ser_vars [(B"f", w_floor)]] ++ map ser_vars odd_vars.
