(* Ser/CodecLoaded.v -- what ANY successful load guarantees of the loaded map
   (any configuration, input a list of bytes < 256): it is wf_codec and mentions
   only accepted function literals; hence it can be saved and loaded again. *)
From Coq Require Import Lia ZifyBool.
From FendV Require Import Base.Prelude Ser.Codec Ser.CodecRT Ser.CodecSafe.
Open Scope N_scope.
Arguments N.add : simpl never. Arguments N.sub : simpl never. Arguments N.mul : simpl never.
Arguments N.div : simpl never. Arguments N.modulo : simpl never.
Arguments N.eqb : simpl never. Arguments N.ltb : simpl never. Arguments N.leb : simpl never.
Arguments N.max : simpl never. Arguments N.min : simpl never.

Definition bytes_ok (bs : bytes) : Prop := Forall (fun b => b < 256) bs.
Definition postb {A} (P : A -> Prop) (m : M A) : Prop :=
  forall bs a r, bytes_ok bs -> run m bs = Ok (a, r) -> P a.

Lemma postb_ret : forall A (P : A -> Prop) a, P a -> postb P (ret a).
Proof. intros A P a H bs a' r _ E. rewrite run_ret in E. inversion E; subst; auto. Qed.
Lemma postb_fail : forall A (P : A -> Prop) e, postb P (@fail A e).
Proof. intros A P e bs a r _ E. rewrite run_fail in E. discriminate. Qed.
Lemma postb_bind : forall A R (Q : A -> Prop) (P : R -> Prop) (m : M A) (f : A -> M R),
  postb Q m -> pre m -> (forall a, Q a -> postb P (f a)) -> postb P (bindM m f).
Proof.
  intros A R Q P m f Hm Hp Hf bs b r Hb E. rewrite run_bind in E.
  destruct (run m bs) as [[a r1]|e|s] eqn:E1; try discriminate.
  pose proof (Hm _ _ _ Hb E1) as HQ.
  destruct (Hp _ _ _ E1) as [p ->]. apply Forall_app in Hb. destruct Hb as [_ Hb].
  exact (Hf a HQ r1 b r Hb E).
Qed.
Lemma postb_true : forall A (m : M A), postb (fun _ => True) m.
Proof. intros A m bs a r _ _. exact I. Qed.
Lemma postb_bind_any : forall A R (P : R -> Prop) (m : M A) (f : A -> M R),
  pre m -> (forall a, postb P (f a)) -> postb P (bindM m f).
Proof. intros. eapply postb_bind; [apply postb_true | auto | auto]. Qed.
Lemma post_postb : forall A (P : A -> Prop) (m : M A), post P m -> postb P m.
Proof. intros A P m H bs a r _ E. eapply H; eauto. Qed.

(* primitives *)
Lemma postb_u8 : postb (fun x => x < 256) de_u8.
Proof.
  intros bs a r Hb E. unfold run, de_u8 in E. destruct bs; cbn [fst] in E; [discriminate|].
  inversion E; subst. inversion Hb; auto.
Qed.

Lemma be_dec_bound : forall l acc, Forall (fun b => b < 256) l ->
  be_dec l acc < (acc + 1) * 256 ^ N.of_nat (length l).
Proof.
  induction l as [|b l IH]; intros acc H; cbn [be_dec length].
  - change (N.of_nat 0) with 0. rewrite N.pow_0_r. lia.
  - inversion H; subst. specialize (IH (acc * 256 + b) H3).
    rewrite Nat2N.inj_succ, N.pow_succ_r'.
    eapply N.lt_le_trans; [exact IH|].
    rewrite N.mul_assoc. apply N.mul_le_mono_r. lia.
Qed.

Lemma firstn_ok : forall n bs, bytes_ok bs -> bytes_ok (firstn n bs).
Proof.
  induction n as [|n IH]; intros bs H; [constructor|].
  destruct bs as [|b bs]; cbn [firstn]; [constructor|]. inversion H; subst. constructor; auto. apply IH; auto.
Qed.

Lemma postb_take_n : forall n, postb (fun l => bytes_ok l /\ length l = n) (take_n n).
Proof.
  intros n bs a r Hb E. unfold run, take_n in E. destruct (take_nat n bs) as [[p q]|] eqn:T; cbn [fst] in E; [|discriminate].
  inversion E; subst. apply take_nat_some in T. destruct T as [-> Hl]. split; auto.
  apply Forall_app in Hb. tauto.
Qed.

Lemma postb_u64 : postb (fun x => u64b x = true) de_u64.
Proof.
  unfold de_u64. eapply postb_bind; [apply postb_take_n | apply pre_take_n |].
  intros l [Hl Hn]. apply postb_ret. unfold u64b. apply N.ltb_lt.
  pose proof (be_dec_bound l 0 Hl) as Hbd. rewrite Hn, pow256_8 in Hbd. lia.
Qed.

Lemma postb_i32 : postb (fun y => (-2147483648 <= y < 2147483648)%Z) de_i32.
Proof.
  unfold de_i32. eapply postb_bind; [apply postb_take_n | apply pre_take_n |].
  intros l [Hl Hn]. apply postb_ret.
  pose proof (be_dec_bound l 0 Hl) as Hbd. rewrite Hn, pow256_4 in Hbd.
  destruct (be_dec l 0 <? 2147483648) eqn:E; lia.
Qed.

(* association-list facts *)
Lemma mem_map_insert : forall V x k (v : V) m,
  mem x (map fst (map_insert k v m)) = mem x (map fst m) || list_N_eqb x k.
Proof.
  induction m as [|[k' v'] m IH]; cbn [map_insert map fst mem].
  - rewrite orb_false_r. reflexivity.
  - destruct (list_N_eqb k k') eqn:E; cbn [map fst mem].
    + apply list_N_eqb_eq in E. subst k'. destruct (list_N_eqb x k); cbn [orb]; auto. rewrite orb_false_r. reflexivity.
    + rewrite IH. rewrite orb_assoc. reflexivity.
Qed.
Lemma list_N_eqb_sym : forall a b, list_N_eqb a b = list_N_eqb b a.
Proof.
  intros a b. destruct (list_N_eqb a b) eqn:E1; destruct (list_N_eqb b a) eqn:E2; auto.
  - apply list_N_eqb_eq in E1. subst. rewrite list_N_eqb_refl in E2. discriminate.
  - apply list_N_eqb_eq in E2. subst. rewrite list_N_eqb_refl in E1. discriminate.
Qed.
Lemma nodup_map_insert : forall V k (v : V) m, nodup_keys m = true -> nodup_keys (map_insert k v m) = true.
Proof.
  induction m as [|[k' v'] m IH]; cbn [map_insert nodup_keys]; intros H; auto.
  apply andb_prop in H. destruct H as [H1 H2].
  destruct (list_N_eqb k k') eqn:E; cbn [nodup_keys].
  - apply list_N_eqb_eq in E. subst k'. rewrite H1, H2. reflexivity.
  - rewrite IH by auto. rewrite mem_map_insert. apply negb_true_iff in H1. rewrite H1.
    rewrite list_N_eqb_sym, E. reflexivity.
Qed.
Lemma nodup_insert_fold : forall V (l acc : list (bytes * V)), nodup_keys acc = true ->
  nodup_keys (fold_left (fun m kv => map_insert (fst kv) (snd kv) m) l acc) = true.
Proof. induction l as [|[k v] l IH]; cbn [fold_left]; intros acc H; auto. apply IH. apply nodup_map_insert; auto. Qed.
Lemma length_map_insert : forall V k (v : V) m, (length (map_insert k v m) <= S (length m))%nat.
Proof.
  induction m as [|[k' v'] m IH]; cbn [map_insert length]; auto.
  destruct (list_N_eqb k k'); cbn [length]; lia.
Qed.
Lemma length_insert_fold : forall V (l acc : list (bytes * V)),
  (length (fold_left (fun m kv => map_insert (fst kv) (snd kv) m) l acc) <= length acc + length l)%nat.
Proof.
  induction l as [|[k v] l IH]; cbn [fold_left length]; intros acc; [lia|].
  specialize (IH (map_insert k v acc)). cbn [fst snd]. pose proof (length_map_insert V k v acc). lia.
Qed.

Lemma postb_list_go : forall A (P : A -> bool) (elem : M A), postb (fun x => P x = true) elem -> pre elem ->
  forall fuel n, postb (fun l => forallb P l = true /\ len_N l = n) (de_list_go elem fuel n).
Proof.
  intros A P elem He Hp. induction fuel as [|f IH]; intros n; cbn [de_list_go]; destruct (n =? 0) eqn:E0.
  - apply postb_ret. apply N.eqb_eq in E0. subst. split; reflexivity.
  - apply postb_fail.
  - apply postb_ret. apply N.eqb_eq in E0. subst. split; reflexivity.
  - eapply postb_bind; [apply He | apply Hp |]. intros x Hx.
    eapply postb_bind; [apply (IH (n - 1)) | apply pre_list_go; auto |]. intros xs [H1 H2].
    apply postb_ret. cbn [forallb]. rewrite Hx, H1. split; [reflexivity|].
    apply N.eqb_neq in E0. unfold len_N in *. cbn [length]. lia.
Qed.
Lemma postb_list : forall A (P : A -> bool) (elem : M A) n, postb (fun x => P x = true) elem -> pre elem ->
  postb (fun l => forallb P l = true /\ len_N l = n) (de_list elem n).
Proof.
  intros A P elem n He Hp bs a r Hb E. unfold de_list in E. change (run (de_list_go elem (list_fuel bs n) n) bs = Ok (a, r)) in E.
  eapply postb_list_go; eauto.
Qed.

Section Loaded.
Variable c : cfg.
Variable asn : list bytes.
Let sz := c_sz c.
Hypothesis Hsub : forall s, mem s (c_from c) = true -> mem s asn = true.

Lemma postb_alloc : forall n szz, postb (fun _ => capn (c_cap c) n * szz <= isize_max) (alloc c n szz).
Proof.
  intros n szz bs a r _ E. unfold run, alloc in E.
  destruct (isize_max <? capn (c_cap c) n * szz) eqn:L; cbn [fst] in E; [discriminate|]. apply N.ltb_ge in L. exact L.
Qed.
Lemma fitn_intro : forall szz n, u64b n = true -> capn (c_cap c) n * szz <= isize_max -> fitn (c_cap c) szz n = true.
Proof. intros szz n H1 H2. unfold fitn. rewrite H1. cbn [andb]. apply N.leb_le. exact H2. Qed.
Lemma fitn_le : forall cap szz n m, m <= n -> fitn cap szz n = true -> fitn cap szz m = true.
Proof.
  intros cap szz n m Hle H. unfold fitn, u64b in *. apply andb_prop in H. destruct H as [H1 H2].
  apply N.ltb_lt in H1. apply N.leb_le in H2.
  assert (capn cap m <= capn cap n) by (destruct cap; cbn [capn]; lia).
  assert (capn cap m * szz <= capn cap n * szz) by (apply N.mul_le_mono_r; auto).
  apply andb_true_intro. split; [apply N.ltb_lt | apply N.leb_le]; lia.
Qed.

Lemma postb_str : postb (fun s => strb (c_cap c) s = true) (de_str c).
Proof.
  unfold de_str, de_usize. eapply postb_bind; [apply postb_u64 | auto with pre |]. intros n Hu; cbv beta in Hu.
  eapply postb_bind; [apply postb_alloc | apply pre_alloc |]. intros u Hn; cbv beta in Hn.
  intros bs a r _ E. unfold run in E. destruct (split_n bs n) as [[s0 q]|] eqn:S0; cbn [fst] in E; [|discriminate].
  destruct (utf8_valid s0) eqn:U; cbn [fst] in E; [|discriminate].
  inversion E; subst. apply split_n_some in S0. destruct S0 as [_ Hl].
  unfold strb. rewrite U. cbn [andb]. unfold fits. rewrite Hl. apply fitn_intro; auto.
Qed.
Lemma postb_ident : postb (fun s => strb (c_cap c) s = true) (de_ident c).
Proof.
  unfold de_ident. eapply postb_bind; [apply postb_str | auto with pre |]. intros s Hs.
  destruct (c_validate c && negb (identb s)); [apply postb_fail | apply postb_ret; exact Hs].
Qed.

Lemma postb_biguint : postb (fun b => wfc_biguint (c_cap c) b = true) (de_biguint c).
Proof.
  unfold de_biguint, de_usize. apply postb_bind_any; [auto with pre|]. intros k.
  destruct (k =? 1). { eapply postb_bind; [apply postb_u64 | auto with pre |]. intros x Hx. apply postb_ret. exact Hx. }
  destruct (k =? 2); [|apply postb_fail].
  eapply postb_bind; [apply postb_u64 | auto with pre |]. intros n Hu; cbv beta in Hu.
  eapply postb_bind; [apply postb_alloc | apply pre_alloc |]. intros u Hn; cbv beta in Hn.
  eapply postb_bind; [apply (postb_list _ u64b); [apply postb_u64 | auto with pre] | auto with pre |].
  intros v [H1 H2]. destruct (c_validate c && (len_N v =? 0)); [apply postb_fail|].
  apply postb_ret. cbn [wfc_biguint]. rewrite H1. cbn [andb]. unfold fits. rewrite H2. apply fitn_intro; auto.
Qed.
Lemma postb_bigrat : postb (fun q => wfc_bigrat (c_cap c) q = true) (de_bigrat c).
Proof.
  unfold de_bigrat. apply postb_bind_any; [auto with pre|]. intros s.
  eapply postb_bind; [apply postb_biguint | auto with pre |]. intros n Hn.
  eapply postb_bind; [apply postb_biguint | auto with pre |]. intros d Hd.
  destruct (c_validate c && biguint_is_zero d); [apply postb_fail|].
  apply postb_ret. unfold wfc_bigrat. cbn [r_num r_den]. rewrite Hn, Hd. reflexivity.
Qed.
Lemma postb_real : postb (fun r => wfc_real (c_cap c) r = true) (de_real c).
Proof.
  unfold de_real. apply postb_bind_any; [auto with pre|]. intros k.
  destruct (k =? 1). { eapply postb_bind; [apply postb_bigrat | auto with pre |]. intros q Hq. apply postb_ret. exact Hq. }
  destruct (k =? 2); [|apply postb_fail].
  eapply postb_bind; [apply postb_bigrat | auto with pre |]. intros q Hq. apply postb_ret. exact Hq.
Qed.
Lemma postb_complex : postb (fun z => wfc_complex (c_cap c) z = true) (de_complex c).
Proof.
  unfold de_complex. eapply postb_bind; [apply postb_real | auto with pre |]. intros a Ha.
  eapply postb_bind; [apply postb_real | auto with pre |]. intros b Hb. apply postb_ret.
  unfold wfc_complex. cbn [c_re c_im]. rewrite Ha, Hb. reflexivity.
Qed.
Lemma postb_part : postb (fun p => wfc_part (c_cap c) p = true) (de_part c).
Proof.
  unfold de_part. eapply postb_bind; [apply postb_complex | auto with pre |]. intros a Ha.
  eapply postb_bind; [apply postb_bigrat | auto with pre |]. intros b Hb. apply postb_ret.
  unfold wfc_part. cbn [fst snd]. rewrite Ha, Hb. reflexivity.
Qed.
Lemma postb_dist : postb (fun d => forallb (wfc_part (c_cap c)) d = true /\ fits (c_cap c) (sz_part sz) d = true) (de_dist c).
Proof.
  unfold de_dist, de_usize. eapply postb_bind; [apply postb_u64 | auto with pre |]. intros n Hu; cbv beta in Hu.
  eapply postb_bind; [apply postb_alloc | apply pre_alloc |]. intros u Hn; cbv beta in Hn.
  intros bs a r Hb E. eapply (postb_list _ (wfc_part (c_cap c))) in E; eauto using postb_part with pre.
  destruct E as [E1 E2]. split; auto. unfold fits. rewrite E2. apply fitn_intro; auto.
Qed.
Lemma postb_bu : postb (fun p => wfc_bu (c_cap c) p = true) (de_bu c).
Proof.
  unfold de_bu. eapply postb_bind; [apply postb_str | auto with pre |]. intros k Hk.
  eapply postb_bind; [apply postb_complex | auto with pre |]. intros v Hv. apply postb_ret.
  unfold wfc_bu. cbn [fst snd]. rewrite Hk, Hv. reflexivity.
Qed.
Lemma postb_named_unit : postb (fun u => wfc_named_unit (c_cap c) sz u = true) (de_named_unit c).
Proof.
  unfold de_named_unit, de_usize.
  eapply postb_bind; [apply postb_str | auto with pre |]. intros p Hp.
  eapply postb_bind; [apply postb_str | auto with pre |]. intros s Hs.
  eapply postb_bind; [apply postb_str | auto with pre |]. intros pl Hpl.
  apply postb_bind_any; [auto with pre|]. intros a.
  eapply postb_bind; [apply postb_u64 | auto with pre |]. intros n Hu; cbv beta in Hu.
  eapply postb_bind; [apply postb_alloc | apply pre_alloc |]. intros u Hn; cbv beta in Hn.
  eapply postb_bind; [apply (postb_list _ (wfc_bu (c_cap c))); [apply postb_bu | auto with pre] | auto with pre |]. intros l [Hl Hlen].
  eapply postb_bind; [apply postb_complex | auto with pre |]. intros sc Hsc. apply postb_ret.
  unfold wfc_named_unit. cbn [nu_prefix nu_singular nu_plural nu_base nu_scale]. rewrite Hp, Hs, Hpl, Hsc. cbn [andb].
  unfold insert_all. rewrite forallb_insert_fold by auto. rewrite nodup_insert_fold by reflexivity.
  repeat rewrite andb_true_r; cbn [andb]; repeat rewrite andb_true_r.
  unfold fits. apply (fitn_le _ _ n); [|apply fitn_intro; auto].
  pose proof (length_insert_fold _ l []). cbn [length] in *. unfold len_N in *. lia.
Qed.
Lemma postb_unit_exp : postb (fun u => wfc_unit_exp (c_cap c) sz u = true) (de_unit_exp c).
Proof.
  unfold de_unit_exp. eapply postb_bind; [apply postb_named_unit | auto with pre |]. intros u Hu.
  eapply postb_bind; [apply postb_complex | auto with pre |]. intros e He. apply postb_ret.
  unfold wfc_unit_exp. cbn [ue_unit ue_exp]. rewrite Hu, He. reflexivity.
Qed.
Lemma postb_unit : postb (fun u => forallb (wfc_unit_exp (c_cap c) sz) u = true /\ fits (c_cap c) (sz_uexp sz) u = true) (de_unit c).
Proof.
  unfold de_unit, de_usize. eapply postb_bind; [apply postb_u64 | auto with pre |]. intros n Hu; cbv beta in Hu.
  eapply postb_bind; [apply postb_alloc | apply pre_alloc |]. intros u Hn; cbv beta in Hn.
  intros bs a r Hb E. eapply (postb_list _ (wfc_unit_exp (c_cap c) sz)) in E; eauto using postb_unit_exp with pre.
  destruct E as [E1 E2]. split; auto. unfold fits. rewrite E2. apply fitn_intro; auto.
Qed.
Lemma postb_base : postb (fun b => wfc_base b = true) (de_base c).
Proof.
  unfold de_base. apply postb_bind_any; [auto with pre|]. intros k.
  repeat match goal with |- postb _ (if ?b then _ else _) => destruct b end;
    try apply postb_fail; try (apply postb_ret; reflexivity);
    (eapply postb_bind; [apply postb_u8 | auto with pre |]); intros x Hx;
    (match goal with |- postb _ (if ?b then _ else _) => destruct b end); try apply postb_fail;
    apply postb_ret; cbn [wfc_base]; unfold u8b; apply N.ltb_lt; exact Hx.
Qed.
Lemma postb_fstyle : postb (fun f => wfc_fstyle f = true) de_fstyle.
Proof.
  unfold de_fstyle, de_usize. apply postb_bind_any; [auto with pre|]. intros k.
  repeat match goal with |- postb _ (if ?b then _ else _) => destruct b end;
    try apply postb_fail; try (apply postb_ret; reflexivity);
    (eapply postb_bind; [apply postb_u64 | auto with pre |]); intros x Hx; apply postb_ret; exact Hx.
Qed.
Lemma postb_number : postb (fun n => wfc_number (c_cap c) sz n = true) (de_number c).
Proof.
  unfold de_number. eapply postb_bind; [apply postb_dist | auto with pre |]. intros v [Hv1 Hv2].
  eapply postb_bind; [apply postb_unit | auto with pre |]. intros u [Hu1 Hu2].
  apply postb_bind_any; [auto with pre|]. intros e.
  eapply postb_bind; [apply postb_base | auto with pre |]. intros b Hb.
  eapply postb_bind; [apply postb_fstyle | auto with pre |]. intros f Hf.
  apply postb_bind_any; [auto with pre|]. intros s. apply postb_ret.
  unfold wfc_number. cbn [n_value n_unit n_base n_format]. rewrite Hv1, Hv2, Hu1, Hu2, Hb, Hf. reflexivity.
Qed.
Lemma postb_month : postb (fun m => monthb m = true) de_month.
Proof.
  unfold de_month. apply postb_bind_any; [auto with pre|]. intros m. unfold monthb.
  destruct ((1 <=? m) && (m <=? 12)) eqn:E; [apply postb_ret; exact E | apply postb_fail].
Qed.
Lemma postb_dow : postb (fun d => (d <=? 6) = true) de_dow.
Proof.
  unfold de_dow. apply postb_bind_any; [auto with pre|]. intros d.
  destruct (d <=? 6) eqn:E; [apply postb_ret; exact E | apply postb_fail].
Qed.
Lemma postb_day : postb (fun d => dayb d = true) de_day.
Proof.
  unfold de_day. apply postb_bind_any; [auto with pre|]. intros d.
  destruct ((d =? 0) || (32 <=? d)) eqn:E; [apply postb_fail|]. apply postb_ret. unfold dayb. lia.
Qed.
Lemma postb_year : postb (fun y => yearb y = true) de_year.
Proof.
  unfold de_year. eapply postb_bind; [apply postb_i32 | auto with pre |]. intros y Hy.
  cbv beta in Hy. destruct (y =? 0)%Z eqn:E; [apply postb_fail|]. apply postb_ret. unfold yearb. lia.
Qed.
Lemma postb_bop : postb (fun b => (b <=? 13) = true) de_bop.
Proof.
  unfold de_bop. apply postb_bind_any; [auto with pre|]. intros b.
  destruct (b <=? 13) eqn:E; [apply postb_ret; exact E | apply postb_fail].
Qed.

(* the tree: wf_codec and only accepted function literals *)
Definition Lv (v : value) : Prop := wfc_value asn (c_cap c) sz v = true /\ names_ok_value (c_from c) v = true.
Definition Le (e : expr) : Prop := wfc_expr asn (c_cap c) sz e = true /\ names_ok_expr (c_from c) e = true.
Definition Ls (s : scope) : Prop := wfc_scope asn (c_cap c) sz s = true /\ names_ok_scope (c_from c) s = true.
Definition Lo (o : oscope) : Prop := wfc_oscope asn (c_cap c) sz o = true /\ names_ok_oscope (c_from c) o = true.
Definition Li (n : N) (it : items) : Prop :=
  wfc_items asn (c_cap c) sz it = true /\ names_ok_items (c_from c) it = true /\ items_len it = n.

Lemma postb_opt_scope : forall (flag : M bool) (sc : M scope), pre flag -> pre sc ->
  postb Ls sc -> postb Lo (opt_scope flag sc).
Proof.
  intros flag sc Pf Ps H. unfold opt_scope. apply postb_bind_any; auto. intros b. destruct b.
  - eapply postb_bind; [apply H | auto |]. intros s Hs. apply postb_ret. exact Hs.
  - apply postb_ret. split; reflexivity.
Qed.

Ltac fin_ret := apply postb_ret; unfold Lv, Le in *; cbv beta in *;
  cbn [wfc_value wfc_expr names_ok_value names_ok_expr];
  repeat match goal with
  | H : _ /\ _ |- _ => destruct H
  end;
  repeat match goal with H : _ = true |- _ => rewrite H; clear H end; split; reflexivity.

Lemma postb_value_body : forall re rs ri tag,
  postb Le re -> pre re -> postb Ls rs -> pre rs -> (forall n, postb (Li n) (ri n)) -> (forall n, pre (ri n)) ->
  postb Lv (de_value_body c re rs ri tag).
Proof.
  intros re rs ri tag He Pe Hs Ps Hi Pi. unfold de_value_body, de_usize.
  repeat match goal with |- postb _ (if ?b then _ else _) => destruct b end; try apply postb_fail;
    try (apply postb_ret; split; reflexivity).
  - eapply postb_bind; [apply postb_number | auto with pre |]. intros n Hn. apply postb_ret. split; [exact Hn | reflexivity].
  - eapply postb_bind; [apply postb_str | auto with pre |]. intros s Hs0.
    destruct (mem s (c_from c)) eqn:E; [|apply postb_fail]. apply postb_ret. split; cbn [wfc_value names_ok_value]; auto.
    rewrite (Hsub s E), Hs0. reflexivity.
  - eapply postb_bind; [apply postb_fstyle | auto with pre |]. intros x Hx. apply postb_ret. split; [exact Hx | reflexivity].
  - eapply postb_bind; [apply postb_base | auto with pre |]. intros b Hb. apply postb_ret. split; [exact Hb | reflexivity].
  - eapply postb_bind; [apply postb_ident | auto with pre |]. intros p Hp.
    eapply postb_bind; [apply He | auto |]. intros e [H1 H2].
    eapply postb_bind; [apply postb_opt_scope; auto with pre | auto with pre |]. intros sc [H3 H4].
    apply postb_ret. split; cbn [wfc_value names_ok_value]; rewrite ?Hp, ?H1, ?H2, ?H3, ?H4; reflexivity.
  - eapply postb_bind; [apply postb_u64 | auto with pre |]. intros n Hu; cbv beta in Hu.
    eapply postb_bind; [apply postb_alloc | apply pre_alloc |]. intros u Hn; cbv beta in Hn.
    eapply postb_bind; [apply Hi | auto |]. intros it (H1 & H2 & H3).
    apply postb_ret. split; cbn [wfc_value names_ok_value]; auto. rewrite H1, H3. cbn [andb]. apply fitn_intro; auto.
  - eapply postb_bind; [apply postb_str | auto with pre |]. intros s Hs0. apply postb_ret. split; [exact Hs0 | reflexivity].
  - apply postb_bind_any; [auto with pre|]. intros b. apply postb_ret. split; reflexivity.
  - eapply postb_bind; [apply postb_month | auto with pre |]. intros m Hm. apply postb_ret. split; [exact Hm | reflexivity].
  - eapply postb_bind; [apply postb_dow | auto with pre |]. intros d Hd. apply postb_ret. split; [exact Hd | reflexivity].
  - eapply postb_bind; [apply postb_year | auto with pre |]. intros y Hy.
    eapply postb_bind; [apply postb_month | auto with pre |]. intros m Hm.
    eapply postb_bind; [apply postb_day | auto with pre |]. intros d Hd.
    apply postb_ret. split; cbn [wfc_value names_ok_value]; auto. rewrite Hy, Hm, Hd. reflexivity.
Qed.

Lemma postb_expr_body : forall rv re tag, postb Lv rv -> pre rv -> postb Le re -> pre re ->
  postb Le (de_expr_body c rv re tag).
Proof.
  intros rv re tag Hv Pv He Pe. unfold de_expr_body.
  repeat match goal with |- postb _ (if ?b then _ else _) => destruct b end; try apply postb_fail;
  repeat first
   [ eapply postb_bind; [apply He | assumption |]; intros ? ?
   | eapply postb_bind; [apply Hv | assumption |]; intros ? ?
   | eapply postb_bind; [apply postb_ident | auto with pre |]; intros ? ?
   | eapply postb_bind; [apply postb_bop | auto with pre |]; intros ? ?
   | apply postb_bind_any; [auto with pre|]; intro
   | fin_ret ].
Qed.
Lemma postb_scope_body : forall re rs id, strb (c_cap c) id = true -> postb Le re -> pre re -> postb Ls rs -> pre rs ->
  postb Ls (de_scope_body c re rs id).
Proof.
  intros re rs id H0 He Pe Hs Ps. unfold de_scope_body.
  eapply postb_bind; [apply He | auto |]. intros e [H1 H2].
  eapply postb_bind; [apply postb_opt_scope; auto with pre | auto with pre |]. intros sc [H3 H4].
  eapply postb_bind; [apply postb_opt_scope; auto with pre | auto with pre |]. intros inner [H5 H6].
  apply postb_ret. split; cbn [wfc_scope names_ok_scope]; rewrite ?H0, ?H1, ?H2, ?H3, ?H4, ?H5, ?H6; reflexivity.
Qed.
Lemma postb_items_body : forall n rv ri k, strb (c_cap c) k = true -> postb Lv rv -> pre rv -> postb (Li n) ri -> pre ri ->
  postb (Li (1 + n)) (de_items_body rv ri k).
Proof.
  intros n rv ri k H0 Hv Pv Hi Pi. unfold de_items_body.
  eapply postb_bind; [apply Hv | auto |]. intros v [H1 H2].
  eapply postb_bind; [apply Hi | auto |]. intros r (H3 & H4 & H5).
  apply postb_ret. repeat split; cbn [wfc_items names_ok_items items_len]; rewrite ?H0, ?H1, ?H2, ?H3, ?H4, ?H5; reflexivity.
Qed.

Lemma postb_tree : forall fuel,
  postb Lv (de_value c fuel) /\ postb Le (de_expr c fuel) /\ postb Ls (de_scope c fuel) /\
  (forall n, postb (Li n) (de_items c fuel n)).
Proof.
  induction fuel as [|f (IHv & IHe & IHs & IHi)].
  - split; [|split; [|split]]; try intros n; cbn [de_value de_expr de_scope de_items];
      try (apply postb_bind_any; [auto with pre|]; intro; apply postb_fail).
    destruct (n =? 0) eqn:E.
    + apply postb_ret. apply N.eqb_eq in E. subst. split; [|split]; reflexivity.
    + apply postb_bind_any; [auto with pre|]. intro. apply postb_fail.
  - destruct (spre_tree c f) as (Pv & Pe & Ps & Pi).
    split; [|split; [|split]]; try intros n; rewrite ?de_value_S, ?de_expr_S, ?de_scope_S, ?de_items_S.
    + apply postb_bind_any; [auto with pre|]. intros. apply postb_value_body; auto using spre_pre.
    + apply postb_bind_any; [auto with pre|]. intros. apply postb_expr_body; auto using spre_pre.
    + eapply postb_bind; [apply postb_ident | auto with pre |]. intros id Hid. apply postb_scope_body; auto using spre_pre.
    + destruct (n =? 0) eqn:E.
      { apply postb_ret. apply N.eqb_eq in E. subst. split; [|split]; reflexivity. }
      eapply postb_bind; [apply postb_str | auto with pre |]. intros k Hk.
      replace n with (1 + (n - 1)) at 1 by (apply N.eqb_neq in E; lia).
      apply postb_items_body; auto using spre_pre.
Qed.

Definition Lm (bound : N) (m : vars) : Prop :=
  forallb (wfc_entry asn (c_cap c) sz) m = true /\ forallb (fun kv => names_ok_value (c_from c) (snd kv)) m = true /\
  nodup_keys m = true /\ len_N m <= bound.

Lemma postb_vars_go : forall fuel n acc k0, Lm k0 acc -> postb (Lm (k0 + n)) (de_vars_go c fuel n acc).
Proof.
  induction fuel as [|f IH]; intros n acc k0 Ha.
  - cbn [de_vars_go]. destruct (n =? 0) eqn:E.
    + apply postb_ret. destruct Ha as (A1 & A2 & A3 & A4). repeat split; auto. lia.
    + apply postb_bind_any; [auto with pre|]. intro. apply postb_fail.
  - rewrite de_vars_go_S. destruct (n =? 0) eqn:E.
    + apply postb_ret. destruct Ha as (A1 & A2 & A3 & A4). repeat split; auto. lia.
    + eapply postb_bind; [apply postb_str | auto with pre |]. intros k Hk.
      destruct (postb_tree f) as [Hv _]. destruct (spre_tree c f) as [Pv _].
      eapply postb_bind; [apply Hv | auto using spre_pre |]. intros v [H1 H2].
      replace (k0 + n) with ((k0 + 1) + (n - 1)) by (apply N.eqb_neq in E; lia).
      apply IH. destruct Ha as (A1 & A2 & A3 & A4). repeat split.
      * apply forallb_map_insert; auto. unfold wfc_entry. cbn [fst snd]. rewrite Hk, H1. reflexivity.
      * apply (forallb_map_insert _ (fun kv => names_ok_value (c_from c) (snd kv))); auto.
      * apply nodup_map_insert; auto.
      * pose proof (length_map_insert _ k v acc). unfold len_N in *. lia.
Qed.

Theorem loaded_wfc : forall bs m r, bytes_ok bs -> run (de_vars c) bs = Ok (m, r) ->
  wfc_vars asn (c_cap c) sz m = true /\ forallb (fun kv => names_ok_value (c_from c) (snd kv)) m = true.
Proof.
  intros bs m r Hb E. unfold de_vars in E.
  change (run (rd n <- de_usize; rd _ <- alloc c n (sz_var (c_sz c)); de_vars_go c (length bs) n []) bs = Ok (m, r)) in E.
  assert (P : postb (fun m => wfc_vars asn (c_cap c) sz m = true /\ forallb (fun kv => names_ok_value (c_from c) (snd kv)) m = true)
                    (rd n <- de_usize; rd _ <- alloc c n (sz_var (c_sz c)); de_vars_go c (length bs) n [])).
  { unfold de_usize. eapply postb_bind; [apply postb_u64 | auto with pre |]. intros n Hu; cbv beta in Hu.
    eapply postb_bind; [apply postb_alloc | apply pre_alloc |]. intros u Hn; cbv beta in Hn.
    intros bs' m' r' Hb' E'.
    assert (L0 : Lm 0 []) by (unfold Lm; repeat split; try reflexivity; cbn; lia).
    pose proof (postb_vars_go (length bs) n [] 0 L0 bs' m' r' Hb' E') as (A1 & A2 & A3 & A4). split; auto. unfold wfc_vars. rewrite A1, A3. rewrite andb_true_r. cbn [andb].
    unfold fits. apply (fitn_le _ _ n); [lia | apply fitn_intro; auto]. }
  eapply P; eauto.
Qed.
End Loaded.
