(* Dispatcher for the Ser area (C12, C14): executable entry points used by the
   correspondence checks gen/c12.py and gen/c14.py. *)
From FendV Require Import Base.Prelude Ser.Generated.BuiltinNames Ser.Codec.
Open Scope N_scope.

Definition as_names : list bytes := map snd as_str_table.
Definition from_names : list bytes := map fst from_str_table.

(* configuration on the wire: (inverted from-mode cap validate (five sizes))
   from-mode 0 = the literals of try_from_str of the tree being checked,
             1 = every literal as_str can write (the repaired reader);
   cap -1 = uncapped *)
Definition as_cfg (s : sx) : option cfg :=
  match s with
  | XL [XA inv; XA fm; XA cap; XA val; XL szs] =>
    match as_Ns szs with
    | Some [s1; s2; s3; s4; s5] =>
      Some (mkCfg (negb (inv =? 0)%Z)
                  (if (fm =? 0)%Z then from_names else as_names)
                  (if (cap <? 0)%Z then None else Some (Z.to_N cap))
                  (negb (val =? 0)%Z)
                  (mkSizes s1 s2 s3 s4 s5))
    | _ => None
    end
  | _ => None
  end.

Definition sx_out {T} (f : T -> list N -> list sx) (r : res (T * list N) * N) : sx :=
  match r with
  | (Ok (a, rest), k) => XL (XS (B"ok") :: f a rest ++ [sx_N k])
  | (Err e, k) => XL [XS (B"err"); sx_N (err_code e); sx_N k]
  | (Panic s, k) => XL [XS (B"panic"); sx_N s; sx_N k]
  end.

Definition sx_flags (sz : sizes) (v : value) : list sx :=
  [sx_bool (wfc_value as_names sz v); sx_bool (wfs_value v); sx_bool (has_scope_value v);
   sx_bool (names_ok_value from_names v); sx_N (size_value v)].

Definition sx_entry (sz : sizes) (kv : bytes * value) : sx :=
  XL (XS (fst kv) :: XS (ser_entry kv) :: sx_flags sz (snd kv)).

Definition run_ser : dispatcher := fun op args =>
  if opeq op "entries" then
    match args with
    | [c; XS img] =>
      match as_cfg c with
      | Some c => Some (sx_out (fun (m : vars) rest => [XL (map (sx_entry (c_sz c)) m); sx_N (len_N rest)]) (de_vars c img))
      | None => Some sx_bad
      end
    | _ => Some sx_bad
    end
  else if opeq op "value" then
    match args with
    | [c; XS img] =>
      match as_cfg c with
      | Some c => Some (sx_out (fun (v : value) rest => [XS (ser_value v); sx_N (len_N rest); XL (sx_flags (c_sz c) v)]) (de_value_top c img))
      | None => Some sx_bad
      end
    | _ => Some sx_bad
    end
  else if opeq op "names" then
    Some (XL [XL (map XS as_names); XL (map XS from_names);
              XL (map XS (filter (fun s => negb (mem s from_names)) as_names))])
  else if opeq op "utf8" then
    match args with
    | [XS s] => Some (sx_bool (utf8_valid s))
    | _ => Some sx_bad
    end
  else None.

Definition run_ser_line := run_with run_ser.
