(* Dispatcher for the Ser area (C12, C14): executable entry points used by the
   correspondence checks gen/c12.py and gen/c14.py. *)
From FendV Require Import Base.Prelude Ser.Generated.BuiltinNames Ser.Codec Ser.Cfg Ser.Witness Ser.Variants.
Open Scope N_scope.


(* configuration on the wire: (inverted from-mode cap validate (five sizes))
   from-mode 0 = the literals of try_from_str of the tree being checked,
             1 = every literal as_str can write (the repaired reader);
   cap -1 = uncapped *)
Definition as_cfg (s : sx) : option cfg :=
  match s with
  | XL [XA inv; XA fm; XA cap; XA val; XL szs] =>
    match as_Ns szs with
    | Some [s1; s2; s3; s4; s5] =>
      Some (mkCfg (negb (inv =? 0)%Z)
                  (if (fm =? 0)%Z then from_names else as_names)
                  (if (cap <? 0)%Z then None else Some (Z.to_N cap))
                  (negb (val =? 0)%Z)
                  (mkSizes s1 s2 s3 s4 s5))
    | _ => None
    end
  | _ => None
  end.

(* an image arrives as one or more string atoms (the check splits long images
   into chunks: Prelude.read_str reverses its accumulator with the quadratic
   List.rev) *)
Fixpoint as_chunks (l : list sx) : option bytes :=
  match l with
  | [] => Some []
  | XS b :: r => match as_chunks r with Some t => Some (b ++ t) | None => None end
  | _ => None
  end.

Definition sx_out {T} (f : T -> list N -> list sx) (r : res (T * list N) * N) : sx :=
  match r with
  | (Ok (a, rest), k) => XL (XS (B"ok") :: f a rest ++ [sx_N k])
  | (Err e, k) => XL [XS (B"err"); sx_N (err_code e); sx_N k]
  | (Panic s, k) => XL [XS (B"panic"); sx_N s; sx_N k]
  end.


(* canonical form up to hash-map order: NamedUnit::base_units sorted by key
   (the variables map itself is compared as a multiset by the check) *)
Fixpoint bytes_leb (a b : bytes) : bool :=
  match a, b with
  | [], _ => true
  | _ :: _, [] => false
  | x :: a', y :: b' => if x <? y then true else if y <? x then false else bytes_leb a' b'
  end.
Fixpoint insert_sorted {V} (kv : bytes * V) (l : list (bytes * V)) : list (bytes * V) :=
  match l with
  | [] => [kv]
  | h :: t => if bytes_leb (fst kv) (fst h) then kv :: l else h :: insert_sorted kv t
  end.
Definition sort_keys {V} (l : list (bytes * V)) : list (bytes * V) := fold_right insert_sorted [] l.
Definition canon_named_unit (u : named_unit) : named_unit :=
  mkNU (nu_prefix u) (nu_singular u) (nu_plural u) (nu_alias u) (sort_keys (nu_base u)) (nu_scale u).
Definition canon_number (n : number) : number :=
  mkNum (n_value n) (map (fun ue => mkUE (canon_named_unit (ue_unit ue)) (ue_exp ue)) (n_unit n))
        (n_exact n) (n_base n) (n_format n) (n_simpl n).
Fixpoint canon_value (v : value) : value :=
  match v with
  | VNum n => VNum (canon_number n)
  | VFn p e sc => VFn p (canon_expr e) (canon_oscope sc)
  | VObject it => VObject (canon_items it)
  | _ => v
  end
with canon_expr (e : expr) : expr :=
  match e with
  | ELit v => ELit (canon_value v)
  | EIdent s => EIdent s
  | EParens a => EParens (canon_expr a)
  | EUMinus a => EUMinus (canon_expr a)
  | EUPlus a => EUPlus (canon_expr a)
  | EUDiv a => EUDiv (canon_expr a)
  | EFact a => EFact (canon_expr a)
  | EBop op a b => EBop op (canon_expr a) (canon_expr b)
  | EApply a b => EApply (canon_expr a) (canon_expr b)
  | EApplyFn a b => EApplyFn (canon_expr a) (canon_expr b)
  | EApplyMul a b => EApplyMul (canon_expr a) (canon_expr b)
  | EAs a b => EAs (canon_expr a) (canon_expr b)
  | EFn s a => EFn s (canon_expr a)
  | EOf s a => EOf s (canon_expr a)
  | EAssign s a => EAssign s (canon_expr a)
  | EStatements a b => EStatements (canon_expr a) (canon_expr b)
  | EEquality q a b => EEquality q (canon_expr a) (canon_expr b)
  end
with canon_scope (s : scope) : scope :=
  match s with Scope id e sc inner => Scope id (canon_expr e) (canon_oscope sc) (canon_oscope inner) end
with canon_oscope (o : oscope) : oscope :=
  match o with ONone => ONone | OSome s => OSome (canon_scope s) end
with canon_items (it : items) : items :=
  match it with INil => INil | ICons k v r => ICons k (canon_value v) (canon_items r) end.

Definition sx_flags (c : cfg) (v : value) : list sx :=
  [sx_bool (wfc_value as_names (c_cap c) (c_sz c) v); sx_bool (wfs_value v); sx_bool (has_scope_value v);
   sx_bool (names_ok_value from_names v); sx_N (size_value v);
   (* every literal is accepted or is one of the five listed ones *)
   sx_bool (names_ok_value (from_names ++ known_missing_names) v);
   sx_N (value_tag v)].

Definition sx_entry (c : cfg) (kv : bytes * value) : sx :=
  XL (XS (fst kv) :: XS (ser_entry kv) :: sx_flags c (snd kv) ++ [XS (ser_entry (fst kv, canon_value (snd kv)))]).


(* readable dump of a value tree (debugging aid for replays) *)
Definition sx_biguint (b : biguint) : sx :=
  match b with Small x => sx_N x | Large v => XL (XS (B"large") :: map sx_N v) end.
Definition sx_bigrat (q : bigrat) : sx :=
  XL [XS (match r_sign q with SNeg => B"-" | SPos => B"+" end); sx_biguint (r_num q); sx_biguint (r_den q)].
Definition sx_real (r : real) : sx :=
  match r with RSimple q => sx_bigrat q | RPi q => XL [XS (B"pi"); sx_bigrat q] end.
Definition sx_complex (z : complex) : sx := XL [sx_real (c_re z); sx_real (c_im z)].
Definition sx_named_unit (u : named_unit) : sx :=
  XL [XS (nu_prefix u); XS (nu_singular u); XS (nu_plural u); sx_bool (nu_alias u);
      XL (map (fun kv => XL [XS (fst kv); sx_complex (snd kv)]) (nu_base u)); sx_complex (nu_scale u)].
Definition sx_base (b : base) : sx :=
  match b with BBinary => XS (B"bin") | BOctal => XS (B"oct") | BHex => XS (B"hex")
  | BCustom x => XL [XS (B"custom"); sx_N x] | BPlain x => XL [XS (B"plain"); sx_N x] end.
Definition sx_fstyle (f : fstyle) : sx :=
  match f with FImproper => XS (B"improper") | FMixed => XS (B"mixed") | FExactFloat => XS (B"float")
  | FExact => XS (B"exact") | FDp n => XL [XS (B"dp"); sx_N n] | FSf n => XL [XS (B"sf"); sx_N n]
  | FAuto => XS (B"auto") end.
Definition sx_number (n : number) : sx :=
  XL [XS (B"num");
      XL (map (fun p => XL [sx_complex (fst p); sx_bigrat (snd p)]) (n_value n));
      XL (map (fun u => XL [sx_named_unit (ue_unit u); sx_complex (ue_exp u)]) (n_unit n));
      sx_bool (n_exact n); sx_base (n_base n); sx_fstyle (n_format n); sx_bool (n_simpl n)].
Fixpoint sx_value (v : value) : sx :=
  match v with
  | VNum n => sx_number n
  | VBuiltin s => XL [XS (B"builtin"); XS s]
  | VFormat f => XL [XS (B"format"); sx_fstyle f]
  | VDp => XS (B"dp") | VSf => XS (B"sf")
  | VBase b => XL [XS (B"base"); sx_base b]
  | VFn p e sc => XL [XS (B"fn"); XS p; sx_expr e; sx_oscope sc]
  | VObject it => XL (XS (B"object") :: sx_items it)
  | VString s => XL [XS (B"str"); XS s]
  | VUnit => XS (B"unit")
  | VBool b => XL [XS (B"bool"); sx_bool b]
  | VMonth m => XL [XS (B"month"); sx_N m]
  | VDow d => XL [XS (B"dow"); sx_N d]
  | VDate y m d => XL [XS (B"date"); XA y; sx_N m; sx_N d]
  end
with sx_expr (e : expr) : sx :=
  match e with
  | ELit v => XL [XS (B"lit"); sx_value v]
  | EIdent s => XL [XS (B"id"); XS s]
  | EParens a => XL [XS (B"parens"); sx_expr a]
  | EUMinus a => XL [XS (B"neg"); sx_expr a]
  | EUPlus a => XL [XS (B"pos"); sx_expr a]
  | EUDiv a => XL [XS (B"udiv"); sx_expr a]
  | EFact a => XL [XS (B"fact"); sx_expr a]
  | EBop op a b => XL [XS (B"bop"); sx_N op; sx_expr a; sx_expr b]
  | EApply a b => XL [XS (B"apply"); sx_expr a; sx_expr b]
  | EApplyFn a b => XL [XS (B"applyfn"); sx_expr a; sx_expr b]
  | EApplyMul a b => XL [XS (B"applymul"); sx_expr a; sx_expr b]
  | EAs a b => XL [XS (B"as"); sx_expr a; sx_expr b]
  | EFn s a => XL [XS (B"lambda"); XS s; sx_expr a]
  | EOf s a => XL [XS (B"of"); XS s; sx_expr a]
  | EAssign s a => XL [XS (B"assign"); XS s; sx_expr a]
  | EStatements a b => XL [XS (B"seq"); sx_expr a; sx_expr b]
  | EEquality q a b => XL [XS (B"eq"); sx_bool q; sx_expr a; sx_expr b]
  end
with sx_scope (s : scope) : sx :=
  match s with Scope id e sc inner => XL [XS (B"scope"); XS id; sx_expr e; sx_oscope sc; sx_oscope inner] end
with sx_oscope (o : oscope) : sx :=
  match o with ONone => XS (B"none") | OSome s => sx_scope s end
with sx_items (it : items) : list sx :=
  match it with INil => [] | ICons k v r => XL [XS k; sx_value v] :: sx_items r end.

Definition run_ser : dispatcher := fun op args =>
  if opeq op "entries" then
    match args with
    | c :: chunks =>
      match as_cfg c, as_chunks chunks with
      | Some c, Some img => Some (sx_out (fun (m : vars) rest => [XL (map (sx_entry c) m); sx_N (len_N rest)]) (de_vars c img))
      | _, _ => Some sx_bad
      end
    | _ => Some sx_bad
    end
  else if opeq op "value" then
    match args with
    | c :: chunks =>
      match as_cfg c, as_chunks chunks with
      | Some c, Some img => Some (sx_out (fun (v : value) rest => [XS (ser_value v); sx_N (len_N rest); XL (sx_flags c v)]) (de_value_top c img))
      | _, _ => Some sx_bad
      end
    | _ => Some sx_bad
    end
  else if opeq op "dump" then
    match args with
    | c :: chunks =>
      match as_cfg c, as_chunks chunks with
      | Some c, Some img => Some (sx_out (fun (m : vars) rest => [XL (map (fun kv => XL [XS (fst kv); sx_value (snd kv)]) m); sx_N (len_N rest)]) (de_vars c img))
      | _, _ => Some sx_bad
      end
    | _ => Some sx_bad
    end
  else if opeq op "variants" then
    match args with
    | c :: chunks =>
      match as_cfg c, as_chunks chunks with
      | Some c, Some img =>
        match de_vars c img with
        | (Ok (m, _), _) => Some (XL (map XS (variant_images m)))
        | _ => Some (XL [])
        end
      | _, _ => Some sx_bad
      end
    | _ => Some sx_bad
    end
  else if opeq op "witnesses" then
    Some (XL (map XS witness_images))
  else if opeq op "names" then
    Some (XL [XL (map XS as_names); XL (map XS from_names);
              XL (map XS (filter (fun s => negb (mem s from_names)) as_names))])
  else if opeq op "utf8" then
    match args with
    | [XS s] => Some (sx_bool (utf8_valid s))
    | _ => Some sx_bad
    end
  else None.

Definition run_ser_line := run_with run_ser.
