(* Ser/Cfg.v -- the configurations of the codec model:
   [cfg_today sz]  the tree being checked = the repaired code (fix commits
                   40160da scope flags, 3cf46ce built-in names, 076760b
                   pre-allocation cap, 4b8e673 validation on load), with the
                   name table generated from the tree;
   [cfg_pinned sz] the code as it was pinned (inverted scope flags, the 24
                   literals try_from_str accepted then, no cap, no
                   validation): kept for the theorems that document the
                   repaired defects. *)
From FendV Require Import Base.Prelude Ser.Generated.BuiltinNames Ser.Codec.
Open Scope N_scope.

Definition as_names : list bytes := map snd as_str_table.
Definition from_names : list bytes := map fst from_str_table.

Definition from_names_pinned : list bytes :=
  [B"approximately"; B"abs"; B"sin"; B"cos"; B"tan"; B"asin"; B"acos"; B"atan";
   B"sinh"; B"cosh"; B"tanh"; B"asinh"; B"acosh"; B"atanh"; B"ln"; B"log2"; B"log10";
   B"base"; B"sample"; B"not"; B"conjugate"; B"real"; B"imag"; B"fibonacci"].

(* the five literals as_str wrote and try_from_str did not read in the pinned
   code (finding C12 builtin_name_missing, fixed by 3cf46ce) *)
Definition known_missing_names : list bytes := [B"mean"; B"arg"; B"floor"; B"ceil"; B"round"].

(* serialize::prealloc: with_capacity(len.min(MAX_PREALLOC)) *)
Definition prealloc_cap : N := 1024.

Definition cfg_today (sz : sizes) : cfg := mkCfg false from_names (Some prealloc_cap) true sz.
Definition cfg_pinned (sz : sizes) : cfg := mkCfg true from_names_pinned None false sz.
