(* Ser/Cfg.v -- the configurations of the codec model:
   [cfg_today sz]  the tree being checked (name table generated from it),
   [cfg_pinned sz] the code as pinned (the 24 literals try_from_str accepted
                   when this development was written; used only by the
                   `refuted' theorems so that they stay true after a repair),
   [cfg_fixed sz]  the code with the candidate repairs applied. *)
From FendV Require Import Base.Prelude Ser.Generated.BuiltinNames Ser.Codec.
Open Scope N_scope.

Definition as_names : list bytes := map snd as_str_table.
Definition from_names : list bytes := map fst from_str_table.

Definition from_names_pinned : list bytes :=
  [B"approximately"; B"abs"; B"sin"; B"cos"; B"tan"; B"asin"; B"acos"; B"atan";
   B"sinh"; B"cosh"; B"tanh"; B"asinh"; B"acosh"; B"atanh"; B"ln"; B"log2"; B"log10";
   B"base"; B"sample"; B"not"; B"conjugate"; B"real"; B"imag"; B"fibonacci"].

(* the five literals as_str writes and try_from_str does not read (finding
   C12 builtin_name_missing) *)
Definition known_missing_names : list bytes := [B"mean"; B"arg"; B"floor"; B"ceil"; B"round"].

(* candidate repair C14_prealloc_cap: with_capacity(len.min(PREALLOC_CAP)) *)
Definition prealloc_cap : N := 1024.

Definition cfg_today (sz : sizes) : cfg := mkCfg true from_names None false sz.
Definition cfg_pinned (sz : sizes) : cfg := mkCfg true from_names_pinned None false sz.
Definition cfg_fixed (sz : sizes) : cfg := mkCfg false as_names (Some prealloc_cap) true sz.
