(* Ser/Codec.v -- executable model of fend's variable persistence format
   (core/src/serialize.rs and every serialize/deserialize pair reachable from
   Context::serialize_variables / deserialize_variables).  No proofs here.

   The byte format is modelled exactly.  [ser_*] mirror the writers; [de_*]
   mirror the readers, including
     - the polarity of the presence flags of Scope / ScopeValue
       (scope.rs reads `true` as ABSENT although the writer writes `true` for
       PRESENT; Value::Fn reads it the right way round),
     - the name table of BuiltInFunction::try_from_str,
     - every Vec::with_capacity / HashMap::with_capacity / reserve whose
       argument comes from a length field of the input: the reader monad
       carries the largest such request (in bytes) as a second output and
       turns a request above isize::MAX into the `capacity overflow' panic,
     - the (missing) validation of Base, BigUint::Large and BigRat.
   The four places where the code is suspected wrong are switches of a
   configuration record [cfg]; [cfg_today] is the pinned code, [cfg_fixed]
   the code with the candidate repairs of notes/C12_*.patch, C14_*.patch. *)
From FendV Require Import Base.Prelude.
Open Scope N_scope.

Definition bytes := list N.

(* ------------------------------------------------------------------ *)
(* value trees *)

Inductive biguint := Small (x : N) | Large (v : list N).
Inductive sign := SNeg | SPos.
Record bigrat := mkRat { r_sign : sign; r_num : biguint; r_den : biguint }.
Inductive real := RSimple (q : bigrat) | RPi (q : bigrat).
Record complex := mkC { c_re : real; c_im : real }.
Definition dist := list (complex * bigrat).
Record named_unit := mkNU {
  nu_prefix : bytes; nu_singular : bytes; nu_plural : bytes; nu_alias : bool;
  nu_base : list (bytes * complex);      (* HashMap<BaseUnit, Complex> in iteration order *)
  nu_scale : complex }.
Record unit_exp := mkUE { ue_unit : named_unit; ue_exp : complex }.
Inductive base := BBinary | BOctal | BHex | BCustom (b : N) | BPlain (b : N).
Inductive fstyle := FImproper | FMixed | FExactFloat | FExact | FDp (n : N) | FSf (n : N) | FAuto.
Record number := mkNum {
  n_value : dist; n_unit : list unit_exp; n_exact : bool; n_base : base;
  n_format : fstyle; n_simpl : bool }.

(* Bop, Month, DayOfWeek are kept as their wire codes (0..13, 1..12, 0..6);
   a built-in function is kept as the literal BuiltInFunction::as_str writes. *)
Inductive value :=
| VNum (n : number)
| VBuiltin (name : bytes)
| VFormat (f : fstyle)
| VDp
| VSf
| VBase (b : base)
| VFn (param : bytes) (body : expr) (sc : oscope)
| VObject (it : items)
| VString (s : bytes)
| VUnit
| VBool (b : bool)
| VMonth (m : N)
| VDow (d : N)
| VDate (y : Z) (m : N) (d : N)
with expr :=
| ELit (v : value)
| EIdent (s : bytes)
| EParens (e : expr)
| EUMinus (e : expr)
| EUPlus (e : expr)
| EUDiv (e : expr)
| EFact (e : expr)
| EBop (op : N) (a b : expr)
| EApply (a b : expr)
| EApplyFn (a b : expr)
| EApplyMul (a b : expr)
| EAs (a b : expr)
| EFn (s : bytes) (e : expr)
| EOf (s : bytes) (e : expr)
| EAssign (s : bytes) (e : expr)
| EStatements (a b : expr)
| EEquality (eq : bool) (a b : expr)
with scope :=
| Scope (id : bytes) (e : expr) (sc : oscope) (inner : oscope)   (* ScopeValue::LazyVariable(e, sc) inlined *)
with oscope := ONone | OSome (s : scope)
with items := INil | ICons (k : bytes) (v : value) (r : items).

Definition vars := list (bytes * value).

(* ------------------------------------------------------------------ *)
(* configuration: the pinned code and the candidate repairs *)

Record sizes := mkSizes {
  sz_part : N;     (* size_of::<(Complex, BigRat)>()                Dist::parts            *)
  sz_uexp : N;     (* size_of::<UnitExponent>()                     Unit::components       *)
  sz_item : N;     (* size_of::<(Cow<str>, Box<Value>)>()           Value::Object          *)
  sz_bu   : N;     (* size_of::<(BaseUnit, Complex)>()              NamedUnit::base_units  *)
  sz_var  : N }.   (* size_of::<(String, Value)>()                  Context::variables     *)

Record cfg := mkCfg {
  c_scope_inverted : bool;   (* scope.rs: `if bool::deserialize(read)? { None } else { Some(..) }` *)
  c_from : list bytes;       (* literals accepted by BuiltInFunction::try_from_str *)
  c_cap : option N;          (* None: with_capacity(len); Some k: with_capacity(len.min(k)) *)
  c_validate : bool;         (* Base in 2..=36, Large non-empty, denominator non-zero *)
  c_sz : sizes }.

Definition isize_max : N := 9223372036854775807.
Definition two64 : N := 18446744073709551616.
(* sizes observed on x86_64 (the check asks the hook for the current ones) *)
Definition sizes_x64 : sizes := mkSizes 184 384 32 152 64.
Definition max_sz (s : sizes) : N :=
  N.max 8 (N.max (sz_part s) (N.max (sz_uexp s) (N.max (sz_item s) (N.max (sz_bu s) (sz_var s))))).

(* ------------------------------------------------------------------ *)
(* reader monad: input -> (result and remaining input, largest capacity
   request in bytes made along the way -- also on failure) *)

Definition M (A : Type) := list N -> res (A * list N) * N.
Definition ret {A} (a : A) : M A := fun bs => (Ok (a, bs), 0).
Definition fail {A} (e : err) : M A := fun _ => (Err e, 0).
Definition bindM {A R} (m : M A) (f : A -> M R) : M R := fun bs =>
  match m bs with
  | (Ok (a, r), k) => let '(x, k') := f a r in (x, N.max k k')
  | (Err e, k) => (Err e, k)
  | (Panic s, k) => (Panic s, k)
  end.
Notation "'rd' x <- m ; k" := (bindM m (fun x => k))
  (at level 200, x pattern, m at level 100, k at level 200, right associativity).

(* Vec::with_capacity(n) for elements of sz bytes: panics `capacity overflow'
   when n * sz > isize::MAX, otherwise asks the allocator for n * sz bytes
   (an allocator failure aborts the process: seen by the harness, not
   modelled).  HashMap::with_capacity / reserve are modelled by the same rule
   on the entry size, which under-approximates hashbrown's real request. *)
Definition capn (cap : option N) (n : N) : N :=
  match cap with Some k => N.min n k | None => n end.
Definition alloc (c : cfg) (n sz : N) : M unit := fun bs =>
  let n' := capn (c_cap c) n in
  if isize_max <? n' * sz then (Panic 1, n' * sz) else (Ok (tt, bs), n' * sz).

(* ------------------------------------------------------------------ *)
(* primitives (serialize.rs) *)

Fixpoint be_enc (n : nat) (x : N) : bytes :=
  match n with O => [] | S k => be_enc k (x / 256) ++ [x mod 256] end.
Fixpoint be_dec (l : bytes) (acc : N) : N :=
  match l with [] => acc | b :: r => be_dec r (acc * 256 + b) end.

(* the first n bytes and the rest (walks n elements only) *)
Fixpoint take_nat (n : nat) (bs : bytes) : option (bytes * bytes) :=
  match n with
  | O => Some ([], bs)
  | S k => match bs with
           | [] => None
           | b :: r => match take_nat k r with Some (p, q) => Some (b :: p, q) | None => None end
           end
  end.
Definition take_n (n : nat) : M bytes := fun bs =>
  match take_nat n bs with Some pq => (Ok pq, 0) | None => (Err EDeser, 0) end.

Definition ser_u8 (x : N) : bytes := [x].
Definition de_u8 : M N := fun bs =>
  match bs with [] => (Err EDeser, 0) | b :: r => (Ok (b, r), 0) end.

Definition ser_u64 (x : N) : bytes := be_enc 8 x.
Definition de_u64 : M N := rd l <- take_n 8; ret (be_dec l 0).

(* usize is written as u64; usize::try_from(u64) cannot fail on a 64-bit target *)
Definition ser_usize (x : N) : bytes := ser_u64 x.
Definition de_usize : M N := de_u64.

Definition ser_i32 (z : Z) : bytes := be_enc 4 (Z.to_N (z mod 4294967296)%Z).
Definition de_i32 : M Z :=
  rd l <- take_n 4;
  let u := be_dec l 0 in
  ret (if u <? 2147483648 then Z.of_N u else (Z.of_N u - 4294967296)%Z).

Definition ser_bool (b : bool) : bytes := [if b then 1 else 0].
Definition de_bool : M bool :=
  rd b <- de_u8;
  if b =? 0 then ret false else if b =? 1 then ret true else fail EDeser.

(* String::from_utf8: well-formed UTF-8 (no overlong forms, no surrogates,
   nothing above U+10FFFF) *)
Definition is_cont (b : N) : bool := (128 <=? b) && (b <=? 191).
Fixpoint utf8_valid (bs : bytes) : bool :=
  match bs with
  | [] => true
  | b0 :: r0 =>
    if b0 <? 128 then utf8_valid r0
    else match r0 with
    | [] => false
    | b1 :: r1 =>
      if (194 <=? b0) && (b0 <=? 223) then is_cont b1 && utf8_valid r1
      else match r1 with
      | [] => false
      | b2 :: r2 =>
        if b0 =? 224 then (160 <=? b1) && (b1 <=? 191) && is_cont b2 && utf8_valid r2
        else if ((225 <=? b0) && (b0 <=? 236)) || (b0 =? 238) || (b0 =? 239)
             then is_cont b1 && is_cont b2 && utf8_valid r2
        else if b0 =? 237 then (128 <=? b1) && (b1 <=? 159) && is_cont b2 && utf8_valid r2
        else match r2 with
        | [] => false
        | b3 :: r3 =>
          if b0 =? 240 then (144 <=? b1) && (b1 <=? 191) && is_cont b2 && is_cont b3 && utf8_valid r3
          else if (241 <=? b0) && (b0 <=? 243) then is_cont b1 && is_cont b2 && is_cont b3 && utf8_valid r3
          else if b0 =? 244 then (128 <=? b1) && (b1 <=? 143) && is_cont b2 && is_cont b3 && utf8_valid r3
          else false
        end
      end
    end
  end.

Definition len_N {A} (l : list A) : N := N.of_nat (length l).

(* &str / String: length, then the bytes one by one.  The reader allocates
   Vec::with_capacity(len) first, pushes bytes until the input ends, then
   validates UTF-8. *)
Definition ser_str (s : bytes) : bytes := ser_usize (len_N s) ++ s.
(* the first n elements and the rest, or None when there are fewer than n
   (walks at most n elements: n comes from the input and may be huge) *)
Fixpoint split_n (bs : bytes) (n : N) : option (bytes * bytes) :=
  match bs with
  | [] => if n =? 0 then Some ([], []) else None
  | b :: r =>
    if n =? 0 then Some ([], bs)
    else match split_n r (n - 1) with
         | Some (p, q) => Some (b :: p, q)
         | None => None
         end
  end.
Definition de_str (c : cfg) : M bytes :=
  rd n <- de_usize;
  rd _ <- alloc c n 1;
  fun bs =>
    match split_n bs n with
    | Some (s, r) => if utf8_valid s then (Ok (s, r), 0) else (Err EDeser, 0)
    | None => (Err EDeser, 0)
    end.

(* Ident::deserialize (ident.rs): a String; the repaired reader rejects the
   empty identifier, which the parser never produces and on which
   units::query_unit_case_sensitive panics (`ident.chars().next().unwrap()`) *)
Definition identb (s : bytes) : bool := negb (len_N s =? 0).
Definition de_ident (c : cfg) : M bytes :=
  rd s <- de_str c;
  if c_validate c && negb (identb s) then fail EDeser else ret s.

(* `for _ in 0..len { v.push(T::deserialize(read)?) }`: every element reader
   consumes at least one byte, so the number of iterations that can succeed is
   bounded by the input length and by len; fuel = min of the two + 1. *)
Fixpoint de_list_go {A} (elem : M A) (fuel : nat) (n : N) : M (list A) :=
  if n =? 0 then ret []
  else match fuel with
       | O => fail EOutOfFuel
       | S f => rd x <- elem; rd xs <- de_list_go elem f (n - 1); ret (x :: xs)
       end.
(* 1 + min (n, length bs), computed by walking at most n elements *)
Fixpoint list_fuel (bs : bytes) (n : N) : nat :=
  match bs with
  | [] => 1%nat
  | _ :: r => if n =? 0 then 1%nat else S (list_fuel r (n - 1))
  end.
Definition de_list {A} (elem : M A) (n : N) : M (list A) :=
  fun bs => de_list_go elem (list_fuel bs n) n bs.

(* HashMap::insert on an association list kept in insertion order *)
Fixpoint map_insert {V} (k : bytes) (v : V) (m : list (bytes * V)) : list (bytes * V) :=
  match m with
  | [] => [(k, v)]
  | (k', v') :: r => if list_N_eqb k k' then (k, v) :: r else (k', v') :: map_insert k v r
  end.
Fixpoint mem (s : bytes) (l : list bytes) : bool :=
  match l with [] => false | x :: r => list_N_eqb s x || mem s r end.

(* ------------------------------------------------------------------ *)
(* numbers (num/biguint.rs bigrat.rs real.rs complex.rs dist.rs base.rs
   formatting_style.rs unit.rs unit/*.rs) *)

Definition ser_biguint (b : biguint) : bytes :=
  match b with
  | Small x => 1 :: ser_u64 x
  | Large v => 2 :: ser_usize (len_N v) ++ concat (map ser_u64 v)
  end.
Definition de_biguint (c : cfg) : M biguint :=
  rd k <- de_u8;
  if k =? 1 then rd x <- de_u64; ret (Small x)
  else if k =? 2 then
    rd n <- de_usize;
    rd _ <- alloc c n 8; rd v <- de_list de_u64 n;
    if c_validate c && (len_N v =? 0) then fail EDeser else ret (Large v)
  else fail EDeser.

Definition biguint_is_zero (b : biguint) : bool :=
  match b with Small x => x =? 0 | Large v => forallb (fun x => x =? 0) v end.

Definition ser_sign (s : sign) : bytes := [match s with SNeg => 1 | SPos => 2 end].
Definition de_sign : M sign :=
  rd b <- de_u8;
  if b =? 1 then ret SNeg else if b =? 2 then ret SPos else fail EDeser.

Definition ser_bigrat (q : bigrat) : bytes :=
  ser_sign (r_sign q) ++ ser_biguint (r_num q) ++ ser_biguint (r_den q).
Definition de_bigrat (c : cfg) : M bigrat :=
  rd s <- de_sign; rd n <- de_biguint c; rd d <- de_biguint c;
  if c_validate c && biguint_is_zero d then fail EDeser else ret (mkRat s n d).

Definition ser_real (r : real) : bytes :=
  match r with RSimple q => 1 :: ser_bigrat q | RPi q => 2 :: ser_bigrat q end.
Definition de_real (c : cfg) : M real :=
  rd k <- de_u8;
  if k =? 1 then rd q <- de_bigrat c; ret (RSimple q)
  else if k =? 2 then rd q <- de_bigrat c; ret (RPi q)
  else fail EDeser.

Definition ser_complex (z : complex) : bytes := ser_real (c_re z) ++ ser_real (c_im z).
Definition de_complex (c : cfg) : M complex :=
  rd a <- de_real c; rd b <- de_real c; ret (mkC a b).

Definition ser_part (p : complex * bigrat) : bytes := ser_complex (fst p) ++ ser_bigrat (snd p).
Definition de_part (c : cfg) : M (complex * bigrat) :=
  rd a <- de_complex c; rd b <- de_bigrat c; ret (a, b).
Definition ser_dist (d : dist) : bytes := ser_usize (len_N d) ++ concat (map ser_part d).
Definition de_dist (c : cfg) : M dist :=
  rd n <- de_usize; rd _ <- alloc c n (sz_part (c_sz c)); de_list (de_part c) n.

Definition ser_bu (p : bytes * complex) : bytes := ser_str (fst p) ++ ser_complex (snd p).
Definition de_bu (c : cfg) : M (bytes * complex) :=
  rd k <- de_str c; rd v <- de_complex c; ret (k, v).
Definition insert_all {V} (l : list (bytes * V)) : list (bytes * V) :=
  fold_left (fun m kv => map_insert (fst kv) (snd kv) m) l [].

Definition ser_named_unit (u : named_unit) : bytes :=
  ser_str (nu_prefix u) ++ ser_str (nu_singular u) ++ ser_str (nu_plural u) ++
  ser_bool (nu_alias u) ++
  ser_usize (len_N (nu_base u)) ++ concat (map ser_bu (nu_base u)) ++
  ser_complex (nu_scale u).
Definition de_named_unit (c : cfg) : M named_unit :=
  rd p <- de_str c; rd s <- de_str c; rd pl <- de_str c; rd a <- de_bool;
  rd n <- de_usize; rd _ <- alloc c n (sz_bu (c_sz c));
  rd l <- de_list (de_bu c) n;
  rd sc <- de_complex c;
  ret (mkNU p s pl a (insert_all l) sc).

Definition ser_unit_exp (u : unit_exp) : bytes := ser_named_unit (ue_unit u) ++ ser_complex (ue_exp u).
Definition de_unit_exp (c : cfg) : M unit_exp :=
  rd u <- de_named_unit c; rd e <- de_complex c; ret (mkUE u e).

Definition ser_unit (u : list unit_exp) : bytes := ser_usize (len_N u) ++ concat (map ser_unit_exp u).
Definition de_unit (c : cfg) : M (list unit_exp) :=
  rd n <- de_usize; rd _ <- alloc c n (sz_uexp (c_sz c)); de_list (de_unit_exp c) n.

Definition ser_base (b : base) : bytes :=
  match b with
  | BBinary => [1] | BOctal => [2] | BHex => [3]
  | BCustom x => [4; x] | BPlain x => [5; x]
  end.
Definition base_ok (x : N) : bool := (2 <=? x) && (x <=? 36).
Definition de_base (c : cfg) : M base :=
  rd k <- de_u8;
  if k =? 1 then ret BBinary else if k =? 2 then ret BOctal else if k =? 3 then ret BHex
  else if k =? 4 then rd x <- de_u8; if c_validate c && negb (base_ok x) then fail EDeser else ret (BCustom x)
  else if k =? 5 then rd x <- de_u8; if c_validate c && negb (base_ok x) then fail EDeser else ret (BPlain x)
  else fail EDeser.

Definition ser_fstyle (f : fstyle) : bytes :=
  match f with
  | FImproper => [1] | FMixed => [2] | FExactFloat => [3] | FExact => [4]
  | FDp n => 5 :: ser_usize n | FSf n => 6 :: ser_usize n | FAuto => [7]
  end.
Definition de_fstyle : M fstyle :=
  rd k <- de_u8;
  if k =? 1 then ret FImproper else if k =? 2 then ret FMixed
  else if k =? 3 then ret FExactFloat else if k =? 4 then ret FExact
  else if k =? 5 then rd n <- de_usize; ret (FDp n)
  else if k =? 6 then rd n <- de_usize; ret (FSf n)
  else if k =? 7 then ret FAuto else fail EDeser.

Definition ser_number (n : number) : bytes :=
  ser_dist (n_value n) ++ ser_unit (n_unit n) ++ ser_bool (n_exact n) ++
  ser_base (n_base n) ++ ser_fstyle (n_format n) ++ ser_bool (n_simpl n).
Definition de_number (c : cfg) : M number :=
  rd v <- de_dist c; rd u <- de_unit c; rd e <- de_bool; rd b <- de_base c;
  rd f <- de_fstyle; rd s <- de_bool; ret (mkNum v u e b f s).

(* dates (date.rs, date/*.rs) *)
Definition de_month : M N :=
  rd m <- de_u8; if (1 <=? m) && (m <=? 12) then ret m else fail EDeser.
Definition de_dow : M N :=
  rd d <- de_u8; if d <=? 6 then ret d else fail EDeser.
Definition de_year : M Z :=
  rd y <- de_i32; if (y =? 0)%Z then fail EDeser else ret y.
Definition de_day : M N :=
  rd d <- de_u8; if (d =? 0) || (32 <=? d) then fail EDeser else ret d.
Definition de_bop : M N :=
  rd b <- de_u8; if b <=? 13 then ret b else fail EDeser.

(* ------------------------------------------------------------------ *)
(* Value / Expr / Scope (value.rs ast.rs scope.rs ident.rs) *)

Fixpoint items_len (it : items) : N :=
  match it with INil => 0 | ICons _ _ r => 1 + items_len r end.

Fixpoint ser_value (v : value) : bytes :=
  match v with
  | VNum n => 0 :: ser_number n
  | VBuiltin s => 1 :: ser_str s
  | VFormat f => 2 :: ser_fstyle f
  | VDp => [3]
  | VSf => [4]
  | VBase b => 5 :: ser_base b
  | VFn p e sc => 6 :: ser_str p ++ ser_expr e ++ ser_oscope sc
  | VObject it => 7 :: ser_usize (items_len it) ++ ser_items it
  | VString s => 8 :: ser_str s
  | VUnit => [9]
  | VBool b => 10 :: ser_bool b
  | VMonth m => [11; m]
  | VDow d => [12; d]
  | VDate y m d => 13 :: ser_i32 y ++ [m; d]
  end
with ser_expr (e : expr) : bytes :=
  match e with
  | ELit v => 0 :: ser_value v
  | EIdent s => 1 :: ser_str s
  | EParens a => 2 :: ser_expr a
  | EUMinus a => 3 :: ser_expr a
  | EUPlus a => 4 :: ser_expr a
  | EUDiv a => 5 :: ser_expr a
  | EFact a => 6 :: ser_expr a
  | EBop op a b => 7 :: op :: ser_expr a ++ ser_expr b
  | EApply a b => 8 :: ser_expr a ++ ser_expr b
  | EApplyFn a b => 9 :: ser_expr a ++ ser_expr b
  | EApplyMul a b => 10 :: ser_expr a ++ ser_expr b
  | EAs a b => 11 :: ser_expr a ++ ser_expr b
  | EFn s a => 12 :: ser_str s ++ ser_expr a
  | EOf s a => 13 :: ser_str s ++ ser_expr a
  | EAssign s a => 14 :: ser_str s ++ ser_expr a
  | EStatements a b => 15 :: ser_expr a ++ ser_expr b
  | EEquality q a b => 16 :: ser_bool q ++ ser_expr a ++ ser_expr b
  end
with ser_scope (s : scope) : bytes :=
  match s with
  | Scope id e sc inner => ser_str id ++ ser_expr e ++ ser_oscope sc ++ ser_oscope inner
  end
with ser_oscope (o : oscope) : bytes :=
  match o with ONone => [0] | OSome s => 1 :: ser_scope s end
with ser_items (it : items) : bytes :=
  match it with INil => [] | ICons k v r => ser_str k ++ ser_value v ++ ser_items r end.

(* Readers.  [fuel] bounds the nesting of calls; every function consumes at
   least one byte before it calls another one, so fuel = input length is
   always enough (CodecProofs.de_vars_total). *)
Definition de_flag_scope (c : cfg) : M bool :=
  rd b <- de_bool; ret (if c_scope_inverted c then negb b else b).
(* `if <flag> { Some(Arc::new(Scope::deserialize(read)?)) } else { None }` *)
Definition opt_scope (flag : M bool) (sc : M scope) : M oscope :=
  rd b <- flag; if b then rd s <- sc; ret (OSome s) else ret ONone.

(* one level of Value::deserialize / Expr::deserialize / Scope::deserialize,
   the recursive calls being parameters *)
Definition de_value_body (c : cfg) (rexpr : M expr) (rscope : M scope) (ritems : N -> M items)
  (tag : N) : M value :=
    if tag =? 0 then rd n <- de_number c; ret (VNum n)
    else if tag =? 1 then rd s <- de_str c; if mem s (c_from c) then ret (VBuiltin s) else fail EDeser
    else if tag =? 2 then rd x <- de_fstyle; ret (VFormat x)
    else if tag =? 3 then ret VDp
    else if tag =? 4 then ret VSf
    else if tag =? 5 then rd b <- de_base c; ret (VBase b)
    else if tag =? 6 then
      rd p <- de_ident c; rd e <- rexpr;
      rd sc <- opt_scope de_bool rscope; ret (VFn p e sc)
    else if tag =? 7 then
      rd n <- de_usize; rd _ <- alloc c n (sz_item (c_sz c));
      rd it <- ritems n; ret (VObject it)
    else if tag =? 8 then rd s <- de_str c; ret (VString s)
    else if tag =? 9 then ret VUnit
    else if tag =? 10 then rd b <- de_bool; ret (VBool b)
    else if tag =? 11 then rd m <- de_month; ret (VMonth m)
    else if tag =? 12 then rd d <- de_dow; ret (VDow d)
    else if tag =? 13 then rd y <- de_year; rd m <- de_month; rd d <- de_day; ret (VDate y m d)
    else fail EDeser.

Definition de_expr_body (c : cfg) (rvalue : M value) (rexpr : M expr) (tag : N) : M expr :=
    if tag =? 0 then rd v <- rvalue; ret (ELit v)
    else if tag =? 1 then rd s <- de_ident c; ret (EIdent s)
    else if tag =? 2 then rd a <- rexpr; ret (EParens a)
    else if tag =? 3 then rd a <- rexpr; ret (EUMinus a)
    else if tag =? 4 then rd a <- rexpr; ret (EUPlus a)
    else if tag =? 5 then rd a <- rexpr; ret (EUDiv a)
    else if tag =? 6 then rd a <- rexpr; ret (EFact a)
    else if tag =? 7 then rd op <- de_bop; rd a <- rexpr; rd b <- rexpr; ret (EBop op a b)
    else if tag =? 8 then rd a <- rexpr; rd b <- rexpr; ret (EApply a b)
    else if tag =? 9 then rd a <- rexpr; rd b <- rexpr; ret (EApplyFn a b)
    else if tag =? 10 then rd a <- rexpr; rd b <- rexpr; ret (EApplyMul a b)
    else if tag =? 11 then rd a <- rexpr; rd b <- rexpr; ret (EAs a b)
    else if tag =? 12 then rd s <- de_ident c; rd a <- rexpr; ret (EFn s a)
    else if tag =? 13 then rd s <- de_ident c; rd a <- rexpr; ret (EOf s a)
    else if tag =? 14 then rd s <- de_ident c; rd a <- rexpr; ret (EAssign s a)
    else if tag =? 15 then rd a <- rexpr; rd b <- rexpr; ret (EStatements a b)
    else if tag =? 16 then rd q <- de_bool; rd a <- rexpr; rd b <- rexpr; ret (EEquality q a b)
    else fail EDeser.

Definition de_scope_body (c : cfg) (rexpr : M expr) (rscope : M scope) (id : bytes) : M scope :=
    rd e <- rexpr;
    rd sc <- opt_scope (de_flag_scope c) rscope;
    rd inner <- opt_scope (de_flag_scope c) rscope;
    ret (Scope id e sc inner).

Definition de_items_body (rvalue : M value) (ritems : M items) (k : bytes) : M items :=
    rd v <- rvalue; rd r <- ritems; ret (ICons k v r).

Fixpoint de_value (c : cfg) (fuel : nat) : M value :=
  rd tag <- de_u8;
  match fuel with
  | O => fail EOutOfFuel
  | S f => de_value_body c (de_expr c f) (de_scope c f) (de_items c f) tag
  end
with de_expr (c : cfg) (fuel : nat) : M expr :=
  rd tag <- de_u8;
  match fuel with
  | O => fail EOutOfFuel
  | S f => de_expr_body c (de_value c f) (de_expr c f) tag
  end
with de_scope (c : cfg) (fuel : nat) : M scope :=
  rd id <- de_ident c;
  match fuel with
  | O => fail EOutOfFuel
  | S f => de_scope_body c (de_expr c f) (de_scope c f) id
  end
with de_items (c : cfg) (fuel : nat) (n : N) : M items :=
  if n =? 0 then ret INil
  else
    rd k <- de_str c;
    match fuel with
    | O => fail EOutOfFuel
    | S f => de_items_body (de_value c f) (de_items c f (n - 1)) k
    end.

(* Context::{serialize,deserialize}_variables_internal (lib.rs) *)
Definition ser_entry (kv : bytes * value) : bytes := ser_str (fst kv) ++ ser_value (snd kv).
Definition ser_vars (m : vars) : bytes := ser_usize (len_N m) ++ concat (map ser_entry m).

Fixpoint de_vars_go (c : cfg) (fuel : nat) (n : N) (acc : vars) : M vars :=
  if n =? 0 then ret acc
  else
    rd k <- de_str c;
    match fuel with
    | O => fail EOutOfFuel
    | S f => rd v <- de_value c f; de_vars_go c f (n - 1) (map_insert k v acc)
    end.
Definition de_vars (c : cfg) : M vars := fun bs =>
  (rd n <- de_usize; rd _ <- alloc c n (sz_var (c_sz c)); de_vars_go c (length bs) n []) bs.

Definition de_value_top (c : cfg) : M value := fun bs => de_value c (length bs) bs.

(* ------------------------------------------------------------------ *)
(* well-formedness *)

Definition u8b (x : N) : bool := x <? 256.
Definition u64b (x : N) : bool := x <? two64.
(* a Vec / String / HashMap of n elements of sz bytes can be read back: its
   length fits a usize and the capacity the reader requests for it - the whole
   n * sz without a cap (true of anything that exists in memory: at most
   isize::MAX bytes), min(n, cap) * sz with the cap - is at most isize::MAX *)
Definition fitn (cap : option N) (sz n : N) : bool := u64b n && (capn cap n * sz <=? isize_max).
Definition fits {A} (cap : option N) (sz : N) (l : list A) : bool := fitn cap sz (len_N l).
(* a String: valid UTF-8 of a length that fits *)
Definition strb (cap : option N) (s : bytes) : bool := utf8_valid s && fits cap 1 s.

Fixpoint nodup_keys {V} (l : list (bytes * V)) : bool :=
  match l with
  | [] => true
  | (k, _) :: r => negb (mem k (map fst r)) && nodup_keys r
  end.

Definition monthb (m : N) : bool := (1 <=? m) && (m <=? 12).
Definition dayb (d : N) : bool := (1 <=? d) && (d <=? 31).
Definition yearb (y : Z) : bool :=
  ((-2147483648 <=? y) && (y <? 2147483648) && negb (y =? 0))%Z.
Definition sizes_okb (s : sizes) : bool :=
  (1 <=? sz_part s) && (1 <=? sz_uexp s) && (1 <=? sz_item s) && (1 <=? sz_bu s) && (1 <=? sz_var s).

(* wf_codec: what the types of the Rust code guarantee of any value the
   writer can be handed (u64 limbs, u8 fields, containers that exist in
   memory, Strings are UTF-8, Day/Month/Year/DayOfWeek/Bop are in range, a
   BuiltInFunction is one of the variants, hash-map keys are distinct) *)
Section Wf.
Variable cap : option N.       (* the reader's capacity cap, if any *)
Variable sz : sizes.           (* element sizes of the build *)

Definition wfc_biguint (b : biguint) : bool :=
  match b with Small x => u64b x | Large v => forallb u64b v && fits cap 8 v end.
Definition wfc_bigrat (q : bigrat) : bool := wfc_biguint (r_num q) && wfc_biguint (r_den q).
Definition wfc_real (r : real) : bool := match r with RSimple q | RPi q => wfc_bigrat q end.
Definition wfc_complex (z : complex) : bool := wfc_real (c_re z) && wfc_real (c_im z).
Definition wfc_part (p : complex * bigrat) : bool := wfc_complex (fst p) && wfc_bigrat (snd p).
Definition wfc_bu (p : bytes * complex) : bool := strb cap (fst p) && wfc_complex (snd p).
Definition wfc_named_unit (u : named_unit) : bool :=
  strb cap (nu_prefix u) && strb cap (nu_singular u) && strb cap (nu_plural u) &&
  forallb wfc_bu (nu_base u) && fits cap (sz_bu sz) (nu_base u) && nodup_keys (nu_base u) &&
  wfc_complex (nu_scale u).
Definition wfc_unit_exp (u : unit_exp) : bool := wfc_named_unit (ue_unit u) && wfc_complex (ue_exp u).
Definition wfc_base (b : base) : bool :=
  match b with BCustom x | BPlain x => u8b x | _ => true end.
Definition wfc_fstyle (f : fstyle) : bool :=
  match f with FDp n | FSf n => u64b n | _ => true end.
Definition wfc_number (n : number) : bool :=
  forallb wfc_part (n_value n) && fits cap (sz_part sz) (n_value n) &&
  forallb wfc_unit_exp (n_unit n) && fits cap (sz_uexp sz) (n_unit n) &&
  wfc_base (n_base n) && wfc_fstyle (n_format n).

End Wf.

Fixpoint wfc_value (asn : list bytes) (cap : option N) (sz : sizes) (v : value) {struct v} : bool :=
  match v with
  | VNum n => wfc_number cap sz n
  | VBuiltin s => mem s asn && strb cap s
  | VFormat f => wfc_fstyle f
  | VBase b => wfc_base b
  | VFn p e sc => strb cap p && wfc_expr asn cap sz e && wfc_oscope asn cap sz sc
  | VObject it => wfc_items asn cap sz it && fitn cap (sz_item sz) (items_len it)
  | VString s => strb cap s
  | VMonth m => monthb m
  | VDow d => d <=? 6
  | VDate y m d => yearb y && monthb m && dayb d
  | VDp | VSf | VUnit | VBool _ => true
  end
with wfc_expr (asn : list bytes) (cap : option N) (sz : sizes) (e : expr) {struct e} : bool :=
  match e with
  | ELit v => wfc_value asn cap sz v
  | EIdent s => strb cap s
  | EParens a | EUMinus a | EUPlus a | EUDiv a | EFact a => wfc_expr asn cap sz a
  | EBop op a b => (op <=? 13) && wfc_expr asn cap sz a && wfc_expr asn cap sz b
  | EApply a b | EApplyFn a b | EApplyMul a b | EAs a b | EStatements a b
  | EEquality _ a b => wfc_expr asn cap sz a && wfc_expr asn cap sz b
  | EFn s a | EOf s a | EAssign s a => strb cap s && wfc_expr asn cap sz a
  end
with wfc_scope (asn : list bytes) (cap : option N) (sz : sizes) (s : scope) {struct s} : bool :=
  match s with Scope id e sc inner => strb cap id && wfc_expr asn cap sz e && wfc_oscope asn cap sz sc && wfc_oscope asn cap sz inner end
with wfc_oscope (asn : list bytes) (cap : option N) (sz : sizes) (o : oscope) {struct o} : bool :=
  match o with ONone => true | OSome s => wfc_scope asn cap sz s end
with wfc_items (asn : list bytes) (cap : option N) (sz : sizes) (it : items) {struct it} : bool :=
  match it with INil => true | ICons k v r => strb cap k && wfc_value asn cap sz v && wfc_items asn cap sz r end.

Definition wfc_entry (asn : list bytes) (cap : option N) (sz : sizes) (kv : bytes * value) : bool := strb cap (fst kv) && wfc_value asn cap sz (snd kv).
Definition wfc_vars (asn : list bytes) (cap : option N) (sz : sizes) (m : vars) : bool := forallb (wfc_entry asn cap sz) m && fits cap (sz_var sz) m && nodup_keys m.


(* wf_sem: what evaluation and printing additionally rely on (C14 loaded_wf):
   a base in 2..=36, a non-empty Large limb vector, a non-zero denominator,
   non-empty identifiers *)
Definition wfs_biguint (b : biguint) : bool :=
  match b with Small _ => true | Large v => negb (len_N v =? 0) end.
Definition wfs_bigrat (q : bigrat) : bool :=
  wfs_biguint (r_num q) && wfs_biguint (r_den q) && negb (biguint_is_zero (r_den q)).
Definition wfs_real (r : real) : bool := match r with RSimple q | RPi q => wfs_bigrat q end.
Definition wfs_complex (z : complex) : bool := wfs_real (c_re z) && wfs_real (c_im z).
Definition wfs_part (p : complex * bigrat) : bool := wfs_complex (fst p) && wfs_bigrat (snd p).
Definition wfs_bu (p : bytes * complex) : bool := wfs_complex (snd p).
Definition wfs_named_unit (u : named_unit) : bool :=
  forallb wfs_bu (nu_base u) && wfs_complex (nu_scale u).
Definition wfs_unit_exp (u : unit_exp) : bool := wfs_named_unit (ue_unit u) && wfs_complex (ue_exp u).
Definition wfs_base (b : base) : bool :=
  match b with BCustom x | BPlain x => base_ok x | _ => true end.
Definition wfs_number (n : number) : bool :=
  forallb wfs_part (n_value n) && forallb wfs_unit_exp (n_unit n) && wfs_base (n_base n).

Fixpoint wfs_value (v : value) : bool :=
  match v with
  | VNum n => wfs_number n
  | VBase b => wfs_base b
  | VFn p e sc => identb p && wfs_expr e && wfs_oscope sc
  | VObject it => wfs_items it
  | _ => true
  end
with wfs_expr (e : expr) : bool :=
  match e with
  | ELit v => wfs_value v
  | EIdent s => identb s
  | EParens a | EUMinus a | EUPlus a | EUDiv a | EFact a => wfs_expr a
  | EBop _ a b | EApply a b | EApplyFn a b | EApplyMul a b | EAs a b | EStatements a b
  | EEquality _ a b => wfs_expr a && wfs_expr b
  | EFn s a | EOf s a | EAssign s a => identb s && wfs_expr a
  end
with wfs_scope (s : scope) : bool :=
  match s with Scope id e sc inner => identb id && wfs_expr e && wfs_oscope sc && wfs_oscope inner end
with wfs_oscope (o : oscope) : bool :=
  match o with ONone => true | OSome s => wfs_scope s end
with wfs_items (it : items) : bool :=
  match it with INil => true | ICons _ v r => wfs_value v && wfs_items r end.
Definition wfs_vars (m : vars) : bool := forallb (fun kv => wfs_value (snd kv)) m.

(* ------------------------------------------------------------------ *)
(* classifiers of the two known C12 defects *)

(* some closure carries a captured scope (any Scope node at all: the reader of
   scope.rs takes the flag the wrong way round for present and for absent) *)
Fixpoint has_scope_value (v : value) : bool :=
  match v with
  | VFn _ e sc => has_scope_expr e || (match sc with ONone => false | OSome _ => true end)
  | VObject it => has_scope_items it
  | _ => false
  end
with has_scope_expr (e : expr) : bool :=
  match e with
  | ELit v => has_scope_value v
  | EIdent _ => false
  | EParens a | EUMinus a | EUPlus a | EUDiv a | EFact a => has_scope_expr a
  | EBop _ a b | EApply a b | EApplyFn a b | EApplyMul a b | EAs a b | EStatements a b
  | EEquality _ a b => has_scope_expr a || has_scope_expr b
  | EFn _ a | EOf _ a | EAssign _ a => has_scope_expr a
  end
with has_scope_items (it : items) : bool :=
  match it with INil => false | ICons _ v r => has_scope_value v || has_scope_items r end.

(* some built-in function whose literal the reader does not accept *)
Fixpoint names_ok_value (accepted : list bytes) (v : value) {struct v} : bool :=
  match v with
  | VBuiltin s => mem s accepted
  | VFn _ e sc => names_ok_expr accepted e && names_ok_oscope accepted sc
  | VObject it => names_ok_items accepted it
  | _ => true
  end
with names_ok_expr (accepted : list bytes) (e : expr) {struct e} : bool :=
  match e with
  | ELit v => names_ok_value accepted v
  | EIdent _ => true
  | EParens a | EUMinus a | EUPlus a | EUDiv a | EFact a => names_ok_expr accepted a
  | EBop _ a b | EApply a b | EApplyFn a b | EApplyMul a b | EAs a b | EStatements a b
  | EEquality _ a b => names_ok_expr accepted a && names_ok_expr accepted b
  | EFn _ a | EOf _ a | EAssign _ a => names_ok_expr accepted a
  end
with names_ok_scope (accepted : list bytes) (s : scope) {struct s} : bool :=
  match s with Scope _ e sc inner => names_ok_expr accepted e && names_ok_oscope accepted sc && names_ok_oscope accepted inner end
with names_ok_oscope (accepted : list bytes) (o : oscope) {struct o} : bool :=
  match o with ONone => true | OSome s => names_ok_scope accepted s end
with names_ok_items (accepted : list bytes) (it : items) {struct it} : bool :=
  match it with INil => true | ICons _ v r => names_ok_value accepted v && names_ok_items accepted r end.


(* number of constructors: the non-triviality measure of the evidence *)
Fixpoint size_value (v : value) : N :=
  match v with
  | VFn _ e sc => 1 + size_expr e + size_oscope sc
  | VObject it => 1 + size_items it
  | _ => 1
  end
with size_expr (e : expr) : N :=
  match e with
  | ELit v => 1 + size_value v
  | EIdent _ => 1
  | EParens a | EUMinus a | EUPlus a | EUDiv a | EFact a => 1 + size_expr a
  | EBop _ a b | EApply a b | EApplyFn a b | EApplyMul a b | EAs a b | EStatements a b
  | EEquality _ a b => 1 + size_expr a + size_expr b
  | EFn _ a | EOf _ a | EAssign _ a => 1 + size_expr a
  end
with size_scope (s : scope) : N :=
  match s with Scope _ e sc inner => 1 + size_expr e + size_oscope sc + size_oscope inner end
with size_oscope (o : oscope) : N :=
  match o with ONone => 0 | OSome s => size_scope s end
with size_items (it : items) : N :=
  match it with INil => 0 | ICons _ v r => size_value v + size_items r end.
