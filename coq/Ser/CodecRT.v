(* Ser/CodecRT.v -- round-trip proofs for the persistence codec (C12):
   reading back what the writer produced gives the same value tree and leaves
   the rest of the input, for every well-formed tree, by mutual structural
   induction; parametric in the configuration [cfg] (pinned code / repaired
   code), see Ser/Codec.v. *)
From Coq Require Import Lia ZifyBool.
From FendV Require Import Base.Prelude Ser.Codec.
Open Scope N_scope.
Arguments N.add : simpl never. Arguments N.sub : simpl never. Arguments N.mul : simpl never.
Arguments N.div : simpl never. Arguments N.modulo : simpl never.
Arguments N.eqb : simpl never. Arguments N.ltb : simpl never. Arguments N.leb : simpl never.
Arguments N.max : simpl never. Arguments N.min : simpl never.

Definition run {A} (m : M A) (bs : list N) : res (A * list N) := fst (m bs).

Lemma run_bind : forall A R (m : M A) (f : A -> M R) bs,
  run (bindM m f) bs =
  match run m bs with
  | Ok (a, r) => run (f a) r
  | Err e => Err e
  | Panic s => Panic s
  end.
Proof.
  intros. unfold run, bindM. destruct (m bs) as [[[a r]|e|s] k]; cbn [fst]; auto.
  destruct (f a r); reflexivity.
Qed.
Lemma run_ret : forall A (a : A) bs, run (ret a) bs = Ok (a, bs).
Proof. reflexivity. Qed.
Lemma run_fail : forall A e bs, run (@fail A e) bs = Err e.
Proof. reflexivity. Qed.

(* round trip of a reader against a writer output *)
Definition RT {A} (m : M A) (s : bytes) (a : A) : Prop :=
  forall rest, run m (s ++ rest) = Ok (a, rest).

Lemma RT_ret : forall A (a : A), RT (ret a) [] a.
Proof. intros A a rest. reflexivity. Qed.

Lemma RT_bind : forall A R (m : M A) (f : A -> M R) s1 s2 a b,
  RT m s1 a -> RT (f a) s2 b -> RT (bindM m f) (s1 ++ s2) b.
Proof.
  intros A R m f s1 s2 a b H1 H2 rest. rewrite run_bind, <- app_assoc, H1. apply H2.
Qed.

Lemma RT_bind_eq : forall A R (m : M A) (f : A -> M R) s s1 s2 a b,
  s = s1 ++ s2 -> RT m s1 a -> RT (f a) s2 b -> RT (bindM m f) s b.
Proof. intros; subst; eapply RT_bind; eauto. Qed.

Lemma RT_u8 : forall x, RT de_u8 [x] x.
Proof. intros x rest. reflexivity. Qed.

(* big-endian *)
Lemma be_dec_app : forall l1 l2 acc, be_dec (l1 ++ l2) acc = be_dec l2 (be_dec l1 acc).
Proof. induction l1; intros; cbn [be_dec app]; auto. Qed.

Lemma be_enc_length : forall n x, length (be_enc n x) = n.
Proof. induction n; intros; cbn [be_enc]; auto. rewrite app_length, IHn. cbn. lia. Qed.

Lemma be_dec_enc : forall n x, be_dec (be_enc n x) 0 = x mod (256 ^ N.of_nat n).
Proof.
  induction n; intros x.
  - cbn [be_enc be_dec]. change (N.of_nat 0) with 0. rewrite N.pow_0_r, N.mod_1_r. reflexivity.
  - cbn [be_enc]. rewrite be_dec_app, IHn. cbn [be_dec].
    rewrite Nat2N.inj_succ, N.pow_succ_r'.
    pose proof (N.pow_nonzero 256 (N.of_nat n) ltac:(lia)) as Hp.
    rewrite N.mod_mul_r by lia.
    generalize (x / 256 mod 256 ^ N.of_nat n). intro q. lia.
Qed.

Lemma take_nat_app : forall (l rest : bytes), take_nat (length l) (l ++ rest) = Some (l, rest).
Proof. induction l as [|b l IH]; intros rest; cbn [length app take_nat]; auto. rewrite IH. reflexivity. Qed.
Lemma take_nat_some : forall n bs p q, take_nat n bs = Some (p, q) -> bs = p ++ q /\ length p = n.
Proof.
  induction n as [|n IH]; intros bs p q H; cbn [take_nat] in H.
  - inversion H; subst. split; reflexivity.
  - destruct bs as [|b bs]; [discriminate|]. destruct (take_nat n bs) as [[p' q']|] eqn:E; [|discriminate].
    inversion H; subst. destruct (IH _ _ _ E) as [-> Hl]. split; cbn [app length]; auto.
Qed.
Lemma take_n_app : forall (l rest : bytes), run (take_n (length l)) (l ++ rest) = Ok (l, rest).
Proof. intros. unfold run, take_n. rewrite take_nat_app. reflexivity. Qed.

Lemma pow256_8 : 256 ^ N.of_nat 8 = two64.
Proof. vm_compute. reflexivity. Qed.
Lemma pow256_4 : 256 ^ N.of_nat 4 = 4294967296.
Proof. vm_compute. reflexivity. Qed.
Lemma mod_small_64 : forall x, u64b x = true -> x mod 256 ^ N.of_nat 8 = x.
Proof. intros x Hx. rewrite pow256_8. apply N.mod_small. unfold u64b in Hx. lia. Qed.

Lemma run_take_enc : forall n x rest, run (take_n n) (be_enc n x ++ rest) = Ok (be_enc n x, rest).
Proof. intros. pose proof (take_n_app (be_enc n x) rest) as H. rewrite be_enc_length in H. exact H. Qed.

Lemma RT_u64 : forall x, u64b x = true -> RT de_u64 (ser_u64 x) x.
Proof.
  intros x Hx rest. unfold de_u64, ser_u64. rewrite run_bind, run_take_enc, run_ret, be_dec_enc, mod_small_64; auto.
Qed.

Lemma i32_decode : forall y, (-2147483648 <= y < 2147483648)%Z ->
  let u := Z.to_N (y mod 4294967296) in
  (if u <? 2147483648 then Z.of_N u else (Z.of_N u - 4294967296)%Z) = y /\ u < 4294967296.
Proof.
  intros y Hy u. subst u.
  assert (0 <= y mod 4294967296 < 4294967296)%Z by (apply Z.mod_pos_bound; lia).
  destruct (Z_lt_dec y 0).
  - assert (y mod 4294967296 = y + 4294967296)%Z.
    { symmetry. apply Z.mod_unique with (-1)%Z; lia. }
    destruct (Z.to_N (y mod 4294967296) <? 2147483648) eqn:E; lia.
  - rewrite Z.mod_small by lia.
    destruct (Z.to_N y <? 2147483648) eqn:E; lia.
Qed.

Lemma RT_i32 : forall y, (-2147483648 <= y < 2147483648)%Z -> RT de_i32 (ser_i32 y) y.
Proof.
  intros y Hy rest. unfold de_i32, ser_i32.
  destruct (i32_decode y Hy) as [H1 H2].
  rewrite run_bind, run_take_enc, run_ret, be_dec_enc, pow256_4, N.mod_small by exact H2.
  rewrite H1. reflexivity.
Qed.

Lemma RT_bool : forall b, RT de_bool (ser_bool b) b.
Proof. intros [] rest; reflexivity. Qed.

(* ------------------------------------------------------------------ *)
Lemma RT_u8_bind : forall R (f : N -> M R) x s b,
  RT (f x) s b -> RT (bindM de_u8 f) (x :: s) b.
Proof. intros R f x s b H. apply (RT_bind _ _ de_u8 f [x] s x b); auto. apply RT_u8. Qed.

Lemma RT_bind_nil : forall A R (m : M A) (f : A -> M R) s a b,
  RT m s a -> RT (f a) [] b -> RT (bindM m f) s b.
Proof. intros. eapply RT_bind_eq; eauto. symmetry; apply app_nil_r. Qed.

Ltac bsplit :=
  repeat match goal with
  | H : (_ && _) = true |- _ => apply andb_prop in H; destruct H
  end.

Ltac tagsimp :=
  cbv beta;
  repeat match goal with
  | |- context [N.eqb ?a ?b] =>
    let v := eval vm_compute in (N.eqb a b) in
    match v with true => idtac | false => idtac end;
    change (N.eqb a b) with v
  end;
  cbv iota.

Lemma to_nat_len_N : forall A (l : list A), N.to_nat (len_N l) = length l.
Proof. intros. unfold len_N. apply Nat2N.id. Qed.

Lemma RT_alloc : forall c n sz, fitn (c_cap c) sz n = true -> RT (alloc c n sz) [] tt.
Proof.
  intros c n sz H rest. unfold fitn in H. apply andb_prop in H. destruct H as [_ H]. apply N.leb_le in H.
  unfold run, alloc. cbn [app].
  replace (isize_max <? capn (c_cap c) n * sz) with false by (symmetry; apply N.ltb_ge; lia).
  reflexivity.
Qed.

Lemma fitn_u64 : forall cap sz n, fitn cap sz n = true -> u64b n = true.
Proof. intros cap sz n H. unfold fitn in H. apply andb_prop in H. tauto. Qed.
Lemma fits_u64 : forall A cap sz (l : list A), fits cap sz l = true -> u64b (len_N l) = true.
Proof. intros A cap sz l H. eapply fitn_u64. exact H. Qed.

Lemma isize_lt_two64 : isize_max < two64.
Proof. vm_compute. reflexivity. Qed.

Lemma len_N_cons : forall A (x : A) l, len_N (x :: l) - 1 = len_N l.
Proof. intros. unfold len_N. cbn [length]. lia. Qed.
Lemma len_N_cons_nz : forall A (x : A) l, (len_N (x :: l) =? 0) = false.
Proof. intros. unfold len_N. cbn [length]. apply N.eqb_neq. lia. Qed.

Lemma split_n_app : forall (s rest : bytes), split_n (s ++ rest) (len_N s) = Some (s, rest).
Proof.
  induction s as [|b s IH]; intros rest.
  - cbn [app]. change (len_N (@nil N)) with 0. destruct rest; reflexivity.
  - cbn [app split_n]. rewrite len_N_cons_nz, len_N_cons, IH. reflexivity.
Qed.
Lemma split_n_some : forall bs n p q, split_n bs n = Some (p, q) -> bs = p ++ q /\ len_N p = n.
Proof.
  induction bs as [|b bs IH]; intros n p q H; cbn [split_n] in H.
  - destruct (n =? 0) eqn:E; [|discriminate]. inversion H; subst. apply N.eqb_eq in E. split; auto.
  - destruct (n =? 0) eqn:E.
    + inversion H; subst. apply N.eqb_eq in E. split; auto.
    + destruct (split_n bs (n - 1)) as [[p' q']|] eqn:E2; [|discriminate]. inversion H; subst.
      destruct (IH _ _ _ E2) as [-> Hl]. split; [reflexivity|].
      apply N.eqb_neq in E. unfold len_N in *. cbn [length]. lia.
Qed.

(* list_fuel bs n = 1 + min (n, length bs) *)
Lemma list_fuel_ge : forall k (bs : bytes), (k <= length bs)%nat -> list_fuel bs (N.of_nat k) = S k.
Proof.
  induction k as [|k IH]; intros bs H.
  - destruct bs; reflexivity.
  - destruct bs as [|b bs]; [cbn in H; lia|]. cbn [list_fuel].
    replace (N.of_nat (S k) =? 0) with false by (symmetry; apply N.eqb_neq; lia).
    replace (N.of_nat (S k) - 1) with (N.of_nat k) by lia. rewrite IH; auto. cbn in H; lia.
Qed.
Lemma list_fuel_spec : forall (bs : bytes) n,
  n < N.of_nat (list_fuel bs n) \/ (length bs < list_fuel bs n)%nat.
Proof.
  induction bs as [|b bs IH]; intros n; cbn [list_fuel length].
  - right. lia.
  - destruct (n =? 0) eqn:E. { left. apply N.eqb_eq in E. subst. cbn. lia. }
    apply N.eqb_neq in E. destruct (IH (n - 1)) as [H|H]; [left | right]; lia.
Qed.

Lemma RT_str : forall c s, strb (c_cap c) s = true -> RT (de_str c) (ser_str s) s.
Proof.
  intros c s H. unfold strb in H. bsplit. unfold de_str, ser_str, de_usize, ser_usize.
  eapply RT_bind. { apply RT_u64. eapply fits_u64; eauto. }
  eapply RT_bind_eq with (s1 := []); [reflexivity | apply RT_alloc; auto | ].
  intros rest. unfold run. rewrite split_n_app, H. reflexivity.
Qed.

Lemma RT_ident : forall c s, strb (c_cap c) s = true -> (c_validate c = true -> identb s = true) ->
  RT (de_ident c) (ser_str s) s.
Proof.
  intros c s H Hv. unfold de_ident. eapply RT_bind_nil. apply RT_str; auto.
  replace (c_validate c && negb (identb s)) with false. apply RT_ret.
  symmetry. destruct (c_validate c) eqn:E; auto. rewrite Hv; auto.
Qed.

Lemma RT_list_go : forall A (elem : M A) (ser : A -> bytes) l fuel,
  (forall x, In x l -> RT elem (ser x) x) -> (length l <= fuel)%nat ->
  RT (de_list_go elem fuel (len_N l)) (concat (map ser l)) l.
Proof.
  induction l as [|x l IH]; intros fuel He Hf.
  - destruct fuel; cbn [de_list_go]; apply RT_ret.
  - destruct fuel as [|f]; [cbn in Hf; lia|].
    cbn [de_list_go]. rewrite len_N_cons_nz, len_N_cons. cbn [map concat].
    eapply RT_bind. { apply He. left; auto. }
    eapply RT_bind_nil. { apply IH. intros; apply He; right; auto. cbn in Hf; lia. }
    apply RT_ret.
Qed.

Lemma concat_length_ge : forall A (ser : A -> bytes) l,
  (forall x, In x l -> ser x <> []) -> (length l <= length (concat (map ser l)))%nat.
Proof.
  induction l; intros H; cbn [map concat length]; auto.
  rewrite app_length. specialize (IHl (fun x Hx => H x (or_intror Hx))).
  assert (ser a <> []) by (apply H; left; auto). destruct (ser a); [congruence|]. cbn [length]. lia.
Qed.

Lemma RT_list : forall A (elem : M A) (ser : A -> bytes) l,
  (forall x, In x l -> RT elem (ser x) x) -> (forall x, In x l -> ser x <> []) ->
  RT (de_list elem (len_N l)) (concat (map ser l)) l.
Proof.
  intros A elem ser l He Hn rest. unfold de_list.
  change (run (fun bs => de_list_go elem (list_fuel bs (len_N l)) (len_N l) bs) (concat (map ser l) ++ rest))
    with (run (de_list_go elem (list_fuel (concat (map ser l) ++ rest) (len_N l)) (len_N l)) (concat (map ser l) ++ rest)).
  apply RT_list_go; auto. unfold len_N at 1. rewrite list_fuel_ge. lia.
  rewrite app_length. pose proof (concat_length_ge _ ser l Hn). lia.
Qed.

Lemma forallb_In : forall A (f : A -> bool) l x, forallb f l = true -> In x l -> f x = true.
Proof. intros. rewrite forallb_forall in H. auto. Qed.

(* ---- numbers ---- *)
Section Num.
Variable c : cfg.
Variable asn : list bytes.
Let sz := c_sz c.

Lemma ser_u64_nonempty : forall x, ser_u64 x <> [].
Proof. intros x H. apply (f_equal (@length N)) in H. unfold ser_u64 in H. rewrite be_enc_length in H. discriminate. Qed.

Lemma RT_biguint : forall b, wfc_biguint (c_cap c) b = true -> (c_validate c = true -> wfs_biguint b = true) ->
  RT (de_biguint c) (ser_biguint b) b.
Proof.
  intros [x|v] H Hv; unfold de_biguint, ser_biguint; cbn [wfc_biguint] in H.
  - apply RT_u8_bind. tagsimp. eapply RT_bind_nil. apply RT_u64; auto. apply RT_ret.
  - bsplit. apply RT_u8_bind. tagsimp. unfold de_usize, ser_usize.
    eapply RT_bind. { apply RT_u64. eapply fits_u64; eauto. }
    eapply RT_bind_eq with (s1 := []); [reflexivity | apply RT_alloc; auto | ].
    eapply RT_bind_nil. { apply RT_list. intros; apply RT_u64. eapply forallb_In; eauto. intros; apply ser_u64_nonempty. }
    replace (c_validate c && (len_N v =? 0)) with false. apply RT_ret.
    symmetry. destruct (c_validate c) eqn:E; auto. specialize (Hv eq_refl). cbn [wfs_biguint] in Hv.
    cbn [andb]. destruct (len_N v =? 0); auto.
Qed.

Lemma RT_sign : forall s, RT de_sign (ser_sign s) s.
Proof. intros [] rest; reflexivity. Qed.

Lemma RT_bigrat : forall q, wfc_bigrat (c_cap c) q = true -> (c_validate c = true -> wfs_bigrat q = true) ->
  RT (de_bigrat c) (ser_bigrat q) q.
Proof.
  intros [s n d] H Hv. unfold wfc_bigrat in H. cbn [r_num r_den] in H. bsplit.
  assert (Hv' : c_validate c = true -> wfs_biguint n = true /\ wfs_biguint d = true /\ biguint_is_zero d = false).
  { intros E. specialize (Hv E). unfold wfs_bigrat in Hv. cbn [r_num r_den] in Hv. bsplit.
    repeat split; auto. destruct (biguint_is_zero d); auto. }
  unfold de_bigrat, ser_bigrat. cbn [r_sign r_num r_den].
  eapply RT_bind. apply RT_sign.
  eapply RT_bind. { apply RT_biguint; auto. intros E; apply Hv'; auto. }
  eapply RT_bind_nil. { apply RT_biguint; auto. intros E; apply Hv'; auto. }
  replace (c_validate c && biguint_is_zero d) with false. apply RT_ret.
  symmetry. destruct (c_validate c) eqn:E; auto. cbn [andb]. apply Hv'; auto.
Qed.

Lemma RT_real : forall r, wfc_real (c_cap c) r = true -> (c_validate c = true -> wfs_real r = true) ->
  RT (de_real c) (ser_real r) r.
Proof.
  intros [q|q] H Hv; unfold de_real, ser_real; apply RT_u8_bind; tagsimp;
    (eapply RT_bind_nil; [apply RT_bigrat; auto | apply RT_ret]).
Qed.

Lemma RT_complex : forall z, wfc_complex (c_cap c) z = true -> (c_validate c = true -> wfs_complex z = true) ->
  RT (de_complex c) (ser_complex z) z.
Proof.
  intros [a b] H Hv. unfold wfc_complex in H. cbn [c_re c_im] in H. bsplit.
  assert (Hv' : c_validate c = true -> wfs_real a = true /\ wfs_real b = true).
  { intros E. specialize (Hv E). unfold wfs_complex in Hv. cbn [c_re c_im] in Hv. bsplit. auto. }
  unfold de_complex, ser_complex. cbn [c_re c_im].
  eapply RT_bind. { apply RT_real; auto. intros; apply Hv'; auto. }
  eapply RT_bind_nil. { apply RT_real; auto. intros; apply Hv'; auto. }
  apply RT_ret.
Qed.

Lemma RT_part : forall p, wfc_part (c_cap c) p = true -> (c_validate c = true -> wfs_part p = true) ->
  RT (de_part c) (ser_part p) p.
Proof.
  intros [a b] H Hv. unfold wfc_part in H. cbn [fst snd] in H. bsplit.
  assert (Hv' : c_validate c = true -> wfs_complex a = true /\ wfs_bigrat b = true).
  { intros E. specialize (Hv E). unfold wfs_part in Hv. cbn [fst snd] in Hv. bsplit. auto. }
  unfold de_part, ser_part. cbn [fst snd].
  eapply RT_bind. { apply RT_complex; auto. intros; apply Hv'; auto. }
  eapply RT_bind_nil. { apply RT_bigrat; auto. intros; apply Hv'; auto. }
  apply RT_ret.
Qed.

Lemma ser_real_nonempty : forall r, ser_real r <> [].
Proof. intros [q|q]; discriminate. Qed.
Lemma ser_complex_nonempty : forall z, ser_complex z <> [].
Proof. intros [a b]. unfold ser_complex. cbn [c_re]. destruct a; discriminate. Qed.
Lemma ser_part_nonempty : forall p, ser_part p <> [].
Proof. intros [[a b] q]. unfold ser_part, ser_complex. cbn [fst c_re]. destruct a; discriminate. Qed.
Lemma ser_str_nonempty : forall s, ser_str s <> [].
Proof.
  intros s H. apply (f_equal (@length N)) in H. unfold ser_str, ser_usize, ser_u64 in H.
  rewrite app_length, be_enc_length in H. discriminate.
Qed.



Lemma RT_dist : forall d, forallb (wfc_part (c_cap c)) d = true -> fits (c_cap c) (sz_part sz) d = true ->
  (c_validate c = true -> forallb wfs_part d = true) ->
  RT (de_dist c) (ser_dist d) d.
Proof.
  intros d H Hf Hv. unfold de_dist, ser_dist, de_usize, ser_usize.
  eapply RT_bind. { apply RT_u64. eapply fits_u64; eauto. }
  eapply RT_bind_eq with (s1 := []); [reflexivity | apply RT_alloc; auto | ].
  apply RT_list. 2: intros; apply ser_part_nonempty.
  intros x Hx. apply RT_part. eapply forallb_In; eauto. intros E. eapply forallb_In; eauto.
Qed.
End Num.

(* ---- hash maps as insertion-ordered association lists ---- *)
Lemma list_N_eqb_eq : forall a b, list_N_eqb a b = true <-> a = b.
Proof.
  induction a as [|x a IH]; destruct b as [|y b]; cbn [list_N_eqb]; split; intros H; try discriminate; auto.
  - apply andb_prop in H. destruct H as [H1 H2]. apply N.eqb_eq in H1. apply IH in H2. subst; auto.
  - inversion H; subst. rewrite N.eqb_refl. cbn [andb]. apply IH. auto.
Qed.
Lemma list_N_eqb_refl : forall a, list_N_eqb a a = true.
Proof. intros. apply list_N_eqb_eq. auto. Qed.

Lemma mem_In : forall s l, mem s l = true <-> In s l.
Proof.
  induction l as [|x l IH]; cbn [mem In]; split; intros H; try discriminate; try tauto.
  - apply orb_prop in H. destruct H as [H|H]; [left; symmetry; apply list_N_eqb_eq; auto | right; apply IH; auto].
  - destruct H as [H|H]; [subst; rewrite list_N_eqb_refl; auto | apply IH in H; rewrite H; apply orb_true_r].
Qed.

Lemma map_insert_notin : forall V k (v : V) m, mem k (map fst m) = false -> map_insert k v m = m ++ [(k, v)].
Proof.
  induction m as [|[k' v'] m IH]; cbn [map fst mem map_insert app]; intros H; auto.
  apply orb_false_elim in H. destruct H as [H1 H2]. rewrite H1, IH; auto.
Qed.

Lemma insert_fold_nodup : forall V (l acc : list (bytes * V)),
  nodup_keys l = true ->
  (forall k, mem k (map fst l) = true -> mem k (map fst acc) = false) ->
  fold_left (fun m kv => map_insert (fst kv) (snd kv) m) l acc = acc ++ l.
Proof.
  induction l as [|[k v] l IH]; intros acc Hn Hd; cbn [fold_left].
  - rewrite app_nil_r; auto.
  - cbn [nodup_keys] in Hn. apply andb_prop in Hn. destruct Hn as [Hk Hn].
    apply negb_true_iff in Hk. cbn [fst snd].
    rewrite map_insert_notin.
    2:{ apply Hd. cbn [map fst mem]. rewrite list_N_eqb_refl. auto. }
    rewrite IH; auto. { rewrite <- app_assoc. reflexivity. }
    intros k' Hk'. rewrite map_app. cbn [map fst].
    destruct (mem k' (map fst acc ++ [k])) eqn:E; auto.
    apply mem_In in E. apply in_app_or in E. destruct E as [E|E].
    + apply mem_In in E. rewrite Hd in E; [discriminate|]. cbn [map fst mem]. rewrite Hk'. apply orb_true_r.
    + destruct E as [E|[]]. subst k'. congruence.
Qed.

Lemma insert_all_nodup : forall V (l : list (bytes * V)), nodup_keys l = true -> insert_all l = l.
Proof. intros. unfold insert_all. rewrite insert_fold_nodup; auto. Qed.

Section Num2.
Variable c : cfg.
Let sz := c_sz c.

Lemma RT_bu : forall p, wfc_bu (c_cap c) p = true -> (c_validate c = true -> wfs_bu p = true) ->
  RT (de_bu c) (ser_bu p) p.
Proof.
  intros [k v] H Hv. unfold wfc_bu in H. cbn [fst snd] in H. bsplit.
  unfold de_bu, ser_bu. cbn [fst snd].
  eapply RT_bind. apply RT_str; auto.
  eapply RT_bind_nil. { apply RT_complex; auto. } apply RT_ret.
Qed.
Lemma ser_bu_nonempty : forall p, ser_bu p <> [].
Proof. intros [k v] H. unfold ser_bu in H. apply app_eq_nil in H. destruct H as [H _]. eapply ser_str_nonempty; eauto. Qed.

Lemma RT_named_unit : forall u, wfc_named_unit (c_cap c) sz u = true -> (c_validate c = true -> wfs_named_unit u = true) ->
  RT (de_named_unit c) (ser_named_unit u) u.
Proof.
  intros [p s pl a b scale] H Hv. unfold wfc_named_unit in H. cbn [nu_prefix nu_singular nu_plural nu_alias nu_base nu_scale] in H. bsplit.
  assert (Hv' : c_validate c = true -> forallb wfs_bu b = true /\ wfs_complex scale = true).
  { intros E. specialize (Hv E). unfold wfs_named_unit in Hv. cbn [nu_base nu_scale] in Hv. bsplit. auto. }
  unfold de_named_unit, ser_named_unit. cbn [nu_prefix nu_singular nu_plural nu_alias nu_base nu_scale].
  eapply RT_bind. apply RT_str; auto.
  eapply RT_bind. apply RT_str; auto.
  eapply RT_bind. apply RT_str; auto.
  eapply RT_bind. apply RT_bool.
  unfold de_usize, ser_usize.
  eapply RT_bind. { apply RT_u64. eapply fits_u64; eauto. }
  eapply RT_bind_eq with (s1 := []); [reflexivity | apply RT_alloc; auto | ].
  eapply RT_bind. { apply RT_list. 2: intros; apply ser_bu_nonempty.
    intros x Hx. apply RT_bu. eapply forallb_In; eauto. intros E. eapply forallb_In; eauto. apply Hv'; auto. }
  eapply RT_bind_nil. { apply RT_complex; auto. intros; apply Hv'; auto. }
  rewrite insert_all_nodup by auto. apply RT_ret.
Qed.

Lemma RT_unit_exp : forall u, wfc_unit_exp (c_cap c) sz u = true -> (c_validate c = true -> wfs_unit_exp u = true) ->
  RT (de_unit_exp c) (ser_unit_exp u) u.
Proof.
  intros [u e] H Hv. unfold wfc_unit_exp in H. cbn [ue_unit ue_exp] in H. bsplit.
  assert (Hv' : c_validate c = true -> wfs_named_unit u = true /\ wfs_complex e = true).
  { intros E. specialize (Hv E). unfold wfs_unit_exp in Hv. cbn [ue_unit ue_exp] in Hv. bsplit. auto. }
  unfold de_unit_exp, ser_unit_exp. cbn [ue_unit ue_exp].
  eapply RT_bind. { apply RT_named_unit; auto. intros; apply Hv'; auto. }
  eapply RT_bind_nil. { apply RT_complex; auto. intros; apply Hv'; auto. } apply RT_ret.
Qed.
Lemma ser_unit_exp_nonempty : forall u, ser_unit_exp u <> [].
Proof.
  intros [u e] H. unfold ser_unit_exp, ser_named_unit in H. cbn [ue_unit] in H.
  apply app_eq_nil in H. destruct H as [H _]. apply app_eq_nil in H. destruct H as [H _].
  eapply ser_str_nonempty; eauto.
Qed.

Lemma RT_unit : forall u, forallb (wfc_unit_exp (c_cap c) sz) u = true -> fits (c_cap c) (sz_uexp sz) u = true ->
  (c_validate c = true -> forallb wfs_unit_exp u = true) ->
  RT (de_unit c) (ser_unit u) u.
Proof.
  intros u H Hf Hv. unfold de_unit, ser_unit, de_usize, ser_usize.
  eapply RT_bind. { apply RT_u64. eapply fits_u64; eauto. }
  eapply RT_bind_eq with (s1 := []); [reflexivity | apply RT_alloc; auto | ].
  apply RT_list. 2: intros; apply ser_unit_exp_nonempty.
  intros x Hx. apply RT_unit_exp. eapply forallb_In; eauto. intros E. eapply forallb_In; eauto.
Qed.

Lemma RT_base : forall b, wfc_base b = true -> (c_validate c = true -> wfs_base b = true) ->
  RT (de_base c) (ser_base b) b.
Proof.
  intros [| | |x|x] H Hv; unfold de_base, ser_base; apply RT_u8_bind; tagsimp; try apply RT_ret;
    apply RT_u8_bind; cbv beta;
    (replace (c_validate c && negb (base_ok x)) with false; [apply RT_ret|]);
    symmetry; destruct (c_validate c) eqn:E; auto; specialize (Hv eq_refl); cbn [wfs_base] in Hv; rewrite Hv; auto.
Qed.

Lemma RT_fstyle : forall f, wfc_fstyle f = true -> RT de_fstyle (ser_fstyle f) f.
Proof.
  intros [| | | |n|n|] H; unfold de_fstyle, ser_fstyle; apply RT_u8_bind; tagsimp; try apply RT_ret;
    unfold de_usize, ser_usize; (eapply RT_bind_nil; [apply RT_u64; auto | apply RT_ret]).
Qed.

Lemma RT_number : forall n, wfc_number (c_cap c) sz n = true -> (c_validate c = true -> wfs_number n = true) ->
  RT (de_number c) (ser_number n) n.
Proof.
  intros [v u e b f s] H Hv. unfold wfc_number in H. cbn [n_value n_unit n_exact n_base n_format n_simpl] in H. bsplit.
  assert (Hv' : c_validate c = true -> forallb wfs_part v = true /\ forallb wfs_unit_exp u = true /\ wfs_base b = true).
  { intros E. specialize (Hv E). unfold wfs_number in Hv. cbn [n_value n_unit n_base] in Hv. bsplit. auto. }
  unfold de_number, ser_number. cbn [n_value n_unit n_exact n_base n_format n_simpl].
  eapply RT_bind. { apply RT_dist; auto. intros; apply Hv'; auto. }
  eapply RT_bind. { apply RT_unit; auto. intros; apply Hv'; auto. }
  eapply RT_bind. apply RT_bool.
  eapply RT_bind. { apply RT_base; auto. intros; apply Hv'; auto. }
  eapply RT_bind. { apply RT_fstyle; auto. }
  eapply RT_bind_nil. apply RT_bool. apply RT_ret.
Qed.
End Num2.

(* ------------------------------------------------------------------ *)
(* the mutually recursive part *)

Scheme value_mind := Induction for value Sort Prop
with expr_mind := Induction for expr Sort Prop
with scope_mind := Induction for scope Sort Prop
with oscope_mind := Induction for oscope Sort Prop
with items_mind := Induction for items Sort Prop.
Combined Scheme vtree_mutind from value_mind, expr_mind, scope_mind, oscope_mind, items_mind.

(* nesting depth of reader calls needed to read back a tree *)
Fixpoint fuel_value (v : value) : nat :=
  match v with
  | VFn _ e sc => S (Nat.max (fuel_expr e) (fuel_oscope sc))
  | VObject it => S (fuel_items it)
  | _ => 1%nat
  end
with fuel_expr (e : expr) : nat :=
  match e with
  | ELit v => S (fuel_value v)
  | EIdent _ => 1%nat
  | EParens a | EUMinus a | EUPlus a | EUDiv a | EFact a => S (fuel_expr a)
  | EBop _ a b | EApply a b | EApplyFn a b | EApplyMul a b | EAs a b | EStatements a b
  | EEquality _ a b => S (Nat.max (fuel_expr a) (fuel_expr b))
  | EFn _ a | EOf _ a | EAssign _ a => S (fuel_expr a)
  end
with fuel_scope (s : scope) : nat :=
  match s with Scope _ e sc inner => S (Nat.max (fuel_expr e) (Nat.max (fuel_oscope sc) (fuel_oscope inner))) end
with fuel_oscope (o : oscope) : nat :=
  match o with ONone => 0%nat | OSome s => fuel_scope s end
with fuel_items (it : items) : nat :=
  match it with INil => 0%nat | ICons _ v r => S (Nat.max (fuel_value v) (fuel_items r)) end.

Lemma de_value_S : forall c f, de_value c (S f) =
  bindM de_u8 (de_value_body c (de_expr c f) (de_scope c f) (de_items c f)).
Proof. reflexivity. Qed.
Lemma de_expr_S : forall c f, de_expr c (S f) = bindM de_u8 (de_expr_body c (de_value c f) (de_expr c f)).
Proof. reflexivity. Qed.
Lemma de_scope_S : forall c f, de_scope c (S f) = bindM (de_ident c) (de_scope_body c (de_expr c f) (de_scope c f)).
Proof. reflexivity. Qed.
Lemma de_items_S : forall c f n, de_items c (S f) n =
  if n =? 0 then ret INil else bindM (de_str c) (de_items_body (de_value c f) (de_items c f (n - 1))).
Proof. reflexivity. Qed.
Lemma de_items_0 : forall c f, de_items c f 0 = ret INil.
Proof. destruct f; reflexivity. Qed.

Lemma RT_month : forall m, monthb m = true -> RT de_month [m] m.
Proof. intros m H. unfold de_month. apply RT_u8_bind. unfold monthb in H. rewrite H. apply RT_ret. Qed.
Lemma RT_dow : forall d, (d <=? 6) = true -> RT de_dow [d] d.
Proof. intros d H. unfold de_dow. apply RT_u8_bind. rewrite H. apply RT_ret. Qed.
Lemma RT_day : forall d, dayb d = true -> RT de_day [d] d.
Proof.
  intros d H. unfold de_day. apply RT_u8_bind. unfold dayb in H. bsplit.
  replace ((d =? 0) || (32 <=? d)) with false by lia. apply RT_ret.
Qed.
Lemma RT_year : forall y, yearb y = true -> RT de_year (ser_i32 y) y.
Proof.
  intros y H. unfold yearb in H. bsplit. unfold de_year.
  eapply RT_bind_nil. apply RT_i32; lia.
  replace (y =? 0)%Z with false by lia. apply RT_ret.
Qed.
Lemma RT_bop : forall op, (op <=? 13) = true -> RT de_bop [op] op.
Proof. intros op H. unfold de_bop. apply RT_u8_bind. rewrite H. apply RT_ret. Qed.

Lemma imp_andb : forall (P : Prop) a b, (P -> a && b = true) -> (P -> a = true) /\ (P -> b = true).
Proof. intros P a b H. split; intros p; specialize (H p); apply andb_prop in H; tauto. Qed.
Lemma imp_orb : forall (P : Prop) a b, (P -> a || b = false) -> (P -> a = false) /\ (P -> b = false).
Proof. intros P a b H. split; intros p; specialize (H p); apply orb_false_elim in H; tauto. Qed.

Ltac hsplit :=
  repeat match goal with
  | H : (_ && _) = true |- _ => apply andb_prop in H; destruct H
  | H : _ -> (_ && _) = true |- _ => apply imp_andb in H; destruct H
  | H : _ -> (_ || _) = false |- _ => apply imp_orb in H; destruct H
  end.

Section Tree.
Variable c : cfg.
Variable asn : list bytes.
Let sz := c_sz c.

Definition P_value (v : value) : Prop :=
  wfc_value asn (c_cap c) sz v = true -> names_ok_value (c_from c) v = true ->
  (c_validate c = true -> wfs_value v = true) ->
  (c_scope_inverted c = true -> has_scope_value v = false) ->
  forall fuel, (fuel_value v <= fuel)%nat -> RT (de_value c fuel) (ser_value v) v.
Definition P_expr (e : expr) : Prop :=
  wfc_expr asn (c_cap c) sz e = true -> names_ok_expr (c_from c) e = true ->
  (c_validate c = true -> wfs_expr e = true) ->
  (c_scope_inverted c = true -> has_scope_expr e = false) ->
  forall fuel, (fuel_expr e <= fuel)%nat -> RT (de_expr c fuel) (ser_expr e) e.
Definition P_scope (s : scope) : Prop :=
  wfc_scope asn (c_cap c) sz s = true -> names_ok_scope (c_from c) s = true ->
  (c_validate c = true -> wfs_scope s = true) ->
  c_scope_inverted c = false ->
  forall fuel, (fuel_scope s <= fuel)%nat -> RT (de_scope c fuel) (ser_scope s) s.
Definition P_oscope (o : oscope) : Prop :=
  wfc_oscope asn (c_cap c) sz o = true -> names_ok_oscope (c_from c) o = true ->
  (c_validate c = true -> wfs_oscope o = true) ->
  forall fuel, (fuel_oscope o <= fuel)%nat ->
  ((c_scope_inverted c = true -> o = ONone) -> RT (opt_scope de_bool (de_scope c fuel)) (ser_oscope o) o) /\
  (c_scope_inverted c = false -> RT (opt_scope (de_flag_scope c) (de_scope c fuel)) (ser_oscope o) o).
Definition P_items (it : items) : Prop :=
  wfc_items asn (c_cap c) sz it = true -> names_ok_items (c_from c) it = true ->
  (c_validate c = true -> wfs_items it = true) ->
  (c_scope_inverted c = true -> has_scope_items it = false) ->
  forall fuel, (fuel_items it <= fuel)%nat -> RT (de_items c fuel (items_len it)) (ser_items it) it.

Ltac start_v :=
  intros; unfold P_value, P_expr; intros Hw Hn Hv Hs fuel Hf;
  cbn [wfc_value names_ok_value wfs_value has_scope_value fuel_value
       wfc_expr names_ok_expr wfs_expr has_scope_expr fuel_expr] in Hw, Hn, Hv, Hs, Hf;
  cbn [ser_value ser_expr];
  hsplit; (destruct fuel as [|fu]; [exfalso; clear - Hf; lia|]);
  rewrite ?de_value_S, ?de_expr_S; apply RT_u8_bind;
  cbv beta iota delta [de_value_body de_expr_body N.eqb Pos.eqb].

Ltac fin := first [apply RT_ret | eapply RT_bind_nil; [ | apply RT_ret] ].

Lemma RT_flag_scope_false : forall b, c_scope_inverted c = false -> RT (de_flag_scope c) (ser_bool b) b.
Proof.
  intros b H. unfold de_flag_scope. eapply RT_bind_nil. apply RT_bool. rewrite H. apply RT_ret.
Qed.

Theorem roundtrip_all :
  (forall v, P_value v) /\ (forall e, P_expr e) /\ (forall s, P_scope s) /\
  (forall o, P_oscope o) /\ (forall it, P_items it).
Proof.
  apply vtree_mutind.
  (* values *)
  - start_v. fin. apply RT_number; try assumption.
  - start_v. eapply RT_bind_nil. apply RT_str; try assumption. rewrite Hn. apply RT_ret.
  - start_v. fin. apply RT_fstyle; try assumption.
  - start_v. fin.
  - start_v. fin.
  - start_v. fin. apply RT_base; try assumption.
  - (* VFn *) intros p e IHe sc IHsc. start_v.
    eapply RT_bind. apply RT_ident; try assumption.
    eapply RT_bind. { apply IHe; try assumption. clear - Hf; lia. }
    fin. destruct (IHsc ltac:(assumption) ltac:(assumption) ltac:(assumption) fu ltac:(clear - Hf; lia)) as [Ha _]. apply Ha.
    intros E. match goal with H : _ -> (match sc with ONone => false | OSome _ => true end) = false |- _ => specialize (H E) end.
    destruct sc; [reflexivity | discriminate].
  - (* VObject *) intros it IH. start_v. unfold de_usize, ser_usize.
    eapply RT_bind. { apply RT_u64. eapply fitn_u64; eassumption. }
    eapply RT_bind_eq with (s1 := []); [reflexivity | apply RT_alloc; assumption | ].
    fin. apply IH; try assumption. clear - Hf; lia.
  - start_v. fin. apply RT_str; try assumption.
  - start_v. fin.
  - start_v. fin. apply RT_bool.
  - start_v. fin. apply RT_month; try assumption.
  - start_v. fin. apply RT_dow; try assumption.
  - start_v. eapply RT_bind. apply RT_year; try assumption.
    change [m; d] with ([m] ++ [d]). eapply RT_bind. apply RT_month; try assumption. fin. apply RT_day; try assumption.
  (* expressions *)
  - intros v IH. start_v. fin. apply IH; try assumption. clear - Hf; lia.
  - start_v. fin. apply RT_ident; try assumption.
  - intros a IH. start_v. fin. apply IH; try assumption. clear - Hf; lia.
  - intros a IH. start_v. fin. apply IH; try assumption. clear - Hf; lia.
  - intros a IH. start_v. fin. apply IH; try assumption. clear - Hf; lia.
  - intros a IH. start_v. fin. apply IH; try assumption. clear - Hf; lia.
  - intros a IH. start_v. fin. apply IH; try assumption. clear - Hf; lia.
  - intros op a IHa b IHb. start_v. change (op :: ser_expr a ++ ser_expr b) with ([op] ++ ser_expr a ++ ser_expr b).
    eapply RT_bind. apply RT_bop; try assumption. eapply RT_bind. { apply IHa; try assumption. clear - Hf; lia. } fin. apply IHb; try assumption. clear - Hf; lia.
  - intros a IHa b IHb. start_v. eapply RT_bind. { apply IHa; try assumption. clear - Hf; lia. } fin. apply IHb; try assumption. clear - Hf; lia.
  - intros a IHa b IHb. start_v. eapply RT_bind. { apply IHa; try assumption. clear - Hf; lia. } fin. apply IHb; try assumption. clear - Hf; lia.
  - intros a IHa b IHb. start_v. eapply RT_bind. { apply IHa; try assumption. clear - Hf; lia. } fin. apply IHb; try assumption. clear - Hf; lia.
  - intros a IHa b IHb. start_v. eapply RT_bind. { apply IHa; try assumption. clear - Hf; lia. } fin. apply IHb; try assumption. clear - Hf; lia.
  - intros s a IH. start_v. eapply RT_bind. apply RT_ident; try assumption. fin. apply IH; try assumption. clear - Hf; lia.
  - intros s a IH. start_v. eapply RT_bind. apply RT_ident; try assumption. fin. apply IH; try assumption. clear - Hf; lia.
  - intros s a IH. start_v. eapply RT_bind. apply RT_ident; try assumption. fin. apply IH; try assumption. clear - Hf; lia.
  - intros a IHa b IHb. start_v. eapply RT_bind. { apply IHa; try assumption. clear - Hf; lia. } fin. apply IHb; try assumption. clear - Hf; lia.
  - intros q a IHa b IHb. start_v. eapply RT_bind. apply RT_bool.
    eapply RT_bind. { apply IHa; try assumption. clear - Hf; lia. } fin. apply IHb; try assumption. clear - Hf; lia.
  (* scope *)
  - intros id e IHe sc IHsc inner IHin. unfold P_scope. intros Hw Hn Hv Hs fuel Hf.
    cbn [wfc_scope names_ok_scope wfs_scope fuel_scope ser_scope] in *. hsplit.
    destruct fuel as [|fu]; [exfalso; clear - Hf; lia|]. rewrite de_scope_S.
    eapply RT_bind. apply RT_ident; try assumption. unfold de_scope_body.
    eapply RT_bind. { apply IHe; try assumption. 2: (clear - Hf; lia). intros E; congruence. }
    destruct (IHsc ltac:(assumption) ltac:(assumption) ltac:(assumption) fu ltac:(clear - Hf; lia)) as [_ Hb].
    destruct (IHin ltac:(assumption) ltac:(assumption) ltac:(assumption) fu ltac:(clear - Hf; lia)) as [_ Hb'].
    eapply RT_bind. { apply Hb; try assumption. }
    fin. apply Hb'; try assumption.
  (* oscope *)
  - unfold P_oscope. intros _ _ _ fuel _. cbn [ser_oscope]. split; intros H; unfold opt_scope.
    + change [0] with (ser_bool false). eapply RT_bind_nil; [apply RT_bool | apply RT_ret].
    + change [0] with (ser_bool false). eapply RT_bind_nil; [apply RT_flag_scope_false; assumption | apply RT_ret].
  - intros s IH. unfold P_oscope. intros Hw Hn Hv fuel Hf.
    cbn [wfc_oscope names_ok_oscope wfs_oscope fuel_oscope ser_oscope] in *.
    split; intros H; unfold opt_scope; change (1 :: ser_scope s) with (ser_bool true ++ ser_scope s).
    + destruct (c_scope_inverted c) eqn:E; [specialize (H eq_refl); discriminate|].
      eapply RT_bind. apply RT_bool. fin. apply IH; try assumption.
    + eapply RT_bind. apply RT_flag_scope_false; try assumption. fin. apply IH; try assumption.
  (* items *)
  - unfold P_items. intros _ _ _ _ fuel _. cbn [items_len ser_items]. rewrite de_items_0. apply RT_ret.
  - intros k v IHv r IHr. unfold P_items. intros Hw Hn Hv Hs fuel Hf.
    cbn [wfc_items names_ok_items wfs_items has_scope_items fuel_items ser_items items_len] in *. hsplit.
    destruct fuel as [|fu]; [exfalso; clear - Hf; lia|]. rewrite de_items_S.
    replace (1 + items_len r =? 0) with false by lia.
    replace (1 + items_len r - 1) with (items_len r) by lia.
    eapply RT_bind. apply RT_str; try assumption. unfold de_items_body.
    eapply RT_bind. { apply IHv; try assumption. clear - Hf; lia. } fin. apply IHr; try assumption. clear - Hf; lia.
Qed.
End Tree.

(* ------------------------------------------------------------------ *)
(* fuel = input length is enough; whole-map round trip *)

Lemma ser_str_length : forall s, (8 <= length (ser_str s))%nat.
Proof. intros. unfold ser_str, ser_usize, ser_u64. rewrite app_length, be_enc_length. lia. Qed.

Lemma fuel_le_length :
  (forall v, (fuel_value v <= length (ser_value v))%nat) /\
  (forall e, (fuel_expr e <= length (ser_expr e))%nat) /\
  (forall s, (fuel_scope s <= length (ser_scope s))%nat) /\
  (forall o, (fuel_oscope o <= length (ser_oscope o))%nat) /\
  (forall it, (fuel_items it <= length (ser_items it))%nat).
Proof.
  apply vtree_mutind; intros;
    cbn [fuel_value fuel_expr fuel_scope fuel_oscope fuel_items
         ser_value ser_expr ser_scope ser_oscope ser_items length];
    repeat rewrite app_length; cbn [length];
    repeat match goal with |- context [length (ser_str ?s)] => pose proof (ser_str_length s); generalize dependent (length (ser_str s)); intros end;
    try lia.
Qed.

Section Top.
Variable c : cfg.
Variable asn : list bytes.
Let sz := c_sz c.

(* the hypotheses of the round trip, as one boolean *)
Definition rt_ok_value (v : value) : bool :=
  wfc_value asn (c_cap c) sz v && names_ok_value (c_from c) v &&
  (negb (c_validate c) || wfs_value v) && (negb (c_scope_inverted c) || negb (has_scope_value v)).

Lemma rt_ok_value_elim : forall v, rt_ok_value v = true ->
  wfc_value asn (c_cap c) sz v = true /\ names_ok_value (c_from c) v = true /\
  (c_validate c = true -> wfs_value v = true) /\
  (c_scope_inverted c = true -> has_scope_value v = false).
Proof.
  intros v H. unfold rt_ok_value in H. bsplit. repeat split; auto.
  - intros E. rewrite E in *. cbn [negb orb] in *. auto.
  - intros E. rewrite E in *. cbn [negb orb] in *. apply negb_true_iff. auto.
Qed.

Theorem value_roundtrip_fuel : forall v fuel rest, rt_ok_value v = true -> (fuel_value v <= fuel)%nat ->
  run (de_value c fuel) (ser_value v ++ rest) = Ok (v, rest).
Proof.
  intros v fuel rest H Hf. apply rt_ok_value_elim in H. destruct H as (H1 & H2 & H3 & H4).
  destruct (roundtrip_all c asn) as [Hv _]. apply Hv; auto.
Qed.

Theorem value_roundtrip : forall v rest, rt_ok_value v = true ->
  run (de_value_top c) (ser_value v ++ rest) = Ok (v, rest).
Proof.
  intros v rest H. unfold de_value_top.
  change (run (fun bs => de_value c (length bs) bs) (ser_value v ++ rest))
    with (run (de_value c (length (ser_value v ++ rest))) (ser_value v ++ rest)).
  apply value_roundtrip_fuel; auto. rewrite app_length.
  destruct fuel_le_length as [Hl _]. specialize (Hl v). lia.
Qed.

(* variables map *)
Fixpoint fuel_vars (m : vars) : nat :=
  match m with [] => 0%nat | (_, v) :: r => S (Nat.max (fuel_value v) (fuel_vars r)) end.

Definition rt_ok_vars (m : vars) : bool :=
  forallb (fun kv => strb (c_cap c) (fst kv) && rt_ok_value (snd kv)) m && fits (c_cap c) (sz_var sz) m && nodup_keys m.

Lemma de_vars_go_S : forall f n acc, de_vars_go c (S f) n acc =
  if n =? 0 then ret acc
  else bindM (de_str c) (fun k => bindM (de_value c f) (fun v => de_vars_go c f (n - 1) (map_insert k v acc))).
Proof. reflexivity. Qed.
Lemma de_vars_go_0 : forall f acc, de_vars_go c f 0 acc = ret acc.
Proof. destruct f; reflexivity. Qed.

Lemma vars_go_roundtrip : forall m fuel acc,
  forallb (fun kv => strb (c_cap c) (fst kv) && rt_ok_value (snd kv)) m = true ->
  (fuel_vars m <= fuel)%nat ->
  RT (de_vars_go c fuel (len_N m) acc) (concat (map ser_entry m))
     (fold_left (fun a kv => map_insert (fst kv) (snd kv) a) m acc).
Proof.
  induction m as [|[k v] m IH]; intros fuel acc H Hf.
  - cbn [map concat fold_left]. change (len_N (@nil (bytes * value))) with 0. rewrite de_vars_go_0. apply RT_ret.
  - cbn [forallb fst snd] in H. bsplit. cbn [fuel_vars] in Hf.
    destruct fuel as [|f]; [lia|]. rewrite de_vars_go_S, len_N_cons_nz, len_N_cons.
    cbn [map concat fold_left fst snd]. unfold ser_entry at 1. cbn [fst snd]. rewrite <- app_assoc.
    eapply RT_bind. apply RT_str; auto.
    eapply RT_bind. { intros rest. apply value_roundtrip_fuel; auto. lia. }
    apply IH; auto. lia.
Qed.

Lemma fuel_vars_le : forall m, (fuel_vars m <= length (concat (map ser_entry m)))%nat.
Proof.
  induction m as [|[k v] m IH]; cbn [fuel_vars map concat length]; auto.
  unfold ser_entry at 1. cbn [fst snd]. repeat rewrite app_length.
  pose proof (ser_str_length k). destruct fuel_le_length as [Hl _]. specialize (Hl v). lia.
Qed.

Theorem vars_roundtrip : forall m rest, rt_ok_vars m = true ->
  run (de_vars c) (ser_vars m ++ rest) = Ok (m, rest).
Proof.
  intros m rest H. unfold rt_ok_vars in H. bsplit.
  unfold de_vars.
  change (run (fun bs => (rd n <- de_usize; rd _ <- alloc c n (sz_var (c_sz c)); de_vars_go c (length bs) n []) bs) (ser_vars m ++ rest))
    with (run (rd n <- de_usize; rd _ <- alloc c n (sz_var (c_sz c)); de_vars_go c (length (ser_vars m ++ rest)) n []) (ser_vars m ++ rest)).
  unfold ser_vars, de_usize, ser_usize.
  assert (R : RT (rd n <- de_u64; rd _ <- alloc c n (sz_var (c_sz c));
                  de_vars_go c (length ((ser_u64 (len_N m) ++ concat (map ser_entry m)) ++ rest)) n [])
               (ser_u64 (len_N m) ++ concat (map ser_entry m)) m).
  { eapply RT_bind. { apply RT_u64. eapply fits_u64; eauto. }
    eapply RT_bind_eq with (s1 := []); [reflexivity | apply RT_alloc; auto | ].
    pose proof (vars_go_roundtrip m (length ((ser_u64 (len_N m) ++ concat (map ser_entry m)) ++ rest)) [] H) as G.
    rewrite insert_fold_nodup in G; auto. apply G.
    repeat rewrite app_length. pose proof (fuel_vars_le m). lia. }
  apply R.
Qed.
End Top.
