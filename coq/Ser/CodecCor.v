(* Ser/CodecCor.v -- the theorems of Ser/CodecRT.v, CodecSafe.v and
   CodecLoaded.v instantiated for the two configurations of Ser/Cfg.v:
   [cfg_today] (the repaired code, full-strength statements) and
   [cfg_pinned] (the code as pinned: refutations by computed witnesses and the
   statements that held outside the defect classes). *)
From Coq Require Import Lia ZifyBool.
From FendV Require Import Base.Prelude Ser.Generated.BuiltinNames Ser.Codec Ser.Cfg Ser.Witness
  Ser.CodecRT Ser.CodecSafe Ser.NamesProofs Ser.CodecLoaded.
Open Scope N_scope.
Arguments N.add : simpl never. Arguments N.sub : simpl never. Arguments N.mul : simpl never.
Arguments N.eqb : simpl never. Arguments N.ltb : simpl never. Arguments N.leb : simpl never.

Definition cap_today : option N := Some prealloc_cap.

(* ------------------------------------------------------------------ *)
(* general facts *)

(* a well-formed tree only mentions literals as_str can write *)
Lemma wfc_names_ok : forall asn cap sz,
  (forall v, wfc_value asn cap sz v = true -> names_ok_value asn v = true) /\
  (forall e, wfc_expr asn cap sz e = true -> names_ok_expr asn e = true) /\
  (forall s, wfc_scope asn cap sz s = true -> names_ok_scope asn s = true) /\
  (forall o, wfc_oscope asn cap sz o = true -> names_ok_oscope asn o = true) /\
  (forall it, wfc_items asn cap sz it = true -> names_ok_items asn it = true).
Proof.
  intros asn cap sz. apply vtree_mutind; intros;
    cbn [wfc_value wfc_expr wfc_scope wfc_oscope wfc_items
         names_ok_value names_ok_expr names_ok_scope names_ok_oscope names_ok_items] in *;
    bsplit; auto;
    repeat match goal with
    | IH : ?P = true -> ?Q = true, H : ?P = true |- _ => rewrite (IH H); clear IH
    end; auto.
Qed.

(* accepting more literals keeps a tree acceptable *)
Lemma names_ok_mono : forall l1 l2, (forall s, mem s l1 = true -> mem s l2 = true) ->
  (forall v, names_ok_value l1 v = true -> names_ok_value l2 v = true) /\
  (forall e, names_ok_expr l1 e = true -> names_ok_expr l2 e = true) /\
  (forall s, names_ok_scope l1 s = true -> names_ok_scope l2 s = true) /\
  (forall o, names_ok_oscope l1 o = true -> names_ok_oscope l2 o = true) /\
  (forall it, names_ok_items l1 it = true -> names_ok_items l2 it = true).
Proof.
  intros l1 l2 Hsub. apply vtree_mutind; intros;
    cbn [names_ok_value names_ok_expr names_ok_scope names_ok_oscope names_ok_items] in *;
    bsplit; auto;
    repeat match goal with
    | IH : ?P = true -> ?Q = true, H : ?P = true |- _ => rewrite (IH H); clear IH
    end; auto.
Qed.

Lemma forallb_impl : forall A (P Q : A -> bool) l, (forall x, P x = true -> Q x = true) -> forallb P l = true -> forallb Q l = true.
Proof. intros A P Q l H. induction l; cbn [forallb]; auto. intros E. bsplit. rewrite H, IHl; auto. Qed.
Lemma forallb_and : forall A (P Q : A -> bool) l, forallb P l = true -> forallb Q l = true -> forallb (fun x => P x && Q x) l = true.
Proof. intros A P Q l. induction l; cbn [forallb]; auto. intros E1 E2. bsplit. rewrite H, H1, IHl; auto. Qed.

(* ------------------------------------------------------------------ *)
(* the repaired code *)

Section Today.
Variable sz : sizes.

Lemma rt_ok_today : forall v, wfc_value as_names cap_today sz v = true -> wfs_value v = true ->
  rt_ok_value (cfg_today sz) as_names v = true.
Proof.
  intros v Hw Hs. unfold rt_ok_value. cbn [cfg_today c_sz c_cap c_from c_validate c_scope_inverted negb orb].
  destruct (wfc_names_ok as_names cap_today sz) as [Hn _].
  destruct (names_ok_mono as_names from_names as_names_sub) as [Hm _].
  fold cap_today. rewrite Hw, (Hm v (Hn v Hw)), Hs. reflexivity.
Qed.

Theorem roundtrip_today : forall v rest,
  wfc_value as_names cap_today sz v = true -> wfs_value v = true ->
  run (de_value_top (cfg_today sz)) (ser_value v ++ rest) = Ok (v, rest).
Proof. intros. apply (value_roundtrip (cfg_today sz) as_names); auto using rt_ok_today. Qed.

Theorem vars_roundtrip_today : forall m rest,
  wfc_vars as_names cap_today sz m = true -> wfs_vars m = true ->
  run (de_vars (cfg_today sz)) (ser_vars m ++ rest) = Ok (m, rest).
Proof.
  intros m rest Hw Hs. apply (vars_roundtrip (cfg_today sz) as_names); auto.
  unfold wfc_vars in Hw. bsplit. unfold rt_ok_vars. cbn [cfg_today c_sz c_cap]. fold cap_today.
  rewrite H0, H1, andb_true_r, andb_true_r. unfold wfs_vars in Hs.
  pose proof (forallb_and _ _ _ _ H Hs) as Hb. revert Hb. apply forallb_impl.
  intros [k v] E. cbn [fst snd] in *. unfold wfc_entry in E. cbn [fst snd] in E. bsplit.
  rewrite H2. cbn [andb]. apply rt_ok_today; auto.
Qed.

(* allocation and panics *)
Theorem today_bounded : forall bs, prealloc_cap * max_sz sz <= isize_max ->
  snd (de_vars (cfg_today sz) bs) <= prealloc_cap * max_sz sz /\
  (forall s, fst (de_vars (cfg_today sz) bs) <> Panic s).
Proof. intros bs H. apply (capped_bounded (cfg_today sz) prealloc_cap); auto. Qed.

(* what a load guarantees *)
Theorem today_loaded_wf : forall bs m r, bytes_ok bs ->
  run (de_vars (cfg_today sz)) bs = Ok (m, r) ->
  wfc_vars as_names cap_today sz m = true /\ wfs_vars m = true.
Proof.
  intros bs m r Hb E. split.
  - apply (loaded_wfc (cfg_today sz) as_names from_names_sub bs m r Hb E).
  - eapply (loaded_wfs (cfg_today sz)); eauto.
Qed.

(* ... hence whatever was loaded can be saved and loaded again *)
Theorem today_resave_reload : forall bs m r rest, bytes_ok bs ->
  run (de_vars (cfg_today sz)) bs = Ok (m, r) ->
  run (de_vars (cfg_today sz)) (ser_vars m ++ rest) = Ok (m, rest).
Proof.
  intros bs m r rest Hb E. destruct (today_loaded_wf bs m r Hb E) as [Hw Hs].
  apply vars_roundtrip_today; auto.
Qed.
End Today.

(* ------------------------------------------------------------------ *)
(* the code as pinned: what held outside the defect classes, and witnesses *)

Definition known_pinned_scope_flag (v : value) : bool := has_scope_value v.
Definition known_pinned_builtin_name (v : value) : bool := negb (names_ok_value from_names_pinned v).
Definition known_pinned (v : value) : bool := known_pinned_scope_flag v || known_pinned_builtin_name v.

Section Pinned.
Variable sz : sizes.

Lemma rt_ok_pinned : forall v, wfc_value as_names None sz v = true -> known_pinned v = false ->
  rt_ok_value (cfg_pinned sz) as_names v = true.
Proof.
  intros v Hw Hk. unfold known_pinned, known_pinned_scope_flag, known_pinned_builtin_name in Hk.
  apply orb_false_elim in Hk. destruct Hk as [H1 H2]. apply negb_false_iff in H2.
  unfold rt_ok_value. cbn [cfg_pinned c_sz c_cap c_from c_validate c_scope_inverted negb orb].
  rewrite Hw, H2, H1. reflexivity.
Qed.

Theorem roundtrip_pinned_except_known : forall v rest,
  wfc_value as_names None sz v = true -> known_pinned v = false ->
  run (de_value_top (cfg_pinned sz)) (ser_value v ++ rest) = Ok (v, rest).
Proof. intros. apply (value_roundtrip (cfg_pinned sz) as_names); auto using rt_ok_pinned. Qed.

(* classifier of the repaired finding alloc_untrusted_len: the pinned reader
   asked for more bytes than the largest element size times the input length *)
Definition alloc_okb_pinned (bs : bytes) : bool :=
  snd (de_vars (cfg_pinned sz) bs) <=? max_sz sz * len_N bs.

Theorem no_panic_pinned_except_known : forall bs,
  alloc_okb_pinned bs = true -> max_sz sz * len_N bs <= isize_max ->
  forall s, fst (de_vars (cfg_pinned sz) bs) <> Panic s.
Proof.
  intros bs Ha Hl s E. apply panic_means_huge_request in E.
  unfold alloc_okb_pinned in Ha. apply N.leb_le in Ha. lia.
Qed.
End Pinned.

(* ---- witnesses (sizes of the x86_64 build) ---- *)
Lemma w_closure_wf : wfc_value as_names None sizes_x64 w_closure = true /\
  wfc_value as_names cap_today sizes_x64 w_closure = true /\ wfs_value w_closure = true.
Proof. vm_compute. repeat split; reflexivity. Qed.
Lemma w_closure_fails_pinned : run (de_value_top (cfg_pinned sizes_x64)) (ser_value w_closure) = Err EDeser.
Proof. vm_compute. reflexivity. Qed.
Lemma w_floor_wf : wfc_value as_names None sizes_x64 w_floor = true /\
  wfc_value as_names cap_today sizes_x64 w_floor = true /\ wfs_value w_floor = true.
Proof. vm_compute. repeat split; reflexivity. Qed.
Lemma w_floor_fails_pinned : run (de_value_top (cfg_pinned sizes_x64)) (ser_value w_floor) = Err EDeser.
Proof. vm_compute. reflexivity. Qed.

Lemma img_closure_pinned : de_vars (cfg_pinned sizes_x64) img_closure = (Err EDeser, 7423621035766841344).
Proof. vm_compute. reflexivity. Qed.
Lemma img_closure_today :
  match run (de_vars (cfg_today sizes_x64)) img_closure with
  | Ok (m, []) => (length m =? 4)%nat && list_N_eqb (ser_vars m) img_closure
  | _ => false end = true.
Proof. vm_compute. reflexivity. Qed.

Lemma img_panic_pinned : de_vars (cfg_pinned sizes_x64) img_panic = (Panic 1, 9223372036854775808).
Proof. vm_compute. reflexivity. Qed.
Lemma img_alloc_pinned : de_vars (cfg_pinned sizes_x64) img_alloc = (Err EDeser, 1099511627776).
Proof. vm_compute. reflexivity. Qed.
Lemma img_panic_alloc_today :
  de_vars (cfg_today sizes_x64) img_panic = (Err EDeser, 1024) /\
  de_vars (cfg_today sizes_x64) img_alloc = (Err EDeser, 1024).
Proof. vm_compute. split; reflexivity. Qed.

Lemma bad_vars_load_pinned :
  forallb (fun m => match run (de_vars (cfg_pinned sizes_x64)) (ser_vars m) with
                    | Ok (m', []) => negb (wfs_vars m') && list_N_eqb (ser_vars m') (ser_vars m)
                    | _ => false end) bad_vars = true.
Proof. vm_compute. reflexivity. Qed.
Lemma bad_vars_rejected_today :
  forallb (fun m => match run (de_vars (cfg_today sizes_x64)) (ser_vars m) with
                    | Err EDeser => true | _ => false end) bad_vars = true.
Proof. vm_compute. reflexivity. Qed.

Lemma odd_vars_load_today :
  forallb (fun m => match run (de_vars (cfg_today sizes_x64)) (ser_vars m) with
                    | Ok (m', []) => wfs_vars m' && list_N_eqb (ser_vars m') (ser_vars m)
                    | _ => false end) odd_vars = true.
Proof. vm_compute. reflexivity. Qed.

Lemma x64_cap_ok : prealloc_cap * max_sz sizes_x64 <= isize_max.
Proof. vm_compute. discriminate. Qed.
