(* Ser/CodecCor.v -- corollaries of the round-trip theorem for the concrete
   configurations of Ser/Cfg.v, and the computed witnesses of the refuted
   statements. *)
From Coq Require Import Lia ZifyBool.
From FendV Require Import Base.Prelude Ser.Generated.BuiltinNames Ser.Codec Ser.Cfg Ser.CodecRT Ser.CodecSafe Ser.NamesProofs Ser.CodecLoaded.
Open Scope N_scope.
Arguments N.add : simpl never. Arguments N.sub : simpl never. Arguments N.mul : simpl never.
Arguments N.eqb : simpl never. Arguments N.ltb : simpl never. Arguments N.leb : simpl never.

(* the two classes of values that do not survive a reload today *)
Definition known_C12_scope_flag (v : value) : bool := has_scope_value v.
Definition known_C12_builtin_name (v : value) : bool := negb (names_ok_value from_names v).
Definition known_C12 (v : value) : bool := known_C12_scope_flag v || known_C12_builtin_name v.

(* a well-formed tree only mentions literals as_str can write *)
Lemma wfc_names_ok : forall asn sz,
  (forall v, wfc_value asn sz v = true -> names_ok_value asn v = true) /\
  (forall e, wfc_expr asn sz e = true -> names_ok_expr asn e = true) /\
  (forall s, wfc_scope asn sz s = true -> names_ok_scope asn s = true) /\
  (forall o, wfc_oscope asn sz o = true -> names_ok_oscope asn o = true) /\
  (forall it, wfc_items asn sz it = true -> names_ok_items asn it = true).
Proof.
  intros asn sz. apply vtree_mutind; intros;
    cbn [wfc_value wfc_expr wfc_scope wfc_oscope wfc_items
         names_ok_value names_ok_expr names_ok_scope names_ok_oscope names_ok_items] in *;
    bsplit; auto;
    repeat match goal with
    | IH : ?P = true -> ?Q = true, H : ?P = true |- _ => rewrite (IH H); clear IH
    end; auto.
Qed.

Section Cor.
Variable sz : sizes.
Hypothesis Hsz : sizes_okb sz = true.

Lemma rt_ok_today : forall v, wfc_value as_names sz v = true -> known_C12 v = false ->
  rt_ok_value (cfg_today sz) as_names v = true.
Proof.
  intros v Hw Hk. unfold known_C12, known_C12_scope_flag, known_C12_builtin_name in Hk.
  apply orb_false_elim in Hk. destruct Hk as [H1 H2]. apply negb_false_iff in H2.
  unfold rt_ok_value. cbn [cfg_today c_sz c_from c_validate c_scope_inverted negb orb].
  rewrite Hw, H2, H1. reflexivity.
Qed.

Lemma rt_ok_fixed : forall v, wfc_value as_names sz v = true -> wfs_value v = true ->
  rt_ok_value (cfg_fixed sz) as_names v = true.
Proof.
  intros v Hw Hs. unfold rt_ok_value. cbn [cfg_fixed c_sz c_from c_validate c_scope_inverted negb orb].
  destruct (wfc_names_ok as_names sz) as [Hn _]. rewrite Hw, (Hn v Hw), Hs. reflexivity.
Qed.

Theorem roundtrip_except_known : forall v rest,
  wfc_value as_names sz v = true -> known_C12 v = false ->
  run (de_value_top (cfg_today sz)) (ser_value v ++ rest) = Ok (v, rest).
Proof. intros. apply (value_roundtrip (cfg_today sz) as_names); auto using rt_ok_today. Qed.

Theorem roundtrip_fixed : forall v rest,
  wfc_value as_names sz v = true -> wfs_value v = true ->
  run (de_value_top (cfg_fixed sz)) (ser_value v ++ rest) = Ok (v, rest).
Proof. intros. apply (value_roundtrip (cfg_fixed sz) as_names); auto using rt_ok_fixed. Qed.

Lemma forallb_impl : forall A (P Q : A -> bool) l, (forall x, P x = true -> Q x = true) -> forallb P l = true -> forallb Q l = true.
Proof. intros A P Q l H. induction l; cbn [forallb]; auto. intros E. bsplit. rewrite H, IHl; auto. Qed.
Lemma forallb_and : forall A (P Q : A -> bool) l, forallb P l = true -> forallb Q l = true -> forallb (fun x => P x && Q x) l = true.
Proof. intros A P Q l. induction l; cbn [forallb]; auto. intros E1 E2. bsplit. rewrite H, H1, IHl; auto. Qed.

Theorem vars_roundtrip_except_known : forall m rest,
  wfc_vars as_names sz m = true -> forallb (fun kv => negb (known_C12 (snd kv))) m = true ->
  run (de_vars (cfg_today sz)) (ser_vars m ++ rest) = Ok (m, rest).
Proof.
  intros m rest Hw Hk. apply (vars_roundtrip (cfg_today sz) as_names); auto.
  unfold wfc_vars in Hw. bsplit. unfold rt_ok_vars. cbn [cfg_today c_sz].
  rewrite H0, H1, andb_true_r, andb_true_r.
  pose proof (forallb_and _ _ _ _ H Hk) as Hb. revert Hb. apply forallb_impl.
  intros [k v] E. cbn [fst snd] in *. unfold wfc_entry in E. cbn [fst snd] in E. bsplit.
  rewrite H2. cbn [andb]. apply rt_ok_today; auto. apply negb_true_iff; auto.
Qed.

Theorem vars_roundtrip_fixed : forall m rest,
  wfc_vars as_names sz m = true -> wfs_vars m = true ->
  run (de_vars (cfg_fixed sz)) (ser_vars m ++ rest) = Ok (m, rest).
Proof.
  intros m rest Hw Hs. apply (vars_roundtrip (cfg_fixed sz) as_names); auto.
  unfold wfc_vars in Hw. bsplit. unfold rt_ok_vars. cbn [cfg_fixed c_sz].
  rewrite H0, H1, andb_true_r, andb_true_r. unfold wfs_vars in Hs.
  pose proof (forallb_and _ _ _ _ H Hs) as Hb. revert Hb. apply forallb_impl.
  intros [k v] E. cbn [fst snd] in *. unfold wfc_entry in E. cbn [fst snd] in E. bsplit.
  rewrite H2. cbn [andb]. apply rt_ok_fixed; auto.
Qed.
End Cor.

(* ---- witnesses ---- *)
Definition q_int (n : N) : bigrat := mkRat SPos (Small n) (Small 1).
Definition c_int (n : N) : complex := mkC (RSimple (q_int n)) (RSimple (q_int 0)).
Definition num_int (n : N) : number :=
  mkNum [(c_int n, q_int 1)] [] true (BPlain 10) FAuto true.

(* g in `f = \x.\y.x+y; g = f 3` *)
Definition w_closure : value :=
  VFn (B"y") (EBop 0 (EIdent (B"x")) (EIdent (B"y")))
      (OSome (Scope (B"x") (ELit (VNum (num_int 3))) ONone ONone)).
Definition w_floor : value := VBuiltin (B"floor").

Lemma w_closure_wf : wfc_value as_names sizes_x64 w_closure = true /\ wfs_value w_closure = true.
Proof. vm_compute. split; reflexivity. Qed.
Lemma w_closure_fails : fst (run (de_value_top (cfg_pinned sizes_x64)) (ser_value w_closure), 0) = Err EDeser.
Proof. vm_compute. reflexivity. Qed.
Lemma w_floor_wf : wfc_value as_names sizes_x64 w_floor = true /\ wfs_value w_floor = true.
Proof. vm_compute. split; reflexivity. Qed.
Lemma w_floor_fails : run (de_value_top (cfg_pinned sizes_x64)) (ser_value w_floor) = Err EDeser.
Proof. vm_compute. reflexivity. Qed.

(* the image fend wrote for the history  f = \x.\y.x+y ; g = f 3  (hash-map
   order of one particular run): the pinned reader fails on it after asking
   for 7423621035766841344 bytes; the repaired reader loads all four variables *)
Definition img_closure : bytes := [0;0;0;0;0;0;0;4;0;0;0;0;0;0;0;1;95;6;0;0;0;0;0;0;0;1;121;7;0;1;0;0;0;0;0;0;0;1;120;1;0;0;0;0;0;0;0;1;121;1;0;0;0;0;0;0;0;1;120;0;0;0;0;0;0;0;0;0;1;1;2;1;0;0;0;0;0;0;0;3;1;0;0;0;0;0;0;0;1;1;2;1;0;0;0;0;0;0;0;0;1;0;0;0;0;0;0;0;1;2;1;0;0;0;0;0;0;0;1;1;0;0;0;0;0;0;0;1;0;0;0;0;0;0;0;0;1;5;10;7;1;0;0;0;0;0;0;0;0;0;1;103;6;0;0;0;0;0;0;0;1;121;7;0;1;0;0;0;0;0;0;0;1;120;1;0;0;0;0;0;0;0;1;121;1;0;0;0;0;0;0;0;1;120;0;0;0;0;0;0;0;0;0;1;1;2;1;0;0;0;0;0;0;0;3;1;0;0;0;0;0;0;0;1;1;2;1;0;0;0;0;0;0;0;0;1;0;0;0;0;0;0;0;1;2;1;0;0;0;0;0;0;0;1;1;0;0;0;0;0;0;0;1;0;0;0;0;0;0;0;0;1;5;10;7;1;0;0;0;0;0;0;0;0;0;1;102;6;0;0;0;0;0;0;0;1;120;12;0;0;0;0;0;0;0;1;121;7;0;1;0;0;0;0;0;0;0;1;120;1;0;0;0;0;0;0;0;1;121;0;0;0;0;0;0;0;0;3;97;110;115;6;0;0;0;0;0;0;0;1;121;7;0;1;0;0;0;0;0;0;0;1;120;1;0;0;0;0;0;0;0;1;121;1;0;0;0;0;0;0;0;1;120;0;0;0;0;0;0;0;0;0;1;1;2;1;0;0;0;0;0;0;0;3;1;0;0;0;0;0;0;0;1;1;2;1;0;0;0;0;0;0;0;0;1;0;0;0;0;0;0;0;1;2;1;0;0;0;0;0;0;0;1;1;0;0;0;0;0;0;0;1;0;0;0;0;0;0;0;0;1;5;10;7;1;0;0].
Lemma img_closure_today : de_vars (cfg_pinned sizes_x64) img_closure = (Err EDeser, 7423621035766841344).
Proof. vm_compute. reflexivity. Qed.
Lemma img_closure_fixed :
  match run (de_vars (cfg_fixed sizes_x64)) img_closure with
  | Ok (m, []) => (length m =? 4)%nat && list_N_eqb (ser_vars m) img_closure
  | _ => false end = true.
Proof. vm_compute. reflexivity. Qed.

(* ---- C14 witnesses ---- *)
(* one variable whose name has length field 2^63: Vec::<u8>::with_capacity
   panics with `capacity overflow' *)
Definition img_panic : bytes := [0;0;0;0;0;0;0;1; 128;0;0;0;0;0;0;0].
Lemma img_panic_panics : de_vars (cfg_pinned sizes_x64) img_panic = (Panic 1, 9223372036854775808).
Proof. vm_compute. reflexivity. Qed.
(* ... 2^40: a 16-byte input makes the reader ask for a terabyte *)
Definition img_alloc : bytes := [0;0;0;0;0;0;0;1; 0;0;1;0;0;0;0;0].
Lemma img_alloc_requests : de_vars (cfg_pinned sizes_x64) img_alloc = (Err EDeser, 1099511627776).
Proof. vm_compute. reflexivity. Qed.

Definition num_with (re_num re_den : biguint) (b : base) : number :=
  mkNum [(mkC (RSimple (mkRat SPos re_num re_den)) (RSimple (q_int 0)), q_int 1)] [] true b FAuto true.
Definition bad_vars : list vars :=
  [ [(B"a", VNum (num_with (Small 5) (Small 1) (BPlain 0)))];      (* base 0: `base appears to be 0' panic *)
    [(B"a", VNum (num_with (Small 5) (Small 1) (BPlain 1)))];      (* base 1: un-polled infinite loop *)
    [(B"a", VNum (num_with (Small 5) (Small 1) (BPlain 200)))];    (* base 200: unwrap on None *)
    [(B"a", VNum (num_with (Large []) (Small 1) (BPlain 10)))];    (* empty limb vector: index out of bounds *)
    [(B"a", VNum (num_with (Small 5) (Small 0) (BPlain 10)))];     (* zero denominator *)
    [(B"f", VFn (B"x") (EIdent []) ONone)] ].                      (* empty identifier: unwrap on None *)
Lemma bad_vars_load_today :
  forallb (fun m => match run (de_vars (cfg_pinned sizes_x64)) (ser_vars m) with
                    | Ok (m', []) => negb (wfs_vars m') && list_N_eqb (ser_vars m') (ser_vars m)
                    | _ => false end) bad_vars = true.
Proof. vm_compute. reflexivity. Qed.
Lemma bad_vars_rejected_fixed :
  forallb (fun m => match run (de_vars (cfg_fixed sizes_x64)) (ser_vars m) with
                    | Err EDeser => true | _ => false end) bad_vars = true.
Proof. vm_compute. reflexivity. Qed.

(* ---- C14 statements for the concrete configurations ---- *)
(* the classifier of finding C14 alloc_untrusted_len: the reader asked for
   more bytes than the largest element size times the input length *)
Definition alloc_okb (sz : sizes) (bs : bytes) : bool :=
  snd (de_vars (cfg_today sz) bs) <=? max_sz sz * len_N bs.

Theorem no_panic_except_known : forall sz bs,
  alloc_okb sz bs = true -> max_sz sz * len_N bs <= isize_max ->
  forall s, fst (de_vars (cfg_today sz) bs) <> Panic s.
Proof.
  intros sz bs Ha Hl s E. apply panic_means_huge_request in E.
  unfold alloc_okb in Ha. apply N.leb_le in Ha. lia.
Qed.

Theorem fixed_bounded : forall sz bs, prealloc_cap * max_sz sz <= isize_max ->
  snd (de_vars (cfg_fixed sz) bs) <= prealloc_cap * max_sz sz /\
  (forall s, fst (de_vars (cfg_fixed sz) bs) <> Panic s).
Proof. intros sz bs H. apply (capped_bounded (cfg_fixed sz) prealloc_cap); auto. Qed.

Theorem fixed_loaded_wfs : forall sz bs m r,
  run (de_vars (cfg_fixed sz)) bs = Ok (m, r) -> wfs_vars m = true.
Proof. intros sz bs m r H. eapply (loaded_wfs (cfg_fixed sz)); eauto. Qed.

Lemma x64_cap_ok : prealloc_cap * max_sz sizes_x64 <= isize_max.
Proof. vm_compute. discriminate. Qed.
Lemma x64_sizes_ok : sizes_okb sizes_x64 = true.
Proof. reflexivity. Qed.

(* what was loaded can be saved and loaded again: for the tree being checked
   (outside the scope class: the reader of scope.rs is not the inverse of its
   writer) and for the repaired reader on inputs that fit in memory *)
Lemma from_names_sub : forall s, mem s from_names = true -> mem s as_names = true.
Proof.
  intros s H. apply mem_In in H. pose proof from_names_subset as F. rewrite forallb_forall in F. apply F. exact H.
Qed.

Theorem resave_reload_except_known : forall sz, sizes_okb sz = true -> forall bs m r rest,
  bytes_ok bs -> run (de_vars (cfg_today sz)) bs = Ok (m, r) ->
  forallb (fun kv => negb (has_scope_value (snd kv))) m = true ->
  run (de_vars (cfg_today sz)) (ser_vars m ++ rest) = Ok (m, rest).
Proof.
  intros sz Hs bs m r rest Hb E Hk.
  destruct (loaded_wfc (cfg_today sz) as_names eq_refl from_names_sub bs m r Hb E) as [Hw Hn].
  apply vars_roundtrip_except_known; auto.
  cbn [cfg_today c_from] in Hn.
  pose proof (forallb_and _ _ _ _ Hk Hn) as Hb2. revert Hb2. apply forallb_impl.
  intros [k v] H. cbn [fst snd] in *. apply andb_prop in H. destruct H as [H1 H2].
  unfold known_C12, known_C12_scope_flag, known_C12_builtin_name. apply negb_true_iff in H1. rewrite H1, H2. reflexivity.
Qed.
