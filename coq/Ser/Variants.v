(* Ser/Variants.v -- structure-aware variants of a value tree, for the C14
   generators (definitions only; coq/Ser/Run.v op `variants').  Every variant
   differs from the original in ONE field, replaced by an alternative the wire
   format can express: other encodings of the same number (limb-vector form
   with trailing / leading zero limbs, empty limb vector), zero and odd
   numerators and denominators, impossible calendar dates inside the ranges
   the loader checks, empty / duplicated / truncated containers, empty
   strings, flipped flags, boundary bases and precisions.  Whether a variant
   is accepted is decided by the reader ([de_vars]); the check compares that
   with the implementation and evaluates against everything accepted. *)
From FendV Require Import Base.Prelude Ser.Codec.
Open Scope N_scope.

(* replace one element / drop / duplicate / empty *)
Fixpoint holes {A} (alt : A -> list A) (l : list A) : list (list A) :=
  match l with
  | [] => []
  | x :: r => map (fun y => y :: r) (alt x) ++ map (cons x) (holes alt r)
  end.
Definition alt_list {A} (alt : A -> list A) (l : list A) : list (list A) :=
  holes alt l ++ [[]] ++
  match l with x :: r => [r; x :: x :: r; l ++ [x]] | [] => [] end.

Definition alt_biguint (b : biguint) : list biguint :=
  match b with
  | Small x => [Large [x]; Large [x; 0]; Large [x; 0; 0]; Large [0; x]; Large []; Large [0]; Large [0; 0];
                Small 0; Small 1; Small 18446744073709551615]
  | Large v => [Large (v ++ [0]); Large (v ++ [0; 0]); Large (0 :: v); Large []; Large [0]; Large [0; 0];
                Large (map (fun _ => 0) v); Small 0; Small 1; Small (hd 0 v)]
  end.
Definition alt_sign (s : sign) : list sign := [match s with SNeg => SPos | SPos => SNeg end].
Definition alt_bigrat (q : bigrat) : list bigrat :=
  map (fun n => mkRat (r_sign q) n (r_den q)) (alt_biguint (r_num q)) ++
  map (fun d => mkRat (r_sign q) (r_num q) d) (alt_biguint (r_den q)) ++
  map (fun s => mkRat s (r_num q) (r_den q)) (alt_sign (r_sign q)) ++
  [mkRat SPos (Small 2) (Small 1); mkRat SPos (Small 1) (Small 2); mkRat SNeg (Small 0) (Small 1);
   mkRat SPos (Small 6) (Small 4); mkRat SPos (Large [0; 1]) (Large [0; 1])].
Definition alt_real (r : real) : list real :=
  match r with
  | RSimple q => map RSimple (alt_bigrat q) ++ [RPi q]
  | RPi q => map RPi (alt_bigrat q) ++ [RSimple q]
  end.
Definition alt_complex (z : complex) : list complex :=
  map (fun a => mkC a (c_im z)) (alt_real (c_re z)) ++ map (fun b => mkC (c_re z) b) (alt_real (c_im z)) ++
  [mkC (c_im z) (c_re z)].
Definition alt_part (p : complex * bigrat) : list (complex * bigrat) :=
  map (fun a => (a, snd p)) (alt_complex (fst p)) ++ map (fun b => (fst p, b)) (alt_bigrat (snd p)).
Definition alt_bytes (s : bytes) : list bytes :=
  match s with [] => [[120]] | _ => [[]] end.
Definition alt_bu (p : bytes * complex) : list (bytes * complex) :=
  map (fun k => (k, snd p)) (alt_bytes (fst p)) ++ map (fun v => (fst p, v)) (alt_complex (snd p)).
Definition alt_named_unit (u : named_unit) : list named_unit :=
  map (fun x => mkNU x (nu_singular u) (nu_plural u) (nu_alias u) (nu_base u) (nu_scale u)) (alt_bytes (nu_prefix u)) ++
  map (fun x => mkNU (nu_prefix u) x (nu_plural u) (nu_alias u) (nu_base u) (nu_scale u)) (alt_bytes (nu_singular u)) ++
  map (fun x => mkNU (nu_prefix u) (nu_singular u) x (nu_alias u) (nu_base u) (nu_scale u)) (alt_bytes (nu_plural u)) ++
  [mkNU (nu_prefix u) (nu_singular u) (nu_plural u) (negb (nu_alias u)) (nu_base u) (nu_scale u)] ++
  map (fun x => mkNU (nu_prefix u) (nu_singular u) (nu_plural u) (nu_alias u) x (nu_scale u)) (alt_list alt_bu (nu_base u)) ++
  map (fun x => mkNU (nu_prefix u) (nu_singular u) (nu_plural u) (nu_alias u) (nu_base u) x) (alt_complex (nu_scale u)).
Definition alt_unit_exp (u : unit_exp) : list unit_exp :=
  map (fun x => mkUE x (ue_exp u)) (alt_named_unit (ue_unit u)) ++
  map (fun x => mkUE (ue_unit u) x) (alt_complex (ue_exp u)).
Definition alt_base (b : base) : list base :=
  [BBinary; BOctal; BHex; BCustom 2; BCustom 36; BPlain 2; BPlain 36; BPlain 10; BCustom 10].
Definition alt_fstyle (f : fstyle) : list fstyle :=
  [FImproper; FMixed; FExactFloat; FExact; FDp 0; FDp 1; FDp 18446744073709551615; FSf 0; FSf 1;
   FSf 18446744073709551615; FAuto].
Definition alt_number (n : number) : list number :=
  map (fun x => mkNum x (n_unit n) (n_exact n) (n_base n) (n_format n) (n_simpl n)) (alt_list alt_part (n_value n)) ++
  map (fun x => mkNum (n_value n) x (n_exact n) (n_base n) (n_format n) (n_simpl n)) (alt_list alt_unit_exp (n_unit n)) ++
  [mkNum (n_value n) (n_unit n) (negb (n_exact n)) (n_base n) (n_format n) (n_simpl n);
   mkNum (n_value n) (n_unit n) (n_exact n) (n_base n) (n_format n) (negb (n_simpl n))] ++
  map (fun x => mkNum (n_value n) (n_unit n) (n_exact n) x (n_format n) (n_simpl n)) (alt_base (n_base n)) ++
  map (fun x => mkNum (n_value n) (n_unit n) (n_exact n) (n_base n) x (n_simpl n)) (alt_fstyle (n_format n)).

(* calendar dates the loader's range checks (year <> 0, month 1..12, day 1..31)
   let through although they do not exist, and the extremes of the ranges *)
Definition alt_date (y : Z) (m d : N) : list value :=
  [VDate y m 29; VDate y m 30; VDate y m 31; VDate y m 1; VDate y 2 28; VDate y 2 29; VDate y 2 30; VDate y 2 31;
   VDate y 4 31; VDate y 6 31; VDate y 9 31; VDate y 11 31; VDate y 12 31; VDate y 1 31;
   VDate 1900 2 29; VDate 2023 2 29; VDate 2024 2 29; VDate 2024 2 30; VDate 2000 2 29; VDate 2100 2 29;
   VDate 2147483647 12 31; VDate 2147483647 12 30; VDate (-2147483648) 1 1; VDate (-1) 12 31; VDate 1 1 1;
   VDate (-1) 2 29; VDate (-4) 2 29; VDate (-5) 2 29].

Fixpoint alt_value (v : value) : list value :=
  match v with
  | VNum n => map VNum (alt_number n)
  | VBuiltin _ => []
  | VFormat f => map VFormat (alt_fstyle f)
  | VDp | VSf | VUnit => []
  | VBase b => map VBase (alt_base b)
  | VFn p e sc => map (fun x => VFn p x sc) (alt_expr e) ++ map (fun x => VFn p e x) (alt_oscope sc)
  | VObject it => map VObject (alt_items it) ++ [VObject INil] ++
                  match it with ICons k x r => [VObject (ICons k x it)] | INil => [] end
  | VString s => map VString (alt_bytes s)
  | VBool b => [VBool (negb b)]
  | VMonth m => [VMonth 1; VMonth 2; VMonth 12]
  | VDow d => [VDow 0; VDow 6]
  | VDate y m d => alt_date y m d
  end
with alt_expr (e : expr) : list expr :=
  match e with
  | ELit v => map ELit (alt_value v)
  | EIdent _ => []
  | EParens a => map EParens (alt_expr a)
  | EUMinus a => map EUMinus (alt_expr a)
  | EUPlus a => map EUPlus (alt_expr a)
  | EUDiv a => map EUDiv (alt_expr a)
  | EFact a => map EFact (alt_expr a)
  | EBop op a b => map (fun x => EBop op x b) (alt_expr a) ++ map (fun x => EBop op a x) (alt_expr b) ++
                   [EBop 4 a b; EBop 5 a b; EBop 6 a b; EBop 10 a b; EBop 12 a b]
  | EApply a b => map (fun x => EApply x b) (alt_expr a) ++ map (fun x => EApply a x) (alt_expr b)
  | EApplyFn a b => map (fun x => EApplyFn x b) (alt_expr a) ++ map (fun x => EApplyFn a x) (alt_expr b)
  | EApplyMul a b => map (fun x => EApplyMul x b) (alt_expr a) ++ map (fun x => EApplyMul a x) (alt_expr b)
  | EAs a b => map (fun x => EAs x b) (alt_expr a) ++ map (fun x => EAs a x) (alt_expr b)
  | EFn s a => map (EFn s) (alt_expr a)
  | EOf s a => map (EOf s) (alt_expr a)
  | EAssign s a => map (EAssign s) (alt_expr a)
  | EStatements a b => map (fun x => EStatements x b) (alt_expr a) ++ map (fun x => EStatements a x) (alt_expr b)
  | EEquality q a b => map (fun x => EEquality q x b) (alt_expr a) ++ map (fun x => EEquality q a x) (alt_expr b)
  end
with alt_scope (s : scope) : list scope :=
  match s with
  | Scope id e sc inner =>
    map (fun x => Scope id x sc inner) (alt_expr e) ++ map (fun x => Scope id e x inner) (alt_oscope sc) ++
    map (fun x => Scope id e sc x) (alt_oscope inner)
  end
with alt_oscope (o : oscope) : list oscope :=
  match o with
  | ONone => []
  | OSome s => ONone :: map OSome (alt_scope s)
  end
with alt_items (it : items) : list items :=
  match it with
  | INil => []
  | ICons k v r => map (fun x => ICons k x r) (alt_value v) ++ map (ICons k v) (alt_items r) ++ [ICons [] v r]
  end.

(* wire tag of a value (the kind-directed evaluation battery of the check) *)
Definition value_tag (v : value) : N :=
  match v with
  | VNum _ => 0 | VBuiltin _ => 1 | VFormat _ => 2 | VDp => 3 | VSf => 4 | VBase _ => 5 | VFn _ _ _ => 6
  | VObject _ => 7 | VString _ => 8 | VUnit => 9 | VBool _ => 10 | VMonth _ => 11 | VDow _ => 12 | VDate _ _ _ => 13
  end.

(* single-variable images `a = v'` for every variant v' of every value of a map *)
Definition variant_images (m : vars) : list bytes :=
  concat (map (fun kv => map (fun v' => ser_vars [([97], v')]) (alt_value (snd kv))) m).
