(* Ser/CodecSafe.v -- properties of the readers on ARBITRARY input (C14):
   a successful read consumes a prefix; the fuel never runs out (the model is
   total in the sense that matters: no spurious failure); allocation requests
   and capacity-overflow panics with and without the capacity cap; what the
   validating reader guarantees of a loaded value. *)
From Coq Require Import Lia ZifyBool.
From FendV Require Import Base.Prelude Ser.Codec Ser.CodecRT.
Open Scope N_scope.
Arguments N.add : simpl never. Arguments N.sub : simpl never. Arguments N.mul : simpl never.
Arguments N.div : simpl never. Arguments N.modulo : simpl never.
Arguments N.eqb : simpl never. Arguments N.ltb : simpl never. Arguments N.leb : simpl never.
Arguments N.max : simpl never. Arguments N.min : simpl never.

(* ------------------------------------------------------------------ *)
(* A. a successful read leaves a suffix of its input *)

Definition pre {A} (m : M A) : Prop :=
  forall bs a r, run m bs = Ok (a, r) -> exists p, bs = p ++ r.
Definition spre {A} (m : M A) : Prop :=
  forall bs a r, run m bs = Ok (a, r) -> exists p, bs = p ++ r /\ p <> [].

Lemma spre_pre : forall A (m : M A), spre m -> pre m.
Proof. intros A m H bs a r E. destruct (H bs a r E) as [p [Hp _]]. eauto. Qed.

Lemma pre_ret : forall A (a : A), pre (ret a).
Proof. intros A a bs a' r E. rewrite run_ret in E. inversion E; subst. exists []; reflexivity. Qed.
Lemma pre_fail : forall A e, pre (@fail A e).
Proof. intros A e bs a r E. rewrite run_fail in E. discriminate. Qed.
Lemma spre_fail : forall A e, spre (@fail A e).
Proof. intros A e bs a r E. rewrite run_fail in E. discriminate. Qed.

Lemma pre_bind : forall A R (m : M A) (f : A -> M R),
  pre m -> (forall a, pre (f a)) -> pre (bindM m f).
Proof.
  intros A R m f Hm Hf bs b r E. rewrite run_bind in E.
  destruct (run m bs) as [[a r1]|e|s] eqn:E1; try discriminate.
  destruct (Hm _ _ _ E1) as [p1 ->]. destruct (Hf a _ _ _ E) as [p2 ->].
  exists (p1 ++ p2). rewrite app_assoc. reflexivity.
Qed.
Lemma spre_bind_l : forall A R (m : M A) (f : A -> M R),
  spre m -> (forall a, pre (f a)) -> spre (bindM m f).
Proof.
  intros A R m f Hm Hf bs b r E. rewrite run_bind in E.
  destruct (run m bs) as [[a r1]|e|s] eqn:E1; try discriminate.
  destruct (Hm _ _ _ E1) as [p1 [-> Hn]]. destruct (Hf a _ _ _ E) as [p2 ->].
  exists (p1 ++ p2). split. rewrite app_assoc; reflexivity.
  intros Z. apply app_eq_nil in Z. tauto.
Qed.

Lemma spre_u8 : spre de_u8.
Proof.
  intros bs a r E. unfold run, de_u8 in E. destruct bs as [|b bs]; cbn [fst] in E; [discriminate|].
  inversion E; subst. exists [a]. split; [reflexivity | discriminate].
Qed.
Lemma pre_take_n : forall n, pre (take_n n).
Proof.
  intros n bs a r E. unfold run, take_n in E. destruct (take_nat n bs) as [[p q]|] eqn:T; cbn [fst] in E; [|discriminate].
  inversion E; subst. apply take_nat_some in T. destruct T as [-> _]. exists a. reflexivity.
Qed.
Lemma spre_take_n : forall n, (0 < n)%nat -> spre (take_n n).
Proof.
  intros n Hn bs a r E. unfold run, take_n in E. destruct (take_nat n bs) as [[p q]|] eqn:T; cbn [fst] in E; [|discriminate].
  inversion E; subst. apply take_nat_some in T. destruct T as [-> Hl]. exists a. split; [reflexivity|].
  intros Z. subst a. cbn in Hl. lia.
Qed.
Lemma pre_alloc : forall c n sz, pre (alloc c n sz).
Proof.
  intros c n sz bs a r E. unfold run, alloc in E.
  destruct (isize_max <? _); cbn [fst] in E; [discriminate|]. inversion E; subst. exists []; reflexivity.
Qed.

Ltac pre_auto :=
  repeat first
  [ apply pre_ret | apply pre_fail | apply spre_fail
  | apply spre_bind_l; [ solve [eauto with pre] | intro ]
  | apply pre_bind; [ solve [eauto with pre] | intro ]
  | match goal with |- _ (if ?b then _ else _) => destruct b end
  | solve [eauto with pre] ].

Lemma spre_u64 : spre de_u64.
Proof. unfold de_u64. apply spre_bind_l. apply spre_take_n; lia. intros; apply pre_ret. Qed.
Lemma spre_i32 : spre de_i32.
Proof. unfold de_i32. apply spre_bind_l. apply spre_take_n; lia. intros; apply pre_ret. Qed.
#[export] Hint Resolve spre_u8 spre_u64 spre_i32 pre_alloc spre_pre : pre.
Lemma spre_bool : spre de_bool.
Proof. unfold de_bool. pre_auto. Qed.
#[export] Hint Resolve spre_bool : pre.

Lemma pre_raw_str : forall n, pre (fun bs : list N =>
    match split_n bs n with
    | Some (s, r) => if utf8_valid s then (Ok (s, r), 0) else (Err EDeser, 0)
    | None => (@Err (bytes * list N) EDeser, 0)
    end).
Proof.
  intros n bs a r E. unfold run in E. destruct (split_n bs n) as [[s q]|] eqn:S0; cbn [fst] in E; [|discriminate].
  destruct (utf8_valid s); cbn [fst] in E; [|discriminate]. inversion E; subst.
  apply split_n_some in S0. destruct S0 as [-> _]. exists a. reflexivity.
Qed.
Lemma spre_str : forall c, spre (de_str c).
Proof.
  intros c. unfold de_str, de_usize. apply spre_bind_l; [apply spre_u64|]. intros n.
  apply pre_bind; [apply pre_alloc|]. intros _. apply pre_raw_str.
Qed.
#[export] Hint Resolve spre_str : pre.

Lemma spre_ident : forall c, spre (de_ident c).
Proof. intros c. unfold de_ident. pre_auto. Qed.
#[export] Hint Resolve spre_ident : pre.

Lemma pre_list_go : forall A (elem : M A), pre elem -> forall fuel n, pre (de_list_go elem fuel n).
Proof.
  intros A elem He. induction fuel as [|f IH]; intros n; cbn [de_list_go]; destruct (n =? 0); pre_auto.
Qed.
Lemma pre_list : forall A (elem : M A) n, pre elem -> pre (de_list elem n).
Proof.
  intros A elem n He bs a r E. unfold de_list in E.
  change (run (de_list_go elem (list_fuel bs n) n) bs = Ok (a, r)) in E.
  eapply pre_list_go; eauto.
Qed.
#[export] Hint Resolve pre_list : pre.

Section PreNum.
Variable c : cfg.
Lemma spre_biguint : spre (de_biguint c).
Proof. unfold de_biguint, de_usize. pre_auto. Qed.
Hint Resolve spre_biguint : pre.
Lemma spre_sign : spre de_sign.
Proof. unfold de_sign. pre_auto. Qed.
Hint Resolve spre_sign : pre.
Lemma spre_bigrat : spre (de_bigrat c).
Proof. unfold de_bigrat. pre_auto. Qed.
Hint Resolve spre_bigrat : pre.
Lemma spre_real : spre (de_real c).
Proof. unfold de_real. pre_auto. Qed.
Hint Resolve spre_real : pre.
Lemma spre_complex : spre (de_complex c).
Proof. unfold de_complex. pre_auto. Qed.
Hint Resolve spre_complex : pre.
Lemma spre_part : spre (de_part c).
Proof. unfold de_part. pre_auto. Qed.
Hint Resolve spre_part : pre.
Lemma spre_dist : spre (de_dist c).
Proof. unfold de_dist, de_usize. pre_auto. Qed.
Lemma spre_bu : spre (de_bu c).
Proof. unfold de_bu. pre_auto. Qed.
Hint Resolve spre_bu spre_dist : pre.
Lemma spre_named_unit : spre (de_named_unit c).
Proof. unfold de_named_unit, de_usize. pre_auto. Qed.
Hint Resolve spre_named_unit : pre.
Lemma spre_unit_exp : spre (de_unit_exp c).
Proof. unfold de_unit_exp. pre_auto. Qed.
Hint Resolve spre_unit_exp : pre.
Lemma spre_unit : spre (de_unit c).
Proof. unfold de_unit, de_usize. pre_auto. Qed.
Lemma spre_base : spre (de_base c).
Proof. unfold de_base. pre_auto. Qed.
Lemma spre_fstyle : spre de_fstyle.
Proof. unfold de_fstyle, de_usize. pre_auto. Qed.
Hint Resolve spre_unit spre_base spre_fstyle : pre.
Lemma spre_number : spre (de_number c).
Proof. unfold de_number. pre_auto. Qed.
Lemma spre_month : spre de_month. Proof. unfold de_month. pre_auto. Qed.
Lemma spre_dow : spre de_dow. Proof. unfold de_dow. pre_auto. Qed.
Lemma spre_year : spre de_year. Proof. unfold de_year. pre_auto. Qed.
Lemma spre_day : spre de_day. Proof. unfold de_day. pre_auto. Qed.
Lemma spre_bop : spre de_bop. Proof. unfold de_bop. pre_auto. Qed.
Lemma spre_flag_scope : spre (de_flag_scope c). Proof. unfold de_flag_scope. pre_auto. Qed.
End PreNum.
#[export] Hint Resolve spre_biguint spre_sign spre_bigrat spre_real spre_complex spre_part spre_dist spre_bu
  spre_named_unit spre_unit_exp spre_unit spre_base spre_fstyle spre_number spre_month spre_dow spre_year
  spre_day spre_bop spre_flag_scope : pre.

Lemma spre_opt_scope : forall (flag : M bool) (sc : M scope), spre flag -> pre sc -> spre (opt_scope flag sc).
Proof. intros. unfold opt_scope. pre_auto. Qed.
#[export] Hint Resolve spre_opt_scope : pre.

Lemma pre_value_body : forall c re rs ri tag, pre re -> pre rs -> (forall n, pre (ri n)) ->
  pre (de_value_body c re rs ri tag).
Proof. intros. unfold de_value_body, de_usize. pre_auto. Qed.
Lemma pre_expr_body : forall c rv re tag, pre rv -> pre re -> pre (de_expr_body c rv re tag).
Proof. intros. unfold de_expr_body. pre_auto. Qed.
Lemma pre_scope_body : forall c re rs id, pre re -> pre rs -> pre (de_scope_body c re rs id).
Proof. intros. unfold de_scope_body. pre_auto. Qed.
Lemma pre_items_body : forall rv ri k, pre rv -> pre ri -> pre (de_items_body rv ri k).
Proof. intros. unfold de_items_body. pre_auto. Qed.

Lemma spre_tree : forall c fuel,
  spre (de_value c fuel) /\ spre (de_expr c fuel) /\ spre (de_scope c fuel) /\ (forall n, pre (de_items c fuel n)).
Proof.
  intros c. induction fuel as [|f (IHv & IHe & IHs & IHi)].
  - repeat split; try intros n; cbn [de_value de_expr de_scope de_items]; pre_auto.
  - repeat split; try intros n; rewrite ?de_value_S, ?de_expr_S, ?de_scope_S, ?de_items_S.
    + apply spre_bind_l; [apply spre_u8|]. intros. apply pre_value_body; auto using spre_pre.
    + apply spre_bind_l; [apply spre_u8|]. intros. apply pre_expr_body; auto using spre_pre.
    + apply spre_bind_l; [apply spre_ident|]. intros. apply pre_scope_body; auto using spre_pre.
    + destruct (n =? 0); [apply pre_ret|]. apply pre_bind; [apply spre_pre, spre_str|]. intros.
      apply pre_items_body; auto using spre_pre.
Qed.

Lemma pre_vars_go : forall c fuel n acc, pre (de_vars_go c fuel n acc).
Proof.
  intros c. induction fuel as [|f IH]; intros n acc.
  - cbn [de_vars_go]. destruct (n =? 0); pre_auto.
  - rewrite de_vars_go_S. destruct (n =? 0); [apply pre_ret|].
    apply pre_bind; [apply spre_pre, spre_str|]. intros k.
    apply pre_bind; [apply spre_pre, spre_tree|]. intros v. apply IH.
Qed.

Theorem de_vars_prefix : forall c, pre (de_vars c).
Proof.
  intros c bs a r E. unfold de_vars in E.
  change (run (rd n <- de_usize; rd _ <- alloc c n (sz_var (c_sz c)); de_vars_go c (length bs) n []) bs = Ok (a, r)) in E.
  revert E. generalize (length bs). intros k E.
  assert (P : pre (rd n <- de_usize; rd _ <- alloc c n (sz_var (c_sz c)); de_vars_go c k n [])).
  { unfold de_usize. apply pre_bind; [apply spre_pre, spre_u64|]. intros n. apply pre_bind; [apply pre_alloc|]. intros _. apply pre_vars_go. }
  eapply P; eauto.
Qed.
Theorem de_value_top_prefix : forall c, pre (de_value_top c).
Proof.
  intros c bs a r E. unfold de_value_top in E. change (run (de_value c (length bs)) bs = Ok (a, r)) in E.
  destruct (spre_tree c (length bs)) as [Hv _]. apply spre_pre in Hv. eapply Hv; eauto.
Qed.

(* ------------------------------------------------------------------ *)
(* T. the fuel never runs out: the readers fail only where the Rust fails *)

Definition nf {A} (m : M A) : Prop := forall bs, run m bs <> Err EOutOfFuel.
Definition nfk {A} (k : nat) (m : M A) : Prop :=
  forall bs, (length bs <= k)%nat -> run m bs <> Err EOutOfFuel.

Lemma nf_nfk : forall A k (m : M A), nf m -> nfk k m.
Proof. intros A k m H bs _. apply H. Qed.
Lemma nf_ret : forall A (a : A), nf (ret a).
Proof. intros A a bs. rewrite run_ret. discriminate. Qed.
Lemma nf_fail : forall A e, e <> EOutOfFuel -> nf (@fail A e).
Proof. intros A e H bs. rewrite run_fail. congruence. Qed.
Lemma nf_bind : forall A R (m : M A) (f : A -> M R), nf m -> (forall a, nf (f a)) -> nf (bindM m f).
Proof.
  intros A R m f Hm Hf bs. rewrite run_bind. specialize (Hm bs).
  destruct (run m bs) as [[a r]|e|s]; [apply Hf | congruence | congruence].
Qed.
Lemma nfk_bind : forall A R k (m : M A) (f : A -> M R),
  nfk k m -> pre m -> (forall a, nfk k (f a)) -> nfk k (bindM m f).
Proof.
  intros A R k m f Hm Hp Hf bs Hl. rewrite run_bind. specialize (Hm bs Hl).
  destruct (run m bs) as [[a r]|e|s] eqn:E; try congruence.
  destruct (Hp _ _ _ E) as [p ->]. apply Hf. rewrite app_length in Hl. lia.
Qed.
Lemma nfk_bind_S : forall A R k (m : M A) (f : A -> M R),
  nf m -> spre m -> (forall a, nfk k (f a)) -> nfk (S k) (bindM m f).
Proof.
  intros A R k m f Hm Hp Hf bs Hl. rewrite run_bind. specialize (Hm bs).
  destruct (run m bs) as [[a r]|e|s] eqn:E; try congruence.
  destruct (Hp _ _ _ E) as [p [-> Hn]]. apply Hf. rewrite app_length in Hl.
  destruct p; [congruence|]. cbn [length] in Hl. lia.
Qed.
Lemma nfk_bind_0 : forall A R (m : M A) (f : A -> M R), nf m -> spre m -> nfk 0 (bindM m f).
Proof.
  intros A R m f Hm Hp bs Hl. rewrite run_bind. specialize (Hm bs).
  destruct (run m bs) as [[a r]|e|s] eqn:E; try congruence.
  destruct (Hp _ _ _ E) as [p [-> Hn]]. rewrite app_length in Hl. destruct p; [congruence|]. cbn [length] in Hl. lia.
Qed.

Lemma nf_u8 : nf de_u8.
Proof. intros bs. unfold run, de_u8. destruct bs; cbn [fst]; discriminate. Qed.
Lemma nf_take_n : forall n, nf (take_n n).
Proof. intros n bs. unfold run, take_n. destruct (take_nat n bs); cbn [fst]; discriminate. Qed.
Lemma nf_alloc : forall c n sz, nf (alloc c n sz).
Proof. intros c n sz bs. unfold run, alloc. destruct (isize_max <? _); cbn [fst]; discriminate. Qed.
#[export] Hint Resolve nf_u8 nf_take_n nf_alloc nf_ret : nf.

Ltac nf_auto :=
  repeat first
  [ apply nf_ret | apply nf_fail; discriminate
  | apply nf_bind; [ solve [eauto with nf pre] | intro ]
  | match goal with |- _ (if ?b then _ else _) => destruct b end
  | solve [eauto with nf pre] ].

Lemma nf_u64 : nf de_u64. Proof. unfold de_u64. nf_auto. Qed.
Lemma nf_i32 : nf de_i32. Proof. unfold de_i32. nf_auto. Qed.
#[export] Hint Resolve nf_u64 nf_i32 : nf.
Lemma nf_bool : nf de_bool. Proof. unfold de_bool. nf_auto. Qed.
#[export] Hint Resolve nf_bool : nf.
Lemma nf_str : forall c, nf (de_str c).
Proof.
  intros c. unfold de_str, de_usize. apply nf_bind; [apply nf_u64|]. intros n.
  apply nf_bind; [apply nf_alloc|]. intros _ bs. unfold run.
  destruct (split_n bs n) as [[s0 q]|]; cbn [fst]; [|discriminate]. destruct (utf8_valid _); cbn [fst]; discriminate.
Qed.
#[export] Hint Resolve nf_str : nf.

Lemma nf_ident : forall c, nf (de_ident c).
Proof. intros c. unfold de_ident. nf_auto. Qed.
#[export] Hint Resolve nf_ident : nf.

Lemma nf_list_go : forall A (elem : M A), nf elem -> spre elem ->
  forall fuel n bs, (n < N.of_nat fuel \/ (length bs < fuel)%nat) -> run (de_list_go elem fuel n) bs <> Err EOutOfFuel.
Proof.
  intros A elem Hn Hp. induction fuel as [|f IH]; intros n bs Hl.
  - destruct Hl as [Hl|Hl]; [|lia]. cbn in Hl. lia.
  - cbn [de_list_go]. destruct (n =? 0) eqn:E0. { rewrite run_ret. discriminate. }
    apply N.eqb_neq in E0.
    rewrite run_bind. specialize (Hn bs). destruct (run elem bs) as [[x r]|e|s] eqn:E; try congruence.
    destruct (Hp _ _ _ E) as [p [-> Hne]]. rewrite run_bind.
    assert (Hr : n - 1 < N.of_nat f \/ (length r < f)%nat).
    { destruct Hl as [Hl|Hl]; [left; lia | right]. rewrite app_length in Hl. destruct p; [congruence|]. cbn [length] in Hl. lia. }
    specialize (IH (n - 1) r Hr). destruct (run (de_list_go elem f (n - 1)) r) as [[xs r']|e|s]; try congruence.
    rewrite run_ret. discriminate.
Qed.
Lemma nf_list : forall A (elem : M A) n, nf elem -> spre elem -> nf (de_list elem n).
Proof.
  intros A elem n Hn Hp bs. unfold de_list. change (run (de_list_go elem (list_fuel bs n) n) bs <> Err EOutOfFuel).
  apply nf_list_go; auto. apply list_fuel_spec.
Qed.
#[export] Hint Resolve nf_list : nf.

Section NfNum.
Variable c : cfg.
Lemma nf_biguint : nf (de_biguint c).
Proof. unfold de_biguint, de_usize. nf_auto. Qed.
Hint Resolve nf_biguint : nf.
Lemma nf_sign : nf de_sign. Proof. unfold de_sign. nf_auto. Qed.
Hint Resolve nf_sign : nf.
Lemma nf_bigrat : nf (de_bigrat c). Proof. unfold de_bigrat. nf_auto. Qed.
Hint Resolve nf_bigrat : nf.
Lemma nf_real : nf (de_real c). Proof. unfold de_real. nf_auto. Qed.
Hint Resolve nf_real : nf.
Lemma nf_complex : nf (de_complex c). Proof. unfold de_complex. nf_auto. Qed.
Hint Resolve nf_complex : nf.
Lemma nf_part : nf (de_part c). Proof. unfold de_part. nf_auto. Qed.
Hint Resolve nf_part : nf.
Lemma nf_dist : nf (de_dist c).
Proof. unfold de_dist, de_usize. nf_auto. Qed.
Lemma nf_bu : nf (de_bu c). Proof. unfold de_bu. nf_auto. Qed.
Hint Resolve nf_dist nf_bu : nf.
Lemma nf_named_unit : nf (de_named_unit c).
Proof.
  unfold de_named_unit, de_usize. nf_auto.
Qed.
Hint Resolve nf_named_unit : nf.
Lemma nf_unit_exp : nf (de_unit_exp c). Proof. unfold de_unit_exp. nf_auto. Qed.
Hint Resolve nf_unit_exp : nf.
Lemma nf_unit : nf (de_unit c).
Proof. unfold de_unit, de_usize. nf_auto. Qed.
Lemma nf_base : nf (de_base c). Proof. unfold de_base. nf_auto. Qed.
Lemma nf_fstyle : nf de_fstyle. Proof. unfold de_fstyle, de_usize. nf_auto. Qed.
Hint Resolve nf_unit nf_base nf_fstyle : nf.
Lemma nf_number : nf (de_number c). Proof. unfold de_number. nf_auto. Qed.
Lemma nf_month : nf de_month. Proof. unfold de_month. nf_auto. Qed.
Lemma nf_dow : nf de_dow. Proof. unfold de_dow. nf_auto. Qed.
Lemma nf_year : nf de_year. Proof. unfold de_year. nf_auto. Qed.
Lemma nf_day : nf de_day. Proof. unfold de_day. nf_auto. Qed.
Lemma nf_bop : nf de_bop. Proof. unfold de_bop. nf_auto. Qed.
Lemma nf_flag_scope : nf (de_flag_scope c). Proof. unfold de_flag_scope. nf_auto. Qed.
End NfNum.
#[export] Hint Resolve nf_biguint nf_sign nf_bigrat nf_real nf_complex nf_part nf_dist nf_bu nf_named_unit
  nf_unit_exp nf_unit nf_base nf_fstyle nf_number nf_month nf_dow nf_year nf_day nf_bop nf_flag_scope : nf.

Lemma nfk_ret : forall A k (a : A), nfk k (ret a).
Proof. intros. apply nf_nfk, nf_ret. Qed.
Lemma nfk_fail : forall A k e, e <> EOutOfFuel -> nfk k (@fail A e).
Proof. intros. apply nf_nfk, nf_fail; auto. Qed.

Ltac nfk_auto :=
  repeat first
  [ apply nfk_ret | apply nfk_fail; discriminate
  | apply nfk_bind; [ first [ solve [eauto with nf] | apply nf_nfk; solve [eauto with nf] ] | solve [eauto with pre] | intro ]
  | match goal with |- _ (if ?b then _ else _) => destruct b end
  | solve [eauto with nf]
  | apply nf_nfk; solve [eauto with nf] ].

Lemma nfk_opt_scope : forall k (flag : M bool) (sc : M scope), nf flag -> pre flag -> nfk k sc -> pre sc -> nfk k (opt_scope flag sc).
Proof. intros. unfold opt_scope. nfk_auto. Qed.

Lemma nfk_value_body : forall c k re rs ri tag,
  nfk k re -> pre re -> nfk k rs -> pre rs -> (forall n, nfk k (ri n)) -> (forall n, pre (ri n)) ->
  nfk k (de_value_body c re rs ri tag).
Proof.
  intros. unfold de_value_body, de_usize. nfk_auto.
  apply nfk_bind; [apply nfk_opt_scope; auto with nf pre | auto with pre | intros; nfk_auto].
Qed.
Lemma nfk_expr_body : forall c k rv re tag, nfk k rv -> pre rv -> nfk k re -> pre re -> nfk k (de_expr_body c rv re tag).
Proof. intros. unfold de_expr_body. nfk_auto. Qed.
Lemma nfk_scope_body : forall c k re rs id, nfk k re -> pre re -> nfk k rs -> pre rs -> nfk k (de_scope_body c re rs id).
Proof.
  intros. unfold de_scope_body. nfk_auto.
  apply nfk_bind; [apply nfk_opt_scope; auto with nf pre | auto with pre | intros].
  apply nfk_bind; [apply nfk_opt_scope; auto with nf pre | auto with pre | intros; nfk_auto].
Qed.
Lemma nfk_items_body : forall k rv ri key, nfk k rv -> pre rv -> nfk k ri -> pre ri -> nfk k (de_items_body rv ri key).
Proof. intros. unfold de_items_body. nfk_auto. Qed.

Lemma nfk_tree : forall c fuel,
  nfk fuel (de_value c fuel) /\ nfk fuel (de_expr c fuel) /\ nfk fuel (de_scope c fuel) /\
  (forall n, nfk fuel (de_items c fuel n)).
Proof.
  intros c. induction fuel as [|f (IHv & IHe & IHs & IHi)].
  - repeat split; try intros n; cbn [de_value de_expr de_scope de_items].
    + apply nfk_bind_0; auto with nf pre.
    + apply nfk_bind_0; auto with nf pre.
    + apply nfk_bind_0; auto with nf pre.
    + destruct (n =? 0); [apply nfk_ret|]. apply nfk_bind_0; auto with nf pre.
  - destruct (spre_tree c f) as (Pv & Pe & Ps & Pi).
    repeat split; try intros n; rewrite ?de_value_S, ?de_expr_S, ?de_scope_S, ?de_items_S.
    + apply nfk_bind_S; auto with nf pre. intros. apply nfk_value_body; auto using spre_pre.
    + apply nfk_bind_S; auto with nf pre. intros. apply nfk_expr_body; auto using spre_pre.
    + apply nfk_bind_S; auto with nf pre. intros. apply nfk_scope_body; auto using spre_pre.
    + destruct (n =? 0); [apply nfk_ret|]. apply nfk_bind_S; auto with nf pre. intros.
      apply nfk_items_body; auto using spre_pre.
Qed.

Lemma nfk_vars_go : forall c fuel n acc, nfk fuel (de_vars_go c fuel n acc).
Proof.
  intros c. induction fuel as [|f IH]; intros n acc.
  - cbn [de_vars_go]. destruct (n =? 0); [apply nfk_ret|]. apply nfk_bind_0; auto with nf pre.
  - rewrite de_vars_go_S. destruct (n =? 0); [apply nfk_ret|].
    apply nfk_bind_S; auto with nf pre. intros k.
    destruct (nfk_tree c f) as [Hv _]. destruct (spre_tree c f) as [Pv _].
    apply nfk_bind; auto using spre_pre.
Qed.

(* the whole-image reader never reports EOutOfFuel *)
Theorem de_vars_total : forall c bs, run (de_vars c) bs <> Err EOutOfFuel.
Proof.
  intros c bs. unfold de_vars.
  change (run (rd n <- de_usize; rd _ <- alloc c n (sz_var (c_sz c)); de_vars_go c (length bs) n []) bs <> Err EOutOfFuel).
  assert (P : nfk (length bs) (rd n <- de_usize; rd _ <- alloc c n (sz_var (c_sz c)); de_vars_go c (length bs) n [])).
  { unfold de_usize. apply nfk_bind; [apply nf_nfk, nf_u64 | apply spre_pre, spre_u64 |]. intros n.
    apply nfk_bind; [apply nf_nfk, nf_alloc | apply pre_alloc |]. intros _. apply nfk_vars_go. }
  apply P. lia.
Qed.
Theorem de_value_top_total : forall c bs, run (de_value_top c) bs <> Err EOutOfFuel.
Proof.
  intros c bs. unfold de_value_top. change (run (de_value c (length bs)) bs <> Err EOutOfFuel).
  destruct (nfk_tree c (length bs)) as [Hv _]. apply Hv. lia.
Qed.

(* ------------------------------------------------------------------ *)
(* B/C. allocation requests and capacity-overflow panics.  One generic pass:
   any predicate Q on (did it panic?, largest request) that holds of a
   request-free step, is preserved by sequencing, and holds of every [alloc]
   with an element size the code uses, holds of every reader. *)

Definition is_panic {A} (r : res A) : bool := match r with Panic _ => true | _ => false end.

Lemma max_sz_ge : forall s,
  8 <= max_sz s /\ sz_part s <= max_sz s /\ sz_uexp s <= max_sz s /\ sz_item s <= max_sz s /\
  sz_bu s <= max_sz s /\ sz_var s <= max_sz s.
Proof. intros s. unfold max_sz. lia. Qed.

Section Alloc.
Variable c : cfg.
Variable Q : bool -> N -> Prop.
Hypothesis Q0 : Q false 0.
Hypothesis Qmax : forall k1 p2 k2, Q false k1 -> Q p2 k2 -> Q p2 (N.max k1 k2).

Definition allp {A} (m : M A) : Prop := forall bs, Q (is_panic (fst (m bs))) (snd (m bs)).
Hypothesis Qalloc : forall n sz, sz <= max_sz (c_sz c) -> allp (alloc c n sz).

Lemma allp_ret : forall A (a : A), allp (ret a).
Proof. intros A a bs. exact Q0. Qed.
Lemma allp_fail : forall A e, allp (@fail A e).
Proof. intros A e bs. exact Q0. Qed.
Lemma allp_bind : forall A R (m : M A) (f : A -> M R), allp m -> (forall a, allp (f a)) -> allp (bindM m f).
Proof.
  intros A R m f Hm Hf bs. unfold bindM. specialize (Hm bs).
  destruct (m bs) as [[[a r]|e|s] k]; cbn [fst snd is_panic] in *; auto.
  specialize (Hf a r). destruct (f a r) as [x k']. cbn [fst snd] in *. apply Qmax; auto.
Qed.
Lemma allp_u8 : allp de_u8.
Proof. intros bs. unfold de_u8. destruct bs; exact Q0. Qed.
Lemma allp_take_n : forall n, allp (take_n n).
Proof. intros n bs. unfold take_n. destruct (take_nat n bs); exact Q0. Qed.
Hint Resolve allp_ret allp_fail allp_u8 allp_take_n : allp.

Ltac allp_auto :=
  repeat first
  [ apply allp_ret | apply allp_fail
  | apply allp_bind; [ solve [eauto with allp] | intro ]
  | match goal with |- _ (if ?b then _ else _) => destruct b end
  | solve [eauto with allp] ].

Lemma allp_u64 : allp de_u64. Proof. unfold de_u64. allp_auto. Qed.
Lemma allp_i32 : allp de_i32. Proof. unfold de_i32. allp_auto. Qed.
Hint Resolve allp_u64 allp_i32 : allp.
Lemma allp_bool : allp de_bool. Proof. unfold de_bool. allp_auto. Qed.
Hint Resolve allp_bool : allp.
Lemma allp_str : allp (de_str c).
Proof.
  unfold de_str, de_usize. apply allp_bind; [apply allp_u64|]. intros n.
  apply allp_bind. { apply Qalloc. pose proof (max_sz_ge (c_sz c)). lia. }
  intros _ bs. destruct (split_n bs n) as [[s0 q]|]; [|exact Q0]. destruct (utf8_valid _); exact Q0.
Qed.
Hint Resolve allp_str : allp.
Lemma allp_ident : allp (de_ident c).
Proof. unfold de_ident. allp_auto. Qed.
Hint Resolve allp_ident : allp.
Lemma allp_list_go : forall A (elem : M A), allp elem -> forall fuel n, allp (de_list_go elem fuel n).
Proof. intros A elem He. induction fuel as [|f IH]; intros n; cbn [de_list_go]; destruct (n =? 0); allp_auto. Qed.
Lemma allp_list : forall A (elem : M A) n, allp elem -> allp (de_list elem n).
Proof. intros A elem n He bs. unfold de_list. apply allp_list_go; auto. Qed.
Hint Resolve allp_list : allp.

Lemma allp_alloc8 : forall n, allp (alloc c n 8).
Proof. intros. apply Qalloc. apply max_sz_ge. Qed.
Lemma allp_alloc_part : forall n, allp (alloc c n (sz_part (c_sz c))).
Proof. intros. apply Qalloc. apply max_sz_ge. Qed.
Lemma allp_alloc_uexp : forall n, allp (alloc c n (sz_uexp (c_sz c))).
Proof. intros. apply Qalloc. apply max_sz_ge. Qed.
Lemma allp_alloc_item : forall n, allp (alloc c n (sz_item (c_sz c))).
Proof. intros. apply Qalloc. apply max_sz_ge. Qed.
Lemma allp_alloc_bu : forall n, allp (alloc c n (sz_bu (c_sz c))).
Proof. intros. apply Qalloc. apply max_sz_ge. Qed.
Lemma allp_alloc_var : forall n, allp (alloc c n (sz_var (c_sz c))).
Proof. intros. apply Qalloc. apply max_sz_ge. Qed.
Hint Resolve allp_alloc8 allp_alloc_part allp_alloc_uexp allp_alloc_item allp_alloc_bu allp_alloc_var : allp.

Lemma allp_biguint : allp (de_biguint c). Proof. unfold de_biguint, de_usize. allp_auto. Qed.
Hint Resolve allp_biguint : allp.
Lemma allp_sign : allp de_sign. Proof. unfold de_sign. allp_auto. Qed.
Hint Resolve allp_sign : allp.
Lemma allp_bigrat : allp (de_bigrat c). Proof. unfold de_bigrat. allp_auto. Qed.
Hint Resolve allp_bigrat : allp.
Lemma allp_real : allp (de_real c). Proof. unfold de_real. allp_auto. Qed.
Hint Resolve allp_real : allp.
Lemma allp_complex : allp (de_complex c). Proof. unfold de_complex. allp_auto. Qed.
Hint Resolve allp_complex : allp.
Lemma allp_part : allp (de_part c). Proof. unfold de_part. allp_auto. Qed.
Hint Resolve allp_part : allp.
Lemma allp_dist : allp (de_dist c). Proof. unfold de_dist, de_usize. allp_auto. Qed.
Lemma allp_bu : allp (de_bu c). Proof. unfold de_bu. allp_auto. Qed.
Hint Resolve allp_dist allp_bu : allp.
Lemma allp_named_unit : allp (de_named_unit c). Proof. unfold de_named_unit, de_usize. allp_auto. Qed.
Hint Resolve allp_named_unit : allp.
Lemma allp_unit_exp : allp (de_unit_exp c). Proof. unfold de_unit_exp. allp_auto. Qed.
Hint Resolve allp_unit_exp : allp.
Lemma allp_unit : allp (de_unit c). Proof. unfold de_unit, de_usize. allp_auto. Qed.
Lemma allp_base : allp (de_base c). Proof. unfold de_base. allp_auto. Qed.
Lemma allp_fstyle : allp de_fstyle. Proof. unfold de_fstyle, de_usize. allp_auto. Qed.
Hint Resolve allp_unit allp_base allp_fstyle : allp.
Lemma allp_number : allp (de_number c). Proof. unfold de_number. allp_auto. Qed.
Lemma allp_month : allp de_month. Proof. unfold de_month. allp_auto. Qed.
Lemma allp_dow : allp de_dow. Proof. unfold de_dow. allp_auto. Qed.
Lemma allp_year : allp de_year. Proof. unfold de_year. allp_auto. Qed.
Lemma allp_day : allp de_day. Proof. unfold de_day. allp_auto. Qed.
Lemma allp_bop : allp de_bop. Proof. unfold de_bop. allp_auto. Qed.
Lemma allp_flag_scope : allp (de_flag_scope c). Proof. unfold de_flag_scope. allp_auto. Qed.
Hint Resolve allp_number allp_month allp_dow allp_year allp_day allp_bop allp_flag_scope : allp.
Lemma allp_opt_scope : forall (flag : M bool) (sc : M scope), allp flag -> allp sc -> allp (opt_scope flag sc).
Proof. intros. unfold opt_scope. allp_auto. Qed.
Hint Resolve allp_opt_scope : allp.

Lemma allp_value_body : forall re rs ri tag, allp re -> allp rs -> (forall n, allp (ri n)) ->
  allp (de_value_body c re rs ri tag).
Proof. intros. unfold de_value_body, de_usize. allp_auto. Qed.
Lemma allp_expr_body : forall rv re tag, allp rv -> allp re -> allp (de_expr_body c rv re tag).
Proof. intros. unfold de_expr_body. allp_auto. Qed.
Lemma allp_scope_body : forall re rs id, allp re -> allp rs -> allp (de_scope_body c re rs id).
Proof. intros. unfold de_scope_body. allp_auto. Qed.
Lemma allp_items_body : forall rv ri k, allp rv -> allp ri -> allp (de_items_body rv ri k).
Proof. intros. unfold de_items_body. allp_auto. Qed.

Lemma allp_tree : forall fuel,
  allp (de_value c fuel) /\ allp (de_expr c fuel) /\ allp (de_scope c fuel) /\ (forall n, allp (de_items c fuel n)).
Proof.
  induction fuel as [|f (IHv & IHe & IHs & IHi)].
  - repeat split; try intros n; cbn [de_value de_expr de_scope de_items]; allp_auto.
  - repeat split; try intros n; rewrite ?de_value_S, ?de_expr_S, ?de_scope_S, ?de_items_S.
    + apply allp_bind; [apply allp_u8|]. intros. apply allp_value_body; auto.
    + apply allp_bind; [apply allp_u8|]. intros. apply allp_expr_body; auto.
    + apply allp_bind; [apply allp_ident|]. intros. apply allp_scope_body; auto.
    + destruct (n =? 0); [apply allp_ret|]. apply allp_bind; [apply allp_str|]. intros. apply allp_items_body; auto.
Qed.
Lemma allp_vars_go : forall fuel n acc, allp (de_vars_go c fuel n acc).
Proof.
  induction fuel as [|f IH]; intros n acc.
  - cbn [de_vars_go]. destruct (n =? 0); allp_auto.
  - rewrite de_vars_go_S. destruct (n =? 0); [apply allp_ret|].
    apply allp_bind; [apply allp_str|]. intros k. apply allp_bind; [apply allp_tree|]. intros v. apply IH.
Qed.
Theorem allp_vars : allp (de_vars c).
Proof.
  intros bs. unfold de_vars.
  assert (P : allp (rd n <- de_usize; rd _ <- alloc c n (sz_var (c_sz c)); de_vars_go c (length bs) n [])).
  { unfold de_usize. apply allp_bind; [apply allp_u64|]. intros n. apply allp_bind; [apply allp_alloc_var|]. intros _. apply allp_vars_go. }
  apply P.
Qed.
End Alloc.

(* instance 1: a capacity-overflow panic means a request above isize::MAX *)
Theorem panic_means_huge_request : forall c bs s,
  fst (de_vars c bs) = Panic s -> isize_max < snd (de_vars c bs).
Proof.
  intros c bs s H.
  pose proof (allp_vars c (fun p k => p = true -> isize_max < k)) as P.
  assert (Q : is_panic (fst (de_vars c bs)) = true -> isize_max < snd (de_vars c bs)).
  { apply P.
    - discriminate.
    - intros k1 p2 k2 _ H2 E. specialize (H2 E). lia.
    - intros n sz _ bs'. unfold alloc. destruct (isize_max <? _) eqn:E; cbn [fst snd is_panic]; [|discriminate].
      intros _. apply N.ltb_lt. exact E. }
  apply Q. rewrite H. reflexivity.
Qed.

(* instance 2: with the capacity cap no reader panics and every request is at
   most cap * (largest element size) *)
Theorem capped_bounded : forall c k, c_cap c = Some k -> k * max_sz (c_sz c) <= isize_max ->
  forall bs, snd (de_vars c bs) <= k * max_sz (c_sz c) /\ (forall s, fst (de_vars c bs) <> Panic s).
Proof.
  intros c k Hc Hk bs.
  pose proof (allp_vars c (fun p n => p = false /\ n <= k * max_sz (c_sz c))) as P.
  assert (Q : is_panic (fst (de_vars c bs)) = false /\ snd (de_vars c bs) <= k * max_sz (c_sz c)).
  { apply P.
    - split; [reflexivity | lia].
    - intros k1 p2 k2 [_ H1] [H2 H3]. split; auto. lia.
    - intros n sz Hs bs'. unfold alloc. rewrite Hc. cbn [capn].
      assert (N.min n k * sz <= k * max_sz (c_sz c)).
      { transitivity (k * sz). apply N.mul_le_mono_r. lia. apply N.mul_le_mono_l. exact Hs. }
      replace (isize_max <? N.min n k * sz) with false by (symmetry; apply N.ltb_ge; lia).
      cbn [fst snd is_panic]. split; [reflexivity | assumption]. }
  destruct Q as [Q1 Q2]. split; auto. intros s E. rewrite E in Q1. discriminate.
Qed.

(* ------------------------------------------------------------------ *)
(* D. what the validating reader guarantees of a loaded value *)

Definition post {A} (P : A -> Prop) (m : M A) : Prop :=
  forall bs a r, run m bs = Ok (a, r) -> P a.

Lemma post_ret : forall A (P : A -> Prop) a, P a -> post P (ret a).
Proof. intros A P a H bs a' r E. rewrite run_ret in E. inversion E; subst; auto. Qed.
Lemma post_fail : forall A (P : A -> Prop) e, post P (@fail A e).
Proof. intros A P e bs a r E. rewrite run_fail in E. discriminate. Qed.
Lemma post_bind : forall A R (Q : A -> Prop) (P : R -> Prop) (m : M A) (f : A -> M R),
  post Q m -> (forall a, Q a -> post P (f a)) -> post P (bindM m f).
Proof.
  intros A R Q P m f Hm Hf bs b r E. rewrite run_bind in E.
  destruct (run m bs) as [[a r1]|e|s] eqn:E1; try discriminate.
  eapply Hf; eauto.
Qed.
Lemma post_true : forall A (m : M A), post (fun _ => True) m.
Proof. intros A m bs a r _. exact I. Qed.
Lemma post_bind_any : forall A R (P : R -> Prop) (m : M A) (f : A -> M R),
  (forall a, post P (f a)) -> post P (bindM m f).
Proof. intros. eapply post_bind; [apply post_true | auto]. Qed.

Lemma post_list_go : forall A (P : A -> bool) (elem : M A), post (fun x => P x = true) elem ->
  forall fuel n, post (fun l => forallb P l = true /\ len_N l = n) (de_list_go elem fuel n).
Proof.
  intros A P elem He. induction fuel as [|f IH]; intros n; cbn [de_list_go]; destruct (n =? 0) eqn:E0.
  - apply post_ret. apply N.eqb_eq in E0. subst. split; reflexivity.
  - apply post_fail.
  - apply post_ret. apply N.eqb_eq in E0. subst. split; reflexivity.
  - eapply post_bind; [apply He|]. intros x Hx. eapply post_bind; [apply (IH (n - 1))|]. intros xs [H1 H2].
    apply post_ret. cbn [forallb]. rewrite Hx, H1. split; [reflexivity|].
    apply N.eqb_neq in E0. unfold len_N in *. cbn [length]. lia.
Qed.
Lemma post_list : forall A (P : A -> bool) (elem : M A) n, post (fun x => P x = true) elem ->
  post (fun l => forallb P l = true /\ len_N l = n) (de_list elem n).
Proof.
  intros A P elem n He bs a r E. unfold de_list in E. change (run (de_list_go elem (list_fuel bs n) n) bs = Ok (a, r)) in E.
  eapply post_list_go; eauto.
Qed.

Lemma forallb_map_insert : forall V (P : bytes * V -> bool) k v m,
  P (k, v) = true -> forallb P m = true -> forallb P (map_insert k v m) = true.
Proof.
  induction m as [|[k' v'] m IH]; cbn [map_insert forallb]; intros H1 H2.
  - rewrite H1. reflexivity.
  - apply andb_prop in H2. destruct H2 as [H2 H3]. destruct (list_N_eqb k k'); cbn [forallb].
    + rewrite H1, H3. reflexivity.
    + rewrite H2, IH; auto.
Qed.
Lemma forallb_insert_fold : forall V (P : bytes * V -> bool) l acc,
  forallb P l = true -> forallb P acc = true ->
  forallb P (fold_left (fun m kv => map_insert (fst kv) (snd kv) m) l acc) = true.
Proof.
  induction l as [|[k v] l IH]; cbn [fold_left forallb]; intros acc H1 H2; auto.
  apply andb_prop in H1. destruct H1 as [H1 H3]. apply IH; auto. cbn [fst snd]. apply forallb_map_insert; auto.
Qed.

Section Validated.
Variable c : cfg.
Hypothesis Hval : c_validate c = true.

Lemma post_biguint : post (fun b => wfs_biguint b = true) (de_biguint c).
Proof.
  unfold de_biguint, de_usize. apply post_bind_any. intros k.
  destruct (k =? 1). { apply post_bind_any. intros x. apply post_ret. reflexivity. }
  destruct (k =? 2); [|apply post_fail].
  apply post_bind_any. intros n. apply post_bind_any. intros _. apply post_bind_any. intros v.
  rewrite Hval. cbn [andb]. destruct (len_N v =? 0) eqn:E; [apply post_fail|].
  apply post_ret. cbn [wfs_biguint]. rewrite E. reflexivity.
Qed.
Lemma post_bigrat : post (fun q => wfs_bigrat q = true) (de_bigrat c).
Proof.
  unfold de_bigrat. apply post_bind_any. intros s.
  eapply post_bind; [apply post_biguint|]. intros n Hn.
  eapply post_bind; [apply post_biguint|]. intros d Hd.
  rewrite Hval. cbn [andb]. destruct (biguint_is_zero d) eqn:E; [apply post_fail|].
  apply post_ret. unfold wfs_bigrat. cbn [r_num r_den]. rewrite Hn, Hd, E. reflexivity.
Qed.
Lemma post_real : post (fun r => wfs_real r = true) (de_real c).
Proof.
  unfold de_real. apply post_bind_any. intros k.
  destruct (k =? 1). { eapply post_bind; [apply post_bigrat|]. intros q Hq. apply post_ret. exact Hq. }
  destruct (k =? 2); [|apply post_fail].
  eapply post_bind; [apply post_bigrat|]. intros q Hq. apply post_ret. exact Hq.
Qed.
Lemma post_complex : post (fun z => wfs_complex z = true) (de_complex c).
Proof.
  unfold de_complex. eapply post_bind; [apply post_real|]. intros a Ha.
  eapply post_bind; [apply post_real|]. intros b Hb. apply post_ret.
  unfold wfs_complex. cbn [c_re c_im]. rewrite Ha, Hb. reflexivity.
Qed.
Lemma post_part : post (fun p => wfs_part p = true) (de_part c).
Proof.
  unfold de_part. eapply post_bind; [apply post_complex|]. intros a Ha.
  eapply post_bind; [apply post_bigrat|]. intros b Hb. apply post_ret.
  unfold wfs_part. cbn [fst snd]. rewrite Ha, Hb. reflexivity.
Qed.
Lemma post_dist : post (fun d => forallb wfs_part d = true) (de_dist c).
Proof.
  unfold de_dist. apply post_bind_any. intros n. apply post_bind_any. intros _.
  intros bs a r E. eapply (post_list _ wfs_part) in E; [apply E | apply post_part].
Qed.
Lemma post_bu : post (fun p => wfs_bu p = true) (de_bu c).
Proof.
  unfold de_bu. apply post_bind_any. intros k. eapply post_bind; [apply post_complex|]. intros v Hv.
  apply post_ret. exact Hv.
Qed.
Lemma post_named_unit : post (fun u => wfs_named_unit u = true) (de_named_unit c).
Proof.
  unfold de_named_unit. do 6 (apply post_bind_any; intro).
  eapply post_bind; [apply (post_list _ wfs_bu), post_bu|]. intros l [Hl _].
  eapply post_bind; [apply post_complex|]. intros sc Hsc. apply post_ret.
  unfold wfs_named_unit. cbn [nu_base nu_scale]. rewrite Hsc. unfold insert_all.
  rewrite forallb_insert_fold; auto.
Qed.
Lemma post_unit_exp : post (fun u => wfs_unit_exp u = true) (de_unit_exp c).
Proof.
  unfold de_unit_exp. eapply post_bind; [apply post_named_unit|]. intros u Hu.
  eapply post_bind; [apply post_complex|]. intros e He. apply post_ret.
  unfold wfs_unit_exp. cbn [ue_unit ue_exp]. rewrite Hu, He. reflexivity.
Qed.
Lemma post_unit : post (fun u => forallb wfs_unit_exp u = true) (de_unit c).
Proof.
  unfold de_unit. apply post_bind_any. intros n. apply post_bind_any. intros _.
  intros bs a r E. eapply (post_list _ wfs_unit_exp) in E; [apply E | apply post_unit_exp].
Qed.
Lemma post_base : post (fun b => wfs_base b = true) (de_base c).
Proof.
  unfold de_base. apply post_bind_any. intros k. rewrite Hval. cbn [andb].
  repeat match goal with |- post _ (if ?b then _ else _) => destruct b end;
    try apply post_fail; try (apply post_ret; reflexivity);
    apply post_bind_any; intros x; destruct (base_ok x) eqn:E; cbn [negb]; try apply post_fail; apply post_ret; exact E.
Qed.
Lemma post_number : post (fun n => wfs_number n = true) (de_number c).
Proof.
  unfold de_number. eapply post_bind; [apply post_dist|]. intros v Hv.
  eapply post_bind; [apply post_unit|]. intros u Hu. apply post_bind_any. intros e.
  eapply post_bind; [apply post_base|]. intros b Hb. apply post_bind_any. intros f. apply post_bind_any. intros s.
  apply post_ret. unfold wfs_number. cbn [n_value n_unit n_base]. rewrite Hv, Hu, Hb. reflexivity.
Qed.

Lemma post_ident : post (fun s => identb s = true) (de_ident c).
Proof.
  unfold de_ident. apply post_bind_any. intros s. rewrite Hval. cbn [andb].
  destruct (identb s) eqn:E; cbn [negb]; [apply post_ret; exact E | apply post_fail].
Qed.

Lemma post_opt_scope : forall (flag : M bool) (sc : M scope),
  post (fun s => wfs_scope s = true) sc -> post (fun o => wfs_oscope o = true) (opt_scope flag sc).
Proof.
  intros flag sc H. unfold opt_scope. apply post_bind_any. intros b. destruct b.
  - eapply post_bind; [apply H|]. intros s Hs. apply post_ret. exact Hs.
  - apply post_ret. reflexivity.
Qed.

Lemma post_value_body : forall re rs ri tag,
  post (fun e => wfs_expr e = true) re -> post (fun s => wfs_scope s = true) rs ->
  (forall n, post (fun it => wfs_items it = true) (ri n)) ->
  post (fun v => wfs_value v = true) (de_value_body c re rs ri tag).
Proof.
  intros re rs ri tag He Hs Hi. unfold de_value_body.
  repeat match goal with |- post _ (if ?b then _ else _) => destruct b end; try apply post_fail;
    try (apply post_ret; reflexivity).
  - eapply post_bind; [apply post_number|]. intros n Hn. apply post_ret. exact Hn.
  - apply post_bind_any. intros s. destruct (mem s (c_from c)); [apply post_ret; reflexivity | apply post_fail].
  - apply post_bind_any. intros x. apply post_ret. reflexivity.
  - eapply post_bind; [apply post_base|]. intros b Hb. apply post_ret. exact Hb.
  - eapply post_bind; [apply post_ident|]. intros p H0. eapply post_bind; [apply He|]. intros e H1.
    eapply post_bind; [apply post_opt_scope, Hs|]. intros sc H2. apply post_ret.
    cbn [wfs_value]. rewrite H0, H1, H2. reflexivity.
  - apply post_bind_any. intros n. apply post_bind_any. intros _.
    eapply post_bind; [apply Hi|]. intros it H1. apply post_ret. exact H1.
  - apply post_bind_any. intros s. apply post_ret. reflexivity.
  - apply post_bind_any. intros s. apply post_ret. reflexivity.
  - apply post_bind_any. intros s. apply post_ret. reflexivity.
  - apply post_bind_any. intros s. apply post_ret. reflexivity.
  - do 3 (apply post_bind_any; intro). apply post_ret. reflexivity.
Qed.
Lemma post_expr_body : forall rv re tag,
  post (fun v => wfs_value v = true) rv -> post (fun e => wfs_expr e = true) re ->
  post (fun e => wfs_expr e = true) (de_expr_body c rv re tag).
Proof.
  intros rv re tag Hv He. unfold de_expr_body.
  repeat match goal with |- post _ (if ?b then _ else _) => destruct b end; try apply post_fail;
  repeat first
   [ eapply post_bind; [apply He|]; intros ? ?
   | eapply post_bind; [apply post_ident|]; intros ? ?
   | eapply post_bind; [apply Hv|]; intros ? ?
   | apply post_bind_any; intro
   | apply post_ret; cbv beta in *; cbn [wfs_expr];
     repeat match goal with H : _ = true |- _ => rewrite H; clear H end; reflexivity ].
Qed.
Lemma post_scope_body : forall re rs id, identb id = true ->
  post (fun e => wfs_expr e = true) re -> post (fun s => wfs_scope s = true) rs ->
  post (fun s => wfs_scope s = true) (de_scope_body c re rs id).
Proof.
  intros re rs id H0 He Hs. unfold de_scope_body.
  eapply post_bind; [apply He|]. intros e H1.
  eapply post_bind; [apply post_opt_scope, Hs|]. intros sc H2.
  eapply post_bind; [apply post_opt_scope, Hs|]. intros inner H3.
  apply post_ret. cbn [wfs_scope]. rewrite H0, H1, H2, H3. reflexivity.
Qed.
Lemma post_items_body : forall rv ri k,
  post (fun v => wfs_value v = true) rv -> post (fun it => wfs_items it = true) ri ->
  post (fun it => wfs_items it = true) (de_items_body rv ri k).
Proof.
  intros rv ri k Hv Hi. unfold de_items_body.
  eapply post_bind; [apply Hv|]. intros v H1. eapply post_bind; [apply Hi|]. intros r H2.
  apply post_ret. cbn [wfs_items]. rewrite H1, H2. reflexivity.
Qed.

Lemma post_tree : forall fuel,
  post (fun v => wfs_value v = true) (de_value c fuel) /\ post (fun e => wfs_expr e = true) (de_expr c fuel) /\
  post (fun s => wfs_scope s = true) (de_scope c fuel) /\ (forall n, post (fun it => wfs_items it = true) (de_items c fuel n)).
Proof.
  induction fuel as [|f (IHv & IHe & IHs & IHi)].
  - repeat split; try intros n; cbn [de_value de_expr de_scope de_items];
      try (apply post_bind_any; intro; apply post_fail).
    destruct (n =? 0); [apply post_ret; reflexivity | apply post_bind_any; intro; apply post_fail].
  - repeat split; try intros n; rewrite ?de_value_S, ?de_expr_S, ?de_scope_S, ?de_items_S.
    + apply post_bind_any. intros. apply post_value_body; auto.
    + apply post_bind_any. intros. apply post_expr_body; auto.
    + eapply post_bind; [apply post_ident|]. intros id Hid. apply post_scope_body; auto.
    + destruct (n =? 0); [apply post_ret; reflexivity|]. apply post_bind_any. intros. apply post_items_body; auto.
Qed.

Lemma post_vars_go : forall fuel n acc, wfs_vars acc = true ->
  post (fun m => wfs_vars m = true) (de_vars_go c fuel n acc).
Proof.
  induction fuel as [|f IH]; intros n acc Ha.
  - cbn [de_vars_go]. destruct (n =? 0); [apply post_ret; exact Ha | apply post_bind_any; intro; apply post_fail].
  - rewrite de_vars_go_S. destruct (n =? 0); [apply post_ret; exact Ha|].
    apply post_bind_any. intros k. eapply post_bind; [apply post_tree|]. intros v Hv.
    apply IH. unfold wfs_vars in *. apply forallb_map_insert; auto.
Qed.

Theorem loaded_wfs : forall bs m r, run (de_vars c) bs = Ok (m, r) -> wfs_vars m = true.
Proof.
  intros bs m r E. unfold de_vars in E.
  change (run (rd n <- de_usize; rd _ <- alloc c n (sz_var (c_sz c)); de_vars_go c (length bs) n []) bs = Ok (m, r)) in E.
  assert (P : post (fun m => wfs_vars m = true) (rd n <- de_usize; rd _ <- alloc c n (sz_var (c_sz c)); de_vars_go c (length bs) n [])).
  { apply post_bind_any. intros n. apply post_bind_any. intros _. apply post_vars_go. reflexivity. }
  eapply P; eauto.
Qed.
End Validated.
