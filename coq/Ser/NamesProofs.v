(* Ser/NamesProofs.v -- obligations over the generated name tables of
   BuiltInFunction (Ser/Generated/BuiltinNames.v, re-extracted from
   core/src/value/built_in_function.rs on every run), by computation. *)
From FendV Require Import Base.Prelude Ser.Generated.BuiltinNames Ser.Codec Ser.Cfg Ser.CodecRT.
Open Scope N_scope.

Fixpoint assoc (k : bytes) (l : list (bytes * bytes)) : option bytes :=
  match l with
  | [] => None
  | (k', v) :: r => if list_N_eqb k k' then Some v else assoc k r
  end.

Definition opt_bytes_eqb (a b : option bytes) : bool :=
  match a, b with Some x, Some y => list_N_eqb x y | None, None => true | _, _ => false end.

Fixpoint nodup_b (l : list bytes) : bool :=
  match l with [] => true | x :: r => negb (mem x r) && nodup_b r end.

(* as_str has exactly one arm per enum variant, in declaration order *)
Lemma as_str_total : map fst as_str_table = builtin_variants.
Proof. vm_compute. reflexivity. Qed.

(* distinct variants are written as distinct literals *)
Lemma as_names_nodup : nodup_b as_names = true.
Proof. vm_compute. reflexivity. Qed.

(* whatever literal try_from_str accepts, it maps to the variant that as_str
   writes as that literal (first matching arm, as in a Rust match) *)
Lemma from_str_agrees_with_as_str :
  forallb (fun p => match assoc (snd p) from_str_table with
                    | Some variant => list_N_eqb variant (fst p)
                    | None => true end) as_str_table = true.
Proof. vm_compute. reflexivity. Qed.

(* and accepts nothing else *)
Lemma from_names_subset : forallb (fun n => mem n as_names) from_names = true.
Proof. vm_compute. reflexivity. Qed.

(* DESIGN 3.3: every literal as_str can write is accepted by try_from_str --
   except the five listed ones (holds before and after the repair) *)
Lemma as_names_accepted_except_known :
  forallb (fun n => mem n from_names || mem n known_missing_names) as_names = true.
Proof. vm_compute. reflexivity. Qed.

Lemma as_names_accepted_except_known_In : forall n,
  In n as_names -> mem n known_missing_names = false -> In n from_names.
Proof.
  intros n Hin Hk. pose proof as_names_accepted_except_known as H.
  rewrite forallb_forall in H. specialize (H n Hin). rewrite Hk, orb_false_r in H.
  apply mem_In. exact H.
Qed.

(* ... and, since fix 3cf46ce, without exception: try_from_str accepts every
   literal as_str can write *)
Lemma as_names_accepted : forallb (fun n => mem n from_names) as_names = true.
Proof. vm_compute. reflexivity. Qed.
Lemma as_names_accepted_In : forall n, In n as_names -> In n from_names.
Proof.
  intros n Hin. pose proof as_names_accepted as H. rewrite forallb_forall in H.
  apply mem_In. apply H. exact Hin.
Qed.
Lemma as_names_sub : forall s, mem s as_names = true -> mem s from_names = true.
Proof. intros s H. apply mem_In. apply as_names_accepted_In. apply mem_In. exact H. Qed.
Lemma from_names_sub : forall s, mem s from_names = true -> mem s as_names = true.
Proof.
  intros s H. apply mem_In in H. pose proof from_names_subset as F. rewrite forallb_forall in F. apply F. exact H.
Qed.

(* the pinned table lacks each of those five *)
Lemma pinned_missing : forallb (fun n => negb (mem n from_names_pinned)) known_missing_names = true.
Proof. vm_compute. reflexivity. Qed.
