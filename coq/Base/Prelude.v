(* Prelude: result type, s-expression interchange format (parser and printer
   written in Gallina so that the OCaml driver only moves bytes), small
   utilities shared by every model file. No proofs here. *)
From Coq Require Export Ascii String.
From Coq Require Export List NArith ZArith Bool.
Export ListNotations.
Open Scope N_scope.

(* ------------------------------------------------------------------ *)
(* Results: Ok / Err kind / Panic site.  Every Rust unwrap/unreachable/
   index/slice site inside modelled code is an explicit [Panic k].      *)

Inductive err :=
| EDivByZero | EZeroPowZero | EExpTooLarge | EInterrupted | EOutOfRange
| EIncompatible | ENotInteger | ENegative | EDeser | EParse | EOutOfFuel
| EOther.

Inductive res (A : Type) :=
| Ok (a : A)
| Err (e : err)
| Panic (site : N).
Arguments Ok {A} a.
Arguments Err {A} e.
Arguments Panic {A} site.

Definition bind {A B} (r : res A) (f : A -> res B) : res B :=
  match r with Ok a => f a | Err e => Err e | Panic s => Panic s end.
Notation "'do' x <- r ; k" := (bind r (fun x => k))
  (at level 200, x pattern, r at level 100, k at level 200, right associativity).

Definition err_code (e : err) : N :=
  match e with
  | EDivByZero => 1 | EZeroPowZero => 2 | EExpTooLarge => 3 | EInterrupted => 4
  | EOutOfRange => 5 | EIncompatible => 6 | ENotInteger => 7 | ENegative => 8
  | EDeser => 9 | EParse => 10 | EOutOfFuel => 11 | EOther => 12
  end.

(* ------------------------------------------------------------------ *)
(* Text: a string is a list of byte values (on the wire) or a list of
   Unicode scalar values (inside models).  [bytes_of_string] turns a Coq
   string literal into bytes so op names can be written readably.       *)


Fixpoint bytes_of_string (s : string) : list N :=
  match s with
  | EmptyString => []
  | String a r => N_of_ascii a :: bytes_of_string r
  end.
Notation "'B' s" := (bytes_of_string s%string) (at level 9, only parsing).

Fixpoint list_N_eqb (a b : list N) : bool :=
  match a, b with
  | [], [] => true
  | x :: a', y :: b' => N.eqb x y && list_N_eqb a' b'
  | _, _ => false
  end.

(* ------------------------------------------------------------------ *)
(* s-expressions *)

Inductive sx :=
| XA (z : Z)             (* integer atom, decimal on the wire *)
| XS (bytes : list N)    (* string atom; quoted, with backslash escapes *)
| XL (l : list sx).

(* printing *)

Definition digit_byte (d : N) : N := 48 + d.

Fixpoint pos_digits_fuel (fuel : nat) (n : N) (acc : list N) : list N :=
  match fuel with
  | O => acc
  | S f =>
    if n <? 10 then digit_byte n :: acc
    else pos_digits_fuel f (n / 10) (digit_byte (n mod 10) :: acc)
  end.

(* number of decimal digits <= number of bits + 1 *)
Definition N_decimal (n : N) : list N :=
  pos_digits_fuel (S (N.to_nat (N.size n))) n [].

Definition Z_decimal (z : Z) : list N :=
  match z with
  | Z0 => [48]
  | Zpos p => N_decimal (Npos p)
  | Zneg p => 45 :: N_decimal (Npos p)
  end.

Definition hex_digit (d : N) : N := if d <? 10 then 48 + d else 87 + d.

Fixpoint escape_bytes (bs : list N) : list N :=
  match bs with
  | [] => []
  | b :: r =>
    (if (b =? 34) || (b =? 92) then [92; b]
     else if (32 <=? b) && (b <=? 126) then [b]
     else [92; 120; hex_digit (b / 16); hex_digit (b mod 16)]) ++ escape_bytes r
  end.

Fixpoint sx_print (s : sx) : list N :=
  match s with
  | XA z => Z_decimal z
  | XS bs => 34 :: escape_bytes bs ++ [34]
  | XL l =>
    40 :: (fix go (l : list sx) (first : bool) : list N :=
             match l with
             | [] => [41]
             | x :: r => (if first then [] else [32]) ++ sx_print x ++ go r false
             end) l true
  end.

(* linear-time reversal (List.rev is quadratic); used by the wire-format reader *)
Definition frev {T} (l : list T) : list T := rev_append l [].

(* parsing: a token stack machine with fuel = length of input + 1 *)

Definition is_digit (b : N) : bool := (48 <=? b) && (b <=? 57).
Definition hex_val (b : N) : N :=
  if is_digit b then b - 48
  else if (97 <=? b) && (b <=? 102) then b - 87
  else if (65 <=? b) && (b <=? 70) then b - 55 else 0.

Fixpoint read_num (bs : list N) (acc : N) : N * list N :=
  match bs with
  | b :: r => if is_digit b then read_num r (acc * 10 + (b - 48)) else (acc, bs)
  | [] => (acc, [])
  end.

(* read string body after the opening quote; returns bytes and rest *)
Fixpoint read_str (bs : list N) (acc : list N) : option (list N * list N) :=
  match bs with
  | [] => None
  | 34 :: r => Some (frev acc, r)
  | 92 :: 120 :: h :: l :: r => read_str r ((hex_val h * 16 + hex_val l) :: acc)
  | 92 :: c :: r => read_str r (c :: acc)
  | c :: r => read_str r (c :: acc)
  end.

(* bare symbol (letters, digits, '-', '_'), read as a string atom *)
Definition is_sym (b : N) : bool :=
  ((97 <=? b) && (b <=? 122)) || ((65 <=? b) && (b <=? 90)) || is_digit b || (b =? 45) || (b =? 95).
Fixpoint read_sym (bs : list N) (acc : list N) : list N * list N :=
  match bs with
  | b :: r => if is_sym b then read_sym r (b :: acc) else (frev acc, bs)
  | [] => (frev acc, [])
  end.

(* stack of partially built lists (innermost first, each reversed) *)
Fixpoint sx_parse_go (fuel : nat) (bs : list N) (stack : list (list sx))
  : option sx :=
  match fuel with
  | O => None
  | S f =>
    let push (x : sx) (rest : list N) :=
      match stack with
      | [] => Some x                       (* top-level atom: done *)
      | cur :: st => sx_parse_go f rest ((x :: cur) :: st)
      end in
    match bs with
    | [] => None
    | 32 :: r => sx_parse_go f r stack
    | 40 :: r => sx_parse_go f r ([] :: stack)
    | 41 :: r =>
      match stack with
      | [] => None
      | cur :: [] => Some (XL (frev cur))
      | cur :: (up :: st) => sx_parse_go f r ((XL (frev cur) :: up) :: st)
      end
    | 34 :: r =>
      match read_str r [] with
      | None => None
      | Some (s, rest) => push (XS s) rest
      end
    | 45 :: r =>
      let '(n, rest) := read_num r 0 in push (XA (- Z.of_N n)) rest
    | b :: r =>
      if is_digit b then
        let '(n, rest) := read_num bs 0 in push (XA (Z.of_N n)) rest
      else if is_sym b then
        let '(w, rest) := read_sym bs [] in push (XS w) rest
      else None
    end
  end.

Definition sx_parse (bs : list N) : option sx :=
  sx_parse_go (S (List.length bs)) bs [].

(* ------------------------------------------------------------------ *)
(* helpers for writing [run_*] dispatchers *)

Definition sx_err (e : err) : sx := XL [XS (B"err"); XA (Z.of_N (err_code e))].
Definition sx_panic (k : N) : sx := XL [XS (B"panic"); XA (Z.of_N k)].
Definition sx_bad : sx := XL [XS (B"bad-request")].
Definition sx_N (n : N) : sx := XA (Z.of_N n).
Definition sx_bool (b : bool) : sx := XA (if b then 1 else 0)%Z.
Definition sx_Ns (l : list N) : sx := XL (map sx_N l).

Definition sx_res {T} (f : T -> sx) (r : res T) : sx :=
  match r with
  | Ok a => XL [XS (B"ok"); f a]
  | Err e => sx_err e
  | Panic k => sx_panic k
  end.

Definition sx_opt {T} (f : T -> sx) (r : option T) : sx :=
  match r with Some a => XL [XS (B"some"); f a] | None => XL [XS (B"none")] end.

Definition as_N (s : sx) : option N :=
  match s with XA z => if (z <? 0)%Z then None else Some (Z.to_N z) | _ => None end.
Definition as_Z (s : sx) : option Z := match s with XA z => Some z | _ => None end.
Definition as_S (s : sx) : option (list N) := match s with XS b => Some b | _ => None end.

Fixpoint as_Ns (l : list sx) : option (list N) :=
  match l with
  | [] => Some []
  | x :: r => match as_N x, as_Ns r with
              | Some n, Some ns => Some (n :: ns) | _, _ => None end
  end.
Definition as_NL (s : sx) : option (list N) :=
  match s with XL l => as_Ns l | _ => None end.

(* A dispatcher takes the op name (bytes) and arguments; None = not mine. *)
Definition dispatcher := list N -> list sx -> option sx.

Definition run_with (d : dispatcher) (line : list N) : list N :=
  sx_print
    (match sx_parse line with
     | Some (XL (XS op :: args)) =>
       match d op args with Some r => r | None => XL [XS (B"unknown-op")] end
     | _ => sx_bad
     end).

Definition opeq (op : list N) (s : string) : bool := list_N_eqb op (bytes_of_string s).
