(* The completion closure never panics: for UTF-8 strings, a string that
   starts with a UTF-8 prefix can be split at the prefix's byte length. *)
From FendV Require Import Base.Prelude Crash.Utf8.
From Coq Require Import Lia ZifyBool.
Open Scope N_scope.

Arguments N.add : simpl never.
Arguments N.mul : simpl never.
Arguments N.div : simpl never.
Arguments N.modulo : simpl never.
Arguments N.ltb : simpl never.
Arguments N.leb : simpl never.
Arguments N.eqb : simpl never.

(* base-64 digit decomposition used by the encoder; after [dm c] the div/mod
   terms of c are plain variables related by linear equations *)
Lemma decomp c :
  c = 64 * (c / 64) + c mod 64 /\ c / 64 = 64 * (c / 4096) + (c / 64) mod 64 /\
  c / 4096 = 64 * (c / 262144) + (c / 4096) mod 64 /\
  c mod 64 < 64 /\ (c / 64) mod 64 < 64 /\ (c / 4096) mod 64 < 64.
Proof.
  assert (H1 : c / 4096 = c / 64 / 64) by (rewrite N.div_div by lia; reflexivity).
  assert (H2 : c / 262144 = c / 4096 / 64) by (rewrite N.div_div by lia; reflexivity).
  rewrite H2. rewrite H1 at 1.
  repeat split; try (apply N.div_mod; lia); try (apply N.mod_lt; lia).
Qed.

Ltac dm c :=
  let H := fresh "Hdm" in
  pose proof (decomp c) as H;
  generalize dependent (c mod 64); generalize dependent ((c / 64) mod 64);
  generalize dependent ((c / 4096) mod 64); generalize dependent (c / 262144);
  generalize dependent (c / 4096); generalize dependent (c / 64); intros.

Lemma scalar_bound c : is_scalar c = true -> c < 1114112.
Proof. unfold is_scalar. lia. Qed.

(* the first byte of an encoded scalar is never a continuation byte *)
Lemma enc1_lead c : is_scalar c = true ->
  exists b t, enc1 c = b :: t /\ is_cont b = false.
Proof.
  intros Hs. apply scalar_bound in Hs. unfold enc1, is_cont. dm c.
  destruct (c <? 128) eqn:E1; [eexists _, _; split; [reflexivity|lia]|].
  destruct (c <? 2048) eqn:E2; [eexists _, _; split; [reflexivity|lia]|].
  destruct (c <? 65536) eqn:E3; [eexists _, _; split; [reflexivity|lia]|].
  eexists _, _; split; [reflexivity|lia].
Qed.

(* two encodings that agree as prefixes of some byte strings are equal *)
Lemma enc1_prefix_eq c c' X Y : is_scalar c = true -> is_scalar c' = true ->
  enc1 c ++ X = enc1 c' ++ Y -> c = c' /\ X = Y.
Proof.
  intros Hs Hs' H. apply scalar_bound in Hs, Hs'. unfold enc1 in H.
  dm c. dm c'.
  destruct (c <? 128) eqn:A1; destruct (c' <? 128) eqn:B1.
  - cbn [app] in H. injection H as H1 H2. split; [lia|assumption].
  - exfalso. destruct (c' <? 2048); [|destruct (c' <? 65536)]; cbn [app] in H; injection H as H1 _; lia.
  - exfalso. destruct (c <? 2048); [|destruct (c <? 65536)]; cbn [app] in H; injection H as H1 _; lia.
  - destruct (c <? 2048) eqn:A2; destruct (c' <? 2048) eqn:B2.
    + cbn [app] in H. injection H as H1 H2 H3. split; [lia|assumption].
    + exfalso. destruct (c' <? 65536); cbn [app] in H; injection H as H1 _; lia.
    + exfalso. destruct (c <? 65536); cbn [app] in H; injection H as H1 _; lia.
    + destruct (c <? 65536) eqn:A3; destruct (c' <? 65536) eqn:B3.
      * cbn [app] in H. injection H as H1 H2 H3 H4. split; [lia|assumption].
      * exfalso. cbn [app] in H; injection H as H1 _; lia.
      * exfalso. cbn [app] in H; injection H as H1 _; lia.
      * cbn [app] in H. injection H as H1 H2 H3 H4 H5. split; [lia|assumption].
Qed.

Lemma enc_app a b : enc (a ++ b) = enc a ++ enc b.
Proof. induction a as [|c a IH]; cbn [enc app]; [reflexivity|]. rewrite IH, app_assoc. reflexivity. Qed.

(* unique decoding: a UTF-8 string that begins with another UTF-8 string
   continues with a UTF-8 string *)
Lemma enc_prefix_free : forall ps ns r,
  forallb is_scalar ps = true -> forallb is_scalar ns = true ->
  enc ns = enc ps ++ r -> exists rs, ns = ps ++ rs /\ r = enc rs.
Proof.
  induction ps as [|c ps IH]; intros ns r Hp Hn H.
  - exists ns. split; [reflexivity|]. cbn [enc app] in H. symmetry. exact H.
  - cbn [forallb] in Hp. apply andb_prop in Hp as [Hc Hp].
    destruct ns as [|c' ns].
    + exfalso. cbn [enc] in H. destruct (enc1_lead c Hc) as (b & t & Hb & _).
      rewrite Hb in H. discriminate.
    + cbn [forallb] in Hn. apply andb_prop in Hn as [Hc' Hn].
      cbn [enc] in H. rewrite <- app_assoc in H.
      apply enc1_prefix_eq in H as [-> H]; [|assumption|assumption].
      destruct (IH ns r Hp Hn H) as (rs & -> & ->).
      exists rs. split; reflexivity.
Qed.

Lemma starts_with_app : forall p s, starts_with s p = true -> exists r, s = p ++ r.
Proof.
  induction p as [|b p IH]; intros s H.
  - exists s. reflexivity.
  - destruct s as [|c s]; [discriminate|]. cbn [starts_with] in H.
    apply andb_prop in H as [Hb H]. apply N.eqb_eq in Hb. subst c.
    destruct (IH s H) as (r & ->). exists r. reflexivity.
Qed.

Lemma nth_error_app_len {T} (a b : list T) : nth_error (a ++ b) (length a) = nth_error b 0.
Proof. induction a as [|x a IH]; [reflexivity|exact IH]. Qed.

Lemma boundary_after_prefix ps rs :
  forallb is_scalar rs = true ->
  is_char_boundary (enc ps ++ enc rs) (length (enc ps)) = true.
Proof.
  intros Hr. unfold is_char_boundary.
  destruct (length (enc ps)) eqn:El; [reflexivity|]. rewrite <- El.
  rewrite nth_error_app_len.
  destruct rs as [|c rs].
  - cbn [enc nth_error]. rewrite app_nil_r. apply Nat.eqb_refl.
  - cbn [forallb] in Hr. apply andb_prop in Hr as [Hc _].
    cbn [enc]. destruct (enc1_lead c Hc) as (b & t & -> & Hb).
    cbn [app nth_error]. rewrite Hb. reflexivity.
Qed.

Lemma firstn_app_len {T} (a b : list T) : firstn (length a) (a ++ b) = a.
Proof. induction a as [|x a IH]; cbn [length firstn app]; [destruct b; reflexivity|]. now rewrite IH. Qed.
Lemma skipn_app_len {T} (a b : list T) : skipn (length a) (a ++ b) = b.
Proof. induction a as [|x a IH]; [reflexivity|exact IH]. Qed.

Theorem split_after_prefix_ok : forall ns ps,
  forallb is_scalar ns = true -> forallb is_scalar ps = true ->
  starts_with (enc ns) (enc ps) = true ->
  exists rs, ns = ps ++ rs /\
             split_at (enc ns) (length (enc ps)) = Ok (enc ps, enc rs).
Proof.
  intros ns ps Hn Hp H.
  destruct (starts_with_app _ _ H) as (r & Hr).
  destruct (enc_prefix_free ps ns r Hp Hn Hr) as (rs & -> & ->).
  exists rs. split; [reflexivity|].
  rewrite forallb_app in Hn. apply andb_prop in Hn as [_ Hrs].
  unfold split_at. rewrite enc_app, boundary_after_prefix by assumption.
  rewrite firstn_app_len, skipn_app_len. reflexivity.
Qed.

(* the completion closure: never a panic, and the inserted text is exactly
   what has to be typed after the prefix *)
Theorem completion_of_ok : forall ns ps,
  forallb is_scalar ns = true -> forallb is_scalar ps = true ->
  match completion_of (enc ns) (enc ps) with
  | Ok None => True
  | Ok (Some (display, insert)) => display = enc ns /\ exists rs, ns = ps ++ rs /\ insert = enc rs
  | Err _ | Panic _ => False
  end.
Proof.
  intros ns ps Hn Hp. unfold completion_of.
  destruct (starts_with (enc ns) (enc ps)) eqn:Hs; cbn [andb]; [|exact I].
  destruct (negb (list_N_eqb (enc ns) (enc ps))); [|exact I].
  destruct (split_after_prefix_ok ns ps Hn Hp Hs) as (rs & Hrs & ->).
  cbn [bind snd]. split; [reflexivity|]. exists rs. split; [exact Hrs|reflexivity].
Qed.

(* without the UTF-8 hypothesis the slicing does panic: a byte-level prefix
   that ends inside a character (this is why the hypothesis matters, and why a
   change that computes the split position differently is dangerous) *)
Lemma split_inside_char_panics : split_at (enc [233]) 1 = Panic 1.
Proof. vm_compute. reflexivity. Qed.
