From FendV Require Import Base.Prelude Crash.Superscript.
From Coq Require Import Lia ZifyBool.
Open Scope N_scope.

Arguments N.add : simpl never.
Arguments N.mul : simpl never.
Arguments N.pow : simpl never.
Arguments N.leb : simpl never.
Arguments N.eqb : simpl never.
Arguments N.modulo : simpl never.

Lemma sup_go_no_panic : forall ds i acc k, sup_go i ds acc <> Panic k.
Proof.
  induction ds as [|d r IH]; intros i acc k; cbn [sup_go]; [discriminate|].
  destruct (d =? 0); [apply IH|].
  destruct (checked_pow10 i) as [p|]; [|discriminate].
  destruct (checked_mul p d) as [num|]; [apply IH|discriminate].
Qed.

Lemma sup_go_value : forall ds i acc n,
  sup_go i ds acc = Ok n -> n = acc + digits_value_from i ds.
Proof.
  induction ds as [|d r IH]; intros i acc n H; cbn [sup_go digits_value_from] in *.
  - injection H as <-. lia.
  - destruct (d =? 0) eqn:Ed.
    + apply N.eqb_eq in Ed. subst d. apply IH in H. lia.
    + unfold checked_pow10 in H.
      destruct (i <=? u32_max); [|discriminate].
      destruct (10 ^ i <=? u64_max); [|discriminate].
      unfold checked_mul in H.
      destruct (10 ^ i * d <=? u64_max); [|discriminate].
      apply IH in H. lia.
Qed.

(* an error is reported only when some non-zero digit's contribution does not
   fit in 64 bits (so the exponent is at least 2^64 / 10: far beyond anything
   fend can raise to) *)
Lemma sup_go_err : forall ds i acc e,
  sup_go i ds acc = Err e ->
  e = EExpTooLarge /\ exists j d, In d ds /\ d <> 0 /\ i <= j /\
     (u32_max < j \/ u64_max < 10 ^ j \/ u64_max < 10 ^ j * d).
Proof.
  induction ds as [|d r IH]; intros i acc e H; cbn [sup_go] in H; [discriminate|].
  destruct (d =? 0) eqn:Ed.
  - apply IH in H as (-> & j & d' & Hin & Hnz & Hle & Hbig). split; [reflexivity|].
    exists j, d'. repeat split; try assumption; [now right | lia].
  - assert (Hd : d <> 0) by (apply N.eqb_neq; exact Ed).
    unfold checked_pow10, checked_mul in H.
    destruct (i <=? u32_max) eqn:E1.
    + destruct (10 ^ i <=? u64_max) eqn:E2.
      * destruct (10 ^ i * d <=? u64_max) eqn:E3.
        -- apply IH in H as (-> & j & d' & Hin & Hnz & Hle & Hbig). split; [reflexivity|].
           exists j, d'. repeat split; try assumption; [now right | lia].
        -- injection H as <-. split; [reflexivity|]. exists i, d.
           repeat split; [now left | assumption | lia | right; right; lia].
      * injection H as <-. split; [reflexivity|]. exists i, d.
        repeat split; [now left | assumption | lia | right; left; lia].
    + injection H as <-. split; [reflexivity|]. exists i, d.
      repeat split; [now left | assumption | lia | left; lia].
Qed.

Lemma sup_exponent_spec : forall ds,
  match sup_exponent ds with
  | Ok n => n = digits_value ds
  | Err e => e = EExpTooLarge /\ exists j d, In d ds /\ d <> 0 /\
               (u32_max < j \/ u64_max < 10 ^ j \/ u64_max < 10 ^ j * d)
  | Panic _ => False
  end.
Proof.
  intros ds. unfold sup_exponent, digits_value.
  destruct (sup_go 0 ds 0) as [n|e|k] eqn:H.
  - apply sup_go_value in H. lia.
  - apply sup_go_err in H as (-> & j & d & Hin & Hnz & _ & Hbig). split; [reflexivity|].
    exists j, d. repeat split; assumption.
  - exact (sup_go_no_panic _ _ _ _ H).
Qed.

(* the original code did panic (checked build) and did return a wrong
   exponent (unchecked build): 21 digits "5…": witness computed *)
Lemma sup_old_panics : exists ds, Forall (fun d => d < 10) ds /\ exists k, sup_old true ds = Panic k.
Proof.
  exists [1;0;0;0;0;0;0;0;0;0;0;0;0;0;0;0;0;0;0;0;1]. split.
  - repeat constructor.
  - eexists. vm_compute. reflexivity.
Qed.

Lemma sup_old_wraps : exists ds, Forall (fun d => d < 10) ds /\
  exists n, sup_old false ds = Ok n /\ n <> digits_value ds.
Proof.
  exists [0;0;0;0;0;0;0;0;0;0;0;0;0;0;0;0;0;0;0;0;1]. split.
  - repeat constructor.
  - eexists. split; [vm_compute; reflexivity|]. vm_compute. discriminate.
Qed.

Lemma ipow_selector_total : forall y, exists r, ipow_selector y = Ok r /\ r = y mod 4 /\ r < 4.
Proof.
  intros y. unfold ipow_selector.
  assert (H : y mod 4 < 4) by (apply N.mod_lt; lia).
  generalize dependent (y mod 4). intros m H.
  destruct (m =? 0) eqn:E0; [exists 0; repeat split; try reflexivity; lia|].
  destruct (m =? 1) eqn:E1; [exists 1; repeat split; try reflexivity; lia|].
  destruct (m =? 2) eqn:E2; [exists 2; repeat split; try reflexivity; lia|].
  destruct (m =? 3) eqn:E3; [exists 3; repeat split; try reflexivity; lia|]. lia.
Qed.
