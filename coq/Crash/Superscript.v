(* Model of the superscript-exponent accumulation in core/src/lexer.rs
   (parse_basic_number, "parse exponentiation via unicode superscript
   digits"), in its repaired form (fix: 8fe1fc3) and in its original form
   (kept to document the defect: [sup_old]).  Digits are given least
   significant first, as the Rust code sees them after [reverse()]. *)
From FendV Require Import Base.Prelude.
Open Scope N_scope.

Definition u64_max : N := 18446744073709551615.
Definition u32_max : N := 4294967295.

(* 10u64.checked_pow(i) *)
Definition checked_pow10 (i : N) : option N :=
  if i <=? u32_max then (if 10 ^ i <=? u64_max then Some (10 ^ i) else None) else None.

Definition checked_mul (a b : N) : option N :=
  if a * b <=? u64_max then Some (a * b) else None.

(* repaired code: zero digits skipped, checked arithmetic -> ExponentTooLarge;
   the running sum [acc] is a fend Number (arbitrary precision): no overflow *)
Fixpoint sup_go (i : N) (ds : list N) (acc : N) : res N :=
  match ds with
  | [] => Ok acc
  | d :: r =>
    if d =? 0 then sup_go (i + 1) r acc
    else match checked_pow10 i with
         | None => Err EExpTooLarge
         | Some p => match checked_mul p d with
                     | None => Err EExpTooLarge
                     | Some num => sup_go (i + 1) r (acc + num)
                     end
         end
  end.

Definition sup_exponent (ds : list N) : res N := sup_go 0 ds 0.

(* original code: [digit * 10u64.pow(i)] -- in a build with overflow checks
   both the power and the product panic on overflow (sites 1 and 2); without
   them they wrap modulo 2^64 *)
Fixpoint sup_old_go (checked : bool) (i : N) (ds : list N) (acc : N) : res N :=
  match ds with
  | [] => Ok acc
  | d :: r =>
    let p := 10 ^ i in
    if checked && negb (p <=? u64_max) then Panic 1
    else let p' := p mod (u64_max + 1) in
         if checked && negb (d * p' <=? u64_max) then Panic 2
         else sup_old_go checked (i + 1) r (acc + (d * p') mod (u64_max + 1))
  end.

Definition sup_old (checked : bool) (ds : list N) : res N := sup_old_go checked 0 ds 0.

(* spec: the decimal value of the digit string *)
Fixpoint digits_value_from (i : N) (ds : list N) : N :=
  match ds with
  | [] => 0
  | d :: r => d * 10 ^ i + digits_value_from (i + 1) r
  end.
Definition digits_value (ds : list N) : N := digits_value_from 0 ds.

(* Complex::pow, purely imaginary base, exponent beyond usize: the selector
   [match rem.and_then(try_as_usize)] on rem = y mod 4; site 3 is the
   remaining [unreachable!] arm. *)
Definition ipow_selector (y : N) : res N :=
  let rem := y mod 4 in
  if rem =? 0 then Ok 0 else if rem =? 1 then Ok 1 else if rem =? 2 then Ok 2
  else if rem =? 3 then Ok 3 else Panic 3.
