(* UTF-8 at byte level: encoder, Rust's is_char_boundary / split_at with the
   panic made explicit, starts_with.  Used for the slicing sites whose safety
   depends on char boundaries (units::get_completions_for_prefix:
   `name.split_at(prefix.len())` after `name.starts_with(prefix)`). *)
From FendV Require Import Base.Prelude.
Open Scope N_scope.

Definition is_scalar (c : N) : bool :=
  (c <? 55296) || ((57344 <=? c) && (c <? 1114112)).

(* char::encode_utf8 *)
Definition enc1 (c : N) : list N :=
  if c <? 128 then [c]
  else if c <? 2048 then [192 + c / 64; 128 + c mod 64]
  else if c <? 65536 then [224 + c / 4096; 128 + (c / 64) mod 64; 128 + c mod 64]
  else [240 + c / 262144; 128 + (c / 4096) mod 64; 128 + (c / 64) mod 64; 128 + c mod 64].

Fixpoint enc (cs : list N) : list N :=
  match cs with [] => [] | c :: r => enc1 c ++ enc r end.

(* a continuation byte: 0x80..0xBF  (Rust: (b as i8) < -0x40) *)
Definition is_cont (b : N) : bool := (128 <=? b) && (b <? 192).

(* str::is_char_boundary *)
Definition is_char_boundary (s : list N) (i : nat) : bool :=
  match i with
  | O => true
  | _ => match nth_error s i with
         | None => Nat.eqb i (length s)
         | Some b => negb (is_cont b)
         end
  end.

(* str::split_at: panics (site 1) when mid is not on a char boundary *)
Definition split_at (s : list N) (mid : nat) : res (list N * list N) :=
  if is_char_boundary s mid then Ok (firstn mid s, skipn mid s) else Panic 1.

Fixpoint starts_with (s p : list N) : bool :=
  match p, s with
  | [], _ => true
  | b :: p', c :: s' => (b =? c) && starts_with s' p'
  | _ :: _, [] => false
  end.

(* the closure `add` of units::get_completions_for_prefix:
   Some (display, insert) when the name completes the prefix *)
Definition completion_of (name prefix : list N) : res (option (list N * list N)) :=
  if starts_with name prefix && negb (list_N_eqb name prefix) then
    do parts <- split_at name (length prefix);
    Ok (Some (name, snd parts))
  else Ok None.
