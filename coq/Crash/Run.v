(* Dispatcher of the Crash area (C06): superscript exponent model, the
   imaginary-power selector, and the classifier of the one open known
   finding (stack exhaustion on deep / long input), so that the line between
   "listed" and "new" is drawn by one Gallina definition. *)
From FendV Require Import Base.Prelude Crash.Superscript Crash.Utf8.
Open Scope N_scope.

(* maximum bracket nesting reached while scanning the text *)
Fixpoint nesting_go (s : list N) (depth mx : N) : N :=
  match s with
  | [] => mx
  | c :: r =>
    if (c =? 40) || (c =? 91) || (c =? 123) then
      nesting_go r (depth + 1) (N.max mx (depth + 1))
    else if (c =? 41) || (c =? 93) || (c =? 125) then
      nesting_go r (depth - 1) mx
    else nesting_go r depth mx
  end.
Definition max_nesting (s : list N) : N := nesting_go s 0 0.

(* known class "stack-exhaustion-deep-input": only inputs this deep or this
   long are excused, and only when the observed failure is a stack-overflow
   abort (that part is decided by the harness) *)
Definition deep_input (s : list N) : bool :=
  (400 <=? max_nesting s) || (1500 <=? N.of_nat (List.length s)).

Definition run_crash : dispatcher := fun op args =>
  if opeq op "sup-exp" then
    match args with
    | [XL ds] => match as_Ns ds with
                 | Some d => Some (sx_res sx_N (sup_exponent d))
                 | None => Some sx_bad end
    | _ => Some sx_bad
    end
  else if opeq op "sup-old" then
    match args with
    | [XA c; XL ds] => match as_Ns ds with
                 | Some d => Some (sx_res sx_N (sup_old (negb (Z.eqb c 0)) d))
                 | None => Some sx_bad end
    | _ => Some sx_bad
    end
  else if opeq op "ipow-sel" then
    match args with
    | [XA y] => Some (sx_res sx_N (ipow_selector (Z.to_N y)))
    | _ => Some sx_bad
    end
  else if opeq op "completion-of" then
    match args with
    | [XS name; XS prefix] =>
      Some (sx_res (fun o => match o with
                             | Some (d, i) => XL [XS d; XS i]
                             | None => XL []
                             end) (completion_of name prefix))
    | _ => Some sx_bad
    end
  else if opeq op "deep-input" then
    match args with
    | [XL cps] => match as_Ns cps with
                  | Some s => Some (XL [sx_bool (deep_input s); sx_N (max_nesting s)])
                  | None => Some sx_bad end
    | _ => Some sx_bad
    end
  else None.

Definition run_crash_line : list N -> list N := run_with run_crash.
