(* Units area: dimensions.  The physics dimension of a unit expression is the
   sum, over its named units, of exponent x base-unit decomposition, with the
   temperature bases celsius and fahrenheit identified with kelvin.  Also: a
   small language of unit expressions and its evaluation by the algebra model
   (meval), used for C05.  No proofs here. *)
From FendV Require Import Base.Prelude Units.Defs Units.Algebra Units.Lookup.
From Coq Require Import QArith.
Close Scope Q_scope.
Open Scope N_scope.

(* sum of the exponents that a base-unit map gives to [k] *)
Fixpoint bdim (bases : hmap) (k : str) : Q :=
  match bases with
  | [] => 0%Q
  | (b, e) :: r => if str_eqb b k then Qplus e (bdim r k) else bdim r k
  end.

(* dimension of a unit expression in the code's own base units *)
Fixpoint udim (us : list uexp) (k : str) : Q :=
  match us with
  | [] => 0%Q
  | u :: r => Qplus (Qmult (ue_exp u) (bdim (nu_base (ue_unit u)) k)) (udim r k)
  end.

(* value of a hash map at a key (absent = 0) *)
Definition dimf (h : hmap) (k : str) : Q :=
  match hm_get h k with Some v => v | None => 0%Q end.

(* celsius and fahrenheit are kelvin as far as dimensions go *)
Definition rename (b : str) : str :=
  if str_eqb b s_celsius || str_eqb b s_fahrenheit then s_kelvin else b.

Definition renamed (h : hmap) : hmap := map (fun be => (rename (fst be), snd be)) h.

(* physics dimension: a function from base-unit names to exponents *)
Definition tdim (f : str -> Q) (k : str) : Q :=
  if str_eqb k s_kelvin then Qplus (f s_kelvin) (Qplus (f s_celsius) (f s_fahrenheit))
  else if str_eqb k s_celsius || str_eqb k s_fahrenheit then 0%Q
  else f k.

Definition pdim_units (us : list uexp) : str -> Q := tdim (udim us).
Definition vdim (v : value) : str -> Q := pdim_units (v_units v).

(* the hash map does not hold two of celsius / fahrenheit / kelvin (and no key
   twice): the only case in which reduce_hashmap was right before fend commit
   1210896 (see Units/OldReduce.v); no longer a hypothesis of any theorem *)
Fixpoint nodup_str (l : list str) : bool :=
  match l with
  | [] => true
  | x :: r => negb (existsb (str_eqb x) r) && nodup_str r
  end.

Definition unmixed_map (h : hmap) : bool := nodup_str (map fst (renamed h)).

Definition unmixed (us : list uexp) : bool :=
  match to_hashmap_and_scale us with
  | Ok (h, _) => unmixed_map h
  | _ => true
  end.

(* ------------------------------------------------------------------ *)
(* unit expressions *)

Inductive uexpr :=
| UNum (q : Q)
| UName (n : str)
| UMul (a b : uexpr)
| UDiv (a b : uexpr)
| UPow (a : uexpr) (q : Q)
| UNeg (a : uexpr)
| UAdd (a b : uexpr)
| USub (a b : uexpr)
| UConv (a b : uexpr)
| UFn (a : uexpr).          (* a function that needs a pure number (ln, ...) *)

Section Eval.
  (* what a name denotes (the lookup model over the table of the tree) *)
  Variable resolve : str -> lres value.

  Definition num_value (q : Q) : value := mkval (Simple q) [] true true.

  Fixpoint meval (e : uexpr) : res value :=
    match e with
    | UNum q => Ok (num_value q)
    | UName n =>
      match resolve n with
      | LOk v => Ok v
      | LNotFound => Err EParse
      | LErr e => Err e
      | LPanic k => Panic k
      end
    | UMul a b => do x <- meval a; do y <- meval b; Ok (v_mul x y)
    | UDiv a b => do x <- meval a; do y <- meval b; v_div x y
    | UPow a q => do x <- meval a; v_pow x (num_value q)
    | UNeg a => do x <- meval a; Ok (v_neg x)
    | UAdd a b => do x <- meval a; do y <- meval b; v_add x y
    | USub a b => do x <- meval a; do y <- meval b; v_sub x y
    | UConv a b => do x <- meval a; do y <- meval b; v_convert_to x y
    | UFn a =>
      do x <- meval a;
      do r <- v_require_unitless x;
      (* the numeric result of the function is not modelled *)
      Ok (mkval (xv r) [] false true)
    end.

  (* the physics typing of expressions: [HasDim e f] = e is dimensionally
     well formed and has dimension f *)
  Definition dim_eq (f g : str -> Q) : Prop := forall k, Qeq (f k) (g k).

  Inductive HasDim : uexpr -> (str -> Q) -> Prop :=
  | HDNum q : HasDim (UNum q) (fun _ => 0%Q)
  | HDName n v : resolve n = LOk v -> HasDim (UName n) (vdim v)
  | HDMul a b f g : HasDim a f -> HasDim b g -> HasDim (UMul a b) (fun k => Qplus (f k) (g k))
  | HDDiv a b f g : HasDim a f -> HasDim b g -> HasDim (UDiv a b) (fun k => Qminus (f k) (g k))
  | HDPow a q f : HasDim a f -> HasDim (UPow a q) (fun k => Qmult q (f k))
  | HDNeg a f : HasDim a f -> HasDim (UNeg a) f
  | HDAdd a b f g : HasDim a f -> HasDim b g -> dim_eq f g -> HasDim (UAdd a b) f
  | HDSub a b f g : HasDim a f -> HasDim b g -> dim_eq f g -> HasDim (USub a b) f
  (* adding or subtracting a zero is the one permitted no-op *)
  | HDAddZero a b f g y : HasDim a f -> HasDim b g -> meval b = Ok y -> v_is_zero y = true -> HasDim (UAdd a b) f
  | HDSubZero a b f g y : HasDim a f -> HasDim b g -> meval b = Ok y -> v_is_zero y = true -> HasDim (USub a b) f
  | HDConv a b f g : HasDim a f -> HasDim b g -> dim_eq f g -> HasDim (UConv a b) g
  | HDFn a f : HasDim a f -> dim_eq f (fun _ => 0%Q) -> HasDim (UFn a) (fun _ => 0%Q).
End Eval.
