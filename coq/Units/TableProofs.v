(* Units area: the finite obligations of C11 over the generated table of the
   tree being checked, by exhaustive kernel computation (vm_compute) lifted
   with forallb_forall.  The computations use the indexed lookup; the
   statements are about the faithful one (Index.fast_query_unit_internal_eq). *)
From FendV Require Import Base.Prelude Units.Defs Units.Algebra Units.Lookup Units.Index
     Units.Legality Units.LookupProofs Units.Table.
From FendV Require Import Units.Generated.UnitTable.
From Coq Require Import Lia.
Open Scope N_scope.

(* ------------------------------------------------------------------ *)
(* index *)

Lemma the_index_ok : index_ok the_tables the_index.
Proof.
  replace the_index with (build the_tables) by (vm_compute; reflexivity).
  apply build_ok.
Qed.

Lemma q_fast_eq i sp cs wu : q_fast i sp cs wu = q_ref i sp cs wu.
Proof. apply fast_query_unit_internal_eq, the_index_ok. Qed.

(* ------------------------------------------------------------------ *)
(* the legality checks do not depend on which of two pointwise equal query
   functions is used *)
Section Ext.
  Variable q1 q2 : str -> bool -> bool -> bool -> option rawdef.
  Hypothesis Hq : forall i a b c, q1 i a b c = q2 i a b c.
  Variable cir : str -> bool.

  Lemma earlier_split_found_ext : forall stop pre rest,
    earlier_split_found q1 pre rest stop = earlier_split_found q2 pre rest stop.
  Proof.
    induction stop as [|k IH]; intros pre rest; [reflexivity|].
    destruct rest as [|c rest']; [reflexivity|].
    cbn [earlier_split_found]. rewrite !Hq, !IH. reflexivity.
  Qed.

  Lemma pair_is_plain_ext p u : pair_is_plain q1 p u = pair_is_plain q2 p u.
  Proof.
    unfold pair_is_plain, whole_found, has_earlier_split. rewrite Hq.
    destruct (p ++ u); [reflexivity|]. rewrite earlier_split_found_ext. reflexivity.
  Qed.

  Lemma prefix_side_rule_ext p : prefix_side_rule q1 p = prefix_side_rule q2 p.
  Proof. unfold prefix_side_rule. rewrite Hq. reflexivity. Qed.

  Lemma name_side_rule_ext u : name_side_rule q1 u = name_side_rule q2 u.
  Proof. unfold name_side_rule. rewrite Hq. reflexivity. Qed.

  Lemma name_rules_ext names : name_rules q1 names = name_rules q2 names.
  Proof. unfold name_rules. apply map_ext. intro u. rewrite name_side_rule_ext. reflexivity. Qed.

  Lemma chk_pair_legality_ext p rp u ru c :
    chk_pair_legality q1 cir p rp u ru c = chk_pair_legality q2 cir p rp u ru c.
  Proof. unfold chk_pair_legality. rewrite pair_is_plain_ext. reflexivity. Qed.

  Lemma chk_row_go_ext p rp : forall us codes,
    chk_row_go q1 cir p rp us codes = chk_row_go q2 cir p rp us codes.
  Proof.
    induction us as [|[u ru] us IH]; intros [|c codes]; try reflexivity.
    cbn [chk_row_go]. rewrite chk_pair_legality_ext, IH. reflexivity.
  Qed.

  Lemma chk_prefix_row_legality_ext names row :
    chk_prefix_row_legality q1 cir names row = chk_prefix_row_legality q2 cir names row.
  Proof.
    destruct row as [p codes]. unfold chk_prefix_row_legality.
    rewrite prefix_side_rule_ext, name_rules_ext, chk_row_go_ext. reflexivity.
  Qed.
End Ext.

Lemma chk_row_go_all q cir p rp : forall us codes,
  chk_row_go q cir p rp us codes = true ->
  length us = length codes /\
  forall u ru c, In ((u, ru), c) (combine us codes) -> chk_pair_legality q cir p rp u ru c = true.
Proof.
  induction us as [|[u ru] us IH]; intros [|c codes] H; cbn [chk_row_go] in H; try discriminate.
  - split; [reflexivity|]. intros ? ? ? [].
  - destruct (chk_pair_legality q cir p rp u ru c) eqn:E; [|discriminate].
    destruct (IH _ H) as [Hl Hall]. split; [cbn [length]; rewrite Hl; reflexivity|].
    intros u' ru' c' [Hin|Hin].
    + inversion Hin; subst. exact E.
    + apply Hall. exact Hin.
Qed.

(* ------------------------------------------------------------------ *)
(* the exhaustive computations *)

Lemma resolves_b : forallb chk_resolves (table_names ++ gen_currencies) = true.
Proof. vm_compute. reflexivity. Qed.

Lemma model_agrees_b : forallb chk_model_agrees all_names = true.
Proof. vm_compute. reflexivity. Qed.

Lemma sing_plur_b : forallb chk_sing_plur (t_defs the_tables) = true.
Proof. vm_compute. reflexivity. Qed.

Lemma first_definition_b : forallb chk_first_definition all_names = true.
Proof. vm_compute. reflexivity. Qed.

Lemma lookup_first_b : forallb chk_lookup_first all_names = true.
Proof. vm_compute. reflexivity. Qed.

Lemma short_long_b : forallb chk_short_long (t_defs the_tables) = true.
Proof. vm_compute. reflexivity. Qed.

Lemma family_b : forallb chk_family table_names = true.
Proof. vm_compute. reflexivity. Qed.

Lemma prefix_rows_b : forallb (chk_row q_fast) gen_prefix_status = true.
Proof. vm_compute. reflexivity. Qed.

Lemma reachable_b :
  forallb (fun d => chk_prefixable_reachable d || mem_str (fst (fst d)) known_unreachable) (t_defs the_tables) = true.
Proof. vm_compute. reflexivity. Qed.

(* the status rows cover every prefix-side name of the table *)
Definition is_prefix_rule (r : prule) : bool := match r with RLong | RShort => true | _ => false end.

Lemma prefixes_covered_b :
  forallb (fun p => mem_str p (map fst gen_prefix_status))
          (filter (fun p => match prefix_side_rule q_ref p with Some r => is_prefix_rule r | None => false end)
                  (all_names ++ map fst gen_short)) = true.
Proof. vm_compute. reflexivity. Qed.

(* ------------------------------------------------------------------ *)
(* statements *)

Lemma all_names_resolve n :
  In n table_names \/ In n gen_currencies ->
  exists v r, assoc gen_names n = Some (LOk (v, r)).
Proof.
  intro H. assert (In n (table_names ++ gen_currencies)) as Hin by (apply in_or_app; exact H).
  pose proof (proj1 (forallb_forall _ _) resolves_b n Hin) as Hc.
  unfold chk_resolves in Hc.
  destruct (assoc gen_names n) as [[[v r]| | |]|]; try discriminate. eauto.
Qed.

Lemma model_matches_implementation n : In n all_names -> chk_model_agrees n = true.
Proof. apply (proj1 (forallb_forall _ _) model_agrees_b). Qed.

Lemma singular_plural_same s p d :
  In (s, p, d) (t_defs the_tables) -> p <> [] ->
  exists q1 q2, impl_quantity s = Some q1 /\ impl_quantity p = Some q2 /\ quantity_eqb q1 q2 = true.
Proof.
  intros Hin Hp.
  pose proof (proj1 (forallb_forall _ _) sing_plur_b _ Hin) as Hc. unfold chk_sing_plur in Hc.
  destruct p as [|c p']; [contradiction|].
  unfold opt_quantity_eqb in Hc.
  destruct (impl_quantity s) as [q1|]; [|discriminate].
  destruct (impl_quantity (c :: p')) as [q2|]; [|discriminate]. eauto.
Qed.

Lemma name_denotes_selected_definition n : In n all_names -> chk_first_definition n = true.
Proof. apply (proj1 (forallb_forall _ _) first_definition_b). Qed.

Lemma lookup_selects_first_definition n : In n all_names -> chk_lookup_first n = true.
Proof. apply (proj1 (forallb_forall _ _) lookup_first_b). Qed.

Lemma short_long_agree d : In d (t_defs the_tables) -> chk_short_long d = true.
Proof. apply (proj1 (forallb_forall _ _) short_long_b). Qed.

Lemma sq_cb_family n x k qx :
  In n table_names -> In (x, k) (family_of n) -> stem_quantity x = Some qx ->
  exists want, quantity_pow qx k = Some want /\ opt_quantity_eqb (impl_quantity n) (Some want) = true.
Proof.
  intros Hn Hx Hq.
  pose proof (proj1 (forallb_forall _ _) family_b _ Hn) as Hc. unfold chk_family in Hc.
  pose proof (proj1 (forallb_forall _ _) Hc _ Hx) as H1.
  unfold chk_family_one in H1. cbn [fst snd] in H1. rewrite Hq in H1.
  destruct (quantity_pow qx k) as [want|]; [|discriminate]. eauto.
Qed.

Lemma prefix_row_ref row : In row gen_prefix_status -> chk_row q_ref row = true.
Proof.
  intro Hin. pose proof (proj1 (forallb_forall _ _) prefix_rows_b _ Hin) as Hc.
  unfold chk_row in *. rewrite <- Hc. symmetry.
  apply chk_prefix_row_legality_ext. exact q_fast_eq.
Qed.

(* code = status of the implementation's resolver on p ++ u:
   0 resolves, 1 unknown identifier, 2 another error *)
Lemma prefix_legality p codes u ru code :
  In (p, codes) gen_prefix_status ->
  In ((u, ru), code) (combine (name_rules q_ref all_names) codes) ->
  pair_is_plain q_ref p u = true ->
  (legal_rules (prefix_side_rule q_ref p) ru = true -> code = 0) /\
  (legal_rules (prefix_side_rule q_ref p) ru = false ->
   code = 1 \/ (code = 0 /\ ci_rescued (p ++ u) = true)).
Proof.
  intros Hrow Hin Hplain.
  pose proof (prefix_row_ref _ Hrow) as Hc. unfold chk_row, chk_prefix_row_legality in Hc.
  destruct (chk_row_go_all _ _ _ _ _ _ Hc) as [_ Hall].
  specialize (Hall _ _ _ Hin). unfold chk_pair_legality in Hall. rewrite Hplain in Hall.
  split; intro Hl; rewrite Hl in Hall.
  - destruct (code =? 0) eqn:E; [apply N.eqb_eq in E; exact E|discriminate].
  - destruct (code =? 1) eqn:E1; [left; apply N.eqb_eq in E1; exact E1|].
    destruct (code =? 0) eqn:E0; [|discriminate].
    right. split; [apply N.eqb_eq in E0; exact E0|exact Hall].
Qed.

Lemma rows_have_all_names p codes :
  In (p, codes) gen_prefix_status -> length codes = length all_names.
Proof.
  intro Hrow. pose proof (prefix_row_ref _ Hrow) as Hc. unfold chk_row, chk_prefix_row_legality in Hc.
  destruct (chk_row_go_all _ _ _ _ _ _ Hc) as [Hl _].
  unfold name_rules in Hl. rewrite map_length in Hl. symmetry. exact Hl.
Qed.

Lemma legal_rules_none rp : legal_rules rp (Some RNone) = false.
Proof.
  destruct rp as [a|]; [|reflexivity]. unfold legal_rules, rules_compatible.
  destruct a; reflexivity.
Qed.

Lemma no_prefix_units_reject p codes u code :
  In (p, codes) gen_prefix_status ->
  In ((u, Some RNone), code) (combine (name_rules q_ref all_names) codes) ->
  pair_is_plain q_ref p u = true ->
  code = 1 \/ (code = 0 /\ ci_rescued (p ++ u) = true).
Proof.
  intros Hrow Hin Hplain.
  destruct (prefix_legality _ _ _ _ _ Hrow Hin Hplain) as [_ H]. apply H. apply legal_rules_none.
Qed.

Lemma prefixable_defs_reachable s p d n :
  In (s, p, d) (t_defs the_tables) -> allows_prefix (rule_of_def (s, p, d)) = true ->
  mem_str s known_unreachable = false -> In n (def_names (s, p, d)) ->
  name_side_rule q_ref n = Some (rule_of_def (s, p, d)).
Proof.
  intros Hin Ha Hk Hn.
  pose proof (proj1 (forallb_forall _ _) reachable_b _ Hin) as Hc. cbn [fst] in Hc.
  rewrite Hk, orb_false_r in Hc. unfold chk_prefixable_reachable in Hc. rewrite Ha in Hc.
  pose proof (proj1 (forallb_forall _ _) Hc _ Hn) as H1. cbn beta in H1.
  destruct (name_side_rule q_ref n) as [r'|]; [|discriminate].
  f_equal. destruct (rule_of_def (s, p, d)), r'; try discriminate; reflexivity.
Qed.

Lemma prefixes_covered p :
  In p (all_names ++ map fst gen_short) ->
  (exists r, prefix_side_rule q_ref p = Some r /\ is_prefix_rule r = true) ->
  mem_str p (map fst gen_prefix_status) = true.
Proof.
  intros Hin (r & Hr & Hp).
  apply (proj1 (forallb_forall _ _) prefixes_covered_b).
  apply filter_In. split; [exact Hin|]. rewrite Hr. exact Hp.
Qed.

