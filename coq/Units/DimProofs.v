(* Units area: dimensional soundness of the unit algebra model (C05). *)
From FendV Require Import Base.Prelude Units.Defs Units.Algebra Units.AlgebraProofs Units.Lookup Units.Dim.
From Coq Require Import QArith Lia.
Close Scope Q_scope.
Open Scope N_scope.

(* ------------------------------------------------------------------ *)
(* strings *)

Lemma str_eqb_eq a b : str_eqb a b = true <-> a = b.
Proof.
  revert b. induction a as [|x a IH]; intros [|y b]; cbn [str_eqb]; split; intro H; try discriminate; auto.
  - apply andb_true_iff in H. destruct H as [H1 H2]. apply N.eqb_eq in H1. apply IH in H2. subst. reflexivity.
  - inversion H; subst. rewrite N.eqb_refl. cbn [andb]. apply IH. reflexivity.
Qed.

Lemma str_eqb_refl a : str_eqb a a = true.
Proof. apply str_eqb_eq. reflexivity. Qed.

Lemma str_eqb_neq a b : str_eqb a b = false <-> a <> b.
Proof.
  split; intro H.
  - intro E. apply str_eqb_eq in E. rewrite E in H. discriminate.
  - destruct (str_eqb a b) eqn:E; [|reflexivity]. apply str_eqb_eq in E. contradiction.
Qed.

Lemma str_eqb_sym a b : str_eqb a b = str_eqb b a.
Proof.
  destruct (str_eqb a b) eqn:E.
  - apply str_eqb_eq in E. subst. symmetry. apply str_eqb_refl.
  - symmetry. apply str_eqb_neq. apply str_eqb_neq in E. auto.
Qed.

Ltac str_cases a b :=
  let E := fresh "E" in
  destruct (str_eqb a b) eqn:E; [apply str_eqb_eq in E|apply str_eqb_neq in E].

(* ------------------------------------------------------------------ *)
(* hash maps *)

Lemma hm_get_insert h k v k' :
  hm_get (hm_insert h k v) k' = if str_eqb k k' then Some v else hm_get h k'.
Proof.
  induction h as [|[a x] h IH]; cbn [hm_insert hm_get].
  - reflexivity.
  - str_cases a k.
    + subst a. cbn [hm_get]. destruct (str_eqb k k'); reflexivity.
    + cbn [hm_get]. rewrite IH. str_cases a k'; [|reflexivity].
      subst k'. rewrite (proj2 (str_eqb_neq k a)); [reflexivity|auto].
Qed.

Lemma hm_get_remove h k k' :
  hm_get (hm_remove h k) k' = if str_eqb k k' then None else hm_get h k'.
Proof.
  induction h as [|[a x] h IH]; cbn [hm_remove hm_get].
  - destruct (str_eqb k k'); reflexivity.
  - str_cases a k.
    + subst a. rewrite IH. destruct (str_eqb k k'); reflexivity.
    + cbn [hm_get]. rewrite IH. str_cases a k'; [|reflexivity].
      subst k'. rewrite (proj2 (str_eqb_neq k a)); [reflexivity|auto].
Qed.

Local Open Scope Q_scope.

Lemma dimf_insert h k v k' : dimf (hm_insert h k v) k' = if str_eqb k k' then v else dimf h k'.
Proof. unfold dimf. rewrite hm_get_insert. destruct (str_eqb k k'); reflexivity. Qed.

Lemma dimf_remove h k k' : dimf (hm_remove h k) k' = if str_eqb k k' then 0 else dimf h k'.
Proof. unfold dimf. rewrite hm_get_remove. destruct (str_eqb k k'); reflexivity. Qed.

(* add_to_hashmap adds exponent x base decomposition *)
Lemma add_bases_dimf e bases : forall h k,
  dimf (add_bases e bases h) k == dimf h k + e * bdim bases k.
Proof.
  induction bases as [|[bu be] r IH]; intros h k; cbn [add_bases bdim].
  - ring.
  - rewrite IH. clear IH.
    assert (dimf (match hm_get h bu with
                  | Some e0 => if Qeq_bool (e0 + e * be) 0 then hm_remove h bu else hm_insert h bu (e0 + e * be)
                  | None => if Qeq_bool (e * be) 0 then h else hm_insert h bu (e * be)
                  end) k == dimf h k + (if str_eqb bu k then e * be else 0)) as Hstep.
    { destruct (hm_get h bu) as [e0|] eqn:G.
      - destruct (Qeq_bool (e0 + e * be) 0) eqn:Z.
        + rewrite dimf_remove. str_cases bu k; [|ring].
          subst k. unfold dimf. rewrite G. apply Qeq_bool_eq in Z. rewrite <- Z. ring.
        + rewrite dimf_insert. str_cases bu k; [|ring].
          subst k. unfold dimf. rewrite G. ring.
      - destruct (Qeq_bool (e * be) 0) eqn:Z.
        + str_cases bu k; [|ring]. subst k. apply Qeq_bool_eq in Z. rewrite Z. ring.
        + rewrite dimf_insert. str_cases bu k; [|ring].
          subst k. unfold dimf. rewrite G. ring. }
    rewrite Hstep. destruct (str_eqb bu k); ring.
Qed.

Lemma to_hashmap_go_dimf us : forall st st' k,
  to_hashmap_and_scale_go us st = Ok st' ->
  dimf (fst (fst st')) k == dimf (fst (fst st)) k + udim us k.
Proof.
  induction us as [|u us IH]; intros st st' k H; cbn [to_hashmap_and_scale_go udim] in *.
  - inversion H; subst. ring.
  - destruct (add_to_hashmap u st) as [st1| |] eqn:A; cbn [bind] in H; try discriminate.
    rewrite (IH _ _ _ H).
    unfold add_to_hashmap in A. destruct st as [[h sc] ex].
    destruct (real_pow (nu_scale (ue_unit u)) (Simple (ue_exp u))) as [p| |]; cbn [bind] in A; try discriminate.
    inversion A; subst. cbn [fst]. rewrite add_bases_dimf. ring.
Qed.

Lemma to_hashmap_dimf us h s k :
  to_hashmap_and_scale us = Ok (h, s) -> dimf h k == udim us k.
Proof.
  unfold to_hashmap_and_scale. intro H.
  destruct (to_hashmap_and_scale_go us ([], Simple 1, true)) as [[[h0 s0] e0]| |] eqn:G; cbn [bind] in H; try discriminate.
  inversion H; subst.
  pose proof (to_hashmap_go_dimf _ _ _ k G) as D. cbn [fst] in D. rewrite D. unfold dimf. cbn [hm_get]. ring.
Qed.

(* ------------------------------------------------------------------ *)
(* multiplication, division, powers: exponents add up *)

Lemma udim_app a b k : udim (a ++ b) k == udim a k + udim b k.
Proof. induction a as [|u a IH]; cbn [app udim]; [ring|rewrite IH; ring]. Qed.

Lemma udim_neg b k : udim (map (fun u => mkue (ue_unit u) (Qopp (ue_exp u))) b) k == - udim b k.
Proof. induction b as [|u b IH]; cbn [map udim ue_exp ue_unit]; [ring|rewrite IH; ring]. Qed.

Lemma tdim_ext f g : (forall k, f k == g k) -> forall k, tdim f k == tdim g k.
Proof. intros H k. unfold tdim. destruct (str_eqb k s_kelvin); [rewrite !H; reflexivity|]. destruct (_ || _)%bool; [reflexivity|apply H]. Qed.

Lemma tdim_plus f g k : tdim (fun x => f x + g x) k == tdim f k + tdim g k.
Proof. unfold tdim. destruct (str_eqb k s_kelvin); [ring|]. destruct (_ || _)%bool; ring. Qed.

Lemma tdim_minus f g k : tdim (fun x => f x - g x) k == tdim f k - tdim g k.
Proof. unfold tdim. destruct (str_eqb k s_kelvin); [ring|]. destruct (_ || _)%bool; ring. Qed.

Lemma tdim_scale q f k : tdim (fun x => q * f x) k == q * tdim f k.
Proof. unfold tdim. destruct (str_eqb k s_kelvin); [ring|]. destruct (_ || _)%bool; ring. Qed.

Theorem mul_dim a b k : vdim (v_mul a b) k == vdim a k + vdim b k.
Proof.
  unfold vdim, pdim_units, v_mul. cbn [v_units].
  rewrite (tdim_ext _ (fun x => udim (v_units a) x + udim (v_units b) x)); [apply tdim_plus|].
  intro x. apply udim_app.
Qed.

Theorem div_dim a b v k : v_div a b = Ok v -> vdim v k == vdim a k - vdim b k.
Proof.
  unfold v_div. destruct (er_div _ _); cbn [bind]; try discriminate.
  intro H; inversion H; subst. unfold vdim, pdim_units. cbn [v_units].
  rewrite (tdim_ext _ (fun x => udim (v_units a) x - udim (v_units b) x)); [apply tdim_minus|].
  intro x. rewrite udim_app, udim_neg. ring.
Qed.

Theorem neg_dim a k : vdim (v_neg a) k == vdim a k.
Proof. reflexivity. Qed.

Lemma er_mul_coef x ex y ey :
  real_coef (xv (er_mul (mkex (Simple x) ex) (mkex (Simple y) ey))) == x * y.
Proof.
  unfold er_mul. cbn [xe xv].
  destruct (ex && real_is_zero (Simple x))%bool eqn:Zx.
  - apply andb_true_iff in Zx. destruct Zx as [_ Zx]. unfold real_is_zero in Zx. cbn [real_coef xv] in *.
    apply Qeq_bool_eq in Zx. rewrite Zx. ring.
  - destruct (ey && real_is_zero (Simple y))%bool eqn:Zy.
    + apply andb_true_iff in Zy. destruct Zy as [_ Zy]. unfold real_is_zero in Zy. cbn [real_coef xv] in *.
      apply Qeq_bool_eq in Zy. rewrite Zy. ring.
    + cbn [xv real_coef]. ring.
Qed.

Lemma pow_fold_udim ea e er : forall us acc ex0 k,
  udim (fst (fold_left (fun (acc : list uexp * bool) (u : uexp) =>
          (fst acc ++ [mkue (ue_unit u) (real_coef (xv (er_mul (mkex (Simple (ue_exp u)) ea) (mkex (Simple e) er))))],
           (snd acc && xe (er_mul (mkex (Simple (ue_exp u)) ea) (mkex (Simple e) er)))%bool)) us (acc, ex0))) k
  == udim acc k + e * udim us k.
Proof.
  induction us as [|u us IH]; intros acc ex0 k; cbn [fold_left fst snd udim].
  - ring.
  - rewrite IH. rewrite udim_app. cbn [udim ue_exp ue_unit]. rewrite er_mul_coef. ring.
Qed.

(* a pure number converted to `unitless` keeps its magnitude *)
Lemma convert_num_unitless q c :
  v_convert_to (num_value q) v_unitless_one = Ok c -> exists e, v_val c = Simple e /\ e == q.
Proof.
  intro C.
  assert (compute_scale_factor [] [] =
          Ok (mksf (mkex (Simple (1 * 1)) true) (mkex (Simple (- 0)) true) (mkex (Simple (1 * 1)) true))) as Hsf
      by reflexivity.
  destruct (convert_exact_simple q [] v_unitless_one _ Hsf) as (v & Hv & Ev & _ & e & He).
  - repeat split; eexists; reflexivity.
  - reflexivity.
  - reflexivity.
  - reflexivity.
  - unfold num_value in C. rewrite Hv in C. inversion C; subst c.
    exists e. split; [exact He|].
    pose proof (convert_formula 0 (mkval (Simple q) [] true true) v_unitless_one _ _ Hsf Hv Ev) as F.
    cbn [sf_scale1 sf_scale2 sf_offset xv sem v_val] in F. rewrite He in F. cbn [sem] in F.
    assert (e == (1 * 1) * e) as E1 by ring. rewrite E1, F. ring.
Qed.

Theorem pow_dim a q v k : v_pow a (num_value q) = Ok v -> vdim v k == q * vdim a k.
Proof.
  unfold v_pow, v_into_unitless.
  destruct (v_convert_to (num_value q) v_unitless_one) as [c| |] eqn:C; cbn [bind]; try discriminate.
  destruct (v_is_unitless c) as [u| |]; cbn [bind]; try discriminate.
  destruct u; [|discriminate].
  destruct (convert_num_unitless _ _ C) as (e & He & Heq). rewrite He. cbn [bind xv xe]. cbv zeta.
  match goal with |- context [fold_left ?f (v_units a) ?i] =>
    destruct (fold_left f (v_units a) i) as [comps exr] eqn:F end.
  destruct (real_pow (v_val a) (Simple e)); cbn [bind]; try discriminate.
  intro H; inversion H; subst. unfold vdim, pdim_units. cbn [v_units].
  assert (forall x, udim comps x == e * udim (v_units a) x) as Hc.
  { intro x. pose proof (pow_fold_udim (v_exact a) e (v_exact c) (v_units a) [] true x) as P.
    rewrite F in P. cbn [fst udim] in P. rewrite P. ring. }
  rewrite (tdim_ext _ _ Hc), tdim_scale. rewrite Heq. reflexivity.
Qed.

(* ------------------------------------------------------------------ *)
(* keys *)

Lemma existsb_str_In x l : existsb (str_eqb x) l = true <-> In x l.
Proof.
  rewrite existsb_exists. split.
  - intros (y & Hy & E). apply str_eqb_eq in E. subst. exact Hy.
  - intro H. exists x. split; [exact H|apply str_eqb_refl].
Qed.

Lemma nodup_str_NoDup l : nodup_str l = true -> NoDup l.
Proof.
  induction l as [|x l IH]; cbn [nodup_str]; intro H; [constructor|].
  apply andb_true_iff in H. destruct H as [H1 H2]. constructor; [|apply IH; exact H2].
  intro Hin. apply existsb_str_In in Hin. rewrite Hin in H1. discriminate.
Qed.

Lemma hm_get_some_In h k v : hm_get h k = Some v -> In k (map fst h).
Proof.
  induction h as [|[a x] h IH]; cbn [hm_get map fst In]; [discriminate|].
  str_cases a k; [auto|]. intro H. right. apply IH. exact H.
Qed.

Lemma hm_get_none_notin h k : hm_get h k = None <-> ~ In k (map fst h).
Proof.
  induction h as [|[a x] h IH]; cbn [hm_get map fst In]; [tauto|].
  str_cases a k.
  - split; [discriminate|]. intro H. exfalso. apply H. auto.
  - rewrite IH. split; [intros H [H1|H1]; auto|intros H H1; apply H; auto].
Qed.

Lemma In_hm_get h k v : In (k, v) h -> exists v', hm_get h k = Some v'.
Proof.
  intro H. destruct (hm_get h k) eqn:G; [eauto|].
  apply hm_get_none_notin in G. exfalso. apply G. apply in_map_iff. exists (k, v). auto.
Qed.

(* compare_hashmaps on maps without repeated keys: equal as functions *)
Lemma compare_hashmaps_sound a b :
  nodup_str (map fst a) = true ->
  compare_hashmaps a b = true -> forall k, dimf a k == dimf b k.
Proof.
  intros Na H k. unfold compare_hashmaps in H. apply andb_true_iff in H. destruct H as [Hl Hall].
  apply Nat.eqb_eq in Hl. rewrite forallb_forall in Hall.
  assert (forall x v, hm_get a x = Some v -> exists o, hm_get b x = Some o /\ v == o) as Hsub.
  { intros x v G.
    assert (exists v0, In (x, v0) a /\ hm_get a x = Some v0) as (v0 & Hin & G0).
    { clear -G. induction a as [|[c y] a IH]; cbn [hm_get] in G; [discriminate|].
      str_cases c x.
      - subst. inversion G; subst. exists v. split; [left; reflexivity|]. cbn [hm_get]. rewrite str_eqb_refl. reflexivity.
      - destruct (IH G) as (v0 & Hin & G0). exists v0. split; [right; exact Hin|].
        cbn [hm_get]. rewrite (proj2 (str_eqb_neq c x) E). exact G0. }
    rewrite G in G0. inversion G0; subst v0.
    specialize (Hall _ Hin). cbn [fst snd] in Hall.
    destruct (hm_get b x) as [o|]; [|discriminate]. exists o. split; [reflexivity|apply Qeq_bool_eq; exact Hall]. }
  unfold dimf. destruct (hm_get a k) as [v|] eqn:Ga.
  - destruct (Hsub _ _ Ga) as (o & Gb & E). rewrite Gb. exact E.
  - destruct (hm_get b k) as [o|] eqn:Gb; [|reflexivity]. exfalso.
    apply hm_get_none_notin in Ga. apply Ga.
    apply hm_get_some_In in Gb.
    assert (incl (map fst a) (map fst b)) as Hincl.
    { intros x Hx. apply in_map_iff in Hx. destruct Hx as ([x' v] & Hx & Hin). cbn [fst] in Hx. subst x'.
      destruct (In_hm_get _ _ _ Hin) as (v' & G). destruct (Hsub _ _ G) as (o' & G' & _).
      eapply hm_get_some_In. exact G'. }
    assert (incl (map fst b) (map fst a)) as Hrev.
    { apply NoDup_length_incl; [apply nodup_str_NoDup; exact Na|rewrite !map_length; lia|exact Hincl]. }
    apply Hrev. exact Gb.
Qed.

(* ------------------------------------------------------------------ *)
(* hash maps keep their keys distinct *)

Lemma hm_insert_keys h k v :
  map fst (hm_insert h k v) = if existsb (str_eqb k) (map fst h) then map fst h else map fst h ++ [k].
Proof.
  induction h as [|[a x] h IH]; cbn [hm_insert map fst existsb app]; [reflexivity|].
  rewrite (str_eqb_sym k a). destruct (str_eqb a k); cbn [orb map fst]; [reflexivity|].
  rewrite IH. destruct (existsb (str_eqb k) (map fst h)); reflexivity.
Qed.

Lemma nodup_str_app_single l k :
  nodup_str l = true -> existsb (str_eqb k) l = false -> nodup_str (l ++ [k]) = true.
Proof.
  induction l as [|x l IH]; cbn [nodup_str app existsb]; intros H1 H2; [reflexivity|].
  apply andb_true_iff in H1. destruct H1 as [H1 H3]. apply orb_false_iff in H2. destruct H2 as [H2 H4].
  rewrite (IH H3 H4), andb_true_r. rewrite existsb_app. cbn [existsb].
  rewrite (str_eqb_sym x k), H2. destruct (existsb (str_eqb x) l); [discriminate|reflexivity].
Qed.

Lemma hm_insert_nodup h k v : nodup_str (map fst h) = true -> nodup_str (map fst (hm_insert h k v)) = true.
Proof.
  intro H. rewrite hm_insert_keys. destruct (existsb (str_eqb k) (map fst h)) eqn:E; [exact H|].
  apply nodup_str_app_single; assumption.
Qed.

Lemma hm_remove_keys_sub h k y : In y (map fst (hm_remove h k)) -> In y (map fst h).
Proof.
  induction h as [|[a x] h IH]; cbn [hm_remove map fst In]; [tauto|].
  destruct (str_eqb a k); cbn [map fst In]; [auto|]. intros [H|H]; auto.
Qed.

Lemma hm_remove_nodup h k : nodup_str (map fst h) = true -> nodup_str (map fst (hm_remove h k)) = true.
Proof.
  induction h as [|[a x] h IH]; cbn [hm_remove map fst nodup_str]; intro H; [reflexivity|].
  apply andb_true_iff in H. destruct H as [H1 H2].
  destruct (str_eqb a k); [apply IH; exact H2|].
  cbn [map fst nodup_str]. rewrite (IH H2), andb_true_r.
  destruct (existsb (str_eqb a) (map fst (hm_remove h k))) eqn:E; [|reflexivity]. exfalso.
  apply existsb_str_In in E. apply hm_remove_keys_sub in E. apply existsb_str_In in E.
  rewrite E in H1. discriminate.
Qed.

Lemma add_bases_nodup e bases : forall h,
  nodup_str (map fst h) = true -> nodup_str (map fst (add_bases e bases h)) = true.
Proof.
  induction bases as [|[bu be] r IH]; intros h H; cbn [add_bases]; [exact H|].
  apply IH. destruct (hm_get h bu).
  - destruct (Qeq_bool _ 0); [apply hm_remove_nodup|apply hm_insert_nodup]; exact H.
  - destruct (Qeq_bool _ 0); [exact H|apply hm_insert_nodup; exact H].
Qed.

Lemma to_hashmap_go_nodup us : forall st st',
  to_hashmap_and_scale_go us st = Ok st' ->
  nodup_str (map fst (fst (fst st))) = true -> nodup_str (map fst (fst (fst st'))) = true.
Proof.
  induction us as [|u us IH]; intros st st' H N; cbn [to_hashmap_and_scale_go] in H.
  - inversion H; subst. exact N.
  - destruct (add_to_hashmap u st) as [st1| |] eqn:A; cbn [bind] in H; try discriminate.
    apply (IH _ _ H). unfold add_to_hashmap in A. destruct st as [[h sc] ex].
    destruct (real_pow _ _); cbn [bind] in A; try discriminate.
    inversion A; subst. cbn [fst] in *. apply add_bases_nodup. exact N.
Qed.

Lemma to_hashmap_nodup us h s : to_hashmap_and_scale us = Ok (h, s) -> nodup_str (map fst h) = true.
Proof.
  unfold to_hashmap_and_scale. intro H.
  destruct (to_hashmap_and_scale_go us ([], Simple 1, true)) as [[[h0 s0] e0]| |] eqn:G; cbn [bind] in H; try discriminate.
  inversion H; subst. apply (to_hashmap_go_nodup _ _ _ G). reflexivity.
Qed.

(* ------------------------------------------------------------------ *)
(* reduce_hashmap: celsius and fahrenheit become kelvin, exponents add up *)

Lemma rename_kelvin_cases b :
  (b = s_celsius /\ rename b = s_kelvin) \/ (b = s_fahrenheit /\ rename b = s_kelvin) \/
  (b <> s_celsius /\ b <> s_fahrenheit /\ rename b = b).
Proof.
  unfold rename. str_cases b s_celsius; [left; auto|].
  str_cases b s_fahrenheit; [right; left; auto|]. right; right; auto.
Qed.

Lemma hm_merge_dimf acc k e k' :
  dimf (hm_merge acc k e) k' == dimf acc k' + (if str_eqb k k' then e else 0).
Proof.
  unfold hm_merge.
  destruct (Qeq_bool (match hm_get acc k with Some x => x + e | None => e end) 0) eqn:Z.
  - rewrite dimf_remove. str_cases k k'; [|ring]. subst k'. apply Qeq_bool_eq in Z.
    unfold dimf. destruct (hm_get acc k); rewrite Z; ring.
  - rewrite dimf_insert. str_cases k k'.
    + subst k'. unfold dimf. destruct (hm_get acc k); ring.
    + rewrite dimf_remove. rewrite (proj2 (str_eqb_neq k k') E). ring.
Qed.

Lemma hm_merge_nodup acc k e : nodup_str (map fst acc) = true -> nodup_str (map fst (hm_merge acc k e)) = true.
Proof.
  intro H. unfold hm_merge. destruct (Qeq_bool _ 0); [|apply hm_insert_nodup]; apply hm_remove_nodup; exact H.
Qed.

Lemma reduce_general_sum : forall h acc adj acc' adj',
  reduce_general h acc adj = Ok (acc', adj') ->
  forall k, dimf acc' k == dimf acc k + bdim (renamed h) k.
Proof.
  induction h as [|[b e] h IH]; intros acc adj acc' adj' H k.
  - cbn in H. inversion H; subst. cbn [renamed map bdim]. ring.
  - change (renamed ((b, e) :: h)) with ((rename b, e) :: renamed h). cbn [bdim].
    assert (forall adj1, reduce_general h (hm_merge acc (rename b) e) adj1 = Ok (acc', adj') ->
                         dimf acc' k == dimf acc k + (if str_eqb (rename b) k then e + bdim (renamed h) k else bdim (renamed h) k)) as Hcont.
    { intros adj1 H1. rewrite (IH _ _ _ _ H1 k), hm_merge_dimf. destruct (str_eqb (rename b) k); ring. }
    cbn [reduce_general] in H. unfold rename in Hcont at 1.
    str_cases b s_celsius.
    + cbn [orb] in Hcont. eapply Hcont. exact H.
    + str_cases b s_fahrenheit.
      * cbn [orb] in Hcont.
        destruct (real_pow (Simple q59) (Simple e)) as [p| |]; cbn [bind] in H; try discriminate.
        eapply Hcont. exact H.
      * cbn [orb] in Hcont. eapply Hcont. exact H.
Qed.

Lemma reduce_general_nodup : forall h acc adj acc' adj',
  reduce_general h acc adj = Ok (acc', adj') -> nodup_str (map fst acc) = true -> nodup_str (map fst acc') = true.
Proof.
  induction h as [|[b e] h IH]; intros acc adj acc' adj' H Nd; cbn [reduce_general] in H.
  - inversion H; subst. exact Nd.
  - destruct (str_eqb b s_celsius); [eapply IH; [exact H|apply hm_merge_nodup; exact Nd]|].
    destruct (str_eqb b s_fahrenheit).
    + destruct (real_pow (Simple q59) (Simple e)); cbn [bind] in H; try discriminate.
      eapply IH; [exact H|apply hm_merge_nodup; exact Nd].
    + eapply IH; [exact H|apply hm_merge_nodup; exact Nd].
Qed.

(* renaming then summing = the temperature identification applied to the map *)
Lemma s_celsius_neq_kelvin : s_celsius <> s_kelvin. Proof. discriminate. Qed.
Lemma s_fahrenheit_neq_kelvin : s_fahrenheit <> s_kelvin. Proof. discriminate. Qed.
Lemma s_celsius_neq_fahrenheit : s_celsius <> s_fahrenheit. Proof. discriminate. Qed.

Lemma tdim_indicator b e k :
  tdim (fun x => if str_eqb b x then e else 0) k == (if str_eqb (rename b) k then e else 0).
Proof.
  unfold tdim.
  destruct (rename_kelvin_cases b) as [[Hb Hr]|[[Hb Hr]|[Hb1 [Hb2 Hr]]]]; rewrite Hr.
  - subst b. str_cases k s_kelvin.
    + subst k. rewrite !str_eqb_refl.
      rewrite (proj2 (str_eqb_neq _ _) s_celsius_neq_kelvin), (proj2 (str_eqb_neq _ _) s_celsius_neq_fahrenheit). ring.
    + rewrite (proj2 (str_eqb_neq s_kelvin k)) by auto.
      destruct (_ || _)%bool eqn:T; [reflexivity|]. apply orb_false_iff in T. destruct T as [T _].
      rewrite (str_eqb_sym s_celsius k), T. reflexivity.
  - subst b. str_cases k s_kelvin.
    + subst k. rewrite !str_eqb_refl.
      rewrite (proj2 (str_eqb_neq _ _) s_fahrenheit_neq_kelvin).
      rewrite (proj2 (str_eqb_neq s_fahrenheit s_celsius)) by (intro X; symmetry in X; exact (s_celsius_neq_fahrenheit X)). ring.
    + rewrite (proj2 (str_eqb_neq s_kelvin k)) by auto.
      destruct (_ || _)%bool eqn:T; [reflexivity|]. apply orb_false_iff in T. destruct T as [_ T].
      rewrite (str_eqb_sym s_fahrenheit k), T. reflexivity.
  - str_cases k s_kelvin.
    + subst k. rewrite (proj2 (str_eqb_neq b s_celsius) Hb1), (proj2 (str_eqb_neq b s_fahrenheit) Hb2). ring.
    + destruct (str_eqb k s_celsius || str_eqb k s_fahrenheit)%bool eqn:T; [|reflexivity].
      apply orb_true_iff in T. str_cases b k; [|reflexivity]. subst k. exfalso.
      destruct T as [T|T]; apply str_eqb_eq in T; auto.
Qed.

Lemma bdim_renamed_tdim h k :
  nodup_str (map fst h) = true -> bdim (renamed h) k == tdim (dimf h) k.
Proof.
  induction h as [|[b e] h IH]; cbn [map fst nodup_str renamed bdim]; intro H.
  - unfold tdim, dimf. cbn [hm_get]. destruct (str_eqb k s_kelvin); [ring|]. destruct (_ || _)%bool; reflexivity.
  - apply andb_true_iff in H. destruct H as [H1 H2]. fold (renamed h).
    assert (forall x, dimf ((b, e) :: h) x == (if str_eqb b x then e else 0) + dimf h x) as Hd.
    { intro x. unfold dimf. cbn [hm_get]. str_cases b x; [|ring].
      subst x. destruct (hm_get h b) eqn:G; [|ring]. apply hm_get_some_In in G.
      apply existsb_str_In in G. rewrite G in H1. discriminate. }
    rewrite (tdim_ext _ _ Hd), tdim_plus, tdim_indicator, <- (IH H2).
    cbn [fst snd]. destruct (str_eqb (rename b) k); ring.
Qed.

Lemma reduce_hashmap_dims h h' adj off :
  reduce_hashmap h = Ok (h', adj, off) -> nodup_str (map fst h) = true ->
  nodup_str (map fst h') = true /\ forall k, dimf h' k == tdim (dimf h) k.
Proof.
  unfold reduce_hashmap. intros H Nk.
  assert (forall c, (c = s_celsius \/ c = s_fahrenheit) -> hm_single_one h c = true ->
                    forall k, dimf [(s_kelvin, 1)] k == tdim (dimf h) k) as Hsingle.
  { intros c Hc S k. unfold hm_single_one in S.
    destruct h as [|[b v] [|? ?]]; try discriminate.
    apply andb_true_iff in S. destruct S as [S1 S2]. apply str_eqb_eq in S1. apply Qeq_bool_eq in S2. subst b.
    rewrite <- (bdim_renamed_tdim _ k Nk). cbn [renamed map bdim fst snd].
    assert (rename c = s_kelvin) as R by (destruct Hc; subst c; reflexivity). rewrite R.
    unfold dimf. cbn [hm_get]. destruct (str_eqb s_kelvin k); [rewrite S2; ring|reflexivity]. }
  destruct (hm_single_one h s_celsius) eqn:S1.
  { inversion H; subst. split; [reflexivity|]. apply (Hsingle s_celsius); auto. }
  destruct (hm_single_one h s_fahrenheit) eqn:S2.
  { inversion H; subst. split; [reflexivity|]. apply (Hsingle s_fahrenheit); auto. }
  destruct (reduce_general h [] (mkex (Simple 1) true)) as [[acc' adj']| |] eqn:R; cbn [bind] in H; try discriminate.
  inversion H; subst. cbn [fst]. split.
  - eapply reduce_general_nodup; [exact R|reflexivity].
  - intro k. rewrite <- (bdim_renamed_tdim _ k Nk), (reduce_general_sum _ _ _ _ _ R k).
    unfold dimf at 1. cbn [hm_get]. ring.
Qed.

(* ------------------------------------------------------------------ *)
(* addition, conversion, pure-number functions *)

Lemma scale_factor_same_dim from into sf :
  compute_scale_factor from into = Ok sf -> forall k, pdim_units from k == pdim_units into k.
Proof.
  intros H k.
  destruct (compute_scale_factor_parts _ _ _ H)
    as (ha & sa & hb & sb & ha' & adj_a & off_a & hb' & adj_b & off_b & H1 & H2 & H3 & H4 & H5 & _).
  destruct (reduce_hashmap_dims _ _ _ _ H3 (to_hashmap_nodup _ _ _ H1)) as [Na Da].
  destruct (reduce_hashmap_dims _ _ _ _ H4 (to_hashmap_nodup _ _ _ H2)) as [Nb Db].
  pose proof (compare_hashmaps_sound _ _ Na H5 k) as E.
  rewrite Da, Db in E. unfold pdim_units.
  rewrite <- (tdim_ext _ _ (fun x => to_hashmap_dimf _ _ _ x H1)).
  rewrite <- (tdim_ext _ _ (fun x => to_hashmap_dimf _ _ _ x H2)). exact E.
Qed.

(* adding needs equal dimensions, or a zero on the right (then the magnitude
   and the units are those of the left operand) *)
Theorem add_needs_same_dim a b v :
  v_add a b = Ok v ->
  v_units v = v_units a /\
  ((v_is_zero b = true /\ v_val v = v_val a) \/ (forall k, vdim a k == vdim b k)).
Proof.
  unfold v_add. destruct (v_is_zero b) eqn:Z.
  - intro H; inversion H; subst. cbn [v_units v_val]. auto.
  - destruct (compute_scale_factor (v_units b) (v_units a)) as [sf| |] eqn:S; cbn [bind]; try discriminate.
    destruct (er_div _ _); cbn [bind]; try discriminate.
    intro H; inversion H; subst. split; [reflexivity|]. right.
    intro k. symmetry. apply (scale_factor_same_dim _ _ _ S).
Qed.

Theorem add_incompatible a b :
  v_is_zero b = false -> (exists k, ~ vdim a k == vdim b k) -> forall v, v_add a b <> Ok v.
Proof.
  intros Z (k & Hk) v H. destruct (add_needs_same_dim _ _ _ H) as [_ [[Z' _]|E]].
  - rewrite Z in Z'. discriminate.
  - apply Hk. apply E.
Qed.

Theorem convert_needs_same_dim a b v :
  v_convert_to a b = Ok v ->
  v_units v = v_units b /\ forall k, vdim a k == vdim b k.
Proof.
  unfold v_convert_to. destruct (negb _); [discriminate|].
  destruct (compute_scale_factor (v_units a) (v_units b)) as [sf| |] eqn:S; cbn [bind]; try discriminate.
  destruct (er_div _ _); cbn [bind]; try discriminate.
  intro H; inversion H; subst. split; [reflexivity|].
  intro k. apply (scale_factor_same_dim _ _ _ S).
Qed.

Lemma vdim_nil k : tdim (udim []) k == 0.
Proof. unfold tdim. cbn [udim]. destruct (str_eqb k s_kelvin); [ring|]. destruct (_ || _)%bool; reflexivity. Qed.

(* functions that need a pure number reject a dimensioned argument *)
Theorem unitless_required a r :
  v_require_unitless a = Ok r -> forall k, vdim a k == 0.
Proof.
  unfold v_require_unitless, v_into_unitless.
  destruct (v_convert_to a v_unitless_one) as [c| |] eqn:C; cbn [bind]; try discriminate.
  intros _ k. destruct (convert_needs_same_dim _ _ _ C) as [_ E].
  rewrite (E k). unfold vdim, pdim_units. cbn [v_units v_unitless_one]. apply vdim_nil.
Qed.

(* ------------------------------------------------------------------ *)
(* whole expressions *)

Lemma v_is_zero_neg y : v_is_zero (v_neg y) = v_is_zero y.
Proof.
  unfold v_is_zero, v_neg, real_is_zero. cbn [v_val].
  destruct (v_val y) as [q|q]; cbn [real_neg real_coef];
    destruct (Qeq_bool q 0) eqn:E.
  - apply Qeq_bool_eq in E. apply Qeq_eq_bool. rewrite E. reflexivity.
  - destruct (Qeq_bool (- q) 0) eqn:E2; [|reflexivity]. apply Qeq_bool_eq in E2.
    assert (q == 0) as Z by (rewrite <- (Qopp_involutive q), E2; reflexivity).
    apply Qeq_eq_bool in Z. rewrite Z in E. discriminate.
  - apply Qeq_bool_eq in E. apply Qeq_eq_bool. rewrite E. reflexivity.
  - destruct (Qeq_bool (- q) 0) eqn:E2; [|reflexivity]. apply Qeq_bool_eq in E2.
    assert (q == 0) as Z by (rewrite <- (Qopp_involutive q), E2; reflexivity).
    apply Qeq_eq_bool in Z. rewrite Z in E. discriminate.
Qed.

Section Sound.
  Variable resolve : str -> lres value.

  Lemma dim_eq_trans3 (f g : str -> Q) (x y : value) :
    (forall k, vdim x k == f k) -> (forall k, vdim y k == g k) -> (forall k, vdim x k == vdim y k) ->
    dim_eq f g.
  Proof. intros Hx Hy E k. rewrite <- Hx, <- Hy. apply E. Qed.

  (* a successful evaluation is a physically well-dimensioned expression, and
     the result has the dimension physics assigns *)
  Theorem meval_sound : forall e v,
    meval resolve e = Ok v ->
    exists f, HasDim resolve e f /\ forall k, vdim v k == f k.
  Proof.
    induction e as [q|n|a IHa b IHb|a IHa b IHb|a IHa q|a IHa|a IHa b IHb|a IHa b IHb|a IHa b IHb|a IHa];
      intros v H; cbn [meval] in H.
    - inversion H; subst. exists (fun _ => 0). split; [constructor|]. intro k. apply vdim_nil.
    - destruct (resolve n) as [w| | |] eqn:R; try discriminate. inversion H; subst.
      exists (vdim v). split; [constructor; exact R|reflexivity].
    - destruct (meval resolve a) as [x| |] eqn:Ea; cbn [bind] in H; try discriminate.
      destruct (meval resolve b) as [y| |] eqn:Eb; cbn [bind] in H; try discriminate.
      inversion H; subst.
      destruct (IHa _ eq_refl) as (f & Hf & Df). destruct (IHb _ eq_refl) as (g & Hg & Dg).
      exists (fun k => f k + g k). split; [constructor; assumption|].
      intro k. rewrite mul_dim, Df, Dg. reflexivity.
    - destruct (meval resolve a) as [x| |] eqn:Ea; cbn [bind] in H; try discriminate.
      destruct (meval resolve b) as [y| |] eqn:Eb; cbn [bind] in H; try discriminate.
      destruct (IHa _ eq_refl) as (f & Hf & Df). destruct (IHb _ eq_refl) as (g & Hg & Dg).
      exists (fun k => f k - g k). split; [constructor; assumption|].
      intro k. rewrite (div_dim _ _ _ k H), Df, Dg. reflexivity.
    - destruct (meval resolve a) as [x| |] eqn:Ea; cbn [bind] in H; try discriminate.
      destruct (IHa _ eq_refl) as (f & Hf & Df).
      exists (fun k => q * f k). split; [constructor; assumption|].
      intro k. rewrite (pow_dim _ _ _ k H), Df. reflexivity.
    - destruct (meval resolve a) as [x| |] eqn:Ea; cbn [bind] in H; try discriminate.
      inversion H; subst. destruct (IHa _ eq_refl) as (f & Hf & Df).
      exists f. split; [constructor; assumption|]. intro k. rewrite neg_dim. apply Df.
    - (* add *)
      destruct (meval resolve a) as [x| |] eqn:Ea; cbn [bind] in H; try discriminate.
      destruct (meval resolve b) as [y| |] eqn:Eb; cbn [bind] in H; try discriminate.
      destruct (IHa _ eq_refl) as (f & Hf & Df). destruct (IHb _ eq_refl) as (g & Hg & Dg).
      exists f. destruct (add_needs_same_dim _ _ _ H) as [Eu [[Z _]|E]].
      + split; [eapply HDAddZero; eauto|]. intro k. unfold vdim. rewrite Eu. apply Df.
      + split.
        * eapply HDAdd; eauto. apply (dim_eq_trans3 _ _ x y Df Dg). exact E.
        * intro k. unfold vdim. rewrite Eu. apply Df.
    - (* sub *)
      destruct (meval resolve a) as [x| |] eqn:Ea; cbn [bind] in H; try discriminate.
      destruct (meval resolve b) as [y| |] eqn:Eb; cbn [bind] in H; try discriminate.
      destruct (IHa _ eq_refl) as (f & Hf & Df). destruct (IHb _ eq_refl) as (g & Hg & Dg).
      exists f. unfold v_sub in H. destruct (add_needs_same_dim _ _ _ H) as [Eu [[Z _]|E]].
      + rewrite v_is_zero_neg in Z. split; [eapply HDSubZero; eauto|]. intro k. unfold vdim. rewrite Eu. apply Df.
      + split.
        * eapply HDSub; eauto. apply (dim_eq_trans3 _ _ x y Df Dg).
          intro k. rewrite (E k). apply neg_dim.
        * intro k. unfold vdim. rewrite Eu. apply Df.
    - (* conversion *)
      destruct (meval resolve a) as [x| |] eqn:Ea; cbn [bind] in H; try discriminate.
      destruct (meval resolve b) as [y| |] eqn:Eb; cbn [bind] in H; try discriminate.
      destruct (IHa _ eq_refl) as (f & Hf & Df). destruct (IHb _ eq_refl) as (g & Hg & Dg).
      destruct (convert_needs_same_dim _ _ _ H) as [Eu E].
      exists g. split.
      + eapply HDConv; eauto. apply (dim_eq_trans3 _ _ x y Df Dg). exact E.
      + intro k. unfold vdim. rewrite Eu. apply Dg.
    - (* a function of a pure number *)
      destruct (meval resolve a) as [x| |] eqn:Ea; cbn [bind] in H; try discriminate.
      destruct (v_require_unitless x) as [r| |] eqn:R; cbn [bind] in H; try discriminate.
      inversion H; subst.
      destruct (IHa _ eq_refl) as (f & Hf & Df).
      exists (fun _ => 0). split.
      + constructor 12 with (f := f); [exact Hf|]. intro k. rewrite <- Df. apply (unitless_required _ _ R).
      + intro k. unfold vdim, pdim_units. cbn [v_units]. apply vdim_nil.
  Qed.

  (* hence: an expression that physics rejects never evaluates to a number *)
  Corollary ill_dimensioned_is_error e :
    (forall f, ~ HasDim resolve e f) -> forall v, meval resolve e <> Ok v.
  Proof. intros N v H. destruct (meval_sound _ _ H) as (f & Hf & _). exact (N f Hf). Qed.
End Sound.
