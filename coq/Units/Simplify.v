(* Units area: model of Value::simplify (core/src/num/unit.rs), the step
   applied to every number before it is printed: aliases without base units are
   folded into the magnitude, compatible units are merged pairwise (exponents
   added, magnitude adjusted by the ratio of the scales), components with
   exponent 0 and percentages are removed, and a compound unit whose base
   dimension has a default unit (newton, joule, ..., liter; a base unit) is
   converted into it with Value::convert_to.  No proofs here. *)
From FendV Require Import Base.Prelude Units.Defs Units.Algebra Units.Lookup.
From Coq Require Import QArith.
Close Scope Q_scope.
Open Scope N_scope.

Definition s_percent_sign : str := [37].
Definition s_percent : str := [112;101;114;99;101;110;116].
Definition s_rad : str := [114;97;100].
Definition s_radian : str := [114;97;100;105;97;110].

(* UnitExponent::is_percentage_unit, is_alias; NamedUnit::has_no_base_units, compare *)
Definition is_percentage_unit (c : uexp) : bool :=
  match nu_prefix (ue_unit c) with
  | [] => str_eqb (nu_sing (ue_unit c)) s_percent_sign || str_eqb (nu_sing (ue_unit c)) s_percent
  | _ => false
  end.
Definition has_no_base_units (u : named_unit) : bool := match nu_base u with [] => true | _ => false end.
Definition ue_is_alias (c : uexp) : bool := nu_alias (ue_unit c) && has_no_base_units (ue_unit c).
Definition nu_compare (a b : named_unit) : bool :=
  str_eqb (nu_prefix a) (nu_prefix b) && str_eqb (nu_sing a) (nu_sing b) && str_eqb (nu_plur a) (nu_plur b)
  && Bool.eqb (nu_alias a) (nu_alias b) && real_eqb (nu_scale a) (nu_scale b)
  && compare_hashmaps (nu_base a) (nu_base b).

(* the loop state: magnitude with its exact flag *)
Definition mag := ex real.

(* the inner loop `for res_comp in &mut res_components`: Some = merged (continue 'outer),
   None = fell through or `break` (the component is pushed) *)
Fixpoint try_merge (comp : uexp) (m : mag) (rs : list uexp) : res (option (list uexp * mag)) :=
  match rs with
  | [] => Ok None
  | rc :: rest =>
    let next := do r <- try_merge comp m rest;
                Ok (match r with Some (l, m') => Some (rc :: l, m') | None => None end) in
    if has_no_base_units (ue_unit comp)
       && negb (is_percentage_unit comp && is_percentage_unit rc)
       && negb (nu_compare (ue_unit comp) (ue_unit rc))
    then next
    else
      match compute_scale_factor [mkue (ue_unit comp) 1%Q] [mkue (ue_unit rc) 1%Q] with
      | Ok sf =>
        if negb (real_is_zero (xv (sf_offset sf))) then Ok None      (* units with offsets are not merged: break *)
        else
          do scale <- er_div (sf_scale1 sf) (sf_scale2 sf);
          let sum := er_add (mkex (Simple (ue_exp rc)) (xe m)) (mkex (Simple (ue_exp comp)) (xe m)) in
          let ex1 := xe m && xe sum && xe scale in
          do p <- real_pow (xv scale) (Simple (ue_exp comp));
          let adj := er_mul (mkex (xv m) ex1) p in
          Ok (Some (mkue (ue_unit rc) (real_coef (xv sum)) :: rest, mkex (xv adj) (ex1 && xe adj)))
      | Err _ => next
      | Panic k => Panic k
      end
  end.

(* the outer loop *)
Fixpoint merge_loop (comps : list uexp) (rs : list uexp) (m : mag) : res (list uexp * mag) :=
  match comps with
  | [] => Ok (rs, m)
  | comp :: more =>
    if ue_is_alias comp && negb (is_percentage_unit comp) then
      do p <- real_pow (nu_scale (ue_unit comp)) (Simple (ue_exp comp));
      merge_loop more rs (er_mul m p)
    else
      do r <- try_merge comp m rs;
      match r with
      | Some (rs', m') => merge_loop more rs' m'
      | None => merge_loop more (rs ++ [comp]) m
      end
  end.

Definition drop_zero (rs : list uexp) : list uexp :=
  filter (fun c => negb (Qeq_bool (ue_exp c) 0)) rs.

Fixpoint remove_first_percent (rs : list uexp) : option (uexp * list uexp) :=
  match rs with
  | [] => None
  | c :: r =>
    if is_percentage_unit c then Some (c, r)
    else match remove_first_percent r with
         | Some (p, r') => Some (p, c :: r')
         | None => None
         end
  end.

(* exponent.real().try_as_usize() is Ok(1..) *)
Definition is_pos_usize (e : Q) : bool :=
  q_is_int e && (1 <=? Qnum (Qred e))%Z && (Qnum (Qred e) <? 18446744073709551616)%Z.

Definition percent_step (rs : list uexp) (m : mag) : res (list uexp * mag) :=
  match remove_first_percent rs with
  | None => Ok (rs, m)
  | Some (pc, others) =>
    match rs with
    | [only] =>
      if is_pos_usize (ue_exp only) then
        let se := real_coef (xv (er_add (mkex (Simple (ue_exp only)) true) (mkex (Simple (Qopp 1)) true))) in
        do p <- real_pow (nu_scale (ue_unit only)) (Simple se);
        Ok ([mkue (ue_unit only) 1%Q], er_mul m p)
      else
        do p <- real_pow (nu_scale (ue_unit pc)) (Simple (ue_exp pc));
        Ok (others, er_mul m p)
    | _ =>
      do p <- real_pow (nu_scale (ue_unit pc)) (Simple (ue_exp pc));
      Ok (others, er_mul m p)
    end
  end.

(* v.try_as_i64() succeeds *)
Definition is_i64 (e : Q) : bool :=
  q_is_int e && (-9223372036854775808 <=? Qnum (Qred e))%Z && (Qnum (Qred e) <=? 9223372036854775807)%Z.

(* units::lookup_default_unit on the sorted "name^exp ..." rendering of the map,
   observed as equality of maps *)
Fixpoint lookup_default (defaults : list (hmap * str)) (h : hmap) : option str :=
  match defaults with
  | [] => None
  | (d, n) :: r => if compare_hashmaps d h then Some n else lookup_default r h
  end.

Section Simplify.
  Variable resolve : str -> lres value.          (* query_unit_static *)
  Variable defaults : list (hmap * str).

  Definition has_radian (rs : list uexp) : bool :=
    existsb (fun c => str_eqb (nu_sing (ue_unit c)) s_rad || str_eqb (nu_sing (ue_unit c)) s_radian) rs.

  (* everything before the default-unit replacement *)
  Definition simplify_merge (v : value) : res value :=
    do r1 <- merge_loop (v_units v) [] (mkex (v_val v) (v_exact v));
    do r2 <- percent_step (drop_zero (fst r1)) (snd r1);
    Ok (mkval (xv (snd r2)) (fst r2) (xe (snd r2)) (v_simp v)).

  (* the default unit a merged value is converted into, if any *)
  Definition default_target (m : value) : res (option value) :=
    if (2 <=? N.of_nat (length (v_units m))) && negb (has_radian (v_units m)) then
      do hs <- to_hashmap_and_scale (v_units m);
      if forallb (fun kv => is_i64 (snd kv)) (fst hs) then
        match lookup_default defaults (fst hs) with
        | Some name =>
          match resolve name with
          | LOk rhs => Ok (Some rhs)
          | LNotFound => Err EParse
          | LErr e => Err e
          | LPanic k => Panic k
          end
        | None => Ok None
        end
      else Ok None
    else Ok None.

  Definition simplify (v : value) : res value :=
    if negb (v_simp v) then Ok v
    else
      do m <- simplify_merge v;
      do t <- default_target m;
      match t with
      | Some rhs => v_convert_to m rhs
      | None => Ok m
      end.
End Simplify.
