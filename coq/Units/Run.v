(* Units area: request dispatcher of the extracted model.
   Wire formats (s-expressions, see Base/Prelude.v):
     str      = list of scalar values           (65 66)
     q        = (num den)                       (-3 4)
     real     = (pattern num den)               pattern 1 = Simple, 2 = Pi
     nunit    = (prefix sing plur alias ((base q) ...) real)
     value    = (real ((nunit q) ...) exact simplifiable)
     lres     = ("ok" x) | ("notfound") | ("err" code) | ("panic" site)
     ctx      = (cf_mode ((sing plur def) ...))
     extra    = ((body lres-value) ...)        evaluator oracle entries
   No proofs here. *)
From FendV Require Import Base.Prelude Units.Defs Units.Algebra Units.Lookup Units.Index Units.Table Units.Dim Units.Simplify.
From FendV Require Import Units.Generated.UnitTable.
From Coq Require Import QArith.
Close Scope Q_scope.
Open Scope N_scope.

(* ---- encoders ---- *)
Definition sx_str (s : str) : sx := sx_Ns s.
Definition sx_q (q : Q) : sx := let r := Qred q in XL [XA (Qnum r); XA (Zpos (Qden r))].
Definition sx_real (r : real) : sx :=
  match r with
  | Simple q => let q := Qred q in XL [XA 1; XA (Qnum q); XA (Zpos (Qden q))]
  | Pi q => let q := Qred q in XL [XA 2; XA (Qnum q); XA (Zpos (Qden q))]
  end.
Definition sx_hmap (h : hmap) : sx := XL (map (fun kv => XL [sx_str (fst kv); sx_q (snd kv)]) h).
Definition sx_nunit (u : named_unit) : sx :=
  XL [sx_str (nu_prefix u); sx_str (nu_sing u); sx_str (nu_plur u); sx_bool (nu_alias u);
      sx_hmap (nu_base u); sx_real (nu_scale u)].
Definition sx_value (v : value) : sx :=
  XL [sx_real (v_val v);
      XL (map (fun u => XL [sx_nunit (ue_unit u); sx_q (ue_exp u)]) (v_units v));
      sx_bool (v_exact v); sx_bool (v_simp v)].
Definition sx_lres {A} (f : A -> sx) (r : lres A) : sx :=
  match r with
  | LOk a => XL [XS (B"ok"); f a]
  | LNotFound => XL [XS (B"notfound")]
  | LErr e => sx_err e
  | LPanic k => sx_panic k
  end.
Definition sx_exreal (e : ex real) : sx := XL [sx_real (xv e); sx_bool (xe e)].
Definition sx_rawdef (d : rawdef) : sx :=
  let '(s, p, d0) := d in XL [XS (B"some"); sx_str s; sx_str p; sx_str d0].

(* ---- decoders ---- *)
Definition as_bool (s : sx) : option bool :=
  match s with XA 0%Z => Some false | XA 1%Z => Some true | _ => None end.
Definition as_q (s : sx) : option Q :=
  match s with
  | XL [XA n; XA (Zpos d)] => Some (Qmake n d)
  | _ => None
  end.
Definition as_real (s : sx) : option real :=
  match s with
  | XL [XA 1%Z; XA n; XA (Zpos d)] => Some (Simple (Qmake n d))
  | XL [XA 2%Z; XA n; XA (Zpos d)] => Some (Pi (Qmake n d))
  | _ => None
  end.
Fixpoint as_list {A} (f : sx -> option A) (l : list sx) : option (list A) :=
  match l with
  | [] => Some []
  | x :: r => match f x, as_list f r with Some a, Some b => Some (a :: b) | _, _ => None end
  end.
Definition as_hentry (s : sx) : option (str * Q) :=
  match s with
  | XL [k; v] => match as_NL k, as_q v with Some k, Some v => Some (k, v) | _, _ => None end
  | _ => None
  end.
Definition as_nunit (s : sx) : option named_unit :=
  match s with
  | XL [p; sg; pl; al; XL base; sc] =>
    match as_NL p, as_NL sg, as_NL pl, as_bool al, as_list as_hentry base, as_real sc with
    | Some p, Some sg, Some pl, Some al, Some base, Some sc => Some (mknu p sg pl al base sc)
    | _, _, _, _, _, _ => None
    end
  | _ => None
  end.
Definition as_uexp (s : sx) : option uexp :=
  match s with
  | XL [u; e] => match as_nunit u, as_q e with Some u, Some e => Some (mkue u e) | _, _ => None end
  | _ => None
  end.
Definition as_value (s : sx) : option value :=
  match s with
  | XL [r; XL us; ex; sm] =>
    match as_real r, as_list as_uexp us, as_bool ex, as_bool sm with
    | Some r, Some us, Some ex, Some sm => Some (mkval r us ex sm)
    | _, _, _, _ => None
    end
  | _ => None
  end.
Definition as_lres_value (s : sx) : option (lres value) :=
  match s with
  | XL [XS t; v] =>
    if opeq t "ok" then match as_value v with Some v => Some (LOk v) | None => None end
    else if opeq t "err" then Some (LErr EOther)
    else None
  | XL [XS t] => if opeq t "notfound" then Some LNotFound else None
  | _ => None
  end.
Definition as_rawdef (s : sx) : option rawdef :=
  match s with
  | XL [a; b; c] => match as_NL a, as_NL b, as_NL c with Some a, Some b, Some c => Some (a, b, c) | _, _, _ => None end
  | _ => None
  end.
(* ctx = (cf_mode customs) or (cf_mode customs rates); rates = 1: the fake
   exchange rates of the generated table, otherwise no / a failing handler *)
Definition as_ctx (s : sx) : option (lctx * bool) :=
  match s with
  | XL [cf; XL cu] =>
    match as_bool cf, as_list as_rawdef cu with
    | Some cf, Some cu => Some (mklctx cu cf, true)
    | _, _ => None
    end
  | XL [cf; XL cu; XA r] =>
    match as_bool cf, as_list as_rawdef cu with
    | Some cf, Some cu => Some (mklctx cu cf, (r =? 1)%Z)
    | _, _ => None
    end
  | _ => None
  end.

Definition cur_for (rates : bool) : str -> lres value :=
  if rates then cur_table else (fun _ => LErr EOther).

Definition model_query_r (c : lctx * bool) (extra : list (str * lres value)) (ident : str) : lres value :=
  query_unit (ev_with extra) (cur_for (snd c)) the_tables (fst c) ident.
Definition as_extra_entry (s : sx) : option (str * lres value) :=
  match s with
  | XL [b; r] => match as_NL b, as_lres_value r with Some b, Some r => Some (b, r) | _, _ => None end
  | _ => None
  end.
Definition as_extra (s : sx) : option (list (str * lres value)) :=
  match s with XL l => as_list as_extra_entry l | _ => None end.

Definition res_to_lres {A} (r : res A) : lres A := of_res r.

(* uexpr = ("num" q) | ("name" str) | ("mul" a b) | ("div" a b) | ("pow" a q) | ("neg" a)
         | ("add" a b) | ("sub" a b) | ("conv" a b) | ("fn" a);  fuel = size of the request *)
Fixpoint as_uexpr (fuel : nat) (s : sx) : option uexpr :=
  match fuel with
  | O => None
  | S f =>
    match s with
    | XL [XS t; a] =>
      if opeq t "num" then option_map UNum (as_q a)
      else if opeq t "name" then option_map UName (as_NL a)
      else if opeq t "neg" then option_map UNeg (as_uexpr f a)
      else if opeq t "fn" then option_map UFn (as_uexpr f a)
      else None
    | XL [XS t; a; b] =>
      if opeq t "pow" then match as_uexpr f a, as_q b with Some a, Some q => Some (UPow a q) | _, _ => None end
      else
        match as_uexpr f a, as_uexpr f b with
        | Some a, Some b =>
          if opeq t "mul" then Some (UMul a b)
          else if opeq t "div" then Some (UDiv a b)
          else if opeq t "add" then Some (UAdd a b)
          else if opeq t "sub" then Some (USub a b)
          else if opeq t "conv" then Some (UConv a b)
          else None
        | _, _ => None
        end
    | _ => None
    end
  end.

Definition run_units : dispatcher := fun op args =>
  if opeq op "builtin-query" then
    match args with
    | [id; sp; cs] =>
      match as_NL id, as_bool sp, as_bool cs with
      | Some id, Some sp, Some cs =>
        Some (match builtin_query the_tables id sp cs with
              | Some d => sx_rawdef d
              | None => XL [XS (B"none")]
              end)
      | _, _, _ => Some sx_bad
      end
    | _ => Some sx_bad
    end
  else if opeq op "lookup-def" then
    (* (lookup-def ctx ident sp cs wu) : query_unit_internal *)
    match args with
    | [c; id; sp; cs; wu] =>
      match as_ctx c, as_NL id, as_bool sp, as_bool cs, as_bool wu with
      | Some c, Some id, Some sp, Some cs, Some wu =>
        Some (match query_unit_internal the_tables (fst c) id sp cs wu with
              | Some d => sx_rawdef d
              | None => XL [XS (B"none")]
              end)
      | _, _, _, _, _ => Some sx_bad
      end
    | _ => Some sx_bad
    end
  else if opeq op "resolve" then
    (* (resolve ctx extra ident) : query_unit *)
    match args with
    | [c; ex; id] =>
      match as_ctx c, as_extra ex, as_NL id with
      | Some c, Some ex, Some id => Some (sx_lres sx_value (model_query_r c ex id))
      | _, _, _ => Some sx_bad
      end
    | _ => Some sx_bad
    end
  else if opeq op "status" then
    (* (status ctx extra ident ...) -> (code ...) : 0 ok, 1 notfound, 2 error, 3 panic *)
    match args with
    | c :: ex :: ids =>
      match as_ctx c, as_extra ex, as_list as_NL ids with
      | Some c, Some ex, Some ids =>
        Some (XL (map (fun id => sx_N (match model_query_r c ex id with
                                        | LErr EOutOfFuel => 4     (* outside the modelled fragment *)
                                        | r => status_of r end)) ids))
      | _, _, _ => Some sx_bad
      end
    | _ => Some sx_bad
    end
  else if opeq op "upper" then
    (* (upper str) : the model of str::to_uppercase *)
    match args with
    | [s] => match as_NL s with Some s => Some (sx_str (str_upper s)) | None => Some sx_bad end
    | _ => Some sx_bad
    end
  else if opeq op "quantity" then
    (* (quantity value) -> ("ok" (hmap (real exact))) *)
    match args with
    | [v] =>
      match as_value v with
      | Some v => Some (sx_res (fun hs => XL [sx_hmap (fst hs); sx_exreal (snd hs)]) (v_quantity v))
      | None => Some sx_bad
      end
    | _ => Some sx_bad
    end
  else if opeq op "binop" then
    (* (binop name v1 v2), name in add sub mul div pow convert *)
    match args with
    | [XS name; a; b] =>
      match as_value a, as_value b with
      | Some a, Some b =>
        Some (sx_res sx_value
                (if opeq name "add" then v_add a b
                 else if opeq name "sub" then v_sub a b
                 else if opeq name "mul" then Ok (v_mul a b)
                 else if opeq name "div" then v_div a b
                 else if opeq name "pow" then v_pow a b
                 else if opeq name "convert" then v_convert_to a b
                 else Err EParse))
      | _, _ => Some sx_bad
      end
    | _ => Some sx_bad
    end
  else if opeq op "meval" then
    (* (meval depth-bound expr) -> (result 1) *)
    match args with
    | [XA d; e] =>
      match as_uexpr (Z.to_nat d) e with
      | Some e => Some (XL [sx_res sx_value (meval model_resolve e); sx_bool true])
      | None => Some sx_bad
      end
    | _ => Some sx_bad
    end
  else if opeq op "simplify" then
    (* (simplify value) : Value::simplify with the default-unit table of the tree *)
    match args with
    | [v] =>
      match as_value v with
      | Some v => Some (sx_res sx_value (simplify model_resolve gen_defaults v))
      | None => Some sx_bad
      end
    | _ => Some sx_bad
    end
  else if opeq op "unitless" then
    (* (unitless v) : into_unitless_complex *)
    match args with
    | [v] =>
      match as_value v with
      | Some v => Some (sx_res sx_exreal (v_into_unitless v))
      | None => Some sx_bad
      end
    | _ => Some sx_bad
    end
  else None.

Definition run_units_line := run_with run_units.
