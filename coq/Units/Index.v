(* Units area: a first-character index over the definition table and the
   currency identifiers, used only to make the exhaustive kernel computations
   over the generated table fast.  [fast_query_unit_internal] is proved equal
   to the faithful [query_unit_internal] (Lookup.v) for every table, context
   and identifier, so the finite obligations are about the faithful model. *)
From FendV Require Import Base.Prelude Units.Defs Units.Algebra Units.Lookup.
From Coq Require Import Lia.
Open Scope N_scope.

Definition first_key (s : str) : N :=
  match s with [] => 0 | c :: _ => ascii_lower c + 1 end.

Definition def_relevant (k : N) (d : rawdef) : bool :=
  let '(s, p, _) := d in (first_key s =? k) || (first_key (plural_of s p) =? k).

Definition def_keys (d : rawdef) : list N :=
  let '(s, p, _) := d in [first_key s; first_key (plural_of s p)].

Definition cur_relevant (k : N) (n : str) : bool := first_key n =? k.

Fixpoint memN (k : N) (l : list N) : bool :=
  match l with [] => false | x :: r => if x =? k then true else memN k r end.

Fixpoint dedupN (l : list N) (acc : list N) : list N :=
  match l with
  | [] => rev acc
  | x :: r => if memN x acc then dedupN r acc else dedupN r (x :: acc)
  end.

Fixpoint assocN {A} (l : list (N * A)) (k : N) : option A :=
  match l with
  | [] => None
  | (k', v) :: r => if k' =? k then Some v else assocN r k
  end.

Definition idx_get {A} (ix : list (N * list A)) (k : N) : list A :=
  match assocN ix k with Some l => l | None => [] end.

Definition build_index {A} (rel : N -> A -> bool) (keys : list N) (l : list A) : list (N * list A) :=
  map (fun k => (k, filter (rel k) l)) keys.

Record index := mkidx { ix_defs : list (N * list rawdef); ix_cur : list (N * list str) }.

Definition build (T : tables) : index :=
  mkidx (build_index def_relevant (dedupN (flat_map def_keys (t_defs T)) []) (t_defs T))
        (build_index cur_relevant (dedupN (map first_key (t_currencies T)) []) (t_currencies T)).

Definition index_ok (T : tables) (ix : index) : Prop :=
  (forall k, idx_get (ix_defs ix) k = filter (def_relevant k) (t_defs T)) /\
  (forall k, idx_get (ix_cur ix) k = filter (cur_relevant k) (t_currencies T)).

Definition fast_builtin_query (ix : index) (T : tables) (ident : str) (short_prefixes cs : bool) : option rawdef :=
  match (if short_prefixes then find_short (t_short T) ident cs else None) with
  | Some (n, d) => Some (n, n, d)
  | None =>
    let key := if cs then ident else str_upper ident in
    match find_currency (idx_get (ix_cur ix) (first_key key)) key with
    | Some n => Some (n, n, s_currency)
    | None => scan_defs (idx_get (ix_defs ix) (first_key ident)) ident cs 0 None
    end
  end.

Definition fast_query_unit_internal (ix : index) (T : tables) (C : lctx) (ident : str)
           (short_prefixes cs whole_unit : bool) : option rawdef :=
  match (if short_prefixes then None else find_custom (c_custom C) ident cs) with
  | Some d => Some d
  | None =>
    if whole_unit && c_cf_mode C && str_eqb ident s_C then Some (s_C, s_C, s_eq_degC)
    else if whole_unit && c_cf_mode C && str_eqb ident s_F then Some (s_F, s_F, s_eq_degF)
    else fast_builtin_query ix T ident short_prefixes cs
  end.

(* ------------------------------------------------------------------ *)
(* proofs *)

Lemma str_eqb_first_key a b : str_eqb a b = true -> first_key a = first_key b.
Proof.
  destruct a as [|x a], b as [|y b]; cbn [str_eqb first_key]; try discriminate; auto.
  intro H. apply andb_true_iff in H. destruct H as [H _].
  apply N.eqb_eq in H. subst. reflexivity.
Qed.

Lemma str_eq_ci_first_key a b : str_eq_ci a b = true -> first_key a = first_key b.
Proof.
  destruct a as [|x a], b as [|y b]; cbn [str_eq_ci first_key]; try discriminate; auto.
  intro H. apply andb_true_iff in H. destruct H as [H _].
  apply N.eqb_eq in H. rewrite H. reflexivity.
Qed.

Lemma neq_first_key_eqb a b : first_key a <> first_key b -> str_eqb a b = false.
Proof.
  intro H. destruct (str_eqb a b) eqn:E; auto. apply str_eqb_first_key in E. contradiction.
Qed.

Lemma neq_first_key_ci a b : first_key a <> first_key b -> str_eq_ci a b = false.
Proof.
  intro H. destruct (str_eq_ci a b) eqn:E; auto. apply str_eq_ci_first_key in E. contradiction.
Qed.

Lemma scan_defs_filter l ident cs n c :
  scan_defs (filter (def_relevant (first_key ident)) l) ident cs n c = scan_defs l ident cs n c.
Proof.
  revert n c. induction l as [|[[s p] d] l IH]; intros n c; [reflexivity|].
  cbn [filter def_relevant].
  destruct ((first_key s =? first_key ident) || (first_key (plural_of s p) =? first_key ident)) eqn:R.
  - cbn [scan_defs].
    destruct (str_eqb s ident || str_eqb (plural_of s p) ident); [reflexivity|].
    destruct (negb cs && (str_eq_ci s ident || str_eq_ci (plural_of s p) ident)); apply IH.
  - apply orb_false_iff in R. destruct R as [R1 R2].
    apply N.eqb_neq in R1. apply N.eqb_neq in R2.
    cbn [scan_defs].
    rewrite (neq_first_key_eqb _ _ R1), (neq_first_key_eqb _ _ R2).
    rewrite (neq_first_key_ci _ _ R1), (neq_first_key_ci _ _ R2).
    cbn [orb]. rewrite andb_false_r. apply IH.
Qed.

Lemma find_currency_filter l key :
  find_currency (filter (cur_relevant (first_key key)) l) key = find_currency l key.
Proof.
  induction l as [|n l IH]; [reflexivity|].
  cbn [filter]. unfold cur_relevant at 1. destruct (first_key n =? first_key key) eqn:R.
  - cbn [find_currency]. destruct (str_eqb n key); [reflexivity|apply IH].
  - apply N.eqb_neq in R. cbn [find_currency]. rewrite (neq_first_key_eqb _ _ R). apply IH.
Qed.

Lemma memN_In k l : memN k l = true <-> In k l.
Proof.
  induction l as [|x l IH]; cbn [memN In]; [split; [discriminate|tauto]|].
  destruct (x =? k) eqn:E.
  - apply N.eqb_eq in E. split; auto.
  - apply N.eqb_neq in E. rewrite IH. split; [auto|intros [H|H]; [contradiction|auto]].
Qed.

Lemma dedupN_In l : forall acc k, In k (dedupN l acc) <-> In k l \/ In k acc.
Proof.
  induction l as [|x l IH]; intros acc k; cbn [dedupN].
  - rewrite <- in_rev. cbn [In]. tauto.
  - destruct (memN x acc) eqn:M.
    + rewrite IH. apply memN_In in M. cbn [In]. split; [tauto|].
      intros [[H|H]|H]; subst; auto.
    + rewrite IH. cbn [In]. tauto.
Qed.

Lemma assocN_build {A} (f : N -> list A) keys k :
  assocN (map (fun k => (k, f k)) keys) k = if memN k keys then Some (f k) else None.
Proof.
  induction keys as [|x keys IH]; [reflexivity|].
  cbn [map assocN memN]. destruct (x =? k) eqn:E; [|apply IH].
  apply N.eqb_eq in E. subst. reflexivity.
Qed.

Lemma filter_nil_if {A} (f : A -> bool) l : (forall x, In x l -> f x = false) -> filter f l = [].
Proof.
  induction l as [|x l IH]; intro H; [reflexivity|].
  cbn [filter]. rewrite (H x (or_introl eq_refl)). apply IH. intros y Hy. apply H. right; exact Hy.
Qed.

Lemma idx_get_build {A} (rel : N -> A -> bool) (keysof : A -> list N) (l : list A) k :
  (forall x k, rel k x = true -> In k (keysof x)) ->
  idx_get (build_index rel (dedupN (flat_map keysof l) []) l) k = filter (rel k) l.
Proof.
  intro Hrel. unfold idx_get, build_index. rewrite assocN_build.
  destruct (memN k (dedupN (flat_map keysof l) [])) eqn:M; [reflexivity|].
  symmetry. apply filter_nil_if. intros x Hx.
  destruct (rel k x) eqn:R; [|reflexivity]. exfalso.
  assert (In k (dedupN (flat_map keysof l) [])) as Hin.
  { apply dedupN_In. left. apply in_flat_map. exists x. split; [exact Hx|apply Hrel; exact R]. }
  apply memN_In in Hin. rewrite Hin in M. discriminate.
Qed.

Lemma build_ok T : index_ok T (build T).
Proof.
  split; intro k; unfold build; cbn [ix_defs ix_cur].
  - apply idx_get_build. intros [[s p] d] k' H. cbn [def_relevant def_keys] in *.
    apply orb_true_iff in H. destruct H as [H|H]; apply N.eqb_eq in H; subst; cbn [In]; auto.
  - replace (map first_key (t_currencies T)) with (flat_map (fun n => [first_key n]) (t_currencies T)).
    + apply idx_get_build. intros n k' H. unfold cur_relevant in H. apply N.eqb_eq in H. subst. cbn [In]. auto.
    + induction (t_currencies T) as [|n l IH]; [reflexivity|]. cbn [flat_map map app]. rewrite IH. reflexivity.
Qed.

Lemma fast_builtin_query_eq ix T ident sp cs :
  index_ok T ix -> fast_builtin_query ix T ident sp cs = builtin_query T ident sp cs.
Proof.
  intros [Hd Hc]. unfold fast_builtin_query, builtin_query.
  destruct (if sp then find_short (t_short T) ident cs else None) as [[n d]|]; [reflexivity|].
  rewrite Hc, find_currency_filter, Hd, scan_defs_filter. reflexivity.
Qed.

Lemma fast_query_unit_internal_eq ix T C ident sp cs wu :
  index_ok T ix -> fast_query_unit_internal ix T C ident sp cs wu = query_unit_internal T C ident sp cs wu.
Proof.
  intro H. unfold fast_query_unit_internal, query_unit_internal.
  rewrite (fast_builtin_query_eq _ _ _ _ _ H). reflexivity.
Qed.
