(* Units area: model of name resolution.
     core/src/units/builtin.rs : query_unit            -> builtin_query
     core/src/units.rs         : query_unit_internal   -> query_unit_internal
                                 expr_unit             -> expr_unit
                                 construct_prefixed_unit
                                 query_unit_case_sensitive -> query_unit_cs
                                 query_unit_static, query_unit
   The evaluator applied to a definition body, and the exchange-rate path, are
   oracles (parameters [ev], [cur]); everything else is computed here.
   No proofs here. *)
From FendV Require Import Base.Prelude Units.Defs Units.Algebra.
From Coq Require Import QArith.
Close Scope Q_scope.
Open Scope N_scope.

(* FResult with IdentifierNotFound kept apart (the code matches on it) *)
Inductive lres (A : Type) :=
| LOk (a : A)
| LNotFound
| LErr (e : err)
| LPanic (site : N).
Arguments LOk {A} a.
Arguments LNotFound {A}.
Arguments LErr {A} e.
Arguments LPanic {A} site.

Definition lbind {A R} (r : lres A) (f : A -> lres R) : lres R :=
  match r with LOk a => f a | LNotFound => LNotFound | LErr e => LErr e | LPanic s => LPanic s end.
Notation "'ldo' x <- r ; k" := (lbind r (fun x => k))
  (at level 200, x pattern, r at level 100, k at level 200, right associativity).

Definition of_res {A} (r : res A) : lres A :=
  match r with Ok a => LOk a | Err e => LErr e | Panic s => LPanic s end.

(* text constants *)
Definition s_currency : str := [36;67;85;82;82;69;78;67;89].        (* $CURRENCY *)
Definition s_l_at : str := [108;64].                                (* l@ *)
Definition s_lp_at : str := [108;112;64].                           (* lp@ *)
Definition s_s_at : str := [115;64].                                (* s@ *)
Definition s_sp_at : str := [115;112;64].                           (* sp@ *)
Definition s_bang : str := [33].                                    (* ! *)
Definition s_C : str := [67].
Definition s_F : str := [70].
Definition s_eq_degC : str := [61;176;67].                          (* =(degree sign)C *)
Definition s_eq_degF : str := [61;176;70].

(* ------------------------------------------------------------------ *)
(* builtin.rs: query_unit *)

Definition plural_of (s p : str) : str := match p with [] => s | _ => p end.

Fixpoint find_short (l : list (str * str)) (ident : str) (cs : bool) : option (str * str) :=
  match l with
  | [] => None
  | (n, d) :: r =>
    if str_eqb n ident || (negb cs && str_eq_ci n ident) then Some (n, d)
    else find_short r ident cs
  end.

(* binary_search over the (sorted) identifier table, observed as membership *)
Fixpoint find_currency (l : list str) (key : str) : option str :=
  match l with
  | [] => None
  | n :: r => if str_eqb n key then Some n else find_currency r key
  end.

(* the scan over ALL_UNIT_DEFS: first exact match wins at once; otherwise the
   case-insensitive candidates are collected (count and first) *)
Fixpoint scan_defs (l : list rawdef) (ident : str) (cs : bool)
         (ncand : N) (cand : option rawdef) : option rawdef :=
  match l with
  | [] => if ncand =? 1 then cand else None
  | (s, p, d) :: r =>
    let p' := plural_of s p in
    if str_eqb s ident || str_eqb p' ident then Some (s, p', d)
    else if negb cs && (str_eq_ci s ident || str_eq_ci p' ident) then
      scan_defs r ident cs (ncand + 1) (match cand with None => Some (s, p', d) | c => c end)
    else scan_defs r ident cs ncand cand
  end.

Definition builtin_query (T : tables) (ident : str) (short_prefixes cs : bool) : option rawdef :=
  match (if short_prefixes then find_short (t_short T) ident cs else None) with
  | Some (n, d) => Some (n, n, d)
  | None =>
    match find_currency (t_currencies T) (if cs then ident else str_upper ident) with
    | Some n => Some (n, n, s_currency)
    | None => scan_defs (t_defs T) ident cs 0 None
    end
  end.

(* ------------------------------------------------------------------ *)
(* units.rs: query_unit_internal *)

Fixpoint find_custom (l : list rawdef) (ident : str) (cs : bool) : option rawdef :=
  match l with
  | [] => None
  | (s, p, d) :: r =>
    let p' := plural_of s p in
    if (str_eqb ident s || str_eqb ident p')
       || (negb cs && (str_eq_ci s ident || str_eq_ci p' ident))
    then Some (s, p', d)
    else find_custom r ident cs
  end.

Definition query_unit_internal (T : tables) (C : lctx) (ident : str)
           (short_prefixes cs whole_unit : bool) : option rawdef :=
  match (if short_prefixes then None else find_custom (c_custom C) ident cs) with
  | Some d => Some d
  | None =>
    if whole_unit && c_cf_mode C && str_eqb ident s_C then Some (s_C, s_C, s_eq_degC)
    else if whole_unit && c_cf_mode C && str_eqb ident s_F then Some (s_F, s_F, s_eq_degF)
    else builtin_query T ident short_prefixes cs
  end.

(* ------------------------------------------------------------------ *)
(* units.rs: expr_unit *)

(* the four sequential strip_prefix tests *)
Definition strip_rule (d : str) : prule * str :=
  let st0 := (RNone, d) in
  let st1 := match strip_prefix s_l_at (snd st0) with Some r => (RLongAllowed, r) | None => st0 end in
  let st2 := match strip_prefix s_lp_at (snd st1) with Some r => (RLong, r) | None => st1 end in
  let st3 := match strip_prefix s_s_at (snd st2) with Some r => (RShortAllowed, r) | None => st2 end in
  let st4 := match strip_prefix s_sp_at (snd st3) with Some r => (RShort, r) | None => st3 end in
  st4.

Section WithOracles.
  (* evaluate_to_value(body).expect_num() in the current context *)
  Variable ev : str -> lres value.
  (* the whole $CURRENCY branch: the unit value for currency [singular] *)
  Variable cur : str -> lres value.

  Definition expr_unit (def : rawdef) : lres unitdef :=
    let '(s, p, d0) := def in
    let d := trim d0 in
    if str_eqb d s_currency then
      ldo v <- cur s; LOk (mkud s p RLongAllowed false v)
    else
      let '(rule, d1) := strip_rule d in
      if str_eqb d1 s_bang then LOk (mkud s p rule false (new_base_unit s p))
      else
        let '(alias0, body) := match d1 with 61 :: r => (true, r) | _ => (false, d1) end in
        let alias := alias0 || prule_eqb rule RLong in
        ldo num <- ev body;
        ldo unitless <- of_res (v_is_unitless num);
        if negb alias || unitless then
          ldo v <- of_res (create_unit_value_from_value num [] alias s p);
          LOk (mkud s p rule alias v)
        else LOk (mkud s p rule alias num).

  (* units.rs: construct_prefixed_unit; Panic 1 = assert_eq!(a.singular, a.plural) *)
  Definition construct_prefixed_unit (a b : unitdef) : lres value :=
    let product := v_mul (ud_value a) (ud_value b) in
    if negb (str_eqb (ud_sing a) (ud_plur a)) then LPanic 1
    else of_res (create_unit_value_from_value product (ud_sing a) (ud_alias b) (ud_sing b) (ud_plur b)).

  Definition rules_compatible (a b : prule) : bool :=
    (prule_eqb a RLong && prule_eqb b RLongAllowed)
    || (prule_eqb a RShort && prule_eqb b RShortAllowed).

  Variable T : tables.
  Variable C : lctx.

  (* the split loop of query_unit_case_sensitive: [pre] is the part already
     moved to the prefix side (at least one scalar value), [rest] the
     remaining identifier *)
  Fixpoint split_loop (pre rest : str) (cs : bool) : lres value :=
    match rest with
    | [] => LNotFound
    | c :: rest' =>
      (* here split_idx = len(pre) < len(ident) *)
      match query_unit_internal T C pre true cs false with
      | None => split_loop (pre ++ [c]) rest' cs
      | Some a =>
        match query_unit_internal T C rest false cs false with
        | None => split_loop (pre ++ [c]) rest' cs
        | Some b =>
          ldo a' <- expr_unit a;
          ldo b' <- expr_unit b;
          if rules_compatible (ud_rule a') (ud_rule b') then construct_prefixed_unit a' b'
          else LNotFound
        end
      end
    end.

  (* Panic 2 = ident.chars().next().unwrap() on an empty identifier *)
  Definition query_unit_cs (ident : str) (cs : bool) : lres value :=
    match query_unit_internal T C ident false cs true with
    | Some def => ldo u <- expr_unit def; LOk (ud_value u)
    | None =>
      match ident with
      | [] => LPanic 2
      | c :: rest => split_loop [c] rest cs
      end
    end.

  Definition query_unit_static (ident : str) : lres value :=
    match query_unit_cs ident true with
    | LNotFound => query_unit_cs ident false
    | r => r
    end.

  (* units.rs: query_unit; 39 = apostrophe *)
  Definition query_unit (ident : str) : lres value :=
    match ident with
    | 39 :: r =>
      if (3 <=? N.of_nat (length ident)) && (last ident 0 =? 39)
      then let inner := removelast r in LOk (new_base_unit inner inner)
      else query_unit_static ident
    | _ => query_unit_static ident
    end.

  (* which definition a bare name denotes (no evaluation) *)
  Definition lookup_def (ident : str) : option rawdef :=
    match query_unit_internal T C ident false true true with
    | Some d => Some d
    | None => query_unit_internal T C ident false false true
    end.

End WithOracles.
