(* Units area: general facts about the unit algebra model (Algebra.v).
   [sem p r] is the value of a real when pi is read as p: the laws hold for
   every p, i.e. pi is treated as a formal symbol.  A result whose exact flag
   is true is equal (in Q, for every p) to the mathematical expression. *)
From FendV Require Import Base.Prelude Units.Defs Units.Algebra.
From Coq Require Import QArith Lia Field.
Close Scope Q_scope.
Open Scope N_scope.

Definition sem (p : Q) (r : real) : Q :=
  match r with Simple q => q | Pi q => Qmult q p end.

Local Open Scope Q_scope.

Lemma Qeq_bool_0 q : Qeq_bool q 0 = true -> q == 0.
Proof. apply Qeq_bool_eq. Qed.

Lemma is_zero_sem p r : real_is_zero r = true -> sem p r == 0.
Proof.
  unfold real_is_zero. destruct r as [q|q]; cbn [real_coef sem]; intro H; apply Qeq_bool_0 in H.
  - exact H.
  - rewrite H. ring.
Qed.

Lemma sem_neg p r : sem p (real_neg r) == - sem p r.
Proof. destruct r; cbn [real_neg sem]; ring. Qed.

(* ---- Exact<Real> arithmetic: a result flagged exact is the exact result ---- *)

Lemma er_mul_sem p a b :
  xe (er_mul a b) = true -> sem p (xv (er_mul a b)) == sem p (xv a) * sem p (xv b).
Proof.
  unfold er_mul.
  destruct (xe a && real_is_zero (xv a))%bool eqn:Za.
  - intros _. apply andb_true_iff in Za. destruct Za as [_ Za].
    rewrite (is_zero_sem p _ Za). ring.
  - destruct (xe b && real_is_zero (xv b))%bool eqn:Zb.
    + intros _. apply andb_true_iff in Zb. destruct Zb as [_ Zb].
      rewrite (is_zero_sem p _ Zb). ring.
    + destruct (xv a) as [x|x], (xv b) as [y|y]; cbn [xv xe sem]; intro H; try discriminate; ring.
Qed.

Lemma er_mul_exact_args a b :
  xe (er_mul a b) = true ->
  (xe a = true /\ real_is_zero (xv a) = true) \/ (xe b = true /\ real_is_zero (xv b) = true) \/ (xe a = true /\ xe b = true).
Proof.
  unfold er_mul.
  destruct (xe a && real_is_zero (xv a))%bool eqn:Za.
  - apply andb_true_iff in Za. auto.
  - destruct (xe b && real_is_zero (xv b))%bool eqn:Zb.
    + apply andb_true_iff in Zb. auto.
    + destruct (xv a), (xv b); cbn [xe]; intro H; try discriminate;
        apply andb_true_iff in H; auto.
Qed.

Lemma er_div_sem p a b r :
  er_div a b = Ok r -> xe r = true -> sem p (xv b) * sem p (xv r) == sem p (xv a).
Proof.
  unfold er_div.
  destruct (real_is_zero (xv b)) eqn:Zb; [discriminate|].
  destruct (xe a && real_is_zero (xv a))%bool eqn:Za.
  - intro H; inversion H; subst. intros _. apply andb_true_iff in Za. destruct Za as [_ Za].
    rewrite (is_zero_sem p _ Za). ring.
  - intro H; inversion H; subst; clear H.
    unfold real_is_zero in Zb.
    destruct (xv a) as [x|x], (xv b) as [y|y]; cbn [xv xe sem real_coef] in *; intro E; try discriminate;
      assert (~ y == 0) as Hy by (intro Hy; apply Qeq_bool_iff in Hy; rewrite Hy in Zb; discriminate);
      field; exact Hy.
Qed.

Lemma er_div_exact_num a b r :
  er_div a b = Ok r -> xe r = true -> xe a = true.
Proof.
  unfold er_div. destruct (real_is_zero (xv b)); [discriminate|].
  destruct (xe a && real_is_zero (xv a))%bool eqn:Za.
  - intro H; inversion H; subst. auto.
  - intro H; inversion H; subst; clear H.
    destruct (xv a), (xv b); cbn [xe]; intro E; try discriminate; apply andb_true_iff in E; tauto.
Qed.

Lemma er_add_sem p a b :
  xe (er_add a b) = true -> sem p (xv (er_add a b)) == sem p (xv a) + sem p (xv b).
Proof.
  unfold er_add.
  destruct (xe a && real_is_zero (xv a))%bool eqn:Za.
  - intros _. apply andb_true_iff in Za. destruct Za as [_ Za]. rewrite (is_zero_sem p _ Za). ring.
  - destruct (xe b && real_is_zero (xv b))%bool eqn:Zb.
    + intros _. apply andb_true_iff in Zb. destruct Zb as [_ Zb]. rewrite (is_zero_sem p _ Zb). ring.
    + destruct (xv a) as [x|x], (xv b) as [y|y]; cbn [xv xe sem]; intro H; try discriminate; ring.
Qed.

Lemma er_add_exact_args a b :
  xe (er_add a b) = true -> xe a = true /\ xe b = true.
Proof.
  unfold er_add.
  destruct (xe a && real_is_zero (xv a))%bool eqn:Za.
  - apply andb_true_iff in Za. destruct Za. auto.
  - destruct (xe b && real_is_zero (xv b))%bool eqn:Zb.
    + apply andb_true_iff in Zb. destruct Zb. auto.
    + destruct (xv a), (xv b); cbn [xe]; intro H; try discriminate; apply andb_true_iff in H; tauto.
Qed.

(* ---- the scale factor ---- *)

(* the offsets produced by reduce_hashmap are exact rational constants *)
Lemma reduce_hashmap_offset h h' adj off :
  reduce_hashmap h = Ok (h', adj, off) ->
  off = mkex (Simple (Qmake 27315 100)) true \/ off = mkex (Simple (Qmake 45967 180)) true \/ off = mkex (Simple 0) true.
Proof.
  unfold reduce_hashmap.
  destruct (hm_single_one h s_celsius); [intro H; inversion H; auto|].
  destruct (hm_single_one h s_fahrenheit); [intro H; inversion H; auto|].
  destruct (reduce_general h [] (mkex (Simple 1) true)) as [r| |]; cbn [bind]; try discriminate.
  intro H; inversion H; auto.
Qed.

Lemma compute_scale_factor_parts from into sf :
  compute_scale_factor from into = Ok sf ->
  exists ha sa hb sb ha' adj_a off_a hb' adj_b off_b,
    to_hashmap_and_scale from = Ok (ha, sa) /\ to_hashmap_and_scale into = Ok (hb, sb) /\
    reduce_hashmap ha = Ok (ha', adj_a, off_a) /\ reduce_hashmap hb = Ok (hb', adj_b, off_b) /\
    compare_hashmaps ha' hb' = true /\
    sf = mksf (er_mul sa adj_a) (er_add off_a (er_neg off_b)) (er_mul sb adj_b).
Proof.
  unfold compute_scale_factor.
  destruct (to_hashmap_and_scale from) as [[ha sa]| |] eqn:E1; cbn [bind]; try discriminate.
  destruct (to_hashmap_and_scale into) as [[hb sb]| |] eqn:E2; cbn [bind]; try discriminate.
  cbn [fst snd].
  destruct (reduce_hashmap ha) as [[[ha' adj_a] off_a]| |] eqn:E3; cbn [bind]; try discriminate.
  destruct (reduce_hashmap hb) as [[[hb' adj_b] off_b]| |] eqn:E4; cbn [bind]; try discriminate.
  destruct (compare_hashmaps ha' hb') eqn:E; [|discriminate].
  intro H; inversion H; subst.
  exists ha, sa, hb, sb, ha', adj_a, off_a, hb', adj_b, off_b.
  repeat split; auto.
Qed.

(* ---- Value::convert_to: the exact result is the affine formula ---- *)

Theorem convert_formula p a b sf v :
  compute_scale_factor (v_units a) (v_units b) = Ok sf ->
  v_convert_to a b = Ok v -> v_exact v = true ->
  sem p (xv (sf_scale2 sf)) * sem p (v_val v)
  == sem p (v_val a) * sem p (xv (sf_scale1 sf)) + sem p (xv (sf_offset sf)).
Proof.
  intros Hsf. unfold v_convert_to.
  destruct (negb (real_eqb (v_val b) (Simple 1))); [discriminate|].
  rewrite Hsf. cbn [bind].
  destruct (er_div (er_add (er_mul (mkex (v_val a) (v_exact a)) (sf_scale1 sf)) (sf_offset sf)) (sf_scale2 sf))
    as [nv| |] eqn:D; cbn [bind]; try discriminate.
  intro H; inversion H; subst; clear H. cbn [v_exact v_val].
  intro E. apply andb_true_iff in E. destruct E as [_ Env].
  pose proof (er_div_sem p _ _ _ D Env) as H1.
  pose proof (er_div_exact_num _ _ _ D Env) as H2.
  pose proof (er_add_sem p _ _ H2) as H3.
  destruct (er_add_exact_args _ _ H2) as [H4 _].
  pose proof (er_mul_sem p _ _ H4) as H5. cbn [xv] in H5.
  rewrite H1, H3, H5. reflexivity.
Qed.

(* the three offsets: a conversion from A to B uses offset(A) - offset(B) *)
Definition off_q (o : ex real) : Q := match xv o with Simple q => q | Pi q => q end.

Lemma offset_sem p off_a off_b :
  (off_a = mkex (Simple (Qmake 27315 100)) true \/ off_a = mkex (Simple (Qmake 45967 180)) true \/ off_a = mkex (Simple 0) true) ->
  (off_b = mkex (Simple (Qmake 27315 100)) true \/ off_b = mkex (Simple (Qmake 45967 180)) true \/ off_b = mkex (Simple 0) true) ->
  xe (er_add off_a (er_neg off_b)) = true /\
  sem p (xv (er_add off_a (er_neg off_b))) == off_q off_a - off_q off_b.
Proof.
  intros [Ha|[Ha|Ha]] [Hb|[Hb|Hb]]; subst; vm_compute; split; reflexivity.
Qed.

(* ---- the laws, for the model's own scale factors ---- *)

(* Write A, B, C for unit expressions (lists of unit^exponent).  The scale
   factor of A -> B is (sA, oA - oB, sB), where (sX, oX) depends on X only. *)
Record leg := mkleg { lg_scale : ex real; lg_off : ex real }.

Definition leg_of (us : list uexp) : res (hmap * leg) :=
  do hs <- to_hashmap_and_scale us;
  do r <- reduce_hashmap (fst hs);
  let '(h', adj, off) := r in Ok (h', mkleg (er_mul (snd hs) adj) off).

Lemma compute_scale_factor_legs from into sf :
  compute_scale_factor from into = Ok sf ->
  exists ha la hb lb, leg_of from = Ok (ha, la) /\ leg_of into = Ok (hb, lb) /\
    compare_hashmaps ha hb = true /\
    sf = mksf (lg_scale la) (er_add (lg_off la) (er_neg (lg_off lb))) (lg_scale lb) /\
    (xe (er_add (lg_off la) (er_neg (lg_off lb))) = true) /\
    (forall p, sem p (xv (er_add (lg_off la) (er_neg (lg_off lb)))) == off_q (lg_off la) - off_q (lg_off lb)).
Proof.
  intro H. destruct (compute_scale_factor_parts _ _ _ H)
    as (ha & sa & hb & sb & ha' & adj_a & off_a & hb' & adj_b & off_b & H1 & H2 & H3 & H4 & H5 & H6).
  exists ha', (mkleg (er_mul sa adj_a) off_a), hb', (mkleg (er_mul sb adj_b) off_b).
  unfold leg_of. rewrite H1, H2. cbn [bind fst snd]. rewrite H3, H4. cbn [bind].
  repeat split; auto; cbn [lg_off].
  - apply (offset_sem 0); eapply reduce_hashmap_offset; eauto.
  - intro p. apply offset_sem; eapply reduce_hashmap_offset; eauto.
Qed.

(* converting there and back gives the original magnitude (offsets included) *)
Theorem convert_inverse p a b a1 v1 v2 sfab sfba :
  compute_scale_factor (v_units a) (v_units b) = Ok sfab ->
  compute_scale_factor (v_units b) (v_units a1) = Ok sfba ->
  v_units a1 = v_units a ->
  v_convert_to a b = Ok v1 -> v_convert_to v1 a1 = Ok v2 ->
  v_exact v1 = true -> v_exact v2 = true ->
  ~ sem p (xv (sf_scale1 sfab)) == 0 -> ~ sem p (xv (sf_scale2 sfab)) == 0 ->
  sem p (v_val v2) == sem p (v_val a).
Proof.
  intros Hab Hba Hu C1 C2 E1 E2 N1 N2.
  assert (v_units v1 = v_units b) as Hv1.
  { unfold v_convert_to in C1. destruct (negb (real_eqb (v_val b) (Simple 1))); [discriminate|].
    rewrite Hab in C1. cbn [bind] in C1.
    destruct (er_div _ _); cbn [bind] in C1; try discriminate. inversion C1; reflexivity. }
  pose proof (convert_formula p _ _ _ _ Hab C1 E1) as F1.
  rewrite <- Hv1 in Hba.
  pose proof (convert_formula p _ _ _ _ Hba C2 E2) as F2.
  rewrite Hv1, Hu in Hba.
  destruct (compute_scale_factor_legs _ _ _ Hab) as (ha & la & hb & lb & L1 & L2 & _ & S1 & _ & O1).
  destruct (compute_scale_factor_legs _ _ _ Hba) as (hb2 & lb2 & ha2 & la2 & L3 & L4 & _ & S2 & _ & O2).
  rewrite L2 in L3. inversion L3; subst hb2 lb2. rewrite L1 in L4. inversion L4; subst ha2 la2.
  subst sfab sfba. cbn [sf_scale1 sf_scale2 sf_offset] in *.
  rewrite O1 in F1. rewrite O2 in F2.
  set (sa := sem p (xv (lg_scale la))) in *. set (sb := sem p (xv (lg_scale lb))) in *.
  set (x := sem p (v_val a)) in *. set (y := sem p (v_val v1)) in *. set (z := sem p (v_val v2)) in *.
  set (oa := off_q (lg_off la)) in *. set (ob := off_q (lg_off lb)) in *.
  assert (sa * z == sa * x) as Hz.
  { rewrite F2. setoid_replace (y * sb) with (sb * y) by ring. rewrite F1. ring. }
  apply (Qmult_inj_l _ _ sa); [exact N1|exact Hz].
Qed.

(* going through an intermediate unit gives the same answer as converting directly *)
Theorem convert_transitive p a b c v1 v2 v3 sfab sfbc sfac :
  compute_scale_factor (v_units a) (v_units b) = Ok sfab ->
  compute_scale_factor (v_units b) (v_units c) = Ok sfbc ->
  compute_scale_factor (v_units a) (v_units c) = Ok sfac ->
  v_convert_to a b = Ok v1 -> v_convert_to v1 c = Ok v2 -> v_convert_to a c = Ok v3 ->
  v_exact v1 = true -> v_exact v2 = true -> v_exact v3 = true ->
  ~ sem p (xv (sf_scale2 sfab)) == 0 -> ~ sem p (xv (sf_scale2 sfac)) == 0 ->
  sem p (v_val v2) == sem p (v_val v3).
Proof.
  intros Hab Hbc Hac C1 C2 C3 E1 E2 E3 Nb Nc.
  assert (v_units v1 = v_units b) as Hv1.
  { unfold v_convert_to in C1. destruct (negb (real_eqb (v_val b) (Simple 1))); [discriminate|].
    rewrite Hab in C1. cbn [bind] in C1.
    destruct (er_div _ _); cbn [bind] in C1; try discriminate. inversion C1; reflexivity. }
  pose proof (convert_formula p _ _ _ _ Hab C1 E1) as F1.
  rewrite <- Hv1 in Hbc.
  pose proof (convert_formula p _ _ _ _ Hbc C2 E2) as F2.
  rewrite Hv1 in Hbc.
  pose proof (convert_formula p _ _ _ _ Hac C3 E3) as F3.
  destruct (compute_scale_factor_legs _ _ _ Hab) as (ha & la & hb & lb & L1 & L2 & _ & S1 & _ & O1).
  destruct (compute_scale_factor_legs _ _ _ Hbc) as (hb2 & lb2 & hc & lc & L3 & L4 & _ & S2 & _ & O2).
  destruct (compute_scale_factor_legs _ _ _ Hac) as (ha3 & la3 & hc3 & lc3 & L5 & L6 & _ & S3 & _ & O3).
  rewrite L2 in L3. inversion L3; subst hb2 lb2. rewrite L1 in L5. inversion L5; subst ha3 la3.
  rewrite L4 in L6. inversion L6; subst hc3 lc3.
  subst sfab sfbc sfac. cbn [sf_scale1 sf_scale2 sf_offset] in *.
  rewrite O1 in F1. rewrite O2 in F2. rewrite O3 in F3.
  set (sa := sem p (xv (lg_scale la))) in *. set (sb := sem p (xv (lg_scale lb))) in *.
  set (sc := sem p (xv (lg_scale lc))) in *.
  set (x := sem p (v_val a)) in *. set (y := sem p (v_val v1)) in *.
  set (z := sem p (v_val v2)) in *. set (w := sem p (v_val v3)) in *.
  assert (sc * z == sc * w) as Hz.
  { rewrite F2, F3. setoid_replace (y * sb) with (sb * y) by ring. rewrite F1. ring. }
  apply (Qmult_inj_l _ _ sc); [exact Nc|exact Hz].
Qed.

(* without an offset the result is the magnitude times one fixed ratio ... *)
Theorem convert_ratio p a b sf v :
  compute_scale_factor (v_units a) (v_units b) = Ok sf ->
  v_convert_to a b = Ok v -> v_exact v = true ->
  sem p (xv (sf_offset sf)) == 0 -> ~ sem p (xv (sf_scale2 sf)) == 0 ->
  sem p (v_val v) == sem p (v_val a) * (sem p (xv (sf_scale1 sf)) / sem p (xv (sf_scale2 sf))).
Proof.
  intros Hsf C E O N. pose proof (convert_formula p _ _ _ _ Hsf C E) as F. rewrite O in F.
  apply (Qmult_inj_l _ _ (sem p (xv (sf_scale2 sf)))); [exact N|]. rewrite F. field. exact N.
Qed.

(* ... hence scaling the quantity scales the result *)
Theorem convert_linear p k a a' b sf v v' :
  compute_scale_factor (v_units a) (v_units b) = Ok sf ->
  v_units a' = v_units a -> sem p (v_val a') == k * sem p (v_val a) ->
  v_convert_to a b = Ok v -> v_convert_to a' b = Ok v' -> v_exact v = true -> v_exact v' = true ->
  sem p (xv (sf_offset sf)) == 0 -> ~ sem p (xv (sf_scale2 sf)) == 0 ->
  sem p (v_val v') == k * sem p (v_val v).
Proof.
  intros Hsf Hu Hk C C' E E' O N.
  rewrite (convert_ratio p _ _ _ _ Hsf C E O N).
  rewrite <- Hu in Hsf. rewrite (convert_ratio p _ _ _ _ Hsf C' E' O N). rewrite Hk. ring.
Qed.

(* sums use the scale only: the offset of the scale factor plays no part *)
Theorem add_formula p a b sf v :
  real_is_zero (v_val b) = false ->
  compute_scale_factor (v_units b) (v_units a) = Ok sf ->
  v_add a b = Ok v -> v_exact v = true ->
  sem p (xv (sf_scale2 sf)) * sem p (v_val v)
  == sem p (xv (sf_scale2 sf)) * sem p (v_val a) + sem p (v_val b) * sem p (xv (sf_scale1 sf)).
Proof.
  intros Hz Hsf. unfold v_add, v_is_zero. rewrite Hz, Hsf. cbn [bind].
  destruct (er_div (er_mul (mkex (v_val b) (v_exact b)) (sf_scale1 sf)) (sf_scale2 sf)) as [sc| |] eqn:D;
    cbn [bind]; try discriminate.
  intro H; inversion H; subst; clear H. cbn [v_exact v_val].
  intro E. apply andb_true_iff in E. destruct E as [_ Es].
  pose proof (er_add_sem p _ _ Es) as H1. cbn [xv] in H1.
  destruct (er_add_exact_args _ _ Es) as [_ H2].
  pose proof (er_div_sem p _ _ _ D H2) as H3.
  pose proof (er_div_exact_num _ _ _ D H2) as H4.
  pose proof (er_mul_sem p _ _ H4) as H5. cbn [xv] in H5.
  rewrite H1. rewrite Qmult_plus_distr_r. rewrite H3, H5. reflexivity.
Qed.

(* adding a zero keeps magnitude and units (an approximate zero makes the sum approximate) *)
Theorem add_zero_is_noop a b : real_is_zero (v_val b) = true ->
  v_add a b = Ok (mkval (v_val a) (v_units a) (v_exact a && v_exact b) (v_simp a)).
Proof. intro H. unfold v_add, v_is_zero. rewrite H. reflexivity. Qed.

(* ---- the rational fragment: no hypotheses about flags ---- *)

Definition simple_exact (e : ex real) : Prop := exists q, e = mkex (Simple q) true.

Definition sf_simple (sf : scale_factor) : Prop :=
  simple_exact (sf_scale1 sf) /\ simple_exact (sf_offset sf) /\ simple_exact (sf_scale2 sf).

Lemma er_mul_simple x y : simple_exact (er_mul (mkex (Simple x) true) (mkex (Simple y) true)).
Proof.
  unfold er_mul, simple_exact. cbn [xe xv andb].
  destruct (real_is_zero (Simple x)); [eexists; reflexivity|].
  destruct (real_is_zero (Simple y)); eexists; reflexivity.
Qed.

Lemma er_add_simple x y : simple_exact (er_add (mkex (Simple x) true) (mkex (Simple y) true)).
Proof.
  unfold er_add, simple_exact. cbn [xe xv andb].
  destruct (real_is_zero (Simple x)); [eexists; reflexivity|].
  destruct (real_is_zero (Simple y)); eexists; reflexivity.
Qed.

Lemma er_div_simple x y :
  real_is_zero (Simple y) = false ->
  exists r, er_div (mkex (Simple x) true) (mkex (Simple y) true) = Ok r /\ simple_exact r.
Proof.
  intro H. unfold er_div, simple_exact. cbn [xe xv andb]. rewrite H.
  destruct (real_is_zero (Simple x)); eexists; split; try reflexivity; eexists; reflexivity.
Qed.

(* a rational magnitude, rational scale factor: the conversion succeeds and is exact *)
Theorem convert_exact_simple x ua b sf :
  compute_scale_factor ua (v_units b) = Ok sf -> sf_simple sf ->
  real_eqb (v_val b) (Simple 1) = true -> v_exact b = true ->
  real_is_zero (xv (sf_scale2 sf)) = false ->
  exists v, v_convert_to (mkval (Simple x) ua true true) b = Ok v /\ v_exact v = true
            /\ v_units v = v_units b /\ exists q, v_val v = Simple q.
Proof.
  intros Hsf (S1 & SO & S2) Hb Eb Nz.
  destruct S1 as [s1 S1], SO as [o SO], S2 as [s2 S2].
  unfold v_convert_to. cbn [v_val v_units v_exact]. rewrite Hb. cbn [negb]. rewrite Hsf. cbn [bind].
  rewrite S1, SO, S2 in *. cbn [xv] in Nz.
  destruct (er_mul_simple x s1) as [m Hm]. rewrite Hm.
  destruct (er_add_simple m o) as [n Hn]. rewrite Hn.
  destruct (er_div_simple n s2 Nz) as (r & Hr & [q Hq]). rewrite Hr. cbn [bind].
  eexists. split; [reflexivity|]. cbn [v_exact v_units v_val]. rewrite Hq, Eb. cbn [xe xv andb].
  repeat split. exists q. reflexivity.
Qed.
