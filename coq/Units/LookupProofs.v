(* Units area: general (table-independent) facts about the lookup model:
   custom units take precedence, the table scan returns the first matching
   definition, and what a prefixed name resolves to. *)
From FendV Require Import Base.Prelude Units.Defs Units.Algebra Units.Lookup Units.Legality.
From Coq Require Import Lia.
Open Scope N_scope.

(* ------------------------------------------------------------------ *)
(* custom units *)

Definition custom_matches (ident : str) (cs : bool) (e : rawdef) : bool :=
  let '(s, p, _) := e in
  let p' := plural_of s p in
  (str_eqb ident s || str_eqb ident p') || (negb cs && (str_eq_ci s ident || str_eq_ci p' ident)).

Definition norm_def (e : rawdef) : rawdef := let '(s, p, d) := e in (s, plural_of s p, d).

(* find_custom returns the FIRST entry of the custom list that matches *)
Lemma find_custom_spec l ident cs :
  find_custom l ident cs = option_map norm_def (find (custom_matches ident cs) l).
Proof.
  induction l as [|[[s p] d] l IH]; [reflexivity|].
  cbn [find_custom find custom_matches].
  destruct ((str_eqb ident s || str_eqb ident (plural_of s p))
            || negb cs && (str_eq_ci s ident || str_eq_ci (plural_of s p) ident)); [reflexivity|apply IH].
Qed.

(* ... and it is consulted before anything else, whatever the built-in tables
   contain and whether or not C/F mode is on *)
Lemma custom_precedence_internal T C ident cs wu d :
  find_custom (c_custom C) ident cs = Some d ->
  query_unit_internal T C ident false cs wu = Some d.
Proof. intro H. unfold query_unit_internal. rewrite H. reflexivity. Qed.

Lemma custom_precedence ev cur T C ident cs d :
  find_custom (c_custom C) ident cs = Some d ->
  query_unit_cs ev cur T C ident cs = (ldo u <- expr_unit ev cur d; LOk (ud_value u)).
Proof.
  intro H. unfold query_unit_cs. rewrite (custom_precedence_internal T C ident cs true d H). reflexivity.
Qed.

Corollary custom_independent_of_tables ev cur T T' C ident cs d :
  find_custom (c_custom C) ident cs = Some d ->
  query_unit_cs ev cur T C ident cs = query_unit_cs ev cur T' C ident cs.
Proof. intro H. rewrite !(custom_precedence _ _ _ _ _ _ _ H). reflexivity. Qed.

(* prefixes are never looked up among the custom units *)
Lemma custom_not_on_prefix_side T C C' ident cs wu :
  c_cf_mode C = c_cf_mode C' ->
  query_unit_internal T C ident true cs wu = query_unit_internal T C' ident true cs wu.
Proof. intro H. unfold query_unit_internal. rewrite H. reflexivity. Qed.

(* ------------------------------------------------------------------ *)
(* the table scan: first exact match *)

Lemma scan_defs_exact_first l ident n c :
  scan_defs l ident true n c =
  match first_def l ident with
  | Some d => Some (norm_def d)
  | None => if n =? 1 then c else None
  end.
Proof.
  revert n c. induction l as [|[[s p] d] l IH]; intros n c; [reflexivity|].
  cbn [scan_defs first_def negb andb].
  destruct (str_eqb s ident || str_eqb (plural_of s p) ident); [reflexivity|apply IH].
Qed.

(* a name that is neither a currency identifier nor (on the prefix side) a
   short prefix denotes the first definition that carries it *)
Lemma builtin_query_first_match T ident :
  find_currency (t_currencies T) ident = None ->
  builtin_query T ident false true = option_map norm_def (first_def (t_defs T) ident).
Proof.
  intro H. unfold builtin_query. cbn [negb]. rewrite H, scan_defs_exact_first.
  destruct (first_def (t_defs T) ident); reflexivity.
Qed.

Lemma first_def_spec l n d :
  first_def l n = Some d ->
  exists l1 l2, l = l1 ++ d :: l2 /\
                (let '(s, p, _) := d in str_eqb s n || str_eqb (plural_of s p) n = true) /\
                forall e, In e l1 -> (let '(s, p, _) := e in str_eqb s n || str_eqb (plural_of s p) n = false).
Proof.
  revert d. induction l as [|[[s p] d0] l IH]; intros d H; [discriminate|].
  cbn [first_def] in H.
  destruct (str_eqb s n || str_eqb (plural_of s p) n) eqn:E.
  - inversion H; subst. exists [], l. split; [reflexivity|]. split; [exact E|]. intros e [].
  - destruct (IH d H) as (l1 & l2 & Hl & Hd & Hn).
    exists ((s, p, d0) :: l1), l2. split; [rewrite Hl; reflexivity|]. split; [exact Hd|].
    intros e [He|He]; [subst; exact E|apply Hn; exact He].
Qed.

(* ------------------------------------------------------------------ *)
(* expr_unit keeps the rule written in the definition *)

Lemma expr_unit_rule ev cur d u :
  expr_unit ev cur d = LOk u -> ud_rule u = rule_of_def d.
Proof.
  destruct d as [[s p] d0]. unfold expr_unit, rule_of_def.
  destruct (str_eqb (trim d0) s_currency).
  - destruct (cur s); cbn [lbind]; try discriminate. intro H; inversion H; reflexivity.
  - destruct (strip_rule (trim d0)) as [rule d1]. cbn [fst].
    destruct (str_eqb d1 s_bang); [intro H; inversion H; reflexivity|].
    destruct (match d1 with 61 :: r => (true, r) | _ => (false, d1) end) as [alias0 body].
    destruct (ev body) as [num| | |]; cbn [lbind]; try discriminate.
    destruct (of_res (v_is_unitless num)) as [ul| | |]; cbn [lbind]; try discriminate.
    destruct (negb (alias0 || prule_eqb rule RLong) || ul).
    + destruct (of_res (create_unit_value_from_value num [] (alias0 || prule_eqb rule RLong) s p)); cbn [lbind]; try discriminate.
      intro H; inversion H; reflexivity.
    + intro H; inversion H; reflexivity.
Qed.

(* ------------------------------------------------------------------ *)
(* what a prefixed name resolves to *)

Section Prefixed.
  Variable ev : str -> lres value.
  Variable cur : str -> lres value.
  Variable T : tables.
  Variable C : lctx.
  Let q := query_unit_internal T C.

  Lemma split_loop_skip : forall stop pre rest,
    earlier_split_found q pre rest stop = false ->
    split_loop ev cur T C pre rest true =
    split_loop ev cur T C (pre ++ firstn stop rest) (skipn stop rest) true.
  Proof.
    induction stop as [|k IH]; intros pre rest H.
    - cbn [firstn skipn]. rewrite app_nil_r. reflexivity.
    - destruct rest as [|c rest'].
      + cbn [firstn skipn]. rewrite app_nil_r. reflexivity.
      + cbn [earlier_split_found] in H. cbn [firstn skipn split_loop]. fold q.
        destruct (q pre true true false) as [a|].
        * destruct (q (c :: rest') false true false) as [b|]; [discriminate|].
          rewrite (IH _ _ H), <- app_assoc. reflexivity.
        * rewrite (IH _ _ H), <- app_assoc. reflexivity.
  Qed.

  Theorem prefixed_resolution p u a b :
    p <> [] -> u <> [] ->
    whole_found q (p ++ u) = false ->
    has_earlier_split q p u = false ->
    q p true true false = Some a ->
    q u false true false = Some b ->
    query_unit_cs ev cur T C (p ++ u) true =
    (ldo a' <- expr_unit ev cur a;
     ldo b' <- expr_unit ev cur b;
     if rules_compatible (ud_rule a') (ud_rule b') then construct_prefixed_unit a' b' else LNotFound).
  Proof.
    intros Hp Hu Hw He Ha Hb.
    destruct p as [|c0 p']; [contradiction|]. destruct u as [|c1 u']; [contradiction|].
    unfold query_unit_cs. unfold whole_found, is_some in Hw. fold q.
    destruct (q ((c0 :: p') ++ c1 :: u') false true true); [discriminate|].
    cbn [app]. unfold has_earlier_split in He. cbn [app length pred] in He.
    rewrite (split_loop_skip _ _ _ He).
    rewrite firstn_app, Nat.sub_diag, firstn_all. cbn [firstn]. rewrite app_nil_r.
    rewrite skipn_app, Nat.sub_diag, skipn_all. cbn [skipn app].
    cbn [split_loop]. fold q. cbn [app] in Ha. rewrite Ha, Hb. reflexivity.
  Qed.
End Prefixed.
