(* Units area: the finite obligation of C05 over the generated table. *)
From FendV Require Import Base.Prelude Units.Defs Units.Algebra Units.Lookup Units.Index
     Units.Legality Units.LookupProofs Units.Table.
From FendV Require Import Units.Generated.UnitTable.
Open Scope N_scope.
(* ------------------------------------------------------------------ *)
(* C05: finite obligation *)
Lemma reduced_agrees_b : forallb chk_reduced_agrees all_names = true.
Proof. vm_compute. reflexivity. Qed.

Lemma reduced_agrees n : In n all_names -> chk_reduced_agrees n = true.
Proof. apply (proj1 (forallb_forall _ _) reduced_agrees_b). Qed.
