(* Units area: prefix legality, stated over the table lookup alone (no
   evaluator).  [q] is query_unit_internal in a fixed context: ident,
   short_prefixes, case_sensitive, whole_unit.  No proofs here. *)
From FendV Require Import Base.Prelude Units.Defs Units.Algebra Units.Lookup.
Open Scope N_scope.

Definition rule_of_def (d : rawdef) : prule :=
  let '(_, _, d0) := d in
  let d1 := trim d0 in
  if str_eqb d1 s_currency then RLongAllowed else fst (strip_rule d1).

Fixpoint first_def (l : list rawdef) (n : str) : option rawdef :=
  match l with
  | [] => None
  | (s, p, d) :: r => if str_eqb s n || str_eqb (plural_of s p) n then Some (s, p, d) else first_def r n
  end.

Definition is_some {A} (o : option A) : bool := match o with Some _ => true | None => false end.

Section PrefixChecks.
  (* ident, short_prefixes, case_sensitive, whole_unit *)
  Variable q : str -> bool -> bool -> bool -> option rawdef.
  (* is the identifier accepted by the case-insensitive pass? *)
  Variable ci_rescued : str -> bool.
  (* the names, in the order of the status rows *)
  Variable all_names : list str.

  (* the rule with which [p] acts on the prefix side / [u] on the name side *)
  Definition prefix_side_rule (p : str) : option prule :=
    match q p true true false with Some d => Some (rule_of_def d) | None => None end.
  Definition name_side_rule (u : str) : option prule :=
    match q u false true false with Some d => Some (rule_of_def d) | None => None end.

  (* 5b. legality, stated without the evaluator: for a pair whose
     concatenation is not itself found as a whole name and which has no
     earlier split with both halves found, the implementation resolves it iff
     the two rules are compatible.  (Written with if-then-else, not orb/andb:
     vm_compute is call-by-value.) *)
  Definition whole_found (s : str) : bool := is_some (q s false true true).

  Fixpoint earlier_split_found (pre rest : str) (stop : nat) {struct stop} : bool :=
    match stop with
    | O => false
    | S k =>
      match rest with
      | [] => false
      | c :: rest' =>
        match q pre true true false with
        | Some _ =>
          match q rest false true false with
          | Some _ => true
          | None => earlier_split_found (pre ++ [c]) rest' k
          end
        | None => earlier_split_found (pre ++ [c]) rest' k
        end
      end
    end.

  (* splits strictly before position length p *)
  Definition has_earlier_split (p u : str) : bool :=
    match p ++ u with
    | [] => false
    | c :: rest => earlier_split_found [c] rest (pred (length p))
    end.

  Definition pair_is_plain (p u : str) : bool :=
    if whole_found (p ++ u) then false else negb (has_earlier_split p u).

  Definition legal_rules (rp ru : option prule) : bool :=
    match rp, ru with Some a, Some b => rules_compatible a b | _, _ => false end.

  Definition chk_pair_legality (p : str) (rp : option prule) (u : str) (ru : option prule) (code : N) : bool :=
    if legal_rules rp ru then
      if code =? 0 then true else negb (pair_is_plain p u)
    else
      if code =? 1 then true
      else if pair_is_plain p u then (if code =? 0 then ci_rescued (p ++ u) else false)
      else true.

  Fixpoint chk_row_go (p : str) (rp : option prule) (us : list (str * option prule)) (codes : list N) : bool :=
    match us, codes with
    | [], [] => true
    | (u, ru) :: us', c :: codes' =>
      if chk_pair_legality p rp u ru c then chk_row_go p rp us' codes' else false
    | _, _ => false
    end.

  (* rules are looked up once per prefix and once per name *)
  Definition name_rules : list (str * option prule) := map (fun u => (u, name_side_rule u)) all_names.

  Definition chk_prefix_row_legality (row : str * list N) : bool :=
    let '(p, codes) := row in chk_row_go p (prefix_side_rule p) name_rules codes.
End PrefixChecks.
