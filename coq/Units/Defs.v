(* Units area: data types shared by the lookup model (core/src/units.rs,
   core/src/units/builtin.rs) and the unit algebra model (core/src/num/unit.rs,
   unit/named_unit.rs, unit/unit_exponent.rs, unit/base_unit.rs, real.rs).
   No proofs here. *)
From FendV Require Import Base.Prelude.
From Coq Require Import QArith.
Close Scope Q_scope.
Open Scope N_scope.

(* ------------------------------------------------------------------ *)
(* Text: a Rust &str is modelled as its list of Unicode scalar values. *)

Definition str := list N.

Fixpoint str_eqb (a b : str) : bool :=
  match a, b with
  | [], [] => true
  | x :: a', y :: b' => N.eqb x y && str_eqb a' b'
  | _, _ => false
  end.

Definition is_ascii_upper (c : N) : bool := (65 <=? c) && (c <=? 90).
Definition is_ascii_lower (c : N) : bool := (97 <=? c) && (c <=? 122).
Definition ascii_lower (c : N) : N := if is_ascii_upper c then c + 32 else c.
Definition ascii_upper (c : N) : N := if is_ascii_lower c then c - 32 else c.

(* str::eq_ignore_ascii_case (bytewise on UTF-8; on scalar values it is the
   same relation because only ASCII letters are folded) *)
Fixpoint str_eq_ci (a b : str) : bool :=
  match a, b with
  | [], [] => true
  | x :: a', y :: b' => N.eqb (ascii_lower x) (ascii_lower y) && str_eq_ci a' b'
  | _, _ => false
  end.

(* str::to_uppercase, as far as it can be observed by comparing the result
   with an all-ASCII string (the currency identifiers): ASCII letters are
   folded; the scalar values whose full upper-case mapping consists of ASCII
   letters only are expanded; every other non-ASCII scalar value maps to a
   string that still contains a non-ASCII scalar value, which is all that
   matters for the comparison, so it is kept as it is.  The harness checks
   this table against Rust's char::to_uppercase for every scalar value. *)
Definition upper_cp (c : N) : list N :=
  if c <? 128 then [ascii_upper c]
  else if c =? 223 then [83; 83]          (* sharp s -> SS *)
  else if c =? 305 then [73]              (* dotless i -> I *)
  else if c =? 383 then [83]              (* long s -> S *)
  else if c =? 64256 then [70; 70]        (* ff *)
  else if c =? 64257 then [70; 73]        (* fi *)
  else if c =? 64258 then [70; 76]        (* fl *)
  else if c =? 64259 then [70; 70; 73]    (* ffi *)
  else if c =? 64260 then [70; 70; 76]    (* ffl *)
  else if c =? 64261 then [83; 84]        (* long s t *)
  else if c =? 64262 then [83; 84]        (* st *)
  else [c].

Definition str_upper (s : str) : str := flat_map upper_cp s.

Fixpoint strip_prefix (p s : str) : option str :=
  match p, s with
  | [], _ => Some s
  | x :: p', y :: s' => if N.eqb x y then strip_prefix p' s' else None
  | _ :: _, [] => None
  end.

(* char::is_whitespace (White_Space property) *)
Definition is_ws (c : N) : bool :=
  ((9 <=? c) && (c <=? 13)) || (c =? 32) || (c =? 133) || (c =? 160) || (c =? 5760)
  || ((8192 <=? c) && (c <=? 8202)) || (c =? 8232) || (c =? 8233) || (c =? 8239)
  || (c =? 8287) || (c =? 12288).

Fixpoint trim_start (s : str) : str :=
  match s with
  | c :: r => if is_ws c then trim_start r else s
  | [] => []
  end.
Definition trim (s : str) : str := rev (trim_start (rev (trim_start s))).

(* ------------------------------------------------------------------ *)
(* Numbers.  A Real is Simple(r) or Pi(r) = r*pi with r rational; the model
   keeps rationals as Coq's Q (not necessarily reduced, compared by Qeq_bool).
   Exponents and magnitudes are real in the model (complex numbers are outside
   it; the translator refuses non-zero imaginary parts). *)

Inductive real := Simple (q : Q) | Pi (q : Q).

Definition real_coef (r : real) : Q := match r with Simple q | Pi q => q end.
Definition real_is_pi (r : real) : bool := match r with Pi _ => true | _ => false end.
Definition real_is_zero (r : real) : bool := Qeq_bool (real_coef r) 0.

(* value used where the code calls Real::approximate (about 1e-36 away from
   pi; the code's own approximation differs from pi in the 20th digit or so.
   Inexact results are compared with a tolerance, never exactly). *)
Definition pi_q : Q :=
  Qmake 314159265358979323846264338327950288 100000000000000000000000000000000000.

Definition real_approx (r : real) : Q :=
  match r with Simple q => q | Pi q => Qmult q pi_q end.

Definition real_eqb (a b : real) : bool :=
  match a, b with
  | Simple x, Simple y => Qeq_bool x y
  | Pi x, Pi y => Qeq_bool x y
  | _, _ => Qeq_bool (real_coef a) 0 && Qeq_bool (real_coef b) 0
  end.

(* Exact<T> *)
Record ex (A : Type) := mkex { xv : A; xe : bool }.
Arguments mkex {A} xv xe.
Arguments xv {A} e.
Arguments xe {A} e.

(* ------------------------------------------------------------------ *)
(* Units *)

(* HashMap<BaseUnit, Complex>: association list; the order is the order in
   which the model inserted the keys.  Where the code iterates over a HashMap
   (arbitrary order) the model function takes the list in the order to use. *)
Definition hmap := list (str * Q).

Record named_unit := mknu {
  nu_prefix : str;
  nu_sing : str;
  nu_plur : str;
  nu_alias : bool;
  nu_base : hmap;
  nu_scale : real
}.

Record uexp := mkue { ue_unit : named_unit; ue_exp : Q }.

(* num::unit::Value restricted to one-point real magnitudes; base and format
   are not modelled *)
Record value := mkval {
  v_val : real;
  v_units : list uexp;
  v_exact : bool;
  v_simp : bool
}.

(* ------------------------------------------------------------------ *)
(* Unit definitions and lookup context *)

Inductive prule := RNone | RLongAllowed | RLong | RShortAllowed | RShort.

Definition prule_eqb (a b : prule) : bool :=
  match a, b with
  | RNone, RNone | RLongAllowed, RLongAllowed | RLong, RLong
  | RShortAllowed, RShortAllowed | RShort, RShort => true
  | _, _ => false
  end.

Definition prule_code (r : prule) : N :=
  match r with RNone => 0 | RLongAllowed => 1 | RLong => 2 | RShortAllowed => 3 | RShort => 4 end.

(* (singular, plural, definition) as stored in the tables / custom_units *)
Definition rawdef := (str * str * str)%type.

Record unitdef := mkud {
  ud_sing : str;
  ud_plur : str;
  ud_rule : prule;
  ud_alias : bool;
  ud_value : value
}.

Record tables := mktab {
  t_defs : list rawdef;            (* ALL_UNIT_DEFS flattened, in order *)
  t_short : list (str * str);      (* SHORT_PREFIXES *)
  t_currencies : list str          (* CURRENCY_IDENTIFIERS *)
}.

Record lctx := mklctx {
  c_custom : list rawdef;          (* Context.custom_units *)
  c_cf_mode : bool                 (* fc_mode == CelsiusFahrenheit *)
}.

(* text constants *)
Definition s_celsius : str := [99;101;108;115;105;117;115].
Definition s_fahrenheit : str := [102;97;104;114;101;110;104;101;105;116].
Definition s_kelvin : str := [107;101;108;118;105;110].
Definition s_x : str := [120].
