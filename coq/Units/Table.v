(* Units area: the lookup and algebra models instantiated with the generated
   table of the tree being checked (Units/Generated/UnitTable.v), and the
   boolean per-entry checks whose exhaustive evaluation gives the finite
   obligations of C11 / C04 / C05.  No proofs here. *)
From FendV Require Import Base.Prelude Units.Defs Units.Algebra Units.Lookup Units.Index Units.Legality Units.Dim.
From FendV Require Import Units.Generated.UnitTable Units.Standards.
From Coq Require Import QArith.
Close Scope Q_scope.
Open Scope N_scope.

(* ------------------------------------------------------------------ *)
(* instantiation *)

Definition the_tables : tables :=
  mktab (map snd gen_defs) gen_short gen_currencies.

Definition default_ctx : lctx := mklctx [] true.

Fixpoint assoc {A} (l : list (str * A)) (k : str) : option A :=
  match l with
  | [] => None
  | (k', v) :: r => if str_eqb k' k then Some v else assoc r k
  end.

(* evaluator oracle: the values computed by the tree's evaluator for the
   definition bodies; [extra] lets a request supply further entries (custom
   units).  A body that was not dumped is outside the model. *)
Definition ev_with (extra : list (str * lres value)) (body : str) : lres value :=
  match assoc extra body with
  | Some r => r
  | None => match assoc gen_bodies body with Some r => r | None => LErr EOutOfFuel end
  end.

Definition cur_table (c : str) : lres value :=
  match assoc gen_cur_values c with Some r => r | None => LErr EOutOfFuel end.

Definition ev_table := ev_with [].

Definition model_query (C : lctx) (extra : list (str * lres value)) (ident : str) : lres value :=
  query_unit (ev_with extra) cur_table the_tables C ident.

Definition model_resolve (ident : str) : lres value := model_query default_ctx [] ident.

Definition model_def (ident : str) : option rawdef := lookup_def the_tables default_ctx ident.

(* ------------------------------------------------------------------ *)
(* comparison of values up to the representation of rationals; inexact
   magnitudes (approximations) are compared with a relative tolerance *)

Definition q_abs (q : Q) : Q := Qmake (Z.abs (Qnum q)) (Qden q).
Definition tol : Q := Qmake 1 1000000000000000.   (* 1e-15 *)

Definition q_close (a b : Q) : bool :=
  Qle_bool (q_abs (Qminus a b)) (Qmult tol (q_abs b)).

Definition real_close (exact : bool) (a b : real) : bool :=
  if exact then real_eqb a b
  else real_eqb a b || q_close (real_approx a) (real_approx b).

Definition hmap_eqb (a b : hmap) : bool := compare_hashmaps a b.

Definition nu_eqb (exact : bool) (a b : named_unit) : bool :=
  str_eqb (nu_prefix a) (nu_prefix b) && str_eqb (nu_sing a) (nu_sing b)
  && str_eqb (nu_plur a) (nu_plur b) && Bool.eqb (nu_alias a) (nu_alias b)
  && hmap_eqb (nu_base a) (nu_base b) && real_close exact (nu_scale a) (nu_scale b).

Fixpoint units_eqb (exact : bool) (a b : list uexp) : bool :=
  match a, b with
  | [], [] => true
  | x :: a', y :: b' =>
    nu_eqb exact (ue_unit x) (ue_unit y) && Qeq_bool (ue_exp x) (ue_exp y) && units_eqb exact a' b'
  | _, _ => false
  end.

Definition value_eqb (a b : value) : bool :=
  Bool.eqb (v_exact a) (v_exact b) && Bool.eqb (v_simp a) (v_simp b)
  && real_close (v_exact a) (v_val a) (v_val b)
  && units_eqb (v_exact a) (v_units a) (v_units b).

Definition lres_eqb {A} (f : A -> A -> bool) (a b : lres A) : bool :=
  match a, b with
  | LOk x, LOk y => f x y
  | LNotFound, LNotFound => true
  | LErr _, LErr _ => true
  | LPanic x, LPanic y => x =? y
  | _, _ => false
  end.

(* ------------------------------------------------------------------ *)
(* quantities: what a resolved name denotes in base units *)

Record quantity := mkq { q_dim : hmap; q_scale : real; q_exact : bool }.

Definition quantity_of_reduced (r : named_unit * bool) : quantity :=
  mkq (nu_base (fst r)) (nu_scale (fst r)) (snd r).

Definition quantity_eqb (a b : quantity) : bool :=
  hmap_eqb (q_dim a) (q_dim b) && Bool.eqb (q_exact a) (q_exact b)
  && real_close (q_exact a) (q_scale a) (q_scale b).

(* the quantity the implementation assigns to a name (dumped) *)
Definition impl_entry (n : str) : option (lres (value * option (named_unit * bool))) :=
  match assoc gen_names n with Some r => Some r | None => assoc gen_stems n end.

Definition impl_quantity (n : str) : option quantity :=
  match impl_entry n with
  | Some (LOk (_, Some r)) => Some (quantity_of_reduced r)
  | _ => None
  end.

(* quantity of a model value *)
Definition value_quantity (v : value) : option quantity :=
  match v_quantity v with
  | Ok (h, s) => Some (mkq h (xv s) (xe s))
  | _ => None
  end.

Definition opt_quantity_eqb (a b : option quantity) : bool :=
  match a, b with Some x, Some y => quantity_eqb x y | _, _ => false end.

(* the model does not compute irrational roots ([Err EOutOfFuel], see
   Algebra.v): a value whose reduction needs one is outside the modelled
   fragment and is not an obligation of the checks that go through the model *)
Definition outside_fragment (v : value) : bool :=
  match v_quantity v with Err EOutOfFuel => true | _ => false end.

(* quantity of a model value compared with a dumped quantity, vacuous outside the fragment *)
Definition model_quantity_agrees (v : value) (q : option quantity) : bool :=
  if outside_fragment v then true else opt_quantity_eqb (value_quantity v) q.

(* k-th power of a quantity (k a small positive integer), exact *)
Definition quantity_pow (q : quantity) (k : Z) : option quantity :=
  match real_pow (q_scale q) (Simple (inject_Z k)) with
  | Ok p => Some (mkq (map (fun kv => (fst kv, Qmult (snd kv) (inject_Z k))) (q_dim q)) (xv p) (q_exact q && xe p))
  | _ => None
  end.

(* ------------------------------------------------------------------ *)
(* names *)

Definition def_names (d : rawdef) : list str :=
  let '(s, p, _) := d in match p with [] => [s] | _ => [s; p] end.

Definition table_names : list str := flat_map def_names (t_defs the_tables).
Definition all_names : list str := map fst gen_names.

(* ------------------------------------------------------------------ *)
(* C11 per-entry checks *)

(* 1. every table name resolves (status of the implementation, dumped) *)
Definition chk_resolves (n : str) : bool :=
  match assoc gen_names n with Some (LOk _) => true | _ => false end.

(* 2. singular and plural denote the same quantity *)
Definition chk_sing_plur (d : rawdef) : bool :=
  let '(s, p, _) := d in
  match p with
  | [] => true
  | _ => opt_quantity_eqb (impl_quantity s) (impl_quantity p)
  end.

(* 3a. the model resolves the name to the very value the implementation
       returned (the in-kernel tie of the lookup + algebra model) *)
Definition chk_model_agrees (n : str) : bool :=
  match assoc gen_names n with
  | Some r =>
    match model_resolve n with
    | LErr EOutOfFuel => true      (* outside the modelled fragment (irrational root) *)
    | m => lres_eqb value_eqb m
             (match r with LOk (v, _) => LOk v | LNotFound => LNotFound | LErr e => LErr e | LPanic k => LPanic k end)
    end
  | None => false
  end.

(* 3b. a name denotes what the body of the definition selected by lookup
   evaluates to (chk_lookup_first says that this is the FIRST definition) *)
Definition body_of (d : rawdef) : option str :=
  let '(_, _, d0) := d in
  let d1 := trim d0 in
  if str_eqb d1 s_currency then None
  else let '(_, d2) := strip_rule d1 in
       if str_eqb d2 s_bang then None
       else Some (match d2 with 61 :: r => r | _ => d2 end).

Definition chk_first_definition (n : str) : bool :=
  match model_def n with
  | None => false
  | Some d =>
    match body_of d with
    | None => chk_resolves n
    | Some b =>
      match assoc gen_bodies b with
      | Some (LOk v) => model_quantity_agrees v (impl_quantity n)
      | _ => false
      end
    end
  end.

(* 3c. short and long spellings: a definition whose body is a single name *)
Definition is_ident_char (c : N) : bool :=
  is_ascii_lower c || is_ascii_upper c || ((48 <=? c) && (c <=? 57)) || (c =? 95) || (128 <=? c).

Definition is_single_name (b : str) : bool :=
  match b with [] => false | c :: _ => negb ((48 <=? c) && (c <=? 57)) && forallb is_ident_char b end.

Definition chk_short_long (d : rawdef) : bool :=
  match body_of d with
  | Some b =>
    if is_single_name b then
      let '(s, _, _) := d in
      match model_def s with
      | Some d' =>
        (* only the definition that lookup actually uses *)
        if str_eqb (snd d') (snd d) then
          match impl_quantity b with
          | Some qb => opt_quantity_eqb (impl_quantity s) (Some qb)
          | None =>
            match assoc gen_bodies b with
            | Some (LOk v) => model_quantity_agrees v (impl_quantity s)
            | _ => false
            end
          end
        else true
      | None => false
      end
    else true
  | None => true
  end.

(* 4. square / cubic shorthand families *)
Definition s_sq : str := [115;113].
Definition s_cb : str := [99;98].

Definition family_of (n : str) : list (str * Z) :=
  (match strip_prefix s_sq n with Some (c :: r) => [(c :: r, 2%Z)] | _ => [] end)
  ++ (match strip_prefix s_cb n with Some (c :: r) => [(c :: r, 3%Z)] | _ => [] end)
  ++ (match rev n with
      | 50 :: (c :: r) => [(rev (c :: r), 2%Z)]
      | 51 :: (c :: r) => [(rev (c :: r), 3%Z)]
      | _ => []
      end).

(* a stem counts when the implementation resolves it to a quantity with a
   non-empty dimension (so that e.g. K2, squaredegree are not families) *)
Definition stem_quantity (x : str) : option quantity :=
  match impl_quantity x with
  | Some q => match q_dim q with [] => None | _ => Some q end
  | None => None
  end.

Definition chk_family_one (n : str) (xk : str * Z) : bool :=
  match stem_quantity (fst xk) with
  | None => true
  | Some qx =>
    match quantity_pow qx (snd xk) with
    | Some want => opt_quantity_eqb (impl_quantity n) (Some want)
    | None => false
    end
  end.

Definition chk_family (n : str) : bool := forallb (chk_family_one n) (family_of n).

(* 5. prefixes.  The checks are written over a query function [q] (the
   table lookup of query_unit_internal in the default context) so that they
   can be evaluated with the indexed lookup and stated for the faithful one. *)
(* status codes: 0 resolves, 1 unknown identifier, 2 other error *)
Definition status_of (r : lres value) : N :=
  match r with LOk _ => 0 | LNotFound => 1 | LErr _ => 2 | LPanic _ => 3 end.

(* 5a. (the model predicts the implementation's status and value for every
   prefix ++ name: checked by the differential run, gen/c11.py, exhaustively,
   not in the kernel -- see notes/C11.md) *)
Definition chk_prefix_pair_model (p u : str) (code : N) : bool :=
  status_of (model_resolve (p ++ u)) =? code.

(* a prefixed name that the case-sensitive pass rejects may still be found by
   the case-insensitive pass; [ci_rescued] recognises that *)
Definition ci_rescued (s : str) : bool :=
  match query_unit_cs ev_table cur_table the_tables default_ctx s false with LOk _ => true | _ => false end.


Definition the_index : index := Eval vm_compute in build the_tables.
Definition q_fast := fast_query_unit_internal the_index the_tables default_ctx.
Definition q_ref := query_unit_internal the_tables default_ctx.

Definition chk_row (q : str -> bool -> bool -> bool -> option rawdef) (row : str * list N) : bool :=
  chk_prefix_row_legality q ci_rescued all_names row.

(* 5d. a definition that permits prefixes is the one lookup uses on the name
   side for each of its names (otherwise the permitted prefixed names do not
   exist): its rule is the rule lookup finds *)
Definition allows_prefix (r : prule) : bool :=
  match r with RLongAllowed | RShortAllowed => true | _ => false end.

Definition chk_prefixable_reachable (d : rawdef) : bool :=
  let r := rule_of_def d in
  if allows_prefix r then
    forallb (fun n => match name_side_rule q_ref n with Some r' => prule_eqb r r' | None => false end) (def_names d)
  else true.

(* 6. duplicate names: the implementation's value is that of the first
   definition (chk_first_definition), and the table lookup returns it *)
Definition chk_lookup_first (n : str) : bool :=
  (* custom units absent; C and F (C/F mode) and the currency identifiers are
     answered before the table is scanned *)
  if str_eqb n s_C || str_eqb n s_F then true
  else if match find_currency (t_currencies the_tables) n with Some _ => true | None => false end then true
  else
    match model_def n, first_def (t_defs the_tables) n with
    | Some (s, p, d), Some (s', p', d') =>
      str_eqb s s' && str_eqb p (plural_of s' p') && str_eqb d d'
    | _, _ => false
    end.

(* ------------------------------------------------------------------ *)
(* entries on which the current fend tree is known to violate a C11 clause
   (known_findings.d/C11.json, still open); the theorem holds for every other
   entry, and also for these once they are repaired *)
Fixpoint mem_str (n : str) (l : list str) : bool :=
  match l with [] => false | x :: r => if str_eqb x n then true else mem_str n r end.

(* T = s@tesla is shadowed by T = 1e12; link = l@1/25 rod by link = 1/100 chain *)
Definition known_unreachable : list str := [[84]; [108;105;110;107]].

(* ------------------------------------------------------------------ *)
(* C04 per-entry checks *)

(* every name denotes a non-zero scale (so every conversion is invertible) *)
Definition chk_scale_nonzero (n : str) : bool :=
  match impl_quantity n with
  | Some q => negb (real_is_zero (q_scale q))
  | None => false
  end.

(* 1 name = factor x SI base units, exactly.  A name that the table of the
   tree being checked does not contain (any more) is not an obligation. *)
Definition chk_standard (e : str * real * hmap) : bool :=
  let '(n, f, dims) := e in
  match impl_entry n with
  | None => true
  | Some _ =>
    match impl_quantity n with
    | Some q => hmap_eqb dims (q_dim q) && q_exact q && real_eqb f (q_scale q)
    | None => false
    end
  end.

(* ---- temperatures and other concrete conversions, through the model ---- *)
Definition with_val (x : Q) (v : value) : value := mkval (Simple x) (v_units v) true true.

(* magnitude of  (x A) to B  when the model computes it exactly as a rational *)
Definition conv_q (x : Q) (a b : str) : option Q :=
  match model_resolve a, model_resolve b with
  | LOk va, LOk vb =>
    match v_convert_to (with_val x va) vb with
    | Ok v => if v_exact v then match v_val v with Simple q => Some (Qred q) | Pi _ => None end else None
    | _ => None
    end
  | _, _ => None
  end.

(* magnitude of  (x A) + (y B)  in A *)
Definition add_q (x : Q) (a : str) (y : Q) (b : str) : option Q :=
  match model_resolve a, model_resolve b with
  | LOk va, LOk vb =>
    match v_add (with_val x va) (with_val y vb) with
    | Ok v => if v_exact v then match v_val v with Simple q => Some (Qred q) | Pi _ => None end else None
    | _ => None
    end
  | _, _ => None
  end.

(* magnitude of  (x A/B') to (C/B'): temperatures inside a compound unit *)
Definition conv_per_q (x : Q) (a c per : str) : option Q :=
  match model_resolve a, model_resolve c, model_resolve per with
  | LOk va, LOk vc, LOk vp =>
    match v_div (with_val x va) vp, v_div (with_val 1 vc) vp with
    | Ok n, Ok d =>
      match v_convert_to n d with
      | Ok v => if v_exact v then match v_val v with Simple q => Some (Qred q) | Pi _ => None end else None
      | _ => None
      end
    | _, _ => None
    end
  | _, _, _ => None
  end.

Definition n_degC : str := [176;67].
Definition n_degF : str := [176;70].
Definition n_K : str := [75].
Definition n_degR : str := [176;82].
Definition n_kilocelsius : str := [107;105;108;111;99;101;108;115;105;117;115].
Definition n_J : str := [74].

(* ------------------------------------------------------------------ *)
(* C05 per-entry check: the model's to_hashmap_and_scale of the value of a
   name gives the base-unit map and scale that the tree's own
   to_hashmap_and_scale gave (the reduced record of the dump) *)
Definition chk_reduced_agrees (n : str) : bool :=
  match model_resolve n with
  | LOk v => model_quantity_agrees v (impl_quantity n)
  | LErr EOutOfFuel => true
  | _ => false
  end.

(* a compound expression for the examples: (3 km / 2 s) + 5 mph *)
Definition ex_speed : uexpr :=
  UAdd (UDiv (UMul (UNum (Qmake 3 1)) (UName [107;109])) (UMul (UNum (Qmake 2 1)) (UName [115])))
       (UMul (UNum (Qmake 5 1)) (UName [109;112;104])).
(* 1 km + 1 s *)
Definition ex_bad : uexpr := UAdd (UName [107;109]) (UName [115]).
