(* Units area: the finite obligations of C04 over the generated table (kept apart from
   those of C11 so that a broken C11 obligation does not take C04 with it). *)
From FendV Require Import Base.Prelude Units.Defs Units.Algebra Units.Lookup Units.Index
     Units.Legality Units.LookupProofs Units.Table.
From FendV Require Import Units.Generated.UnitTable.
Open Scope N_scope.
(* ------------------------------------------------------------------ *)
(* C04: finite obligations *)
From FendV Require Import Units.Standards.
From Coq Require Import QArith.
Close Scope Q_scope.
Open Scope N_scope.

Lemma scales_nonzero_b : forallb chk_scale_nonzero all_names = true.
Proof. vm_compute. reflexivity. Qed.

Lemma standards_b : forallb chk_standard standards = true.
Proof. vm_compute. reflexivity. Qed.

Lemma scales_nonzero n : In n all_names ->
  exists q, impl_quantity n = Some q /\ real_is_zero (q_scale q) = false.
Proof.
  intro H. pose proof (proj1 (forallb_forall _ _) scales_nonzero_b _ H) as Hc.
  unfold chk_scale_nonzero in Hc. destruct (impl_quantity n) as [q|]; [|discriminate].
  exists q. split; [reflexivity|]. destruct (real_is_zero (q_scale q)); [discriminate|reflexivity].
Qed.

Lemma standards_hold n f dims r :
  In (n, f, dims) standards -> impl_entry n = Some r ->
  exists q, impl_quantity n = Some q /\ hmap_eqb dims (q_dim q) = true /\ q_exact q = true
            /\ real_eqb f (q_scale q) = true.
Proof.
  intros Hin He.
  pose proof (proj1 (forallb_forall _ _) standards_b _ Hin) as Hc.
  unfold chk_standard in Hc. rewrite He in Hc.
  destruct (impl_quantity n) as [q|]; [|discriminate].
  apply andb_true_iff in Hc. destruct Hc as [Hc H3]. apply andb_true_iff in Hc. destruct Hc as [H1 H2].
  exists q. auto.
Qed.

(* temperatures: affine with `to` on a plain temperature (273.15 = 5463/20) ... *)
Lemma temperature_points :
  conv_q 0 n_degC n_degF = Some (Qmake 32 1) /\
  conv_q (Qmake 32 1) n_degF n_K = Some (Qmake 5463 20) /\
  conv_q 0 n_degC n_K = Some (Qmake 5463 20) /\
  conv_q (Qmake 100 1) n_degC n_degF = Some (Qmake 212 1) /\
  conv_q (Qmake (-40) 1) n_degC n_degF = Some (Qmake (-40) 1) /\
  conv_q 0 n_K n_degC = Some (Qmake (-5463) 20) /\
  conv_q 0 n_K n_degF = Some (Qmake (-45967) 100) /\
  conv_q (Qmake 49167 100) n_degR n_K = Some (Qmake 5463 20) /\
  conv_q 1 n_kilocelsius n_K = Some (Qmake 25463 20).
Proof. vm_compute. repeat split. Qed.

(* ... and by scale only inside sums and compound units *)
Lemma temperature_scale_only :
  add_q 1 n_degC 1 n_K = Some (Qmake 2 1) /\
  add_q (Qmake 10 1) n_degC (Qmake 9 1) n_degF = Some (Qmake 15 1) /\
  add_q (Qmake 10 1) n_K 1 n_degC = Some (Qmake 11 1) /\
  conv_per_q 1 n_J n_J n_degC = Some (Qmake 1 1) /\
  conv_per_q (Qmake 9 1) n_J n_J n_degF = Some (Qmake 9 1).
Proof. vm_compute. repeat split. Qed.

