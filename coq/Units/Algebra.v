(* Units area: model of the unit algebra of core/src/num/unit.rs (Value,
   Unit), unit/unit_exponent.rs (add_to_hashmap), unit/named_unit.rs
   (compare_hashmaps) and the Exact<Real> arithmetic of real.rs it relies on.
   Magnitudes and exponents are real (Simple / Pi patterns over Q).
   [Err EOutOfFuel] marks a computation outside the modelled fragment
   (irrational powers, roots); it is not an error of the code.
   No proofs here. *)
From FendV Require Import Base.Prelude Units.Defs.
From Coq Require Import QArith.
Close Scope Q_scope.
Open Scope N_scope.

(* ------------------------------------------------------------------ *)
(* Exact<Real> arithmetic (real.rs: impl Exact<Real>) *)

Definition er (r : real) (e : bool) : ex real := mkex r e.

Definition real_neg (r : real) : real :=
  match r with Simple q => Simple (Qopp q) | Pi q => Pi (Qopp q) end.

Definition er_neg (a : ex real) : ex real := mkex (real_neg (xv a)) (xe a).

Definition er_mul (a b : ex real) : ex real :=
  if xe a && real_is_zero (xv a) then a
  else if xe b && real_is_zero (xv b) then b
  else
    let ae := xe a && xe b in
    match xv a, xv b with
    | Simple x, Simple y => mkex (Simple (Qmult x y)) ae
    | Simple x, Pi y => mkex (Pi (Qmult x y)) ae
    | Pi x, Simple y => mkex (Pi (Qmult x y)) ae
    | Pi x, Pi y => mkex (Pi (Qmult x (Qmult y pi_q))) false
    end.

Definition er_div (a b : ex real) : res (ex real) :=
  if real_is_zero (xv b) then Err EDivByZero
  else if xe a && real_is_zero (xv a) then Ok a
  else
    let ae := xe a && xe b in
    Ok (match xv a, xv b with
        | Simple x, Simple y => mkex (Simple (Qdiv x y)) ae
        | Simple x, Pi y => mkex (Simple (Qdiv x (Qmult y pi_q))) false
        | Pi x, Simple y => mkex (Pi (Qdiv x y)) ae
        | Pi x, Pi y => mkex (Simple (Qdiv x y)) ae
        end).

Definition er_add (a b : ex real) : ex real :=
  if xe a && real_is_zero (xv a) then b
  else if xe b && real_is_zero (xv b) then a
  else
    let ae := xe a && xe b in
    match xv a, xv b with
    | Simple x, Simple y => mkex (Simple (Qplus x y)) ae
    | Pi x, Pi y => mkex (Pi (Qplus x y)) ae
    | _, _ => mkex (Simple (Qplus (real_approx (xv a)) (real_approx (xv b)))) false
    end.

(* BigRat::pow for an integer exponent (exact); a non-integer exponent needs
   root_n, which is outside the model *)
Definition q_is_int (q : Q) : bool := Pos.eqb (Qden (Qred q)) 1.

Definition q_pow (x y : Q) : res (ex Q) :=
  let y := Qred y in
  if negb (Qeq_bool x 0) && Qle_bool x 0 && negb (q_is_int y) then Err EOther  (* RootsOfNegativeNumbers *)
  else if negb (q_is_int y) then Err EOutOfFuel
  else if (Z.abs (Qnum y) >=? 18446744073709551616)%Z then Err EExpTooLarge
  else if (Qnum y <? 0)%Z then
    if Qeq_bool x 0 then Err EDivByZero
    else Ok (mkex (Qinv (Qpower x (Z.abs (Qnum y)))) true)
  else if Qeq_bool x 0 && (Qnum y =? 0)%Z then Err EZeroPowZero
  else Ok (mkex (Qpower x (Qnum y)) true).

(* Real::pow reached through Complex::pow (integer exponent) or frac_pow
   (non-integer exponent, base not negative).  A negative base with a
   non-integer exponent goes through exp(w ln z) and gives a complex number:
   outside the model. *)
Definition real_is_neg (r : real) : bool :=
  negb (Qeq_bool (real_coef r) 0) && Qle_bool (real_coef r) 0.

Definition real_pow (a b : real) : res (ex real) :=
  match b with
  | Simple y =>
    if negb (q_is_int y) && real_is_neg a then Err EOutOfFuel
    else if Qeq_bool y 1 then Ok (mkex a true)
    (* x^0 == 1 for x != 0 whatever the pattern of x (fend commit d3c0150); 0^0 stays an error *)
    else if Qeq_bool y 0 && negb (real_is_zero a) then Ok (mkex (Simple 1) true)
    else
      match a with
      | Simple x =>
        if Qeq_bool x 1 then Ok (mkex (Simple 1) true)
        else do r <- q_pow x y; Ok (mkex (Simple (xv r)) (xe r))
      | Pi x =>
        (* approximate both, pow, combine(false) *)
        do r <- q_pow (real_approx a) y; Ok (mkex (Simple (xv r)) false)
      end
  | Pi _ =>
    match a with
    | Simple x => if Qeq_bool x 1 then Ok (mkex (Simple 1) true) else Err EOutOfFuel
    | Pi _ => Err EOutOfFuel
    end
  end.

(* ------------------------------------------------------------------ *)
(* hash maps *)

Fixpoint hm_get (h : hmap) (k : str) : option Q :=
  match h with
  | [] => None
  | (k', v) :: r => if str_eqb k' k then Some v else hm_get r k
  end.

Fixpoint hm_remove (h : hmap) (k : str) : hmap :=
  match h with
  | [] => []
  | (k', v) :: r => if str_eqb k' k then hm_remove r k else (k', v) :: hm_remove r k
  end.

(* HashMap::insert: replaces the value of an existing key, else adds *)
Fixpoint hm_insert (h : hmap) (k : str) (v : Q) : hmap :=
  match h with
  | [] => [(k, v)]
  | (k', v') :: r => if str_eqb k' k then (k', v) :: r else (k', v') :: hm_insert r k v
  end.

(* named_unit.rs: compare_hashmaps *)
Definition compare_hashmaps (a b : hmap) : bool :=
  Nat.eqb (length a) (length b) &&
  forallb (fun kv => match hm_get b (fst kv) with
                     | None => false
                     | Some o => Qeq_bool (snd kv) o
                     end) a.

(* unit_exponent.rs: UnitExponent::add_to_hashmap.  The inner loop runs over
   the unit's own base_units map in the order given. *)
Fixpoint add_bases (overall : Q) (bases : hmap) (h : hmap) : hmap :=
  match bases with
  | [] => h
  | (bu, be) :: r =>
    let product := Qmult overall be in
    let h' :=
      match hm_get h bu with
      | Some e =>
        let ne := Qplus e product in
        if Qeq_bool ne 0 then hm_remove h bu else hm_insert h bu ne
      | None =>
        if Qeq_bool product 0 then h else hm_insert h bu product
      end in
    add_bases overall r h'
  end.

(* state: (hashmap, scale, exact) *)
Definition add_to_hashmap (u : uexp) (st : hmap * real * bool) : res (hmap * real * bool) :=
  let '(h, scale, exact) := st in
  let h' := add_bases (ue_exp u) (nu_base (ue_unit u)) h in
  do p <- real_pow (nu_scale (ue_unit u)) (Simple (ue_exp u));
  (* the product itself can be inexact (pi * pi is approximated): its flag is kept
     since fend commit 4dad8b2 *)
  let product := er_mul (mkex scale true) p in
  Ok (h', xv product, exact && xe p && xe product).

Fixpoint to_hashmap_and_scale_go (us : list uexp) (st : hmap * real * bool) : res (hmap * real * bool) :=
  match us with
  | [] => Ok st
  | u :: r => do st' <- add_to_hashmap u st; to_hashmap_and_scale_go r st'
  end.

(* Unit::to_hashmap_and_scale *)
Definition to_hashmap_and_scale (us : list uexp) : res (hmap * ex real) :=
  do st <- to_hashmap_and_scale_go us ([], Simple 1, true);
  let '(h, s, e) := st in Ok (h, mkex s e).

(* Unit::reduce_hashmap: (hashmap, scale adjustment, offset).  The general
   branch iterates over the HashMap in arbitrary order; the model processes
   the list in the order given. *)
Definition q59 : Q := Qmake 5 9.

Definition hm_single_one (h : hmap) (k : str) : bool :=
  match h with
  | [(k', v)] => str_eqb k' k && Qeq_bool v 1
  | _ => false
  end.

(* the renamed key is merged into the result: exponents are added and a
   cancelled exponent is dropped (fend commit 1210896; before it the entry was
   replaced, see Units/OldReduce.v) *)
Definition hm_merge (acc : hmap) (k : str) (e : Q) : hmap :=
  let total := match hm_get acc k with Some x => Qplus x e | None => e end in
  let acc1 := hm_remove acc k in
  if Qeq_bool total 0 then acc1 else hm_insert acc1 k total.

Fixpoint reduce_general (h : hmap) (acc : hmap) (adj : ex real) : res (hmap * ex real) :=
  match h with
  | [] => Ok (acc, adj)
  | (bu, e) :: r =>
    if str_eqb bu s_celsius then reduce_general r (hm_merge acc s_kelvin e) adj
    else if str_eqb bu s_fahrenheit then
      do p <- real_pow (Simple q59) (Simple e);
      (* scale_adjustment.mul(&(5/9).pow(exponent).value): the power's flag is dropped *)
      reduce_general r (hm_merge acc s_kelvin e) (er_mul adj (mkex (xv p) true))
    else reduce_general r (hm_merge acc bu e) adj
  end.

Definition reduce_hashmap (h : hmap) : res (hmap * ex real * ex real) :=
  if hm_single_one h s_celsius then
    Ok ([(s_kelvin, 1%Q)], mkex (Simple 1) true, mkex (Simple (Qmake 27315 100)) true)
  else if hm_single_one h s_fahrenheit then
    Ok ([(s_kelvin, 1%Q)], mkex (Simple q59) true, mkex (Simple (Qmake 45967 180)) true)
  else
    do r <- reduce_general h [] (mkex (Simple 1) true);
    Ok (fst r, snd r, mkex (Simple 0) true).

Record scale_factor := mksf { sf_scale1 : ex real; sf_offset : ex real; sf_scale2 : ex real }.

(* Unit::compute_scale_factor; EIncompatible = FendError::IncompatibleConversion *)
Definition compute_scale_factor (from into : list uexp) : res scale_factor :=
  do a <- to_hashmap_and_scale from;
  do b <- to_hashmap_and_scale into;
  do ra <- reduce_hashmap (fst a);
  do rb <- reduce_hashmap (fst b);
  let '(ha, adj_a, off_a) := ra in
  let '(hb, adj_b, off_b) := rb in
  if compare_hashmaps ha hb then
    Ok (mksf (er_mul (snd a) adj_a) (er_add off_a (er_neg off_b)) (er_mul (snd b) adj_b))
  else Err EIncompatible.

(* ------------------------------------------------------------------ *)
(* Value *)

Definition value_new (v : real) (us : list uexp) : value := mkval v us true true.

Definition v_is_zero (v : value) : bool := real_is_zero (v_val v).

(* Value::add (self + rhs) *)
Definition v_add (a b : value) : res value :=
  if v_is_zero b then
    (* adding a zero keeps the value; an approximate zero makes it approximate (fend commit 198ba44) *)
    Ok (mkval (v_val a) (v_units a) (v_exact a && v_exact b) (v_simp a))
  else
    do sf <- compute_scale_factor (v_units b) (v_units a);
    do scaled <- er_div (er_mul (mkex (v_val b) (v_exact b)) (sf_scale1 sf)) (sf_scale2 sf);
    let sum := er_add (mkex (v_val a) (v_exact a)) scaled in
    Ok (mkval (xv sum) (v_units a) (v_exact a && v_exact b && xe sum) (v_simp a)).

Definition v_neg (a : value) : value := mkval (real_neg (v_val a)) (v_units a) (v_exact a) (v_simp a).

Definition v_sub (a b : value) : res value := v_add a (v_neg b).

(* Value::convert_to; EOther = ConversionRhsNumerical *)
Definition v_convert_to (a b : value) : res value :=
  if negb (real_eqb (v_val b) (Simple 1)) then Err EOther
  else
    do sf <- compute_scale_factor (v_units a) (v_units b);
    do nv <- er_div (er_add (er_mul (mkex (v_val a) (v_exact a)) (sf_scale1 sf)) (sf_offset sf)) (sf_scale2 sf);
    Ok (mkval (xv nv) (v_units b) (v_exact a && v_exact b && xe nv) false).

Definition v_mul (a b : value) : value :=
  let p := er_mul (mkex (v_val a) (v_exact a)) (mkex (v_val b) (v_exact b)) in
  mkval (xv p) (v_units a ++ v_units b) (v_exact a && v_exact b && xe p) (v_simp a).

Definition v_div (a b : value) : res value :=
  do q <- er_div (mkex (v_val a) (v_exact a)) (mkex (v_val b) (v_exact b));
  Ok (mkval (xv q)
            (v_units a ++ map (fun u => mkue (ue_unit u) (Qopp (ue_exp u))) (v_units b))
            (xe q && v_exact a && v_exact b) (v_simp a)).

(* Value::is_unitless *)
Definition v_is_unitless (a : value) : res bool :=
  match v_units a with
  | [] => Ok true
  | _ => do hs <- to_hashmap_and_scale (v_units a);
         Ok (match fst hs with [] => true | _ => false end)
  end.

Definition v_unitless_one : value := mkval (Simple 1) [] true true.

(* Value::into_unitless_complex; EOther = ExpectedAUnitlessNumber *)
Definition v_into_unitless (a : value) : res (ex real) :=
  do c <- v_convert_to a v_unitless_one;
  do u <- v_is_unitless c;
  if u then Ok (mkex (v_val c) (v_exact c)) else Err EOther.

(* Value::pow.  The exponents of the components are multiplied as
   Exact::new(exponent, self.exact) * Exact::new(rhs, rhs_exact). *)
Definition v_pow (a b : value) : res value :=
  do r <- v_into_unitless b;
  match xv r with
  | Pi _ => Err EOutOfFuel
  | Simple e =>
    let step (acc : list uexp * bool) (u : uexp) :=
        let p := er_mul (mkex (Simple (ue_exp u)) (v_exact a)) (mkex (Simple e) (xe r)) in
        (fst acc ++ [mkue (ue_unit u) (real_coef (xv p))], snd acc && xe p) in
    let '(comps, exact_res) := fold_left step (v_units a) ([], true) in
    do v <- real_pow (v_val a) (Simple e);
    Ok (mkval (xv v) comps (v_exact a && xe r && exact_res && xe v) (v_simp a))
  end.

(* Value::create_unit_value_from_value *)
Definition create_unit_value_from_value (v : value) (prefix : str) (alias : bool)
           (sing plur : str) : res value :=
  do hs <- to_hashmap_and_scale (v_units v);
  let scale := er_mul (snd hs) (mkex (v_val v) true) in
  let nu := mknu prefix sing plur alias (fst hs) (xv scale) in
  Ok (mkval (Simple 1) [mkue nu 1%Q] (v_exact v && xe scale) true).

(* Value::new_base_unit *)
Definition new_base_unit (sing plur : str) : value :=
  value_new (Simple 1) [mkue (mknu [] sing plur false [(sing, 1%Q)] (Simple 1)) 1%Q].

(* functions that require a pure number (apply_fn* with require_unitless,
   factorial, modulo, bitwise, combination, permutation): the unit part of
   their behaviour *)
Definition v_require_unitless (a : value) : res (ex real) := v_into_unitless a.

(* ------------------------------------------------------------------ *)
(* the quantity denoted by a value in base units: (map, magnitude); used for
   comparing values up to representation *)
Definition v_quantity (v : value) : res (hmap * ex real) :=
  do hs <- to_hashmap_and_scale (v_units v);
  Ok (fst hs, er_mul (snd hs) (mkex (v_val v) (v_exact v))).
