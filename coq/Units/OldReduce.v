(* Units area: documentation of a repaired defect (fend commit 1210896).
   Before it, Unit::reduce_hashmap renamed celsius / fahrenheit to kelvin with
   HashMap::insert, REPLACING an existing kelvin exponent instead of adding to
   it.  [reduce_hashmap_old] is the model of that code; with it the statement
   "a successful addition has equal dimensions" is false (witness below).  The
   current model (Algebra.reduce_hashmap) merges, and C05 holds at full
   strength. *)
From FendV Require Import Base.Prelude Units.Defs Units.Algebra Units.Lookup Units.Dim Units.DimProofs.
From Coq Require Import QArith.
Close Scope Q_scope.
Open Scope N_scope.

Fixpoint reduce_general_old (h : hmap) (acc : hmap) (adj : ex real) : res (hmap * ex real) :=
  match h with
  | [] => Ok (acc, adj)
  | (bu, e) :: r =>
    if str_eqb bu s_celsius then reduce_general_old r (hm_insert acc s_kelvin e) adj
    else if str_eqb bu s_fahrenheit then
      do p <- real_pow (Simple q59) (Simple e);
      reduce_general_old r (hm_insert acc s_kelvin e) (er_mul adj (mkex (xv p) true))
    else reduce_general_old r (hm_insert acc bu e) adj
  end.

Definition reduce_hashmap_old (h : hmap) : res (hmap * ex real * ex real) :=
  if hm_single_one h s_celsius then
    Ok ([(s_kelvin, 1%Q)], mkex (Simple 1) true, mkex (Simple (Qmake 27315 100)) true)
  else if hm_single_one h s_fahrenheit then
    Ok ([(s_kelvin, 1%Q)], mkex (Simple q59) true, mkex (Simple (Qmake 45967 180)) true)
  else
    do r <- reduce_general_old h [] (mkex (Simple 1) true);
    Ok (fst r, snd r, mkex (Simple 0) true).

Definition compute_scale_factor_old (from into : list uexp) : res scale_factor :=
  do a <- to_hashmap_and_scale from;
  do b <- to_hashmap_and_scale into;
  do ra <- reduce_hashmap_old (fst a);
  do rb <- reduce_hashmap_old (fst b);
  let '(ha, adj_a, off_a) := ra in
  let '(hb, adj_b, off_b) := rb in
  if compare_hashmaps ha hb then
    Ok (mksf (er_mul (snd a) adj_a) (er_add off_a (er_neg off_b)) (er_mul (snd b) adj_b))
  else Err EIncompatible.

Definition v_add_old (a b : value) : res value :=
  if v_is_zero b then Ok a
  else
    do sf <- compute_scale_factor_old (v_units b) (v_units a);
    do scaled <- er_div (er_mul (mkex (v_val b) (v_exact b)) (sf_scale1 sf)) (sf_scale2 sf);
    let sum := er_add (mkex (v_val a) (v_exact a)) scaled in
    Ok (mkval (xv sum) (v_units a) (v_exact a && v_exact b && xe sum) (v_simp a)).

(* (1 celsius kelvin) and (1 kelvin) *)
Definition w_ck : value :=
  mkval (Simple 1) (v_units (new_base_unit s_celsius s_celsius) ++ v_units (new_base_unit s_kelvin s_kelvin)) true true.
Definition w_k : value := new_base_unit s_kelvin s_kelvin.

Local Open Scope Q_scope.

Lemma add_same_dim_old_refuted :
  exists a b v, v_add_old a b = Ok v /\ v_is_zero b = false /\ ~ (forall k, vdim a k == vdim b k).
Proof.
  exists w_ck, w_k. eexists. split; [vm_compute; reflexivity|]. split; [reflexivity|].
  intro H. specialize (H s_kelvin). vm_compute in H. discriminate.
Qed.

(* the repaired code rejects the same sum *)
Lemma witness_now_rejected : v_add w_ck w_k = Err EIncompatible.
Proof. vm_compute. reflexivity. Qed.

Lemma witness_is_mixed : unmixed (v_units w_ck) = false.
Proof. vm_compute. reflexivity. Qed.
