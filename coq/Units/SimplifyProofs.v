(* Units area: Value::simplify preserves the quantity (C04).
   Part 1: the physics dimension is unchanged, for every value.
   Part 2: the magnitude in base units (value x product of scale^exponent) is
   unchanged; proved for the default-unit replacement in general, and for the
   merging phase on values with rational non-zero scales, integer exponents and
   no temperature offsets ("plain" units). *)
From FendV Require Import Base.Prelude Units.Defs Units.Algebra Units.AlgebraProofs Units.Lookup
     Units.Dim Units.DimProofs Units.Simplify.
From Coq Require Import QArith Qreduction Qpower Lia.
Close Scope Q_scope.
Open Scope N_scope.
Local Open Scope Q_scope.

(* ------------------------------------------------------------------ *)
(* Part 1: dimension *)

(* dimension contributed by one named unit *)
Definition nudim (u : named_unit) (k : str) : Q := tdim (bdim (nu_base u)) k.

Lemma pdim_cons c r k : pdim_units (c :: r) k == ue_exp c * nudim (ue_unit c) k + pdim_units r k.
Proof.
  unfold pdim_units, nudim.
  rewrite (tdim_ext (udim (c :: r)) (fun x => ue_exp c * bdim (nu_base (ue_unit c)) x + udim r x)) by (intro; reflexivity).
  rewrite tdim_plus, tdim_scale. reflexivity.
Qed.

Lemma pdim_nil k : pdim_units [] k == 0.
Proof. apply vdim_nil. Qed.

Lemma pdim_app a b k : pdim_units (a ++ b) k == pdim_units a k + pdim_units b k.
Proof.
  unfold pdim_units. rewrite (tdim_ext _ (fun x => udim a x + udim b x)) by (intro; apply udim_app).
  apply tdim_plus.
Qed.

Lemma nudim_no_base u k : has_no_base_units u = true -> nudim u k == 0.
Proof.
  unfold has_no_base_units, nudim. destruct (nu_base u); [|discriminate]. intros _.
  unfold tdim. cbn [bdim]. destruct (str_eqb k s_kelvin); [ring|]. destruct (_ || _)%bool; reflexivity.
Qed.

Lemma er_add_coef a b t :
  real_coef (xv (er_add (mkex (Simple a) t) (mkex (Simple b) t))) == a + b.
Proof.
  unfold er_add. cbn [xe xv].
  destruct (t && real_is_zero (Simple a))%bool eqn:Za.
  - apply andb_true_iff in Za. destruct Za as [_ Za]. unfold real_is_zero in Za. cbn [real_coef xv] in *.
    apply Qeq_bool_eq in Za. rewrite Za. ring.
  - destruct (t && real_is_zero (Simple b))%bool eqn:Zb.
    + apply andb_true_iff in Zb. destruct Zb as [_ Zb]. unfold real_is_zero in Zb. cbn [real_coef xv] in *.
      apply Qeq_bool_eq in Zb. rewrite Zb. ring.
    + cbn [xv real_coef]. ring.
Qed.

(* two units that compute_scale_factor accepts as convertible have the same dimension *)
Lemma convertible_same_nudim u w sf k :
  compute_scale_factor [mkue u 1] [mkue w 1] = Ok sf -> nudim u k == nudim w k.
Proof.
  intro H. pose proof (scale_factor_same_dim _ _ _ H k) as E.
  rewrite !pdim_cons, !pdim_nil in E. cbn [ue_exp ue_unit] in E.
  assert (nudim u k == 1 * nudim u k + 0) as E1 by ring. rewrite E1, E. ring.
Qed.

Lemma try_merge_dim comp m : forall rs rs' m',
  try_merge comp m rs = Ok (Some (rs', m')) ->
  map ue_unit rs' = map ue_unit rs /\
  forall k, pdim_units rs' k == pdim_units rs k + ue_exp comp * nudim (ue_unit comp) k.
Proof.
  induction rs as [|rc rest IH]; intros rs' m' H; cbn [try_merge] in H; [discriminate|].
  assert ((do r <- try_merge comp m rest;
                     Ok (match r with Some (l, m'0) => Some (rc :: l, m'0) | None => None end)) = Ok (Some (rs', m')) ->
                    map ue_unit rs' = map ue_unit (rc :: rest) /\
                    forall k, pdim_units rs' k == pdim_units (rc :: rest) k + ue_exp comp * nudim (ue_unit comp) k) as Hnext.
  { intros Hn. destruct (try_merge comp m rest) as [[[l m0]|]| |] eqn:T; cbn [bind] in Hn; try discriminate.
    inversion Hn; subst. destruct (IH _ _ eq_refl) as [Hu Hd]. split; [cbn [map]; rewrite Hu; reflexivity|].
    intro k. rewrite !pdim_cons, Hd. ring. }
  destruct (has_no_base_units (ue_unit comp) && negb (is_percentage_unit comp && is_percentage_unit rc)
            && negb (nu_compare (ue_unit comp) (ue_unit rc)))%bool; [apply (Hnext H)|].
  destruct (compute_scale_factor [mkue (ue_unit comp) 1] [mkue (ue_unit rc) 1]) as [sf| |] eqn:S;
    [|apply (Hnext H)|discriminate].
  destruct (negb (real_is_zero (xv (sf_offset sf)))); [discriminate|].
  destruct (er_div (sf_scale1 sf) (sf_scale2 sf)) as [scale| |]; cbn [bind] in H; try discriminate.
  destruct (real_pow (xv scale) (Simple (ue_exp comp))) as [p| |]; cbn [bind] in H; try discriminate.
  inversion H; subst. split; [reflexivity|].
  intro k. rewrite !pdim_cons. cbn [ue_exp ue_unit]. rewrite er_add_coef.
  rewrite (convertible_same_nudim _ _ _ k S). ring.
Qed.

Lemma merge_loop_dim : forall comps rs m rs' m',
  merge_loop comps rs m = Ok (rs', m') ->
  (forall u, In u (map ue_unit rs') -> In u (map ue_unit rs) \/ In u (map ue_unit comps)) /\
  forall k, pdim_units rs' k == pdim_units rs k + pdim_units comps k.
Proof.
  induction comps as [|comp more IH]; intros rs m rs' m' H; cbn [merge_loop] in H.
  - inversion H; subst. split; [auto|]. intro k. rewrite pdim_nil. ring.
  - destruct (ue_is_alias comp && negb (is_percentage_unit comp))%bool eqn:A.
    + destruct (real_pow (nu_scale (ue_unit comp)) (Simple (ue_exp comp))) as [p| |]; cbn [bind] in H; try discriminate.
      destruct (IH _ _ _ _ H) as [Hu Hd]. split.
      * intros u Hin. destruct (Hu u Hin); [auto|right; cbn [map In]; auto].
      * intro k. rewrite Hd, pdim_cons. apply andb_true_iff in A. destruct A as [A _].
        unfold ue_is_alias in A. apply andb_true_iff in A. destruct A as [_ A].
        rewrite (nudim_no_base _ k A). ring.
    + destruct (try_merge comp m rs) as [[[rs1 m1]|]| |] eqn:T; cbn [bind] in H; try discriminate.
      * destruct (try_merge_dim _ _ _ _ _ T) as [Hu1 Hd1]. destruct (IH _ _ _ _ H) as [Hu Hd]. split.
        -- intros u Hin. destruct (Hu u Hin) as [X|X]; [left; rewrite <- Hu1; exact X|right; cbn [map In]; auto].
        -- intro k. rewrite Hd, Hd1, pdim_cons. ring.
      * destruct (IH _ _ _ _ H) as [Hu Hd]. split.
        -- intros u Hin. destruct (Hu u Hin) as [X|X]; [|right; cbn [map In]; auto].
           rewrite map_app in X. apply in_app_or in X. destruct X as [X|X]; [auto|].
           right. cbn [map In] in *. destruct X as [X|[]]. auto.
        -- intro k. rewrite Hd, pdim_app, !pdim_cons, pdim_nil. ring.
Qed.

Lemma drop_zero_dim rs k : pdim_units (drop_zero rs) k == pdim_units rs k.
Proof.
  induction rs as [|c r IH]; [reflexivity|]. unfold drop_zero in *. cbn [filter].
  destruct (Qeq_bool (ue_exp c) 0) eqn:Z; cbn [negb].
  - rewrite IH, pdim_cons. apply Qeq_bool_eq in Z. rewrite Z. ring.
  - rewrite !pdim_cons, IH. reflexivity.
Qed.

Lemma drop_zero_units rs u : In u (map ue_unit (drop_zero rs)) -> In u (map ue_unit rs).
Proof.
  unfold drop_zero. intro H. apply in_map_iff in H. destruct H as (c & Hc & Hin).
  apply filter_In in Hin. apply in_map_iff. exists c. tauto.
Qed.

(* a unit called % or percent has no base units (true of the built-in table;
   the code removes such a component whatever it contains) *)
Definition pct_ok (us : list uexp) : Prop :=
  forall c, In (ue_unit c) (map ue_unit us) -> is_percentage_unit c = true -> has_no_base_units (ue_unit c) = true.

Lemma remove_first_percent_spec rs pc others :
  remove_first_percent rs = Some (pc, others) ->
  is_percentage_unit pc = true /\ In (ue_unit pc) (map ue_unit rs) /\
  (forall k, pdim_units rs k == ue_exp pc * nudim (ue_unit pc) k + pdim_units others k).
Proof.
  revert pc others. induction rs as [|c r IH]; intros pc others H; cbn [remove_first_percent] in H; [discriminate|].
  destruct (is_percentage_unit c) eqn:P.
  - inversion H; subst. split; [exact P|]. split; [left; reflexivity|]. intro k. apply pdim_cons.
  - destruct (remove_first_percent r) as [[p r']|]; [|discriminate]. inversion H; subst.
    destruct (IH _ _ eq_refl) as (H1 & H2 & H3). split; [exact H1|]. split; [right; exact H2|].
    intro k. rewrite !pdim_cons, H3. ring.
Qed.

Lemma is_percentage_unit_unit c c' : ue_unit c = ue_unit c' -> is_percentage_unit c = is_percentage_unit c'.
Proof. unfold is_percentage_unit. intro H. rewrite H. reflexivity. Qed.

Lemma percent_step_dim rs m rs' m' :
  percent_step rs m = Ok (rs', m') -> pct_ok rs -> forall k, pdim_units rs' k == pdim_units rs k.
Proof.
  unfold percent_step. intros H Hp k.
  destruct (remove_first_percent rs) as [[pc others]|] eqn:R; [|inversion H; subst; reflexivity].
  destruct (remove_first_percent_spec _ _ _ R) as (P & Hin & Hd).
  assert (nudim (ue_unit pc) k == 0) as Z by (apply nudim_no_base, Hp; assumption).
  assert ((do p0 <- real_pow (nu_scale (ue_unit pc)) (Simple (ue_exp pc)); Ok (others, er_mul m p0)) = Ok (rs', m') ->
                    pdim_units rs' k == pdim_units rs k) as Hrem.
  { intros H1. destruct (real_pow _ _); cbn [bind] in H1; try discriminate. inversion H1; subst.
    rewrite Hd, Z. ring. }
  destruct rs as [|only [|c2 r2]]; try (apply (Hrem H)).
  destruct (is_pos_usize (ue_exp only)); [|apply (Hrem H)].
  destruct (real_pow _ _); cbn [bind] in H; try discriminate. inversion H; subst.
  cbn [remove_first_percent] in R. destruct (is_percentage_unit only) eqn:Po; [|discriminate].
  inversion R; subst. rewrite !pdim_cons, pdim_nil. cbn [ue_exp ue_unit]. rewrite Z. ring.
Qed.

Section Dim.
  Variable resolve : str -> lres value.
  Variable defaults : list (hmap * str).

  Lemma simplify_merge_dim v m :
    simplify_merge v = Ok m -> pct_ok (v_units v) -> forall k, vdim m k == vdim v k.
  Proof.
    unfold simplify_merge. intros H Hp k.
    destruct (merge_loop (v_units v) [] (mkex (v_val v) (v_exact v))) as [[rs1 m1]| |] eqn:M; cbn [bind] in H; try discriminate.
    cbn [fst snd] in H.
    destruct (percent_step (drop_zero rs1) m1) as [[rs2 m2]| |] eqn:P; cbn [bind] in H; try discriminate.
    inversion H; subst. unfold vdim. cbn [v_units fst].
    destruct (merge_loop_dim _ _ _ _ _ M) as [Hu Hd].
    rewrite (percent_step_dim _ _ _ _ P).
    - rewrite drop_zero_dim, Hd, pdim_nil. ring.
    - intros c Hin Hc. apply Hp; [|exact Hc]. apply drop_zero_units in Hin.
      destruct (Hu _ Hin) as [[]|X]. exact X.
  Qed.

  (* Value::simplify never changes the physics dimension *)
  Theorem simplify_preserves_dimension v r :
    simplify resolve defaults v = Ok r -> pct_ok (v_units v) -> forall k, vdim r k == vdim v k.
  Proof.
    unfold simplify. intros H Hp k. destruct (negb (v_simp v)); [inversion H; subst; reflexivity|].
    destruct (simplify_merge v) as [m| |] eqn:M; cbn [bind] in H; try discriminate.
    destruct (default_target resolve defaults m) as [[rhs|]| |]; cbn [bind] in H; try discriminate.
    - destruct (convert_needs_same_dim _ _ _ H) as [Eu E].
      unfold vdim at 1. rewrite Eu. fold (vdim rhs). rewrite <- (E k). apply (simplify_merge_dim _ _ M Hp).
    - inversion H; subst. apply (simplify_merge_dim _ _ M Hp).
  Qed.
End Dim.

(* ------------------------------------------------------------------ *)
(* Part 2: magnitude *)

(* 2a. the replacement by the default unit: value x scale is unchanged (any
   value, any default unit; pi as a formal symbol p) *)
Theorem default_step_preserves_quantity p m rhs r sf :
  compute_scale_factor (v_units m) (v_units rhs) = Ok sf ->
  v_convert_to m rhs = Ok r -> v_exact r = true ->
  sem p (xv (sf_offset sf)) == 0 ->
  sem p (v_val r) * sem p (xv (sf_scale2 sf)) == sem p (v_val m) * sem p (xv (sf_scale1 sf)).
Proof.
  intros Hsf C E O. pose proof (convert_formula p _ _ _ _ Hsf C E) as F. rewrite O in F.
  rewrite Qmult_comm, F. ring.
Qed.

(* 2b. the merging phase, on "plain" values *)

Definition qpw (s e : Q) : Q := Qpower s (Qnum (Qred e)).

(* product of scale^exponent over the components *)
Fixpoint uq (us : list uexp) : Q :=
  match us with
  | [] => 1
  | c :: r => qpw (real_coef (nu_scale (ue_unit c))) (ue_exp c) * uq r
  end.

(* a unit with a non-zero rational scale whose own conversion leg is that scale,
   exactly, without offset (every unit of the table except the temperature
   scales, the multiples of pi and the inexact ones) *)
Definition plain_unit (u : named_unit) : Prop :=
  exists s, nu_scale u = Simple s /\ ~ s == 0 /\
  exists h z, leg_of [mkue u 1] = Ok (h, mkleg (mkex (Simple z) true) (mkex (Simple 0) true)) /\ z == s.

Definition plain_comp (c : uexp) : Prop := plain_unit (ue_unit c) /\ q_is_int (ue_exp c) = true.

(* integers *)
Lemma Qred_inject n : Qred (inject_Z n) = inject_Z n.
Proof.
  unfold Qred, inject_Z.
  generalize (Z.ggcd_gcd n 1) (Z.ggcd_correct_divisors n 1).
  destruct (Z.ggcd n 1) as (g, (a, b)). cbn [fst snd]. intros Hg [Ha Hb].
  rewrite Z.gcd_1_r in Hg. subst g. rewrite Z.mul_1_l in Ha, Hb. subst. reflexivity.
Qed.

Lemma is_int_spec e : q_is_int e = true -> e == inject_Z (Qnum (Qred e)).
Proof.
  unfold q_is_int. intro H. apply Pos.eqb_eq in H. rewrite <- (Qred_correct e) at 1.
  destruct (Qred e) as [n d]. cbn [Qden Qnum] in *. subst d. reflexivity.
Qed.

Lemma int_of_eq e n : e == inject_Z n -> q_is_int e = true /\ Qnum (Qred e) = n.
Proof.
  intro H. apply Qred_complete in H. rewrite Qred_inject in H. unfold q_is_int. rewrite H. split; reflexivity.
Qed.

Lemma int_sum a b z : q_is_int a = true -> q_is_int b = true -> z == a + b ->
  q_is_int z = true /\ Qnum (Qred z) = (Qnum (Qred a) + Qnum (Qred b))%Z.
Proof.
  intros Ha Hb Hz. apply int_of_eq. rewrite Hz, (is_int_spec a Ha) at 1. rewrite (is_int_spec b Hb) at 1.
  unfold inject_Z, Qeq, Qplus. cbn. ring.
Qed.

Lemma qpw_ext s e e' : e == e' -> qpw s e = qpw s e'.
Proof. intro H. unfold qpw. rewrite (Qred_complete _ _ H). reflexivity. Qed.

(* forward arithmetic on exact rationals *)
Lemma er_mul_plain x y : exists z, er_mul (mkex (Simple x) true) (mkex (Simple y) true) = mkex (Simple z) true /\ z == x * y.
Proof.
  unfold er_mul. cbn [xe xv andb].
  destruct (real_is_zero (Simple x)) eqn:Zx.
  - exists x. split; [reflexivity|]. unfold real_is_zero in Zx. cbn in Zx. apply Qeq_bool_eq in Zx. rewrite Zx. ring.
  - destruct (real_is_zero (Simple y)) eqn:Zy.
    + exists y. split; [reflexivity|]. unfold real_is_zero in Zy. cbn in Zy. apply Qeq_bool_eq in Zy. rewrite Zy. ring.
    + eexists. split; reflexivity.
Qed.

Lemma er_div_plain x y : ~ y == 0 ->
  exists z, er_div (mkex (Simple x) true) (mkex (Simple y) true) = Ok (mkex (Simple z) true) /\ z == x / y.
Proof.
  intro Hy. unfold er_div. cbn [xe xv andb].
  assert (real_is_zero (Simple y) = false) as Zy.
  { unfold real_is_zero. cbn. destruct (Qeq_bool y 0) eqn:E; [|reflexivity]. apply Qeq_bool_eq in E. contradiction. }
  rewrite Zy. destruct (real_is_zero (Simple x)) eqn:Zx.
  - exists x. split; [reflexivity|]. unfold real_is_zero in Zx. cbn in Zx. apply Qeq_bool_eq in Zx. rewrite Zx. field. exact Hy.
  - eexists. split; reflexivity.
Qed.

Lemma er_add_plain x y : exists z, er_add (mkex (Simple x) true) (mkex (Simple y) true) = mkex (Simple z) true /\ z == x + y.
Proof.
  unfold er_add. cbn [xe xv andb].
  destruct (real_is_zero (Simple x)) eqn:Zx.
  - exists y. split; [reflexivity|]. unfold real_is_zero in Zx. cbn in Zx. apply Qeq_bool_eq in Zx. rewrite Zx. ring.
  - destruct (real_is_zero (Simple y)) eqn:Zy.
    + exists x. split; [reflexivity|]. unfold real_is_zero in Zy. cbn in Zy. apply Qeq_bool_eq in Zy. rewrite Zy. ring.
    + eexists. split; reflexivity.
Qed.

Lemma Qeq_bool_false x y : ~ x == y -> Qeq_bool x y = false.
Proof. intro H. destruct (Qeq_bool x y) eqn:E; [|reflexivity]. apply Qeq_bool_eq in E. contradiction. Qed.

(* powers of a non-zero rational with an integer exponent are exact *)
Lemma real_pow_plain s e p :
  ~ s == 0 -> q_is_int e = true -> real_pow (Simple s) (Simple e) = Ok p ->
  exists z, p = mkex (Simple z) true /\ z == qpw s e /\ ~ z == 0.
Proof.
  intros Hs He H. unfold real_pow in H. rewrite He in H. cbn [negb andb] in H.
  destruct (Qeq_bool e 1) eqn:E1.
  { inversion H; subst. exists s. split; [reflexivity|]. split; [|exact Hs].
    apply Qeq_bool_eq in E1. rewrite (qpw_ext s e 1 E1). unfold qpw. cbn. ring. }
  assert (real_is_zero (Simple s) = false) as Zs by (unfold real_is_zero; cbn; apply Qeq_bool_false; exact Hs).
  rewrite Zs in H. cbn [negb] in H. rewrite andb_true_r in H.
  destruct (Qeq_bool e 0) eqn:E0.
  { inversion H; subst. exists 1. split; [reflexivity|]. split; [|discriminate].
    apply Qeq_bool_eq in E0. rewrite (qpw_ext s e 0 E0). unfold qpw. cbn. reflexivity. }
  destruct (Qeq_bool s 1) eqn:S1.
  { inversion H; subst. exists 1. split; [reflexivity|]. split; [|discriminate].
    apply Qeq_bool_eq in S1. unfold qpw. rewrite S1, Qpower_1. reflexivity. }
  unfold q_pow in H.
  assert (q_is_int (Qred e) = true) as He2.
  { unfold q_is_int in *. rewrite (Qred_complete _ _ (Qred_correct e)). exact He. }
  rewrite He2 in H. cbn [negb andb] in H. rewrite andb_false_r in H. cbn [bind] in H.
  destruct (Z.abs (Qnum (Qred e)) >=? 18446744073709551616)%Z; [discriminate|].
  rewrite (Qeq_bool_false s 0 Hs) in H. cbn [andb] in H.
  destruct (Qnum (Qred e) <? 0)%Z eqn:Neg; cbn [bind] in H; inversion H; subst; cbn [xv xe].
  - eexists. split; [reflexivity|]. unfold qpw. apply Z.ltb_lt in Neg. split.
    + rewrite <- Qpower_opp. rewrite (Z.abs_neq _ (Z.lt_le_incl _ _ Neg)), Z.opp_involutive. reflexivity.
    + rewrite <- Qpower_opp. apply Qpower_not_0. exact Hs.
  - eexists. split; [reflexivity|]. split; [reflexivity|apply Qpower_not_0; exact Hs].
Qed.

Lemma plain_scale u s : plain_unit u -> nu_scale u = Simple s -> ~ s == 0.
Proof. intros (s' & Hs & Hn & _) H. rewrite H in Hs. inversion Hs; subst. exact Hn. Qed.

(* the scale factor between two plain units: the two scales, no offset *)
Lemma csf_plain u w sf :
  compute_scale_factor [mkue u 1] [mkue w 1] = Ok sf -> plain_unit u -> plain_unit w ->
  exists zu zw, sf_scale1 sf = mkex (Simple zu) true /\ zu == real_coef (nu_scale u) /\
                sf_scale2 sf = mkex (Simple zw) true /\ zw == real_coef (nu_scale w) /\
                real_is_zero (xv (sf_offset sf)) = true.
Proof.
  intros H (su & Hsu & _ & hu & zu & Lu & Zu) (sw & Hsw & _ & hw & zw & Lw & Zw).
  destruct (compute_scale_factor_legs _ _ _ H) as (ha & la & hb & lb & L1 & L2 & _ & S & _ & _).
  rewrite Lu in L1. inversion L1; subst ha la. rewrite Lw in L2. inversion L2; subst hb lb.
  subst sf. cbn [sf_scale1 sf_scale2 sf_offset lg_scale lg_off].
  exists zu, zw. rewrite Hsu, Hsw. cbn [real_coef]. repeat split; auto.
Qed.

Lemma uq_app a b : uq (a ++ b) == uq a * uq b.
Proof. induction a as [|c a IH]; cbn [app uq]; [ring|rewrite IH; ring]. Qed.

Definition plain_mag (m : mag) (y : Q) : Prop := m = mkex (Simple y) true.

Lemma try_merge_q comp y : forall rs rs' m',
  try_merge comp (mkex (Simple y) true) rs = Ok (Some (rs', m')) ->
  plain_comp comp -> Forall plain_comp rs ->
  exists y', m' = mkex (Simple y') true /\ Forall plain_comp rs' /\
             y' * uq rs' == y * uq rs * qpw (real_coef (nu_scale (ue_unit comp))) (ue_exp comp).
Proof.
  induction rs as [|rc rest IH]; intros rs' m' H Pc Pr; cbn [try_merge] in H; [discriminate|].
  inversion Pr as [|? ? Prc Prest]; subst.
  assert ((do r <- try_merge comp (mkex (Simple y) true) rest;
           Ok (match r with Some (l, m'0) => Some (rc :: l, m'0) | None => None end)) = Ok (Some (rs', m')) ->
          exists y', m' = mkex (Simple y') true /\ Forall plain_comp rs' /\
                     y' * uq rs' == y * uq (rc :: rest) * qpw (real_coef (nu_scale (ue_unit comp))) (ue_exp comp)) as Hnext.
  { intro Hn. destruct (try_merge comp (mkex (Simple y) true) rest) as [[[l m0]|]| |] eqn:T; cbn [bind] in Hn; try discriminate.
    inversion Hn; subst. destruct (IH _ _ eq_refl Pc Prest) as (y' & Hm & Pl & Hq).
    exists y'. split; [exact Hm|]. split; [constructor; assumption|]. cbn [uq].
    setoid_replace (y' * (qpw (real_coef (nu_scale (ue_unit rc))) (ue_exp rc) * uq l))
      with (qpw (real_coef (nu_scale (ue_unit rc))) (ue_exp rc) * (y' * uq l)) by ring.
    rewrite Hq. ring. }
  destruct (has_no_base_units (ue_unit comp) && negb (is_percentage_unit comp && is_percentage_unit rc)
            && negb (nu_compare (ue_unit comp) (ue_unit rc)))%bool; [apply (Hnext H)|].
  destruct (compute_scale_factor [mkue (ue_unit comp) 1] [mkue (ue_unit rc) 1]) as [sf| |] eqn:S;
    [|apply (Hnext H)|discriminate].
  destruct Pc as [Pcu Pce]. destruct Prc as [Pru Pre].
  destruct (csf_plain _ _ _ S Pcu Pru) as (zu & zw & S1 & Zu & S2 & Zw & Off).
  rewrite Off in H. cbn [negb] in H. rewrite S1, S2 in H.
  destruct Pcu as (su & Hsu & Nsu & Lu). destruct Pru as (sw & Hsw & Nsw & Lw).
  rewrite Hsu in Zu. rewrite Hsw in Zw. cbn [real_coef] in Zu, Zw.
  assert (~ zw == 0) as Nzw by (rewrite Zw; exact Nsw).
  destruct (er_div_plain zu zw Nzw) as (q & Hq & Eq). rewrite Hq in H. cbn [bind xv xe] in H.
  destruct (er_add_plain (ue_exp rc) (ue_exp comp)) as (g & Hg & Eg). cbn [xe] in H. rewrite Hg in H. cbn [xe xv andb] in H.
  assert (~ q == 0) as Nq.
  { rewrite Eq, Zu, Zw. intro E. apply Nsu. rewrite <- (Qmult_div_r su sw Nsw), Qmult_comm.
    setoid_replace (su / sw * sw) with (sw * (su / sw)) by ring. rewrite Qmult_div_r by exact Nsw.
    assert (su == su / sw * sw) as X by (field; exact Nsw). rewrite X, E. ring. }
  destruct (real_pow (Simple q) (Simple (ue_exp comp))) as [p| |] eqn:P; cbn [bind] in H; try discriminate.
  destruct (real_pow_plain _ _ _ Nq Pce P) as (pz & Hp & Epz & _). subst p.
  destruct (er_mul_plain y pz) as (y' & Hy & Ey). rewrite Hy in H. cbn [xv xe andb] in H.
  inversion H; subst. exists y'. split; [reflexivity|].
  destruct (int_sum _ _ g Pre Pce Eg) as [Ig Ng].
  split.
  - constructor; [|exact Prest]. split; [exists sw; auto|]. cbn [ue_exp real_coef]. exact Ig.
  - cbn [uq ue_unit ue_exp real_coef]. rewrite Hsw, Hsu. cbn [real_coef].
    unfold qpw at 1. rewrite Ng. rewrite (Qpower_plus sw _ _ Nsw).
    rewrite Ey, Epz. unfold qpw.
    set (ze := Qnum (Qred (ue_exp comp))). set (zf := Qnum (Qred (ue_exp rc))).
    assert (q ^ ze * sw ^ ze == su ^ ze) as Hk.
    { rewrite <- Qmult_power. assert (q * sw == su) as X by (rewrite Eq, Zu, Zw; field; exact Nsw).
      rewrite X. reflexivity. }
    rewrite <- Hk. ring.
Qed.

Lemma merge_loop_q : forall comps rs y rs' m',
  merge_loop comps rs (mkex (Simple y) true) = Ok (rs', m') ->
  Forall plain_comp comps -> Forall plain_comp rs ->
  exists y', m' = mkex (Simple y') true /\ Forall plain_comp rs' /\ y' * uq rs' == y * uq rs * uq comps.
Proof.
  induction comps as [|comp more IH]; intros rs y rs' m' H Pc Pr; cbn [merge_loop] in H.
  - inversion H; subst. exists y. split; [reflexivity|]. split; [exact Pr|]. cbn [uq]. ring.
  - inversion Pc as [|? ? Pcomp Pmore]; subst.
    destruct (ue_is_alias comp && negb (is_percentage_unit comp))%bool.
    + destruct Pcomp as [(s & Hs & Ns & L) Pe]. rewrite Hs in H.
      destruct (real_pow (Simple s) (Simple (ue_exp comp))) as [p| |] eqn:P; cbn [bind] in H; try discriminate.
      destruct (real_pow_plain _ _ _ Ns Pe P) as (pz & Hp & Epz & _). subst p.
      destruct (er_mul_plain y pz) as (y1 & Hy & Ey). rewrite Hy in H.
      destruct (IH _ _ _ _ H Pmore Pr) as (y' & Hm & Pl & Hq).
      exists y'. split; [exact Hm|]. split; [exact Pl|]. rewrite Hq, Ey, Epz. cbn [uq]. rewrite Hs. cbn [real_coef]. ring.
    + destruct (try_merge comp (mkex (Simple y) true) rs) as [[[rs1 m1]|]| |] eqn:T; cbn [bind] in H; try discriminate.
      * destruct (try_merge_q _ _ _ _ _ T Pcomp Pr) as (y1 & Hm1 & P1 & Hq1). subst m1.
        destruct (IH _ _ _ _ H Pmore P1) as (y' & Hm & Pl & Hq).
        exists y'. split; [exact Hm|]. split; [exact Pl|]. rewrite Hq, Hq1. cbn [uq]. ring.
      * assert (Forall plain_comp (rs ++ [comp])) as P1 by (apply Forall_app; split; [exact Pr|constructor; [exact Pcomp|constructor]]).
        destruct (IH _ _ _ _ H Pmore P1) as (y' & Hm & Pl & Hq).
        exists y'. split; [exact Hm|]. split; [exact Pl|]. rewrite Hq, uq_app. cbn [uq]. ring.
Qed.

Lemma drop_zero_q rs : Forall plain_comp rs -> Forall plain_comp (drop_zero rs) /\ uq (drop_zero rs) == uq rs.
Proof.
  induction rs as [|c r IH]; intro P; [split; [constructor|reflexivity]|].
  inversion P as [|? ? Pc Pr]; subst. destruct (IH Pr) as [P1 Q1]. unfold drop_zero in *. cbn [filter].
  destruct (Qeq_bool (ue_exp c) 0) eqn:Z; cbn [negb].
  - split; [exact P1|]. cbn [uq]. rewrite Q1. apply Qeq_bool_eq in Z.
    rewrite (qpw_ext _ _ 0 Z). unfold qpw. cbn. ring.
  - split; [constructor; assumption|]. cbn [uq]. rewrite Q1. reflexivity.
Qed.

Lemma remove_first_percent_q rs pc others :
  remove_first_percent rs = Some (pc, others) -> Forall plain_comp rs ->
  plain_comp pc /\ Forall plain_comp others /\
  uq rs == qpw (real_coef (nu_scale (ue_unit pc))) (ue_exp pc) * uq others.
Proof.
  revert pc others. induction rs as [|c r IH]; intros pc others H P; cbn [remove_first_percent] in H; [discriminate|].
  inversion P as [|? ? Pc Pr]; subst.
  destruct (is_percentage_unit c).
  - inversion H; subst. split; [exact Pc|]. split; [exact Pr|]. reflexivity.
  - destruct (remove_first_percent r) as [[p r']|]; [|discriminate]. inversion H; subst.
    destruct (IH _ _ eq_refl Pr) as (H1 & H2 & H3). split; [exact H1|]. split; [constructor; assumption|].
    cbn [uq]. rewrite H3. ring.
Qed.

Lemma percent_step_q rs y rs' m' :
  percent_step rs (mkex (Simple y) true) = Ok (rs', m') -> Forall plain_comp rs ->
  exists y', m' = mkex (Simple y') true /\ Forall plain_comp rs' /\ y' * uq rs' == y * uq rs.
Proof.
  unfold percent_step. intros H P.
  destruct (remove_first_percent rs) as [[pc others]|] eqn:R.
  2:{ inversion H; subst. exists y. split; [reflexivity|]. split; [exact P|reflexivity]. }
  destruct (remove_first_percent_q _ _ _ R P) as ([(s & Hs & Ns & L) Pe] & Po & Hq).
  assert ((do p0 <- real_pow (nu_scale (ue_unit pc)) (Simple (ue_exp pc)); Ok (others, er_mul (mkex (Simple y) true) p0)) = Ok (rs', m') ->
          exists y', m' = mkex (Simple y') true /\ Forall plain_comp rs' /\ y' * uq rs' == y * uq rs) as Hrem.
  { intro H1. rewrite Hs in H1.
    destruct (real_pow (Simple s) (Simple (ue_exp pc))) as [p| |] eqn:Pw; cbn [bind] in H1; try discriminate.
    destruct (real_pow_plain _ _ _ Ns Pe Pw) as (pz & Hp & Epz & _). subst p.
    destruct (er_mul_plain y pz) as (y1 & Hy & Ey). rewrite Hy in H1. inversion H1; subst.
    exists y1. split; [reflexivity|]. split; [exact Po|]. rewrite Hq, Ey, Epz, Hs. cbn [real_coef]. ring. }
  destruct rs as [|only [|c2 r2]]; try (apply (Hrem H)).
  destruct (is_pos_usize (ue_exp only)); [|apply (Hrem H)].
  cbn [remove_first_percent] in R. destruct (is_percentage_unit only); [|discriminate]. inversion R; subst pc others.
  rewrite Hs in H.
  destruct (er_add_plain (ue_exp only) (- (1))) as (g & Hg & Eg). rewrite Hg in H. cbn [xv real_coef] in H.
  assert (q_is_int (- (1)) = true) as I1 by reflexivity.
  destruct (int_sum _ _ g Pe I1 Eg) as [Ig Ng].
  destruct (real_pow (Simple s) (Simple g)) as [p| |] eqn:Pw; cbn [bind] in H; try discriminate.
  destruct (real_pow_plain _ _ _ Ns Ig Pw) as (pz & Hp & Epz & _). subst p.
  destruct (er_mul_plain y pz) as (y1 & Hy & Ey). rewrite Hy in H. inversion H; subst.
  exists y1. split; [reflexivity|]. split.
  - constructor; [|constructor]. split; [exists s; auto|reflexivity].
  - cbn [uq ue_unit ue_exp]. rewrite Hs. cbn [real_coef]. rewrite Ey, Epz. unfold qpw. rewrite Ng.
    change (Qnum (Qred (- (1)))) with (-1)%Z. change (Qnum (Qred 1)) with 1%Z.
    set (ze := Qnum (Qred (ue_exp only))).
    assert (s ^ ze == s ^ (ze + -1) * s ^ 1) as X.
    { rewrite <- Qpower_plus by exact Ns. replace (ze + -1 + 1)%Z with ze by lia. reflexivity. }
    rewrite X. ring.
Qed.

(* the merging phase keeps value x product of scale^exponent *)
Theorem simplify_merge_preserves_quantity v m x :
  simplify_merge v = Ok m -> v_val v = Simple x -> v_exact v = true -> Forall plain_comp (v_units v) ->
  exists y, v_val m = Simple y /\ v_exact m = true /\ Forall plain_comp (v_units m) /\
            y * uq (v_units m) == x * uq (v_units v).
Proof.
  unfold simplify_merge. intros H Hx He P. rewrite Hx, He in H.
  destruct (merge_loop (v_units v) [] (mkex (Simple x) true)) as [[rs1 m1]| |] eqn:M; cbn [bind] in H; try discriminate.
  destruct (merge_loop_q _ _ _ _ _ M P (Forall_nil _)) as (y1 & Hm1 & P1 & Q1). subst m1. cbn [fst snd] in H.
  destruct (drop_zero_q rs1 P1) as [P2 Q2].
  destruct (percent_step (drop_zero rs1) (mkex (Simple y1) true)) as [[rs2 m2]| |] eqn:S; cbn [bind] in H; try discriminate.
  destruct (percent_step_q _ _ _ _ S P2) as (y2 & Hm2 & P3 & Q3). subst m2.
  inversion H; subst. cbn [v_val v_exact v_units fst snd xv xe].
  exists y2. repeat split; auto. rewrite Q3, Q2, Q1. cbn [uq]. ring.
Qed.

(* the whole of simplify, as the two phases *)
Theorem simplify_phases resolve defaults v r :
  simplify resolve defaults v = Ok r -> v_simp v = true ->
  exists m, simplify_merge v = Ok m /\
            (r = m \/ exists rhs, default_target resolve defaults m = Ok (Some rhs) /\ v_convert_to m rhs = Ok r).
Proof.
  unfold simplify. intros H S. rewrite S in H. cbn [negb] in H.
  destruct (simplify_merge v) as [m| |]; cbn [bind] in H; try discriminate.
  exists m. split; [reflexivity|].
  destruct (default_target resolve defaults m) as [[rhs|]| |]; cbn [bind] in H; try discriminate.
  - right. exists rhs. auto.
  - left. inversion H; reflexivity.
Qed.

(* value x scale is unchanged by the whole of simplify, on plain exact values:
   the merging phase by [simplify_merge_preserves_quantity], the replacement by
   the default unit by [default_step_preserves_quantity] *)
Theorem simplify_preserves_quantity resolve defaults v r x :
  simplify resolve defaults v = Ok r -> v_simp v = true ->
  v_val v = Simple x -> v_exact v = true -> Forall plain_comp (v_units v) ->
  exists m y, simplify_merge v = Ok m /\ v_val m = Simple y /\ y * uq (v_units m) == x * uq (v_units v) /\
    (r = m \/
     exists rhs sf, default_target resolve defaults m = Ok (Some rhs) /\
       compute_scale_factor (v_units m) (v_units rhs) = Ok sf /\ v_units r = v_units rhs /\
       (v_exact r = true -> forall p, sem p (xv (sf_offset sf)) == 0 ->
        sem p (v_val r) * sem p (xv (sf_scale2 sf)) == y * sem p (xv (sf_scale1 sf)))).
Proof.
  intros H S Hx He P.
  destruct (simplify_phases _ _ _ _ H S) as (m & Hm & Hr).
  destruct (simplify_merge_preserves_quantity _ _ _ Hm Hx He P) as (y & Hy & _ & _ & Hq).
  exists m, y. repeat split; auto.
  destruct Hr as [Hr|(rhs & Ht & Hc)]; [left; exact Hr|right].
  assert (exists sf, compute_scale_factor (v_units m) (v_units rhs) = Ok sf) as [sf Hsf].
  { unfold v_convert_to in Hc. destruct (negb _); [discriminate|].
    destruct (compute_scale_factor (v_units m) (v_units rhs)) as [sf| |]; cbn [bind] in Hc; try discriminate. eauto. }
  exists rhs, sf. repeat split; auto.
  - destruct (convert_needs_same_dim _ _ _ Hc) as [Eu _]. exact Eu.
  - intros Er p O. pose proof (default_step_preserves_quantity p _ _ _ _ Hsf Hc Er O) as F.
    rewrite Hy in F. cbn [sem] in F. exact F.
Qed.

(* a plain unit exists: the metre *)
Definition u_metre : named_unit := mknu [] [109%N] [109%N] false [([109;101;116;101;114]%N, 1)] (Simple 1).
Lemma plain_metre : plain_comp (mkue u_metre 1).
Proof.
  split; [|reflexivity]. exists 1. split; [reflexivity|]. split; [discriminate|].
  do 2 eexists. split; [vm_compute; reflexivity|reflexivity].
Qed.
