(* Model of core/src/num/biguint.rs (the arithmetic part used by C01).
   Executable Gallina only; proofs are in BigUintProofs.v.

   Representation exactly as in the Rust:
     enum BigUint { Small(u64), Large(Vec<u64>) }   (little-endian limbs)
   Non-canonical values (leading zero limbs, Large of length 1, Small next
   to Large) are first-class: the code produces them and branches on them.

   Conventions: indices and lengths are [nat]; limbs and machine integers
   are [N]; W = 2^64.  u128 intermediates are plain [N] with [/ W], [mod W].
   x << 1 on u64 is [(2*x) mod W], x >> 63 is [x / 2^63], x & (1<<63) != 0 is
   [2^63 <=? x] (for x < W), x | b is [N.lor].  [test_int] never interrupts.
   [oc] = the build has overflow checks (debug profile); it matters at one
   site only, the u64 subtraction in [sub]. *)
From FendV Require Import Base.Prelude.
Open Scope N_scope.

Definition W : N := 18446744073709551616.      (* 2^64 *)
Definition HALF : N := 9223372036854775808.    (* 2^63 *)
Definition QUARTER : N := 4611686018427387904. (* 2^62 *)

Inductive biguint := Small (n : N) | Large (v : list N).

(* panic sites *)
Definition P_sub_overflow : N := 101.      (* biguint.rs:463  a - b on u64, overflow check *)
Definition P_sub_unreachable : N := 102.   (* biguint.rs:467  unreachable!("number would be less than 0") *)
Definition P_sub_assert : N := 103.        (* biguint.rs:493  assert_eq!(carry, 0) *)
Definition P_lshift_empty : N := 104.      (* biguint.rs:289  value[value.len() - 1] on an empty Vec *)

Definition from_u64 (n : N) : biguint := Small n.

Definition is_zero (a : biguint) : bool :=
  match a with
  | Small n => n =? 0
  | Large v => forallb (fun x => x =? 0) v
  end.

Definition get (a : biguint) (idx : nat) : N :=
  match a with
  | Small n => match idx with O => n | S _ => 0 end
  | Large v => nth idx v 0
  end.

Definition value_len (a : biguint) : nat :=
  match a with Small _ => 1%nat | Large v => length v end.

Definition make_large (a : biguint) : biguint :=
  match a with Small n => Large [n] | Large v => Large v end.

(* Vec: while idx >= len push 0; value[idx] = x *)
Fixpoint set_list (l : list N) (idx : nat) (x : N) : list N :=
  match idx, l with
  | O, [] => [x]
  | O, _ :: r => x :: r
  | S k, [] => 0 :: set_list [] k x
  | S k, y :: r => y :: set_list r k x
  end.

Definition set (a : biguint) (idx : nat) (x : N) : biguint :=
  match a with
  | Small n =>
    match idx with
    | O => Small x
    | S _ => if x =? 0 then Small n else Large (set_list [n] idx x)
    end
  | Large v => Large (set_list v idx x)
  end.

(* value_push existed until commit fcf264e (used by the old
   add_assign_internal); kept for add_assign_internal_old *)
Definition value_push (a : biguint) (x : N) : biguint :=
  if x =? 0 then a
  else match make_large a with
       | Large v => Large (v ++ [x])
       | Small n => Small n   (* unreachable!() after make_large *)
       end.

(* significant_len (since commit 2c2d128): limbs excluding leading zero
   limbs, at least 1; rposition(|limb| *limb != 0).map_or(1, |idx| idx + 1) *)
Fixpoint last_nz (v : list N) : option nat :=
  match v with
  | [] => None
  | x :: r =>
    match last_nz r with
    | Some i => Some (S i)
    | None => if x =? 0 then None else Some O
    end
  end.

Definition significant_len (a : biguint) : nat :=
  match a with
  | Small _ => 1%nat
  | Large v => match last_nz v with Some i => S i | None => 1%nat end
  end.

(* impl Ord: cmp *)
Fixpoint cmp_loop (i : nat) (a b : biguint) : comparison :=
  match i with
  | O => Eq
  | S k =>
    match N.compare (get a k) (get b k) with
    | Lt => Lt
    | Gt => Gt
    | Eq => cmp_loop k a b
    end
  end.

Definition cmp (a b : biguint) : comparison :=
  match a, b with
  | Small x, Small y => N.compare x y
  | _, _ => cmp_loop (Nat.max (value_len a) (value_len b)) a b
  end.

Definition is_lt (a b : biguint) : bool := match cmp a b with Lt => true | _ => false end.
Definition is_eq (a b : biguint) : bool := match cmp a b with Eq => true | _ => false end.
Definition is_ge (a b : biguint) : bool := match cmp a b with Lt => false | _ => true end.

(* add_assign_internal: self += (other * mul_digit) << (64 * shift).
   The loop bound is computed once from the lengths before the loop. *)
Fixpoint aai_loop (cnt i : nat) (self other : biguint) (d : N) (shift : nat) (carry : N)
  : biguint * N :=
  match cnt with
  | O => (self, carry)
  | S cnt' =>
    let a := get self i in
    let b := if Nat.leb shift i then get other (i - shift) else 0 in
    let sum := a + b * d + carry in
    aai_loop cnt' (S i) (set self i (sum mod W)) other d shift (sum / W)
  end.

Definition add_assign_internal (self other : biguint) (d : N) (shift : nat) : biguint :=
  let n := Nat.max (value_len self) (value_len other + shift) in
  let '(self', carry) := aai_loop n 0 self other d shift 0 in
  if carry =? 0 then self' else set self' n carry.

Definition add (a b : biguint) : biguint := add_assign_internal a b 1 0.

(* the code before commit fcf264e pushed the final carry (value_push); that
   lost the carry position when self was still Small after the loop *)
Definition add_assign_internal_old (self other : biguint) (d : N) (shift : nat) : biguint :=
  let n := Nat.max (value_len self) (value_len other + shift) in
  let '(self', carry) := aai_loop n 0 self other d shift 0 in
  if carry =? 0 then self' else value_push self' carry.

Definition add_old (a b : biguint) : biguint := add_assign_internal_old a b 1 0.

(* sub *)
Fixpoint sub_loop (res : list N) (i : nat) (other : biguint) (carry : N) : list N * N :=
  match res with
  | [] => ([], carry)
  | a :: r =>
    let b := get other i in
    if negb ((b =? W - 1) && (carry =? 1)) && (b + carry <=? a) then
      let '(r', c) := sub_loop r (S i) other 0 in ((a - b - carry) :: r', c)
    else
      let '(r', c) := sub_loop r (S i) other 1 in (((a + W - b - carry) mod W) :: r', c)
  end.

Definition resize_up (l : list N) (n : nat) : list N :=
  if Nat.ltb (length l) n then l ++ repeat 0 (n - length l) else l.

Definition sub (oc : bool) (a b : biguint) : res biguint :=
  match a, b with
  | Small x, Small y =>
    if y <=? x then Ok (Small (x - y))
    else if oc then Panic P_sub_overflow else Ok (Small (x + W - y))
  | _, _ =>
    match cmp a b with
    | Eq => Ok (Small 0)
    | Lt => Panic P_sub_unreachable
    | Gt =>
      if is_zero b then Ok a
      else
        let res := match a with Large x => x | Small v => [v] end in
        let res := resize_up res (value_len b) in
        let '(res', carry) := sub_loop res 0 b 0 in
        if carry =? 0 then Ok (Large res') else Panic P_sub_assert
    end
  end.

(* lshift / rshift by one bit *)
Fixpoint lshift_limbs (c : N) (v : list N) : list N :=
  match v with
  | [] => []
  | x :: r => N.lor ((2 * x) mod W) c :: lshift_limbs (x / HALF) r
  end.

Definition lshift (a : biguint) : res biguint :=
  match a with
  | Small n =>
    if n / QUARTER =? 0 then Ok (Small (2 * n))
    else Ok (Large [(2 * n) mod W; n / HALF])
  | Large v =>
    match v with
    | [] => Panic P_lshift_empty
    | _ =>
      let v' := if HALF <=? last v 0 then v ++ [0] else v in
      Ok (Large (lshift_limbs 0 v'))
    end
  end.

Fixpoint rshift_limbs (v : list N) : list N :=
  match v with
  | [] => []
  | x :: r =>
    let next := match r with [] => 0 | y :: _ => y end in
    N.lor (x / 2) ((next * HALF) mod W) :: rshift_limbs r
  end.

Definition rshift (a : biguint) : biguint :=
  match a with
  | Small n => Small (n / 2)
  | Large v => Large (rshift_limbs v)
  end.

(* mul *)
Fixpoint mul_loop (cnt i : nat) (acc self_clone other : biguint) : biguint :=
  match cnt with
  | O => acc
  | S cnt' =>
    mul_loop cnt' (S i) (add_assign_internal acc self_clone (get other i) i) self_clone other
  end.

Definition mul_internal (self other : biguint) : biguint :=
  if is_zero self || is_zero other then Small 0
  else mul_loop (value_len other) 0 (Large [0]) self other.

Definition mul (a b : biguint) : biguint :=
  match a, b with
  | Small x, Small y => if x * y <? W then Small (x * y) else mul_internal a b
  | _, _ => mul_internal a b
  end.

(* divmod: binary long division, most significant bit first *)
Fixpoint div_bits (oc : bool) (j : nat) (i : nat) (self other : biguint) (q r : biguint)
  : res (biguint * biguint) :=
  match j with
  | O => Ok (q, r)
  | S j' =>
    do r1 <- lshift r;
    let bit := if N.testbit (get self i) (N.of_nat j') then 1 else 0 in
    let r2 := set r1 0 (N.lor (get r1 0) bit) in
    if is_ge r2 other then
      do r3 <- sub oc r2 other;
      div_bits oc j' i self other (set q i (N.lor (get q i) (2 ^ N.of_nat j'))) r3
    else div_bits oc j' i self other q r2
  end.

Fixpoint div_limbs (oc : bool) (i : nat) (self other : biguint) (q r : biguint)
  : res (biguint * biguint) :=
  match i with
  | O => Ok (q, r)
  | S i' =>
    do qr <- div_bits oc 64 i' self other q r;
    div_limbs oc i' self other (fst qr) (snd qr)
  end.

Definition divmod (oc : bool) (a b : biguint) : res (biguint * biguint) :=
  match a, b with
  | Small x, Small y =>
    if y =? 0 then Err EDivByZero else Ok (Small (x / y), Small (x mod y))
  | _, _ =>
    if is_zero b then Err EDivByZero
    else if is_eq b (Small 1) then Ok (a, Small 0)
    else if is_zero a then Ok (Small 0, Small 0)
    else if is_lt a b then Ok (Small 0, a)
    else if is_eq a b then Ok (Small 1, Small 0)
    else if is_eq b (Small 2) then Ok (rshift a, Small (N.land (get a 0) 1))
    else div_limbs oc (value_len a) a b (Small 0) (Small 0)
  end.

Definition rem (oc : bool) (a b : biguint) : res biguint :=
  do qr <- divmod oc a b; Ok (snd qr).
Definition div (oc : bool) (a b : biguint) : res biguint :=
  do qr <- divmod oc a b; Ok (fst qr).

(* is_even: self.divmod(2).1 == 0 *)
Definition is_even (oc : bool) (a : biguint) : res bool :=
  do qr <- divmod oc a (Small 2); Ok (is_eq (snd qr) (Small 0)).

(* gcd: while b >= 1 { r = a rem b; a = b; b = r }.  Fuel is computed from
   the sizes of the operands (the product halves at every step after the
   first), see gcd_fuel_enough. *)
Fixpoint gcd_loop (oc : bool) (fuel : nat) (a b : biguint) : res biguint :=
  match fuel with
  | O => Err EOutOfFuel
  | S f =>
    if is_ge b (Small 1) then
      do r <- rem oc a b; gcd_loop oc f b r
    else Ok a
  end.

Definition gcd_fuel (a b : biguint) : nat := (64 * (value_len a + value_len b) + 3)%nat.

Definition gcd (oc : bool) (a b : biguint) : res biguint := gcd_loop oc (gcd_fuel a b) a b.

(* pow_internal: square and multiply over the bits of a u64 exponent, least
   significant first (exponent % 2, exponent >>= 1); the structural recursion
   on the binary representation is that loop. *)
Fixpoint pow_pos (p : positive) (result base : biguint) : biguint :=
  match p with
  | xH => mul result base
  | xO p' => pow_pos p' result (mul base base)
  | xI p' => pow_pos p' (mul result base) (mul base base)
  end.

Definition pow_internal (a : biguint) (e : N) : biguint :=
  match e with
  | N0 => Small 1
  | Npos p => pow_pos p (Small 1) a
  end.

Definition pow (a b : biguint) : res biguint :=
  if is_zero a && is_zero b then Err EZeroPowZero
  else if is_zero b then Ok (Small 1)
  else if Nat.ltb 1 (significant_len b) then Err EExpTooLarge
  else Ok (pow_internal a (get b 0)).

(* before commit 2c2d128 the test was value_len() > 1 *)
Definition pow_old (a b : biguint) : res biguint :=
  if is_zero a && is_zero b then Err EZeroPowZero
  else if is_zero b then Ok (Small 1)
  else if Nat.ltb 1 (value_len b) then Err EExpTooLarge
  else Ok (pow_internal a (get b 0)).

Definition is_definitely_zero (a : biguint) : bool :=
  match a with Small x => x =? 0 | Large _ => false end.
Definition is_definitely_one (a : biguint) : bool :=
  match a with Small x => x =? 1 | Large _ => false end.

(* ------------------------------------------------------------------ *)
(* value and well-formedness *)

Fixpoint lval (v : list N) : N :=
  match v with [] => 0 | x :: r => x + W * lval r end.

Definition val (a : biguint) : N :=
  match a with Small n => n | Large v => lval v end.

Definition wf (a : biguint) : bool :=
  match a with
  | Small n => n <? W
  | Large v => negb (match v with [] => true | _ => false end) && forallb (fun x => x <? W) v
  end.

(* the inputs on which the OLD add_assign_internal lost the final carry
   (value_push after skipped zero limbs of a Small self; repaired in fcf264e) *)
Definition aai_known (self other : biguint) (d : N) (shift : nat) : bool :=
  match self with
  | Small x =>
    let n := Nat.max 1 (value_len other + shift) in
    Nat.ltb 1 n && (W ^ N.of_nat n <=? x + d * val other * W ^ N.of_nat shift)
  | Large _ => false
  end.
Definition add_known (a b : biguint) : bool := aai_known a b 1 0.

(* the inputs on which the OLD pow answered "exponent too large" although the
   exponent fits a machine word (leading zero limbs; repaired in 2c2d128) *)
Definition pow_known (a b : biguint) : bool :=
  negb (is_zero b) && Nat.ltb 1 (value_len b) && (val b <? W).
