(* The expression-level theorem of C01: on well-formed literals, inside the
   fragment (powers are (real rational)^(integer)) and outside the one listed
   defect class, the model computes exactly the complex rational value, with
   the exact flag set; the only errors are division by zero, 0^0 and an
   exponent beyond machine range, each witnessed by a subterm. *)
From Coq Require Import Lia ZifyBool QArith Qpower Qreduction Qfield Qabs.
From FendV Require Import Base.Prelude Num.BigUint Num.BigUintProofs Num.BigRat Num.BigRatProofs
  Num.RealCx Num.RealCxProofs Num.Expr.
Open Scope Q_scope.

(* ------------------------------------------------------------------ *)
(* canonical values *)

Lemma qlit_qval : forall x, wfr x = true -> qlit x = Qred (qval x).
Proof.
  intros x Hx. apply wfr_iff in Hx. destruct Hx as (_ & _ & Hz).
  unfold qlit, qval. destruct (val (rden x)) as [|d] eqn:E; [contradiction|].
  apply Qred_complete. rewrite Qmake_Qdiv. unfold qn.
  rewrite inject_Z_mult. destruct (rsign x); cbn [qsign sq]; reflexivity.
Qed.

Lemma qlit_of : forall x q, wfr x = true -> qval x == q -> qlit x = Qred q.
Proof. intros x q Hx E. rewrite qlit_qval by assumption. apply Qred_complete. assumption. Qed.

Lemma qlit_eq : forall x, wfr x = true -> qlit x == qval x.
Proof. intros x Hx. rewrite qlit_qval by assumption. apply Qred_correct. Qed.

Lemma qlit_0 : qlit (rat_of_u64 0) = 0. Proof. reflexivity. Qed.

Lemma Qred_inject_Z : forall z, Qred (inject_Z z) = inject_Z z.
Proof.
  intro z. unfold Qred, inject_Z.
  pose proof (Z.ggcd_gcd z 1) as G. pose proof (Z.ggcd_correct_divisors z 1) as D.
  destruct (Z.ggcd z 1) as [g [a b]]. cbn [fst snd] in *.
  rewrite Z.gcd_1_r in G. subst g. destruct D as [D1 D2].
  rewrite Z.mul_1_l in D1, D2. subst z b. reflexivity.
Qed.

Lemma Qred_integer : forall c, Pos.eqb (Qden (Qred c)) 1 = true -> c == inject_Z (Qnum (Qred c)).
Proof.
  intros c H. apply Pos.eqb_eq in H. rewrite <- (Qred_correct c) at 1.
  destruct (Qred c) as [n d]. cbn [Qnum Qden] in *. subst d. reflexivity.
Qed.

Lemma Qred_integer_conv : forall c z, c == inject_Z z -> Qred c = inject_Z z.
Proof. intros c z H. rewrite <- Qred_inject_Z. apply Qred_complete. assumption. Qed.

Lemma cq_of : forall z a b, wfc z = true -> cre z == a -> cim z == b -> cq z = CV (Qred a) (Qred b).
Proof.
  intros z a b Hz Ea Eb. apply wfc_iff in Hz. destruct Hz as [Hr Hi].
  unfold cq. f_equal; apply qlit_of; assumption.
Qed.

Lemma cq_inv : forall z a b, wfc z = true -> cq z = CV a b -> a == cre z /\ b == cim z.
Proof.
  intros z a b Hz E. apply wfc_iff in Hz. destruct Hz as [Hr Hi].
  unfold cq in E. inversion E; subst. split; apply qlit_eq; assumption.
Qed.

(* ------------------------------------------------------------------ *)
(* Complex::pow on (real)^(integer) *)
Lemma cx_pow_spec : forall oc a ex z, wfc a = true -> wfc ex = true ->
  cim a == 0 -> cim ex == 0 -> cre ex == inject_Z z ->
  match cx_pow oc a ex with
  | Ok (r, fl) => fl = true /\ wfc r = true /\ cre r == Qpower (cre a) z /\ cim r == 0 /\
                  ~ (cre a == 0 /\ (z <= 0)%Z)
  | Err EZeroPowZero => cre a == 0 /\ z = 0%Z
  | Err EDivByZero => cre a == 0 /\ (z < 0)%Z
  | Err EExpTooLarge => (Z.of_N W <= Z.abs z)%Z
  | _ => False
  end.
Proof.
  intros oc a ex z Ha Hex Ia Iex Rex.
  pose proof Ha as Ha'. pose proof Hex as Hex'. apply wfc_iff in Ha'. apply wfc_iff in Hex'.
  destruct Ha' as [Har Hai]. destruct Hex' as [Her Hei].
  assert (Za : real_is_zero oc (im a) = Ok true).
  { rewrite real_is_zero_spec by assumption. f_equal. apply Qeq_bool_iff. exact Ia. }
  assert (Zb : real_is_zero oc (im ex) = Ok true).
  { rewrite real_is_zero_spec by assumption. f_equal. apply Qeq_bool_iff. exact Iex. }
  pose proof (real_pow_spec oc (re a) (re ex) z Har Her Rex) as P.
  unfold cx_pow, cx_pow_gen.
  rewrite (rat_is_integer_spec oc (re ex) z Her Rex).
  rewrite (rat_is_integer_spec oc (im ex) 0 Hei Iex). cbn [negb orb].
  rewrite Za, Zb. cbn [bind andb].
  destruct (real_pow oc (re a) (re ex)) as [[r fl]|[]|]; cbn [bind fst snd]; try exact P.
  destruct P as (Fl & Wf & Vr & Nz). split; [assumption|].
  split; [apply wfc_iff; cbn [re im]; auto using wfr_0|].
  unfold cre, cim. cbn [re im]. split; [assumption|]. split; [reflexivity|assumption].
Qed.

(* the code before 19d36f9 left exact arithmetic on (-8)^(6/2) *)
Lemma cx_pow_old_refuted_witness :
  let base := cx_of_real (mkrat Negative (Small 8) (Small 1)) in
  let expo := cx_of_real (mkrat Positive (Small 6) (Small 2)) in
  wfc base = true /\ wfc expo = true /\ cx_pow_old true base expo = Err EOther /\
  cx_pow true base expo = Ok (cx_of_real (mkrat Negative (Small 512) (Small 1)), true).
Proof. vm_compute. auto. Qed.

Lemma v_pow_spec : forall oc x y z, wfc x = true -> wfc y = true ->
  cim x == 0 -> cim y == 0 -> cre y == inject_Z z ->
  match v_pow oc (x, true) (y, true) with
  | Ok (r, fl) => fl = true /\ wfc r = true /\ cre r == Qpower (cre x) z /\ cim r == 0 /\
                  ~ (cre x == 0 /\ (z <= 0)%Z)
  | Err EZeroPowZero => cre x == 0 /\ z = 0%Z
  | Err EDivByZero => cre x == 0 /\ (z < 0)%Z
  | Err EExpTooLarge => (Z.of_N W <= Z.abs z)%Z
  | _ => False
  end.
Proof.
  intros oc x y z Hx Hy Ix Iy Ry. unfold v_pow.
  destruct (v_into_unitless_complex_spec oc y Hy) as (ex & Ee & We & Er & Ei). rewrite Ee. cbn [bind fst snd].
  assert (Iex : cim ex == 0) by (rewrite Ei; assumption).
  assert (Rex : cre ex == inject_Z z) by (rewrite Er; assumption).
  pose proof (cx_pow_spec oc x ex z Hx We Ix Iex Rex) as P.
  destruct (cx_pow oc x ex) as [[r fl]|[]|]; cbn [bind fst snd andb]; exact P.
Qed.

(* ------------------------------------------------------------------ *)
(* the specification combinators applied to model values *)

Ltac cq_solve :=
  match goal with
  | Hr : wfc ?r = true |- _ = cq ?r =>
    symmetry; apply cq_of; [exact Hr| |]
  end.

Lemma wfc_parts : forall z, wfc z = true -> wfr (re z) = true /\ wfr (im z) = true.
Proof. intros z H. apply wfc_iff. assumption. Qed.

Lemma cq_add : forall x y r, wfc x = true -> wfc y = true -> wfc r = true ->
  cre r == cre x + cre y -> cim r == cim x + cim y ->
  cv_bind2 (cq x) (cq y) (fun a b c d => CV (Qred (a + c)) (Qred (b + d))) = cq r.
Proof.
  intros x y r Hx Hy Hr Er Ei. destruct (wfc_parts x Hx), (wfc_parts y Hy).
  unfold cq at 1 2. cbn [cv_bind2]. cq_solve.
  - rewrite Er. unfold cre. rewrite !qlit_eq by assumption. reflexivity.
  - rewrite Ei. unfold cim. rewrite !qlit_eq by assumption. reflexivity.
Qed.

Lemma cq_sub : forall x y r, wfc x = true -> wfc y = true -> wfc r = true ->
  cre r == cre x - cre y -> cim r == cim x - cim y ->
  cv_bind2 (cq x) (cq y) (fun a b c d => CV (Qred (a - c)) (Qred (b - d))) = cq r.
Proof.
  intros x y r Hx Hy Hr Er Ei. destruct (wfc_parts x Hx), (wfc_parts y Hy).
  unfold cq at 1 2. cbn [cv_bind2]. cq_solve.
  - rewrite Er. unfold cre. rewrite !qlit_eq by assumption. reflexivity.
  - rewrite Ei. unfold cim. rewrite !qlit_eq by assumption. reflexivity.
Qed.

Lemma cq_mul : forall x y r, wfc x = true -> wfc y = true -> wfc r = true ->
  cre r == cre x * cre y - cim x * cim y -> cim r == cim x * cre y + cre x * cim y ->
  cv_bind2 (cq x) (cq y) (fun a b c d => CV (Qred (a * c - b * d)) (Qred (b * c + a * d))) = cq r.
Proof.
  intros x y r Hx Hy Hr Er Ei. destruct (wfc_parts x Hx), (wfc_parts y Hy).
  unfold cq at 1 2. cbn [cv_bind2]. cq_solve.
  - rewrite Er. unfold cre, cim. rewrite !qlit_eq by assumption. reflexivity.
  - rewrite Ei. unfold cre, cim. rewrite !qlit_eq by assumption. reflexivity.
Qed.

Lemma qzero_qlit : forall x, wfr x = true -> qzero (qlit x) = Qeq_bool (qval x) 0.
Proof.
  intros x Hx. unfold qzero. apply Qeqb_comp; [apply qlit_eq; assumption|reflexivity].
Qed.

(* ------------------------------------------------------------------ *)
(* structure of the fragment hypothesis *)

Lemma bind2_not_outside : forall x y f, cv_bind2 x y f <> COutside -> x <> COutside /\ y <> COutside.
Proof. intros [a b| |] [c d| |] f H; cbn [cv_bind2] in H; split; congruence. Qed.

Lemma map_not_outside : forall x f, cv_map x f <> COutside -> x <> COutside.
Proof. intros [a b| |] f H; cbn [cv_map] in H; congruence. Qed.

Lemma exists_sub_l : forall P a b mk,
  (forall Q, exists_sub Q (mk a b) = (Q (mk a b) \/ (exists_sub Q a \/ exists_sub Q b))) ->
  exists_sub P a -> exists_sub P (mk a b).
Proof. intros P a b mk H Ha. rewrite H. auto. Qed.

(* the statement proved for every expression *)
Definition good (oc : bool) (e : cexp) : Prop :=
  match meval oc e with
  | Ok (z, fl) => fl = true /\ wfc z = true /\ cval e = cq z
  | Err EDivByZero => exists_sub node_div0 e
  | Err EZeroPowZero => exists_sub node_zero_pow_zero e
  | Err EExpTooLarge => exists_sub node_exp_too_large e
  | _ => False
  end.

(* an error of a subterm is an error of the term *)
Lemma good_err_1 : forall oc a (e : cexp) (k : value -> res value),
  (forall P, exists_sub P a -> exists_sub P e) ->
  meval oc e = (do x <- meval oc a; k x) ->
  good oc a -> (forall z fl, meval oc a <> Ok (z, fl)) -> good oc e.
Proof.
  intros oc a e k Hsub He Ga Hn. unfold good in *. rewrite He.
  destruct (meval oc a) as [[z fl]|[]|]; cbn [bind]; try contradiction; try (apply Hsub; assumption).
  exfalso. eapply Hn. reflexivity.
Qed.

Section Main.
  Variable oc : bool.

  (* unary nodes *)
  Lemma good_unary : forall (mk : cexp -> cexp) (f : value -> value) (g : Q -> Q -> cv) a,
    (forall P, exists_sub P a -> exists_sub P (mk a)) ->
    meval oc (mk a) = (do x <- meval oc a; Ok (f x)) ->
    cval (mk a) = cv_map (cval a) g ->
    (forall z, wfc z = true -> snd (f (z, true)) = true /\ wfc (fst (f (z, true))) = true /\
               cv_map (cq z) g = cq (fst (f (z, true)))) ->
    good oc a -> good oc (mk a).
  Proof.
    intros mk f g a Hsub Hm Hc Hf Ga. unfold good in *. rewrite Hm.
    destruct (meval oc a) as [[z fl]|[]|]; cbn [bind]; try contradiction; try (apply Hsub; assumption).
    destruct Ga as (Fl & Wz & Cz). subst fl. destruct (Hf z Wz) as (F1 & F2 & F3).
    destruct (f (z, true)) as [r flr]. cbn [fst snd] in *.
    split; [assumption|]. split; [assumption|]. rewrite Hc, Cz. assumption.
  Qed.

  Theorem exact : forall e, wf_lits e = true -> cval e <> COutside -> good oc e.
  Proof.
    induction e as [r| |a IHa b IHb|a IHa b IHb|a IHa b IHb|a IHa b IHb|a IHa|a IHa b IHb|a IHa|a IHa|a IHa];
      intros Hwf Hout; cbn [wf_lits] in Hwf.
    - (* literal *)
      unfold good. cbn [meval]. split; [reflexivity|].
      split; [apply wfc_iff; cbn [cx_of_real re im]; auto using wfr_0|]. reflexivity.
    - (* i *)
      unfold good. cbn [meval]. split; [reflexivity|]. split; reflexivity.
    - (* add *)
      apply andb_true_iff in Hwf. destruct Hwf as [Wa Wb].
      cbn [cval] in Hout. destruct (bind2_not_outside _ _ _ Hout) as [Oa Ob].
      specialize (IHa Wa Oa). specialize (IHb Wb Ob).
      unfold good in *. cbn [meval cval exists_sub].
      destruct (meval oc a) as [[za fa]|[]|]; cbn [bind]; try contradiction; auto.
      destruct (meval oc b) as [[zb fb]|[]|]; cbn [bind]; try contradiction; auto.
      destruct IHa as (Fa & Wza & Ca). destruct IHb as (Fb & Wzb & Cb). subst fa fb.
      destruct (v_add_spec oc za zb Wza Wzb) as (r & Er & Wr & Rr & Ri). rewrite Er.
      split; [reflexivity|]. split; [assumption|]. rewrite Ca, Cb. apply cq_add; assumption.
    - (* sub *)
      apply andb_true_iff in Hwf. destruct Hwf as [Wa Wb].
      cbn [cval] in Hout. destruct (bind2_not_outside _ _ _ Hout) as [Oa Ob].
      specialize (IHa Wa Oa). specialize (IHb Wb Ob).
      unfold good in *. cbn [meval cval exists_sub].
      destruct (meval oc a) as [[za fa]|[]|]; cbn [bind]; try contradiction; auto.
      destruct (meval oc b) as [[zb fb]|[]|]; cbn [bind]; try contradiction; auto.
      destruct IHa as (Fa & Wza & Ca). destruct IHb as (Fb & Wzb & Cb). subst fa fb.
      destruct (v_sub_spec oc za zb Wza Wzb) as (r & Er & Wr & Rr & Ri). rewrite Er.
      split; [reflexivity|]. split; [assumption|]. rewrite Ca, Cb. apply cq_sub; assumption.
    - (* mul *)
      apply andb_true_iff in Hwf. destruct Hwf as [Wa Wb].
      cbn [cval] in Hout. destruct (bind2_not_outside _ _ _ Hout) as [Oa Ob].
      specialize (IHa Wa Oa). specialize (IHb Wb Ob).
      unfold good in *. cbn [meval cval exists_sub].
      destruct (meval oc a) as [[za fa]|[]|]; cbn [bind]; try contradiction; auto.
      destruct (meval oc b) as [[zb fb]|[]|]; cbn [bind]; try contradiction; auto.
      destruct IHa as (Fa & Wza & Ca). destruct IHb as (Fb & Wzb & Cb). subst fa fb.
      destruct (v_mul_spec oc za zb Wza Wzb) as (r & Er & Wr & Rr & Ri). rewrite Er.
      split; [reflexivity|]. split; [assumption|]. rewrite Ca, Cb. apply cq_mul; assumption.
    - (* div *)
      apply andb_true_iff in Hwf. destruct Hwf as [Wa Wb].
      cbn [cval] in Hout. destruct (bind2_not_outside _ _ _ Hout) as [Oa Ob].
      specialize (IHa Wa Oa). specialize (IHb Wb Ob).
      unfold good in *. cbn [meval cval exists_sub].
      destruct (meval oc a) as [[za fa]|[]|]; cbn [bind]; try contradiction; auto.
      destruct (meval oc b) as [[zb fb]|[]|]; cbn [bind]; try contradiction; auto.
      destruct IHa as (Fa & Wza & Ca). destruct IHb as (Fb & Wzb & Cb). subst fa fb.
      destruct (wfc_parts za Wza) as [Wzar Wzai]. destruct (wfc_parts zb Wzb) as [Wzbr Wzbi].
      pose proof (v_div_spec oc za zb Wza Wzb) as D.
      destruct (Qeq_bool (cre zb) 0 && Qeq_bool (cim zb) 0) eqn:Z.
      + rewrite D. left. cbn [node_div0]. rewrite Cb. unfold cq.
        apply andb_true_iff in Z. destruct Z as [Z1 Z2]. apply Qeq_bool_iff in Z1. apply Qeq_bool_iff in Z2.
        exists (qlit (re zb)), (qlit (im zb)). split; [reflexivity|].
        split; [rewrite qlit_eq by assumption; exact Z1|rewrite qlit_eq by assumption; exact Z2].
      + destruct D as (r & Er & Wr & Rr & Ri). rewrite Er.
        split; [reflexivity|]. split; [assumption|]. rewrite Ca, Cb. unfold cq at 1 2. cbn [cv_bind2].
        rewrite !qzero_qlit by assumption. unfold cre, cim in Z. rewrite Z.
        cq_solve.
        * rewrite Rr. unfold cre, cim. rewrite !qlit_eq by assumption. reflexivity.
        * rewrite Ri. unfold cre, cim. rewrite !qlit_eq by assumption. reflexivity.
    - (* neg *)
      cbn [cval] in Hout. pose proof (map_not_outside _ _ Hout) as Oa. specialize (IHa Hwf Oa).
      apply (good_unary CNeg v_neg (fun a b => CV (Qred (- a)) (Qred (- b))) a); try reflexivity; auto.
      { intros P H. cbn [exists_sub]. auto. }
      intros z Wz. destruct (v_neg_spec z Wz) as (W1 & N1 & N2). destruct (wfc_parts z Wz).
      unfold v_neg. cbn [fst snd]. split; [reflexivity|]. split; [assumption|].
      unfold cq at 1. cbn [cv_map]. symmetry. apply cq_of; [assumption| |].
      + rewrite N1. unfold cre. rewrite qlit_eq by assumption. reflexivity.
      + rewrite N2. unfold cim. rewrite qlit_eq by assumption. reflexivity.
    - (* pow *)
      apply andb_true_iff in Hwf. destruct Hwf as [Wa Wb].
      cbn [cval] in Hout. destruct (bind2_not_outside _ _ _ Hout) as [Oa Ob].
      specialize (IHa Wa Oa). specialize (IHb Wb Ob).
      unfold good in *. cbn [meval cval exists_sub].
      destruct (meval oc a) as [[za fa]|[]|]; cbn [bind]; try contradiction; auto.
      destruct (meval oc b) as [[zb fb]|[]|]; cbn [bind]; try contradiction; auto.
      destruct IHa as (Fa & Wza & Ca). destruct IHb as (Fb & Wzb & Cb). subst fa fb.
      destruct (wfc_parts za Wza) as [Wzar Wzai]. destruct (wfc_parts zb Wzb) as [Wzbr Wzbi].
      rewrite Ca, Cb in Hout |- *. unfold cq in Hout |- * at 1 2. cbn [cv_bind2] in Hout |- *.
      destruct (qzero (qlit (im za)) && qzero (qlit (im zb)) && Pos.eqb (Qden (Qred (qlit (re zb)))) 1) eqn:Frag;
        [|congruence].
      apply andb_true_iff in Frag. destruct Frag as [Frag F3]. apply andb_true_iff in Frag. destruct Frag as [F1 F2].
      set (z := Qnum (Qred (qlit (re zb)))) in *.
      assert (Ix : cim za == 0).
      { unfold qzero in F1. apply Qeq_bool_iff in F1. rewrite <- F1. unfold cim. symmetry. apply qlit_eq. assumption. }
      assert (Iy : cim zb == 0).
      { unfold qzero in F2. apply Qeq_bool_iff in F2. rewrite <- F2. unfold cim. symmetry. apply qlit_eq. assumption. }
      assert (Ry : cre zb == inject_Z z).
      { unfold cre. rewrite <- (qlit_eq (re zb)) by assumption. apply Qred_integer. assumption. }
      pose proof (v_pow_spec oc za zb z Wza Wzb Ix Iy Ry) as P.
      assert (Zx : qzero (qlit (re za)) = Qeq_bool (cre za) 0) by (apply qzero_qlit; assumption).
      assert (Xeq : qlit (re za) == cre za) by (apply qlit_eq; assumption).
      assert (Yeq : qlit (re zb) == inject_Z z) by (rewrite qlit_eq by assumption; exact Ry).
      destruct (v_pow oc (za, true) (zb, true)) as [[r fl]|[]|]; try contradiction.
      + destruct P as (Fl & Wr & Rr & Ri & Nz). split; [assumption|]. split; [assumption|].
        rewrite Zx.
        destruct (Qeq_bool (cre za) 0 && (z <=? 0)%Z) eqn:U.
        * exfalso. apply andb_true_iff in U. destruct U as [U1 U2]. apply Qeq_bool_iff in U1.
          apply Nz. split; [assumption|apply Z.leb_le; exact U2].
        * change (CV (Qred (qlit (re za) ^ z)) 0) with (CV (Qred (qlit (re za) ^ z)) (Qred 0)).
          symmetry. apply cq_of; [assumption| |].
          { rewrite Rr. rewrite Xeq. reflexivity. }
          { rewrite Ri. reflexivity. }
      + left. cbn [node_div0]. unfold cq. destruct P as [P1 P2].
        exists (qlit (re za)), (qlit (im za)), (qlit (re zb)), (qlit (im zb)).
        split; [exact Ca|]. split; [exact Cb|]. split; [rewrite Xeq; assumption|].
        rewrite Yeq. change 0 with (inject_Z 0). rewrite <- Zlt_Qlt. assumption.
      + left. cbn [node_zero_pow_zero]. unfold cq. destruct P as [P1 P2].
        exists (qlit (re za)), (qlit (im za)), (qlit (re zb)), (qlit (im zb)).
        split; [exact Ca|]. split; [exact Cb|]. split; [rewrite Xeq; assumption|].
        rewrite Yeq, P2. reflexivity.
      + left. cbn [node_exp_too_large]. unfold cq.
        exists (qlit (re zb)), (qlit (im zb)). split; [exact Cb|].
        rewrite Yeq. change (Qabs (inject_Z z)) with (inject_Z (Z.abs z)). rewrite <- Zle_Qle. assumption.
    - (* real *)
      cbn [cval] in Hout. pose proof (map_not_outside _ _ Hout) as Oa. specialize (IHa Hwf Oa).
      apply (good_unary CReal v_real (fun a b => CV a 0) a); try reflexivity; auto.
      { intros P H. cbn [exists_sub]. auto. }
      intros z Wz. destruct (wfc_parts z Wz). unfold v_real. cbn [fst snd].
      split; [reflexivity|]. split; [apply wfc_iff; cbn [cx_of_real re im]; auto using wfr_0|]. reflexivity.
    - (* imag *)
      cbn [cval] in Hout. pose proof (map_not_outside _ _ Hout) as Oa. specialize (IHa Hwf Oa).
      apply (good_unary CImag v_imag (fun a b => CV b 0) a); try reflexivity; auto.
      { intros P H. cbn [exists_sub]. auto. }
      intros z Wz. destruct (wfc_parts z Wz). unfold v_imag. cbn [fst snd].
      split; [reflexivity|]. split; [apply wfc_iff; cbn [cx_of_real re im]; auto using wfr_0|]. reflexivity.
    - (* conjugate *)
      cbn [cval] in Hout. pose proof (map_not_outside _ _ Hout) as Oa. specialize (IHa Hwf Oa).
      apply (good_unary CConj v_conj (fun a b => CV a (Qred (- b))) a); try reflexivity; auto.
      { intros P H. cbn [exists_sub]. auto. }
      intros z Wz. destruct (wfc_parts z Wz). unfold v_conj, cx_conj. cbn [fst snd].
      split; [reflexivity|]. split; [apply wfc_iff; cbn [re im]; auto|].
      unfold cq. cbn [cv_map re im]. f_equal. symmetry. apply qlit_of; [assumption|].
      rewrite qval_neg. rewrite qlit_eq by assumption. reflexivity.
  Qed.
End Main.

Definition lit_u64 (n : N) : cexp := CLit (rat_of_u64 n).

(* (-8)^(6/2) = -512 exactly (the unreduced exponent 6/2 is recognised as 3) *)
Example unreduced_exponent_exact :
  meval true (CPow (CNeg (lit_u64 8)) (CDiv (lit_u64 6) (lit_u64 2)))
  = Ok (cx_of_real (mkrat Negative (Small 512) (Small 1)), true).
Proof. vm_compute. reflexivity. Qed.

(* non-vacuity: a multi-limb, non-canonical, complex example satisfies every hypothesis *)
Definition example_expr : cexp :=
  CDiv (CAdd (CLit (mkrat Negative (Large [0; 5; 0]%N) (Large [3; 1]%N))) CI)
       (CPow (CSub (lit_u64 7) (CMul (lit_u64 2) (lit_u64 5))) (CNeg (lit_u64 3))).

Example exact_hypotheses_inhabited :
  wf_lits example_expr = true /\ cval example_expr <> COutside /\
  exists z, meval true example_expr = Ok (z, true).
Proof. vm_compute. split; [reflexivity|]. split; [discriminate|]. eexists. reflexivity. Qed.
