(* Expression level of C01: trees over rational literals (given by their raw
   internal representation), + - * / unary minus, integer powers, i,
   real / imag / conjugate.
     meval : the model of what fend computes (ast::evaluate on Bop / UnaryMinus
             / Parens / function application, through the Value layer of
             RealCx.v), returning the Complex representation and exact flag;
     cval  : the specification, complex rational arithmetic in Coq's Q with
             canonical (Qred) results. *)
From Coq Require Import QArith Qpower Qreduction Qabs.
From FendV Require Import Base.Prelude Num.BigUint Num.BigRat Num.RealCx.
Open Scope N_scope.

Inductive cexp :=
| CLit (r : bigrat)           (* a real literal, as the lexer built it *)
| CI                          (* the constant i *)
| CAdd (a b : cexp) | CSub (a b : cexp) | CMul (a b : cexp) | CDiv (a b : cexp)
| CNeg (a : cexp)
| CPow (a b : cexp)
| CReal (a : cexp) | CImag (a : cexp) | CConj (a : cexp).

Fixpoint meval (oc : bool) (e : cexp) : res value :=
  match e with
  | CLit r => Ok (cx_of_real r, true)
  | CI => Ok v_i
  | CAdd a b => do x <- meval oc a; do y <- meval oc b; v_add oc x y
  | CSub a b => do x <- meval oc a; do y <- meval oc b; v_sub oc x y
  | CMul a b => do x <- meval oc a; do y <- meval oc b; v_mul oc x y
  | CDiv a b => do x <- meval oc a; do y <- meval oc b; v_div oc x y
  | CNeg a => do x <- meval oc a; Ok (v_neg x)
  | CPow a b => do x <- meval oc a; do y <- meval oc b; v_pow oc x y
  | CReal a => do x <- meval oc a; Ok (v_real x)
  | CImag a => do x <- meval oc a; Ok (v_imag x)
  | CConj a => do x <- meval oc a; Ok (v_conj x)
  end.

Fixpoint wf_lits (e : cexp) : bool :=
  match e with
  | CLit r => wfr r
  | CI => true
  | CAdd a b | CSub a b | CMul a b | CDiv a b | CPow a b => wf_lits a && wf_lits b
  | CNeg a | CReal a | CImag a | CConj a => wf_lits a
  end.

(* ------------------------------------------------------------------ *)
(* specification: complex rationals, canonical form *)

Definition qsign (s : sign) : Z := match s with Positive => 1%Z | Negative => (-1)%Z end.

(* the rational denoted by a BigRat, as a canonical Q (0 if the denominator is 0) *)
Definition qlit (x : bigrat) : Q :=
  match val (rden x) with
  | N0 => 0%Q
  | Npos d => Qred (Qmake (qsign (rsign x) * Z.of_N (val (rnum x))) d)
  end.

Inductive cv :=
| CV (re im : Q)      (* the value *)
| CUndef              (* division by zero, 0^0, 0^negative somewhere inside *)
| COutside.           (* a power that is not (real rational)^(integer): outside C01 *)

Definition qzero (q : Q) : bool := Qeq_bool q 0.

Definition cv_bind2 (x y : cv) (f : Q -> Q -> Q -> Q -> cv) : cv :=
  match x, y with
  | COutside, _ | _, COutside => COutside
  | CUndef, _ | _, CUndef => CUndef
  | CV a b, CV c d => f a b c d
  end.

Definition cv_map (x : cv) (f : Q -> Q -> cv) : cv :=
  match x with CV a b => f a b | CUndef => CUndef | COutside => COutside end.

Fixpoint cval (e : cexp) : cv :=
  match e with
  | CLit r => CV (qlit r) 0
  | CI => CV 0 1
  | CAdd a b => cv_bind2 (cval a) (cval b) (fun a b c d => CV (Qred (a + c)) (Qred (b + d)))
  | CSub a b => cv_bind2 (cval a) (cval b) (fun a b c d => CV (Qred (a - c)) (Qred (b - d)))
  | CMul a b => cv_bind2 (cval a) (cval b)
                  (fun a b c d => CV (Qred (a * c - b * d)) (Qred (b * c + a * d)))
  | CDiv a b => cv_bind2 (cval a) (cval b)
                  (fun a b c d =>
                     if qzero c && qzero d then CUndef
                     else CV (Qred ((a * c + b * d) / (c * c + d * d)))
                             (Qred ((b * c - a * d) / (c * c + d * d))))
  | CNeg a => cv_map (cval a) (fun a b => CV (Qred (- a)) (Qred (- b)))
  | CPow a b => cv_bind2 (cval a) (cval b)
                  (fun a b c d =>
                     if qzero b && qzero d && Pos.eqb (Qden (Qred c)) 1 then
                       let z := Qnum (Qred c) in
                       if qzero a && (z <=? 0)%Z then CUndef
                       else CV (Qred (Qpower a z)) 0
                     else COutside)
  | CReal a => cv_map (cval a) (fun a b => CV a 0)
  | CImag a => cv_map (cval a) (fun a b => CV b 0)
  | CConj a => cv_map (cval a) (fun a b => CV a (Qred (- b)))
  end.

(* what the model's Complex denotes *)
Definition cq (z : complex) : cv := CV (qlit (re z)) (qlit (im z)).

(* ------------------------------------------------------------------ *)
(* where an admissible error comes from: some subterm of the expression *)

Fixpoint exists_sub (P : cexp -> Prop) (e : cexp) : Prop :=
  P e \/
  match e with
  | CLit _ | CI => False
  | CAdd a b | CSub a b | CMul a b | CDiv a b | CPow a b => exists_sub P a \/ exists_sub P b
  | CNeg a | CReal a | CImag a | CConj a => exists_sub P a
  end.

(* a division by (the value) zero, or zero raised to a negative power *)
Definition node_div0 (t : cexp) : Prop :=
  match t with
  | CDiv a b => exists c d, cval b = CV c d /\ (c == 0)%Q /\ (d == 0)%Q
  | CPow a b => exists x xi y yi, cval a = CV x xi /\ cval b = CV y yi /\ (x == 0)%Q /\ (y < 0)%Q
  | _ => False
  end.

(* 0^0 *)
Definition node_zero_pow_zero (t : cexp) : Prop :=
  match t with
  | CPow a b => exists x xi y yi, cval a = CV x xi /\ cval b = CV y yi /\ (x == 0)%Q /\ (y == 0)%Q
  | _ => False
  end.

(* an exponent whose magnitude is at least 2^64 *)
Definition node_exp_too_large (t : cexp) : Prop :=
  match t with
  | CPow a b => exists y yi, cval b = CV y yi /\ (inject_Z (Z.of_N W) <= Qabs y)%Q
  | _ => False
  end.
