(* Dispatcher for the Num area (C01): executable entry points used by the
   correspondence check.  Wire format of a BigUint: ("s" n) | ("l" (limb ...)). *)
From FendV Require Import Base.Prelude Num.BigUint.
Open Scope N_scope.

Definition sx_bu (a : biguint) : sx :=
  match a with
  | Small n => XL [XS (B"s"); sx_N n]
  | Large v => XL [XS (B"l"); sx_Ns v]
  end.

Definition as_bu (s : sx) : option biguint :=
  match s with
  | XL [XS k; XA z] =>
    if opeq k "s" then (if (z <? 0)%Z then None else Some (Small (Z.to_N z))) else None
  | XL [XS k; XL l] =>
    if opeq k "l" then match as_Ns l with Some v => Some (Large v) | None => None end else None
  | _ => None
  end.

Definition sx_cmp (c : comparison) : sx :=
  match c with Lt => XA 0 | Eq => XA 1 | Gt => XA 2 end.

Definition sx_bu2 (p : biguint * biguint) : sx := XL [sx_bu (fst p); sx_bu (snd p)].

Definition as_oc (s : sx) : bool := match s with XA 0%Z => false | _ => true end.

(* binary BigUint operations: (op oc a b) *)
Definition run_bu2 (op : list N) (oc : bool) (a b : biguint) : option sx :=
  if opeq op "bu-add" then Some (XL [XS (B"ok"); sx_bu (add a b)])
  else if opeq op "bu-sub" then Some (sx_res sx_bu (sub oc a b))
  else if opeq op "bu-mul" then Some (XL [XS (B"ok"); sx_bu (mul a b)])
  else if opeq op "bu-cmp" then Some (XL [XS (B"ok"); sx_cmp (cmp a b)])
  else if opeq op "bu-divmod" then Some (sx_res sx_bu2 (divmod oc a b))
  else if opeq op "bu-gcd" then Some (sx_res sx_bu (gcd oc a b))
  else if opeq op "bu-pow" then Some (sx_res sx_bu (pow a b))
  else if opeq op "bu-add-known" then Some (sx_bool (add_known a b))
  else if opeq op "bu-pow-known" then Some (sx_bool (pow_known a b))
  else None.

Definition run_bu1 (op : list N) (oc : bool) (a : biguint) : option sx :=
  if opeq op "bu-lshift" then Some (sx_res sx_bu (lshift a))
  else if opeq op "bu-rshift" then Some (XL [XS (B"ok"); sx_bu (rshift a)])
  else if opeq op "bu-iszero" then Some (XL [XS (B"ok"); sx_bool (is_zero a)])
  else if opeq op "bu-val" then Some (XL [XS (B"ok"); sx_N (val a)])
  else if opeq op "bu-wf" then Some (XL [XS (B"ok"); sx_bool (wf a)])
  else None.

Definition run_num : dispatcher := fun op args =>
  match args with
  | [oc; a; b] =>
    match as_bu a, as_bu b with
    | Some x, Some y => run_bu2 op (as_oc oc) x y
    | _, _ => Some sx_bad
    end
  | [oc; a] =>
    match as_bu a with
    | Some x => run_bu1 op (as_oc oc) x
    | None => Some sx_bad
    end
  | _ => None
  end.

Definition run_num_line : list N -> list N := run_with run_num.
