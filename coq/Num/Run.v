(* Dispatcher for the Num area (C01): executable entry points used by the
   correspondence check.  Wire format of a BigUint: ("s" n) | ("l" (limb ...)). *)
From Coq Require Import QArith.
From FendV Require Import Base.Prelude Num.BigUint Num.BigRat Num.RealCx Num.Expr.
Open Scope N_scope.

Definition sx_bu (a : biguint) : sx :=
  match a with
  | Small n => XL [XS (B"s"); sx_N n]
  | Large v => XL [XS (B"l"); sx_Ns v]
  end.

Definition as_bu (s : sx) : option biguint :=
  match s with
  | XL [XS k; XA z] =>
    if opeq k "s" then (if (z <? 0)%Z then None else Some (Small (Z.to_N z))) else None
  | XL [XS k; XL l] =>
    if opeq k "l" then match as_Ns l with Some v => Some (Large v) | None => None end else None
  | _ => None
  end.

Definition sx_cmp (c : comparison) : sx :=
  match c with Lt => XA 0 | Eq => XA 1 | Gt => XA 2 end.

Definition sx_bu2 (p : biguint * biguint) : sx := XL [sx_bu (fst p); sx_bu (snd p)].

Definition as_oc (s : sx) : bool := match s with XA 0%Z => false | _ => true end.

(* binary BigUint operations: (op oc a b) *)
Definition run_bu2 (op : list N) (oc : bool) (a b : biguint) : option sx :=
  if opeq op "bu-add" then Some (XL [XS (B"ok"); sx_bu (add a b)])
  else if opeq op "bu-sub" then Some (sx_res sx_bu (sub oc a b))
  else if opeq op "bu-mul" then Some (XL [XS (B"ok"); sx_bu (mul a b)])
  else if opeq op "bu-cmp" then Some (XL [XS (B"ok"); sx_cmp (cmp a b)])
  else if opeq op "bu-divmod" then Some (sx_res sx_bu2 (divmod oc a b))
  else if opeq op "bu-gcd" then Some (sx_res sx_bu (gcd oc a b))
  else if opeq op "bu-pow" then Some (sx_res sx_bu (pow a b))
  else if opeq op "bu-add-old" then Some (XL [XS (B"ok"); sx_bu (add_old a b)])
  else if opeq op "bu-pow-old" then Some (sx_res sx_bu (pow_old a b))
  else None.

Definition run_bu1 (op : list N) (oc : bool) (a : biguint) : option sx :=
  if opeq op "bu-lshift" then Some (sx_res sx_bu (lshift a))
  else if opeq op "bu-rshift" then Some (XL [XS (B"ok"); sx_bu (rshift a)])
  else if opeq op "bu-iszero" then Some (XL [XS (B"ok"); sx_bool (is_zero a)])
  else if opeq op "bu-val" then Some (XL [XS (B"ok"); sx_N (val a)])
  else if opeq op "bu-wf" then Some (XL [XS (B"ok"); sx_bool (wf a)])
  else None.

(* BigRat: ("r" neg num den) *)
Definition sx_rat (x : bigrat) : sx :=
  XL [XS (B"r"); XA (if is_neg (rsign x) then 1 else 0)%Z; sx_bu (rnum x); sx_bu (rden x)].

Definition as_rat (s : sx) : option bigrat :=
  match s with
  | XL [XS k; XA z; n; d] =>
    if opeq k "r" then
      match as_bu n, as_bu d with
      | Some n', Some d' => Some (mkrat (if (z =? 0)%Z then Positive else Negative) n' d')
      | _, _ => None
      end
    else None
  | _ => None
  end.

Definition sx_exact_rat (p : bigrat * bool) : sx := XL [sx_bool (snd p); sx_rat (fst p)].

Definition run_br2 (op : list N) (oc : bool) (x y : bigrat) : option sx :=
  if opeq op "br-add" then Some (sx_res sx_rat (add_internal oc x y))
  else if opeq op "br-mul" then Some (XL [XS (B"ok"); sx_rat (rmul x y)])
  else if opeq op "br-div" then Some (sx_res sx_rat (rdiv x y))
  else if opeq op "br-pow" then Some (sx_res sx_exact_rat (rpow oc x y))
  else if opeq op "br-cmp" then Some (sx_res sx_cmp (rcmp oc x y))
  else None.

Definition run_br1 (op : list N) (oc : bool) (x : bigrat) : option sx :=
  if opeq op "br-neg" then Some (XL [XS (B"ok"); sx_rat (rneg x)])
  else if opeq op "br-simplify" then Some (sx_res sx_rat (simplify oc x))
  else None.

Definition is_br (op : list N) : bool :=
  match op with 98 :: 114 :: _ => true | _ => false end.   (* "br..." *)

(* expressions: ("lit" rat) ("i") ("add" a b) ("sub" a b) ("mul" a b) ("div" a b)
   ("neg" a) ("pow" a b) ("real" a) ("imag" a) ("conj" a) *)
Fixpoint as_cexp_fuel (fuel : nat) (s : sx) : option cexp :=
  match fuel with
  | O => None
  | S f =>
    match s with
    | XL [XS k; a] =>
      if opeq k "lit" then match as_rat a with Some r => Some (CLit r) | None => None end
      else match as_cexp_fuel f a with
           | Some x =>
             if opeq k "neg" then Some (CNeg x)
             else if opeq k "real" then Some (CReal x)
             else if opeq k "imag" then Some (CImag x)
             else if opeq k "conj" then Some (CConj x)
             else None
           | None => None
           end
    | XL [XS k] => if opeq k "i" then Some CI else None
    | XL [XS k; a; b] =>
      match as_cexp_fuel f a, as_cexp_fuel f b with
      | Some x, Some y =>
        if opeq k "add" then Some (CAdd x y)
        else if opeq k "sub" then Some (CSub x y)
        else if opeq k "mul" then Some (CMul x y)
        else if opeq k "div" then Some (CDiv x y)
        else if opeq k "pow" then Some (CPow x y)
        else None
      | _, _ => None
      end
    | _ => None
    end
  end.

Fixpoint sx_depth (s : sx) : nat :=
  match s with
  | XL l => S (fold_right (fun x acc => Nat.max (sx_depth x) acc) O l)
  | _ => 1%nat
  end.

Definition as_cexp (s : sx) : option cexp := as_cexp_fuel (S (sx_depth s)) s.

Definition sx_value (v : value) : sx :=
  XL [sx_bool (snd v); sx_rat (re (fst v)); sx_rat (im (fst v))].

Definition sx_q (q : Q) : sx := XL [XA (Qnum q); XA (Zpos (Qden q))].

Definition sx_cv (c : cv) : sx :=
  match c with
  | CV a b => XL [XS (B"v"); sx_q a; sx_q b]
  | CUndef => XL [XS (B"undef")]
  | COutside => XL [XS (B"outside")]
  end.

Definition run_num : dispatcher := fun op args =>
  match args with
  | [oc; a; b] =>
    if is_br op then
      match as_rat a, as_rat b with
      | Some x, Some y => run_br2 op (as_oc oc) x y
      | _, _ => Some sx_bad
      end
    else
      match as_bu a, as_bu b with
      | Some x, Some y => run_bu2 op (as_oc oc) x y
      | _, _ => Some sx_bad
      end
  | [oc; a] =>
    if opeq op "ex-eval" then
      match as_cexp a with Some e => Some (sx_res sx_value (meval (as_oc oc) e)) | None => Some sx_bad end
    else if opeq op "ex-spec" then
      match as_cexp a with Some e => Some (sx_cv (cval e)) | None => Some sx_bad end
    else if is_br op then
      match as_rat a with
      | Some x => run_br1 op (as_oc oc) x
      | None => Some sx_bad
      end
    else
      match as_bu a with
      | Some x => run_bu1 op (as_oc oc) x
      | None => Some sx_bad
      end
  | _ => None
  end.

Definition run_num_line : list N -> list N := run_with run_num.
