(* Proofs about the BigUint model: every operation against arithmetic on N,
   for arbitrary lengths and non-canonical representations. *)
From Coq Require Import Lia ZifyBool Arith.
From FendV Require Import Base.Prelude Num.BigUint.
Open Scope N_scope.

Arguments N.add : simpl never.
Arguments N.sub : simpl never.
Arguments N.mul : simpl never.
Arguments N.div : simpl never.
Arguments N.modulo : simpl never.
Arguments N.eqb : simpl never.
Arguments N.ltb : simpl never.
Arguments N.leb : simpl never.
Arguments N.pow : simpl never.
Arguments N.compare : simpl never.
Arguments N.lor : simpl never.
Arguments N.land : simpl never.
Arguments N.testbit : simpl never.
Arguments W : simpl never.
Arguments HALF : simpl never.
Arguments QUARTER : simpl never.

Lemma W_eq : W = 2 ^ 64. Proof. reflexivity. Qed.
Lemma W_half : W = 2 * HALF. Proof. reflexivity. Qed.
Lemma HALF_quarter : HALF = 2 * QUARTER. Proof. reflexivity. Qed.
Lemma W_pos : 0 < W. Proof. reflexivity. Qed.
Lemma W_gt1 : 1 < W. Proof. reflexivity. Qed.
Lemma HALF_pos : 0 < HALF. Proof. reflexivity. Qed.
Lemma QUARTER_pos : 0 < QUARTER. Proof. reflexivity. Qed.
Global Opaque W HALF QUARTER.

Lemma Wpow_pos : forall n, 0 < W ^ n.
Proof. intro n. pose proof W_pos. apply N.neq_0_lt_0. apply N.pow_nonzero. lia. Qed.

Lemma Wpow_S : forall n : nat, W ^ N.of_nat (S n) = W * W ^ N.of_nat n.
Proof. intro n. rewrite Nat2N.inj_succ, N.pow_succ_r'. reflexivity. Qed.

Lemma Wpow_add : forall a b : nat, W ^ N.of_nat (a + b) = W ^ N.of_nat a * W ^ N.of_nat b.
Proof. intros. rewrite Nat2N.inj_add, N.pow_add_r. reflexivity. Qed.

(* ------------------------------------------------------------------ *)
(* limbs *)

Definition limbs_ok (v : list N) : Prop := Forall (fun x => x < W) v.

Lemma wf_small : forall n, wf (Small n) = true <-> n < W.
Proof. intro n. unfold wf. lia. Qed.

Lemma forallb_ltW : forall v, forallb (fun x => x <? W) v = true <-> limbs_ok v.
Proof.
  intro v. unfold limbs_ok. rewrite forallb_forall, Forall_forall.
  split; intros H x Hx; specialize (H x Hx); lia.
Qed.

Lemma wf_large : forall v, wf (Large v) = true <-> v <> [] /\ limbs_ok v.
Proof.
  intro v. unfold wf. rewrite andb_true_iff, forallb_ltW.
  destruct v; cbn [negb]; split; intros [HA HB]; split; auto; congruence.
Qed.

Lemma lval_bound : forall v, limbs_ok v -> lval v < W ^ N.of_nat (length v).
Proof.
  induction v as [|x r IH]; intro H.
  - cbn. lia.
  - inversion H as [|? ? Hx Hr]; subst. specialize (IH Hr).
    cbn [lval length]. rewrite Wpow_S. pose proof W_pos. nia.
Qed.

Lemma lval_app : forall a b, lval (a ++ b) = lval a + W ^ N.of_nat (length a) * lval b.
Proof.
  induction a as [|x r IH]; intro b.
  - cbn [app lval length]. change (N.of_nat 0) with 0. rewrite N.pow_0_r. lia.
  - cbn [app lval length]. rewrite IH, Wpow_S. lia.
Qed.

Lemma lval_repeat0 : forall n, lval (repeat 0 n) = 0.
Proof. induction n; cbn [repeat lval]; lia. Qed.

Lemma limbs_ok_app : forall a b, limbs_ok (a ++ b) <-> limbs_ok a /\ limbs_ok b.
Proof. intros. unfold limbs_ok. apply Forall_app. Qed.

Lemma limbs_ok_repeat0 : forall n, limbs_ok (repeat 0 n).
Proof. intro n. unfold limbs_ok. apply Forall_forall. intros x Hx. apply repeat_spec in Hx. subst. apply W_pos. Qed.

(* ------------------------------------------------------------------ *)
(* the view of a biguint as a finitely supported function nat -> N:
   lowval a n = sum_{k<n} get a k * W^k *)

Fixpoint lowval (a : biguint) (n : nat) : N :=
  match n with
  | O => 0
  | S k => lowval a k + get a k * W ^ N.of_nat k
  end.

Lemma nth_overflow0 : forall (v : list N) k, (length v <= k)%nat -> nth k v 0 = 0.
Proof. intros. apply nth_overflow. assumption. Qed.

Lemma get_beyond : forall a k, (value_len a <= k)%nat -> get a k = 0.
Proof.
  intros [n|v] k H; cbn [get value_len] in *.
  - destruct k; [lia|reflexivity].
  - apply nth_overflow0. assumption.
Qed.

Lemma firstn_S_nth : forall (v : list N) n, (n < length v)%nat ->
  firstn (S n) v = firstn n v ++ [nth n v 0].
Proof.
  induction v as [|x r IH]; intros n H; cbn [length] in H; [lia|].
  destruct n as [|n]; [reflexivity|].
  cbn [firstn nth app]. f_equal. apply IH. lia.
Qed.

Lemma lowval_list : forall v n, lowval (Large v) n = lval (firstn n v).
Proof.
  intros v n. induction n as [|n IH].
  - reflexivity.
  - cbn [lowval]. rewrite IH. cbn [get].
    destruct (Nat.le_gt_cases (length v) n) as [Hle|Hgt].
    + rewrite nth_overflow0 by assumption.
      rewrite !firstn_all2 by lia. lia.
    + rewrite firstn_S_nth by assumption.
      rewrite lval_app, firstn_length_le by lia. cbn [lval]. lia.
Qed.

Lemma lowval_val : forall a n, (value_len a <= n)%nat -> lowval a n = val a.
Proof.
  intros [x|v] n H; cbn [value_len val] in *.
  - induction n as [|n IH]; [lia|].
    cbn [lowval]. destruct n as [|n].
    + cbn [lowval get]. change (N.of_nat 0) with 0. rewrite N.pow_0_r. lia.
    + rewrite IH by lia. cbn [get]. lia.
  - rewrite lowval_list, firstn_all2 by assumption. reflexivity.
Qed.

Lemma lowval_ext : forall a b n, (forall k, (k < n)%nat -> get a k = get b k) -> lowval a n = lowval b n.
Proof.
  induction n as [|n IH]; intro H; [reflexivity|].
  cbn [lowval]. rewrite IH, H by (auto with arith). reflexivity.
Qed.

(* get is below W on well-formed numbers *)
Lemma get_lt : forall a k, wf a = true -> get a k < W.
Proof.
  intros [x|v] k H.
  - apply wf_small in H. destruct k; cbn [get]; [assumption|apply W_pos].
  - apply wf_large in H. destruct H as [_ H]. cbn [get].
    destruct (Nat.le_gt_cases (length v) k).
    + rewrite nth_overflow0 by assumption. apply W_pos.
    + unfold limbs_ok in H. rewrite Forall_forall in H. apply H. apply nth_In. assumption.
Qed.

Lemma lowval_bound : forall a n, wf a = true -> lowval a n < W ^ N.of_nat n.
Proof.
  intros a n H. induction n as [|n IH].
  - cbn. lia.
  - cbn [lowval]. rewrite Wpow_S. pose proof (get_lt a n H). pose proof (Wpow_pos (N.of_nat n)). nia.
Qed.

Lemma val_bound : forall a, wf a = true -> val a < W ^ N.of_nat (value_len a).
Proof. intros a H. rewrite <- (lowval_val a (value_len a)) by lia. apply lowval_bound. assumption. Qed.

(* ------------------------------------------------------------------ *)
(* set *)

Lemma set_list_length : forall l i x, length (set_list l i x) = Nat.max (length l) (S i).
Proof.
  intros l i. revert l. induction i as [|i IH]; intros [|y r] x; cbn [set_list length].
  - reflexivity.
  - lia.
  - rewrite IH. cbn [length]. lia.
  - rewrite IH. lia.
Qed.

Lemma set_list_nth : forall l i x k, nth k (set_list l i x) 0 = if Nat.eqb k i then x else nth k l 0.
Proof.
  intros l i. revert l. induction i as [|i IH]; intros [|y r] x k; cbn [set_list].
  - destruct k as [|[|k]]; reflexivity.
  - destruct k; reflexivity.
  - destruct k; [reflexivity|]. cbn [nth]. rewrite IH. cbn [Nat.eqb]. destruct (Nat.eqb k i); [reflexivity|]. destruct k; reflexivity.
  - destruct k; [reflexivity|]. cbn [nth]. rewrite IH. reflexivity.
Qed.

Lemma set_list_ok : forall l i x, limbs_ok l -> x < W -> limbs_ok (set_list l i x).
Proof.
  intros l i. revert l. induction i as [|i IH]; intros [|y r] x Hl Hx; cbn [set_list].
  - constructor; [assumption|constructor].
  - inversion Hl; subst. constructor; assumption.
  - constructor; [apply W_pos|]. apply IH; [constructor|assumption].
  - inversion Hl; subst. constructor; [assumption|]. apply IH; assumption.
Qed.

Lemma set_list_nonempty : forall l i x, set_list l i x <> [].
Proof. intros l [|i] x; destruct l; cbn [set_list]; congruence. Qed.

Lemma get_set : forall a i x k, get (set a i x) k = if Nat.eqb k i then x else get a k.
Proof.
  intros [n|v] i x k; cbn [set].
  - destruct i as [|i].
    + cbn [get]. destruct k; reflexivity.
    + destruct (N.eqb_spec x 0) as [E|E].
      * subst. cbn [get]. destruct k as [|k]; [reflexivity|].
        destruct (Nat.eqb (S k) (S i)); reflexivity.
      * cbn [get]. rewrite set_list_nth.
        destruct (Nat.eqb k (S i)); [reflexivity|]. destruct k as [|[|k]]; reflexivity.
  - cbn [get]. apply set_list_nth.
Qed.

Lemma wf_set : forall a i x, wf a = true -> x < W -> wf (set a i x) = true.
Proof.
  intros [n|v] i x Ha Hx; cbn [set].
  - apply wf_small in Ha. destruct i.
    + apply wf_small. assumption.
    + destruct (x =? 0).
      * apply wf_small. assumption.
      * apply wf_large. split; [apply set_list_nonempty|].
        apply set_list_ok; [|assumption]. constructor; [assumption|constructor].
  - apply wf_large in Ha. destruct Ha as [_ Ha]. apply wf_large.
    split; [apply set_list_nonempty|]. apply set_list_ok; assumption.
Qed.

Lemma value_len_set_le : forall a i x, (value_len (set a i x) <= Nat.max (value_len a) (S i))%nat.
Proof.
  intros [n|v] i x; cbn [set].
  - destruct i; cbn [value_len]; [lia|].
    destruct (x =? 0); cbn [value_len]; [lia|]. rewrite set_list_length. cbn [length]. lia.
  - cbn [value_len]. rewrite set_list_length. lia.
Qed.

(* the length of a Large after set is exact *)
Lemma value_len_set_large : forall v i x, value_len (set (Large v) i x) = Nat.max (length v) (S i).
Proof. intros. cbn [set value_len]. apply set_list_length. Qed.

Lemma lowval_set_above : forall a i x n, (n <= i)%nat -> lowval (set a i x) n = lowval a n.
Proof.
  intros a i x n H. apply lowval_ext. intros k Hk. rewrite get_set.
  destruct (Nat.eqb_spec k i); [lia|reflexivity].
Qed.

Lemma lowval_set_below : forall a i x n, (i < n)%nat ->
  lowval (set a i x) n + get a i * W ^ N.of_nat i = lowval a n + x * W ^ N.of_nat i.
Proof.
  intros a i x n. induction n as [|n IH]; intro H; [lia|].
  cbn [lowval]. rewrite get_set.
  destruct (Nat.eqb_spec n i) as [E|E].
  - subst n. rewrite lowval_set_above by lia. lia.
  - assert (Hi : (i < n)%nat) by lia. specialize (IH Hi). lia.
Qed.

Lemma val_set : forall a i x,
  val (set a i x) + get a i * W ^ N.of_nat i = val a + x * W ^ N.of_nat i.
Proof.
  intros a i x.
  pose proof (value_len_set_le a i x) as Hl.
  set (n := Nat.max (value_len a) (S i)) in *.
  rewrite <- (lowval_val (set a i x) n) by assumption.
  rewrite <- (lowval_val a n) by lia.
  apply lowval_set_below. lia.
Qed.

(* ------------------------------------------------------------------ *)
(* add_assign_internal *)

Definition oget (o : biguint) (s i : nat) : N := if Nat.leb s i then get o (i - s) else 0.

Fixpoint shval (o : biguint) (s n : nat) : N :=
  match n with
  | O => 0
  | S k => shval o s k + oget o s k * W ^ N.of_nat k
  end.

Lemma shval_low : forall o s n, (n <= s)%nat -> shval o s n = 0.
Proof.
  intros o s n. induction n as [|n IH]; intro H; [reflexivity|].
  cbn [shval]. rewrite IH by lia. unfold oget.
  destruct (Nat.leb_spec s n); [lia|]. lia.
Qed.

Lemma shval_shift : forall o s m, shval o s (s + m) = W ^ N.of_nat s * lowval o m.
Proof.
  intros o s m. induction m as [|m IH].
  - rewrite Nat.add_0_r, shval_low by lia. cbn [lowval]. lia.
  - rewrite Nat.add_succ_r. cbn [shval lowval]. rewrite IH. unfold oget.
    destruct (Nat.leb_spec s (s + m)); [|lia].
    replace (s + m - s)%nat with m by lia. rewrite Wpow_add. lia.
Qed.

Lemma shval_val : forall o s n, (value_len o + s <= n)%nat -> shval o s n = val o * W ^ N.of_nat s.
Proof.
  intros o s n H. replace n with (s + (n - s))%nat by lia.
  rewrite shval_shift, lowval_val by lia. lia.
Qed.

Lemma oget_lt : forall o s i, wf o = true -> oget o s i < W.
Proof. intros. unfold oget. destruct (Nat.leb s i); [apply get_lt; assumption|apply W_pos]. Qed.

Lemma limb_step : forall a b d c, a < W -> b < W -> d < W -> c < W ->
  (a + b * d + c) mod W < W /\ (a + b * d + c) / W < W /\
  (a + b * d + c) mod W + W * ((a + b * d + c) / W) = a + b * d + c.
Proof.
  intros a b d c Ha Hb Hd Hc. pose proof W_pos.
  split; [apply N.mod_lt; lia|]. split.
  - apply N.div_lt_upper_bound; [lia|]. nia.
  - rewrite (N.div_mod (a + b * d + c) W) at 3 by lia. lia.
Qed.

Lemma aai_loop_spec : forall cnt i self o d s c self' c',
  aai_loop cnt i self o d s c = (self', c') ->
  wf self = true -> wf o = true -> d < W -> c < W ->
  wf self' = true /\ c' < W /\
  lowval self' (i + cnt) + W ^ N.of_nat (i + cnt) * c' + d * shval o s i
    = lowval self (i + cnt) + d * shval o s (i + cnt) + W ^ N.of_nat i * c /\
  (forall k, (i + cnt <= k)%nat -> get self' k = get self k) /\
  (value_len self' <= Nat.max (value_len self) (i + cnt))%nat /\
  (forall v, self = Large v -> (i <= length v)%nat ->
     exists v', self' = Large v' /\ length v' = Nat.max (length v) (i + cnt)) /\
  (forall x, self = Small x -> (0 < cnt)%nat ->
     (exists x', self' = Small x') \/ (exists v', self' = Large v' /\ length v' = (i + cnt)%nat)).
Proof.
  induction cnt as [|cnt IH]; intros i self o d s c self' c' E Hs Ho Hd Hc.
  - cbn [aai_loop] in E. inversion E; subst self' c'. rewrite Nat.add_0_r.
    split; [assumption|]. split; [assumption|]. split; [lia|]. split; [auto|]. split; [lia|]. split.
    + intros v Hv Hl. exists v. split; [assumption|lia].
    + intros x Hx Hcnt. lia.
  - cbn [aai_loop] in E.
    fold (oget o s i) in E.
    set (a := get self i) in *. set (b := oget o s i) in *.
    pose proof (get_lt self i Hs) as Ha. fold a in Ha.
    pose proof (oget_lt o s i Ho) as Hb. fold b in Hb.
    destruct (limb_step a b d c Ha Hb Hd Hc) as (Hm & Hq & Hsum).
    set (sum := a + b * d + c) in *.
    assert (Hs1 : wf (set self i (sum mod W)) = true) by (apply wf_set; assumption).
    specialize (IH (S i) _ o d s _ self' c' E Hs1 Ho Hd Hq).
    destruct IH as (Hw & Hc' & Hval & Hhigh & Hlen & HL & HS).
    replace (S i + cnt)%nat with (i + S cnt)%nat in * by lia.
    split; [assumption|]. split; [assumption|]. split; [|split; [|split; [|split]]].
    + pose proof (lowval_set_below self i (sum mod W) (i + S cnt)) as Hset.
      fold a in Hset. cbn [shval] in Hval. fold b in Hval. rewrite Wpow_S in Hval.
      assert (Hlt : (i < i + S cnt)%nat) by lia. specialize (Hset Hlt).
      pose proof (Wpow_pos (N.of_nat i)). nia.
    + intros k Hk. rewrite Hhigh by lia. rewrite get_set.
      destruct (Nat.eqb_spec k i); [lia|reflexivity].
    + pose proof (value_len_set_le self i (sum mod W)). lia.
    + intros v Hv Hl. subst self.
      destruct (HL (set_list v i (sum mod W)) eq_refl) as (v' & E1 & E2).
      { rewrite set_list_length. lia. }
      exists v'. split; [assumption|]. rewrite E2, set_list_length. lia.
    + intros x Hx _. subst self. cbn [set] in *.
      destruct i as [|i].
      * destruct cnt as [|cnt].
        { cbn [aai_loop] in E. inversion E. left. eauto. }
        { apply (HS _ eq_refl). lia. }
      * destruct (sum mod W =? 0).
        { destruct cnt as [|cnt].
          - cbn [aai_loop] in E. inversion E. left. eauto.
          - apply (HS _ eq_refl). lia. }
        { right. destruct (HL _ eq_refl) as (v' & E1 & E2).
          - rewrite set_list_length. cbn [length]. lia.
          - exists v'. split; [assumption|]. rewrite E2, set_list_length. cbn [length]. lia. }
Qed.

Lemma wf_value_push : forall a x, wf a = true -> x < W -> wf (value_push a x) = true.
Proof.
  intros a x Ha Hx. unfold value_push. destruct (x =? 0); [assumption|].
  destruct a as [n|v]; cbn [make_large].
  - apply wf_small in Ha. apply wf_large. split; [discriminate|].
    constructor; [assumption|constructor; [assumption|constructor]].
  - apply wf_large in Ha. destruct Ha as [Hne Hok]. apply wf_large. split.
    + destruct v; [congruence|discriminate].
    + apply limbs_ok_app. split; [assumption|constructor; [assumption|constructor]].
Qed.

(* add_assign_internal (current code: the final carry is stored at limb n) *)
Lemma aai_spec : forall self o d s,
  wf self = true -> wf o = true -> d < W ->
  wf (add_assign_internal self o d s) = true /\
  val (add_assign_internal self o d s) = val self + d * val o * W ^ N.of_nat s.
Proof.
  intros self o d s Hs Ho Hd. unfold add_assign_internal.
  set (n := Nat.max (value_len self) (value_len o + s)).
  destruct (aai_loop n 0 self o d s 0) as [self' c'] eqn:E.
  destruct (aai_loop_spec n 0 self o d s 0 self' c' E Hs Ho Hd W_pos)
    as (Hw & Hc' & Hval & _ & Hlen & _ & _).
  cbn [Nat.add shval] in *. change (N.of_nat 0) with 0 in Hval. rewrite N.pow_0_r in Hval.
  rewrite (lowval_val self n) in Hval by lia.
  rewrite (shval_val o s n) in Hval by lia.
  rewrite (lowval_val self' n) in Hval by lia.
  destruct (N.eqb_spec c' 0) as [Ec|Ec].
  - split; [assumption|]. subst c'. lia.
  - split; [apply wf_set; assumption|].
    pose proof (val_set self' n c') as Vs. rewrite get_beyond in Vs by lia. lia.
Qed.

Lemma add_spec : forall a b, wf a = true -> wf b = true ->
  wf (add a b) = true /\ val (add a b) = val a + val b.
Proof.
  intros a b Ha Hb. unfold add.
  destruct (aai_spec a b 1 0 Ha Hb W_gt1) as [H1 H2]. split; [assumption|].
  rewrite H2. change (N.of_nat 0) with 0. rewrite N.pow_0_r. lia.
Qed.

(* the OLD add_assign_internal (before fcf264e) is correct outside the lost-carry class *)
Lemma aai_old_spec : forall self o d s,
  wf self = true -> wf o = true -> d < W -> aai_known self o d s = false ->
  wf (add_assign_internal_old self o d s) = true /\
  val (add_assign_internal_old self o d s) = val self + d * val o * W ^ N.of_nat s.
Proof.
  intros self o d s Hs Ho Hd Hk. unfold add_assign_internal_old.
  set (n := Nat.max (value_len self) (value_len o + s)).
  destruct (aai_loop n 0 self o d s 0) as [self' c'] eqn:E.
  destruct (aai_loop_spec n 0 self o d s 0 self' c' E Hs Ho Hd W_pos)
    as (Hw & Hc' & Hval & _ & Hlen & HL & HS).
  cbn [Nat.add shval] in *. change (N.of_nat 0) with 0 in Hval. rewrite N.pow_0_r in Hval.
  rewrite (lowval_val self n) in Hval by lia.
  rewrite (shval_val o s n) in Hval by lia.
  destruct (N.eqb_spec c' 0) as [Ec|Ec].
  - split; [assumption|]. subst c'. rewrite (lowval_val self' n) in Hval by lia. lia.
  - split; [apply wf_value_push; assumption|].
    unfold value_push. destruct (N.eqb_spec c' 0); [contradiction|].
    destruct self as [x|v].
    + (* Small self: the carry is placed right only if the loop made it Large *)
      assert (Hn : (0 < n)%nat) by (unfold n; cbn [value_len]; lia).
      destruct (HS x eq_refl Hn) as [(x' & Ex)|(v' & Ev & Lv)].
      * subst self'. cbn [make_large val lval app].
        (* here n must be 1, otherwise the input is in the known class *)
        unfold aai_known in Hk. cbn [value_len] in n. fold n in Hk.
        destruct (Nat.ltb_spec 1 n) as [Hn2|Hn1].
        { cbn [andb] in Hk. apply N.leb_gt in Hk.
          rewrite (lowval_val (Small x') n) in Hval by (cbn [value_len]; lia).
          cbn [val] in Hval. pose proof (Wpow_pos (N.of_nat n)). nia. }
        { assert (n = 1%nat) by lia.
          rewrite (lowval_val (Small x') n) in Hval by (cbn [value_len]; lia).
          cbn [val] in Hval. replace n with 1%nat in Hval by lia.
          change (N.of_nat 1) with 1 in Hval. rewrite N.pow_1_r in Hval. lia. }
      * subst self'. cbn [make_large val]. rewrite lval_app, Lv. cbn [lval].
        rewrite (lowval_val (Large v') n) in Hval by (cbn [value_len]; lia).
        cbn [val] in Hval. lia.
    + destruct (HL v eq_refl) as (v' & Ev & Lv); [lia|].
      subst self'. cbn [make_large val]. rewrite lval_app. cbn [lval].
      assert (length v' = n) by (rewrite Lv; unfold n; cbn [value_len]; lia).
      rewrite (lowval_val (Large v') n) in Hval by (cbn [value_len]; lia).
      cbn [val] in Hval. replace (length v') with n by lia. lia.
Qed.

Lemma add_old_spec_except_known : forall a b,
  wf a = true -> wf b = true -> add_known a b = false ->
  wf (add_old a b) = true /\ val (add_old a b) = val a + val b.
Proof.
  intros a b Ha Hb Hk. unfold add_old.
  destruct (aai_old_spec a b 1 0 Ha Hb W_gt1 Hk) as [H1 H2]. split; [assumption|].
  rewrite H2. change (N.of_nat 0) with 0. rewrite N.pow_0_r. lia.
Qed.

(* a Large left operand is never in the class *)
Lemma add_known_large : forall v b, add_known (Large v) b = false.
Proof. reflexivity. Qed.

(* the defect: 2^64-1 + (2^128 - 2^64 + 1) = 2^64 instead of 2^128 *)
Lemma add_old_refuted_witness :
  let a := Small (W - 1) in let b := Large [1; W - 1] in
  wf a = true /\ wf b = true /\ val (add_old a b) <> val a + val b /\ add_known a b = true /\
  val (add a b) = val a + val b.
Proof. vm_compute. repeat split; congruence. Qed.

(* ------------------------------------------------------------------ *)
(* bit-level facts used by the shifts and the long division *)

Lemma lor_add_disjoint : forall a b n, a < 2 ^ n -> N.lor a (b * 2 ^ n) = a + b * 2 ^ n.
Proof.
  intros a b n Ha.
  assert (Hl : N.land a (b * 2 ^ n) = 0).
  { apply N.bits_inj_0. intro m. rewrite N.land_spec.
    destruct (N.lt_ge_cases m n) as [Hm|Hm].
    - rewrite N.mul_pow2_bits_low by assumption. apply andb_false_r.
    - rewrite <- (N.mod_small a (2 ^ n)) by assumption.
      rewrite N.mod_pow2_bits_high by assumption. reflexivity. }
  rewrite <- N.lxor_lor by assumption. symmetry. apply N.add_nocarry_lxor. assumption.
Qed.

Lemma lor_even_bit : forall k c, c < 2 -> N.lor (2 * k) c = 2 * k + c.
Proof.
  intros k c Hc. rewrite N.lor_comm.
  replace (2 * k) with (k * 2 ^ 1) by (rewrite N.pow_1_r; lia).
  rewrite lor_add_disjoint by (rewrite N.pow_1_r; assumption). lia.
Qed.

Lemma HALF_eq : HALF = 2 ^ 63. Proof. reflexivity. Qed.
Lemma QUARTER_eq : QUARTER = 2 ^ 62. Proof. reflexivity. Qed.

Lemma lor_half : forall y b, y < HALF -> N.lor y (b * HALF) = y + b * HALF.
Proof. intros y b Hy. rewrite HALF_eq in *. apply lor_add_disjoint. assumption. Qed.

Lemma b2n_testbit : forall x j, (if N.testbit x j then 1 else 0) = (x / 2 ^ j) mod 2.
Proof. intros x j. rewrite <- N.testbit_spec'. destruct (N.testbit x j); reflexivity. Qed.

Lemma land_1 : forall x, N.land x 1 = x mod 2.
Proof. intro x. change 1 with (N.ones 1) at 1. rewrite N.land_ones. rewrite N.pow_1_r. reflexivity. Qed.

(* setting bit j in a limb whose bits 0..j are clear *)
Lemma lor_setbit : forall k j, N.lor (k * 2 ^ (j + 1)) (2 ^ j) = k * 2 ^ (j + 1) + 2 ^ j.
Proof.
  intros k j. rewrite N.lor_comm.
  rewrite lor_add_disjoint; [lia|].
  apply N.pow_lt_mono_r; lia.
Qed.

(* ------------------------------------------------------------------ *)
(* cmp *)

Lemma cmp_loop_spec : forall i a b, wf a = true -> wf b = true ->
  cmp_loop i a b = N.compare (lowval a i) (lowval b i).
Proof.
  induction i as [|i IH]; intros a b Ha Hb.
  - reflexivity.
  - cbn [cmp_loop lowval].
    pose proof (lowval_bound a i Ha). pose proof (lowval_bound b i Hb).
    pose proof (Wpow_pos (N.of_nat i)).
    destruct (N.compare_spec (get a i) (get b i)) as [E|E|E].
    + rewrite IH by assumption. rewrite E.
      destruct (N.compare_spec (lowval a i) (lowval b i)) as [E2|E2|E2]; symmetry.
      * apply N.compare_eq_iff. lia.
      * apply N.compare_lt_iff. lia.
      * apply N.compare_gt_iff. lia.
    + symmetry. apply N.compare_lt_iff. nia.
    + symmetry. apply N.compare_gt_iff. nia.
Qed.

Lemma cmp_spec : forall a b, wf a = true -> wf b = true ->
  cmp a b = N.compare (val a) (val b).
Proof.
  intros a b Ha Hb.
  assert (G : cmp_loop (Nat.max (value_len a) (value_len b)) a b = N.compare (val a) (val b)).
  { rewrite cmp_loop_spec by assumption. rewrite !lowval_val by lia. reflexivity. }
  destruct a, b; cbn [cmp]; try exact G. reflexivity.
Qed.

Lemma is_lt_spec : forall a b, wf a = true -> wf b = true -> is_lt a b = (val a <? val b).
Proof.
  intros. unfold is_lt. rewrite cmp_spec by assumption.
  destruct (N.compare_spec (val a) (val b)); lia.
Qed.
Lemma is_eq_spec : forall a b, wf a = true -> wf b = true -> is_eq a b = (val a =? val b).
Proof.
  intros. unfold is_eq. rewrite cmp_spec by assumption.
  destruct (N.compare_spec (val a) (val b)); lia.
Qed.
Lemma is_ge_spec : forall a b, wf a = true -> wf b = true -> is_ge a b = (val b <=? val a).
Proof.
  intros. unfold is_ge. rewrite cmp_spec by assumption.
  destruct (N.compare_spec (val a) (val b)); lia.
Qed.

Lemma is_zero_spec : forall a, is_zero a = (val a =? 0).
Proof.
  intros [n|v]; cbn [is_zero val]; [reflexivity|].
  induction v as [|x r IH]; cbn [forallb lval]; [reflexivity|].
  rewrite IH. pose proof W_pos. destruct (N.eqb_spec x 0), (N.eqb_spec (lval r) 0); cbn [andb]; nia.
Qed.

(* ------------------------------------------------------------------ *)
(* sub *)

Fixpoint oseg (o : biguint) (i m : nat) : N :=
  match m with
  | O => 0
  | S m' => get o i + W * oseg o (S i) m'
  end.

Lemma oseg_top : forall o m i, oseg o i (S m) = oseg o i m + get o (i + m) * W ^ N.of_nat m.
Proof.
  intros o m. induction m as [|m IH]; intro i.
  - cbn [oseg]. rewrite Nat.add_0_r. change (N.of_nat 0) with 0. rewrite N.pow_0_r. lia.
  - change (oseg o i (S (S m))) with (get o i + W * oseg o (S i) (S m)).
    rewrite IH. cbn [oseg]. rewrite Wpow_S. replace (S i + m)%nat with (i + S m)%nat by lia. lia.
Qed.

Lemma oseg_lowval : forall o m, oseg o 0 m = lowval o m.
Proof.
  intros o m. induction m as [|m IH]; [reflexivity|].
  rewrite oseg_top, IH. reflexivity.
Qed.

Lemma sub_step : forall a b c, a < W -> b < W -> c <= 1 ->
  if negb ((b =? W - 1) && (c =? 1)) && (b + c <=? a)
  then (a - b - c) + b + c = a /\ a - b - c < W
  else (a + W - b - c) mod W + b + c = a + W /\ (a + W - b - c) mod W < W.
Proof.
  intros a b c Ha Hb Hc. pose proof W_gt1.
  destruct (N.eqb_spec b (W - 1)) as [E1|E1]; destruct (N.eqb_spec c 1) as [E2|E2];
    cbn [andb negb].
  1: { subst. replace (a + W - (W - 1) - 1) with a by lia. rewrite N.mod_small by lia. lia. }
  all: destruct (N.leb_spec (b + c) a) as [L|L]; [lia | rewrite N.mod_small by lia; lia].
Qed.

Lemma sub_loop_spec : forall res i o c res' c',
  sub_loop res i o c = (res', c') -> limbs_ok res -> wf o = true -> c <= 1 ->
  limbs_ok res' /\ length res' = length res /\ c' <= 1 /\
  lval res' + oseg o i (length res) + c = lval res + W ^ N.of_nat (length res) * c'.
Proof.
  induction res as [|a r IH]; intros i o c res' c' E Hr Ho Hc.
  - cbn [sub_loop] in E. inversion E; subst. cbn [length lval oseg].
    change (N.of_nat 0) with 0. rewrite N.pow_0_r.
    repeat split; try assumption; try lia.
  - cbn [sub_loop] in E. inversion Hr as [|? ? Ha Hr']; subst.
    pose proof (get_lt o i Ho) as Hb.
    pose proof (sub_step a (get o i) c Ha Hb Hc) as St.
    destruct (negb ((get o i =? W - 1) && (c =? 1)) && (get o i + c <=? a)).
    + destruct (sub_loop r (S i) o 0) as [r' c1] eqn:E1. inversion E; subst res' c'.
      destruct (IH _ _ _ _ _ E1 Hr' Ho) as (H1 & H2 & H3 & H4); [lia|].
      cbn [length lval oseg]. rewrite Wpow_S.
      split; [constructor; [lia|assumption]|]. split; [lia|]. split; [assumption|]. nia.
    + destruct (sub_loop r (S i) o 1) as [r' c1] eqn:E1. inversion E; subst res' c'.
      destruct (IH _ _ _ _ _ E1 Hr' Ho) as (H1 & H2 & H3 & H4); [lia|].
      cbn [length lval oseg]. rewrite Wpow_S.
      split; [constructor; [lia|assumption]|]. split; [lia|]. split; [assumption|]. nia.
Qed.

Lemma oseg_val : forall o m, (value_len o <= m)%nat -> oseg o 0 m = val o.
Proof. intros. rewrite oseg_lowval. apply lowval_val. assumption. Qed.

Lemma sub_spec : forall oc a b, wf a = true -> wf b = true -> val b <= val a ->
  exists r, sub oc a b = Ok r /\ wf r = true /\ val r = val a - val b.
Proof.
  intros oc a b Ha Hb Hle.
  assert (G : forall res, res = (match a with Large x => x | Small v => [v] end) ->
     match cmp a b with
     | Eq => Ok (Small 0)
     | Lt => Panic P_sub_unreachable
     | Gt => if is_zero b then Ok a
             else let res := resize_up res (value_len b) in
                  let '(res', carry) := sub_loop res 0 b 0 in
                  if carry =? 0 then Ok (Large res') else Panic P_sub_assert
     end = sub oc a b \/ (exists x y, a = Small x /\ b = Small y)).
  { intros res Hres. subst res. destruct a, b; cbn [sub]; eauto. }
  specialize (G _ eq_refl). destruct G as [G|(x & y & Ea & Eb)].
  - rewrite <- G. rewrite cmp_spec by assumption.
    destruct (N.compare_spec (val a) (val b)) as [E|E|E].
    + exists (Small 0). split; [reflexivity|]. split; [reflexivity|]. cbn [val]. lia.
    + lia.
    + rewrite is_zero_spec. destruct (N.eqb_spec (val b) 0) as [Z|Z].
      * exists a. split; [reflexivity|]. split; [assumption|]. lia.
      * set (res0 := match a with Large x => x | Small v => [v] end).
        assert (Hres0 : limbs_ok res0 /\ lval res0 = val a /\ res0 <> []).
        { unfold res0. destruct a as [n|v].
          - apply wf_small in Ha. cbn [lval val]. split; [constructor; [assumption|constructor]|].
            split; [lia|discriminate].
          - apply wf_large in Ha. destruct Ha. cbn [val]. auto. }
        destruct Hres0 as (Hok0 & Hv0 & Hne0).
        set (res := resize_up res0 (value_len b)).
        assert (Hres : limbs_ok res /\ lval res = val a /\ (value_len b <= length res)%nat /\ res <> []).
        { unfold res, resize_up. destruct (Nat.ltb_spec (length res0) (value_len b)).
          - split; [apply limbs_ok_app; split; [assumption|apply limbs_ok_repeat0]|].
            split; [rewrite lval_app, lval_repeat0; lia|].
            split; [rewrite app_length, repeat_length; lia|].
            destruct res0; [congruence|discriminate].
          - auto. }
        destruct Hres as (Hok & Hv & Hlen & Hne).
        cbv zeta. destruct (sub_loop res 0 b 0) as [res' c'] eqn:E1.
        destruct (sub_loop_spec _ _ _ _ _ _ E1 Hok Hb) as (H1 & H2 & H3 & H4); [lia|].
        rewrite oseg_val in H4 by assumption.
        pose proof (lval_bound res' H1) as Hb'. rewrite H2 in Hb'.
        pose proof (lval_bound res Hok) as Hb2.
        assert (c' = 0) by nia. subst c'.
        exists (Large res'). split; [reflexivity|]. split.
        { apply wf_large. split; [|assumption]. intro Z'. subst res'. cbn in H2. destruct res; [congruence|discriminate]. }
        cbn [val]. lia.
  - subst a b. cbn [val] in *. cbn [sub]. destruct (N.leb_spec y x); [|lia].
    exists (Small (x - y)). split; [reflexivity|]. split; [|reflexivity].
    apply wf_small in Ha. apply wf_small. lia.
Qed.

(* sub panics exactly when the result would be negative (overflow-checked
   build); without overflow checks the Small/Small case wraps instead *)
Lemma sub_panic_iff : forall a b, wf a = true -> wf b = true ->
  (exists k, sub true a b = Panic k) <-> val a < val b.
Proof.
  intros a b Ha Hb. split.
  - intros [k Hk]. destruct (N.lt_ge_cases (val a) (val b)) as [L|L]; [assumption|].
    destruct (sub_spec true a b Ha Hb L) as (r & Hr & _). congruence.
  - intro L. destruct a as [x|va], b as [y|vb]; cbn [sub].
    + cbn [val] in L. destruct (N.leb_spec y x); [lia|]. eauto.
    + rewrite cmp_spec by assumption. apply N.compare_lt_iff in L. rewrite L. eauto.
    + rewrite cmp_spec by assumption. apply N.compare_lt_iff in L. rewrite L. eauto.
    + rewrite cmp_spec by assumption. apply N.compare_lt_iff in L. rewrite L. eauto.
Qed.

Lemma sub_wrap_unchecked : forall x y, x < y ->
  sub false (Small x) (Small y) = Ok (Small (x + W - y)).
Proof. intros x y L. cbn [sub]. destruct (N.leb_spec y x); [lia|reflexivity]. Qed.

(* ------------------------------------------------------------------ *)
(* lshift / rshift *)

Fixpoint lsh_out (c : N) (v : list N) : N :=
  match v with [] => c | x :: r => lsh_out (x / HALF) r end.

Lemma limb_double : forall x, x < W -> (2 * x) mod W = 2 * (x mod HALF) /\ x = HALF * (x / HALF) + x mod HALF /\ x / HALF < 2.
Proof.
  intros x Hx. pose proof HALF_pos. rewrite W_half in *.
  split; [|split].
  - rewrite N.mul_mod_distr_l by lia. reflexivity.
  - apply N.div_mod. lia.
  - apply N.div_lt_upper_bound; lia.
Qed.

Lemma lshift_limbs_spec : forall v c, limbs_ok v -> c < 2 ->
  limbs_ok (lshift_limbs c v) /\ length (lshift_limbs c v) = length v /\
  lval (lshift_limbs c v) + W ^ N.of_nat (length v) * lsh_out c v = 2 * lval v + c.
Proof.
  induction v as [|x r IH]; intros c Hv Hc.
  - cbn [lshift_limbs lval length lsh_out]. change (N.of_nat 0) with 0. rewrite N.pow_0_r.
    split; [constructor|]. split; [reflexivity|lia].
  - inversion Hv as [|? ? Hx Hr]; subst.
    destruct (limb_double x Hx) as (D1 & D2 & D3).
    destruct (IH (x / HALF) Hr D3) as (I1 & I2 & I3).
    cbn [lshift_limbs lval length lsh_out]. rewrite Wpow_S.
    rewrite D1, lor_even_bit by assumption.
    pose proof (N.mod_lt x HALF) as Hm. pose proof HALF_pos.
    split; [constructor; [rewrite W_half; lia|assumption]|].
    split; [lia|]. rewrite W_half in *. nia.
Qed.

Lemma lsh_out_last : forall v c, v <> [] -> lsh_out c v = last v 0 / HALF.
Proof.
  induction v as [|x r IH]; intros c Hne; [congruence|].
  destruct r as [|y r']; [reflexivity|].
  change (lsh_out c (x :: y :: r')) with (lsh_out (x / HALF) (y :: r')).
  rewrite IH by discriminate. reflexivity.
Qed.

Lemma last_app1 : forall (v : list N) x, last (v ++ [x]) 0 = x.
Proof. intros. apply last_last. Qed.

Lemma limbs_ok_last : forall v, limbs_ok v -> last v 0 < W.
Proof.
  induction v as [|x r IH]; intro H; [apply W_pos|].
  inversion H; subst. destruct r; [assumption|]. apply IH. assumption.
Qed.

Lemma lshift_spec : forall a, wf a = true ->
  exists r, lshift a = Ok r /\ wf r = true /\ val r = 2 * val a.
Proof.
  intros [n|v] Ha; cbn [lshift].
  - apply wf_small in Ha. pose proof QUARTER_pos.
    destruct (N.eqb_spec (n / QUARTER) 0) as [E|E].
    + exists (Small (2 * n)). split; [reflexivity|]. split; [|reflexivity].
      apply wf_small. apply N.div_small_iff in E; [|lia]. rewrite W_half, HALF_quarter. lia.
    + exists (Large [(2 * n) mod W; n / HALF]). split; [reflexivity|].
      destruct (limb_double n Ha) as (D1 & D2 & D3). pose proof W_gt1.
      split.
      * apply wf_large. split; [discriminate|].
        constructor; [apply N.mod_lt; lia|constructor; [lia|constructor]].
      * cbn [val lval]. rewrite D1. rewrite W_half in *. lia.
  - apply wf_large in Ha. destruct Ha as [Hne Hok].
    destruct v as [|x0 r0] eqn:Ev; [congruence|]. rewrite <- Ev in *.
    set (v' := if HALF <=? last v 0 then v ++ [0] else v).
    assert (Hv' : limbs_ok v' /\ lval v' = lval v /\ v' <> [] /\ last v' 0 < HALF).
    { unfold v'. destruct (N.leb_spec HALF (last v 0)).
      - split; [apply limbs_ok_app; split; [assumption|constructor; [apply W_pos|constructor]]|].
        split; [rewrite lval_app; cbn [lval]; lia|].
        split; [destruct v; discriminate|]. rewrite last_app1. apply HALF_pos.
      - auto. }
    destruct Hv' as (H1 & H2 & H3 & H4).
    assert (Hc : (0:N) < 2) by lia.
    destruct (lshift_limbs_spec v' 0 H1 Hc) as (L1 & L2 & L3).
    rewrite lsh_out_last in L3 by assumption.
    rewrite N.div_small in L3 by assumption.
    exists (Large (lshift_limbs 0 v')). split; [reflexivity|]. split.
    + apply wf_large. split; [|assumption]. intro Z. rewrite Z in L2. destruct v'; [congruence|discriminate].
    + cbn [val]. lia.
Qed.

Lemma rshift_limbs_spec : forall v, limbs_ok v ->
  limbs_ok (rshift_limbs v) /\ length (rshift_limbs v) = length v /\
  2 * lval (rshift_limbs v) + (match v with [] => 0 | x :: _ => x mod 2 end) = lval v.
Proof.
  induction v as [|x r IH]; intro Hv.
  - cbn. split; [constructor|]. split; [reflexivity|lia].
  - inversion Hv as [|? ? Hx Hr]; subst. destruct (IH Hr) as (I1 & I2 & I3).
    cbn [rshift_limbs lval length].
    set (next := match r with [] => 0 | y :: _ => y end) in *.
    assert (Hn : (next * HALF) mod W = (next mod 2) * HALF).
    { rewrite W_half. rewrite (N.mul_comm next), (N.mul_comm 2).
      pose proof HALF_pos. rewrite N.mul_mod_distr_l by lia. lia. }
    rewrite Hn.
    assert (Hx2 : x / 2 < HALF).
    { apply N.div_lt_upper_bound; [lia|]. rewrite <- W_half. assumption. }
    rewrite lor_half by assumption.
    pose proof (N.mod_lt next 2). pose proof (N.div_mod x 2). pose proof (N.mod_lt x 2).
    split; [constructor; [rewrite W_half; nia|assumption]|].
    split; [lia|].
    assert (Hnext : next mod 2 = match r with [] => 0 | y :: _ => y mod 2 end).
    { unfold next. destruct r; reflexivity. }
    rewrite <- Hnext in I3. rewrite W_half in *. nia.
Qed.

Lemma rshift_spec : forall a, wf a = true ->
  wf (rshift a) = true /\ val (rshift a) = val a / 2 /\ get a 0 mod 2 = val a mod 2.
Proof.
  intros [n|v] Ha; cbn [rshift].
  - apply wf_small in Ha. cbn [val get]. split; [|auto].
    apply wf_small. pose proof (N.div_le_upper_bound n 2 n). apply N.le_lt_trans with n; [|assumption].
    apply N.div_le_upper_bound; lia.
  - apply wf_large in Ha. destruct Ha as [Hne Hok].
    destruct (rshift_limbs_spec v Hok) as (R1 & R2 & R3). cbn [val get].
    assert (Hm : match v with [] => 0 | x :: _ => x mod 2 end = nth 0 v 0 mod 2).
    { destruct v; reflexivity. }
    rewrite Hm in R3.
    pose proof (N.mod_lt (nth 0 v 0) 2).
    split; [|split].
    + apply wf_large. split; [|assumption]. intro Z. rewrite Z in R2. destruct v; [congruence|discriminate].
    + apply (N.div_unique (lval v) 2 _ (nth 0 v 0 mod 2)); lia.
    + apply (N.mod_unique _ 2 (lval (rshift_limbs v))); lia.
Qed.

(* ------------------------------------------------------------------ *)
(* mul *)

Lemma mul_loop_spec : forall cnt i acc s o, wf acc = true -> wf s = true -> wf o = true ->
  wf (mul_loop cnt i acc s o) = true /\
  val (mul_loop cnt i acc s o) + val s * lowval o i = val acc + val s * lowval o (i + cnt).
Proof.
  induction cnt as [|cnt IH]; intros i acc s o Hv Hs Ho.
  - cbn [mul_loop]. rewrite Nat.add_0_r. split; [assumption|]. lia.
  - cbn [mul_loop].
    destruct (aai_spec acc s (get o i) i Hv Hs (get_lt o i Ho)) as [A1 A2].
    destruct (IH (S i) _ s o A1 Hs Ho) as [I1 I2].
    split; [assumption|].
    replace (S i + cnt)%nat with (i + S cnt)%nat in I2 by lia.
    cbn [lowval] in I2. rewrite A2 in I2. lia.
Qed.

Lemma mul_internal_spec : forall a b, wf a = true -> wf b = true ->
  wf (mul_internal a b) = true /\ val (mul_internal a b) = val a * val b.
Proof.
  intros a b Ha Hb. unfold mul_internal. rewrite !is_zero_spec.
  destruct (N.eqb_spec (val a) 0) as [Za|Za]; [cbn [orb val]; split; [reflexivity|lia]|].
  destruct (N.eqb_spec (val b) 0) as [Zb|Zb]; [cbn [orb val]; split; [reflexivity|lia]|].
  cbn [orb].
  assert (H0 : wf (Large [0]) = true) by reflexivity.
  destruct (mul_loop_spec (value_len b) 0 (Large [0]) a b H0 Ha Hb) as [M1 M2].
  split; [assumption|]. cbn [lowval val lval Nat.add] in M2.
  rewrite lowval_val in M2 by lia. lia.
Qed.

Lemma mul_spec : forall a b, wf a = true -> wf b = true ->
  wf (mul a b) = true /\ val (mul a b) = val a * val b.
Proof.
  intros a b Ha Hb.
  destruct a as [x|va], b as [y|vb]; cbn [mul]; try (apply mul_internal_spec; assumption).
  destruct (N.ltb_spec (x * y) W).
  - split; [apply wf_small; assumption|reflexivity].
  - apply mul_internal_spec; assumption.
Qed.

(* ------------------------------------------------------------------ *)
(* pow *)

Lemma pow_pos_spec : forall p r b, wf r = true -> wf b = true ->
  wf (pow_pos p r b) = true /\ val (pow_pos p r b) = val r * val b ^ Npos p.
Proof.
  induction p as [p IH|p IH|]; intros r b Hr Hb; cbn [pow_pos].
  - destruct (mul_spec r b Hr Hb) as [M1 M2]. destruct (mul_spec b b Hb Hb) as [S1 S2].
    destruct (IH _ _ M1 S1) as [I1 I2]. split; [assumption|].
    rewrite I2, M2, S2.
    replace (N.pos p~1) with (2 * N.pos p + 1) by lia.
    rewrite N.pow_add_r, N.pow_mul_r, N.pow_1_r, N.pow_2_r. lia.
  - destruct (mul_spec b b Hb Hb) as [S1 S2].
    destruct (IH _ _ Hr S1) as [I1 I2]. split; [assumption|].
    rewrite I2, S2.
    replace (N.pos p~0) with (2 * N.pos p) by lia.
    rewrite N.pow_mul_r, N.pow_2_r. lia.
  - destruct (mul_spec r b Hr Hb) as [M1 M2]. split; [assumption|].
    rewrite M2, N.pow_1_r. reflexivity.
Qed.

Lemma pow_internal_spec : forall a e, wf a = true ->
  wf (pow_internal a e) = true /\ val (pow_internal a e) = val a ^ e.
Proof.
  intros a [|p] Ha; cbn [pow_internal].
  - split; [reflexivity|]. rewrite N.pow_0_r. reflexivity.
  - assert (H1 : wf (Small 1) = true) by reflexivity.
    destruct (pow_pos_spec p (Small 1) a H1 Ha) as [P1 P2]. split; [assumption|].
    rewrite P2. cbn [val]. lia.
Qed.

(* the OLD pow (before 2c2d128), outside the leading-zero-limb class *)
Lemma pow_old_spec_except_known : forall a b, wf a = true -> wf b = true -> pow_known a b = false ->
  match pow_old a b with
  | Ok r => wf r = true /\ val r = val a ^ val b /\ ~ (val a = 0 /\ val b = 0)
  | Err EZeroPowZero => val a = 0 /\ val b = 0
  | Err EExpTooLarge => W <= val b
  | _ => False
  end.
Proof.
  intros a b Ha Hb Hk. unfold pow_old, pow_known in *. rewrite !is_zero_spec in *.
  destruct (N.eqb_spec (val a) 0) as [Za|Za]; destruct (N.eqb_spec (val b) 0) as [Zb|Zb]; cbn [andb negb] in *.
  - auto.
  - destruct (Nat.ltb_spec 1 (value_len b)) as [L|L].
    + cbn [andb] in Hk. lia.
    + assert (Hg : get b 0 = val b).
      { rewrite <- (lowval_val b 1) by assumption. cbn [lowval]. change (N.of_nat 0) with 0. rewrite N.pow_0_r. lia. }
      destruct (pow_internal_spec a (get b 0) Ha) as [P1 P2].
      split; [assumption|]. split; [rewrite P2, Hg; reflexivity|lia].
  - split; [reflexivity|]. split; [|lia]. rewrite Zb, N.pow_0_r. reflexivity.
  - destruct (Nat.ltb_spec 1 (value_len b)) as [L|L].
    + cbn [andb] in Hk. lia.
    + assert (Hg : get b 0 = val b).
      { rewrite <- (lowval_val b 1) by assumption. cbn [lowval]. change (N.of_nat 0) with 0. rewrite N.pow_0_r. lia. }
      destruct (pow_internal_spec a (get b 0) Ha) as [P1 P2].
      split; [assumption|]. split; [rewrite P2, Hg; reflexivity|lia].
Qed.

(* the defect: 2^[5;0] is refused although the exponent is 5 *)
Lemma pow_old_refuted_witness :
  let a := Small 2 in let b := Large [5; 0] in
  wf a = true /\ wf b = true /\ val b < W /\ pow_old a b = Err EExpTooLarge /\ pow_known a b = true /\
  pow a b = Ok (Small 32).
Proof. vm_compute. repeat split; congruence. Qed.

(* ------------------------------------------------------------------ *)
(* divmod: binary long division *)

Lemma lowval_split : forall a i m, lowval a (i + m) = lowval a i + W ^ N.of_nat i * oseg a i m.
Proof.
  intros a i m. induction m as [|m IH].
  - rewrite Nat.add_0_r. cbn [oseg]. lia.
  - rewrite Nat.add_succ_r. cbn [lowval]. rewrite IH, oseg_top, Wpow_add. lia.
Qed.

(* val a = low i limbs + W^i * (limb i + W * rest) *)
Lemma val_split : forall a i, exists t,
  val a = lowval a i + W ^ N.of_nat i * (get a i + W * t).
Proof.
  intros a i. exists (oseg a (S i) (value_len a)).
  rewrite <- (lowval_val a (i + S (value_len a))) by lia.
  rewrite lowval_split. cbn [oseg]. reflexivity.
Qed.

Lemma get0_mod : forall a, wf a = true -> get a 0 = val a mod W.
Proof.
  intros a Ha. destruct (val_split a 0) as [t Ht]. cbn [lowval] in Ht.
  change (N.of_nat 0) with 0 in Ht. rewrite N.pow_0_r in Ht.
  pose proof (get_lt a 0 Ha). pose proof W_pos.
  apply (N.mod_unique _ W t); lia.
Qed.

(* significant_len *)
Lemma last_nz_spec : forall v, limbs_ok v ->
  match last_nz v with
  | None => lval v = 0
  | Some i => W ^ N.of_nat i <= lval v /\ lval v < W ^ N.of_nat (S i)
  end.
Proof.
  induction v as [|x r IH]; intro H.
  - reflexivity.
  - inversion H as [|? ? Hx Hr]; subst. specialize (IH Hr). cbn [last_nz lval].
    destruct (last_nz r) as [i|].
    + destruct IH as [I1 I2]. rewrite !Wpow_S in *. pose proof W_pos. split; nia.
    + destruct (N.eqb_spec x 0).
      * subst. lia.
      * change (N.of_nat 0) with 0. change (N.of_nat 1) with 1. rewrite N.pow_0_r, N.pow_1_r. lia.
Qed.

Lemma significant_len_spec : forall b, wf b = true ->
  if Nat.ltb 1 (significant_len b) then W <= val b else get b 0 = val b.
Proof.
  intros [n|v] Hb.
  - cbn. reflexivity.
  - pose proof Hb as Hb'. apply wf_large in Hb'. destruct Hb' as [_ Hok].
    pose proof (last_nz_spec v Hok) as L. pose proof (get0_mod (Large v) Hb) as G.
    cbn [significant_len val] in *. pose proof W_pos.
    destruct (last_nz v) as [[|i]|].
    + change (Nat.ltb 1 1) with false. cbv iota.
      change (N.of_nat 0) with 0 in L. change (N.of_nat 1) with 1 in L. rewrite N.pow_1_r in L.
      rewrite G. apply N.mod_small. lia.
    + replace (Nat.ltb 1 (S (S i))) with true by (symmetry; apply Nat.ltb_lt; lia).
      destruct L as [L1 _]. rewrite Wpow_S in L1. pose proof (Wpow_pos (N.of_nat i)). nia.
    + change (Nat.ltb 1 1) with false. cbv iota. rewrite G, L. apply N.mod_0_l. lia.
Qed.

(* pow (current code) *)
Lemma pow_spec : forall a b, wf a = true -> wf b = true ->
  match pow a b with
  | Ok r => wf r = true /\ val r = val a ^ val b /\ ~ (val a = 0 /\ val b = 0)
  | Err EZeroPowZero => val a = 0 /\ val b = 0
  | Err EExpTooLarge => W <= val b
  | _ => False
  end.
Proof.
  intros a b Ha Hb. unfold pow. rewrite !is_zero_spec.
  pose proof (significant_len_spec b Hb) as Sg.
  destruct (N.eqb_spec (val a) 0) as [Za|Za]; destruct (N.eqb_spec (val b) 0) as [Zb|Zb]; cbn [andb].
  - auto.
  - destruct (Nat.ltb 1 (significant_len b)); [assumption|].
    destruct (pow_internal_spec a (get b 0) Ha) as [P1 P2].
    split; [assumption|]. split; [rewrite P2, Sg; reflexivity|lia].
  - split; [reflexivity|]. split; [|lia]. rewrite Zb, N.pow_0_r. reflexivity.
  - destruct (Nat.ltb 1 (significant_len b)); [assumption|].
    destruct (pow_internal_spec a (get b 0) Ha) as [P1 P2].
    split; [assumption|]. split; [rewrite P2, Sg; reflexivity|lia].
Qed.

Definition pw (i j : nat) : N := W ^ N.of_nat i * 2 ^ N.of_nat j.

Lemma pw_pos : forall i j, 0 < pw i j.
Proof.
  intros. unfold pw. pose proof (Wpow_pos (N.of_nat i)).
  assert (0 < 2 ^ N.of_nat j) by (apply N.neq_0_lt_0, N.pow_nonzero; lia). nia.
Qed.
Lemma pw_S : forall i j, pw i (S j) = 2 * pw i j.
Proof. intros. unfold pw. rewrite Nat2N.inj_succ, N.pow_succ_r'. lia. Qed.
Lemma pw_limb : forall i, pw (S i) 0 = pw i 64.
Proof.
  intros. unfold pw. rewrite Wpow_S. change (N.of_nat 0) with 0. rewrite N.pow_0_r.
  change (N.of_nat 64) with 64. rewrite <- W_eq. lia.
Qed.
Lemma pw_0 : pw 0 0 = 1.
Proof. reflexivity. Qed.

Lemma bit_of_val : forall a i j, wf a = true -> (j < 64)%nat ->
  (val a / pw i j) mod 2 = (get a i / 2 ^ N.of_nat j) mod 2.
Proof.
  intros a i j Ha Hj. destruct (val_split a i) as [t Ht].
  pose proof (lowval_bound a i Ha) as Hlow.
  pose proof (Wpow_pos (N.of_nat i)) as HWi.
  assert (H2j : 0 < 2 ^ N.of_nat j) by (apply N.neq_0_lt_0, N.pow_nonzero; lia).
  unfold pw. rewrite <- N.div_div by lia.
  assert (E1 : val a / W ^ N.of_nat i = get a i + W * t).
  { symmetry. apply (N.div_unique _ _ _ (lowval a i)); [assumption|lia]. }
  rewrite E1.
  (* W = 2^j * 2^(64-j), and 2^(64-j) is even *)
  assert (EW : W = 2 ^ N.of_nat j * (2 * 2 ^ N.of_nat (63 - j))).
  { rewrite W_eq. rewrite <- N.pow_succ_r', <- N.pow_add_r. f_equal. lia. }
  rewrite EW.
  replace (get a i + 2 ^ N.of_nat j * (2 * 2 ^ N.of_nat (63 - j)) * t)
    with (get a i + (2 * 2 ^ N.of_nat (63 - j) * t) * 2 ^ N.of_nat j) by lia.
  rewrite N.div_add by lia.
  replace (get a i / 2 ^ N.of_nat j + 2 * 2 ^ N.of_nat (63 - j) * t)
    with (get a i / 2 ^ N.of_nat j + (2 ^ N.of_nat (63 - j) * t) * 2) by lia.
  apply N.mod_add. lia.
Qed.

Section LongDivision.
  Variable oc : bool.
  Variables self other : biguint.
  Hypothesis Hself : wf self = true.
  Hypothesis Hother : wf other = true.

  Definition DInv (i j : nat) (q r : biguint) (Q : N) : Prop :=
    wf q = true /\ wf r = true /\ val q = Q * pw i j /\
    (forall k, (k < i)%nat -> get q k = 0) /\ get q i mod 2 ^ N.of_nat j = 0 /\
    val self / pw i j = Q * val other + val r /\ val r < val other.

  Lemma div_bits_spec : forall j i q r Q, (j <= 64)%nat -> DInv i j q r Q ->
    exists q' r' Q', div_bits oc j i self other q r = Ok (q', r') /\ DInv i 0 q' r' Q'.
  Proof.
    induction j as [|j IH]; intros i q r Q Hj (Hq & Hr & Vq & Zlow & Zbits & Hdiv & Hlt).
    - exists q, r, Q. split; [reflexivity|]. unfold DInv. auto 10.
    - cbn [div_bits].
      destruct (lshift_spec r Hr) as (r1 & E1 & W1 & V1). rewrite E1. cbn [bind].
      rewrite b2n_testbit.
      set (bit := (get self i / 2 ^ N.of_nat j) mod 2).
      assert (Hbit : bit < 2) by (apply N.mod_lt; lia).
      (* low limb of r1 is even *)
      assert (Hev : exists k, get r1 0 = 2 * k /\ 2 * k + bit < W).
      { pose proof (get0_mod r1 W1) as G. rewrite V1 in G. rewrite W_half in G.
        pose proof HALF_pos. rewrite N.mul_mod_distr_l in G by lia.
        exists (val r mod HALF). split; [assumption|].
        pose proof (N.mod_lt (val r) HALF). rewrite W_half. lia. }
      destruct Hev as (k & Ek & Hk).
      rewrite Ek, lor_even_bit by assumption.
      set (r2 := set r1 0 (2 * k + bit)).
      assert (W2 : wf r2 = true) by (apply wf_set; assumption).
      assert (V2 : val r2 = 2 * val r + bit).
      { pose proof (val_set r1 0 (2 * k + bit)) as Vs. fold r2 in Vs. rewrite Ek in Vs.
        change (N.of_nat 0) with 0 in Vs. rewrite N.pow_0_r in Vs. lia. }
      (* the next bit of the dividend *)
      assert (Hhi : val self / pw i j = 2 * (val self / pw i (S j)) + bit).
      { unfold bit. rewrite <- (bit_of_val self i j Hself) by lia.
        assert (Ed : val self / pw i (S j) = val self / pw i j / 2).
        { rewrite pw_S, (N.mul_comm 2 (pw i j)). pose proof (pw_pos i j).
          rewrite N.div_div by lia. reflexivity. }
        rewrite Ed. pose proof (N.div_mod (val self / pw i j) 2). lia. }
      rewrite is_ge_spec by assumption.
      assert (Zbits' : get q i mod 2 ^ N.of_nat j = 0).
      { apply N.div_exact in Zbits; [|apply N.pow_nonzero; lia].
        rewrite Zbits. rewrite Nat2N.inj_succ, N.pow_succ_r'.
        replace (2 * 2 ^ N.of_nat j * (get q i / (2 * 2 ^ N.of_nat j)))
          with ((2 * (get q i / (2 * 2 ^ N.of_nat j))) * 2 ^ N.of_nat j) by lia.
        apply N.mod_mul. apply N.pow_nonzero. lia. }
      destruct (N.leb_spec (val other) (val r2)) as [Hge|Hlt2].
      + destruct (sub_spec oc r2 other W2 Hother Hge) as (r3 & E3 & W3 & V3).
        rewrite E3. cbn [bind].
        (* set bit j of limb i of q *)
        assert (Hqi : exists m, get q i = m * 2 ^ (N.of_nat j + 1)).
        { apply N.div_exact in Zbits; [|apply N.pow_nonzero; lia].
          exists (get q i / 2 ^ N.of_nat (S j)). rewrite Zbits at 1.
          rewrite Nat2N.inj_succ, <- N.add_1_r. lia. }
        destruct Hqi as (m & Em). rewrite Em, lor_setbit, <- Em.
        set (q' := set q i (get q i + 2 ^ N.of_nat j)).
        assert (Hnew : get q i + 2 ^ N.of_nat j < W).
        { pose proof (get_lt q i Hq) as Gq. rewrite Em in *.
          rewrite W_eq in *. 
          assert (E64 : 2 ^ 64 = 2 ^ (N.of_nat j + 1) * 2 ^ N.of_nat (63 - j)).
          { rewrite <- N.pow_add_r. f_equal. lia. }
          rewrite E64 in *. rewrite N.add_1_r, N.pow_succ_r' in *.
          assert (0 < 2 ^ N.of_nat j) by (apply N.neq_0_lt_0, N.pow_nonzero; lia).
          assert (0 < 2 ^ N.of_nat (63 - j)) by (apply N.neq_0_lt_0, N.pow_nonzero; lia).
          nia. }
        assert (Wq' : wf q' = true) by (apply wf_set; assumption).
        assert (Vq' : val q' = (2 * Q + 1) * pw i j).
        { pose proof (val_set q i (get q i + 2 ^ N.of_nat j)) as Vs. fold q' in Vs.
          rewrite pw_S in Vq. unfold pw in *. lia. }
        apply (IH i q' r3 (2 * Q + 1)); [lia|].
        unfold DInv. split; [assumption|]. split; [assumption|]. split; [assumption|].
        split; [|split; [|split]].
        * intros k0 Hk0. unfold q'. rewrite get_set. destruct (Nat.eqb_spec k0 i); [lia|]. auto.
        * unfold q'. rewrite get_set, Nat.eqb_refl.
          rewrite N.add_mod, Zbits', N.mod_same, N.add_0_l, N.mod_0_l by (apply N.pow_nonzero; lia).
          reflexivity.
        * rewrite Hhi, Hdiv, V3, V2. lia.
        * lia.
      + apply (IH i q r2 (2 * Q)); [lia|].
        unfold DInv. split; [assumption|]. split; [assumption|].
        split; [rewrite Vq, pw_S; lia|]. split; [assumption|]. split; [assumption|].
        split; [rewrite Hhi, Hdiv, V2; lia|lia].
  Qed.

  Lemma div_limbs_spec : forall i q r Q, DInv i 0 q r Q ->
    exists q' r' Q', div_limbs oc i self other q r = Ok (q', r') /\ DInv 0 0 q' r' Q'.
  Proof.
    induction i as [|i IH]; intros q r Q Inv.
    - exists q, r, Q. split; [reflexivity|assumption].
    - cbn [div_limbs].
      assert (Inv64 : DInv i 64 q r Q).
      { destruct Inv as (Hq & Hr & Vq & Zlow & Zbits & Hdiv & Hlt).
        unfold DInv. rewrite <- pw_limb.
        split; [assumption|]. split; [assumption|]. split; [assumption|].
        split; [intros; apply Zlow; lia|]. split; [|auto].
        rewrite Zlow by lia. apply N.mod_0_l. apply N.pow_nonzero. lia. }
      destruct (div_bits_spec 64 i q r Q (le_n _) Inv64) as (q1 & r1 & Q1 & E1 & Inv1).
      rewrite E1. cbn [bind fst snd]. apply (IH q1 r1 Q1). assumption.
  Qed.

  Lemma long_division_spec : val other <> 0 ->
    exists q r, div_limbs oc (value_len self) self other (Small 0) (Small 0) = Ok (q, r) /\
      wf q = true /\ wf r = true /\ val self = val q * val other + val r /\ val r < val other.
  Proof.
    intro Hnz.
    assert (Inv0 : DInv (value_len self) 0 (Small 0) (Small 0) 0).
    { unfold DInv. cbn [val]. split; [reflexivity|]. split; [reflexivity|]. split; [lia|].
      split; [intros [|k] _; reflexivity|]. split; [change (N.of_nat 0) with 0; rewrite N.pow_0_r; apply N.mod_1_r|].
      split; [|lia].
      unfold pw. change (N.of_nat 0) with 0. rewrite N.pow_0_r, N.mul_1_r.
      rewrite N.div_small; [lia|]. apply val_bound. assumption. }
    destruct (div_limbs_spec _ _ _ _ Inv0) as (q & r & Q & E & (Hq & Hr & Vq & _ & _ & Hdiv & Hlt)).
    exists q, r. split; [assumption|]. split; [assumption|]. split; [assumption|].
    rewrite pw_0 in *. rewrite N.div_1_r in Hdiv. split; [lia|assumption].
  Qed.
End LongDivision.

Lemma divmod_spec : forall oc a b, wf a = true -> wf b = true -> val b <> 0 ->
  exists q r, divmod oc a b = Ok (q, r) /\ wf q = true /\ wf r = true /\
    val a = val q * val b + val r /\ val r < val b.
Proof.
  intros oc a b Ha Hb Hnz.
  assert (H1 : wf (Small 1) = true) by reflexivity.
  assert (H2 : wf (Small 2) = true) by reflexivity.
  assert (G : exists q r,
    (if is_zero b then Err EDivByZero
     else if is_eq b (Small 1) then Ok (a, Small 0)
     else if is_zero a then Ok (Small 0, Small 0)
     else if is_lt a b then Ok (Small 0, a)
     else if is_eq a b then Ok (Small 1, Small 0)
     else if is_eq b (Small 2) then Ok (rshift a, Small (N.land (get a 0) 1))
     else div_limbs oc (value_len a) a b (Small 0) (Small 0)) = Ok (q, r) /\
    wf q = true /\ wf r = true /\ val a = val q * val b + val r /\ val r < val b).
  { rewrite !is_zero_spec, !is_eq_spec, is_lt_spec by assumption. cbn [val].
    destruct (N.eqb_spec (val b) 0); [contradiction|].
    destruct (N.eqb_spec (val b) 1) as [E1|E1].
    { exists a, (Small 0). cbn [val]. repeat split; try assumption; try reflexivity; lia. }
    destruct (N.eqb_spec (val a) 0) as [Za|Za].
    { exists (Small 0), (Small 0). cbn [val]. repeat split; try reflexivity; lia. }
    destruct (N.ltb_spec (val a) (val b)) as [L|L].
    { exists (Small 0), a. cbn [val]. repeat split; try assumption; try reflexivity; lia. }
    destruct (N.eqb_spec (val a) (val b)) as [E|E].
    { exists (Small 1), (Small 0). cbn [val]. repeat split; try reflexivity; lia. }
    destruct (N.eqb_spec (val b) 2) as [E2|E2].
    { destruct (rshift_spec a Ha) as (R1 & R2 & R3).
      exists (rshift a), (Small (N.land (get a 0) 1)). rewrite land_1, R3. cbn [val].
      pose proof (N.mod_lt (val a) 2). pose proof (N.div_mod (val a) 2). pose proof W_gt1.
      split; [reflexivity|]. split; [assumption|]. split; [apply wf_small; lia|]. lia. }
    apply long_division_spec; assumption. }
  destruct a as [x|va], b as [y|vb]; cbn [divmod]; try exact G.
  cbn [val] in *. destruct (N.eqb_spec y 0); [contradiction|].
  apply wf_small in Ha. apply wf_small in Hb.
  exists (Small (x / y)), (Small (x mod y)). cbn [val].
  pose proof (N.mod_lt x y). pose proof (N.div_mod x y).
  assert (x / y <= x) by (apply N.div_le_upper_bound; nia).
  split; [reflexivity|]. split; [apply wf_small; lia|]. split; [apply wf_small; lia|]. lia.
Qed.

Lemma divmod_zero : forall oc a b, wf a = true -> wf b = true -> val b = 0 ->
  divmod oc a b = Err EDivByZero.
Proof.
  intros oc a b Ha Hb Z.
  destruct a as [x|va], b as [y|vb]; cbn [divmod]; rewrite ?is_zero_spec, ?Z; try reflexivity.
  cbn [val] in Z. subst. reflexivity.
Qed.

Lemma divmod_val : forall oc a b, wf a = true -> wf b = true -> val b <> 0 ->
  exists q r, divmod oc a b = Ok (q, r) /\ wf q = true /\ wf r = true /\
    val q = val a / val b /\ val r = val a mod val b.
Proof.
  intros oc a b Ha Hb Hnz.
  destruct (divmod_spec oc a b Ha Hb Hnz) as (q & r & E & Hq & Hr & Hv & Hlt).
  exists q, r. split; [assumption|]. split; [assumption|]. split; [assumption|]. split.
  - apply (N.div_unique _ _ _ (val r)); [assumption|lia].
  - apply (N.mod_unique _ _ (val q)); [assumption|lia].
Qed.

Lemma rem_spec : forall oc a b, wf a = true -> wf b = true -> val b <> 0 ->
  exists r, rem oc a b = Ok r /\ wf r = true /\ val r = val a mod val b.
Proof.
  intros oc a b Ha Hb Hnz. destruct (divmod_val oc a b Ha Hb Hnz) as (q & r & E & _ & Hr & _ & Hv).
  exists r. unfold rem. rewrite E. auto.
Qed.

Lemma div_spec : forall oc a b, wf a = true -> wf b = true -> val b <> 0 ->
  exists q, div oc a b = Ok q /\ wf q = true /\ val q = val a / val b.
Proof.
  intros oc a b Ha Hb Hnz. destruct (divmod_val oc a b Ha Hb Hnz) as (q & r & E & Hq & _ & Hv & _).
  exists q. unfold div. rewrite E. auto.
Qed.

Lemma is_even_spec : forall oc a, wf a = true ->
  is_even oc a = Ok (val a mod 2 =? 0).
Proof.
  intros oc a Ha. assert (H2 : wf (Small 2) = true) by reflexivity.
  destruct (divmod_val oc a (Small 2) Ha H2) as (q & r & E & _ & Hr & _ & Hv); [cbn [val]; lia|].
  unfold is_even. rewrite E. cbn [bind snd]. rewrite is_eq_spec by (assumption || reflexivity).
  rewrite Hv. reflexivity.
Qed.

(* ------------------------------------------------------------------ *)
(* gcd (Euclid by repeated rem); the fuel computed from the lengths is enough *)

Lemma gcd_step_val : forall a b, b <> 0 -> N.gcd a b = N.gcd b (a mod b).
Proof. intros a b Hb. rewrite (N.gcd_comm b), N.gcd_mod by assumption. apply N.gcd_comm. Qed.

Lemma gcd_loop_ordered : forall oc f fuel a b, wf a = true -> wf b = true ->
  val b <= val a -> val a * val b < 2 ^ N.of_nat f -> (f + 1 <= fuel)%nat ->
  exists g, gcd_loop oc fuel a b = Ok g /\ wf g = true /\ val g = N.gcd (val a) (val b).
Proof.
  intros oc f. induction f as [|f IH]; intros fuel a b Ha Hb Hle Hm Hf;
    (destruct fuel as [|fuel]; [lia|]); cbn [gcd_loop];
    rewrite is_ge_spec by (assumption || reflexivity); cbn [val].
  - change (N.of_nat 0) with 0 in Hm. rewrite N.pow_0_r in Hm.
    destruct (N.leb_spec 1 (val b)); [nia|].
    exists a. split; [reflexivity|]. split; [assumption|].
    replace (val b) with 0 by lia. rewrite N.gcd_0_r. reflexivity.
  - destruct (N.leb_spec 1 (val b)) as [H1|H1].
    + assert (Hnz : val b <> 0) by lia.
      destruct (rem_spec oc a b Ha Hb Hnz) as (r & Er & Hr & Vr). rewrite Er. cbn [bind].
      pose proof (N.mod_lt (val a) (val b) Hnz) as Hlt. pose proof (N.div_mod (val a) (val b) Hnz) as Hdm.
      assert (Hq : 1 <= val a / val b).
      { apply N.div_le_lower_bound; lia. }
      destruct (IH fuel b r Hb Hr) as (g & Eg & Hg & Vg); [lia| |lia|].
      * rewrite Nat2N.inj_succ, N.pow_succ_r' in Hm. rewrite Vr. nia.
      * exists g. split; [assumption|]. split; [assumption|].
        rewrite Vg, Vr. symmetry. apply gcd_step_val. assumption.
    + exists a. split; [reflexivity|]. split; [assumption|].
      replace (val b) with 0 by lia. rewrite N.gcd_0_r. reflexivity.
Qed.

Lemma gcd_spec : forall oc a b, wf a = true -> wf b = true ->
  exists g, gcd oc a b = Ok g /\ wf g = true /\ val g = N.gcd (val a) (val b).
Proof.
  intros oc a b Ha Hb. unfold gcd, gcd_fuel.
  set (f := (64 * (value_len a + value_len b))%nat).
  assert (Hm : val a * val b < 2 ^ N.of_nat f).
  { pose proof (val_bound a Ha) as Ba. pose proof (val_bound b Hb) as Bb.
    unfold f. rewrite Nat.mul_add_distr_l, Nat2N.inj_add, N.pow_add_r.
    rewrite !Nat2N.inj_mul. change (N.of_nat 64) with 64.
    rewrite !N.pow_mul_r, <- W_eq. nia. }
  destruct (N.le_gt_cases (val b) (val a)) as [Hle|Hgt].
  - apply (gcd_loop_ordered oc f); try assumption. lia.
  - (* first iteration swaps *)
    replace (f + 3)%nat with (S (f + 2)) by lia. cbn [gcd_loop].
    rewrite is_ge_spec by (assumption || reflexivity). cbn [val].
    destruct (N.leb_spec 1 (val b)); [|lia].
    assert (Hnz : val b <> 0) by lia.
    destruct (rem_spec oc a b Ha Hb Hnz) as (r & Er & Hr & Vr). rewrite Er. cbn [bind].
    rewrite N.mod_small in Vr by assumption.
    destruct (gcd_loop_ordered oc f (f + 2) b r Hb Hr) as (g & Eg & Hg & Vg); [lia|rewrite Vr; lia|lia|].
    exists g. split; [assumption|]. split; [assumption|].
    rewrite Vg, Vr. apply N.gcd_comm.
Qed.

(* ------------------------------------------------------------------ *)
(* non-vacuity: non-canonical, multi-limb operands satisfy the hypotheses *)
Example wf_inhabited :
  wf (Large [0; W - 1; 0; 0]) = true /\ wf (Small (W - 1)) = true /\ wf (Large [5; 0]) = true /\
  add_known (Large [0; W - 1; 0; 0]) (Small 3) = false /\
  add_known (Small 7) (Large [W - 1; W - 2]) = false.
Proof. vm_compute. auto. Qed.
