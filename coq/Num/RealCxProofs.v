(* Proofs about the Exact<Real> / Exact<Complex> / Value layers (RealCx.v):
   on exact operands every operation returns an exact result whose value is
   the field operation on the operands' values (in Q); the only errors are
   division by zero and the ones of BigRat::pow. *)
From Coq Require Import Lia ZifyBool QArith Qpower Qreduction Qfield.
From FendV Require Import Base.Prelude Num.BigUint Num.BigUintProofs Num.BigRat Num.BigRatProofs Num.RealCx.
Open Scope Q_scope.

(* ------------------------------------------------------------------ *)
(* small facts about Q *)

Lemma Qeq_bool_false : forall x y, Qeq_bool x y = false <-> ~ x == y.
Proof.
  intros x y. split.
  - apply Qeq_bool_neq.
  - intro H. destruct (Qeq_bool x y) eqn:E; [|reflexivity]. apply Qeq_bool_iff in E. contradiction.
Qed.

Lemma Qcompare_eq_bool : forall x y, match x ?= y with Eq => true | _ => false end = Qeq_bool x y.
Proof.
  intros x y. destruct (x ?= y) eqn:E.
  - apply Qeq_alt in E. symmetry. apply Qeq_bool_iff. assumption.
  - symmetry. apply Qeq_bool_false. intro H. apply Qeq_alt in H. congruence.
  - symmetry. apply Qeq_bool_false. intro H. apply Qeq_alt in H. congruence.
Qed.

Lemma Qsq_sum_zero : forall x y, x * x + y * y == 0 -> x == 0 /\ y == 0.
Proof.
  intros x y H.
  assert (Hx : 0 <= x * x) by (pose proof (Qsqr_nonneg x) as S; simpl in S; exact S).
  assert (Hy : 0 <= y * y) by (pose proof (Qsqr_nonneg y) as S; simpl in S; exact S).
  assert (Ex : x * x == 0).
  { apply Qle_antisym; [|assumption]. rewrite <- H. rewrite <- (Qplus_0_r (x * x)) at 1.
    apply Qplus_le_r. assumption. }
  assert (Ey : y * y == 0).
  { apply Qle_antisym; [|assumption]. rewrite <- H. rewrite <- (Qplus_0_l (y * y)) at 1.
    apply Qplus_le_l. assumption. }
  split.
  - apply Qmult_integral in Ex. tauto.
  - apply Qmult_integral in Ey. tauto.
Qed.

(* ------------------------------------------------------------------ *)
(* constants *)

Lemma wfr_of_u64 : forall n, (n <? W)%N = true -> wfr (rat_of_u64 n) = true.
Proof. intros n H. unfold wfr, rat_of_u64. cbn [rnum rden wf is_zero]. rewrite H. reflexivity. Qed.

Lemma qval_of_u64 : forall n, qval (rat_of_u64 n) == inject_Z (Z.of_N n).
Proof.
  intro n. unfold qval, rat_of_u64. cbn [rsign rnum rden sq val]. unfold qn.
  change (inject_Z (Z.of_N 1)) with 1. field.
Qed.

Lemma qval_0 : qval (rat_of_u64 0) == 0. Proof. reflexivity. Qed.
Lemma qval_1 : qval (rat_of_u64 1) == 1. Proof. reflexivity. Qed.
Lemma wfr_0 : wfr (rat_of_u64 0) = true. Proof. reflexivity. Qed.
Lemma wfr_1 : wfr (rat_of_u64 1) = true. Proof. reflexivity. Qed.

(* ------------------------------------------------------------------ *)
(* Real predicates *)

Lemma req_spec : forall oc x y, wfr x = true -> wfr y = true ->
  req oc x y = Ok (Qeq_bool (qval x) (qval y)).
Proof.
  intros oc x y Hx Hy. unfold req. rewrite rcmp_spec by assumption. cbn [bind].
  rewrite Qcompare_eq_bool. reflexivity.
Qed.

Lemma definitely_zero_val : forall a, wfr a = true -> rat_is_definitely_zero a = true -> qval a == 0.
Proof.
  intros a Ha H. apply (qval_zero_iff a Ha). unfold rat_is_definitely_zero, is_definitely_zero in H.
  destruct (rnum a); [|discriminate]. cbn [val]. lia.
Qed.

Lemma real_is_zero_spec : forall oc a, wfr a = true ->
  real_is_zero oc a = Ok (Qeq_bool (qval a) 0).
Proof.
  intros oc a Ha. unfold real_is_zero. destruct (rat_is_definitely_zero a) eqn:D.
  - apply (definitely_zero_val a Ha) in D. f_equal. symmetry. apply Qeq_bool_iff. assumption.
  - rewrite req_spec by (assumption || reflexivity). rewrite qval_0. reflexivity.
Qed.

Lemma real_is_neg_spec : forall oc a, wfr a = true ->
  real_is_neg oc a = Ok (match qval a ?= 0 with Lt => true | _ => false end).
Proof.
  intros oc a Ha. unfold real_is_neg. destruct (rat_is_definitely_zero a) eqn:D.
  - apply (definitely_zero_val a Ha) in D. apply Qeq_alt in D. rewrite D. reflexivity.
  - rewrite rcmp_spec by (assumption || reflexivity). cbn [bind].
    rewrite (Qcompare_comp _ _ (reflexivity _) _ _ qval_0). reflexivity.
Qed.

Lemma exact_zero_true : forall oc a, wfr a = true ->
  exact_zero oc (a, true) = Ok (Qeq_bool (qval a) 0).
Proof. intros. unfold exact_zero. cbn [fst snd]. apply real_is_zero_spec. assumption. Qed.

(* ------------------------------------------------------------------ *)
(* Exact<Real> *)

Lemma er_add_spec : forall oc x y, wfr x = true -> wfr y = true ->
  exists r, er_add oc (x, true) (y, true) = Ok (r, true) /\ wfr r = true /\
            qval r == qval x + qval y.
Proof.
  intros oc x y Hx Hy. unfold er_add. rewrite !exact_zero_true by assumption. cbn [bind fst snd andb].
  destruct (Qeq_bool (qval x) 0) eqn:Zx.
  - apply Qeq_bool_iff in Zx. exists y. rewrite Zx. split; [reflexivity|]. split; [assumption|ring].
  - destruct (Qeq_bool (qval y) 0) eqn:Zy.
    + apply Qeq_bool_iff in Zy. exists x. rewrite Zy. split; [reflexivity|]. split; [assumption|ring].
    + destruct (radd_spec oc x y Hx Hy) as (r & Er & Wr & Vr). unfold radd. rewrite Er. cbn [bind].
      exists r. auto.
Qed.

Lemma er_mul_spec : forall oc x y, wfr x = true -> wfr y = true ->
  exists r, er_mul oc (x, true) (y, true) = Ok (r, true) /\ wfr r = true /\
            qval r == qval x * qval y.
Proof.
  intros oc x y Hx Hy. unfold er_mul. rewrite !exact_zero_true by assumption. cbn [bind fst snd andb].
  destruct (Qeq_bool (qval x) 0) eqn:Zx.
  - apply Qeq_bool_iff in Zx. exists x. split; [reflexivity|]. split; [assumption|]. rewrite Zx. ring.
  - destruct (Qeq_bool (qval y) 0) eqn:Zy.
    + apply Qeq_bool_iff in Zy. exists y. split; [reflexivity|]. split; [assumption|]. rewrite Zy. ring.
    + destruct (rmul_spec x y Hx Hy) as (Wr & Vr). exists (rmul x y). auto.
Qed.

Lemma er_div_spec : forall oc x y, wfr x = true -> wfr y = true ->
  if Qeq_bool (qval y) 0 then er_div oc (x, true) (y, true) = Err EDivByZero
  else exists r, er_div oc (x, true) (y, true) = Ok (r, true) /\ wfr r = true /\
                 qval r == qval x / qval y.
Proof.
  intros oc x y Hx Hy. unfold er_div. cbn [fst snd]. rewrite real_is_zero_spec by assumption. cbn [bind].
  destruct (Qeq_bool (qval y) 0) eqn:Zy; [reflexivity|].
  rewrite exact_zero_true by assumption. cbn [bind].
  apply Qeq_bool_false in Zy.
  destruct (Qeq_bool (qval x) 0) eqn:Zx.
  - apply Qeq_bool_iff in Zx. exists x. split; [reflexivity|]. split; [assumption|]. rewrite Zx. field. assumption.
  - pose proof (rdiv_spec x y Hx Hy) as D.
    destruct (N.eqb_spec (val (rnum y)) 0) as [E|E].
    + exfalso. apply Zy. apply (qval_zero_iff y Hy). assumption.
    + destruct D as (r & Er & Wr & Vr). rewrite Er. cbn [bind andb]. exists r. auto.
Qed.

Lemma er_neg_spec : forall x, wfr x = true ->
  er_neg (x, true) = (rneg x, true) /\ wfr (rneg x) = true /\ qval (rneg x) == - qval x.
Proof. intros x Hx. split; [reflexivity|]. split; [exact Hx|apply qval_neg]. Qed.

(* ------------------------------------------------------------------ *)
(* Complex *)

Definition cre (z : complex) : Q := qval (re z).
Definition cim (z : complex) : Q := qval (im z).

Lemma wfc_iff : forall z, wfc z = true <-> wfr (re z) = true /\ wfr (im z) = true.
Proof. intro z. unfold wfc. apply andb_true_iff. Qed.

Lemma ec_add_spec : forall oc x y, wfc x = true -> wfc y = true ->
  exists r, ec_add oc (x, true) (y, true) = Ok (r, true) /\ wfc r = true /\
            cre r == cre x + cre y /\ cim r == cim x + cim y.
Proof.
  intros oc x y Hx Hy. apply wfc_iff in Hx. apply wfc_iff in Hy.
  destruct Hx as [Hxr Hxi]. destruct Hy as [Hyr Hyi].
  unfold ec_add. cbn [fst snd].
  destruct (er_add_spec oc (re x) (re y) Hxr Hyr) as (r & Er & Wr & Vr). rewrite Er. cbn [bind].
  destruct (er_add_spec oc (im x) (im y) Hxi Hyi) as (i & Ei & Wi & Vi). rewrite Ei. cbn [bind fst snd andb].
  exists (mkcx r i). split; [reflexivity|]. split; [apply wfc_iff; auto|]. unfold cre, cim. auto.
Qed.

Lemma ec_mul_spec : forall oc x y, wfc x = true -> wfc y = true ->
  exists r, ec_mul oc (x, true) (y, true) = Ok (r, true) /\ wfc r = true /\
            cre r == cre x * cre y - cim x * cim y /\
            cim r == cim x * cre y + cre x * cim y.
Proof.
  intros oc x y Hx Hy. apply wfc_iff in Hx. apply wfc_iff in Hy.
  destruct Hx as [Hxr Hxi]. destruct Hy as [Hyr Hyi].
  unfold ec_mul. cbn [fst snd].
  destruct (er_mul_spec oc (re x) (re y) Hxr Hyr) as (p1 & E1 & W1 & V1). rewrite E1. cbn [bind].
  destruct (er_mul_spec oc (im x) (im y) Hxi Hyi) as (p2 & E2 & W2 & V2). rewrite E2. cbn [bind].
  destruct (er_neg_spec p2 W2) as (N1 & N2 & N3). rewrite N1.
  destruct (er_add_spec oc p1 (rneg p2) W1 N2) as (rp & E3 & W3 & V3). rewrite E3. cbn [bind].
  destruct (er_mul_spec oc (re x) (im y) Hxr Hyi) as (p3 & E4 & W4 & V4). rewrite E4. cbn [bind].
  destruct (er_mul_spec oc (im x) (re y) Hxi Hyr) as (p4 & E5 & W5 & V5). rewrite E5. cbn [bind].
  destruct (er_add_spec oc p3 p4 W4 W5) as (ip & E6 & W6 & V6). rewrite E6. cbn [bind fst snd andb].
  exists (mkcx rp ip). split; [reflexivity|]. split; [apply wfc_iff; auto|].
  unfold cre, cim. cbn [re im]. split.
  - rewrite V3, N3, V1, V2. ring.
  - rewrite V6, V4, V5. ring.
Qed.

Lemma ec_div_spec : forall oc a b, wfc a = true -> wfc b = true ->
  if Qeq_bool (cre b) 0 && Qeq_bool (cim b) 0 then ec_div oc (a, true) (b, true) = Err EDivByZero
  else exists r, ec_div oc (a, true) (b, true) = Ok (r, true) /\ wfc r = true /\
         cre r == (cre a * cre b + cim a * cim b) / (cre b * cre b + cim b * cim b) /\
         cim r == (cim a * cre b - cre a * cim b) / (cre b * cre b + cim b * cim b).
Proof.
  intros oc a b Ha Hb. pose proof Ha as Ha'. pose proof Hb as Hb'.
  apply wfc_iff in Ha'. apply wfc_iff in Hb'.
  destruct Ha' as [Hu Hv]. destruct Hb' as [Hx Hy].
  unfold ec_div. cbn [fst snd]. rewrite (exact_zero_true oc (im a)) by assumption. cbn [bind].
  unfold cre, cim.
  set (u := qval (re a)) in *. set (v := qval (im a)) in *.
  set (x := qval (re b)) in *. set (y := qval (im b)) in *.
  assert (Hfull :
    if Qeq_bool x 0 && Qeq_bool y 0 then
      (do prod1 <- er_mul oc (re b, true) (re b, true);
       do prod2 <- er_mul oc (im b, true) (im b, true);
       do sum <- er_add oc prod1 prod2;
       do real_part <- er_div oc (rat_of_u64 1, true) sum;
       do prod3 <- er_mul oc (re a, true) (re b, true);
       do prod4 <- er_mul oc (im a, true) (im b, true);
       do real2 <- er_add oc prod3 prod4;
       do prod5 <- er_mul oc (im a, true) (re b, true);
       do prod6 <- er_mul oc (re a, true) (im b, true);
       do imag2 <- er_add oc prod5 (er_neg prod6);
       ec_mul oc (mkcx (fst real_part) (rat_of_u64 0), snd real_part)
                 (mkcx (fst real2) (fst imag2), snd real2 && snd imag2)) = Err EDivByZero
    else exists r,
      (do prod1 <- er_mul oc (re b, true) (re b, true);
       do prod2 <- er_mul oc (im b, true) (im b, true);
       do sum <- er_add oc prod1 prod2;
       do real_part <- er_div oc (rat_of_u64 1, true) sum;
       do prod3 <- er_mul oc (re a, true) (re b, true);
       do prod4 <- er_mul oc (im a, true) (im b, true);
       do real2 <- er_add oc prod3 prod4;
       do prod5 <- er_mul oc (im a, true) (re b, true);
       do prod6 <- er_mul oc (re a, true) (im b, true);
       do imag2 <- er_add oc prod5 (er_neg prod6);
       ec_mul oc (mkcx (fst real_part) (rat_of_u64 0), snd real_part)
                 (mkcx (fst real2) (fst imag2), snd real2 && snd imag2)) = Ok (r, true) /\
      wfc r = true /\
      qval (re r) == (u * x + v * y) / (x * x + y * y) /\
      qval (im r) == (v * x - u * y) / (x * x + y * y)).
  { destruct (er_mul_spec oc (re b) (re b) Hx Hx) as (p1 & E1 & W1 & V1). rewrite E1. cbn [bind].
    destruct (er_mul_spec oc (im b) (im b) Hy Hy) as (p2 & E2 & W2 & V2). rewrite E2. cbn [bind].
    destruct (er_add_spec oc p1 p2 W1 W2) as (sm & E3 & W3 & V3). rewrite E3. cbn [bind].
    fold x in V1. fold y in V2. rewrite V1, V2 in V3.
    pose proof (er_div_spec oc (rat_of_u64 1) sm wfr_1 W3) as D.
    destruct (Qeq_bool (qval sm) 0) eqn:Zs.
    - apply Qeq_bool_iff in Zs. rewrite V3 in Zs. apply Qsq_sum_zero in Zs. destruct Zs as [Zx Zy].
      apply Qeq_bool_iff in Zx. apply Qeq_bool_iff in Zy. rewrite Zx, Zy. cbn [andb].
      rewrite D. reflexivity.
    - apply Qeq_bool_false in Zs.
      assert (Hnz : ~ x * x + y * y == 0) by (rewrite <- V3; assumption).
      assert (Hb0 : Qeq_bool x 0 && Qeq_bool y 0 = false).
      { destruct (Qeq_bool x 0) eqn:Zx; [|reflexivity]. destruct (Qeq_bool y 0) eqn:Zy; [|reflexivity].
        apply Qeq_bool_iff in Zx. apply Qeq_bool_iff in Zy. exfalso. apply Hnz. rewrite Zx, Zy. ring. }
      rewrite Hb0.
      destruct D as (rp & E4 & W4 & V4). rewrite E4. cbn [bind].
      destruct (er_mul_spec oc (re a) (re b) Hu Hx) as (p3 & E5 & W5 & V5). rewrite E5. cbn [bind].
      destruct (er_mul_spec oc (im a) (im b) Hv Hy) as (p4 & E6 & W6 & V6). rewrite E6. cbn [bind].
      destruct (er_add_spec oc p3 p4 W5 W6) as (r2 & E7 & W7 & V7). rewrite E7. cbn [bind].
      destruct (er_mul_spec oc (im a) (re b) Hv Hx) as (p5 & E8 & W8 & V8). rewrite E8. cbn [bind].
      destruct (er_mul_spec oc (re a) (im b) Hu Hy) as (p6 & E9 & W9 & V9). rewrite E9. cbn [bind].
      destruct (er_neg_spec p6 W9) as (N1 & N2 & N3). rewrite N1.
      destruct (er_add_spec oc p5 (rneg p6) W8 N2) as (i2 & E10 & W10 & V10). rewrite E10. cbn [bind fst snd andb].
      assert (Wl : wfc (mkcx rp (rat_of_u64 0)) = true) by (apply wfc_iff; cbn [re im]; auto using wfr_0).
      assert (Wr : wfc (mkcx r2 i2) = true) by (apply wfc_iff; cbn [re im]; auto).
      destruct (ec_mul_spec oc _ _ Wl Wr) as (r & E11 & W11 & V11 & V12).
      exists r. split; [assumption|]. split; [assumption|].
      unfold cre, cim in V11, V12. cbn [re im] in V11, V12.
      rewrite qval_0 in V11, V12. rewrite V4, qval_1, V3 in V11, V12.
      fold u in V5, V9. fold v in V6, V8. fold x in V5, V8. fold y in V6, V9.
      split.
      + rewrite V11, V7, V5, V6. field. assumption.
      + rewrite V12, V10, N3, V8, V9. field. assumption. }
  destruct (Qeq_bool v 0) eqn:Zv.
  - rewrite (exact_zero_true oc (im b)) by assumption. cbn [bind]. fold y.
    destruct (Qeq_bool y 0) eqn:Zy; cbn [andb].
    + (* both real: simplified algorithm *)
      apply Qeq_bool_iff in Zv. apply Qeq_bool_iff in Zy.
      pose proof (er_div_spec oc (re a) (re b) Hu Hx) as D. fold x in D.
      rewrite andb_true_r.
      destruct (Qeq_bool x 0) eqn:Zx.
      * rewrite D. reflexivity.
      * apply Qeq_bool_false in Zx. destruct D as (q & Eq & Wq & Vq). rewrite Eq. cbn [bind fst snd].
        exists (mkcx q (rat_of_u64 0)). split; [reflexivity|].
        split; [apply wfc_iff; cbn [re im]; auto using wfr_0|]. cbn [re im]. fold u in Vq.
        split.
        { rewrite Vq, Zv, Zy. field. assumption. }
        { rewrite qval_0, Zv, Zy. field. assumption. }
    + exact Hfull.
  - cbn [bind andb]. exact Hfull.
Qed.

Lemma cx_compare_spec : forall oc a b, wfc a = true -> wfc b = true ->
  cx_compare oc a b =
  Ok (if Qeq_bool (cim a) 0 && Qeq_bool (cim b) 0 then Some (cre a ?= cre b) else None).
Proof.
  intros oc a b Ha Hb. apply wfc_iff in Ha. apply wfc_iff in Hb.
  destruct Ha as [Har Hai]. destruct Hb as [Hbr Hbi].
  unfold cx_compare, cre, cim. rewrite real_is_zero_spec by assumption. cbn [bind].
  destruct (Qeq_bool (qval (im a)) 0); cbn [andb bind]; [|reflexivity].
  rewrite real_is_zero_spec by assumption. cbn [bind].
  destruct (Qeq_bool (qval (im b)) 0); [|reflexivity].
  rewrite rcmp_spec by assumption. reflexivity.
Qed.

(* ------------------------------------------------------------------ *)
(* Value *)

Lemma wfc_of_u64 : forall n, (n <? W)%N = true -> wfc (cx_of_u64 n) = true.
Proof. intros n H. apply wfc_iff. cbn [cx_of_u64 re im]. split; [apply wfr_of_u64; assumption|reflexivity]. Qed.

Lemma sf_scale_spec : forall oc, exists s, sf_scale oc = Ok (s, true) /\ wfc s = true /\
  cre s == 1 /\ cim s == 0.
Proof.
  intro oc.
  destruct (ec_mul_spec oc (cx_of_u64 1) (cx_of_u64 1) eq_refl eq_refl) as (s & E & Ws & Vr & Vi).
  exists s. split; [exact E|]. split; [assumption|].
  unfold cre, cim in *. cbn [cx_of_u64 re im] in Vr, Vi. rewrite qval_1, qval_0 in Vr, Vi.
  split; [rewrite Vr; ring|rewrite Vi; ring].
Qed.

Lemma sf_offset_spec : forall oc, exists s, sf_offset oc = Ok (s, true) /\ wfc s = true /\
  cre s == 0 /\ cim s == 0.
Proof.
  intro oc.
  destruct (ec_add_spec oc (cx_of_u64 0) (cx_neg (cx_of_u64 0)) eq_refl eq_refl) as (s & E & Ws & Vr & Vi).
  exists s. split; [exact E|]. split; [assumption|].
  unfold cre, cim in *. cbn [cx_of_u64 cx_neg re im] in Vr, Vi. rewrite qval_neg, qval_0 in Vr, Vi.
  split; [rewrite Vr; ring|rewrite Vi; ring].
Qed.

Lemma v_is_zero_spec : forall oc x fl, wfc x = true ->
  v_is_zero oc (x, fl) = Ok (Qeq_bool (cim x) 0 && Qeq_bool (cre x) 0).
Proof.
  intros oc x fl Hx. unfold v_is_zero. cbn [fst].
  rewrite cx_compare_spec by (assumption || reflexivity). cbn [bind].
  assert (Z0 : Qeq_bool (cim (cx_of_u64 0)) 0 = true) by reflexivity.
  rewrite Z0, andb_true_r.
  destruct (Qeq_bool (cim x) 0); cbn [andb]; [|reflexivity].
  assert (E : cre (cx_of_u64 0) == 0) by reflexivity.
  rewrite (Qcompare_comp _ _ (reflexivity _) _ _ E).
  rewrite Qcompare_eq_bool. reflexivity.
Qed.

Lemma v_neg_spec : forall x, wfc x = true ->
  wfc (cx_neg x) = true /\ cre (cx_neg x) == - cre x /\ cim (cx_neg x) == - cim x.
Proof.
  intros x Hx. apply wfc_iff in Hx. destruct Hx. split; [apply wfc_iff; cbn [cx_neg re im]; auto|].
  unfold cre, cim. cbn [cx_neg re im]. split; apply qval_neg.
Qed.

Lemma v_add_spec : forall oc x y, wfc x = true -> wfc y = true ->
  exists r, v_add oc (x, true) (y, true) = Ok (r, true) /\ wfc r = true /\
            cre r == cre x + cre y /\ cim r == cim x + cim y.
Proof.
  intros oc x y Hx Hy. unfold v_add. rewrite v_is_zero_spec by assumption. cbn [bind].
  destruct (Qeq_bool (cim y) 0) eqn:Zi; destruct (Qeq_bool (cre y) 0) eqn:Zr; cbn [andb].
  1: { apply Qeq_bool_iff in Zi. apply Qeq_bool_iff in Zr.
       exists x. split; [reflexivity|]. split; [assumption|]. rewrite Zi, Zr. split; ring. }
  all: destruct (sf_scale_spec oc) as (s & Es & Ws & Sr & Si); rewrite Es; cbn [bind];
    destruct (sf_offset_spec oc) as (o & Eo & Wo & Or & Oi); rewrite Eo; cbn [bind];
    destruct (ec_mul_spec oc y s Hy Ws) as (m & Em & Wm & Mr & Mi); rewrite Em; cbn [bind];
    pose proof (ec_div_spec oc m s Wm Ws) as D;
    assert (Hs1 : Qeq_bool (cre s) 0 && Qeq_bool (cim s) 0 = false)
      by (rewrite Sr; reflexivity);
    rewrite Hs1 in D; destruct D as (d & Ed & Wd & Dr & Di); rewrite Ed; cbn [bind];
    destruct (ec_add_spec oc x d Hx Wd) as (r & Er & Wr & Rr & Ri); rewrite Er; cbn [bind fst snd andb];
    exists r; (split; [reflexivity|]); (split; [assumption|]);
    rewrite Sr, Si in *; (split; [rewrite Rr, Dr, Mr, Mi; field|rewrite Ri, Di, Mr, Mi; field]).
Qed.

Lemma v_sub_spec : forall oc x y, wfc x = true -> wfc y = true ->
  exists r, v_sub oc (x, true) (y, true) = Ok (r, true) /\ wfc r = true /\
            cre r == cre x - cre y /\ cim r == cim x - cim y.
Proof.
  intros oc x y Hx Hy. unfold v_sub, v_neg. cbn [fst snd].
  destruct (v_neg_spec y Hy) as (Wn & Nr & Ni).
  destruct (v_add_spec oc x (cx_neg y) Hx Wn) as (r & Er & Wr & Rr & Ri).
  exists r. split; [assumption|]. split; [assumption|].
  split; [rewrite Rr, Nr; ring|rewrite Ri, Ni; ring].
Qed.

Lemma v_mul_spec : forall oc x y, wfc x = true -> wfc y = true ->
  exists r, v_mul oc (x, true) (y, true) = Ok (r, true) /\ wfc r = true /\
            cre r == cre x * cre y - cim x * cim y /\
            cim r == cim x * cre y + cre x * cim y.
Proof.
  intros oc x y Hx Hy. unfold v_mul.
  destruct (ec_mul_spec oc x y Hx Hy) as (r & Er & Wr & Rr & Ri). rewrite Er. cbn [bind fst snd andb].
  exists r. auto.
Qed.

Lemma v_div_spec : forall oc a b, wfc a = true -> wfc b = true ->
  if Qeq_bool (cre b) 0 && Qeq_bool (cim b) 0 then v_div oc (a, true) (b, true) = Err EDivByZero
  else exists r, v_div oc (a, true) (b, true) = Ok (r, true) /\ wfc r = true /\
         cre r == (cre a * cre b + cim a * cim b) / (cre b * cre b + cim b * cim b) /\
         cim r == (cim a * cre b - cre a * cim b) / (cre b * cre b + cim b * cim b).
Proof.
  intros oc a b Ha Hb. unfold v_div. pose proof (ec_div_spec oc a b Ha Hb) as D.
  destruct (Qeq_bool (cre b) 0 && Qeq_bool (cim b) 0).
  - rewrite D. reflexivity.
  - destruct D as (r & Er & Wr & Rr & Ri). rewrite Er. cbn [bind fst snd andb]. exists r. auto.
Qed.

Lemma v_into_unitless_complex_spec : forall oc y, wfc y = true ->
  exists e, v_into_unitless_complex oc (y, true) = Ok e /\ wfc e = true /\
            cre e == cre y /\ cim e == cim y.
Proof.
  intros oc y Hy. unfold v_into_unitless_complex.
  rewrite cx_compare_spec by reflexivity. cbn [bind].
  change (Qeq_bool (cim (cx_of_u64 1)) 0 && Qeq_bool (cim (cx_of_u64 1)) 0) with true. cbv iota.
  change (cre (cx_of_u64 1) ?= cre (cx_of_u64 1)) with Eq.
  destruct (sf_scale_spec oc) as (s & Es & Ws & Sr & Si). rewrite Es. cbn [bind].
  destruct (sf_offset_spec oc) as (o & Eo & Wo & Or & Oi). rewrite Eo. cbn [bind].
  destruct (ec_mul_spec oc y s Hy Ws) as (m & Em & Wm & Mr & Mi). rewrite Em. cbn [bind].
  destruct (ec_add_spec oc m o Wm Wo) as (a & Ea & Wa & Ar & Ai). rewrite Ea. cbn [bind].
  pose proof (ec_div_spec oc a s Wa Ws) as D.
  assert (Hs1 : Qeq_bool (cre s) 0 && Qeq_bool (cim s) 0 = false) by (rewrite Sr; reflexivity).
  rewrite Hs1 in D. destruct D as (d & Ed & Wd & Dr & Di). rewrite Ed. cbn [bind fst].
  exists d. split; [reflexivity|]. split; [assumption|].
  rewrite Sr, Si in *. rewrite Or, Oi in *.
  split; [rewrite Dr, Ar, Ai, Mr, Mi; field|rewrite Di, Ar, Ai, Mr, Mi; field].
Qed.

(* ------------------------------------------------------------------ *)
(* Real::pow with an integer exponent *)

Lemma real_pow_spec : forall oc a b z, wfr a = true -> wfr b = true -> qval b == inject_Z z ->
  match real_pow oc a b with
  | Ok (r, fl) => fl = true /\ wfr r = true /\ qval r == Qpower (qval a) z /\
                  ~ (qval a == 0 /\ (z <= 0)%Z)
  | Err EZeroPowZero => qval a == 0 /\ z = 0%Z
  | Err EDivByZero => qval a == 0 /\ (z < 0)%Z
  | Err EExpTooLarge => (Z.of_N W <= Z.abs z)%Z
  | _ => False
  end.
Proof.
  intros oc a b z Ha Hb Qb. unfold real_pow.
  rewrite req_spec by (assumption || reflexivity). cbn [bind].
  rewrite (Qeqb_comp _ _ (reflexivity (qval b)) _ _ qval_1).
  destruct (Qeq_bool (qval b) 1) eqn:B1.
  - apply Qeq_bool_iff in B1. rewrite Qb in B1.
    change 1 with (inject_Z 1) in B1. rewrite inject_Z_injective in B1. subst z.
    split; [reflexivity|]. split; [assumption|]. split; [|lia].
    simpl. reflexivity.
  - rewrite req_spec by (assumption || reflexivity). cbn [bind].
    rewrite (Qeqb_comp _ _ (reflexivity (qval a)) _ _ qval_1).
    destruct (Qeq_bool (qval a) 1) eqn:A1.
    + apply Qeq_bool_iff in A1. split; [reflexivity|]. split; [reflexivity|].
      split; [rewrite A1, qval_1, Qpower_1; reflexivity|].
      intros [Z0 _]. rewrite A1 in Z0. discriminate.
    + exact (rpow_spec oc a b z Ha Hb Qb).
Qed.
