(* Model of core/src/num/bigrat.rs: sign + numerator + denominator, never
   reduced implicitly.  Executable Gallina only; proofs in BigRatProofs.v.
   Only the exact-arithmetic part is mirrored: neg, add_internal (gcd/lcm
   denominators, sign cases), simplify, mul, div, cmp (through add and its
   unwrap), pow with an integer exponent.  A non-integer exponent leads to
   root_n, which is outside this model: [Err ENotInteger]. *)
From FendV Require Import Base.Prelude Num.BigUint.
Open Scope N_scope.

Inductive sign := Negative | Positive.

Record bigrat := mkrat { rsign : sign; rnum : biguint; rden : biguint }.

Definition P_rat_cmp_unwrap : N := 201.   (* bigrat.rs:85  .unwrap() in Ord::cmp *)
Definition P_rat_pow_depth : N := 202.    (* model only: pow recursion deeper than the code can go *)

Definition flip (s : sign) : sign := match s with Positive => Negative | Negative => Positive end.
Definition sign_of_product (a b : sign) : sign :=
  match a, b with
  | Positive, Positive | Negative, Negative => Positive
  | _, _ => Negative
  end.
Definition is_neg (s : sign) : bool := match s with Negative => true | Positive => false end.

Definition rneg (x : bigrat) : bigrat := mkrat (flip (rsign x)) (rnum x) (rden x).
Definition rat_of_u64 (n : N) : bigrat := mkrat Positive (Small n) (Small 1).
Definition rat_of_biguint (n : biguint) : bigrat := mkrat Positive n (Small 1).

(* add_internal with self positive *)
Definition add_pos (oc : bool) (x y : bigrat) : res bigrat :=
  if is_eq (rden x) (rden y) then
    if is_neg (rsign y) && is_lt (rnum x) (rnum y) then
      do n <- sub oc (rnum y) (rnum x); Ok (mkrat Negative n (rden x))
    else
      do n <- (if is_neg (rsign y) then sub oc (rnum x) (rnum y) else Ok (add (rnum x) (rnum y)));
      Ok (mkrat Positive n (rden x))
  else
    do g <- gcd oc (rden x) (rden y);
    do nd <- div oc (mul (rden x) (rden y)) g;
    do a <- div oc (mul (rnum x) (rden y)) g;
    do b <- div oc (mul (rnum y) (rden x)) g;
    if is_neg (rsign y) && is_lt a b then
      do n <- sub oc b a; Ok (mkrat Negative n nd)
    else
      do n <- (if is_neg (rsign y) then sub oc a b else Ok (add a b));
      Ok (mkrat Positive n nd).

(* a + b == -((-a) + (-b)) when a is negative *)
Definition add_internal (oc : bool) (x y : bigrat) : res bigrat :=
  match rsign x with
  | Negative => do r <- add_pos oc (rneg x) (rneg y); Ok (rneg r)
  | Positive => add_pos oc x y
  end.
Definition radd := add_internal.

Definition simplify (oc : bool) (x : bigrat) : res bigrat :=
  if is_eq (rden x) (Small 1) then Ok x
  else
    do g <- gcd oc (rnum x) (rden x);
    do n <- div oc (rnum x) g;
    do d <- div oc (rden x) g;
    Ok (mkrat (rsign x) n d).

Definition rmul (x y : bigrat) : bigrat :=
  mkrat (sign_of_product (rsign x) (rsign y)) (mul (rnum x) (rnum y)) (mul (rden x) (rden y)).

Definition rdiv (x y : bigrat) : res bigrat :=
  if is_eq (rnum y) (Small 0) then Err EDivByZero
  else Ok (mkrat (sign_of_product (rsign x) (rsign y)) (mul (rnum x) (rden y)) (mul (rden x) (rnum y))).

(* impl Ord: diff = self + (-other), unwrapped *)
Definition rcmp (oc : bool) (x y : bigrat) : res comparison :=
  match add_internal oc x (rneg y) with
  | Ok d =>
    if is_eq (rnum d) (Small 0) then Ok Eq
    else if is_neg (rsign d) then Ok Lt else Ok Gt
  | Err _ => Panic P_rat_cmp_unwrap
  | Panic k => Panic k
  end.

Definition req (oc : bool) (x y : bigrat) : res bool :=
  do c <- rcmp oc x y; Ok (match c with Eq => true | _ => false end).

(* BigRat::is_integer since commit 19d36f9: den == 1, or the remainder of
   num / den is zero (an unreduced fraction such as 6/2 is an integer too) *)
Definition rat_is_integer (oc : bool) (x : bigrat) : bool :=
  if is_eq (rden x) (Small 1) then true
  else match divmod oc (rnum x) (rden x) with
       | Ok (_, r) => is_eq r (Small 0)
       | _ => false
       end.
(* before 19d36f9 *)
Definition rat_is_integer_old (x : bigrat) : bool := is_eq (rden x) (Small 1).
Definition rat_is_definitely_zero (x : bigrat) : bool := is_definitely_zero (rnum x).
Definition rat_is_definitely_one (x : bigrat) : bool :=
  negb (is_neg (rsign x)) && is_definitely_one (rnum x) && is_definitely_one (rden x).

(* pow: one level of the Rust function; [recurse] is the same function one
   level down (a negative exponent is made positive and the function calls
   itself exactly once). *)
Definition pow_level (oc : bool) (recurse : option (bigrat -> bigrat -> res (bigrat * bool)))
  (x0 y0 : bigrat) : res (bigrat * bool) :=
  do x <- simplify oc x0;
  do y <- simplify oc y0;
  if negb (is_eq (rnum x) (Small 0)) && is_neg (rsign x) && negb (is_eq (rden y) (Small 1)) then
    Err ENotInteger     (* RootsOfNegativeNumbers *)
  else if is_neg (rsign y) then
    match recurse with
    | None => Panic P_rat_pow_depth
    | Some f =>
      do inv <- f x (mkrat Positive (rnum y) (rden y));
      do v <- rdiv (rat_of_u64 1) (fst inv);
      Ok (v, snd inv)
    end
  else
    do ev <- (if is_neg (rsign x) then is_even oc (rnum y) else Ok true);
    let result_sign := if ev then Positive else Negative in
    do n <- pow (rnum x) (rnum y);
    do d <- pow (rden x) (rnum y);
    if is_eq (rden y) (Small 1) then Ok (mkrat result_sign n d, true)
    else Err ENotInteger.  (* root_n: not modelled *)

Definition rpow (oc : bool) (x y : bigrat) : res (bigrat * bool) :=
  pow_level oc (Some (pow_level oc None)) x y.

(* ------------------------------------------------------------------ *)
(* well-formedness *)

Definition wfr (x : bigrat) : bool := wf (rnum x) && wf (rden x) && negb (is_zero (rden x)).
