(* Proofs about the BigRat model against Coq's Q (setoid equality Qeq). *)
From Coq Require Import Lia ZifyBool Arith QArith Qpower Qfield.
From FendV Require Import Base.Prelude Num.BigUint Num.BigUintProofs Num.BigRat.
Open Scope N_scope.

Arguments N.add : simpl never.
Arguments N.sub : simpl never.
Arguments N.mul : simpl never.
Arguments N.div : simpl never.
Arguments N.modulo : simpl never.
Arguments N.eqb : simpl never.
Arguments N.ltb : simpl never.
Arguments N.leb : simpl never.
Arguments N.pow : simpl never.
Arguments N.gcd : simpl never.

(* ------------------------------------------------------------------ *)
(* N into Q *)

Definition qn (n : N) : Q := inject_Z (Z.of_N n).
Definition sq (s : sign) : Q := match s with Positive => 1%Q | Negative => (-1)%Q end.
Definition qval (x : bigrat) : Q := (sq (rsign x) * qn (val (rnum x)) / qn (val (rden x)))%Q.

Lemma qn_add : forall a b, (qn (a + b) == qn a + qn b)%Q.
Proof. intros. unfold qn. rewrite N2Z.inj_add, inject_Z_plus. reflexivity. Qed.
Lemma qn_mul : forall a b, (qn (a * b) == qn a * qn b)%Q.
Proof. intros. unfold qn. rewrite N2Z.inj_mul, inject_Z_mult. reflexivity. Qed.
Lemma qn_sub : forall a b, b <= a -> (qn (a - b) == qn a - qn b)%Q.
Proof.
  intros a b H. unfold qn. rewrite N2Z.inj_sub by assumption.
  unfold Z.sub. rewrite inject_Z_plus, inject_Z_opp. reflexivity.
Qed.
Lemma qn_nz : forall n, n <> 0 -> ~ (qn n == 0)%Q.
Proof.
  intros n H E. unfold qn in E. change 0%Q with (inject_Z 0) in E.
  rewrite inject_Z_injective in E. lia.
Qed.
Lemma qn_0 : (qn 0 == 0)%Q. Proof. reflexivity. Qed.
Lemma qn_1 : (qn 1 == 1)%Q. Proof. reflexivity. Qed.
Lemma qn_eq : forall a b, (qn a == qn b)%Q <-> a = b.
Proof. intros. unfold qn. rewrite inject_Z_injective. lia. Qed.
Lemma qn_nonneg : forall a, (0 <= qn a)%Q.
Proof. intro a. unfold qn. change 0%Q with (inject_Z 0). rewrite <- Zle_Qle. lia. Qed.
Lemma qn_pos : forall a, a <> 0 -> (0 < qn a)%Q.
Proof. intros a H. unfold qn. change 0%Q with (inject_Z 0). rewrite <- Zlt_Qlt. lia. Qed.

Lemma sq_flip : forall s, (sq (flip s) == - sq s)%Q.
Proof. intros []; reflexivity. Qed.
Lemma sq_prod : forall a b, (sq (sign_of_product a b) == sq a * sq b)%Q.
Proof. intros [] []; reflexivity. Qed.

Lemma wfr_iff : forall x, wfr x = true <-> wf (rnum x) = true /\ wf (rden x) = true /\ val (rden x) <> 0.
Proof.
  intro x. unfold wfr. rewrite !andb_true_iff, negb_true_iff, is_zero_spec.
  destruct (N.eqb_spec (val (rden x)) 0); intuition congruence.
Qed.

Lemma qval_neg : forall x, (qval (rneg x) == - qval x)%Q.
Proof.
  intro x. unfold qval, rneg. cbn [rsign rnum rden]. rewrite sq_flip.
  unfold Qdiv. ring.
Qed.

Lemma wfr_neg : forall x, wfr (rneg x) = wfr x.
Proof. reflexivity. Qed.

(* ------------------------------------------------------------------ *)
(* mul, div *)

Lemma rmul_spec : forall x y, wfr x = true -> wfr y = true ->
  wfr (rmul x y) = true /\ (qval (rmul x y) == qval x * qval y)%Q.
Proof.
  intros x y Hx Hy. apply wfr_iff in Hx. apply wfr_iff in Hy.
  destruct Hx as (Hxn & Hxd & Hxz). destruct Hy as (Hyn & Hyd & Hyz).
  destruct (mul_spec (rnum x) (rnum y) Hxn Hyn) as [Wn Vn].
  destruct (mul_spec (rden x) (rden y) Hxd Hyd) as [Wd Vd].
  split.
  - apply wfr_iff. unfold rmul. cbn [rnum rden]. rewrite Vd. repeat split; try assumption. nia.
  - unfold qval, rmul. cbn [rsign rnum rden]. rewrite Vn, Vd, sq_prod, !qn_mul.
    field. split; apply qn_nz; assumption.
Qed.

Lemma rdiv_spec : forall x y, wfr x = true -> wfr y = true ->
  if val (rnum y) =? 0 then rdiv x y = Err EDivByZero
  else exists r, rdiv x y = Ok r /\ wfr r = true /\ (qval r == qval x / qval y)%Q.
Proof.
  intros x y Hx Hy. apply wfr_iff in Hx. apply wfr_iff in Hy.
  destruct Hx as (Hxn & Hxd & Hxz). destruct Hy as (Hyn & Hyd & Hyz).
  unfold rdiv. rewrite is_eq_spec by (assumption || reflexivity). cbn [val].
  destruct (N.eqb_spec (val (rnum y)) 0) as [Z|Z]; [reflexivity|].
  destruct (mul_spec (rnum x) (rden y) Hxn Hyd) as [Wn Vn].
  destruct (mul_spec (rden x) (rnum y) Hxd Hyn) as [Wd Vd].
  eexists. split; [reflexivity|]. split.
  - apply wfr_iff. cbn [rnum rden]. rewrite Vd. repeat split; try assumption. nia.
  - unfold qval. cbn [rsign rnum rden]. rewrite Vn, Vd, sq_prod, !qn_mul.
    destruct (rsign y); cbn [sq]; field; repeat split; try (apply qn_nz; assumption).
Qed.

Lemma qval_zero_iff : forall x, wfr x = true -> ((qval x == 0)%Q <-> val (rnum x) = 0).
Proof.
  intros x Hx. apply wfr_iff in Hx. destruct Hx as (_ & _ & Hz).
  unfold qval. split.
  - intro E. destruct (N.eq_dec (val (rnum x)) 0) as [|Hn]; [assumption|exfalso].
    pose proof (qn_nz _ Hn) as A. pose proof (qn_nz _ Hz) as A2.
    assert (~ (sq (rsign x) == 0)%Q) by (destruct (rsign x); discriminate).
    apply A.
    assert (E2 : (qn (val (rnum x)) == (sq (rsign x) * qn (val (rnum x)) / qn (val (rden x))) * qn (val (rden x)) / sq (rsign x))%Q) by (field; auto).
    rewrite E2, E. field. assumption.
  - intro E. rewrite E. unfold Qdiv. rewrite qn_0. ring.
Qed.

(* ------------------------------------------------------------------ *)
(* simplify *)

Lemma gcd_nz_r : forall a b, b <> 0 -> N.gcd a b <> 0.
Proof. intros a b Hb E. apply N.gcd_eq_0_r in E. contradiction. Qed.

Lemma simplify_spec : forall oc x, wfr x = true ->
  exists r, simplify oc x = Ok r /\ wfr r = true /\ rsign r = rsign x /\
    val (rnum r) = val (rnum x) / N.gcd (val (rnum x)) (val (rden x)) /\
    val (rden r) = val (rden x) / N.gcd (val (rnum x)) (val (rden x)) /\
    N.gcd (val (rnum r)) (val (rden r)) = 1 /\ (qval r == qval x)%Q.
Proof.
  intros oc x Hx. pose proof Hx as Hx'. apply wfr_iff in Hx'. destruct Hx' as (Hn & Hd & Hz).
  unfold simplify. rewrite is_eq_spec by (assumption || reflexivity). cbn [val].
  destruct (N.eqb_spec (val (rden x)) 1) as [E1|E1].
  - exists x. rewrite E1, N.gcd_1_r, !N.div_1_r. repeat split; try assumption; try reflexivity.
  - destruct (gcd_spec oc (rnum x) (rden x) Hn Hd) as (g & Eg & Wg & Vg). rewrite Eg. cbn [bind].
    assert (Hgz : val g <> 0) by (rewrite Vg; apply gcd_nz_r; assumption).
    destruct (div_spec oc (rnum x) g Hn Wg Hgz) as (n' & En & Wn & Vn). rewrite En. cbn [bind].
    destruct (div_spec oc (rden x) g Hd Wg Hgz) as (d' & Ed & Wd & Vd). rewrite Ed. cbn [bind].
    rewrite Vg in *.
    set (G := N.gcd (val (rnum x)) (val (rden x))) in *.
    destruct (N.gcd_divide_l (val (rnum x)) (val (rden x))) as [kn Hkn].
    destruct (N.gcd_divide_r (val (rnum x)) (val (rden x))) as [kd Hkd].
    fold G in Hkn, Hkd.
    assert (Vn' : val n' = kn) by (rewrite Vn, Hkn; apply N.div_mul; assumption).
    assert (Vd' : val d' = kd) by (rewrite Vd, Hkd; apply N.div_mul; assumption).
    assert (Hkdz : kd <> 0) by (intro Z; rewrite Z in Hkd; lia).
    eexists. split; [reflexivity|]. cbn [rsign rnum rden].
    split; [apply wfr_iff; cbn [rnum rden]; repeat split; try assumption; lia|].
    split; [reflexivity|]. split; [assumption|]. split; [assumption|]. split.
    + rewrite Vn', Vd'.
      pose proof (N.gcd_mul_mono_r kn kd G) as M. rewrite <- Hkn, <- Hkd in M. fold G in M.
      assert (N.gcd kn kd * G = 1 * G) by lia.
      apply N.mul_cancel_r in H; assumption.
    + unfold qval. cbn [rsign rnum rden]. rewrite Vn', Vd'.
      rewrite Hkn, Hkd, !qn_mul. field.
      split; apply qn_nz; assumption.
Qed.

(* ------------------------------------------------------------------ *)
(* add *)

Lemma lcm_parts : forall nx dx ny dy, dx <> 0 -> dy <> 0 ->
  let g := N.gcd dx dy in
  g <> 0 /\ dx * dy / g <> 0 /\
  (nx * dy / g) * dx = nx * (dx * dy / g) /\
  (ny * dx / g) * dy = ny * (dx * dy / g).
Proof.
  intros nx dx ny dy Hx Hy g.
  assert (Hg : g <> 0) by (apply gcd_nz_r; assumption).
  destruct (N.gcd_divide_l dx dy) as [kx Hkx]. destruct (N.gcd_divide_r dx dy) as [ky Hky].
  fold g in Hkx, Hky.
  assert (E1 : dx * dy / g = kx * dy).
  { rewrite Hkx at 1. replace (kx * g * dy) with (kx * dy * g) by lia. apply N.div_mul. assumption. }
  assert (E2 : nx * dy / g = nx * ky).
  { rewrite Hky at 1. replace (nx * (ky * g)) with (nx * ky * g) by lia. apply N.div_mul. assumption. }
  assert (E3 : ny * dx / g = ny * kx).
  { rewrite Hkx at 1. replace (ny * (kx * g)) with (ny * kx * g) by lia. apply N.div_mul. assumption. }
  rewrite E1, E2, E3.
  assert (kx <> 0) by (intro Z; rewrite Z in Hkx; lia).
  split; [assumption|]. split; [nia|].
  clearbody g. subst dx dy. split; lia.
Qed.

(* the generic shape of the result of add_pos: (+-)(a -+ b) / nd *)
Lemma add_pos_spec : forall oc x y, wfr x = true -> wfr y = true -> rsign x = Positive ->
  exists r, add_pos oc x y = Ok r /\ wfr r = true /\ (qval r == qval x + qval y)%Q.
Proof.
  intros oc x y Hx Hy Sx. apply wfr_iff in Hx. apply wfr_iff in Hy.
  destruct Hx as (Hxn & Hxd & Hxz). destruct Hy as (Hyn & Hyd & Hyz).
  unfold add_pos in *. rewrite is_eq_spec in * by assumption.
  destruct (N.eqb_spec (val (rden x)) (val (rden y))) as [Ed|Ed].
  - (* equal denominators *)
    rewrite is_lt_spec by assumption.
    destruct (rsign y) eqn:Sy; cbn [is_neg andb] in *.
    + destruct (N.ltb_spec (val (rnum x)) (val (rnum y))) as [L|L].
      * destruct (sub_spec oc (rnum y) (rnum x) Hyn Hxn) as (n & En & Wn & Vn); [lia|].
        rewrite En. cbn [bind]. eexists. split; [reflexivity|]. split.
        { apply wfr_iff. cbn [rnum rden]. auto. }
        unfold qval. cbn [rsign rnum rden sq]. rewrite Sx, Sy, Vn, qn_sub by lia. cbn [sq].
        rewrite <- Ed. field. apply qn_nz. assumption.
      * destruct (sub_spec oc (rnum x) (rnum y) Hxn Hyn L) as (n & En & Wn & Vn).
        rewrite En. cbn [bind]. eexists. split; [reflexivity|]. split.
        { apply wfr_iff. cbn [rnum rden]. auto. }
        unfold qval. cbn [rsign rnum rden sq]. rewrite Sx, Sy, Vn, qn_sub by lia. cbn [sq].
        rewrite <- Ed. field. apply qn_nz. assumption.
    + destruct (add_spec (rnum x) (rnum y) Hxn Hyn) as [Wn Vn].
      cbn [bind]. eexists. split; [reflexivity|]. split.
      { apply wfr_iff. cbn [rnum rden]. auto. }
      unfold qval. cbn [rsign rnum rden sq]. rewrite Sx, Sy, Vn, qn_add. cbn [sq].
      rewrite <- Ed. field. apply qn_nz. assumption.
  - (* different denominators: lcm *)
    destruct (gcd_spec oc (rden x) (rden y) Hxd Hyd) as (g & Eg & Wg & Vg). rewrite Eg. cbn [bind].
    destruct (lcm_parts (val (rnum x)) (val (rden x)) (val (rnum y)) (val (rden y)) Hxz Hyz)
      as (Hgz & Hndz & Ea & Eb).
    rewrite <- Vg in Hgz, Hndz, Ea, Eb.
    destruct (mul_spec (rden x) (rden y) Hxd Hyd) as [Wm1 Vm1].
    destruct (mul_spec (rnum x) (rden y) Hxn Hyd) as [Wm2 Vm2].
    destruct (mul_spec (rnum y) (rden x) Hyn Hxd) as [Wm3 Vm3].
    destruct (div_spec oc _ g Wm1 Wg Hgz) as (nd & End & Wnd & Vnd). rewrite End. cbn [bind].
    destruct (div_spec oc _ g Wm2 Wg Hgz) as (a & Ea' & Wa & Va). rewrite Ea'. cbn [bind].
    destruct (div_spec oc _ g Wm3 Wg Hgz) as (b & Eb' & Wb & Vb). rewrite Eb'. cbn [bind].
    rewrite Vm1 in Vnd. rewrite Vm2 in Va. rewrite Vm3 in Vb.
    rewrite <- Vnd in Hndz, Ea, Eb. rewrite <- Va in Ea. rewrite <- Vb in Eb.
    assert (Qa : (qn (val a) * qn (val (rden x)) == qn (val (rnum x)) * qn (val nd))%Q)
      by (rewrite <- !qn_mul; apply qn_eq; assumption).
    assert (Qb : (qn (val b) * qn (val (rden y)) == qn (val (rnum y)) * qn (val nd))%Q)
      by (rewrite <- !qn_mul; apply qn_eq; assumption).
    pose proof (qn_nz _ Hxz) as Zx. pose proof (qn_nz _ Hyz) as Zy. pose proof (qn_nz _ Hndz) as Znd.
    assert (Fa : (qn (val (rnum x)) / qn (val (rden x)) == qn (val a) / qn (val nd))%Q).
    { assert (E : (qn (val (rnum x)) == qn (val a) * qn (val (rden x)) / qn (val nd))%Q)
        by (rewrite Qa; field; assumption).
      rewrite E. field. auto. }
    assert (Fb : (qn (val (rnum y)) / qn (val (rden y)) == qn (val b) / qn (val nd))%Q).
    { assert (E : (qn (val (rnum y)) == qn (val b) * qn (val (rden y)) / qn (val nd))%Q)
        by (rewrite Qb; field; assumption).
      rewrite E. field. auto. }
    rewrite is_lt_spec by assumption.
    assert (Qx : (qval x == qn (val a) / qn (val nd))%Q).
    { unfold qval. rewrite Sx. cbn [sq]. rewrite <- Fa. field. assumption. }
    destruct (rsign y) eqn:Sy; cbn [is_neg andb] in *.
    + assert (Qy : (qval y == - (qn (val b) / qn (val nd)))%Q).
      { unfold qval. rewrite Sy. cbn [sq]. rewrite <- Fb. field. assumption. }
      destruct (N.ltb_spec (val a) (val b)) as [L|L].
      * destruct (sub_spec oc b a Wb Wa) as (n & En & Wn & Vn); [lia|].
        rewrite En. cbn [bind]. eexists. split; [reflexivity|]. split.
        { apply wfr_iff. cbn [rnum rden]. auto. }
        rewrite Qx, Qy. unfold qval. cbn [rsign rnum rden sq]. rewrite Vn, qn_sub by lia.
        field. assumption.
      * destruct (sub_spec oc a b Wa Wb L) as (n & En & Wn & Vn).
        rewrite En. cbn [bind]. eexists. split; [reflexivity|]. split.
        { apply wfr_iff. cbn [rnum rden]. auto. }
        rewrite Qx, Qy. unfold qval. cbn [rsign rnum rden sq]. rewrite Vn, qn_sub by lia.
        field. assumption.
    + assert (Qy : (qval y == qn (val b) / qn (val nd))%Q).
      { unfold qval. rewrite Sy. cbn [sq]. rewrite <- Fb. field. assumption. }
      destruct (add_spec a b Wa Wb) as [Wn Vn].
      cbn [bind]. eexists. split; [reflexivity|]. split.
      { apply wfr_iff. cbn [rnum rden]. auto. }
      rewrite Qx, Qy. unfold qval. cbn [rsign rnum rden sq]. rewrite Vn, qn_add.
      field. assumption.
Qed.

Lemma radd_spec : forall oc x y, wfr x = true -> wfr y = true ->
  exists r, add_internal oc x y = Ok r /\ wfr r = true /\ (qval r == qval x + qval y)%Q.
Proof.
  intros oc x y Hx Hy. unfold add_internal.
  destruct (rsign x) eqn:Sx.
  - destruct (add_pos_spec oc (rneg x) (rneg y)) as (r & Er & Wr & Vr); try assumption.
    { unfold rneg. cbn [rsign]. rewrite Sx. reflexivity. }
    rewrite Er. cbn [bind]. exists (rneg r). split; [reflexivity|]. split; [assumption|].
    rewrite qval_neg, Vr, !qval_neg. ring.
  - apply add_pos_spec; assumption.
Qed.

(* ------------------------------------------------------------------ *)
(* cmp *)

Lemma rcmp_spec : forall oc x y, wfr x = true -> wfr y = true ->
  rcmp oc x y = Ok (qval x ?= qval y)%Q.
Proof.
  intros oc x y Hx Hy. unfold rcmp.
  destruct (radd_spec oc x (rneg y) Hx Hy) as (d & Ed & Wd & Vd).
  rewrite Ed. rewrite qval_neg in Vd.
  pose proof Wd as Wd'. apply wfr_iff in Wd'. destruct Wd' as (Wn & Wdd & Wz).
  rewrite is_eq_spec by (assumption || reflexivity). cbn [val].
  assert (Hs : (qval x - qval y == qval d)%Q) by (rewrite Vd; ring).
  destruct (N.eqb_spec (val (rnum d)) 0) as [Z|Z].
  - apply (qval_zero_iff d Wd) in Z. f_equal. symmetry. apply Qeq_alt.
    rewrite Z in Hs. assert (E : (qval x == qval x - qval y + qval y)%Q) by ring.
    rewrite E, Hs. ring.
  - assert (Hdq : (qval d == sq (rsign d) * (qn (val (rnum d)) / qn (val (rden d))))%Q)
      by (unfold qval, Qdiv; ring).
    assert (Hpos : (0 < qn (val (rnum d)) / qn (val (rden d)))%Q).
    { apply Qlt_shift_div_l; [apply qn_pos; assumption|]. rewrite Qmult_0_l. apply qn_pos. assumption. }
    destruct (rsign d); cbn [is_neg sq] in *; f_equal; symmetry.
    + apply Qlt_alt. apply (Qplus_lt_l _ _ (- qval y)).
      setoid_replace (qval y + - qval y)%Q with 0%Q by ring.
      setoid_replace (qval x + - qval y)%Q with (qval d) by (rewrite <- Hs; ring).
      rewrite Hdq.
      setoid_replace (-1 * (qn (val (rnum d)) / qn (val (rden d))))%Q with (- (qn (val (rnum d)) / qn (val (rden d))))%Q by ring.
      apply (Qplus_lt_l _ _ (qn (val (rnum d)) / qn (val (rden d)))).
      setoid_replace (- (qn (val (rnum d)) / qn (val (rden d))) + qn (val (rnum d)) / qn (val (rden d)))%Q with 0%Q by ring.
      rewrite Qplus_0_l. assumption.
    + apply Qgt_alt. apply (Qplus_lt_l _ _ (- qval y)).
      setoid_replace (qval y + - qval y)%Q with 0%Q by ring.
      setoid_replace (qval x + - qval y)%Q with (qval d) by (rewrite <- Hs; ring).
      rewrite Hdq. rewrite Qmult_1_l. assumption.
Qed.

(* ------------------------------------------------------------------ *)
(* pow with an integer exponent *)

Lemma qn_pow : forall a e, (qn (a ^ e) == Qpower (qn a) (Z.of_N e))%Q.
Proof.
  intros a e. unfold qn. rewrite N2Z.inj_pow. apply Zpower_Qpower. lia.
Qed.

Lemma qpow_m1_even : forall k, (Qpower (-1) (Z.of_N (2 * k)) == 1)%Q.
Proof.
  intro k. rewrite N2Z.inj_mul, Qpower_mult.
  change (Qpower (-1) (Z.of_N 2)) with 1%Q. apply Qpower_1.
Qed.

Lemma qpow_m1 : forall e, (Qpower (-1) (Z.of_N e) == if e mod 2 =? 0 then 1 else -1)%Q.
Proof.
  intro e. destruct (N.Even_or_Odd e) as [[k Hk]|[k Hk]]; subst e.
  - rewrite (N.mul_comm 2 k), N.mod_mul by lia. rewrite N.mul_comm. apply qpow_m1_even.
  - rewrite N.add_comm, (N.mul_comm 2 k), N.mod_add by lia.
    change (1 mod 2 =? 0) with false. cbv iota.
    rewrite N2Z.inj_add, Qpower_plus by discriminate.
    rewrite N.mul_comm, qpow_m1_even. reflexivity.
Qed.

Lemma sq_pow : forall s e, (Qpower (sq s) (Z.of_N e) ==
  sq (if is_neg s then (if e mod 2 =? 0 then Positive else Negative) else Positive))%Q.
Proof.
  intros [] e; cbn [is_neg sq].
  - rewrite qpow_m1. destruct (e mod 2 =? 0); reflexivity.
  - apply Qpower_1.
Qed.

(* an integer-valued rational simplifies to |z| / 1 *)
Lemma simplify_integer : forall oc y z, wfr y = true -> (qval y == inject_Z z)%Q ->
  exists y', simplify oc y = Ok y' /\ wfr y' = true /\ rsign y' = rsign y /\
    val (rden y') = 1 /\ Z.of_N (val (rnum y')) = Z.abs z /\ (qval y' == inject_Z z)%Q.
Proof.
  intros oc y z Hy Hq.
  destruct (simplify_spec oc y Hy) as (y' & E & W' & S' & Vn & Vd & G & Q').
  exists y'. split; [assumption|]. split; [assumption|]. split; [assumption|].
  apply wfr_iff in Hy. destruct Hy as (_ & _ & Hz).
  (* ny = |z| * dy *)
  assert (Hmul : Z.of_N (val (rnum y)) = (Z.abs z * Z.of_N (val (rden y)))%Z).
  { unfold qval in Hq. pose proof (qn_nz _ Hz) as Zd.
    assert (E1 : (sq (rsign y) * qn (val (rnum y)) == inject_Z z * qn (val (rden y)))%Q).
    { rewrite <- Hq. field. assumption. }
    unfold qn in E1. destruct (rsign y); cbn [sq] in E1.
    - assert (E2 : (inject_Z (- Z.of_N (val (rnum y))) == inject_Z (z * Z.of_N (val (rden y))))%Q).
      { rewrite inject_Z_opp, inject_Z_mult. rewrite <- E1. ring. }
      rewrite inject_Z_injective in E2. destruct (Z.abs_spec z) as [[? ->]|[? ->]]; nia.
    - assert (E2 : (inject_Z (Z.of_N (val (rnum y))) == inject_Z (z * Z.of_N (val (rden y))))%Q).
      { rewrite inject_Z_mult. rewrite <- E1. ring. }
      rewrite inject_Z_injective in E2. destruct (Z.abs_spec z) as [[? ->]|[? ->]]; nia. }
  assert (Hn : val (rnum y) = Z.to_N (Z.abs z) * val (rden y)) by lia.
  assert (Hg : N.gcd (val (rnum y)) (val (rden y)) = val (rden y)).
  { rewrite Hn. rewrite N.gcd_comm. apply N.divide_gcd_iff'. apply N.divide_factor_r. }
  rewrite Hg in Vn, Vd.
  assert (Vd1 : val (rden y') = 1) by (rewrite Vd; apply N.div_same; assumption).
  assert (Vn1 : val (rnum y') = Z.to_N (Z.abs z)) by (rewrite Vn, Hn; apply N.div_mul; assumption).
  split; [assumption|]. split; [lia|]. rewrite Q'. assumption.
Qed.

(* the numerator of an integer-valued rational is a multiple of its denominator *)
Lemma integer_num_multiple : forall y z, wfr y = true -> (qval y == inject_Z z)%Q ->
  val (rnum y) = Z.to_N (Z.abs z) * val (rden y).
Proof.
  intros y z Hy Hq. apply wfr_iff in Hy. destruct Hy as (_ & _ & Hz).
  assert (Hmul : Z.of_N (val (rnum y)) = (Z.abs z * Z.of_N (val (rden y)))%Z).
  { unfold qval in Hq. pose proof (qn_nz _ Hz) as Zd.
    assert (E1 : (sq (rsign y) * qn (val (rnum y)) == inject_Z z * qn (val (rden y)))%Q).
    { rewrite <- Hq. field. assumption. }
    unfold qn in E1. destruct (rsign y); cbn [sq] in E1.
    - assert (E2 : (inject_Z (- Z.of_N (val (rnum y))) == inject_Z (z * Z.of_N (val (rden y))))%Q).
      { rewrite inject_Z_opp, inject_Z_mult. rewrite <- E1. ring. }
      rewrite inject_Z_injective in E2. destruct (Z.abs_spec z) as [[? ->]|[? ->]]; nia.
    - assert (E2 : (inject_Z (Z.of_N (val (rnum y))) == inject_Z (z * Z.of_N (val (rden y))))%Q).
      { rewrite inject_Z_mult. rewrite <- E1. ring. }
      rewrite inject_Z_injective in E2. destruct (Z.abs_spec z) as [[? ->]|[? ->]]; nia. }
  lia.
Qed.

(* BigRat::is_integer (value-based since 19d36f9) recognises every integer value *)
Lemma rat_is_integer_spec : forall oc y z, wfr y = true -> (qval y == inject_Z z)%Q ->
  rat_is_integer oc y = true.
Proof.
  intros oc y z Hy Hq. pose proof (integer_num_multiple y z Hy Hq) as Hn.
  apply wfr_iff in Hy. destruct Hy as (Wn & Wd & Hz).
  unfold rat_is_integer. rewrite is_eq_spec by (assumption || reflexivity).
  destruct (val (rden y) =? val (Small 1)); [reflexivity|].
  destruct (divmod_val oc (rnum y) (rden y) Wn Wd Hz) as (q & r & E & _ & Wr & _ & Vr).
  rewrite E. rewrite is_eq_spec by (assumption || reflexivity). cbn [val].
  rewrite Vr, Hn, N.mod_mul by assumption. reflexivity.
Qed.

(* main branch of pow: exponent with a Positive sign *)
Lemma pow_level_pos : forall oc recurse x y e, wfr x = true -> wfr y = true ->
  rsign y = Positive -> (qval y == inject_Z (Z.of_N e))%Q ->
  match pow_level oc recurse x y with
  | Ok (r, fl) => fl = true /\ wfr r = true /\ (qval r == Qpower (qval x) (Z.of_N e))%Q /\
                  ~ ((qval x == 0)%Q /\ e = 0)
  | Err EZeroPowZero => (qval x == 0)%Q /\ e = 0
  | Err EExpTooLarge => W <= e
  | _ => False
  end.
Proof.
  intros oc recurse x y e Hx Hy Sy Qy.
  destruct (simplify_spec oc x Hx) as (x' & Ex & Wx' & Sx' & _ & _ & _ & Qx').
  destruct (simplify_integer oc y _ Hy Qy) as (y' & Ey & Wy' & Sy' & Vd' & Vn' & Qy').
  unfold pow_level. rewrite Ex, Ey. cbn [bind].
  pose proof Wx' as Wx''. apply wfr_iff in Wx''. destruct Wx'' as (Wxn & Wxd & Wxz).
  pose proof Wy' as Wy''. apply wfr_iff in Wy''. destruct Wy'' as (Wyn & Wyd & Wyz).
  rewrite !is_eq_spec by (assumption || reflexivity). cbn [val]. rewrite Vd'.
  change (1 =? 1) with true. cbn [negb andb]. rewrite andb_false_r.
  rewrite Sy', Sy. cbn [is_neg].
  assert (Ve : val (rnum y') = e) by lia.
  assert (Hev : (if is_neg (rsign x') then is_even oc (rnum y') else Ok true)
                = Ok (if is_neg (rsign x') then e mod 2 =? 0 else true)).
  { destruct (is_neg (rsign x')); [|reflexivity]. rewrite is_even_spec by assumption. rewrite Ve. reflexivity. }
  rewrite Hev. cbn [bind].
  pose proof (pow_spec (rnum x') (rnum y') Wxn Wyn) as Pn.
  pose proof (pow_spec (rden x') (rnum y') Wxd Wyn) as Pd.
  rewrite Ve in Pn, Pd.
  assert (Zx : (qval x == 0)%Q <-> val (rnum x') = 0).
  { rewrite <- Qx'. apply qval_zero_iff. assumption. }
  destruct (pow (rnum x') (rnum y')) as [n|[]|]; try contradiction.
  - destruct Pn as (Wn & Vn & Nz). cbn [bind].
    destruct (pow (rden x') (rnum y')) as [d|[]|]; try contradiction.
    + destruct Pd as (Wd & Vd & _). cbn [bind].
      split; [reflexivity|]. split.
      { apply wfr_iff. cbn [rnum rden]. rewrite Vd. repeat split; try assumption.
        apply N.pow_nonzero. assumption. }
      split.
      * rewrite <- Qx'. unfold qval. cbn [rsign rnum rden]. rewrite Vn, Vd, !qn_pow.
        rewrite Qdiv_power, Qmult_power, sq_pow.
        destruct (is_neg (rsign x')); reflexivity.
      * intros [A1 A2]. apply Nz. split; [apply Zx; assumption|assumption].
    + destruct Pd as [Pd1 Pd2]. contradiction.
    + cbn [bind]. lia.
  - destruct Pn as [A1 A2]. cbn [bind]. split; [apply Zx; assumption|assumption].
  - cbn [bind]. assumption.
Qed.

Lemma qval_nonneg_pos : forall y, rsign y = Positive -> wfr y = true -> (0 <= qval y)%Q.
Proof.
  intros y S Hy. apply wfr_iff in Hy. destruct Hy as (_ & _ & Hz).
  unfold qval. rewrite S. cbn [sq]. rewrite Qmult_1_l.
  apply Qle_shift_div_l; [apply qn_pos; assumption|]. rewrite Qmult_0_l. apply qn_nonneg.
Qed.

Lemma qval_nonpos_neg : forall y, rsign y = Negative -> wfr y = true -> (qval y <= 0)%Q.
Proof.
  intros y S Hy. pose proof (qval_nonneg_pos (rneg y)) as H.
  unfold rneg in H at 1. cbn [rsign] in H. rewrite S in H. specialize (H eq_refl Hy).
  rewrite qval_neg in H. apply Qopp_le_compat in H. rewrite Qopp_involutive in H. exact H.
Qed.

(* pow with an integer exponent z (the value of the exponent operand) *)
Lemma rpow_spec : forall oc x y z, wfr x = true -> wfr y = true -> (qval y == inject_Z z)%Q ->
  match rpow oc x y with
  | Ok (r, fl) => fl = true /\ wfr r = true /\ (qval r == Qpower (qval x) z)%Q /\
                  ~ ((qval x == 0)%Q /\ (z <= 0)%Z)
  | Err EZeroPowZero => (qval x == 0)%Q /\ z = 0%Z
  | Err EDivByZero => (qval x == 0)%Q /\ (z < 0)%Z
  | Err EExpTooLarge => (Z.of_N W <= Z.abs z)%Z
  | _ => False
  end.
Proof.
  intros oc x y z Hx Hy Qy. unfold rpow.
  destruct (rsign y) eqn:Sy.
  - (* negative exponent: the function runs once more on the simplified operands *)
    assert (Hz : (z <= 0)%Z).
    { pose proof (qval_nonpos_neg y Sy Hy) as L. rewrite Qy in L.
      change 0%Q with (inject_Z 0) in L. rewrite <- Zle_Qle in L. assumption. }
    set (e := Z.to_N (- z)).
    destruct (simplify_spec oc x Hx) as (x' & Ex & Wx' & Sx' & _ & _ & _ & Qx').
    destruct (simplify_integer oc y _ Hy Qy) as (y' & Ey & Wy' & Sy' & Vd' & Vn' & Qy').
    unfold pow_level at 1. rewrite Ex, Ey. cbn [bind].
    pose proof Wy' as Wy''. apply wfr_iff in Wy''. destruct Wy'' as (Wyn & Wyd & Wyz).
    rewrite (is_eq_spec (rden y')) by (assumption || reflexivity). cbn [val]. rewrite Vd'.
    change (1 =? 1) with true. cbn [negb]. rewrite andb_false_r.
    rewrite Sy', Sy. cbn [is_neg].
    set (y2 := mkrat Positive (rnum y') (rden y')).
    assert (Wy2 : wfr y2 = true) by exact Wy'.
    assert (Qy2 : (qval y2 == inject_Z (Z.of_N e))%Q).
    { unfold qval, y2. cbn [rsign rnum rden sq]. rewrite Vd'.
      assert (Ee : val (rnum y') = e) by (unfold e; lia). rewrite Ee.
      unfold qn. change (inject_Z (Z.of_N 1)) with 1%Q. field. }
    pose proof (pow_level_pos oc None x' y2 e Wx' Wy2 eq_refl Qy2) as P.
    destruct (pow_level oc None x' y2) as [[r0 fl]|[]|]; try contradiction.
    + destruct P as (Fl & Wr0 & Qr0 & Nz). cbn [bind fst snd].
      pose proof (rdiv_spec (rat_of_u64 1) r0 eq_refl Wr0) as D.
      assert (Q1 : (qval (rat_of_u64 1) == 1)%Q) by reflexivity.
      destruct (N.eqb_spec (val (rnum r0)) 0) as [Z0|Z0].
      * rewrite D. cbn [bind].
        apply (qval_zero_iff r0 Wr0) in Z0. rewrite Qr0, Qx' in Z0.
        assert (X0 : (qval x == 0)%Q).
        { destruct (Qeq_dec (qval x) 0) as [|N0]; [assumption|].
          exfalso. exact (Qpower_not_0 _ (Z.of_N e) N0 Z0). }
        split; [assumption|].
        assert (e <> 0). { intro E0. apply Nz. split; [rewrite Qx'; assumption|assumption]. }
        unfold e in *. lia.
      * destruct D as (r & Er & Wr & Qr). rewrite Er. cbn [bind].
        split; [assumption|]. split; [assumption|]. split.
        { rewrite Qr, Q1, Qr0, Qx'.
          replace z with (- Z.of_N e)%Z by (unfold e; lia).
          rewrite Qpower_opp. field.
          intro E0. apply Z0. apply (qval_zero_iff r0 Wr0). rewrite Qr0, Qx'. assumption. }
        { intros [X0 _]. apply Z0. apply (qval_zero_iff r0 Wr0). rewrite Qr0, Qx', X0.
          apply Qpower_0. intro E0. apply Nz. split; [rewrite Qx'; assumption|lia]. }
    + destruct P as [X0 E0]. cbn [bind]. rewrite Qx' in X0. split; [assumption|]. unfold e in E0. lia.
    + cbn [bind]. unfold e in P. lia.
  - (* non-negative exponent *)
    assert (Hz : (0 <= z)%Z).
    { pose proof (qval_nonneg_pos y Sy Hy) as L. rewrite Qy in L.
      change 0%Q with (inject_Z 0) in L. rewrite <- Zle_Qle in L. assumption. }
    set (e := Z.to_N z).
    assert (Qe : (qval y == inject_Z (Z.of_N e))%Q) by (rewrite Qy; unfold e; rewrite Z2N.id by assumption; reflexivity).
    pose proof (pow_level_pos oc (Some (pow_level oc None)) x y e Hx Hy Sy Qe) as P.
    destruct (pow_level oc (Some (pow_level oc None)) x y) as [[r fl]|[]|]; try contradiction.
    + destruct P as (Fl & Wr & Qr & Nz).
      split; [assumption|]. split; [assumption|]. split.
      * rewrite Qr. unfold e. rewrite Z2N.id by assumption. reflexivity.
      * intros [X0 Z0]. apply Nz. split; [assumption|]. unfold e. lia.
    + destruct P as [X0 E0]. split; [assumption|]. unfold e in E0. lia.
    + unfold e in P. lia.
Qed.

(* non-vacuity *)
Example wfr_inhabited :
  wfr (mkrat Negative (Large [0; 5; 0]) (Large [3; 1])) = true /\
  wfr (mkrat Positive (Small 0) (Small 7)) = true.
Proof. vm_compute. auto. Qed.
