(* Model of the layers between BigRat and the evaluator, restricted to the
   exact-arithmetic fragment of C01:
     real.rs     Real (Pattern::Simple only -- no pi in this fragment),
                 impl Exact<Real>: add mul div with the exact-zero short-cuts
     complex.rs  Complex {real, imag}, impl Exact<Complex>: add mul div,
                 conjugate, compare, pow (real base, integer real exponent)
     dist.rs     single-point distributions are transparent (one_point)
     unit.rs     Value add / sub / mul / div / pow / neg / real / imag /
                 conjugate for unitless operands: exact flag conjunction and
                 the scale-factor plumbing (compute_scale_factor on two empty
                 unit lists = (1*1, 0 + -0, 1*1), evaluated as the code does)
   Executable Gallina only.  Anything that would leave exact rational
   arithmetic (frac_pow through ln/exp, complex powers) is [Err EOther]. *)
From FendV Require Import Base.Prelude Num.BigUint Num.BigRat.
Open Scope N_scope.

(* ---------------- Real (Simple) ---------------- *)

Definition ereal := (bigrat * bool)%type.     (* Exact<Real>: value, exact *)

(* Real::is_zero: a.is_definitely_zero() || a == &0.into() *)
Definition real_is_zero (oc : bool) (a : bigrat) : res bool :=
  if rat_is_definitely_zero a then Ok true else req oc a (rat_of_u64 0).

(* Real::is_neg: !a.is_definitely_zero() && a < &0.into() *)
Definition real_is_neg (oc : bool) (a : bigrat) : res bool :=
  if rat_is_definitely_zero a then Ok false
  else do c <- rcmp oc a (rat_of_u64 0); Ok (match c with Lt => true | _ => false end).

Definition exact_zero (oc : bool) (x : ereal) : res bool :=
  if snd x then real_is_zero oc (fst x) else Ok false.

Definition er_add (oc : bool) (x y : ereal) : res ereal :=
  do c1 <- exact_zero oc x;
  if c1 then Ok y else
  do c2 <- exact_zero oc y;
  if c2 then Ok x else
  do s <- radd oc (fst x) (fst y); Ok (s, snd x && snd y).

Definition er_mul (oc : bool) (x y : ereal) : res ereal :=
  do c1 <- exact_zero oc x;
  if c1 then Ok x else
  do c2 <- exact_zero oc y;
  if c2 then Ok y else
  Ok (rmul (fst x) (fst y), snd x && snd y).

Definition er_div (oc : bool) (x y : ereal) : res ereal :=
  do z <- real_is_zero oc (fst y);
  if z then Err EDivByZero else
  do c1 <- exact_zero oc x;
  if c1 then Ok x else
  do q <- rdiv (fst x) (fst y); Ok (q, snd x && snd y).

Definition er_neg (x : ereal) : ereal := (rneg (fst x), snd x).

(* Real::pow for Simple/Simple: x^1 == x, 1^x == 1, else BigRat::pow *)
Definition real_pow (oc : bool) (a b : bigrat) : res ereal :=
  do b1 <- req oc b (rat_of_u64 1);
  if b1 then Ok (a, true) else
  do a1 <- req oc a (rat_of_u64 1);
  if a1 then Ok (rat_of_u64 1, true) else
  rpow oc a b.

(* ---------------- Complex ---------------- *)

Record complex := mkcx { re : bigrat; im : bigrat }.
Definition ecomplex := (complex * bool)%type.

Definition cx_of_u64 (n : N) : complex := mkcx (rat_of_u64 n) (rat_of_u64 0).
Definition cx_of_real (r : bigrat) : complex := mkcx r (rat_of_u64 0).
Definition cx_i : complex := mkcx (rat_of_u64 0) (rat_of_u64 1).
Definition cx_neg (z : complex) : complex := mkcx (rneg (re z)) (rneg (im z)).
Definition cx_conj (z : complex) : complex := mkcx (re z) (rneg (im z)).

Definition ec_add (oc : bool) (x y : ecomplex) : res ecomplex :=
  do r <- er_add oc (re (fst x), snd x) (re (fst y), snd y);
  do i <- er_add oc (im (fst x), snd x) (im (fst y), snd y);
  Ok (mkcx (fst r) (fst i), snd r && snd i).

(* (a + bi)(c + di) = (ac - bd) + (bc + ad)i, in the order the code computes *)
Definition ec_mul (oc : bool) (x y : ecomplex) : res ecomplex :=
  let a := (re (fst x), snd x) in let b := (im (fst x), snd x) in
  let c := (re (fst y), snd y) in let d := (im (fst y), snd y) in
  do prod1 <- er_mul oc a c;
  do prod2 <- er_mul oc b d;
  do real_part <- er_add oc prod1 (er_neg prod2);
  do prod3 <- er_mul oc a d;
  do prod4 <- er_mul oc b c;
  do imag_part <- er_add oc prod3 prod4;
  Ok (mkcx (fst real_part) (fst imag_part), snd real_part && snd imag_part).

(* (u + vi) / (x + yi) = (1/(x^2 + y^2)) * ((ux + vy) + (vx - uy)i) *)
Definition ec_div (oc : bool) (a b : ecomplex) : res ecomplex :=
  let u := (re (fst a), snd a) in let v := (im (fst a), snd a) in
  let x := (re (fst b), snd b) in let y := (im (fst b), snd b) in
  do vz <- exact_zero oc v;
  do yz <- (if vz then exact_zero oc y else Ok false);
  if vz && yz then
    do q <- er_div oc u x; Ok (mkcx (fst q) (rat_of_u64 0), snd q)
  else
    do prod1 <- er_mul oc x x;
    do prod2 <- er_mul oc y y;
    do sum <- er_add oc prod1 prod2;
    do real_part <- er_div oc (rat_of_u64 1, true) sum;
    do prod3 <- er_mul oc u x;
    do prod4 <- er_mul oc v y;
    do real2 <- er_add oc prod3 prod4;
    do prod5 <- er_mul oc v x;
    do prod6 <- er_mul oc u y;
    do imag2 <- er_add oc prod5 (er_neg prod6);
    ec_mul oc (mkcx (fst real_part) (rat_of_u64 0), snd real_part)
              (mkcx (fst real2) (fst imag2), snd real2 && snd imag2).

(* Complex::compare: Some(ordering) iff both imaginary parts are zero *)
Definition cx_compare (oc : bool) (a b : complex) : res (option comparison) :=
  do za <- real_is_zero oc (im a);
  do zb <- (if za then real_is_zero oc (im b) else Ok false);
  if za && zb then do c <- rcmp oc (re a) (re b); Ok (Some c) else Ok None.

(* Complex::pow restricted to the property's fragment; [isint] is
   BigRat::is_integer (a parameter only so that the code before commit
   19d36f9 can be stated next to the current one) *)
Definition cx_pow_gen (isint : bigrat -> bool) (oc : bool) (a b : complex) : res ecomplex :=
  if negb (isint (re b)) || negb (isint (im b)) then
    (* frac_pow *)
    do za <- real_is_zero oc (im a);
    do zb <- (if za then real_is_zero oc (im b) else Ok false);
    do ng <- (if za && zb then real_is_neg oc (re a) else Ok true);
    if za && zb && negb ng then
      do r <- real_pow oc (re a) (re b); Ok (cx_of_real (fst r), snd r)
    else Err EOther          (* e^(n ln z): leaves exact arithmetic *)
  else
    do za <- real_is_zero oc (im a);
    do zb <- (if za then real_is_zero oc (im b) else Ok false);
    if za && zb then
      do r <- real_pow oc (re a) (re b); Ok (mkcx (fst r) (rat_of_u64 0), snd r)
    else Err EOther.         (* complex integer powers: outside this property *)

Definition cx_pow (oc : bool) : complex -> complex -> res ecomplex := cx_pow_gen (rat_is_integer oc) oc.
Definition cx_pow_old (oc : bool) : complex -> complex -> res ecomplex := cx_pow_gen rat_is_integer_old oc.

(* ---------------- Value (unitless, single point) ---------------- *)

Definition value := ecomplex.     (* value: Complex, exact: bool *)

(* Unit::compute_scale_factor on two empty unit lists:
   scale_1 = scale_a.mul(adj_a) with scale_a = adj_a = exactly 1,
   offset = offset_a.add(-offset_b) with both exactly 0, scale_2 = scale_1 *)
Definition sf_scale (oc : bool) : res ecomplex := ec_mul oc (cx_of_u64 1, true) (cx_of_u64 1, true).
Definition sf_offset (oc : bool) : res ecomplex :=
  ec_add oc (cx_of_u64 0, true) (cx_neg (cx_of_u64 0), true).

(* Value::is_zero = Dist::equals_int(0) *)
Definition v_is_zero (oc : bool) (x : value) : res bool :=
  do c <- cx_compare oc (fst x) (cx_of_u64 0);
  Ok (match c with Some Eq => true | _ => false end).

Definition v_neg (x : value) : value := (cx_neg (fst x), snd x).

Definition v_add (oc : bool) (x y : value) : res value :=
  do z <- v_is_zero oc y;
  if z then Ok x else
  do s1 <- sf_scale oc;
  do off <- sf_offset oc;
  do s2 <- sf_scale oc;
  do m <- ec_mul oc y s1;
  do scaled <- ec_div oc m s2;
  do v <- ec_add oc x scaled;
  Ok (fst v, snd x && snd y && snd v).

Definition v_sub (oc : bool) (x y : value) : res value := v_add oc x (v_neg y).

Definition v_mul (oc : bool) (x y : value) : res value :=
  do v <- ec_mul oc x y; Ok (fst v, snd x && snd y && snd v).

Definition v_div (oc : bool) (x y : value) : res value :=
  do v <- ec_div oc x y; Ok (fst v, snd v && snd x && snd y).

(* Value::into_unitless_complex = convert_to(unitless()) then one_point *)
Definition v_into_unitless_complex (oc : bool) (x : value) : res complex :=
  do c <- cx_compare oc (cx_of_u64 1) (cx_of_u64 1);      (* rhs of convert_to is the number 1 *)
  match c with
  | Some Eq =>
    do s1 <- sf_scale oc;
    do off <- sf_offset oc;
    do s2 <- sf_scale oc;
    do m <- ec_mul oc x s1;
    do a <- ec_add oc m off;
    do d <- ec_div oc a s2;
    Ok (fst d)
  | _ => Err EOther
  end.

Definition v_pow (oc : bool) (x y : value) : res value :=
  do e <- v_into_unitless_complex oc y;
  do v <- cx_pow oc (fst x) e;
  Ok (fst v, snd x && snd y && snd v).

Definition v_real (x : value) : value := (cx_of_real (re (fst x)), snd x).
Definition v_imag (x : value) : value := (cx_of_real (im (fst x)), snd x).
Definition v_conj (x : value) : value := (cx_conj (fst x), snd x).
Definition v_i : value := (cx_i, true).

Definition wfc (z : complex) : bool := wfr (re z) && wfr (im z).
