(* Lang/ParserProofs.v -- the precedence theorem: parsing the
   minimal-parenthesis printing of a table expression yields the table's AST. *)
From Coq Require Import Lia.
From FendV Require Import Base.Prelude Lang.Syntax Lang.Parser Lang.Printer Lang.ParserBasics.
Open Scope nat_scope.

(* from here on [parse_at] is only used through [parse_at_unfold] *)
Opaque parse_at.

(* ------------------------------------------------------------------ *)
(* levels and follow sets *)

(* the parser function in charge of level k *)
Definition F (k : nat) : call :=
  match k with
  | 0 => CStatements | 1 => CAssignment | 2 => CEquality | 3 => CFunction
  | 4 => CPermutation | 5 => CCombination | 6 => CBitwiseOr
  | 7 => CBitwiseXor | 8 => CBitwiseAnd | 9 => CBitshifts
  | 10 => CAdditive | 11 => CImplicitAddition | 12 => CMultiplicative
  | 13 => CPower true | 14 => CFactorial | _ => CParensOrLiteral
  end.

(* binding level of the infix / postfix operator symbols of the table *)
Definition oplevel (s : sym) : option nat :=
  match s with
  | Semicolon => Some 0 | Equals => Some 1
  | DoubleEquals | NotEquals => Some 2
  | Permutation => Some 4 | Combination => Some 5 | BitwiseOr => Some 6
  | BitwiseXor => Some 7 | BitwiseAnd => Some 8
  | ShiftLeft | ShiftRight => Some 9 | Add | Sub => Some 10
  | Mul | Div | Mod => Some 12 | Pow => Some 13 | Factorial => Some 14
  | _ => None
  end.

(* may symbol s follow an expression printed in a context of level k?
   a closing parenthesis always, an operator iff it binds less tightly *)
Definition fsym (k : nat) (s : sym) : bool :=
  match s with
  | CloseParens => true
  | _ => match oplevel s with Some l => l <? k | None => false end
  end.

Definition follow (k : nat) (rest : list tok) : Prop :=
  match rest with
  | [] => True
  | TSym s :: _ => fsym k s = true
  | _ => False
  end.

Lemma follow_mono : forall j k rest, j <= k -> follow j rest -> follow k rest.
Proof.
  intros j k rest Hjk H. destruct rest as [|[] r]; cbn in *; auto.
  unfold fsym in *. destruct s; auto; cbn [oplevel] in *; try discriminate;
    apply Nat.ltb_lt in H; apply Nat.ltb_lt; lia.
Qed.

Lemma follow_sym : forall k s r, fsym k s = true -> follow k (TSym s :: r).
Proof. intros. exact H. Qed.

(* a symbol outside the follow set is not found at the head of rest *)
Lemma fs_miss : forall k rest s, follow k rest -> fsym k s = false ->
  exists e, fixed_symbol rest s = PErr e.
Proof.
  intros k rest s H Hs. destruct rest as [|[] r]; cbn in H; try contradiction.
  - eexists; reflexivity.
  - cbn. destruct (sym_eqb s0 s) eqn:E.
    + assert (s0 = s) by (destruct s0, s; try discriminate; reflexivity).
      subst. congruence.
    + eexists; reflexivity.
Qed.

Ltac miss k s :=
  match goal with
  | H : follow ?j ?rest |- context [fixed_symbol ?rest s] =>
    let e := fresh "e" in let E := fresh "E" in
    destruct (fs_miss k rest s (follow_mono j k rest ltac:(lia) H) eq_refl) as [e E];
    rewrite E; clear e E
  end.

(* ------------------------------------------------------------------ *)
(* first tokens of printings *)

Definition atomic_start (ts : list tok) : Prop :=
  match ts with
  | TNum _ :: _ | TIdent _ :: _ | TSym OpenParens :: _ => True
  | _ => False
  end.

Definition good_start (ts : list tok) : Prop :=
  match ts with
  | TNum _ :: _ | TIdent _ :: _ | TSym OpenParens :: _ | TSym Sub :: _ => True
  | _ => False
  end.

Lemma atomic_good : forall ts, atomic_start ts -> good_start ts.
Proof. intros [|[] ?]; cbn; auto. destruct s; auto. Qed.

Lemma good_start_app : forall a b, good_start a -> good_start (a ++ b).
Proof. intros a b H. destruct a as [|t a']; [contradiction|]. destruct t; cbn in *; auto. Qed.

Lemma atomic_start_app : forall a b, atomic_start a -> atomic_start (a ++ b).
Proof. intros a b H. destruct a as [|t a']; [contradiction|]. destruct t; cbn in *; auto. Qed.

(* the head of a body is a number, an identifier, "(" or "-"; and "-" only
   at levels <= 13 *)
Definition body_start (e : texp) (ts : list tok) : Prop :=
  good_start ts /\ (14 <= lvl e -> atomic_start ts).

Lemma wrap_start : forall k a,
  body_start a (body a) ->
  good_start (wrap k a (body a)) /\ (14 <= k -> atomic_start (wrap k a (body a))).
Proof.
  intros k a [Hg Ha]. unfold wrap. destruct (lvl a <? k) eqn:E.
  - cbn. auto.
  - apply Nat.ltb_ge in E. split; [exact Hg|]. intros. apply Ha. lia.
Qed.

Lemma body_head : forall e, body_start e (body e).
Proof.
  induction e; unfold body_start; cbn [body lvl].
  - cbn; auto.
  - cbn; auto.
  - cbn; auto.
  - cbn; auto.
  - destruct (wrap_start 14 e IHe) as [G A]. split.
    + apply good_start_app; exact G.
    + intros _. apply atomic_start_app. apply A. lia.
  - destruct (wrap_start 14 e1 IHe1) as [G A]. split.
    + apply good_start_app; exact G.
    + intros; lia.
  - split; [cbn; auto | intros; lia].
  - destruct (wrap_start (binop_level o) e1 IHe1) as [G A]. split.
    + apply good_start_app; exact G.
    + intros H. destruct o; cbn in H; lia.
  - destruct (wrap_start 3 e1 IHe1) as [G A]. split.
    + apply good_start_app; exact G.
    + intros; lia.
  - split; [cbn; auto | intros; lia].
  - destruct (wrap_start 0 e1 IHe1) as [G A]. split.
    + apply good_start_app; exact G.
    + intros; lia.
Qed.

Lemma pr_good : forall k e rest, good_start (pr k e ++ rest).
Proof.
  intros. apply good_start_app. unfold pr.
  exact (proj1 (wrap_start k e (body_head e))).
Qed.

Lemma pr_atomic : forall k e rest, 14 <= k -> atomic_start (pr k e ++ rest).
Proof.
  intros. apply atomic_start_app. unfold pr.
  exact (proj2 (wrap_start k e (body_head e)) H).
Qed.

Lemma good_not_close : forall ts, good_start ts ->
  exists e, fixed_symbol ts CloseParens = PErr e.
Proof.
  intros [|[] r] H; cbn in *; try contradiction; try (eexists; reflexivity).
  destruct s; try contradiction; eexists; reflexivity.
Qed.

Lemma good_skip : forall ts, good_start ts -> skip_semicolons ts = ts.
Proof.
  intros [|[] r] H; cbn in *; try contradiction; try reflexivity.
  destruct s; try contradiction; reflexivity.
Qed.

Lemma good_nonsemi : forall ts, good_start ts -> starts_with_semicolon_or_empty ts = false.
Proof.
  intros [|[] r] H; cbn in *; try contradiction; try reflexivity.
  destruct s; try contradiction; reflexivity.
Qed.

Lemma atomic_no_prefix : forall ts s, atomic_start ts -> s <> OpenParens ->
  exists e, fixed_symbol ts s = PErr e.
Proof.
  intros ts s H Hs. destruct ts as [|t r]; [contradiction|].
  destruct t as [p|n|s0|x|d]; cbn in *; try contradiction; try (eexists; reflexivity).
  destruct s0; try contradiction. destruct s; try congruence; eexists; reflexivity.
Qed.

(* ------------------------------------------------------------------ *)
(* unfolding *)

Ltac unf c := rewrite (parse_at_unfold c); cbn [step].

(* ------------------------------------------------------------------ *)
(* the cheap failures: a follow token cannot start an operand *)

Lemma atom_fail : forall k rest, follow k rest ->
  exists e, parse_at CParensOrLiteral rest = PErr e.
Proof.
  intros k rest H. unf CParensOrLiteral.
  destruct rest as [|[] r]; cbn in H; try contradiction.
  - eexists; reflexivity.
  - destruct s; try discriminate H; eexists; reflexivity.
Qed.

Lemma factorial_fail : forall k rest, follow k rest ->
  exists e, parse_at CFactorial rest = PErr e.
Proof.
  intros k rest H. unf CFactorial.
  destruct (atom_fail k rest H) as [e E]. rewrite E. eexists; reflexivity.
Qed.

Lemma power_false_fail : forall k rest, follow k rest ->
  exists e, parse_at (CPower false) rest = PErr e.
Proof.
  intros k rest H. unf (CPower false).
  destruct (factorial_fail k rest H) as [e E]. rewrite E. eexists; reflexivity.
Qed.

Lemma ident_fail : forall k rest, follow k rest ->
  exists e, parse_at CIdent rest = PErr e.
Proof.
  intros k rest H. unf CIdent.
  destruct rest as [|[] r]; cbn in H; try contradiction; eexists; reflexivity.
Qed.

(* ------------------------------------------------------------------ *)
(* atoms *)

Lemma atom_num : forall p rest,
  parse_at CParensOrLiteral (TNum p :: rest) = POk (ELit (LNum p)) rest.
Proof. intros. unf CParensOrLiteral. reflexivity. Qed.

Lemma ident_ident : forall s rest, follow 15 rest ->
  parse_at CIdent (TIdent s :: rest) = POk (EIdent s) rest.
Proof.
  intros s rest H. unf CIdent.
  destruct (ident_fail 15 rest H) as [e E]. rewrite E.
  miss 15 Of. destruct (is_light s); reflexivity.
Qed.

Lemma atom_ident : forall s rest, follow 15 rest ->
  parse_at CParensOrLiteral (TIdent s :: rest) = POk (EIdent s) rest.
Proof. intros. unf CParensOrLiteral. apply ident_ident; assumption. Qed.

(* ------------------------------------------------------------------ *)
(* loops stop at a follow token *)

Definition Loop (l : nat) (x : expr) : call :=
  match l with
  | 0 => CStatementsLoop x
  | 4 => CPermutationLoop x | 5 => CCombinationLoop x
  | 6 => CBitwiseOrLoop x | 7 => CBitwiseXorLoop x
  | 8 => CBitwiseAndLoop x | 9 => CBitshiftsLoop x
  | 10 => CAdditiveLoop x | 12 => CMultiplicativeLoop x
  | _ => CFactorialLoop x
  end.

Definition looplevel (l : nat) : Prop :=
  l = 0 \/ l = 4 \/ l = 5 \/ l = 6 \/ l = 7 \/ l = 8 \/ l = 9 \/ l = 10 \/ l = 12 \/ l = 14.

Lemma stop_fact : forall x rest, follow 14 rest ->
  parse_at (CFactorialLoop x) rest = POk x rest.
Proof. intros. unf (CFactorialLoop x). miss 14 Factorial. reflexivity. Qed.

Lemma stop_mul : forall x rest, follow 12 rest ->
  parse_at (CMultiplicativeLoop x) rest = POk x rest.
Proof.
  intros x rest H. unf (CMultiplicativeLoop x).
  unf CMulCont. miss 12 Mul.
  unf CDivCont. miss 12 Div.
  unf CModCont. miss 12 Mod.
  unf CMod2Cont.
  assert (M2 : exists e, match rest with
     | [] => PErr PExpectedAToken
     | TIdent ident :: input =>
         if is_percent ident
         then if starts_with_symbol_not_open input then PErr PUnexpectedInput
              else parse_at (CPower true) input
         else PErr PUnexpectedInput
     | _ :: _ => PErr PUnexpectedInput end = PErr e).
  { destruct rest as [|[] r]; cbn in H; try contradiction; eexists; reflexivity. }
  destruct M2 as [e2 E2]. rewrite E2. clear e2 E2.
  destruct (power_false_fail 12 rest H) as [e E].
  unf (CMixedFraction x). rewrite E.
  unf (CApplyCont x). rewrite E.
  destruct (mixed_classify x) as [[[? ?] ?]|]; reflexivity.
Qed.

Lemma stop_add : forall x rest, follow 10 rest ->
  parse_at (CAdditiveLoop x) rest = POk x rest.
Proof.
  intros x rest H. unf (CAdditiveLoop x).
  unf CAddCont. miss 10 Add.
  unf CSubCont. miss 10 Sub.
  unf CToCont. miss 10 UnitConversion.
  reflexivity.
Qed.

Lemma stop_shift : forall x rest, follow 9 rest ->
  parse_at (CBitshiftsLoop x) rest = POk x rest.
Proof.
  intros. unf (CBitshiftsLoop x). miss 9 ShiftLeft. miss 9 ShiftRight. reflexivity.
Qed.

Lemma stop_and : forall x rest, follow 8 rest ->
  parse_at (CBitwiseAndLoop x) rest = POk x rest.
Proof. intros. unf (CBitwiseAndLoop x). unfold simple_loop. miss 8 BitwiseAnd. reflexivity. Qed.
Lemma stop_xor : forall x rest, follow 7 rest ->
  parse_at (CBitwiseXorLoop x) rest = POk x rest.
Proof. intros. unf (CBitwiseXorLoop x). unfold simple_loop. miss 7 BitwiseXor. reflexivity. Qed.
Lemma stop_or : forall x rest, follow 6 rest ->
  parse_at (CBitwiseOrLoop x) rest = POk x rest.
Proof. intros. unf (CBitwiseOrLoop x). unfold simple_loop. miss 6 BitwiseOr. reflexivity. Qed.
Lemma stop_comb : forall x rest, follow 5 rest ->
  parse_at (CCombinationLoop x) rest = POk x rest.
Proof. intros. unf (CCombinationLoop x). unfold simple_loop. miss 5 Combination. reflexivity. Qed.
Lemma stop_perm : forall x rest, follow 4 rest ->
  parse_at (CPermutationLoop x) rest = POk x rest.
Proof. intros. unf (CPermutationLoop x). unfold simple_loop. miss 4 Permutation. reflexivity. Qed.
Lemma stop_stmts : forall x rest, follow 0 rest ->
  parse_at (CStatementsLoop x) rest = POk x rest.
Proof. intros. unf (CStatementsLoop x). miss 0 Semicolon. reflexivity. Qed.

Lemma stop_loop : forall l x rest, looplevel l -> follow l rest ->
  parse_at (Loop l x) rest = POk x rest.
Proof.
  intros l x rest Hl H.
  destruct Hl as [->|[->|[->|[->|[->|[->|[->|[->|[->| ->]]]]]]]]]; cbn [Loop].
  - apply stop_stmts; assumption.
  - apply stop_perm; assumption.
  - apply stop_comb; assumption.
  - apply stop_or; assumption.
  - apply stop_xor; assumption.
  - apply stop_and; assumption.
  - apply stop_shift; assumption.
  - apply stop_add; assumption.
  - apply stop_mul; assumption.
  - apply stop_fact; assumption.
Qed.

(* ------------------------------------------------------------------ *)
(* the speculative call of parse_implicit_addition *)

Definition bad (e : expr) : bool := is_applymul e || is_implicit_plus e || is_lit e.

Ltac unfh c H := rewrite (parse_at_unfold c) in H; cbn [step] in H.

Ltac chew H :=
  repeat lazymatch type of H with
  | POk _ _ = POk _ _ => inversion H; subst; clear H
  | PErr _ = _ => discriminate H
  | PFuel = _ => discriminate H
  | (if ?x then _ else _) = _ => destruct x eqn:?
  | (match ?x with _ => _ end) = _ => destruct x eqn:?
  end.

Lemma mixed_shape : forall lhs ts e r,
  parse_at (CMixedFraction lhs) ts = POk e r -> bad e = false.
Proof.
  intros lhs ts e r H. unfh (CMixedFraction lhs) H. chew H;
    try reflexivity; match goal with |- context [if ?b then _ else _] => destruct b end; reflexivity.
Qed.

Lemma apply_shape : forall lhs rhs input e r,
  apply_combine lhs rhs input = POk e r -> bad lhs = false -> bad e = false.
Proof.
  intros lhs rhs input e r H Hb. unfold apply_combine in H.
  destruct lhs; try destruct l; cbn in Hb; try discriminate Hb; cbn in H; chew H; reflexivity.
Qed.

Lemma applycont_shape : forall lhs ts e r,
  parse_at (CApplyCont lhs) ts = POk e r -> bad lhs = false -> bad e = false.
Proof.
  intros lhs ts e r H Hb. unfh (CApplyCont lhs) H.
  destruct (parse_at (CPower false) ts); try discriminate H.
  eapply apply_shape; eassumption.
Qed.

Lemma mul_loop_inv : forall n ts res e r, length ts < n -> bad res = false ->
  parse_at (CMultiplicativeLoop res) ts = POk e r -> bad e = false.
Proof.
  induction n as [|n IH]; intros ts res e r Hn Hb H; [lia|].
  unfh (CMultiplicativeLoop res) H.
  destruct (parse_at CMulCont ts) eqn:E1; try discriminate H.
  { apply parse_at_progress in E1; cbn [strict] in E1.
    eapply IH; [ | | exact H]; [lia | reflexivity]. }
  destruct (parse_at CDivCont ts) eqn:E2; try discriminate H.
  { apply parse_at_progress in E2; cbn [strict] in E2.
    eapply IH; [ | | exact H]; [lia | reflexivity]. }
  destruct (parse_at CModCont ts) eqn:E3; try discriminate H.
  { apply parse_at_progress in E3; cbn [strict] in E3.
    eapply IH; [ | | exact H]; [lia | reflexivity]. }
  destruct (parse_at CMod2Cont ts) eqn:E4; try discriminate H.
  { apply parse_at_progress in E4; cbn [strict] in E4.
    eapply IH; [ | | exact H]; [lia | reflexivity]. }
  destruct (parse_at (CMixedFraction res) ts) eqn:E5; try discriminate H.
  { pose proof (mixed_shape _ _ _ _ E5).
    apply parse_at_progress in E5; cbn [strict] in E5.
    eapply IH; [ | | exact H]; [lia | assumption]. }
  destruct (parse_at (CApplyCont res) ts) eqn:E6; try discriminate H.
  { pose proof (applycont_shape _ _ _ _ E6 Hb).
    apply parse_at_progress in E6; cbn [strict] in E6.
    eapply IH; [ | | exact H]; [lia | assumption]. }
  inversion H; subst. exact Hb.
Qed.

Lemma mult_unary_shape : forall s ts res r, s = Sub \/ s = Add ->
  parse_at CMultiplicative (TSym s :: ts) = POk res r -> bad res = false.
Proof.
  intros s ts res r Hs H. unfh CMultiplicative H. unfh (CPower true) H.
  destruct Hs; subst s; cbn in H;
    destruct (parse_at (CPower true) ts); try discriminate H;
    (eapply mul_loop_inv; [ | | exact H ]; [ apply Nat.lt_succ_diag_r | reflexivity ]).
Qed.

Lemma impl_unary_shape : forall s ts rhs r, s = Sub \/ s = Add ->
  parse_at CImplicitAddition (TSym s :: ts) = POk rhs r -> bad rhs = false.
Proof.
  intros s ts rhs r Hs H. unfh CImplicitAddition H.
  destruct (parse_at CMultiplicative (TSym s :: ts)) eqn:E; try discriminate H.
  apply (mult_unary_shape s ts _ _ Hs) in E.
  assert (A : is_applymul a = false).
  { unfold bad in E. apply orb_false_elim in E. destruct E as [E _].
    apply orb_false_elim in E. tauto. }
  rewrite A in H. cbn in H.
  destruct (parse_at CImplicitAddition rest); try discriminate H;
    inversion H; subst; exact E.
Qed.

Lemma impl_fail : forall rest, follow 11 rest ->
  (forall r, rest <> TSym Sub :: r) -> (forall r, rest <> TSym Add :: r) ->
  exists e, parse_at CImplicitAddition rest = PErr e.
Proof.
  intros rest H N1 N2. unf CImplicitAddition. unf CMultiplicative. unf (CPower true).
  destruct (factorial_fail 11 rest H) as [e E]. rewrite E.
  destruct rest as [|[] r]; cbn in H; try contradiction.
  - eexists; reflexivity.
  - destruct s; try discriminate H; try (eexists; reflexivity).
    + exfalso; eapply N2; reflexivity.
    + exfalso; eapply N1; reflexivity.
Qed.

(* ------------------------------------------------------------------ *)
(* ascending one level: the caller's own continuation does not fire *)

Lemma asc14 : forall ts x rest, parse_at CParensOrLiteral ts = POk x rest ->
  follow 14 rest -> parse_at CFactorial ts = POk x rest.
Proof. intros. unf CFactorial. rewrite H. apply stop_fact; assumption. Qed.

Lemma power_of_factorial : forall b ts x rest, parse_at CFactorial ts = POk x rest ->
  follow 13 rest -> atomic_start ts -> parse_at (CPower b) ts = POk x rest.
Proof.
  intros b ts x rest H Hf Ha. unf (CPower b). rewrite H. miss 13 Pow.
  destruct b; [|reflexivity].
  destruct (atomic_no_prefix ts Sub Ha ltac:(discriminate)) as [e1 E1]. rewrite E1.
  destruct (atomic_no_prefix ts Add Ha ltac:(discriminate)) as [e2 E2]. rewrite E2.
  destruct (atomic_no_prefix ts Div Ha ltac:(discriminate)) as [e3 E3]. rewrite E3.
  reflexivity.
Qed.

Lemma asc12 : forall ts x rest, parse_at (CPower true) ts = POk x rest ->
  follow 12 rest -> parse_at CMultiplicative ts = POk x rest.
Proof. intros. unf CMultiplicative. rewrite H. apply stop_mul; assumption. Qed.

Lemma asc11 : forall ts x rest, parse_at CMultiplicative ts = POk x rest ->
  follow 11 rest -> parse_at CImplicitAddition ts = POk x rest.
Proof.
  intros ts x rest H Hf. unf CImplicitAddition. rewrite H.
  destruct (parse_at CImplicitAddition rest) eqn:E.
  - assert (Hbad : bad a = false).
    { destruct rest as [|t r].
      - destruct (impl_fail [] Hf ltac:(intros; discriminate) ltac:(intros; discriminate)) as [e E'].
        congruence.
      - destruct t; cbn in Hf; try contradiction.
        assert (D : s = Sub \/ s = Add \/ (s <> Sub /\ s <> Add))
          by (destruct s; auto; right; right; split; discriminate).
        destruct D as [D|[D|[D1 D2]]].
        + eapply impl_unary_shape; [left; exact D | exact E].
        + eapply impl_unary_shape; [right; exact D | exact E].
        + destruct (impl_fail (TSym s :: r) Hf
                      ltac:(intros r' Q; inversion Q; congruence)
                      ltac:(intros r' Q; inversion Q; congruence)) as [e E'].
          congruence. }
    unfold bad in Hbad. rewrite Hbad. rewrite andb_false_r. reflexivity.
  - reflexivity.
  - exfalso. exact (parse_at_not_fuel _ _ E).
Qed.

Lemma asc10 : forall ts x rest, parse_at CImplicitAddition ts = POk x rest ->
  follow 10 rest -> parse_at CAdditive ts = POk x rest.
Proof. intros. unf CAdditive. rewrite H. apply stop_add; assumption. Qed.
Lemma asc9 : forall ts x rest, parse_at CAdditive ts = POk x rest ->
  follow 9 rest -> parse_at CBitshifts ts = POk x rest.
Proof. intros. unf CBitshifts. rewrite H. apply stop_shift; assumption. Qed.
Lemma asc8 : forall ts x rest, parse_at CBitshifts ts = POk x rest ->
  follow 8 rest -> parse_at CBitwiseAnd ts = POk x rest.
Proof. intros. unf CBitwiseAnd. rewrite H. apply stop_and; assumption. Qed.
Lemma asc7 : forall ts x rest, parse_at CBitwiseAnd ts = POk x rest ->
  follow 7 rest -> parse_at CBitwiseXor ts = POk x rest.
Proof. intros. unf CBitwiseXor. rewrite H. apply stop_xor; assumption. Qed.
Lemma asc6 : forall ts x rest, parse_at CBitwiseXor ts = POk x rest ->
  follow 6 rest -> parse_at CBitwiseOr ts = POk x rest.
Proof. intros. unf CBitwiseOr. rewrite H. apply stop_or; assumption. Qed.
Lemma asc5 : forall ts x rest, parse_at CBitwiseOr ts = POk x rest ->
  follow 5 rest -> parse_at CCombination ts = POk x rest.
Proof. intros. unf CCombination. rewrite H. apply stop_comb; assumption. Qed.
Lemma asc4 : forall ts x rest, parse_at CCombination ts = POk x rest ->
  follow 4 rest -> parse_at CPermutation ts = POk x rest.
Proof. intros. unf CPermutation. rewrite H. apply stop_perm; assumption. Qed.
Lemma asc3 : forall ts x rest, parse_at CPermutation ts = POk x rest ->
  follow 3 rest -> parse_at CFunction ts = POk x rest.
Proof. intros. unf CFunction. rewrite H. miss 3 Fn. reflexivity. Qed.
Lemma asc2 : forall ts x rest, parse_at CFunction ts = POk x rest ->
  follow 2 rest -> parse_at CEquality ts = POk x rest.
Proof.
  intros. unf CEquality. rewrite H. miss 2 DoubleEquals. miss 2 NotEquals. reflexivity.
Qed.
Lemma asc1 : forall ts x rest, parse_at CEquality ts = POk x rest ->
  follow 1 rest -> parse_at CAssignment ts = POk x rest.
Proof. intros. unf CAssignment. rewrite H. miss 1 Equals. reflexivity. Qed.

Lemma statements_unfold : forall ts, good_start ts ->
  parse_at CStatements ts =
  match parse_at CAssignment ts with
  | POk res input => parse_at (CStatementsLoop res) input
  | PErr e => PErr e | PFuel => PFuel end.
Proof.
  intros ts H. unf CStatements. rewrite (good_skip ts H).
  destruct ts; [contradiction|]. reflexivity.
Qed.

Lemma asc0 : forall ts x rest, parse_at CAssignment ts = POk x rest ->
  follow 0 rest -> good_start ts -> parse_at CStatements ts = POk x rest.
Proof.
  intros. rewrite statements_unfold by assumption. rewrite H.
  apply stop_stmts; assumption.
Qed.

Lemma ascend1 : forall k ts x rest, k <= 14 ->
  parse_at (F (S k)) ts = POk x rest -> follow k rest ->
  good_start ts -> (k = 13 -> atomic_start ts) ->
  parse_at (F k) ts = POk x rest.
Proof.
  intros k ts x rest Hk H Hf Hg Ha.
  do 15 (destruct k as [|k]; [cbn [F] in *;
    first [ apply asc0; assumption | apply asc1; assumption | apply asc2; assumption
          | apply asc3; assumption | apply asc4; assumption | apply asc5; assumption
          | apply asc6; assumption | apply asc7; assumption | apply asc8; assumption
          | apply asc9; assumption | apply asc10; assumption | apply asc11; assumption
          | apply asc12; assumption
          | apply power_of_factorial; [assumption | assumption | apply Ha; reflexivity]
          | apply asc14; assumption ] | ]).
  lia.
Qed.

Lemma ascend : forall d j ts x rest, j + d <= 15 ->
  parse_at (F (j + d)) ts = POk x rest -> follow j rest ->
  good_start ts -> (j <= 13 -> 14 <= j + d -> atomic_start ts) ->
  parse_at (F j) ts = POk x rest.
Proof.
  induction d as [|d IH]; intros j ts x rest Hk H Hf Hg Ha.
  - rewrite Nat.add_0_r in H. exact H.
  - apply ascend1; [lia | | exact Hf | exact Hg | intros ->; apply Ha; lia].
    apply (IH (S j)).
    + lia.
    + replace (S j + d) with (j + S d) by lia. exact H.
    + eapply follow_mono; [|exact Hf]. lia.
    + exact Hg.
    + intros. apply Ha; lia.
Qed.

(* ------------------------------------------------------------------ *)
(* one iteration of a left-associative loop *)

Ltac hit := rewrite fixed_symbol_hit.
Ltac nohit := cbn [fixed_symbol sym_eqb].

Lemma loop_step : forall o res ts t rest,
  parse_at (F (S (binop_level o))) ts = POk t rest ->
  parse_at (Loop (binop_level o) res) (TSym (binop_sym o) :: ts) =
  parse_at (Loop (binop_level o) (EBop (binop_bop o) res t)) rest.
Proof.
  intros o res ts t rest H.
  destruct o; cbn [binop_level binop_sym binop_bop Loop F] in *.
  - unf (CPermutationLoop res). unfold simple_loop. hit. rewrite H. reflexivity.
  - unf (CCombinationLoop res). unfold simple_loop. hit. rewrite H. reflexivity.
  - unf (CBitwiseOrLoop res). unfold simple_loop. hit. rewrite H. reflexivity.
  - unf (CBitwiseXorLoop res). unfold simple_loop. hit. rewrite H. reflexivity.
  - unf (CBitwiseAndLoop res). unfold simple_loop. hit. rewrite H. reflexivity.
  - unf (CBitshiftsLoop res). hit. rewrite H. reflexivity.
  - unf (CBitshiftsLoop res). nohit. rewrite H. reflexivity.
  - unf (CAdditiveLoop res). unf CAddCont. hit. rewrite H. reflexivity.
  - unf (CAdditiveLoop res). unf CAddCont. nohit. unf CSubCont. hit. rewrite H. reflexivity.
  - unf (CMultiplicativeLoop res). unf CMulCont. hit. rewrite H. reflexivity.
  - unf (CMultiplicativeLoop res). unf CMulCont. nohit. unf CDivCont. hit. rewrite H. reflexivity.
  - unf (CMultiplicativeLoop res). unf CMulCont. nohit. unf CDivCont. nohit.
    unf CModCont. hit. rewrite H. reflexivity.
Qed.

Lemma binop_looplevel : forall o, looplevel (binop_level o).
Proof. destruct o; unfold looplevel; cbn; tauto. Qed.

Lemma F_loop_unfold : forall l ts, looplevel l -> good_start ts ->
  parse_at (F l) ts =
  match parse_at (F (S l)) ts with
  | POk res input => parse_at (Loop l res) input
  | PErr e => PErr e | PFuel => PFuel end.
Proof.
  intros l ts Hl Hg.
  destruct Hl as [->|[->|[->|[->|[->|[->|[->|[->|[->| ->]]]]]]]]]; cbn [Loop F].
  - apply statements_unfold; assumption.
  - unf CPermutation; reflexivity.
  - unf CCombination; reflexivity.
  - unf CBitwiseOr; reflexivity.
  - unf CBitwiseXor; reflexivity.
  - unf CBitwiseAnd; reflexivity.
  - unf CBitshifts; reflexivity.
  - unf CAdditive; reflexivity.
  - unf CMultiplicative; reflexivity.
  - unf CFactorial; reflexivity.
Qed.

(* ------------------------------------------------------------------ *)
(* the induction *)

Definition Pk (e : texp) : Prop := forall k rest, k <= 15 -> follow k rest ->
  parse_at (F k) (pr k e ++ rest) = POk (ex k e) rest.

Definition Sl (e : texp) : Prop := forall l rest, looplevel l -> follow (S l) rest ->
  parse_at (F l) (pr l e ++ rest) = parse_at (Loop l (ex l e)) rest.

Definition Own (e : texp) : Prop := forall rest, follow (lvl e) rest ->
  parse_at (F (lvl e)) (body e ++ rest) = POk (exb e) rest.

Definition OwnS (e : texp) : Prop := forall rest, follow (S (lvl e)) rest ->
  parse_at (F (lvl e)) (body e ++ rest) = parse_at (Loop (lvl e) (exb e)) rest.

Lemma lvl_le_15 : forall e, lvl e <= 15.
Proof. destruct e; cbn; try lia. destruct o; cbn; lia. Qed.

Lemma body_good : forall e rest, good_start (body e ++ rest).
Proof. intros. apply good_start_app. exact (proj1 (body_head e)). Qed.

Lemma body_atomic : forall e rest, 14 <= lvl e -> atomic_start (body e ++ rest).
Proof. intros. apply atomic_start_app. exact (proj2 (body_head e) H). Qed.

Lemma parens_lemma : forall ts x rest, good_start ts ->
  parse_at CStatements (ts ++ TSym CloseParens :: rest) = POk x (TSym CloseParens :: rest) ->
  parse_at CParensOrLiteral (TSym OpenParens :: ts ++ TSym CloseParens :: rest) =
  POk (EParens x) rest.
Proof.
  intros ts x rest Hg H. unf CParensOrLiteral. unf CParens. nohit.
  destruct (good_not_close (ts ++ TSym CloseParens :: rest)) as [e E];
    [apply good_start_app; assumption|]. rewrite E.
  unf CExpression. rewrite H. hit. reflexivity.
Qed.

Lemma own_Pk : forall e, Own e -> Pk e.
Proof.
  intros e Ho k rest Hk Hf. unfold pr, ex, wrap, wrapx.
  destruct (lvl e <? k) eqn:E.
  - apply Nat.ltb_lt in E.
    assert (P0 : parse_at CStatements (body e ++ TSym CloseParens :: rest)
                 = POk (exb e) (TSym CloseParens :: rest)).
    { apply (ascend (lvl e) 0); cbn [Nat.add].
      - apply lvl_le_15.
      - apply Ho. reflexivity.
      - reflexivity.
      - apply body_good.
      - intros _ H14. apply body_atomic; assumption. }
    cbn [app]. rewrite <- app_assoc. cbn [app].
    apply (ascend (15 - k) k).
    + lia.
    + replace (k + (15 - k)) with 15 by lia. cbn [F].
      apply parens_lemma; [exact (proj1 (body_head e)) | exact P0].
    + exact Hf.
    + exact I.
    + intros; exact I.
  - apply Nat.ltb_ge in E.
    apply (ascend (lvl e - k) k).
    + pose proof (lvl_le_15 e). lia.
    + replace (k + (lvl e - k)) with (lvl e) by lia.
      apply Ho. eapply follow_mono; [|exact Hf]. exact E.
    + exact Hf.
    + apply body_good.
    + intros _ H14. apply body_atomic. lia.
Qed.

Lemma ownS_own : forall e, looplevel (lvl e) -> OwnS e -> Own e.
Proof.
  intros e Hl Hs rest Hf. rewrite Hs by (eapply follow_mono; [|exact Hf]; lia).
  apply stop_loop; assumption.
Qed.

Lemma pr_other_level : forall e l, lvl e <> l -> pr l e = pr (S l) e /\ ex l e = ex (S l) e.
Proof.
  intros e l H. unfold pr, ex, wrap, wrapx.
  destruct (Nat.ltb_spec (lvl e) l); destruct (Nat.ltb_spec (lvl e) (S l)); auto; exfalso; lia.
Qed.

Lemma pr_own_level : forall e, pr (lvl e) e = body e /\ ex (lvl e) e = exb e.
Proof. intros. unfold pr, ex, wrap, wrapx. rewrite Nat.ltb_irrefl. auto. Qed.

Lemma Pk_Sl_other : forall e, Pk e -> forall l rest, looplevel l -> lvl e <> l ->
  follow (S l) rest ->
  parse_at (F l) (pr l e ++ rest) = parse_at (Loop l (ex l e)) rest.
Proof.
  intros e HP l rest Hl Hne Hf.
  rewrite F_loop_unfold by (assumption || apply pr_good).
  destruct (pr_other_level e l Hne) as [Q1 Q2]. rewrite Q1, Q2.
  rewrite HP; [reflexivity | | exact Hf].
  destruct Hl as [->|[->|[->|[->|[->|[->|[->|[->|[->| ->]]]]]]]]]; lia.
Qed.

(* assembling: a non-loop level *)
Lemma assemble_own : forall e, ~ looplevel (lvl e) -> Own e -> Pk e /\ Sl e.
Proof.
  intros e Hn Ho. pose proof (own_Pk e Ho) as HP. split; [exact HP|].
  intros l rest Hl Hf. apply Pk_Sl_other; try assumption.
  intros Q. apply Hn. rewrite Q. exact Hl.
Qed.

(* assembling: a loop level *)
Lemma assemble_ownS : forall e, looplevel (lvl e) -> OwnS e -> Pk e /\ Sl e.
Proof.
  intros e Hl Hs. pose proof (own_Pk e (ownS_own e Hl Hs)) as HP. split; [exact HP|].
  intros l rest Hl' Hf. destruct (Nat.eq_dec (lvl e) l) as [Q|Q].
  - subst l. destruct (pr_own_level e) as [Q1 Q2]. rewrite Q1, Q2. apply Hs; assumption.
  - apply Pk_Sl_other; assumption.
Qed.

Lemma not_loop_15 : ~ looplevel 15.
Proof. unfold looplevel. lia. Qed.
Lemma not_loop_13 : ~ looplevel 13.
Proof. unfold looplevel. lia. Qed.
Lemma not_loop_2 : ~ looplevel 2.
Proof. unfold looplevel. lia. Qed.
Lemma not_loop_1 : ~ looplevel 1.
Proof. unfold looplevel. lia. Qed.

(* --- atoms --- *)

Lemma own_num : forall p, Own (TNumA p).
Proof. intros p rest _. cbn. apply atom_num. Qed.

Lemma own_id : forall s, Own (TIdA s).
Proof. intros s rest H. cbn in *. apply atom_ident; assumption. Qed.

Lemma Pk_id : forall s, Pk (TIdA s).
Proof. intros. apply own_Pk. apply own_id. Qed.

Lemma own_par : forall a, Pk a -> Own (TPar a).
Proof.
  intros a HP rest _. cbn [lvl F body exb]. cbn [app]. rewrite <- app_assoc. cbn [app].
  apply parens_lemma; [exact (proj1 (body_head a))|].
  assert (Q : pr 0 a = body a /\ ex 0 a = exb a) by (unfold pr, ex, wrap, wrapx; cbn; auto).
  destruct Q as [Q1 Q2]. rewrite <- Q1, <- Q2. apply (HP 0); [lia | reflexivity].
Qed.

(* --- juxtaposition --- *)

Lemma power_ident : forall b u rest, follow 13 rest ->
  parse_at (CPower b) (TIdent u :: rest) = POk (EIdent u) rest.
Proof.
  intros b u rest H. apply power_of_factorial; [ | exact H | exact I].
  apply asc14; [ | eapply follow_mono; [|exact H]; lia ].
  apply atom_ident. eapply follow_mono; [|exact H]. lia.
Qed.

Lemma ownS_juxt : forall p u, OwnS (TJuxt p u).
Proof.
  intros p u rest H. cbn [lvl F body exb Loop app] in *.
  unf CMultiplicative.
  assert (P1 : parse_at (CPower true) (TNum p :: TIdent u :: rest)
               = POk (ELit (LNum p)) (TIdent u :: rest)).
  { unf (CPower true). nohit. unf CFactorial. rewrite atom_num.
    unf (CFactorialLoop (ELit (LNum p))). nohit. reflexivity. }
  rewrite P1.
  unf (CMultiplicativeLoop (ELit (LNum p))).
  unf CMulCont. nohit. unf CDivCont. nohit. unf CModCont. nohit.
  unf CMod2Cont.
  assert (M2 : exists e, (if is_percent u
      then if starts_with_symbol_not_open rest then PErr PUnexpectedInput
           else parse_at (CPower true) rest
      else PErr PUnexpectedInput) = PErr e).
  { destruct (is_percent u); [|eexists; reflexivity].
    destruct rest as [|[] r]; cbn in H; try contradiction.
    - cbn. unf (CPower true). nohit. unf CFactorial. unf CParensOrLiteral. eexists; reflexivity.
    - destruct s; try discriminate H; eexists; reflexivity. }
  destruct M2 as [e2 E2]. rewrite E2. clear e2 E2.
  unf (CMixedFraction (ELit (LNum p))). cbn [mixed_classify].
  rewrite (power_ident false u rest H). cbn [is_num].
  unf (CApplyCont (ELit (LNum p))). rewrite (power_ident false u rest H).
  reflexivity.
Qed.

(* --- postfix, power, unary minus --- *)

Lemma ownS_fact : forall a, Sl a -> OwnS (TFact a).
Proof.
  intros a HS rest H. cbn [lvl F body exb Loop] in *.
  rewrite <- app_assoc. cbn [app].
  change (wrap 14 a (body a)) with (pr 14 a).
  rewrite (HS 14) by (unfold looplevel; tauto || reflexivity).
  cbn [Loop]. unf (CFactorialLoop (ex 14 a)). hit. reflexivity.
Qed.

Lemma own_pow : forall a b, Pk a -> Pk b -> Own (TPow a b).
Proof.
  intros a b Ha Hb rest H. cbn [lvl F body exb] in *.
  change (wrap 14 a (body a)) with (pr 14 a).
  change (wrap 13 b (body b)) with (pr 13 b).
  change (wrapx 14 a (exb a)) with (ex 14 a).
  change (wrapx 13 b (exb b)) with (ex 13 b).
  rewrite <- app_assoc. cbn [app].
  unf (CPower true).
  pose proof (pr_atomic 14 a (TSym Pow :: pr 13 b ++ rest) (le_n _)) as At.
  destruct (atomic_no_prefix _ Sub At ltac:(discriminate)) as [e1 E1]. rewrite E1.
  destruct (atomic_no_prefix _ Add At ltac:(discriminate)) as [e2 E2]. rewrite E2.
  destruct (atomic_no_prefix _ Div At ltac:(discriminate)) as [e3 E3]. rewrite E3.
  rewrite (Ha 14) by (lia || reflexivity). hit.
  rewrite (Hb 13) by (lia || assumption). reflexivity.
Qed.

Lemma own_neg : forall a, Pk a -> Own (TNeg a).
Proof.
  intros a Ha rest H. cbn [lvl F body exb app] in *.
  change (wrap 13 a (body a)) with (pr 13 a).
  change (wrapx 13 a (exb a)) with (ex 13 a).
  unf (CPower true). hit. rewrite (Ha 13) by (lia || assumption). reflexivity.
Qed.

(* --- left-associative binary operators --- *)

Lemma ownS_bin : forall o a b, Sl a -> Pk b -> OwnS (TBin o a b).
Proof.
  intros o a b HS Hb rest H. cbn [lvl body exb] in *.
  change (wrap (binop_level o) a (body a)) with (pr (binop_level o) a).
  change (wrap (S (binop_level o)) b (body b)) with (pr (S (binop_level o)) b).
  change (wrapx (binop_level o) a (exb a)) with (ex (binop_level o) a).
  change (wrapx (S (binop_level o)) b (exb b)) with (ex (S (binop_level o)) b).
  rewrite <- app_assoc. cbn [app].
  rewrite (HS (binop_level o)); [ | apply binop_looplevel | destruct o; reflexivity ].
  apply loop_step. apply Hb; [destruct o; cbn; lia | exact H].
Qed.

(* --- equality, assignment, statements --- *)

Lemma own_eq : forall q a b, Pk a -> Pk b -> Own (TEq q a b).
Proof.
  intros q a b Ha Hb rest H. cbn [lvl F body exb] in *.
  change (wrap 3 a (body a)) with (pr 3 a).
  change (wrap 3 b (body b)) with (pr 3 b).
  change (wrapx 3 a (exb a)) with (ex 3 a).
  change (wrapx 3 b (exb b)) with (ex 3 b).
  rewrite <- app_assoc. cbn [app].
  unf CEquality.
  rewrite (Ha 3) by (lia || (destruct q; reflexivity)).
  assert (H3 : follow 3 rest) by (eapply follow_mono; [|exact H]; lia).
  destruct q.
  - hit. change CFunction with (F 3). rewrite (Hb 3) by (lia || assumption). reflexivity.
  - nohit. change CFunction with (F 3). rewrite (Hb 3) by (lia || assumption). reflexivity.
Qed.

Lemma own_assign : forall x a, Pk a -> Own (TAssign x a).
Proof.
  intros x a Ha rest H. cbn [lvl F body exb app] in *.
  change (wrap 1 a (body a)) with (pr 1 a).
  change (wrapx 1 a (exb a)) with (ex 1 a).
  unf CAssignment.
  pose proof (Pk_id x 2 (TSym Equals :: pr 1 a ++ rest) ltac:(lia) eq_refl) as Hx.
  cbn in Hx. rewrite Hx. hit.
  change CAssignment with (F 1). rewrite (Ha 1) by (lia || assumption). reflexivity.
Qed.

Lemma ownS_seq : forall a b, Sl a -> Pk b -> OwnS (TSeq a b).
Proof.
  intros a b HS Hb rest H. cbn [lvl F body exb Loop] in *.
  change (wrap 0 a (body a)) with (pr 0 a).
  change (wrap 1 b (body b)) with (pr 1 b).
  change (wrapx 0 a (exb a)) with (ex 0 a).
  change (wrapx 1 b (exb b)) with (ex 1 b).
  rewrite <- app_assoc. cbn [app].
  change CStatements with (F 0).
  rewrite (HS 0) by (unfold looplevel; tauto || reflexivity).
  cbn [Loop]. unf (CStatementsLoop (ex 0 a)). hit.
  rewrite (good_nonsemi _ (pr_good 1 b rest)).
  change CAssignment with (F 1). rewrite (Hb 1) by (lia || assumption). reflexivity.
Qed.

Theorem table_parse : forall e, Pk e /\ Sl e.
Proof.
  induction e.
  - apply assemble_own; [apply not_loop_15 | apply own_num].
  - apply assemble_own; [apply not_loop_15 | apply own_id].
  - apply assemble_own; [apply not_loop_15 | apply own_par; tauto].
  - apply assemble_ownS; [cbn; unfold looplevel; tauto | apply ownS_juxt].
  - apply assemble_ownS; [cbn; unfold looplevel; tauto | apply ownS_fact; tauto].
  - apply assemble_own; [apply not_loop_13 | apply own_pow; tauto].
  - apply assemble_own; [apply not_loop_13 | apply own_neg; tauto].
  - apply assemble_ownS; [apply binop_looplevel | apply ownS_bin; tauto].
  - apply assemble_own; [apply not_loop_2 | apply own_eq; tauto].
  - apply assemble_own; [apply not_loop_1 | apply own_assign; tauto].
  - apply assemble_ownS; [cbn; unfold looplevel; tauto | apply ownS_seq; tauto].
Qed.

(* ------------------------------------------------------------------ *)
(* consequences *)

Lemma pr_nil : forall e, parse_at CExpression (print_min e) = POk (ex 0 e) [].
Proof.
  intros e. unf CExpression. unfold print_min.
  rewrite <- (app_nil_r (pr 0 e)).
  exact (proj1 (table_parse e) 0 [] (Nat.le_0_l _) I).
Qed.

Theorem parse_print_min : forall e, parse_tokens (print_min e) = POk (ex 0 e) [].
Proof. intros. rewrite parse_tokens_eq, pr_nil. reflexivity. Qed.

(* the stream the implementation really parses: one "(" in front for every
   ")" in the text *)
Lemma open_prefix : forall n ts x, good_start ts ->
  parse_at CExpression ts = POk x [] ->
  good_start (repeat (TSym OpenParens) n ++ ts) /\
  parse_at CExpression (repeat (TSym OpenParens) n ++ ts) = POk (parens_n n x) [].
Proof.
  induction n as [|n IH]; intros ts x Hg H; cbn [repeat app parens_n].
  - auto.
  - destruct (IH ts x Hg H) as [G E]. split; [exact I|].
    unf CExpression. change CStatements with (F 0).
    apply (ascend 15 0); cbn [Nat.add F].
    + lia.
    + unf CParensOrLiteral. unf CParens. nohit.
      destruct (good_not_close _ G) as [e' E']. rewrite E'. rewrite E. reflexivity.
    + exact I.
    + exact I.
    + intros; exact I.
Qed.

Theorem parse_print_min_completed : forall e,
  parse_tokens (complete_parens (print_min e)) =
  POk (parens_n (n_close (print_min e)) (ex 0 e)) [].
Proof.
  intros e. rewrite parse_tokens_eq. unfold complete_parens.
  destruct (open_prefix (n_close (print_min e)) (print_min e) (ex 0 e)) as [_ E].
  - unfold print_min. rewrite <- (app_nil_r (pr 0 e)). apply pr_good.
  - apply pr_nil.
  - rewrite E. reflexivity.
Qed.

(* modulo Parens the AST is the table's grouping *)
Lemma strip_wrapx : forall k a x, strip (wrapx k a x) = strip x.
Proof. intros. unfold wrapx. destruct (lvl a <? k); reflexivity. Qed.

Lemma strip_exb : forall e, strip (exb e) = ast e.
Proof.
  induction e; cbn [exb strip ast]; rewrite ?strip_wrapx; congruence.
Qed.

Theorem strip_ex : forall k e, strip (ex k e) = ast e.
Proof. intros. unfold ex. rewrite strip_wrapx. apply strip_exb. Qed.

Lemma strip_parens_n : forall n x, strip (parens_n n x) = strip x.
Proof. induction n; intros; cbn; auto. Qed.

Lemma ast_unpar : forall e, ast (unpar e) = ast e.
Proof. induction e; cbn [unpar ast]; congruence. Qed.

Lemma ast_full : forall e, ast (full e) = ast e.
Proof.
  induction e; cbn [full ast];
    repeat match goal with |- context [if is_leaf ?a then _ else _] =>
      destruct (is_leaf a); cbn [ast] end; congruence.
Qed.

Section Value.
  (* any evaluator that does not look at Parens nodes *)
  Variable V : Type.
  Variable ev : expr -> V.
  Hypothesis ev_ignores_parens : forall a b, strip a = strip b -> ev a = ev b.

  Theorem value_min_full : forall e, exists a b,
    parse_tokens (print_min e) = POk a [] /\
    parse_tokens (print_full e) = POk b [] /\
    strip a = ast e /\ strip b = ast e /\ ev a = ev b.
  Proof.
    intros e. exists (ex 0 e), (ex 0 (full e)).
    split; [apply parse_print_min|]. split; [apply (parse_print_min (full e))|].
    assert (A : strip (ex 0 e) = ast e) by apply strip_ex.
    assert (A' : strip (ex 0 (full e)) = ast e) by (rewrite strip_ex; apply ast_full).
    repeat split; try assumption. apply ev_ignores_parens. congruence.
  Qed.

  Theorem value_min_full_completed : forall e, exists a b,
    parse_tokens (complete_parens (print_min e)) = POk a [] /\
    parse_tokens (complete_parens (print_full e)) = POk b [] /\
    strip a = ast e /\ strip b = ast e /\ ev a = ev b.
  Proof.
    intros e. eexists. eexists.
    split; [apply parse_print_min_completed|].
    split; [apply (parse_print_min_completed (full e))|].
    assert (A : strip (parens_n (n_close (print_min e)) (ex 0 e)) = ast e)
      by (rewrite strip_parens_n; apply strip_ex).
    assert (A' : strip (parens_n (n_close (print_min (full e))) (ex 0 (full e))) = ast e)
      by (rewrite strip_parens_n, strip_ex; apply ast_full).
    repeat split; try assumption. apply ev_ignores_parens. congruence.
  Qed.

  (* e' is e with parentheses added around (or removed from) any
     sub-expressions *)
  Theorem redundant_parens : forall e e', unpar e = unpar e' -> exists a b,
    parse_tokens (print_min e) = POk a [] /\
    parse_tokens (print_min e') = POk b [] /\
    strip a = strip b /\ ev a = ev b.
  Proof.
    intros e e' H. exists (ex 0 e), (ex 0 e').
    split; [apply parse_print_min|]. split; [apply parse_print_min|].
    assert (A : strip (ex 0 e) = strip (ex 0 e')).
    { rewrite !strip_ex. rewrite <- (ast_unpar e), <- (ast_unpar e'). congruence. }
    split; [exact A | apply ev_ignores_parens; exact A].
  Qed.
End Value.

Theorem parse_tokens_total : forall ts, parse_tokens ts <> PFuel.
Proof.
  intros ts. rewrite parse_tokens_eq.
  pose proof (parse_at_not_fuel CExpression ts).
  destruct (parse_at CExpression ts) as [? [|? ?]| |]; congruence.
Qed.
