(* Lang/Printer.v -- the manual's precedence table as data
   (documentation/chapters/expressions.md, with the two rows the property
   statement adds: unary minus between ^ and * / mod, and == / != between
   nPr and =), the class of table expressions, their minimal-parenthesis
   printing [pr k e] / [print_min], the fully parenthesised printing
   [print_full], and the AST the table assigns to a printing ([ex k e]:
   the table's grouping, with a Parens node exactly where the printer wrote
   parentheses).  This file is the SPEC side; it never mentions the parser.
   No proofs. *)
From FendV Require Import Base.Prelude Lang.Syntax.
Open Scope nat_scope.

(* Left-associative binary operators of the table, tightest last. *)
Inductive binop :=
| OPerm | OComb | OOr | OXor | OAnd | OShl | OShr | OAdd | OSub
| OMul | ODiv | OMod.

(* Levels (a larger number binds tighter):
     0  ;            (left)
     1  =            (right operand is again an assignment)
     2  == !=        (non-associative)
     3  : =>         (lambda arrow; no table expression lives here, the level
                      only exists as a context)
     4  nPr permute  5  nCr choose  6  | or  7  xor  8  & and  9  << >>
    10  + -
    11  implicit sums / mixed fractions (context only)
    12  * / per mod, number-unit juxtaposition
    13  unary minus, and ^ ** (right-assoc; the exponent may be a unary minus)
    14  !
    15  literals, identifiers, parentheses *)
Definition binop_level (o : binop) : nat :=
  match o with
  | OPerm => 4 | OComb => 5 | OOr => 6 | OXor => 7 | OAnd => 8
  | OShl | OShr => 9 | OAdd | OSub => 10 | OMul | ODiv | OMod => 12
  end.

Definition binop_sym (o : binop) : sym :=
  match o with
  | OPerm => Permutation | OComb => Combination | OOr => BitwiseOr
  | OXor => BitwiseXor | OAnd => BitwiseAnd | OShl => ShiftLeft
  | OShr => ShiftRight | OAdd => Add | OSub => Sub | OMul => Mul
  | ODiv => Div | OMod => Mod
  end.

Definition binop_bop (o : binop) : bop :=
  match o with
  | OPerm => BPerm | OComb => BComb | OOr => BOr | OXor => BXor
  | OAnd => BAnd | OShl => BShl | OShr => BShr | OAdd => BPlus
  | OSub => BMinus | OMul => BMul | ODiv => BDiv | OMod => BMod
  end.

(* Table expressions. *)
Inductive texp :=
| TNumA (p : payload)                (* number literal *)
| TIdA (s : name)                    (* identifier *)
| TPar (a : texp)                    (* explicitly parenthesised term *)
| TJuxt (p : payload) (u : name)     (* number-unit juxtaposition: 3 kg *)
| TFact (a : texp)                   (* a! *)
| TPow (a b : texp)                  (* a ^ b *)
| TNeg (a : texp)                    (* -a *)
| TBin (o : binop) (a b : texp)
| TEq (is_eq : bool) (a b : texp)    (* a == b, a != b *)
| TAssign (x : name) (a : texp)      (* x = a *)
| TSeq (a b : texp).                 (* a ; b *)

Definition lvl (e : texp) : nat :=
  match e with
  | TNumA _ | TIdA _ | TPar _ => 15
  | TJuxt _ _ => 12
  | TFact _ => 14
  | TPow _ _ | TNeg _ => 13
  | TBin o _ _ => binop_level o
  | TEq _ _ _ => 2
  | TAssign _ _ => 1
  | TSeq _ _ => 0
  end.

(* parenthesise [b] (the printing of [a]) iff [a] binds less tightly than
   the context [k] requires *)
Definition wrap (k : nat) (a : texp) (b : list tok) : list tok :=
  if lvl a <? k then TSym OpenParens :: b ++ [TSym CloseParens] else b.

(* [body e]: tokens of e itself, operands printed in the context their
   position requires:
     left-assoc  a op b : a at the operator's level, b one level above
                          (for * / mod that is the unary level 13)
     a ^ b              : a at level 14, b at level 13 (right-assoc, unary
                          minus allowed in the exponent)
     - a                : a at level 13
     a !                : a at level 14
     a == b             : both at level 3 (non-associative)
     x = a              : a at level 1 (right-assoc)
     a ; b              : a at level 0, b at level 1 *)
Fixpoint body (e : texp) : list tok :=
  match e with
  | TNumA p => [TNum p]
  | TIdA s => [TIdent s]
  | TPar a => TSym OpenParens :: body a ++ [TSym CloseParens]
  | TJuxt p u => [TNum p; TIdent u]
  | TFact a => wrap 14 a (body a) ++ [TSym Factorial]
  | TPow a b => wrap 14 a (body a) ++ TSym Pow :: wrap 13 b (body b)
  | TNeg a => TSym Sub :: wrap 13 a (body a)
  | TBin o a b =>
    wrap (binop_level o) a (body a) ++
    TSym (binop_sym o) :: wrap (S (binop_level o)) b (body b)
  | TEq q a b =>
    wrap 3 a (body a) ++
    TSym (if q then DoubleEquals else NotEquals) :: wrap 3 b (body b)
  | TAssign x a => TIdent x :: TSym Equals :: wrap 1 a (body a)
  | TSeq a b => wrap 0 a (body a) ++ TSym Semicolon :: wrap 1 b (body b)
  end.

(* tokens of [e] in a context requiring level >= k *)
Definition pr (k : nat) (e : texp) : list tok := wrap k e (body e).

Definition print_min (e : texp) : list tok := pr 0 e.

(* The AST the table assigns: [exb e] for [body e], [ex k e] for [pr k e]. *)
Definition wrapx (k : nat) (a : texp) (x : expr) : expr :=
  if lvl a <? k then EParens x else x.

Fixpoint exb (e : texp) : expr :=
  match e with
  | TNumA p => ELit (LNum p)
  | TIdA s => EIdent s
  | TPar a => EParens (exb a)
  | TJuxt p u => EApplyMul (ELit (LNum p)) (EIdent u)
  | TFact a => EFact (wrapx 14 a (exb a))
  | TPow a b => EBop BPow (wrapx 14 a (exb a)) (wrapx 13 b (exb b))
  | TNeg a => ENeg (wrapx 13 a (exb a))
  | TBin o a b =>
    EBop (binop_bop o) (wrapx (binop_level o) a (exb a))
                       (wrapx (S (binop_level o)) b (exb b))
  | TEq q a b => EEq q (wrapx 3 a (exb a)) (wrapx 3 b (exb b))
  | TAssign x a => EAssign x (wrapx 1 a (exb a))
  | TSeq a b => EStmts (wrapx 0 a (exb a)) (wrapx 1 b (exb b))
  end.

Definition ex (k : nat) (e : texp) : expr := wrapx k e (exb e).

(* The grouping alone: the table's AST with no Parens nodes at all. *)
Fixpoint ast (e : texp) : expr :=
  match e with
  | TNumA p => ELit (LNum p)
  | TIdA s => EIdent s
  | TPar a => ast a
  | TJuxt p u => EApplyMul (ELit (LNum p)) (EIdent u)
  | TFact a => EFact (ast a)
  | TPow a b => EBop BPow (ast a) (ast b)
  | TNeg a => ENeg (ast a)
  | TBin o a b => EBop (binop_bop o) (ast a) (ast b)
  | TEq q a b => EEq q (ast a) (ast b)
  | TAssign x a => EAssign x (ast a)
  | TSeq a b => EStmts (ast a) (ast b)
  end.

(* remove every explicit TPar *)
Fixpoint unpar (e : texp) : texp :=
  match e with
  | TNumA p => TNumA p
  | TIdA s => TIdA s
  | TPar a => unpar a
  | TJuxt p u => TJuxt p u
  | TFact a => TFact (unpar a)
  | TPow a b => TPow (unpar a) (unpar b)
  | TNeg a => TNeg (unpar a)
  | TBin o a b => TBin o (unpar a) (unpar b)
  | TEq q a b => TEq q (unpar a) (unpar b)
  | TAssign x a => TAssign x (unpar a)
  | TSeq a b => TSeq (unpar a) (unpar b)
  end.

(* put explicit parentheses around every operand that is not a bare number
   or identifier *)
Definition is_leaf (e : texp) : bool :=
  match e with TNumA _ | TIdA _ | TPar _ => true | _ => false end.

Fixpoint full (e : texp) : texp :=
  let p a := if is_leaf a then full a else TPar (full a) in
  match e with
  | TNumA p => TNumA p
  | TIdA s => TIdA s
  | TPar a => TPar (full a)
  | TJuxt p u => TJuxt p u
  | TFact a => TFact (p a)
  | TPow a b => TPow (p a) (p b)
  | TNeg a => TNeg (p a)
  | TBin o a b => TBin o (p a) (p b)
  | TEq q a b => TEq q (p a) (p b)
  | TAssign x a => TAssign x (p a)
  | TSeq a b => TSeq (p a) (p b)
  end.

Definition print_full (e : texp) : list tok := pr 0 (full e).

(* n nested Parens nodes: what the n unclosed parentheses that
   eval.rs::evaluate_to_value puts in front of the stream add to the AST *)
Fixpoint parens_n (n : nat) (e : expr) : expr :=
  match n with O => e | S m => EParens (parens_n m e) end.

(* size, for bounded enumerations *)
Fixpoint tsize (e : texp) : nat :=
  match e with
  | TNumA _ | TIdA _ | TJuxt _ _ => 1
  | TPar a | TFact a | TNeg a | TAssign _ a => S (tsize a)
  | TPow a b | TBin _ a b | TEq _ a b | TSeq a b => S (tsize a + tsize b)
  end.
