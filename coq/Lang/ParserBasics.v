(* Lang/ParserBasics.v -- properties of the parser model that hold for every
   token stream: monotonicity in fuel, consumption of input, termination
   with an explicit linear fuel bound. *)
From Coq Require Import Lia.
From FendV Require Import Base.Prelude Lang.Syntax Lang.Parser.
Open Scope nat_scope.

(* ------------------------------------------------------------------ *)
(* leaf helpers *)

Lemma fixed_symbol_ok : forall ts s u r,
  fixed_symbol ts s = POk u r -> ts = TSym s :: r.
Proof.
  intros ts s u r H. destruct ts as [|t ts']; cbn in H; try discriminate.
  destruct t; try discriminate.
  destruct (sym_eqb s0 s) eqn:E; try discriminate.
  inversion H; subst. destruct s0, s; try discriminate; reflexivity.
Qed.

Lemma fixed_symbol_len : forall ts s u r,
  fixed_symbol ts s = POk u r -> length ts = S (length r).
Proof. intros. apply fixed_symbol_ok in H. subst. reflexivity. Qed.

Lemma fixed_symbol_not_fuel : forall ts s, fixed_symbol ts s <> PFuel.
Proof.
  intros ts s. destruct ts as [|[] ?]; cbn; try discriminate.
  destruct (sym_eqb s0 s); discriminate.
Qed.

Lemma sym_eqb_refl : forall s, sym_eqb s s = true.
Proof. destruct s; reflexivity. Qed.

Lemma fixed_symbol_hit : forall s r, fixed_symbol (TSym s :: r) s = POk tt r.
Proof. intros. cbn. rewrite sym_eqb_refl. reflexivity. Qed.

Lemma skip_semicolons_len : forall ts, length (skip_semicolons ts) <= length ts.
Proof.
  induction ts as [|t ts IH]; cbn; [lia|].
  destruct t; cbn; try lia. destruct s; cbn; lia.
Qed.

Lemma apply_combine_rest : forall lhs rhs input e r,
  apply_combine lhs rhs input = POk e r -> r = input.
Proof.
  intros lhs rhs input e r H. unfold apply_combine in H.
  repeat match type of H with
  | POk _ _ = POk _ _ => inversion H; subst; clear H
  | PErr _ = _ => discriminate H
  | (if ?x then _ else _) = _ => destruct x
  | (match ?x with _ => _ end) = _ => destruct x
  end; reflexivity.
Qed.

Lemma apply_combine_not_fuel : forall lhs rhs input,
  apply_combine lhs rhs input <> PFuel.
Proof.
  intros. unfold apply_combine.
  repeat match goal with
  | |- POk _ _ <> _ => discriminate
  | |- PErr _ <> _ => discriminate
  | |- (if ?x then _ else _) <> _ => destruct x
  | |- (match ?x with _ => _ end) <> _ => destruct x
  end.
Qed.

(* ------------------------------------------------------------------ *)
(* 1. monotonicity in fuel *)

Definition ple (a b : pres expr) : Prop := a = PFuel \/ a = b.

Ltac mono_tac H r1 r2 :=
  repeat first
  [ match goal with
    | |- ple ?x ?x => right; reflexivity
    | |- ple PFuel _ => left; reflexivity
    end
  | progress cbn beta iota zeta
  | lazymatch goal with
    | |- ple (match r1 ?c ?t with _ => _ end) _ =>
      let Hc := fresh "Hc" in
      destruct (H c t) as [Hc|Hc]; rewrite Hc;
      [ left; reflexivity | destruct (r2 c t) ]
    | |- ple (r1 ?c ?t) _ => exact (H c t)
    | |- ple (if ?x then _ else _) _ => destruct x
    | |- ple (match ?x with _ => _ end) _ => destruct x
    end ].

Lemma step_mono : forall r1 r2,
  (forall c ts, ple (r1 c ts) (r2 c ts)) ->
  forall c ts, ple (step r1 c ts) (step r2 c ts).
Proof.
  intros r1 r2 H c ts.
  destruct c; cbn [step]; unfold simple_loop, parse_number; mono_tac H r1 r2.
Qed.

Lemma run_mono_S : forall f c ts, ple (run f c ts) (run (S f) c ts).
Proof.
  induction f as [|f IH]; intros c ts.
  - left; reflexivity.
  - change (ple (step (run f) c ts) (step (run (S f)) c ts)).
    apply step_mono. exact IH.
Qed.

Lemma run_mono : forall f f' c ts r,
  f <= f' -> run f c ts = r -> r <> PFuel -> run f' c ts = r.
Proof.
  intros f f' c ts r Hle. induction Hle as [|f' Hle IH]; intros Hr Hn.
  - exact Hr.
  - specialize (IH Hr Hn). destruct (run_mono_S f' c ts) as [E|E].
    + rewrite IH in E. subst r. contradiction.
    + rewrite <- E. exact IH.
Qed.

(* ------------------------------------------------------------------ *)
(* 2. a successful call never returns more input than it got, and every
      function (as opposed to a loop, or parse_statements on `;;;`) consumes
      at least one token *)

Definition strict (c : call) : nat :=
  match c with
  | CFactorialLoop _ | CMultiplicativeLoop _ | CAdditiveLoop _
  | CBitshiftsLoop _ | CBitwiseAndLoop _ | CBitwiseXorLoop _
  | CBitwiseOrLoop _ | CCombinationLoop _ | CPermutationLoop _
  | CStatementsLoop _ | CStatements | CExpression => 0
  | _ => 1
  end.

Ltac prog_tac H0 Hrec rec :=
  repeat first
  [ progress cbn beta iota zeta in H0
  | lazymatch type of H0 with
    | POk _ _ = POk _ _ => inversion H0; subst; clear H0
    | PErr _ = _ => discriminate H0
    | PFuel = _ => discriminate H0
    | rec ?c ?t = POk _ _ => apply Hrec in H0
    | apply_combine _ _ _ = POk _ _ => apply apply_combine_rest in H0; subst
    | (match rec ?c ?t with _ => _ end) = _ =>
      let E := fresh "E" in
      destruct (rec c t) eqn:E; [ apply Hrec in E | | ]
    | (match fixed_symbol ?t ?s with _ => _ end) = _ =>
      let E := fresh "E" in
      destruct (fixed_symbol t s) eqn:E; [ apply fixed_symbol_len in E | | ]
    | (match skip_semicolons ?t with _ => _ end) = _ =>
      let E := fresh "E" in
      pose proof (skip_semicolons_len t);
      destruct (skip_semicolons t) eqn:E
    | (if ?x then _ else _) = _ => destruct x
    | (match ?x with _ => _ end) = _ => destruct x
    end ].

Lemma step_progress : forall rec,
  (forall c ts e r, rec c ts = POk e r -> length r + strict c <= length ts) ->
  forall c ts e r, step rec c ts = POk e r -> length r + strict c <= length ts.
Proof.
  intros rec Hrec c ts e r H0.
  destruct c; cbn [step] in H0; unfold simple_loop, parse_number in H0;
    prog_tac H0 Hrec rec; cbn [length strict] in *; lia.
Qed.

Lemma run_progress : forall f c ts e r,
  run f c ts = POk e r -> length r + strict c <= length ts.
Proof.
  induction f as [|f IH]; intros c ts e r H.
  - discriminate.
  - exact (step_progress (run f) IH c ts e r H).
Qed.

Lemma run_rest_le : forall f c ts e r,
  run f c ts = POk e r -> length r <= length ts.
Proof. intros. apply run_progress in H. lia. Qed.

(* ------------------------------------------------------------------ *)
(* 3. termination: fuel_for c ts = 20 * |ts| + rank c + 1 always suffices *)

Ltac total_tac IH Hp rec :=
  repeat first
  [ progress cbn beta iota zeta
  | lazymatch goal with
    | |- POk _ _ <> PFuel => discriminate
    | |- PErr _ <> PFuel => discriminate
    | |- apply_combine _ _ _ <> PFuel => apply apply_combine_not_fuel
    | |- rec ?c ?t <> PFuel => apply IH; cbn [rank length] in *; lia
    | |- (match rec ?c ?t with _ => _ end) <> PFuel =>
      let E := fresh "E" in
      let N := fresh "N" in
      assert (N : rec c t <> PFuel) by (apply IH; cbn [rank length] in *; lia);
      destruct (rec c t) eqn:E; [ apply Hp in E; cbn [strict] in E | | exfalso; apply N; reflexivity ]
    | |- (match fixed_symbol ?t ?s with _ => _ end) <> PFuel =>
      let E := fresh "E" in
      destruct (fixed_symbol t s) eqn:E;
      [ apply fixed_symbol_len in E | | exfalso; exact (fixed_symbol_not_fuel _ _ E) ]
    | |- (match skip_semicolons ?t with _ => _ end) <> PFuel =>
      let E := fresh "E" in
      pose proof (skip_semicolons_len t);
      destruct (skip_semicolons t) eqn:E
    | |- (if ?x then _ else _) <> PFuel => destruct x
    | |- (match ?x with _ => _ end) <> PFuel => destruct x
    end ].

Lemma step_total : forall rec f,
  (forall c ts, 20 * length ts + rank c + 1 <= f -> rec c ts <> PFuel) ->
  (forall c ts e r, rec c ts = POk e r -> length r + strict c <= length ts) ->
  forall c ts, 20 * length ts + rank c + 1 <= S f -> step rec c ts <> PFuel.
Proof.
  intros rec f IH Hp c ts Hf.
  destruct c; cbn [step rank] in *; unfold simple_loop, parse_number;
    total_tac IH Hp rec.
Qed.

Theorem run_total : forall f c ts, fuel_for c ts <= f -> run f c ts <> PFuel.
Proof.
  unfold fuel_for.
  induction f as [|f IH]; intros c ts Hf.
  - lia.
  - exact (step_total (run f) f IH (run_progress f) c ts Hf).
Qed.

(* The limit of [run] and its characterisation. *)
Definition parse_at (c : call) (ts : list tok) : pres expr :=
  run (fuel_for c ts) c ts.

Lemma parse_at_not_fuel : forall c ts, parse_at c ts <> PFuel.
Proof. intros. apply run_total. lia. Qed.

Lemma run_parse_at : forall f c ts, fuel_for c ts <= f -> run f c ts = parse_at c ts.
Proof.
  intros. eapply run_mono; [eassumption|reflexivity|apply parse_at_not_fuel].
Qed.

Lemma run_det : forall f c ts r, run f c ts = r -> r <> PFuel -> parse_at c ts = r.
Proof.
  intros f c ts r H Hn. unfold parse_at.
  destruct (Nat.le_ge_cases f (fuel_for c ts)) as [L|L].
  - eapply run_mono; eassumption.
  - rewrite <- H. symmetry. apply run_parse_at. exact L.
Qed.

(* ------------------------------------------------------------------ *)
(* 4. [parse_at] satisfies the defining equations of the parser: it is the
      (fuel-free) function computed by the Rust code. *)

Ltac ext_tac H Hp r1 r2 :=
  repeat first
  [ reflexivity
  | progress cbn beta iota zeta
  | lazymatch goal with
    | |- r1 ?c ?t = r2 ?c ?t => apply H; cbn [length] in *; lia
    | |- (match r1 ?c ?t with _ => _ end) = _ =>
      let E := fresh "E" in
      let Q := fresh "Q" in
      assert (Q : r1 c t = r2 c t) by (apply H; cbn [length] in *; lia);
      destruct (r1 c t) eqn:E; rewrite <- Q; [ apply Hp in E | | ]
    | |- (match fixed_symbol ?t ?s with _ => _ end) = _ =>
      let E := fresh "E" in
      destruct (fixed_symbol t s) eqn:E; [ apply fixed_symbol_len in E | | ]
    | |- (match skip_semicolons ?t with _ => _ end) = _ =>
      let E := fresh "E" in
      pose proof (skip_semicolons_len t);
      destruct (skip_semicolons t) eqn:E
    | |- (if ?x then _ else _) = _ => destruct x
    | |- (match ?x with _ => _ end) = _ => destruct x
    end ].

Lemma step_ext_len : forall r1 r2 n,
  (forall c ts, length ts <= n -> r1 c ts = r2 c ts) ->
  (forall c ts e r, r1 c ts = POk e r -> length r + strict c <= length ts) ->
  forall c ts, length ts <= n -> step r1 c ts = step r2 c ts.
Proof.
  intros r1 r2 n H Hp c ts Hn.
  destruct c; cbn [step]; unfold simple_loop, parse_number; ext_tac H Hp r1 r2.
Qed.

Theorem parse_at_unfold : forall c ts, parse_at c ts = step parse_at c ts.
Proof.
  intros c ts.
  set (F := 20 * length ts + 21).
  rewrite <- (run_parse_at (S F) c ts)
    by (unfold fuel_for, F; assert (rank c <= 19) by (destruct c; cbn; lia); lia).
  change (step (run F) c ts = step parse_at c ts).
  apply step_ext_len with (n := length ts); [ | apply run_progress | lia ].
  intros c' ts' Hl. apply run_parse_at.
  unfold fuel_for, F. assert (rank c' <= 19) by (destruct c'; cbn; lia).
  assert (20 * length ts' <= 20 * length ts) by lia. lia.
Qed.

Lemma parse_at_progress : forall c ts e r,
  parse_at c ts = POk e r -> length r + strict c <= length ts.
Proof. intros c ts e r H. exact (run_progress _ _ _ _ _ H). Qed.

Lemma parse_tokens_eq : forall ts,
  parse_tokens ts =
  match parse_at CExpression ts with
  | POk res [] => POk res []
  | POk _ (_ :: _) => PErr PUnexpectedInput
  | PErr e => PErr e
  | PFuel => PFuel
  end.
Proof. reflexivity. Qed.

(* [fuel_consumed] is the least sufficient fuel *)
Lemma bisect_spec : forall n lo hi c ts,
  lo < hi -> hi - lo <= S n -> run lo c ts = PFuel -> run hi c ts <> PFuel ->
  let r := bisect n lo hi c ts in
  lo < r /\ r <= hi /\ run r c ts <> PFuel /\ run (r - 1) c ts = PFuel.
Proof.
  induction n as [|n IH]; intros lo hi c ts Hlt Hn Hlo Hhi; cbn [bisect].
  - replace (hi - 1) with lo by lia. repeat split; try assumption; lia.
  - destruct (Nat.leb_spec (hi - lo) 1) as [L|L].
    + replace (hi - 1) with lo by lia. repeat split; try assumption; lia.
    + assert (D1 : 1 <= (hi - lo) / 2) by (apply Nat.div_le_lower_bound; lia).
      assert (D2 : (hi - lo) / 2 < hi - lo) by (apply Nat.div_lt; lia).
      cbv zeta. set (mid := lo + (hi - lo) / 2) in *.
      destruct (run mid c ts) eqn:E; cbn [is_fuel].
      * assert (Q : run mid c ts <> PFuel) by (rewrite E; discriminate).
        destruct (IH lo mid c ts) as [A1 [A2 [A3 A4]]]; try assumption; try (unfold mid; lia).
        repeat split; try assumption. unfold mid in *; lia.
      * assert (Q : run mid c ts <> PFuel) by (rewrite E; discriminate).
        destruct (IH lo mid c ts) as [A1 [A2 [A3 A4]]]; try assumption; try (unfold mid; lia).
        repeat split; try assumption. unfold mid in *; lia.
      * destruct (IH mid hi c ts) as [A1 [A2 [A3 A4]]]; try assumption; try (unfold mid; lia).
        repeat split; try assumption. unfold mid in *; lia.
Qed.

Theorem fuel_consumed_spec : forall ts,
  let n := fuel_consumed ts in
  1 <= n /\ n <= fuel_for CExpression ts /\
  run n CExpression ts <> PFuel /\ (forall m, m < n -> run m CExpression ts = PFuel).
Proof.
  intros ts. cbv zeta. unfold fuel_consumed.
  destruct (bisect_spec (fuel_for CExpression ts) 0 (fuel_for CExpression ts) CExpression ts)
    as [A1 [A2 [A3 A4]]].
  - unfold fuel_for. lia.
  - lia.
  - reflexivity.
  - apply run_total. lia.
  - set (n := bisect (fuel_for CExpression ts) 0 (fuel_for CExpression ts) CExpression ts) in *.
    repeat split; try assumption; try lia.
    intros m Hm.
    assert (Hle : m <= n - 1) by lia.
    destruct (run m CExpression ts) eqn:E; try reflexivity; exfalso.
    + assert (Q : run m CExpression ts <> PFuel) by (rewrite E; discriminate).
      pose proof (run_mono m (n - 1) CExpression ts _ Hle eq_refl Q) as R. congruence.
    + assert (Q : run m CExpression ts <> PFuel) by (rewrite E; discriminate).
      pose proof (run_mono m (n - 1) CExpression ts _ Hle eq_refl Q) as R. congruence.
Qed.
