(* Lang/Syntax.v -- token type (core/src/lexer.rs Token, Symbol), expression
   type (core/src/ast.rs Expr, Bop), parse errors (core/src/parser.rs
   ParseError) and the result type of the parser model.  Numbers and dates
   carry an opaque payload (the bytes of the implementation's Debug
   rendering on the wire; the parser never inspects them).  No proofs. *)
From FendV Require Import Base.Prelude.
Open Scope N_scope.

Definition name := list N.        (* identifier text, UTF-8 bytes *)
Definition payload := list N.     (* opaque rendering of a Number / Date *)

(* lexer.rs: enum Symbol, in declaration order *)
Inductive sym :=
| OpenParens | CloseParens | Add | Sub | Mul | Div | Mod | Pow
| BitwiseAnd | BitwiseOr | BitwiseXor | UnitConversion | Factorial | Fn
| Backslash | Dot | Of | ShiftLeft | ShiftRight | Semicolon | Equals
| DoubleEquals | NotEquals | Combination | Permutation.

Definition sym_code (s : sym) : N :=
  match s with
  | OpenParens => 0 | CloseParens => 1 | Add => 2 | Sub => 3 | Mul => 4
  | Div => 5 | Mod => 6 | Pow => 7 | BitwiseAnd => 8 | BitwiseOr => 9
  | BitwiseXor => 10 | UnitConversion => 11 | Factorial => 12 | Fn => 13
  | Backslash => 14 | Dot => 15 | Of => 16 | ShiftLeft => 17
  | ShiftRight => 18 | Semicolon => 19 | Equals => 20 | DoubleEquals => 21
  | NotEquals => 22 | Combination => 23 | Permutation => 24
  end.

Definition all_syms : list sym :=
  [OpenParens; CloseParens; Add; Sub; Mul; Div; Mod; Pow; BitwiseAnd;
   BitwiseOr; BitwiseXor; UnitConversion; Factorial; Fn; Backslash; Dot; Of;
   ShiftLeft; ShiftRight; Semicolon; Equals; DoubleEquals; NotEquals;
   Combination; Permutation].

Definition sym_eqb (a b : sym) : bool :=
  match a, b with
  | OpenParens, OpenParens | CloseParens, CloseParens | Add, Add | Sub, Sub
  | Mul, Mul | Div, Div | Mod, Mod | Pow, Pow | BitwiseAnd, BitwiseAnd
  | BitwiseOr, BitwiseOr | BitwiseXor, BitwiseXor
  | UnitConversion, UnitConversion | Factorial, Factorial | Fn, Fn
  | Backslash, Backslash | Dot, Dot | Of, Of | ShiftLeft, ShiftLeft
  | ShiftRight, ShiftRight | Semicolon, Semicolon | Equals, Equals
  | DoubleEquals, DoubleEquals | NotEquals, NotEquals
  | Combination, Combination | Permutation, Permutation => true
  | _, _ => false
  end.

(* lexer.rs: enum Token *)
Inductive tok :=
| TNum (p : payload)
| TIdent (s : name)
| TSym (s : sym)
| TStr (s : list N)
| TDate (p : payload).

(* ast.rs: enum Bop (BitwiseBop flattened), serialisation order *)
Inductive bop :=
| BPlus | BImplicitPlus | BMinus | BMul | BDiv | BMod | BPow
| BAnd | BOr | BXor | BShl | BShr | BComb | BPerm.

Definition bop_code (b : bop) : N :=
  match b with
  | BPlus => 0 | BImplicitPlus => 1 | BMinus => 2 | BMul => 3 | BDiv => 4
  | BMod => 5 | BPow => 6 | BAnd => 7 | BOr => 8 | BXor => 9 | BShl => 10
  | BShr => 11 | BComb => 12 | BPerm => 13
  end.

(* the Value variants the parser can put into Expr::Literal *)
Inductive lit :=
| LNum (p : payload)
| LStr (s : list N)
| LDate (p : payload)
| LUnit.

(* ast.rs: enum Expr *)
Inductive expr :=
| ELit (l : lit)
| EIdent (s : name)
| EParens (e : expr)
| ENeg (e : expr)              (* UnaryMinus *)
| EPos (e : expr)              (* UnaryPlus *)
| EInv (e : expr)              (* UnaryDiv *)
| EFact (e : expr)
| EBop (b : bop) (l r : expr)
| EApply (f a : expr)
| EApplyFn (f a : expr)        (* ApplyFunctionCall *)
| EApplyMul (f a : expr)
| EAs (l r : expr)
| EFn (x : name) (e : expr)
| EOf (x : name) (e : expr)
| EAssign (x : name) (e : expr)
| EEq (is_eq : bool) (l r : expr)
| EStmts (l r : expr).

(* parser.rs: enum ParseError *)
Inductive perr :=
| PExpectedAToken
| PExpectedToken (found expected : sym)
| PFoundInvalidTokenWhileExpecting (expected : sym)
| PExpectedANumber
| PExpectedIdentifier
| PUnexpectedSymbol (s : sym)
| PInvalidApplyOperands
| PUnexpectedInput
| PExpectedIdentifierAsArgument
| PExpectedIdentifierInAssignment
| PExpectedDotInLambda
| PInvalidMixedFraction.

(* ParseResult<'a, T> = Result<(T, &'a [Token]), ParseError>, plus the
   out-of-fuel outcome of the model (never confused with a parse error:
   the backtracking `if let Ok(..)` chains propagate it). *)
Inductive pres (A : Type) :=
| POk (a : A) (rest : list tok)
| PErr (e : perr)
| PFuel.
Arguments POk {A} a rest.
Arguments PErr {A} e.
Arguments PFuel {A}.

(* Expr with every Parens node removed: what an evaluator that treats
   Parens(x) as x sees. *)
Fixpoint strip (e : expr) : expr :=
  match e with
  | ELit l => ELit l
  | EIdent s => EIdent s
  | EParens a => strip a
  | ENeg a => ENeg (strip a)
  | EPos a => EPos (strip a)
  | EInv a => EInv (strip a)
  | EFact a => EFact (strip a)
  | EBop b l r => EBop b (strip l) (strip r)
  | EApply f a => EApply (strip f) (strip a)
  | EApplyFn f a => EApplyFn (strip f) (strip a)
  | EApplyMul f a => EApplyMul (strip f) (strip a)
  | EAs l r => EAs (strip l) (strip r)
  | EFn x a => EFn x (strip a)
  | EOf x a => EOf x (strip a)
  | EAssign x a => EAssign x (strip a)
  | EEq b l r => EEq b (strip l) (strip r)
  | EStmts l r => EStmts (strip l) (strip r)
  end.
