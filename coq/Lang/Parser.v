(* Lang/Parser.v -- model of core/src/parser.rs, line by line.

   One fuelled [run] over a [call] enum with one constructor per Rust
   function that returns a ParseResult<Expr> and one per Rust loop (the loop
   constructors carry the accumulated left operand).  Every call decrements
   fuel.  `if let Ok(..) = f(..) { A } else { B }` is a match on the result
   (first success wins, an error of any kind selects B); running out of fuel
   is a third outcome that is always propagated, never caught.

   The three leaf helpers that do not return an Expr or do not recurse
   (parse_token, parse_fixed_symbol, parse_number) are plain definitions.

   Index/slice sites of parser.rs: input[0], &input[1..] (parse_token, after
   an is_empty test), remaining[0] (parse_statements, after an is_empty
   test): all guarded, so the model has no Panic outcome.

   No proofs in this file. *)
From FendV Require Import Base.Prelude Lang.Syntax.
Open Scope N_scope.

Inductive call :=
| CIdent                              (* parse_ident *)
| CParens                             (* parse_parens *)
| CBackslashLambda                    (* parse_backslash_lambda *)
| CParensOrLiteral                    (* parse_parens_or_literal *)
| CFactorial                          (* parse_factorial *)
| CFactorialLoop (res : expr)         (*   its while loop *)
| CPower (allow_unary : bool)         (* parse_power *)
| CApplyCont (lhs : expr)             (* parse_apply_cont *)
| CMixedFraction (lhs : expr)         (* parse_mixed_fraction *)
| CMulCont                            (* parse_multiplication_cont *)
| CDivCont                            (* parse_division_cont *)
| CModCont                            (* parse_modulo_cont *)
| CMod2Cont                           (* parse_modulo2_cont *)
| CMultiplicative                     (* parse_multiplicative *)
| CMultiplicativeLoop (res : expr)    (*   its loop *)
| CImplicitAddition                   (* parse_implicit_addition *)
| CAddCont                            (* parse_addition_cont *)
| CSubCont                            (* parse_subtraction_cont *)
| CToCont                             (* parse_to_cont *)
| CAdditive                           (* parse_additive *)
| CAdditiveLoop (res : expr)
| CBitshifts                          (* parse_bitshifts *)
| CBitshiftsLoop (res : expr)
| CBitwiseAnd                         (* parse_bitwise_and *)
| CBitwiseAndLoop (res : expr)
| CBitwiseXor                         (* parse_bitwise_xor *)
| CBitwiseXorLoop (res : expr)
| CBitwiseOr                          (* parse_bitwise_or *)
| CBitwiseOrLoop (res : expr)
| CCombination                        (* parse_combination *)
| CCombinationLoop (res : expr)
| CPermutation                        (* parse_permutation *)
| CPermutationLoop (res : expr)
| CFunction                           (* parse_function *)
| CEquality                           (* parse_equality *)
| CAssignment                         (* parse_assignment *)
| CStatements                         (* parse_statements *)
| CStatementsLoop (res : expr)        (*   its second while loop *)
| CExpression.                        (* parse_expression *)

(* `let (x, rest) = e?;` *)
Notation "'let?' ( a , r ) := e 'in' k" :=
  (match e with POk a r => k | PErr err => PErr err | PFuel => PFuel end)
  (at level 200, a name, r name, e at level 100, k at level 200).
(* `if let Ok((x, rest)) = e { k1 } else { k2 }` *)
Notation "'iflet' ( a , r ) := e 'then' k1 'else' k2" :=
  (match e with POk a r => k1 | PErr _ => k2 | PFuel => PFuel end)
  (at level 200, a name, r name, e at level 100, k1 at level 200, k2 at level 200).

(* parse_token + parse_fixed_symbol *)
Definition fixed_symbol (ts : list tok) (s : sym) : pres unit :=
  match ts with
  | [] => PErr PExpectedAToken
  | TSym s' :: r =>
    if sym_eqb s' s then POk tt r else PErr (PExpectedToken s' s)
  | _ :: _ => PErr (PFoundInvalidTokenWhileExpecting s)
  end.

(* parse_number *)
Definition parse_number (ts : list tok) : pres expr :=
  match ts with
  | [] => PErr PExpectedAToken
  | TNum p :: r => POk (ELit (LNum p)) r
  | _ :: _ => PErr PExpectedANumber
  end.

Definition is_light (s : name) : bool := list_N_eqb s [108; 105; 103; 104; 116].
Definition is_percent (s : name) : bool := list_N_eqb s [37].
(* Ident::is_prefix_unit: "$", U+00A3, U+00A5 (UTF-8 bytes) *)
Definition is_prefix_unit (s : name) : bool :=
  list_N_eqb s [36] || list_N_eqb s [194; 163] || list_N_eqb s [194; 165].

Definition is_num (e : expr) : bool :=
  match e with ELit (LNum _) => true | _ => false end.
Definition is_lit (e : expr) : bool :=
  match e with ELit _ => true | _ => false end.
Definition is_applymul (e : expr) : bool :=
  match e with EApplyMul _ _ => true | _ => false end.
Definition is_implicit_plus (e : expr) : bool :=
  match e with EBop BImplicitPlus _ _ => true | _ => false end.
(* Expr::Literal(Value::Num(_)) | Expr::UnaryMinus(_) | Expr::ApplyMul(_, _) *)
Definition num_neg_applymul (e : expr) : bool :=
  match e with ELit (LNum _) | ENeg _ | EApplyMul _ _ => true | _ => false end.
Definition is_prefix_ident (e : expr) : bool :=
  match e with EIdent i => is_prefix_unit i | _ => false end.

(* the match of parse_apply_cont, arms in source order *)
Definition apply_combine (lhs rhs : expr) (input : list tok) : pres expr :=
  if num_neg_applymul lhs && is_num rhs then
    match lhs with
    | ENeg b =>
      if negb (is_num b) then POk (EApply lhs rhs) input
      else PErr PInvalidApplyOperands
    | _ => PErr PInvalidApplyOperands
    end
  else
    match rhs with
    | EBop BPow a _ =>
      if num_neg_applymul lhs then
        if is_num a then PErr PInvalidApplyOperands
        else POk (EApply lhs rhs) input
      else POk (EApply lhs rhs) input   (* not a number: falls to the last arm *)
    | _ =>
      if is_prefix_ident lhs && is_num rhs then POk (EApply lhs rhs) input
      else if is_num rhs then POk (EApplyFn lhs rhs) input
      else if is_num lhs || is_applymul lhs then POk (EApplyMul lhs rhs) input
      else POk (EApply lhs rhs) input
    end.

(* the first match of parse_mixed_fraction: (positive, lhs, other_factor) *)
Definition mixed_classify (lhs : expr) : option (bool * expr * option expr) :=
  match lhs with
  | ELit (LNum _) => Some (true, lhs, None)
  | ENeg x => if is_num x then Some (false, lhs, None) else None
  | EBop BMul a b =>
    match b with
    | ELit (LNum _) => Some (true, b, Some a)
    | ENeg x => if is_num x then Some (false, b, Some a) else None
    | _ => None
    end
  | _ => None
  end.

(* the first while loop of parse_statements *)
Fixpoint skip_semicolons (ts : list tok) : list tok :=
  match ts with
  | TSym Semicolon :: r => skip_semicolons r
  | _ => ts
  end.

Definition starts_with_symbol_not_open (ts : list tok) : bool :=
  match ts with
  | TSym OpenParens :: _ => false
  | TSym _ :: _ => true
  | _ => false
  end.

Definition starts_with_semicolon_or_empty (ts : list tok) : bool :=
  match ts with
  | [] => true
  | TSym Semicolon :: _ => true
  | _ => false
  end.

(* a `while let Ok(((), remaining)) = parse_fixed_symbol(input, s)` level:
   result = Bop(b, result, rhs) with rhs parsed by [sub] *)
Definition simple_loop (rec : call -> list tok -> pres expr)
    (s : sym) (b : bop) (sub : call) (loop : expr -> call)
    (res : expr) (ts : list tok) : pres expr :=
  iflet (_u, remaining) := fixed_symbol ts s then
    (let? (rhs, remaining2) := rec sub remaining in
     rec (loop (EBop b res rhs)) remaining2)
  else POk res ts.

(* One layer of the parser: the body of the function / loop named by [c],
   with every call going through [rec]. *)
Definition step (rec : call -> list tok -> pres expr) (c : call) (ts : list tok)
  : pres expr :=
  match c with
  (* fn parse_ident *)
  | CIdent =>
    match ts with
    | [] => PErr PExpectedAToken
    | TIdent ident :: remaining =>
      let after_light := fun _ : unit =>
        iflet (_u, remaining2) := fixed_symbol remaining Of then
          (let? (inner, remaining3) := rec CParensOrLiteral remaining2 in
           POk (EOf ident inner) remaining3)
        else POk (EIdent ident) remaining in
      if is_light ident then
        iflet (ident2, remaining2) := rec CIdent remaining then
          POk (EApply (EIdent ident) ident2) remaining2
        else after_light tt
      else after_light tt
    | _ :: _ => PErr PExpectedIdentifier
    end
  (* fn parse_parens *)
  | CParens =>
    let? (_u, input) := fixed_symbol ts OpenParens in
    iflet (_u2, remaining) := fixed_symbol input CloseParens then
      POk (ELit LUnit) remaining
    else
      let? (inner, input2) := rec CExpression input in
      match input2 with
      | [] => POk (EParens inner) []
      | _ :: _ =>
        let? (_u3, remaining) := fixed_symbol input2 CloseParens in
        POk (EParens inner) remaining
      end
  (* fn parse_backslash_lambda *)
  | CBackslashLambda =>
    let? (_u, input) := fixed_symbol ts Backslash in
    let? (id, input2) := rec CIdent input in
    match id with
    | EIdent ident =>
      match fixed_symbol input2 Dot with
      | POk _ input3 =>
        let? (rhs, input4) := rec CFunction input3 in
        POk (EFn ident rhs) input4
      | _ => PErr PExpectedDotInLambda
      end
    | _ => PErr PExpectedIdentifier
    end
  (* fn parse_parens_or_literal *)
  | CParensOrLiteral =>
    match ts with
    | [] => PErr PExpectedAToken
    | TNum _ :: _ => parse_number ts
    | TIdent _ :: _ => rec CIdent ts
    | TStr s :: remaining => POk (ELit (LStr s)) remaining
    | TSym OpenParens :: _ => rec CParens ts
    | TSym Backslash :: _ => rec CBackslashLambda ts
    | TSym s :: _ => PErr (PUnexpectedSymbol s)
    | TDate d :: remaining => POk (ELit (LDate d)) remaining
    end
  (* fn parse_factorial *)
  | CFactorial =>
    let? (res, input) := rec CParensOrLiteral ts in
    rec (CFactorialLoop res) input
  | CFactorialLoop res =>
    iflet (_u, remaining) := fixed_symbol ts Factorial then
      rec (CFactorialLoop (EFact res)) remaining
    else POk res ts
  (* fn parse_power *)
  | CPower allow_unary =>
    let base := fun _ : unit =>
      let? (result, input) := rec CFactorial ts in
      iflet (_u, remaining) := fixed_symbol input Pow then
        (let? (rhs, remaining2) := rec (CPower true) remaining in
         POk (EBop BPow result rhs) remaining2)
      else POk result input in
    if allow_unary then
      iflet (_u, remaining) := fixed_symbol ts Sub then
        (let? (result, remaining2) := rec (CPower true) remaining in
         POk (ENeg result) remaining2)
      else iflet (_u, remaining) := fixed_symbol ts Add then
        (let? (result, remaining2) := rec (CPower true) remaining in
         POk (EPos result) remaining2)
      else iflet (_u, remaining) := fixed_symbol ts Div then
        (let? (result, remaining2) := rec (CPower true) remaining in
         POk (EInv result) remaining2)
      else base tt
    else base tt
  (* fn parse_apply_cont *)
  | CApplyCont lhs =>
    let? (rhs, input) := rec (CPower false) ts in
    apply_combine lhs rhs input
  (* fn parse_mixed_fraction *)
  | CMixedFraction lhs0 =>
    match mixed_classify lhs0 with
    | None => PErr PInvalidMixedFraction
    | Some (positive, lhs, other_factor) =>
      let? (rhs_top, input) := rec (CPower false) ts in
      if is_num rhs_top then
        let? (_u, input2) := fixed_symbol input Div in
        let? (rhs_bottom, input3) := rec (CPower false) input2 in
        if is_num rhs_bottom then
          let rhs := EBop BDiv rhs_top rhs_bottom in
          let mixed := if positive then EBop BPlus lhs rhs else EBop BMinus lhs rhs in
          match other_factor with
          | None => POk mixed input3
          | Some other => POk (EBop BMul other mixed) input3
          end
        else PErr PInvalidMixedFraction
      else PErr PInvalidMixedFraction
    end
  (* fn parse_multiplication_cont / parse_division_cont / parse_modulo_cont *)
  | CMulCont =>
    let? (_u, input) := fixed_symbol ts Mul in rec (CPower true) input
  | CDivCont =>
    let? (_u, input) := fixed_symbol ts Div in rec (CPower true) input
  | CModCont =>
    let? (_u, input) := fixed_symbol ts Mod in rec (CPower true) input
  (* fn parse_modulo2_cont *)
  | CMod2Cont =>
    match ts with
    | [] => PErr PExpectedAToken
    | TIdent ident :: input =>
      if is_percent ident then
        if starts_with_symbol_not_open input then PErr PUnexpectedInput
        else rec (CPower true) input
      else PErr PUnexpectedInput
    | _ :: _ => PErr PUnexpectedInput
    end
  (* fn parse_multiplicative *)
  | CMultiplicative =>
    let? (res, input) := rec (CPower true) ts in
    rec (CMultiplicativeLoop res) input
  | CMultiplicativeLoop res =>
    iflet (term, remaining) := rec CMulCont ts then
      rec (CMultiplicativeLoop (EBop BMul res term)) remaining
    else iflet (term, remaining) := rec CDivCont ts then
      rec (CMultiplicativeLoop (EBop BDiv res term)) remaining
    else iflet (term, remaining) := rec CModCont ts then
      rec (CMultiplicativeLoop (EBop BMod res term)) remaining
    else iflet (term, remaining) := rec CMod2Cont ts then
      rec (CMultiplicativeLoop (EBop BMod res term)) remaining
    else iflet (new_res, remaining) := rec (CMixedFraction res) ts then
      rec (CMultiplicativeLoop new_res) remaining
    else iflet (new_res, remaining) := rec (CApplyCont res) ts then
      rec (CMultiplicativeLoop new_res) remaining
    else POk res ts
  (* fn parse_implicit_addition *)
  | CImplicitAddition =>
    let? (res, input) := rec CMultiplicative ts in
    iflet (rhs, remaining) := rec CImplicitAddition input then
      (if is_applymul res && (is_applymul rhs || is_implicit_plus rhs || is_lit rhs)
       then POk (EBop BImplicitPlus res rhs) remaining
       else POk res input)
    else POk res input
  (* fn parse_addition_cont / parse_subtraction_cont / parse_to_cont *)
  | CAddCont =>
    let? (_u, input) := fixed_symbol ts Add in rec CImplicitAddition input
  | CSubCont =>
    let? (_u, input) := fixed_symbol ts Sub in rec CImplicitAddition input
  | CToCont =>
    let? (_u, input) := fixed_symbol ts UnitConversion in rec CImplicitAddition input
  (* fn parse_additive *)
  | CAdditive =>
    let? (res, input) := rec CImplicitAddition ts in
    rec (CAdditiveLoop res) input
  | CAdditiveLoop res =>
    iflet (term, remaining) := rec CAddCont ts then
      rec (CAdditiveLoop (EBop BPlus res term)) remaining
    else iflet (term, remaining) := rec CSubCont ts then
      rec (CAdditiveLoop (EBop BMinus res term)) remaining
    else iflet (term, remaining) := rec CToCont ts then
      rec (CAdditiveLoop (EAs res term)) remaining
    else POk res ts
  (* fn parse_bitshifts *)
  | CBitshifts =>
    let? (res, input) := rec CAdditive ts in
    rec (CBitshiftsLoop res) input
  | CBitshiftsLoop res =>
    iflet (_u, remaining) := fixed_symbol ts ShiftLeft then
      (let? (rhs, remaining2) := rec CAdditive remaining in
       rec (CBitshiftsLoop (EBop BShl res rhs)) remaining2)
    else iflet (_u, remaining) := fixed_symbol ts ShiftRight then
      (let? (rhs, remaining2) := rec CAdditive remaining in
       rec (CBitshiftsLoop (EBop BShr res rhs)) remaining2)
    else POk res ts
  (* fn parse_bitwise_and / xor / or, parse_combination, parse_permutation *)
  | CBitwiseAnd =>
    let? (res, input) := rec CBitshifts ts in
    rec (CBitwiseAndLoop res) input
  | CBitwiseAndLoop res =>
    simple_loop rec BitwiseAnd BAnd CBitshifts CBitwiseAndLoop res ts
  | CBitwiseXor =>
    let? (res, input) := rec CBitwiseAnd ts in
    rec (CBitwiseXorLoop res) input
  | CBitwiseXorLoop res =>
    simple_loop rec BitwiseXor BXor CBitwiseAnd CBitwiseXorLoop res ts
  | CBitwiseOr =>
    let? (res, input) := rec CBitwiseXor ts in
    rec (CBitwiseOrLoop res) input
  | CBitwiseOrLoop res =>
    simple_loop rec BitwiseOr BOr CBitwiseXor CBitwiseOrLoop res ts
  | CCombination =>
    let? (res, input) := rec CBitwiseOr ts in
    rec (CCombinationLoop res) input
  | CCombinationLoop res =>
    simple_loop rec Combination BComb CBitwiseOr CCombinationLoop res ts
  | CPermutation =>
    let? (res, input) := rec CCombination ts in
    rec (CPermutationLoop res) input
  | CPermutationLoop res =>
    simple_loop rec Permutation BPerm CCombination CPermutationLoop res ts
  (* fn parse_function *)
  | CFunction =>
    let? (lhs, input) := rec CPermutation ts in
    iflet (_u, remaining) := fixed_symbol input Fn then
      match lhs with
      | EIdent s =>
        let? (rhs, remaining2) := rec CFunction remaining in
        POk (EFn s rhs) remaining2
      | _ => PErr PExpectedIdentifierAsArgument
      end
    else POk lhs input
  (* fn parse_equality *)
  | CEquality =>
    let? (lhs, input) := rec CFunction ts in
    iflet (_u, remaining) := fixed_symbol input DoubleEquals then
      (let? (rhs, remaining2) := rec CFunction remaining in
       POk (EEq true lhs rhs) remaining2)
    else iflet (_u, remaining) := fixed_symbol input NotEquals then
      (let? (rhs, remaining2) := rec CFunction remaining in
       POk (EEq false lhs rhs) remaining2)
    else POk lhs input
  (* fn parse_assignment *)
  | CAssignment =>
    let? (lhs, input) := rec CEquality ts in
    iflet (_u, remaining) := fixed_symbol input Equals then
      match lhs with
      | EIdent s =>
        let? (rhs, remaining2) := rec CAssignment remaining in
        POk (EAssign s rhs) remaining2
      | _ => PErr PExpectedIdentifierInAssignment
      end
    else POk lhs input
  (* fn parse_statements *)
  | CStatements =>
    match skip_semicolons ts with
    | [] => POk (ELit LUnit) []
    | input =>
      let? (result, input2) := rec CAssignment input in
      rec (CStatementsLoop result) input2
    end
  | CStatementsLoop result =>
    iflet (_u, remaining) := fixed_symbol ts Semicolon then
      (if starts_with_semicolon_or_empty remaining then
         rec (CStatementsLoop result) remaining
       else
         let? (rhs, remaining2) := rec CAssignment remaining in
         rec (CStatementsLoop (EStmts result rhs)) remaining2)
    else POk result ts
  (* fn parse_expression *)
  | CExpression => rec CStatements ts
  end.

Fixpoint run (fuel : nat) (c : call) (ts : list tok) {struct fuel} : pres expr :=
  match fuel with
  | O => PFuel
  | S f => step (run f) c ts
  end.

(* Position of a call in the same-input call graph: a callee that receives
   the caller's input unchanged has a strictly smaller rank. *)
Definition rank (c : call) : nat :=
  match c with
  | CIdent | CParens | CBackslashLambda => 0
  | CParensOrLiteral => 1
  | CFactorialLoop _ => 0
  | CFactorial => 2
  | CPower _ => 3
  | CMulCont | CDivCont | CModCont | CMod2Cont => 0
  | CApplyCont _ | CMixedFraction _ => 4
  | CMultiplicativeLoop _ => 5
  | CMultiplicative => 6
  | CImplicitAddition => 7
  | CAddCont | CSubCont | CToCont => 0
  | CAdditiveLoop _ => 1
  | CAdditive => 8
  | CBitshiftsLoop _ => 0
  | CBitshifts => 9
  | CBitwiseAndLoop _ => 0
  | CBitwiseAnd => 10
  | CBitwiseXorLoop _ => 0
  | CBitwiseXor => 11
  | CBitwiseOrLoop _ => 0
  | CBitwiseOr => 12
  | CCombinationLoop _ => 0
  | CCombination => 13
  | CPermutationLoop _ => 0
  | CPermutation => 14
  | CFunction => 15
  | CEquality => 16
  | CAssignment => 17
  | CStatementsLoop _ => 0
  | CStatements => 18
  | CExpression => 19
  end.

(* Fuel that always suffices (ParserProofs.run_total): 20 per token + rank. *)
Definition fuel_for (c : call) (ts : list tok) : nat :=
  (20 * length ts + rank c + 1)%nat.

(* pub(crate) fn parse_tokens *)
Definition parse_tokens_fuel (fuel : nat) (ts : list tok) : pres expr :=
  match run fuel CExpression ts with
  | POk res [] => POk res []
  | POk _ (_ :: _) => PErr PUnexpectedInput
  | PErr e => PErr e
  | PFuel => PFuel
  end.

Definition parse_tokens (ts : list tok) : pres expr :=
  parse_tokens_fuel (fuel_for CExpression ts) ts.

(* eval.rs evaluate_to_value: one OpenParens is inserted at the front for
   every CloseParens in the stream (all of them, not only unmatched ones;
   parse_parens tolerates the missing closers at the end of input). *)
Definition is_close (t : tok) : bool :=
  match t with TSym CloseParens => true | _ => false end.
Definition n_close (ts : list tok) : nat := length (filter is_close ts).
Definition complete_parens (ts : list tok) : list tok :=
  repeat (TSym OpenParens) (n_close ts) ++ ts.

(* Least fuel with a non-fuel outcome = depth of the deepest chain of nested
   model calls (an upper bound of the native recursion depth: each iteration
   of a Rust loop is one more model call, a Rust call is exactly one).
   Bisection between 0 (always out of fuel) and [fuel_for] (always enough,
   ParserBasics.run_total); [run] is monotone in fuel
   (ParserBasics.run_mono), so the boundary found is the least. *)
Definition is_fuel {A : Type} (r : pres A) : bool :=
  match r with PFuel => true | _ => false end.

Fixpoint bisect (n lo hi : nat) (c : call) (ts : list tok) : nat :=
  match n with
  | O => hi
  | S n' =>
    if (hi - lo <=? 1)%nat then hi
    else
      let mid := (lo + (hi - lo) / 2)%nat in
      if is_fuel (run mid c ts) then bisect n' mid hi c ts
      else bisect n' lo mid c ts
  end.

Definition fuel_consumed (ts : list tok) : nat :=
  bisect (fuel_for CExpression ts) 0 (fuel_for CExpression ts) CExpression ts.
