(* Dispatcher for the Lang area (C08).  Ops:

   (parse (tok ...))          model parse_tokens on a token stream as dumped
                              by the lex hook; answer = the AST in the same
                              s-expression form as the parse hook, or
                              ("perr" "Variant" sym...), or ("fuel")
   (depth (tok ...))          n = least fuel with which [run _ CExpression]
                              does not run out = depth of the deepest chain of
                              nested parser-model calls (C08_fuel_consumed_least).
                              Every Rust call is one model call and every
                              iteration of a Rust loop is one more, so n is an
                              upper bound of the native recursion depth of
                              parse_expression on that stream; n <= 20*tokens+20
                              (C08_parser_terminates)
   (table texp)               (min-tokens min-expected full-tokens
                              full-expected grouping): [complete_parens
                              (print_min e)], the AST the table assigns to it,
                              the same for [print_full e], and [ast e]
   tok  = ("n" "payload") | ("i" "name") | ("y" code) | ("s" "text") | ("d" "payload")
   texp = ("N" "payload") | ("I" "name") | ("P" t) | ("J" "payload" "name")
        | ("F" t) | ("W" t t) | ("G" t) | ("B" op t t) | ("E" q t t)
        | ("A" "name" t) | ("S" t t)        op = 0..11 in binop order *)
From FendV Require Import Base.Prelude Lang.Syntax Lang.Parser Lang.Printer.
Open Scope N_scope.

Definition sym_of_code (n : N) : option sym :=
  find (fun s => sym_code s =? n) all_syms.

Definition as_tok (s : sx) : option tok :=
  match s with
  | XL [XS k; XS b] =>
    if opeq k "n" then Some (TNum b)
    else if opeq k "i" then Some (TIdent b)
    else if opeq k "s" then Some (TStr b)
    else if opeq k "d" then Some (TDate b)
    else None
  | XL [XS k; XA z] =>
    if opeq k "y" then
      (if (z <? 0)%Z then None else
       match sym_of_code (Z.to_N z) with Some y => Some (TSym y) | None => None end)
    else None
  | _ => None
  end.

Fixpoint as_toks (l : list sx) : option (list tok) :=
  match l with
  | [] => Some []
  | x :: r => match as_tok x, as_toks r with
              | Some t, Some ts => Some (t :: ts) | _, _ => None end
  end.

Definition sx_tok (t : tok) : sx :=
  match t with
  | TNum p => XL [XS (B"n"); XS p]
  | TIdent s => XL [XS (B"i"); XS s]
  | TSym y => XL [XS (B"y"); sx_N (sym_code y)]
  | TStr s => XL [XS (B"s"); XS s]
  | TDate p => XL [XS (B"d"); XS p]
  end.

Fixpoint sx_expr (e : expr) : sx :=
  match e with
  | ELit (LNum p) => XL [XS (B"num"); XS p]
  | ELit (LStr s) => XL [XS (B"str"); XS s]
  | ELit (LDate p) => XL [XS (B"date"); XS p]
  | ELit LUnit => XL [XS (B"unit")]
  | EIdent s => XL [XS (B"id"); XS s]
  | EParens a => XL [XS (B"par"); sx_expr a]
  | ENeg a => XL [XS (B"neg"); sx_expr a]
  | EPos a => XL [XS (B"pos"); sx_expr a]
  | EInv a => XL [XS (B"inv"); sx_expr a]
  | EFact a => XL [XS (B"fact"); sx_expr a]
  | EBop b l r => XL [XS (B"bop"); sx_N (bop_code b); sx_expr l; sx_expr r]
  | EApply f a => XL [XS (B"app"); sx_expr f; sx_expr a]
  | EApplyFn f a => XL [XS (B"appf"); sx_expr f; sx_expr a]
  | EApplyMul f a => XL [XS (B"appm"); sx_expr f; sx_expr a]
  | EAs l r => XL [XS (B"as"); sx_expr l; sx_expr r]
  | EFn x a => XL [XS (B"fn"); XS x; sx_expr a]
  | EOf x a => XL [XS (B"of"); XS x; sx_expr a]
  | EAssign x a => XL [XS (B"asg"); XS x; sx_expr a]
  | EEq q l r => XL [XS (B"eq"); sx_bool q; sx_expr l; sx_expr r]
  | EStmts l r => XL [XS (B"stmts"); sx_expr l; sx_expr r]
  end.

Definition sx_sym (s : sym) : sx := sx_N (sym_code s).

Definition sx_perr (e : perr) : sx :=
  XL (XS (B"perr") ::
  match e with
  | PExpectedAToken => [XS (B"ExpectedAToken")]
  | PExpectedToken f x => [XS (B"ExpectedToken"); sx_sym f; sx_sym x]
  | PFoundInvalidTokenWhileExpecting x =>
    [XS (B"FoundInvalidTokenWhileExpecting"); sx_sym x]
  | PExpectedANumber => [XS (B"ExpectedANumber")]
  | PExpectedIdentifier => [XS (B"ExpectedIdentifier")]
  | PUnexpectedSymbol s => [XS (B"UnexpectedSymbol"); sx_sym s]
  | PInvalidApplyOperands => [XS (B"InvalidApplyOperands")]
  | PUnexpectedInput => [XS (B"UnexpectedInput")]
  | PExpectedIdentifierAsArgument => [XS (B"ExpectedIdentifierAsArgument")]
  | PExpectedIdentifierInAssignment => [XS (B"ExpectedIdentifierInAssignment")]
  | PExpectedDotInLambda => [XS (B"ExpectedDotInLambda")]
  | PInvalidMixedFraction => [XS (B"InvalidMixedFraction")]
  end).

Definition sx_pres (r : pres expr) : sx :=
  match r with
  | POk e _ => sx_expr e
  | PErr e => sx_perr e
  | PFuel => XL [XS (B"fuel")]
  end.

Definition binop_of_code (n : N) : option binop :=
  match N.to_nat n with
  | 0%nat => Some OPerm | 1%nat => Some OComb | 2%nat => Some OOr
  | 3%nat => Some OXor | 4%nat => Some OAnd | 5%nat => Some OShl
  | 6%nat => Some OShr | 7%nat => Some OAdd | 8%nat => Some OSub
  | 9%nat => Some OMul | 10%nat => Some ODiv | 11%nat => Some OMod
  | _ => None
  end.

Fixpoint as_texp (s : sx) : option texp :=
  match s with
  | XL [XS k; a] =>
    if opeq k "N" then match a with XS p => Some (TNumA p) | _ => None end
    else if opeq k "I" then match a with XS p => Some (TIdA p) | _ => None end
    else
      match as_texp a with
      | Some a' =>
        if opeq k "P" then Some (TPar a')
        else if opeq k "F" then Some (TFact a')
        else if opeq k "G" then Some (TNeg a') else None
      | None => None
      end
  | XL [XS k; a; b] =>
    if opeq k "J" then
      match a, b with XS p, XS u => Some (TJuxt p u) | _, _ => None end
    else if opeq k "A" then
      match a, as_texp b with
      | XS x, Some b' => Some (TAssign x b') | _, _ => None end
    else
      match as_texp a, as_texp b with
      | Some a', Some b' =>
        if opeq k "W" then Some (TPow a' b')
        else if opeq k "S" then Some (TSeq a' b') else None
      | _, _ => None
      end
  | XL [XS k; XA n; a; b] =>
    match as_texp a, as_texp b with
    | Some a', Some b' =>
      if opeq k "B" then
        (if (n <? 0)%Z then None else
         match binop_of_code (Z.to_N n) with
         | Some o => Some (TBin o a' b') | None => None end)
      else if opeq k "E" then Some (TEq (negb (n =? 0)%Z) a' b')
      else None
    | _, _ => None
    end
  | _ => None
  end.

Definition run_lang : dispatcher := fun op args =>
  if opeq op "parse" then
    match args with
    | [XL l] => match as_toks l with
                | Some ts => Some (sx_pres (parse_tokens ts))
                | None => Some sx_bad end
    | _ => Some sx_bad
    end
  else if opeq op "depth" then
    match args with
    | [XL l] => match as_toks l with
                | Some ts => Some (sx_N (N.of_nat (fuel_consumed ts)))
                | None => Some sx_bad end
    | _ => Some sx_bad
    end
  else if opeq op "table" then
    match args with
    | [t] => match as_texp t with
             | Some e =>
               let tm := print_min e in
               let tf := print_full e in
               Some (XL [XL (map sx_tok (complete_parens tm));
                         sx_expr (parens_n (n_close tm) (ex 0 e));
                         XL (map sx_tok (complete_parens tf));
                         sx_expr (parens_n (n_close tf) (ex 0 (full e)));
                         sx_expr (ast e)])
             | None => Some sx_bad end
    | _ => Some sx_bad
    end
  else None.

Definition run_lang_line : list N -> list N := run_with run_lang.
