(* Model of cli/src/exchange_rates.rs: the cache framing (load_cached_data),
   the two hand-rolled XML scanners (parse_exchange_rates_eu / _un) and the
   lookup done by ExchangeRateHandler::relative_to_base_currency.

   Text is a list of UTF-8 *bytes* (a Rust &str is a byte slice that happens
   to be valid UTF-8); every split_at / slice is an explicit panic site with
   the out-of-bounds and the char-boundary condition that core::str checks.
   Rate tokens are kept verbatim; str::parse::<f64> + f64::is_normal is an
   oracle [o] classifying a token.  No proofs in this file. *)
From FendV Require Import Base.Prelude.
Open Scope N_scope.

(* ------------------------------------------------------------------ *)
(* results carrying the error message (what ends up on stderr)          *)

Inductive rr (A : Type) :=
| ROk (a : A)
| RErr (msg : list N)
| RPanic (site : N).
Arguments ROk {A} a.
Arguments RErr {A} msg.
Arguments RPanic {A} site.

Definition rbind {X Y} (r : rr X) (f : X -> rr Y) : rr Y :=
  match r with ROk a => f a | RErr m => RErr m | RPanic k => RPanic k end.
Notation "'rdo' x <- r ; k" := (rbind r (fun x => k))
  (at level 200, x pattern, r at level 100, k at level 200, right associativity).

(* panic sites
     1  exchange_rates.rs:100  l.split_at(3)            index past the end
     2  exchange_rates.rs:100  l.split_at(3)            not a char boundary
     3  exchange_rates.rs:102  l.split_at(find('\''))
    11  exchange_rates.rs:121  &s[find("<UN_OPERATIONAL_RATES>")..]
    12  exchange_rates.rs:135  &s[start + F_CURR_LEN..]
    13  exchange_rates.rs:137  &s[..end]
    14  exchange_rates.rs:138  &s[end + F_CURR_LEN + 1..]
    15  exchange_rates.rs:141  &s[start + RATE_LEN..]
    16  exchange_rates.rs:143  &s[..end]
    17  exchange_rates.rs:145  &s[end + RATE_LEN + 1..]
    21  exchange_rates.rs:26   cache_contents.split_at(find(';'))          *)

(* ------------------------------------------------------------------ *)
(* byte-string primitives of core::str used by the code                  *)

Fixpoint starts_with (p l : list N) : bool :=
  match p, l with
  | [], _ => true
  | a :: p', b :: l' => (a =? b) && starts_with p' l'
  | _ :: _, [] => false
  end.

Fixpoint strip_prefix (p l : list N) : option (list N) :=
  match p, l with
  | [], _ => Some l
  | a :: p', b :: l' => if a =? b then strip_prefix p' l' else None
  | _ :: _, [] => None
  end.

Fixpoint find_byte (c : N) (l : list N) : option nat :=
  match l with
  | [] => None
  | b :: r => if b =? c then Some O else option_map S (find_byte c r)
  end.

(* str::find(&str): byte offset of the first occurrence *)
Fixpoint find_sub (needle l : list N) : option nat :=
  if starts_with needle l then Some O else
  match l with
  | [] => None
  | _ :: r => option_map S (find_sub needle r)
  end.

(* UTF-8 continuation byte 10xxxxxx; str::is_char_boundary(i) is
   i == len || !is_cont(bytes[i])                                        *)
Definition is_cont (b : N) : bool := (128 <=? b) && (b <? 192).

Definition boundary_at (n : nat) (l : list N) : bool :=
  (Nat.leb n (length l)) &&
  match skipn n l with b :: _ => negb (is_cont b) | [] => true end.

(* &s[n..] , &s[..n] *)
Definition slice_from (site : N) (n : nat) (l : list N) : rr (list N) :=
  if boundary_at n l then ROk (skipn n l) else RPanic site.
Definition slice_to (site : N) (n : nat) (l : list N) : rr (list N) :=
  if boundary_at n l then ROk (firstn n l) else RPanic site.

(* str::lines(): split_inclusive('\n'), then strip one "\n" and, only if
   that was present, one "\r" *)
Definition strip_cr (l : list N) : list N :=
  match rev l with
  | b :: r => if b =? 13 then rev r else l
  | [] => l
  end.

Fixpoint lines_aux (cur : list N) (l : list N) : list (list N) :=
  match l with
  | [] => match cur with [] => [] | _ :: _ => [rev cur] end
  | b :: r => if b =? 10 then strip_cr (rev cur) :: lines_aux [] r
              else lines_aux (b :: cur) r
  end.
Definition lines (l : list N) : list (list N) := lines_aux [] l.

(* str::trim(): char::is_whitespace = Unicode White_Space, recognised here by
   the UTF-8 encodings of those 25 characters:
   U+0009..000D U+0020 | U+0085 U+00A0 | U+1680 U+2000..200A U+2028 U+2029
   U+202F U+205F U+3000 *)
Definition ws1 (a : N) : bool := ((9 <=? a) && (a <=? 13)) || (a =? 32).
Definition ws2 (a b : N) : bool := (a =? 194) && ((b =? 133) || (b =? 160)).
Definition ws3 (a b c : N) : bool :=
  ((a =? 225) && (b =? 154) && (c =? 128)) ||
  ((a =? 226) && (b =? 128) &&
     (((128 <=? c) && (c <=? 138)) || (c =? 168) || (c =? 169) || (c =? 175))) ||
  ((a =? 226) && (b =? 129) && (c =? 159)) ||
  ((a =? 227) && (b =? 128) && (c =? 128)).

Fixpoint trim_start (l : list N) : list N :=
  match l with
  | [] => []
  | a :: r1 =>
    if ws1 a then trim_start r1 else
    match r1 with
    | [] => l
    | b :: r2 =>
      if ws2 a b then trim_start r2 else
      match r2 with
      | [] => l
      | c :: r3 => if ws3 a b c then trim_start r3 else l
      end
    end
  end.

(* the same on the reversed text (encodings read backwards) *)
Fixpoint trim_start_rev (l : list N) : list N :=
  match l with
  | [] => []
  | a :: r1 =>
    if ws1 a then trim_start_rev r1 else
    match r1 with
    | [] => l
    | b :: r2 =>
      if ws2 b a then trim_start_rev r2 else
      match r2 with
      | [] => l
      | c :: r3 => if ws3 c b a then trim_start_rev r3 else l
      end
    end
  end.

Definition trim_end (l : list N) : list N := rev (trim_start_rev (rev l)).
Definition trim (l : list N) : list N := trim_end (trim_start l).

(* ------------------------------------------------------------------ *)
(* the float oracle: str::parse::<f64>() followed by is_normal()         *)

Inductive fcl :=
| FNormal                 (* parses, and the value is normal *)
| FAbnormal               (* parses to zero, a subnormal, an infinity or NaN *)
| FBad (msg : list N).    (* ParseFloatError with its Display text *)

(* an entry of the result vector: currency and the verbatim rate token;
   None = the built-in 1.0 of the base currency pushed before the scan *)
Definition entry := (list N * option (list N))%type.

Definition MSG_FAIL := B"failed to load exchange rates".

(* ------------------------------------------------------------------ *)
(* parse_exchange_rates_eu                                               *)

Definition P0 := B"<Cube currency=".
Definition P1 := B"<Cube currency='".
Definition SEP := B"' rate='".

(* str::trim_start_matches("' rate='"): strips the pattern repeatedly *)
Fixpoint strip_seps (fuel : nat) (l : list N) : list N :=
  match fuel with
  | O => l
  | S f => match strip_prefix SEP l with
           | Some r => strip_seps f r
           | None => l
           end
  end.

Inductive line_res :=
| LSkip
| LEntry (c t : list N)
| LErr (msg : list N)
| LPanic (site : N).

Section WithOracle.
Variable o : list N -> fcl.

(* one iteration of the `for l in exchange_rates.lines()` loop.
   [fixed] = true models the candidate repair (split_at_checked(3).ok_or(err)?) *)
Definition eu_core (fixed : bool) (l : list N) : line_res :=
  if negb (starts_with P0 l) then LSkip else
  match strip_prefix P1 l with
  | None => LErr MSG_FAIL
  | Some l1 =>
    if Nat.ltb (length l1) 3%nat then (if fixed then LErr MSG_FAIL else LPanic 1) else
    let c := firstn 3%nat l1 in
    let l2 := skipn 3%nat l1 in
    if (match l2 with b :: _ => is_cont b | [] => false end)
    then (if fixed then LErr MSG_FAIL else LPanic 2) else
    let l3 := strip_seps (length l2) l2 in
    match find_byte 39 l3 with
    | None => LErr MSG_FAIL
    | Some i =>
      match slice_to 3 i l3 with
      | RPanic k => LPanic k
      | RErr m => LErr m
      | ROk t =>
        match o t with
        | FBad m => LErr m
        | FAbnormal => LErr MSG_FAIL
        | FNormal => LEntry c t
        end
      end
    end
  end.

Definition eu_line (fixed : bool) (raw : list N) : line_res := eu_core fixed (trim raw).

Fixpoint eu_fold (fixed : bool) (ls : list (list N)) (acc : list entry) : rr (list entry) :=
  match ls with
  | [] => ROk acc
  | l :: r =>
    match eu_line fixed l with
    | LSkip => eu_fold fixed r acc
    | LEntry c t => eu_fold fixed r (acc ++ [(c, Some t)])
    | LErr m => RErr m
    | LPanic k => RPanic k
    end
  end.

Definition EUR := B"EUR".
Definition USD := B"USD".

Definition parse_eu (fixed : bool) (bs : list N) : rr (list entry) :=
  match eu_fold fixed (lines bs) [(EUR, None)] with
  | ROk rs => if Nat.ltb (length rs) 10%nat then RErr MSG_FAIL else ROk rs
  | RErr m => RErr m
  | RPanic k => RPanic k
  end.

(* ------------------------------------------------------------------ *)
(* parse_exchange_rates_un                                               *)

Definition U0 := B"<UN_OPERATIONAL_RATES>".
Definition FC := B"<f_curr_code>".
Definition FCE := B"</f_curr_code>".
Definition RT := B"<rate>".
Definition RTE := B"</rate>".
Definition TRAILER :=
  [13; 10; 9] ++ B"</UN_OPERATIONAL_RATES>" ++ [13; 10] ++ B"</UN_OPERATIONAL_RATES_DATASET>".
Definition MSG_OPRATES := B"op rates".
Definition MSG_FUEL := B"model out of fuel".

(* one iteration of the while loop up to (not including) the float parse *)
Inductive un_step_res :=
| UEnd                                   (* break: the exact trailer *)
| UFail (msg : list N)
| UPan (site : N)
| UTok (cur tok : list N) (rest : rr (list N)).
   (* rest = the slice of line 145, evaluated after the parse, before is_normal *)

Definition un_step (rem : list N) : un_step_res :=
  match find_sub FC rem with
  | None => if list_N_eqb rem TRAILER then UEnd else UFail MSG_FAIL
  | Some start =>
    match slice_from 12 (start + 13)%nat rem with
    | RPanic k => UPan k | RErr m => UFail m
    | ROk rem1 =>
      match find_sub FCE rem1 with
      | None => UFail MSG_FAIL
      | Some e =>
        match slice_to 13 e rem1 with
        | RPanic k => UPan k | RErr m => UFail m
        | ROk cur =>
          match slice_from 14 (e + 14)%nat rem1 with
          | RPanic k => UPan k | RErr m => UFail m
          | ROk rem2 =>
            match find_sub RT rem2 with
            | None => UFail MSG_FAIL
            | Some s2 =>
              match slice_from 15 (s2 + 6)%nat rem2 with
              | RPanic k => UPan k | RErr m => UFail m
              | ROk rem3 =>
                match find_sub RTE rem3 with
                | None => UFail MSG_FAIL
                | Some e2 =>
                  match slice_to 16 e2 rem3 with
                  | RPanic k => UPan k | RErr m => UFail m
                  | ROk tok => UTok cur tok (slice_from 17 (e2 + 7)%nat rem3)
                  end
                end
              end
            end
          end
        end
      end
    end
  end.

Fixpoint un_loop (fuel : nat) (rem : list N) (acc : list entry) : rr (list entry) :=
  match fuel with
  | O => RErr MSG_FUEL
  | S f =>
    match rem with
    | [] => ROk acc
    | _ :: _ =>
      match un_step rem with
      | UEnd => ROk acc
      | UFail m => RErr m
      | UPan k => RPanic k
      | UTok cur tok rest =>
        match o tok with
        | FBad m => RErr m
        | cls =>
          match rest with
          | RPanic k => RPanic k
          | RErr m => RErr m
          | ROk rem' =>
            match cls with
            | FNormal => un_loop f rem' (acc ++ [(cur, Some tok)])
            | _ => RErr MSG_FAIL
            end
          end
        end
      end
    end
  end.

Definition parse_un (bs : list N) : rr (list entry) :=
  match find_sub U0 bs with
  | None => RErr MSG_OPRATES
  | Some i =>
    rdo rem <- slice_from 11 i bs;
    un_loop (S (length rem)) rem [(USD, None)]
  end.

End WithOracle.

(* tokens the oracle can be consulted on (the run with an oracle that calls
   everything normal asks a superset of what any other run asks) *)
Definition all_normal : list N -> fcl := fun _ => FNormal.

Fixpoint eu_tokens (ls : list (list N)) : list (list N) :=
  match ls with
  | [] => []
  | l :: r => match eu_line all_normal false l with
              | LSkip => eu_tokens r
              | LEntry _ t => t :: eu_tokens r
              | _ => []
              end
  end.

Fixpoint un_tokens (fuel : nat) (rem : list N) : list (list N) :=
  match fuel with
  | O => []
  | S f =>
    match rem with
    | [] => []
    | _ :: _ =>
      match un_step rem with
      | UTok _ tok (ROk rem') => tok :: un_tokens f rem'
      | UTok _ tok _ => [tok]
      | _ => []
      end
    end
  end.

Definition un_tokens_of (bs : list N) : list (list N) :=
  match find_sub U0 bs with
  | None => []
  | Some i => match slice_from 11 i bs with
              | ROk rem => un_tokens (S (length rem)) rem
              | _ => []
              end
  end.

(* ------------------------------------------------------------------ *)
(* load_cached_data: fs::read_to_string (fails on invalid UTF-8), the
   `timestamp;payload` framing, u64 parse, expiry                        *)

(* core::str::from_utf8 validity (Unicode Table 3-7, well-formed sequences) *)
Definition inr8 (lo hi b : N) : bool := (lo <=? b) && (b <=? hi).

Fixpoint utf8_valid (l : list N) : bool :=
  match l with
  | [] => true
  | a :: r =>
    if a <? 128 then utf8_valid r
    else if inr8 194 223 a then
      match r with
      | b :: r2 => is_cont b && utf8_valid r2
      | _ => false
      end
    else if inr8 224 239 a then
      match r with
      | b :: c :: r3 =>
        (if a =? 224 then inr8 160 191 b
         else if a =? 237 then inr8 128 159 b
         else is_cont b) && is_cont c && utf8_valid r3
      | _ => false
      end
    else if inr8 240 244 a then
      match r with
      | b :: c :: d :: r4 =>
        (if a =? 240 then inr8 144 191 b
         else if a =? 244 then inr8 128 143 b
         else is_cont b) && is_cont c && is_cont d && utf8_valid r4
      | _ => false
      end
    else false
  end.

(* what the parsers rely on: a continuation byte never follows an ASCII byte
   (and never starts the text) -- implied by utf8_valid *)
Fixpoint wf_cont (prev_ascii : bool) (l : list N) : bool :=
  match l with
  | [] => true
  | b :: r => negb (prev_ascii && is_cont b) && wf_cont (b <? 128) r
  end.

(* <u64 as FromStr>::from_str *)
Fixpoint digits_val (l : list N) (acc : N) : option N :=
  match l with
  | [] => Some acc
  | b :: r =>
    if is_digit b then
      let v := acc * 10 + (b - 48) in
      if v <? 18446744073709551616 then digits_val r v else None
    else None
  end.

Definition parse_u64 (l : list N) : option N :=
  match l with
  | [] => None
  | b :: r =>
    if b =? 43 then (match r with [] => None | _ :: _ => digits_val r 0 end)
    else digits_val l 0
  end.

Inductive miss := MNotUtf8 | MNoSemi | MBadTimestamp | MFuture | MExpired.

Inductive cached :=
| CHit (xml : list N)      (* the payload, *including* the leading ';' *)
| CMiss (why : miss)
| CPanic (site : N).

Definition load_cached (file : list N) (now max_age : N) : cached :=
  if negb (utf8_valid file) then CMiss MNotUtf8 else
  match find_byte 59 file with
  | None => CMiss MNoSemi
  | Some i =>
    match slice_to 21 i file, slice_from 21 i file with
    | ROk ts, ROk xml =>
      match parse_u64 ts with
      | None => CMiss MBadTimestamp
      | Some t =>
        if now <? t then CMiss MFuture
        else if max_age <? now - t then CMiss MExpired
        else CHit xml
      end
    | RPanic k, _ => CPanic k
    | _, RPanic k => CPanic k
    | _, _ => CPanic 0
    end
  end.

(* ------------------------------------------------------------------ *)
(* get_exchange_rates on a cache hit + the lookup of the handler         *)

Inductive source := SrcEU | SrcUN.

Inductive outcome :=
| OMiss (why : miss)              (* falls through to the download path *)
| ORates (rs : list entry)
| OErr (msg : list N)
| OPanic (site : N).

Definition parse_rates (o : list N -> fcl) (fixed : bool) (src : source) (xml : list N) :=
  match src with SrcEU => parse_eu o fixed xml | SrcUN => parse_un o xml end.

Definition cache_rates (o : list N -> fcl) (fixed : bool) (src : source)
           (file : list N) (now max_age : N) : outcome :=
  match load_cached file now max_age with
  | CMiss w => OMiss w
  | CPanic k => OPanic k
  | CHit xml =>
    match parse_rates o fixed src xml with
    | ROk rs => ORates rs
    | RErr m => OErr m
    | RPanic k => OPanic k
    end
  end.

(* `for (c, rate) in exchange_rates { if currency == c { return Ok(rate) } }` *)
Fixpoint lookup (cur : list N) (rs : list entry) : option (option (list N)) :=
  match rs with
  | [] => None
  | (c, t) :: r => if list_N_eqb cur c then Some t else lookup cur r
  end.

(* ------------------------------------------------------------------ *)
(* independent specification vocabulary                                   *)

Definition occurs (x l : list N) : Prop := exists pre post, l = pre ++ x ++ post.

(* boolean classifier of the known defect: some line, trimmed, starts with
   <Cube currency=' and what follows is shorter than three bytes or has a
   continuation byte at offset 3 *)
Definition short_currency_line (raw : list N) : bool :=
  match strip_prefix P1 (trim raw) with
  | None => false
  | Some l1 =>
    Nat.ltb (length l1) 3%nat ||
    match skipn 3%nat l1 with b :: _ => is_cont b | [] => false end
  end.

Definition known_C20_eu_split_at (bs : list N) : bool :=
  existsb short_currency_line (lines bs).
