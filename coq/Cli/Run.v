(* Dispatcher for the Cli area (C20 exchange-rate cache, C19 front-end):
   executable entry points used by the correspondence checks. *)
From FendV Require Import Base.Prelude Cli.Rates Cli.Front.
Open Scope N_scope.

(* ---------------- C20 ---------------- *)

Definition sx_entry (e : entry) : sx :=
  match e with
  | (c, Some t) => XL [XS c; XS t]
  | (c, None) => XL [XS c]
  end.

Definition sx_rr (r : rr (list entry)) : sx :=
  match r with
  | ROk rs => XL [XS (B"ok"); XL (map sx_entry rs)]
  | RErr m => XL [XS (B"err"); XS m]
  | RPanic k => XL [XS (B"panic"); sx_N k]
  end.

Definition miss_code (m : miss) : N :=
  match m with
  | MNotUtf8 => 1 | MNoSemi => 2 | MBadTimestamp => 3 | MFuture => 4 | MExpired => 5
  end.

Definition sx_lookup (r : option (option (list N))) : sx :=
  match r with
  | None => XL [XS (B"unknown")]
  | Some None => XL [XS (B"base")]
  | Some (Some t) => XL [XS (B"tok"); XS t]
  end.

Definition sx_outcome (curs : list (list N)) (r : outcome) : sx :=
  match r with
  | OMiss w => XL [XS (B"miss"); sx_N (miss_code w)]
  | ORates rs => XL [XS (B"rates"); XL (map sx_entry rs);
                     XL (map (fun c => sx_lookup (lookup c rs)) curs)]
  | OErr m => XL [XS (B"err"); XS m]
  | OPanic k => XL [XS (B"panic"); sx_N k]
  end.

(* the float oracle, handed over as a finite table token -> class *)
Fixpoint table_lookup (tbl : list (list N * fcl)) (t : list N) : fcl :=
  match tbl with
  | [] => FBad (B"unclassified token")
  | (k, c) :: r => if list_N_eqb k t then c else table_lookup r t
  end.

Definition as_fcl (s : sx) : option (list N * fcl) :=
  match s with
  | XL [XS t; XA k] =>
    if (k =? 0)%Z then Some (t, FNormal) else if (k =? 1)%Z then Some (t, FAbnormal) else None
  | XL [XS t; XA k; XS m] => if (k =? 2)%Z then Some (t, FBad m) else None
  | _ => None
  end.

Fixpoint as_table (l : list sx) : option (list (list N * fcl)) :=
  match l with
  | [] => Some []
  | x :: r => match as_fcl x, as_table r with
              | Some p, Some ps => Some (p :: ps) | _, _ => None end
  end.

Fixpoint as_Ss (l : list sx) : option (list (list N)) :=
  match l with
  | [] => Some []
  | XS s :: r => match as_Ss r with Some ss => Some (s :: ss) | None => None end
  | _ => None
  end.

(* edits of a base document: (0 n) prefix of n bytes; (1 pos "bytes") the byte
   at pos replaced by the given bytes; (2) unchanged *)
Definition apply_edit (base : list N) (e : sx) : option (list N) :=
  match e with
  | XL [XA k; XA n] =>
    if (k =? 0)%Z then Some (firstn (Z.to_nat n) base) else None
  | XL [XA k; XA pos; XS nb] =>
    if (k =? 1)%Z then
      Some (firstn (Z.to_nat pos) base ++ nb ++ skipn (S (Z.to_nat pos)) base)
    else None
  | XL [XA k] => if (k =? 2)%Z then Some base else None
  | _ => None
  end.

Definition as_source (z : Z) : option source :=
  if (z =? 0)%Z then Some SrcEU else if (z =? 1)%Z then Some SrcUN else None.

Definition tokens_of (src : source) (xml : list N) : list (list N) :=
  match src with
  | SrcEU => eu_tokens (lines xml)
  | SrcUN => un_tokens_of xml
  end.

Definition run_c20 (op : list N) (args : list sx) : option sx :=
  (* (rates-batch src fixed "base" table (edit...)) : the parser alone *)
  if opeq op "rates-batch" then
    match args with
    | [XA s; XA fx; XS base; XL tbl; XL edits] =>
      match as_source s, as_table tbl with
      | Some src, Some t =>
        Some (XL (map (fun e =>
          match apply_edit base e with
          | Some doc => sx_rr (parse_rates (table_lookup t) (negb (fx =? 0)%Z) src doc)
          | None => sx_bad
          end) edits))
      | _, _ => Some sx_bad
      end
    | _ => Some sx_bad
    end
  (* (tokens-batch src framed now max_age "base" (edit...)) : tokens the oracle
     may be asked about; framed = 1 goes through load_cached first *)
  else if opeq op "tokens-batch" then
    match args with
    | [XA s; XA fr; XA now; XA age; XS base; XL edits] =>
      match as_source s with
      | Some src =>
        Some (XL (map (fun e =>
          match apply_edit base e with
          | Some doc =>
            if (fr =? 0)%Z then XL (map XS (tokens_of src doc))
            else match load_cached doc (Z.to_N now) (Z.to_N age) with
                 | CHit xml => XL (map XS (tokens_of src xml))
                 | _ => XL []
                 end
          | None => sx_bad
          end) edits))
      | None => Some sx_bad
      end
    | _ => Some sx_bad
    end
  (* (cache-batch src fixed now max_age "base" table (cur...) (edit...)) :
     framing + parser + lookups, what a conversion sees *)
  else if opeq op "cache-batch" then
    match args with
    | [XA s; XA fx; XA now; XA age; XS base; XL tbl; XL curs; XL edits] =>
      match as_source s, as_table tbl, as_Ss curs with
      | Some src, Some t, Some cs =>
        Some (XL (map (fun e =>
          match apply_edit base e with
          | Some doc => sx_outcome cs (cache_rates (table_lookup t) (negb (fx =? 0)%Z) src doc
                                                   (Z.to_N now) (Z.to_N age))
          | None => sx_bad
          end) edits))
      | _, _, _ => Some sx_bad
      end
    | _ => Some sx_bad
    end
  (* (load-cached "file" now max_age) *)
  else if opeq op "load-cached" then
    match args with
    | [XS file; XA now; XA age] =>
      Some (match load_cached file (Z.to_N now) (Z.to_N age) with
            | CHit xml => XL [XS (B"hit"); XS xml]
            | CMiss w => XL [XS (B"miss"); sx_N (miss_code w)]
            | CPanic k => XL [XS (B"panic"); sx_N k]
            end)
    | _ => Some sx_bad
    end
  (* (known-eu "xml") : the classifier of the listed defect *)
  else if opeq op "known-eu" then
    match args with
    | [XS xml] => Some (sx_bool (known_C20_eu_split_at xml))
    | _ => Some sx_bad
    end
  else if opeq op "utf8-valid" then
    match args with
    | [XS bs] => Some (sx_bool (utf8_valid bs))
    | _ => Some sx_bad
    end
  else None.

(* ---------------- C19 ---------------- *)

Fixpoint as_files (l : list sx) : option (list (list N * list N)) :=
  match l with
  | [] => Some []
  | XL [XS p; XS c] :: r => match as_files r with Some fs => Some ((p, c) :: fs) | None => None end
  | _ => None
  end.

Fixpoint files_read (fs : list (list N * list N)) (p : list N) : option (list N) :=
  match fs with
  | [] => None
  | (q, c) :: r => if list_N_eqb p q then Some c else files_read r p
  end.

Definition sx_action (a : ares) : sx :=
  match a with
  | AOk AHelp => XL [XS (B"help")]
  | AOk AVersion => XL [XS (B"version")]
  | AOk ARepl => XL [XS (B"repl")]
  | AOk ADefaultConfig => XL [XS (B"default-config")]
  | AOk (AEval es) => XL (XS (B"eval") :: map XS es)
  | AErrNoFilename => XL [XS (B"err"); XS (B"expected a filename")]
  | AErrNoExpr => XL [XS (B"err"); XS (B"expected an expression")]
  | AErrRead f => XL [XS (B"err-read"); XS f]
  end.

Definition as_cres (s : sx) : option cres :=
  match s with
  | XL [XS k; XS m] => if opeq k "err" then Some (CErr m) else None
  | XL [XS k; XS t; XA u; XA nl; XA ns] =>
    if opeq k "ok" then Some (COk t (negb (u =? 0)%Z) (negb (nl =? 0)%Z) (negb (ns =? 0)%Z)) else None
  | _ => None
  end.

Fixpoint as_cress (l : list sx) : option (list cres) :=
  match l with
  | [] => Some []
  | x :: r => match as_cres x, as_cress r with
              | Some c, Some cs => Some (c :: cs) | _, _ => None end
  end.

(* fend_core as a script: the context is the number of evaluations so far *)
Definition scripted_core (rs : list cres) (c : nat) (e : str) : nat * cres :=
  (S c, nth c rs (CErr (B"model: no scripted result"))).

Definition sx_out (o : out) : sx := XL [XS (o_stdout o); XS (o_stderr o); sx_N (o_exit o)].

(* toml value trees: ("s" "text") ("i" n) ("f") ("b" 0|1) ("d") ("a" v...) ("t" ("key" v)...) *)
Fixpoint as_tv (s : sx) : option tv :=
  match s with
  | XL (XS k :: rest) =>
    if opeq k "s" then match rest with [XS t] => Some (TStr t) | _ => None end
    else if opeq k "i" then match rest with [XA z] => Some (TInt z) | _ => None end
    else if opeq k "f" then Some TFloat
    else if opeq k "b" then match rest with [XA z] => Some (TBool (negb (z =? 0)%Z)) | _ => None end
    else if opeq k "d" then Some TDate
    else if opeq k "a" then
      option_map TArr
        ((fix go (l : list sx) : option (list tv) :=
            match l with
            | [] => Some []
            | x :: r => match as_tv x, go r with
                        | Some v, Some vs => Some (v :: vs) | _, _ => None end
            end) rest)
    else if opeq k "t" then
      option_map TTab
        ((fix go (l : list sx) : option (list (str * tv)) :=
            match l with
            | [] => Some []
            | XL [XS key; x] :: r => match as_tv x, go r with
                                     | Some v, Some vs => Some ((key, v) :: vs) | _, _ => None end
            | _ => None
            end) rest)
    else None
  | _ => None
  end.

Definition sx_attr (a : cu_attr) : sx :=
  XS (match a with
      | CuNone => B"none" | CuLong => B"allow-long-prefix" | CuShort => B"allow-short-prefix"
      | CuIsLong => B"is-long-prefix" | CuAlias => B"alias" end).

Definition sx_unit (u : cunit) : sx :=
  XL [XS (cu_singular u); XS (cu_plural u); XS (cu_definition u); sx_attr (cu_attribute u)].

Definition sx_diag (d : diag) : sx :=
  match d with
  | DNotUtf8 => XL [XS (B"not-utf8")]
  | DInvalid => XL [XS (B"invalid")]
  | DColorsSetting => XL [XS (B"colors-setting")]
  | DUnknownKey k => XL [XS (B"unknown-key"); XS k]
  end.

Definition sx_config (r : config * list diag) : sx :=
  let c := fst r in
  XL [XL [XS (c_prompt c);
          sx_N (match c_colors_mode c with CNever => 0 | CAuto => 1 | CAlways => 2 end);
          sx_bool (c_coulomb c); XA (c_max_hist c); sx_bool (c_internet c);
          sx_N (match c_source c with SDisabled => 0 | SEU => 1 | SUN => 2 end);
          XA (c_max_age c); XL (map sx_unit (c_units c)); sx_bool (c_comma c);
          sx_bool (c_warn c); XL (map XS (c_unknown c))];
      XL (map sx_diag (snd r))].

Definition run_c19 (op : list N) (args : list sx) : option sx :=
  (* (args (("path" "contents")...) "arg"...) : Action::from_args *)
  if opeq op "args" then
    match args with
    | XL fs :: rest =>
      match as_files fs, as_Ss rest with
      | Some files, Some a => Some (sx_action (from_args (files_read files) a))
      | _, _ => Some sx_bad
      end
    | _ => Some sx_bad
    end
  (* the same through the specification (lex + group + decide) *)
  else if opeq op "args-spec" then
    match args with
    | XL fs :: rest =>
      match as_files fs, as_Ss rest with
      | Some files, Some a => Some (sx_action (spec_from_args (files_read files) a))
      | _, _ => Some sx_bad
      end
    | _ => Some sx_bad
    end
  (* (eval-exprs (result...) "expr"...) : eval_exprs on a scripted core *)
  else if opeq op "eval-exprs" then
    match args with
    | XL rs :: rest =>
      match as_cress rs, as_Ss rest with
      | Some results, Some es => Some (sx_out (eval_exprs nat (scripted_core results) O es))
      | _, _ => Some sx_bad
      end
    | _ => Some sx_bad
    end
  (* (config absent|not-utf8|toml-error) / (config tree <toml value>) : read_config_file *)
  else if opeq op "config" then
    match args with
    | [XS k] =>
      if opeq k "absent" then Some (sx_config (read_config FAbsent))
      else if opeq k "not-utf8" then Some (sx_config (read_config FNotUtf8))
      else if opeq k "toml-error" then Some (sx_config (read_config FTomlError))
      else Some sx_bad
    | [XS k; t] =>
      if opeq k "tree" then
        match as_tv t with
        | Some (TTab kv) => Some (sx_config (read_config (FTree kv)))
        | _ => Some sx_bad
        end
      else Some sx_bad
    | _ => Some sx_bad
    end
  else None.

Definition run_cli : dispatcher := fun op args =>
  match run_c20 op args with
  | Some r => Some r
  | None => run_c19 op args
  end.

Definition run_cli_line : list N -> list N := run_with run_cli.
