(* Proofs about the front-end model Cli/Front.v (C19) *)
From Coq Require Import Lia ZifyBool.
From FendV Require Import Base.Prelude Cli.Rates Cli.Front.
Open Scope N_scope.
Arguments N.eqb : simpl never.
Arguments N.ltb : simpl never.
Arguments N.leb : simpl never.

(* ------------------------------------------------------------------ *)
(* argument folding = lex + group                                        *)

Definition final_exprs (s : st) : list str :=
  s_exprs s ++ match s_expr s with [] => [] | _ :: _ => [s_expr s] end.

Lemma blank_nil : blank [] = true.
Proof. reflexivity. Qed.

Lemma nonblank_nonempty : forall w, blank w = false -> w <> [].
Proof. intros w H ->. discriminate. Qed.

Lemma join_sp_nonempty : forall w ws, w <> [] -> join_sp (w :: ws) <> [].
Proof. intros [|x w] ws H; [congruence | discriminate]. Qed.

Lemma push_word_join : forall ws w, Forall (fun x => blank x = false) ws ->
  push_word (join_sp ws) w = join_sp (ws ++ [w]).
Proof.
  intros [|w0 ws] w H; [simpl; now rewrite app_nil_r|].
  inversion H; subst.
  unfold push_word. destruct (join_sp (w0 :: ws)) eqn:E;
    [exfalso; exact (join_sp_nonempty w0 ws (nonblank_nonempty _ H2) E)|]. rewrite <- E.
  simpl. rewrite map_app, concat_app. simpl. rewrite app_nil_r, <- !app_assoc. reflexivity.
Qed.

Lemma opt_join_expr : forall ws, Forall (fun x => blank x = false) ws ->
  match join_sp ws with [] => [] | _ :: _ => [join_sp ws] end = opt_join ws.
Proof.
  intros [|w ws] H; [reflexivity|]. inversion H; subst.
  destruct (join_sp (w :: ws)) eqn:E;
    [exfalso; exact (join_sp_nonempty w ws (nonblank_nonempty _ H2) E) | unfold opt_join; now rewrite E].
Qed.

Lemma flush_eq : forall (E : list str) ws, Forall (fun x => blank x = false) ws ->
  match join_sp ws with [] => E | _ :: _ => E ++ [join_sp ws] end = E ++ opt_join ws.
Proof.
  intros E [|w ws] H; [simpl; now rewrite app_nil_r|]. inversion H; subst.
  destruct (join_sp (w :: ws)) eqn:X;
    [exfalso; exact (join_sp_nonempty w ws (nonblank_nonempty _ H2) X) | unfold opt_join; now rewrite X].
Qed.

Section ArgsProofs.
Variable read : str -> option str.

Definition lex_cons (i : item) (l : lexed) : lexed :=
  match l with LOk its => LOk (i :: its) | LErr e => LErr e end.

Lemma lex_eq : forall bdd a r,
  lex read bdd (a :: r) =
    if negb bdd then lex_cons (IWord a) (lex read false r)
    else if is_one_of a HELP_WORDS then lex_cons IHelp (lex read true r)
    else if is_one_of a VERSION_WORDS then lex_cons IVersion (lex read true r)
    else if is_one_of a DEFCFG_WORDS then lex_cons IDefCfg (lex read true r)
    else if is_one_of a FILE_WORDS then
      match r with
      | [] => LErr AErrNoFilename
      | f :: r' => match read f with
                   | None => LErr (AErrRead f)
                   | Some c => lex_cons (IExpr c) (lex read true r')
                   end
      end
    else if is_one_of a EVAL_WORDS then
      match r with
      | [] => LErr AErrNoExpr
      | e :: r' => lex_cons (IExpr e) (lex read true r')
      end
    else if list_N_eqb a (B"--") then lex read false r
    else match read a with
         | Some c => lex_cons (IExpr c) (lex read true r)
         | None => lex_cons (IWord a) (lex read true r)
         end.
Proof. reflexivity. Qed.

(* the statement proved by induction: what the loop does from any state whose
   pending expression is a join of non-blank words *)
Definition fold_ok (args : list str) (s : st) (ws : list str) : Prop :=
  match lex read (s_bdd s) args with
  | LErr e => fold_args read args s = inr e
  | LOk its =>
    exists s', fold_args read args s = inl s' /\
      s_help s' = s_help s || existsb is_help its /\
      s_ver s' = s_ver s || existsb is_version its /\
      s_def s' = s_def s || existsb is_defcfg its /\
      final_exprs s' = s_exprs s ++ opt_join (ws ++ fst (group its)) ++ snd (group its)
  end.

Lemma group_word : forall w r, group (IWord w :: r) =
  ((if blank w then fst (group r) else w :: fst (group r)), snd (group r)).
Proof. intros. simpl. destruct (group r). reflexivity. Qed.

Lemma group_expr : forall x r, group (IExpr x :: r) = ([], x :: opt_join (fst (group r)) ++ snd (group r)).
Proof. intros. simpl. destruct (group r). reflexivity. Qed.

Lemma fold_lex : forall n args s ws, (length args <= n)%nat ->
  s_expr s = join_sp ws -> Forall (fun x => blank x = false) ws -> fold_ok args s ws.
Proof.
  induction n as [|n IH]; intros args s ws Hn He Hw.
  { destruct args; [|simpl in Hn; lia]. unfold fold_ok. simpl.
    exists s. repeat split; try (now rewrite orb_false_r).
    unfold final_exprs. rewrite He, app_nil_r, app_nil_r. f_equal. now apply opt_join_expr. }
  destruct args as [|a r].
  { unfold fold_ok. simpl. exists s. repeat split; try (now rewrite orb_false_r).
    unfold final_exprs. rewrite He, app_nil_r, app_nil_r. f_equal. now apply opt_join_expr. }
  assert (Lr : (length r <= n)%nat) by (simpl in Hn; lia).
  (* generic continuation steps *)
  assert (Flag : forall s1 i,
            s_bdd s1 = s_bdd s -> s_exprs s1 = s_exprs s -> s_expr s1 = s_expr s ->
            group (i :: nil) = ([], []) ->
            (forall its, group (i :: its) = group its) ->
            s_help s1 = s_help s || is_help i -> s_ver s1 = s_ver s || is_version i ->
            s_def s1 = s_def s || is_defcfg i ->
            fold_args read (a :: r) s = fold_args read r s1 ->
            lex read (s_bdd s) (a :: r) = lex_cons i (lex read (s_bdd s) r) ->
            fold_ok (a :: r) s ws).
  { intros s1 i Eb Ex Ee _ Hg Hh Hv Hd Hf Hl. unfold fold_ok. rewrite Hl, Hf.
    pose proof (IH r s1 ws Lr (eq_trans Ee He) Hw) as P. unfold fold_ok in P. rewrite Eb in P.
    destruct (lex read (s_bdd s) r) as [its|e]; cbn [lex_cons existsb]; [|exact P].
    destruct P as [s' [F [H1 [H2 [H3 H4]]]]]. exists s'. split; [exact F|].
    rewrite H1, H2, H3, H4, Hh, Hv, Hd, Ex, (Hg its). rewrite !orb_assoc. repeat split; reflexivity. }
  assert (Expr : forall x r1, (length r1 <= n)%nat ->
            fold_args read (a :: r) s = fold_args read r1 (flush_push s x) ->
            lex read (s_bdd s) (a :: r) = lex_cons (IExpr x) (lex read (s_bdd s) r1) ->
            fold_ok (a :: r) s ws).
  { intros x r1 L1 Hf Hl. unfold fold_ok. rewrite Hl, Hf.
    pose proof (IH r1 (flush_push s x) [] L1 eq_refl (Forall_nil _)) as P. unfold fold_ok in P.
    simpl s_bdd in P.
    destruct (lex read (s_bdd s) r1) as [its|e]; cbn [lex_cons existsb is_help is_version is_defcfg orb]; [|exact P].
    destruct P as [s' [F [H1 [H2 [H3 H4]]]]]. exists s'. split; [exact F|].
    rewrite H1, H2, H3, H4. rewrite group_expr. cbn [fst snd flush_push s_help s_ver s_def s_exprs s_expr app].
    rewrite app_nil_r. repeat split; try reflexivity.
    rewrite He, (flush_eq (s_exprs s) ws Hw). rewrite <- !app_assoc. reflexivity. }
  assert (Word : fold_args read (a :: r) s = fold_args read r (add_word s a) ->
            lex read (s_bdd s) (a :: r) = lex_cons (IWord a) (lex read (s_bdd s) r) ->
            fold_ok (a :: r) s ws).
  { intros Hf Hl. unfold fold_ok. rewrite Hl, Hf. unfold add_word.
    destruct (blank a) eqn:Ba.
    - pose proof (IH r s ws Lr He Hw) as P. unfold fold_ok in P.
      destruct (lex read (s_bdd s) r) as [its|e]; cbn [lex_cons existsb is_help is_version is_defcfg orb]; [|exact P].
      destruct P as [s' [F [H1 [H2 [H3 H4]]]]]. exists s'. split; [exact F|].
      rewrite H1, H2, H3, H4, group_word, Ba. cbn [fst snd]. repeat split; reflexivity.
    - pose proof (IH r (mkst (s_help s) (s_ver s) (s_def s) (s_bdd s) (s_exprs s) (push_word (s_expr s) a))
                     (ws ++ [a]) Lr) as P.
      simpl in P. rewrite He, (push_word_join ws a Hw) in P.
      specialize (P eq_refl). unfold fold_ok in P. simpl in P.
      assert (Hw' : Forall (fun x => blank x = false) (ws ++ [a])).
      { apply Forall_app. split; [exact Hw | constructor; [exact Ba | constructor]]. }
      specialize (P Hw').
      rewrite He, (push_word_join ws a Hw).
      destruct (lex read (s_bdd s) r) as [its|e]; cbn [lex_cons existsb is_help is_version is_defcfg orb]; [|exact P].
      destruct P as [s' [F [H1 [H2 [H3 H4]]]]]. exists s'. split; [exact F|].
      rewrite H1, H2, H3, H4, group_word, Ba. cbn [fst snd s_help s_ver s_def s_exprs]. rewrite <- app_assoc. repeat split; reflexivity. }
  destruct (s_bdd s) eqn:Eb.
  2:{ (* after `--`: everything is a word *)
    apply Word.
    - cbn [fold_args]. rewrite Eb. reflexivity.
    - rewrite lex_eq. reflexivity. }
  destruct (is_one_of a HELP_WORDS) eqn:E1.
  { apply (Flag (mkst true (s_ver s) (s_def s) (s_bdd s) (s_exprs s) (s_expr s)) IHelp); try reflexivity; try exact Eb.
    - simpl. now rewrite orb_true_r.
    - simpl. now rewrite orb_false_r.
    - simpl. now rewrite orb_false_r.
    - cbn [fold_args]. rewrite Eb, E1. reflexivity.
    - rewrite lex_eq, E1. reflexivity. }
  destruct (is_one_of a VERSION_WORDS) eqn:E2.
  { apply (Flag (mkst (s_help s) true (s_def s) (s_bdd s) (s_exprs s) (s_expr s)) IVersion); try reflexivity; try exact Eb.
    - simpl. now rewrite orb_false_r.
    - simpl. now rewrite orb_true_r.
    - simpl. now rewrite orb_false_r.
    - cbn [fold_args]. rewrite Eb, E1, E2. reflexivity.
    - rewrite lex_eq, E1, E2. reflexivity. }
  destruct (is_one_of a DEFCFG_WORDS) eqn:E3.
  { apply (Flag (mkst (s_help s) (s_ver s) true (s_bdd s) (s_exprs s) (s_expr s)) IDefCfg); try reflexivity; try exact Eb.
    - simpl. now rewrite orb_false_r.
    - simpl. now rewrite orb_false_r.
    - simpl. now rewrite orb_true_r.
    - cbn [fold_args]. rewrite Eb, E1, E2, E3. reflexivity.
    - rewrite lex_eq, E1, E2, E3. reflexivity. }
  destruct (is_one_of a FILE_WORDS) eqn:E4.
  { destruct r as [|f r'].
    - unfold fold_ok. rewrite Eb, lex_eq, E1, E2, E3, E4. cbn [fold_args]. rewrite Eb, E1, E2, E3, E4. reflexivity.
    - destruct (read f) as [c|] eqn:Rf.
      + apply (Expr c r'); [simpl in Lr; lia | |].
        * cbn [fold_args]. rewrite Eb, E1, E2, E3, E4, Rf. reflexivity.
        * rewrite lex_eq, E1, E2, E3, E4, Rf. reflexivity.
      + unfold fold_ok. rewrite Eb, lex_eq, E1, E2, E3, E4, Rf. cbn [fold_args]. rewrite Eb, E1, E2, E3, E4, Rf. reflexivity. }
  destruct (is_one_of a EVAL_WORDS) eqn:E5.
  { destruct r as [|e r'].
    - unfold fold_ok. rewrite Eb, lex_eq, E1, E2, E3, E4, E5. cbn [fold_args]. rewrite Eb, E1, E2, E3, E4, E5. reflexivity.
    - apply (Expr e r'); [simpl in Lr; lia | |].
      * cbn [fold_args]. rewrite Eb, E1, E2, E3, E4, E5. reflexivity.
      * rewrite lex_eq, E1, E2, E3, E4, E5. reflexivity. }
  destruct (list_N_eqb a (B"--")) eqn:E6.
  { (* `--`: only the flag changes *)
    unfold fold_ok. rewrite Eb, lex_eq, E1, E2, E3, E4, E5, E6. simpl negb. cbv iota.
    assert (Hf : fold_args read (a :: r) s =
                 fold_args read r (mkst (s_help s) (s_ver s) (s_def s) false (s_exprs s) (s_expr s))).
    { cbn [fold_args]. rewrite Eb, E1, E2, E3, E4, E5, E6. reflexivity. }
    rewrite Hf.
    pose proof (IH r (mkst (s_help s) (s_ver s) (s_def s) false (s_exprs s) (s_expr s)) ws Lr He Hw) as P.
    unfold fold_ok in P. simpl in P. exact P. }
  destruct (read a) as [c|] eqn:Ra.
  - apply (Expr c r); [exact Lr | |].
    + cbn [fold_args]. rewrite Eb, E1, E2, E3, E4, E5, E6, Ra. reflexivity.
    + rewrite lex_eq, E1, E2, E3, E4, E5, E6, Ra. reflexivity.
  - apply Word.
    + cbn [fold_args]. rewrite Eb, E1, E2, E3, E4, E5, E6, Ra. reflexivity.
    + rewrite lex_eq, E1, E2, E3, E4, E5, E6, Ra. reflexivity.
Qed.

Lemma finish_final : forall s,
  finish s = if s_help s then AHelp else if s_ver s then AVersion else if s_def s then ADefaultConfig
             else match final_exprs s with [] => ARepl | es => AEval es end.
Proof.
  intros s. unfold finish, final_exprs.
  destruct (s_help s); [reflexivity|]. destruct (s_ver s); [reflexivity|].
  destruct (s_def s); [reflexivity|].
  destruct (s_exprs s) as [|e es]; destruct (s_expr s) as [|x xs]; simpl; try reflexivity.
  now rewrite app_nil_r.
Qed.

Theorem args_fold_spec : forall args, from_args read args = spec_from_args read args.
Proof.
  intros args. unfold from_args, spec_from_args.
  pose proof (fold_lex (length args) args st0 [] (Nat.le_refl _) eq_refl (Forall_nil _)) as P.
  unfold fold_ok in P. simpl s_bdd in P.
  destruct (lex read true args) as [its|e].
  - destruct P as [s' [F [H1 [H2 [H3 H4]]]]]. rewrite F. f_equal.
    rewrite finish_final, H1, H2, H3, H4. simpl. unfold decide, spec_exprs.
    destruct (group its) as [ws es]. reflexivity.
  - now rewrite P.
Qed.

End ArgsProofs.

(* consequences of the specification, stated directly on argument lists *)

Lemma lex_plain : forall read args,
  (forall a, In a args -> is_one_of a (HELP_WORDS ++ VERSION_WORDS ++ DEFCFG_WORDS ++ FILE_WORDS ++ EVAL_WORDS ++ [B"--"]) = false
                          /\ read a = None) ->
  lex read true args = LOk (map IWord args).
Proof.
  induction args as [|a r IH]; intros H; [reflexivity|].
  destruct (H a (or_introl eq_refl)) as [H1 H2].
  unfold is_one_of in H1. rewrite !existsb_app in H1.
  apply orb_false_iff in H1 as [Ea H1]. apply orb_false_iff in H1 as [Eb H1].
  apply orb_false_iff in H1 as [Ec H1]. apply orb_false_iff in H1 as [Ed H1].
  apply orb_false_iff in H1 as [Ee H1]. cbn [existsb] in H1. rewrite orb_false_r in H1.
  rewrite lex_eq. cbn [negb]. unfold is_one_of. rewrite Ea, Eb, Ec, Ed, Ee, H1, H2.
  rewrite IH; [reflexivity|]. intros b Hb. apply H. now right.
Qed.

Lemma group_words : forall ws, group (map IWord ws) = (filter (fun w => negb (blank w)) ws, []).
Proof.
  induction ws as [|w ws IH]; [reflexivity|]. simpl. rewrite IH. destruct (blank w); reflexivity.
Qed.

Lemma existsb_map_word : forall f (l : list str),
  existsb f (map IWord l) = existsb (fun w => f (IWord w)) l.
Proof. induction l; simpl; [reflexivity | now rewrite IHl]. Qed.

Lemma existsb_const_false : forall (l : list str), existsb (fun _ => false) l = false.
Proof. induction l; simpl; auto. Qed.

(* positional arguments that are neither options nor readable files are
   joined by single spaces into one expression (blank ones dropped) *)
Theorem args_positional_join : forall read args,
  (forall a, In a args -> is_one_of a (HELP_WORDS ++ VERSION_WORDS ++ DEFCFG_WORDS ++ FILE_WORDS ++ EVAL_WORDS ++ [B"--"]) = false
                          /\ read a = None) ->
  from_args read args =
    AOk (match filter (fun w => negb (blank w)) args with
         | [] => ARepl
         | ws => AEval [join_sp ws]
         end).
Proof.
  intros read args H. rewrite args_fold_spec. unfold spec_from_args. rewrite (lex_plain _ _ H).
  unfold decide. rewrite !existsb_map_word. cbn [is_help is_version is_defcfg].
  rewrite existsb_const_false. unfold spec_exprs. rewrite group_words. rewrite app_nil_r.
  destruct (filter (fun w => negb (blank w)) args); reflexivity.
Qed.

(* help wins over everything once the arguments lex *)
Theorem args_help_wins : forall read args its,
  lex read true args = LOk its -> existsb is_help its = true -> from_args read args = AOk AHelp.
Proof.
  intros read args its L H. rewrite args_fold_spec. unfold spec_from_args. rewrite L.
  unfold decide. now rewrite H.
Qed.

(* ------------------------------------------------------------------ *)
(* eval_exprs                                                            *)

Section MainProofs.
Variable ctx : Type.
Variable core : ctx -> str -> ctx * cres.

Lemma results_app : forall pre c post,
  results ctx core c (pre ++ post) = results ctx core c pre ++ results ctx core (ctx_after ctx core c pre) post.
Proof.
  induction pre as [|e pre IH]; intros c post; [reflexivity|].
  simpl. destruct (core c e) as [c' res] eqn:E. simpl. now rewrite IH.
Qed.

Lemma eval_exprs_cons : forall c e r,
  eval_exprs ctx core c (e :: r) =
  let '(c', res) := core c e in
  match res with
  | CErr m => mkout [] (B"Error: " ++ m ++ [10]) 1
  | COk _ _ _ _ =>
    let printed := match r with [] => render res | _ :: _ => [] end in
    let o := eval_exprs ctx core c' r in
    mkout (printed ++ o_stdout o) (o_stderr o) (o_exit o)
  end.
Proof. reflexivity. Qed.

Theorem vars_carry : forall c e r, r <> [] -> is_cok (snd (core c e)) = true ->
  eval_exprs ctx core c (e :: r) = eval_exprs ctx core (fst (core c e)) r.
Proof.
  intros c e r Hr Hok. rewrite eval_exprs_cons. destruct (core c e) as [c' res].
  cbn [fst snd] in *. destruct res; [discriminate|]. destruct r as [|e2 r2]; [congruence|].
  cbv zeta. generalize (eval_exprs ctx core c' (e2 :: r2)). intros [so se ex]. reflexivity.
Qed.

Theorem prints_last : forall es c, es <> [] ->
  forallb is_cok (results ctx core c es) = true ->
  eval_exprs ctx core c es = mkout (render (last (results ctx core c es) (CErr []))) [] 0.
Proof.
  induction es as [|e r IH]; intros c Hne Hall; [congruence|].
  simpl in *. destruct (core c e) as [c' res] eqn:E. simpl in Hall.
  apply andb_true_iff in Hall as [H1 H2]. destruct res; [discriminate|].
  destruct r as [|e2 r2].
  - simpl. now rewrite app_nil_r.
  - rewrite IH by (try discriminate; exact H2).
    simpl. destruct (core c' e2) as [c2 res2]. reflexivity.
Qed.

Theorem stops_at_first_error : forall pre c e post m,
  forallb is_cok (results ctx core c pre) = true ->
  snd (core (ctx_after ctx core c pre) e) = CErr m ->
  eval_exprs ctx core c (pre ++ e :: post) = mkout [] (B"Error: " ++ m ++ [10]) 1.
Proof.
  induction pre as [|p pre IH]; intros c e post m Hall He.
  - simpl in *. destruct (core c e) as [c' res]. simpl in He. subst. reflexivity.
  - simpl in *. destruct (core c p) as [c' res] eqn:E. simpl in *.
    apply andb_true_iff in Hall as [H1 H2]. destruct res; [discriminate|].
    rewrite (IH c' e post m H2 He). simpl.
    destruct (pre ++ e :: post) eqn:X; [destruct pre; discriminate | reflexivity].
Qed.

Theorem exit_code : forall es c,
  (o_exit (eval_exprs ctx core c es) = 0 <-> forallb is_cok (results ctx core c es) = true) /\
  (o_exit (eval_exprs ctx core c es) = 0 \/ o_exit (eval_exprs ctx core c es) = 1).
Proof.
  induction es as [|e r IH]; intros c; simpl.
  - split; [split; reflexivity | now left].
  - destruct (core c e) as [c' res]. destruct res; simpl.
    + split; [split; discriminate | now right].
    + destruct (IH c') as [I1 I2]. destruct (eval_exprs ctx core c' r). simpl in *. split; assumption.
Qed.

(* an error message appears exactly when the status is 1, and then nothing is printed *)
Theorem error_shape : forall es c,
  o_exit (eval_exprs ctx core c es) = 1 ->
  o_stdout (eval_exprs ctx core c es) = [] /\
  exists m, o_stderr (eval_exprs ctx core c es) = B"Error: " ++ m ++ [10].
Proof.
  induction es as [|e r IH]; intros c; [simpl; discriminate|].
  rewrite eval_exprs_cons. destruct (core c e) as [c' res]. destruct res; cbv zeta.
  - intros _. split; [reflexivity | now exists msg].
  - destruct r as [|e2 r2].
    + simpl. discriminate.
    + specialize (IH c'). revert IH. generalize (eval_exprs ctx core c' (e2 :: r2)).
      intros [so se ex] IH Hx. simpl in *. destruct (IH Hx) as [I1 I2]. split; [exact I1 | exact I2].
Qed.

End MainProofs.

(* ------------------------------------------------------------------ *)
(* configuration                                                         *)

(* every field but the list of unknown keys *)
Definition same_settings (a b : config) : Prop :=
  c_prompt a = c_prompt b /\ c_colors_mode a = c_colors_mode b /\ c_coulomb a = c_coulomb b /\
  c_max_hist a = c_max_hist b /\ c_internet a = c_internet b /\ c_source a = c_source b /\
  c_max_age a = c_max_age b /\ c_units a = c_units b /\ c_comma a = c_comma b /\
  c_warn a = c_warn b /\ c_diag_colors a = c_diag_colors b.

Lemma same_settings_refl : forall a, same_settings a a.
Proof. intros. unfold same_settings. repeat split. Qed.

Lemma apply_upd_same : forall a b u, same_settings a b -> same_settings (apply_upd a u) (apply_upd b u).
Proof.
  intros a b u H. unfold same_settings in *.
  destruct H as [? [? [? [? [? [? [? [? [? [? ?]]]]]]]]]].
  destruct u; simpl; repeat split; auto.
Qed.

Lemma cfg_step_same : forall a b n k v, same_settings a b ->
  match cfg_step a n k v, cfg_step b n k v with
  | Some (a', n1), Some (b', n2) => same_settings a' b' /\ n1 = n2
  | None, None => True
  | _, _ => False
  end.
Proof.
  intros a b n k v H. unfold cfg_step. destruct (step_upd n k v) as [[u n']|]; [|exact I].
  split; [now apply apply_upd_same | reflexivity].
Qed.

Lemma visit_same : forall kv a b n, same_settings a b ->
  match visit_config kv a n, visit_config kv b n with
  | Some a', Some b' => same_settings a' b'
  | None, None => True
  | _, _ => False
  end.
Proof.
  induction kv as [|[k v] r IH]; intros a b n H; simpl; [exact H|].
  pose proof (cfg_step_same a b n k v H) as S.
  destruct (cfg_step a n k v) as [[a' n1]|]; destruct (cfg_step b n k v) as [[b' n2]|]; try contradiction; auto.
  destruct S as [S ->]. now apply IH.
Qed.

Lemma step_upd_unknown : forall n k v, is_one_of k KNOWN_KEYS = false ->
  step_upd n k v = Some (UUnknown k, n).
Proof.
  intros n k v H. unfold is_one_of, KNOWN_KEYS in H. cbn [existsb] in H.
  repeat (apply orb_false_iff in H; destruct H as [? H]).
  unfold step_upd, seq.
  repeat match goal with
         | E : list_N_eqb k ?x = false |- context [list_N_eqb k ?y] =>
           change y with x; rewrite E; clear E
         end.
  reflexivity.
Qed.

Lemma cfg_step_unknown : forall c n k v, is_one_of k KNOWN_KEYS = false ->
  cfg_step c n k v = Some (apply_upd c (UUnknown k), n).
Proof. intros. unfold cfg_step. now rewrite step_upd_unknown. Qed.

(* a recognised key never yields UUnknown *)
Lemma step_upd_known : forall n k v u n', is_one_of k KNOWN_KEYS = true ->
  step_upd n k v = Some (u, n') -> forall k', u <> UUnknown k'.
Proof.
  intros n k v u n' H S k' ->. unfold is_one_of, KNOWN_KEYS in H. cbn [existsb] in H.
  unfold step_upd, seq in S.
  repeat match type of S with
         | context [list_N_eqb k ?y] =>
           let E := fresh "E" in destruct (list_N_eqb k y) eqn:E; cbn [orb] in S
         end;
  try (repeat match type of S with
              | context [if ?x then _ else _] => destruct x
              | context [match as_string ?x with _ => _ end] => destruct (as_string x)
              | context [match as_bool ?x with _ => _ end] => destruct (as_bool x)
              | context [match as_unsigned ?x with _ => _ end] => destruct (as_unsigned x)
              | context [match units_of ?x with _ => _ end] => destruct (units_of x)
              | context [match ?x with TStr _ => _ | _ => _ end] => destruct x
              end; discriminate).
Qed.

(* a key that is not one of the recognised ones changes no setting *)
Theorem unknown_keys_ignored : forall kv1 k v kv2 c n,
  is_one_of k KNOWN_KEYS = false ->
  match visit_config (kv1 ++ (k, v) :: kv2) c n, visit_config (kv1 ++ kv2) c n with
  | Some a, Some b => same_settings a b
  | None, None => True
  | _, _ => False
  end.
Proof.
  induction kv1 as [|[k1 v1] r IH]; intros k v kv2 c n Hk.
  - simpl. rewrite (cfg_step_unknown c n k v Hk). apply visit_same.
    unfold same_settings. simpl. repeat split.
  - simpl. destruct (cfg_step c n k1 v1) as [[c' n']|]; [now apply IH | exact I].
Qed.

(* the unknown keys are remembered in the order met, for the warnings *)
Theorem unknown_keys_listed : forall kv c n c',
  visit_config kv c n = Some c' ->
  exists extra, c_unknown c' = c_unknown c ++ extra /\
    forall k, In k extra -> In k (map fst kv) /\ is_one_of k KNOWN_KEYS = false.
Proof.
  induction kv as [|[k v] r IH]; intros c n c' H; simpl in H.
  - inversion H. exists []. split; [now rewrite app_nil_r | intros ? []].
  - destruct (is_one_of k KNOWN_KEYS) eqn:Ek.
    + unfold cfg_step in H. destruct (step_upd n k v) as [[u n1]|] eqn:S; [|discriminate].
      pose proof (step_upd_known _ _ _ _ _ Ek S) as Hu.
      assert (U : c_unknown (apply_upd c u) = c_unknown c).
      { destruct u; try reflexivity. exfalso. now apply (Hu k0). }
      destruct (IH _ _ _ H) as [extra [E1 E2]]. exists extra. rewrite E1, U. split; [reflexivity|].
      intros k0 Hk0. destruct (E2 k0 Hk0). split; [now right | assumption].
    + rewrite (cfg_step_unknown c n k v Ek) in H.
      destruct (IH _ _ _ H) as [extra [E1 E2]]. simpl in E1.
      exists (k :: extra). rewrite E1, <- app_assoc. split; [reflexivity|].
      intros k0 [<-|Hk0]; [split; [now left | exact Ek]|].
      destruct (E2 k0 Hk0). split; [now right | assumption].
Qed.

(* absent: silently the defaults; unreadable as UTF-8 or as TOML, or rejected
   by a visitor: the defaults and exactly one diagnostic; otherwise the
   visited settings *)
Theorem config_cases : forall f,
  match f with
  | FAbsent => read_config f = (default_config, [])
  | FNotUtf8 => read_config f = (default_config, [DNotUtf8])
  | FTomlError => read_config f = (default_config, [DInvalid])
  | FTree kv =>
    (visit_config kv default_config seen0 = None /\ read_config f = (default_config, [DInvalid])) \/
    (exists c, visit_config kv default_config seen0 = Some c /\ read_config f = (c, warnings c))
  end.
Proof.
  intros [| | |kv]; try reflexivity. simpl.
  destruct (visit_config kv default_config seen0) as [c|]; [right; now exists c | now left].
Qed.

Theorem malformed_gives_default : forall f,
  (f = FNotUtf8 \/ f = FTomlError \/ (exists kv, f = FTree kv /\ visit_config kv default_config seen0 = None)) ->
  fst (read_config f) = default_config /\ snd (read_config f) <> [].
Proof.
  intros f [->|[->|[kv [-> H]]]]; simpl; try (split; [reflexivity | discriminate]).
  rewrite H. split; [reflexivity | discriminate].
Qed.

(* piped standard input is evaluated as one expression; argument errors exit with 1 *)
Theorem stdin_mode : forall ctx core h v d c0 input e,
  main_out ctx core h v d c0 (AOk ARepl) (Piped (Some input)) e = Some (eval_exprs ctx core c0 [input]).
Proof. reflexivity. Qed.

Theorem arg_errors_exit_1 : forall ctx core h v d c0 a stdin e,
  (forall x, a <> AOk x) -> exists o, main_out ctx core h v d c0 a stdin e = Some o /\ o_exit o = 1 /\ o_stdout o = [].
Proof.
  intros ctx core h v d c0 a stdin e H. destruct a as [x| | |f]; [exfalso; now apply (H x)| | |];
    eexists; (split; [reflexivity | split; reflexivity]).
Qed.
